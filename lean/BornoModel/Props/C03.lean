import BornoModel.Eval
import BornoModel.Lemmas.EvalInv
/-! # C03 — names resolve through nested block scopes; shadowing and lifetime follow blocks -/
namespace Borno.Props.C03
open Borno

/-- a name denotes the binding of the innermost scope that has one: the lookup tries the frame
    itself and only then its parent -/
theorem get_innermost_first (σ : Store) (n : Name) (f env : Nat) (fr : Frame) (h : σ.envs[env]? = some fr) :
    σ.getGo n (f + 1) env =
      match fr.vars.lookup n with
      | some v => some v
      | none => (match fr.parent with
                 | some p => σ.getGo n f p
                 | none => none) := by
  rw [Store.getGo]; simp only [h]
  cases List.lookup n fr.vars with
  | some v => rfl
  | none => cases fr.parent <;> rfl

/-- an assignment updates exactly the binding a read at the same point would return: `find` and `get`
    walk the same chain and stop at the same frame -/
theorem find_agrees_with_get (σ : Store) (n : Name) : ∀ (f env : Nat),
    (σ.findGo n f env).isSome = (σ.getGo n f env).isSome ∧
    (∀ fr, σ.findGo n f env = some fr → ∃ frame, σ.envs[fr]? = some frame ∧ frame.vars.lookup n = σ.getGo n f env) := by
  intro f
  induction f with
  | zero => intro env; simp [Store.findGo, Store.getGo]
  | succ f ih =>
    intro env
    rw [Store.findGo, Store.getGo]
    cases henv : σ.envs[env]? with
    | none => simp
    | some fr =>
      simp only
      cases hl : fr.vars.lookup n with
      | some v =>
        simp
        exact ⟨fr, henv, hl⟩
      | none =>
        simp
        cases hp : fr.parent with
        | none => simp
        | some p => simpa using ih p

/-- a declaration defines in the current frame only: every other frame is untouched, and in the
    current one only the declared name changes -/
theorem define_only_innermost (σ : Store) (env : Nat) (n : Name) (v : Val) :
    (∀ e, e ≠ env → (σ.define env n v).envs[e]? = σ.envs[e]?) ∧
    (σ.define env n v).envs.length = σ.envs.length ∧
    (∀ fr, σ.envs[env]? = some fr →
      (σ.define env n v).envs[env]? = some { fr with vars := upsert n v fr.vars }) ∧
    (σ.define env n v).arrs = σ.arrs ∧ (σ.define env n v).objs = σ.objs ∧ (σ.define env n v).out = σ.out := by
  unfold Store.define
  cases h : σ.envs[env]? with
  | none => simp
  | some fr =>
    refine ⟨?_, by simp, ?_, rfl, rfl, rfl⟩
    · intro e he; simp [List.getElem?_set, Ne.symm he]
    · intro fr' hfr'
      have hlt : env < σ.envs.length := by
        rcases List.getElem?_eq_some_iff.mp h with ⟨hlt, _⟩; exact hlt
      cases hfr'
      simp [List.getElem?_set, hlt]

/-- `ধরি` of a name already bound in the *same* scope is a runtime error; bindings of outer scopes
    do not count (shadowing is allowed) -/
theorem redeclare_same_scope_error (P : Platform) (f : Nat) (d : VarDecl) (env : Nat) (repl : Bool) (σ : Store) (w : Val)
    (h0 : σ.hadError = false) (hi : d.init = none) (hh : σ.getHere env d.name = some w) :
    ∃ m, evalS P (f + 1) (.var d) env repl σ = .ok (.nil, .none) (σ.rte m d.line) := by
  unfold evalS; simp [guardErr, ER.seq, Res.bind, h0, hi, hh, nilOk]
  exact ⟨_, rfl⟩

theorem declare_fresh_name (P : Platform) (f : Nat) (d : VarDecl) (env : Nat) (repl : Bool) (σ : Store)
    (h0 : σ.hadError = false) (hi : d.init = none) (hh : σ.getHere env d.name = none) :
    evalS P (f + 1) (.var d) env repl σ = .ok (.nil, .none) (σ.define env d.name .nil) := by
  unfold evalS; simp [guardErr, ER.seq, Res.bind, h0, hi, hh, nilOk]

/-- reading a name with no visible binding, and assigning to one, are runtime errors -/
theorem unbound_read_error (P : Platform) (f : Nat) (n : Name) (line env : Nat) (repl : Bool) (σ : Store)
    (h0 : σ.hadError = false) (hg : σ.get env n = none) :
    ∃ m, evalE P (f + 1) (.ident n line) env repl σ = .ok (.nil, .none) (σ.rte m line) := by
  rw [evalE]; simp [guardErr, ER.seq, Res.bind, h0, hg, nilOk]
  exact ⟨_, rfl⟩

theorem unbound_assign_error (P : Platform) (f : Nat) (n : Name) (nl line env : Nat) (v : Expr) (repl : Bool) (σ σ1 : Store) (x : Val)
    (h0 : σ.hadError = false) (hv : evalE P f v env repl σ = .ok (x, .none) σ1) (h1 : σ1.hadError = false)
    (hf : σ1.find env n = none) :
    ∃ m, evalE P (f + 1) (.assign n nl v line) env repl σ = .ok (x, .none) (σ1.rte m nl) := by
  rw [evalE]; simp only [guardErr, ER.seq, Res.bind, h0, hv]; simp [guardErr, ER.seq, Res.bind, h1, hf]
  exact ⟨_, rfl⟩

/-- a block runs in a fresh child scope of the current one; the scope's frame is never referred to
    again by the enclosing code (its index is not returned) -/
theorem block_fresh_scope (P : Platform) (f : Nat) (ss : List Stmt) (env : Nat) (repl : Bool) (σ : Store) (h0 : σ.hadError = false) :
    evalS P (f + 1) (.block ss) env repl σ =
      evalBlock P f ss σ.envs.length repl { σ with envs := σ.envs ++ [⟨[], some env⟩] } := by
  rw [evalS]; simp [guardErr, ER.seq, Res.bind, h0, Store.newEnv]

/-- a `ফর` statement gets one fresh scope shared by initializer, condition, increment and body -/
theorem for_scope_shared (P : Platform) (f : Nat) (c : Option Expr) (inc : Option Expr) (b : Stmt) (env : Nat) (repl : Bool) (σ : Store)
    (h0 : σ.hadError = false) :
    evalS P (f + 1) (.forS none c inc b) env repl σ =
      forLoop P f (forCond c) inc b σ.envs.length repl { σ with envs := σ.envs ++ [⟨[], some env⟩] } := by
  rw [evalS]; simp [guardErr, ER.seq, Res.bind, h0, Store.newEnv]

/-- user code runs in a child of the frame that holds the built-ins -/
theorem program_scope_under_globals (input : List Char) :
    (initStore input).envs[1]? = some ⟨[], some 0⟩ ∧
    (∃ g, (initStore input).envs[0]? = some g ∧ g.parent = none ∧ g.vars.map (·.1) = Expect.natives.map (·.1)) := by
  refine ⟨rfl, _, rfl, rfl, ?_⟩
  simp [List.map_map, Function.comp_def]

/-- **scope frames are stable**: across any evaluation every existing scope keeps its enclosing scope
    (the chain a name is resolved through never changes) and keeps every name it has (a binding is
    never removed; it can only be updated) -/
theorem frames_stable (P : Platform) (f : Nat) (s : Stmt) (env : Nat) (repl : Bool) (σ σ' : Store) (r : Val × Signal)
    (h : evalS P f s env repl σ = .ok r σ') (i : Nat) (fr : Frame) (hfr : σ.envs[i]? = some fr) :
    ∃ fr', σ'.envs[i]? = some fr' ∧ fr'.parent = fr.parent ∧
      ∀ n, (fr.vars.lookup n).isSome = true → (fr'.vars.lookup n).isSome = true := by
  have := (allSat P f).s s env repl σ; rw [h] at this; exact this.env_keep i fr hfr

end Borno.Props.C03
