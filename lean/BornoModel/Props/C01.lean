import BornoModel.Lemmas.ParseFits
import BornoModel.Lemmas.ParseElse
import BornoModel.Lemmas.ParseComplete
/-! # C01 — accepted programs get the syntax tree the documented grammar prescribes

Four layers: (1) the shape equations of the descent; (2) `fits`: every tree the parser returns
obeys the ladder, for every token list and fuel (so precedence and associativity are facts about
the *tree*, not about one parsing step); (3) completeness and uniqueness: every ladder-fitting
tree is what the parser returns for its own rendering, so two fitting trees with one rendering
are one tree, and the fully parenthesised rendering of *any* tree parses back to it;
(4) `elseOk`: every `else` in a returned tree sits on the nearest `if`.
That the accepted text is exactly the rendering of the returned tree is C08. -/
namespace Borno.Props.C01
open Borno Parser Grammar

/-- the published ladder: eleven left-associative levels, loosest first; every binary operator sits on exactly one level -/
theorem ladder_shape :
    Expect.ladder.length = 11 ∧
    (Expect.ladder.map (·.ops)).flatten.Nodup ∧
    Expect.ladder.map (·.name) = ["logicalOR", "logicalAnd", "bitwiseOR", "bitwiseXOR", "bitwiseAND", "equality",
      "comparison", "shift", "term", "factor", "power"] ∧
    levelOps 10 = [.POWER] ∧ levelOps 9 = [.SLASH, .STAR, .MODULO] ∧ levelOps 8 = [.MINUS, .PLUS] ∧
    levelOps 0 = [.LOGICAL_OR] ∧ levelOps 1 = [.LOGICAL_AND] := by decide

/-- a level parses its left operand with the next tighter level and then loops: operators of
    tighter levels end up deeper in the tree -/
theorem level_descends (f k : Nat) (ts : List Token) (hk : k < nLevels) :
    binLevel (f + 1) k ts = (binLevel f (k + 1) ts).bind fun l r => binLoop f k l r := by
  rw [binLevel]; simp [hk]

/-- binary operators associate to the left: on meeting an operator of its level the loop wraps what it has
    built so far as the LEFT child, takes ONE operand of the next level as the right child, and goes on -/
theorem binary_left_assoc (f k : Nat) (l right : Expr) (t : Token) (r r2 : List Token)
    (ht : (levelOps k).contains t.tt = true) (hr : binLevel f (k + 1) r = .ok right r2) :
    binLoop (f + 1) k l (t :: r) = binLoop f k (mkBin k l t right) r2 := by
  rw [binLoop]; simp only [peekTok, ht, hr, PR.bind, if_true]

/-- an operator of another level ends the loop and is left for an outer (looser) level -/
theorem level_stops_at_foreign_operator (f k : Nat) (l : Expr) (t : Token) (r : List Token)
    (ht : (levelOps k).contains t.tt = false) :
    binLoop (f + 1) k l (t :: r) = .ok l (t :: r) := by
  rw [binLoop]; simp only [peekTok, ht]; simp

/-- prefix operators bind tighter than `**`: the operands of the `**` level are parsed by `unary`,
    and a prefix operator takes a `unary` (not a power expression) as its operand -/
theorem prefix_tighter_than_power (f : Nat) (ts : List Token) :
    binLevel (f + 1) nLevels ts = unary f ts ∧ levelOps (nLevels - 1) = [.POWER] := by
  constructor
  · rw [binLevel]; simp
  · decide

theorem unary_operand_is_unary (f : Nat) (t : Token) (r : List Token) (ht : Expect.unaryOps.contains t.tt = true) :
    unary (f + 1) (t :: r) = (unary f r).bind fun e r2 => .ok (.unary t.tt t.line e) r2 := by
  rw [unary]; simp only [peekTok, ht, if_true]

/-- call / index / property suffixes bind tightest and chain left to right: each suffix wraps the
    expression built so far and the loop continues on the result -/
theorem suffix_chain_left_to_right (f : Nat) (e : Expr) (t2 : Token) (r : List Token) (t : Token) :
    (t.tt = .DOT → t2.tt = .IDENTIFIER →
      suffix (f + 1) e (t :: t2 :: r) = suffix f (.propAccess e t2.lexeme t2.line) r) ∧
    (t.tt = .LEFT_PAREN → t2.tt = .RIGHT_PAREN →
      suffix (f + 1) e (t :: t2 :: r) = suffix f (.call e t2.line []) r) := by
  constructor
  · intro h1 h2; rw [suffix]; simp [peekTok, expectTok, PR.bind, h1, h2]
  · intro h1 h2; rw [suffix]; simp [peekTok, h1, h2]

/-- assignment associates to the right: after `=` the value is parsed by `assignment` itself -/
theorem assign_right_assoc (f : Nat) (ts r1 r2 : List Token) (t : Token) (n : Name) (l : Nat) (v : Expr)
    (hl : binLevel f 0 ts = .ok (.ident n l) (t :: r1)) (ht : t.tt = .EQUAL) (hv : assignment f r1 = .ok v r2) :
    assignment (f + 1) ts = .ok (.assign n l v t.line) r2 := by
  rw [assignment]; simp only [hl, hv, PR.bind, peekTok, ht, if_true]

/-- a left side that is not a name, an index or a property access is diagnosed at its `=` -/
theorem assign_bad_target (f : Nat) (ts r1 r2 : List Token) (t : Token) (e v : Expr)
    (hl : binLevel f 0 ts = .ok e (t :: r1)) (ht : t.tt = .EQUAL) (hv : assignment f r1 = .ok v r2)
    (h1 : ∀ n l, e ≠ .ident n l) (h2 : ∀ a i l, e ≠ .arrayAccess a i l) (h3 : ∀ o p l, e ≠ .propAccess o p l) :
    assignment (f + 1) ts = .err (errAt t "Invalid assignment target.".toList) := by
  rw [assignment]; simp only [hl, hv, PR.bind, peekTok, ht, if_true]

/-- `নাহয়` attaches to the nearest `যদি`: the else is looked for immediately after the then-branch
    has been parsed, i.e. by the innermost pending `if` -/
theorem else_binds_nearest_if (f : Nat) (t e : Token) (r r1 r2 r3 r5 r6 : List Token) (c : Expr) (th el : Stmt) (ds1 ds2 : List Diag)
    (lp rp : Token)
    (ht : t.tt = .IF)
    (h1 : expectTok .LEFT_PAREN "Expect '(' after 'if'." r = .ok lp r1)
    (h2 : assignment f r1 = .ok c r2)
    (h3 : expectTok .RIGHT_PAREN "Expect ')' after if condition." r2 = .ok rp r3)
    (h4 : statement f r3 = .ok th (e :: r5) ds1) (he : e.tt = .ELSE)
    (h5 : statement f r5 = .ok el r6 ds2) :
    statement (f + 1) (t :: r) = .ok (.ifS c th (some el)) r6 (ds1 ++ ds2) := by
  unfold statement; simp only [peekTokS, ht, h1, h2, h3, PR.bind, PR.toSR, SR.bind, h4, h5, he, if_true]
  simp

/-! ## layer 2: returned trees fit the ladder -/

/-- whatever `expression` returns, for any tokens and any fuel, fits the ladder at every node -/
theorem parsed_expression_fits (f : Nat) (ts : List Token) (e : Expr) (r : List Token)
    (h : assignment f ts = .ok e r) : fits 0 e = true := (fitsP f).asg ts e r h

/-- the ladder level of the operator at the root of a tree -/
def topLevel : Expr → Option Nat
  | .binary _ op _ _ => levelOf op
  | .logical _ op _ => levelOf op
  | _ => none

/-- a binary / logical node standing at position `p` has a root operator of level ≥ `p - 1` -/
theorem fits_top {p j : Nat} {e : Expr} (h : fits p e = true) (ht : topLevel e = some j) : p ≤ j + 1 := by
  cases e <;> simp only [topLevel] at ht <;> try (cases ht)
  all_goals (simp only [fits, ht, Bool.and_eq_true, decide_eq_true_eq] at h; exact h.1.1.1)

/-- binary operators group by level and associate to the left: in a fitting tree, a binary node of
    level `j` has a left child whose root operator is of level ≥ `j` (equal allowed) and a right
    child whose root operator is of level > `j` (strictly tighter) -/
theorem binary_children_levels {p : Nat} {l r : Expr} {op : TT} {ln : Nat} (h : fits p (.binary l op ln r) = true) :
    ∃ j, levelOf op = some j ∧ levelNode j = .binary ∧
      (∀ jl, topLevel l = some jl → j ≤ jl) ∧ (∀ jr, topLevel r = some jr → j < jr) := by
  simp only [fits] at h
  split at h
  · rename_i j hj
    simp only [Bool.and_eq_true, decide_eq_true_eq, beq_iff_eq] at h
    refine ⟨j, hj, h.1.1.2, fun jl hl => ?_, fun jr hr => ?_⟩
    · have := fits_top h.1.2 hl; omega
    · have := fits_top h.2 hr; omega
  · cases h

theorem logical_children_levels {p : Nat} {l r : Expr} {op : TT} (h : fits p (.logical l op r) = true) :
    ∃ j, levelOf op = some j ∧ levelNode j = .logical ∧
      (∀ jl, topLevel l = some jl → j ≤ jl) ∧ (∀ jr, topLevel r = some jr → j < jr) := by
  simp only [fits] at h
  split at h
  · rename_i j hj
    simp only [Bool.and_eq_true, decide_eq_true_eq, beq_iff_eq] at h
    refine ⟨j, hj, h.1.1.2, fun jl hl => ?_, fun jr hr => ?_⟩
    · have := fits_top h.1.2 hl; omega
    · have := fits_top h.2 hr; omega
  · cases h

/-- an assignment never stands as an operand: only at position 0 (statement level, inside
    brackets / parentheses / argument lists, or as the value of another assignment: right-associativity) -/
theorem assign_only_at_top {p : Nat} {e : Expr}
    (ha : (∃ n l v ln, e = .assign n l v ln) ∨ (∃ a i v ln, e = .arrayAssign a i v ln) ∨ (∃ o q v ln, e = .propAssign o q v ln))
    (h : fits p e = true) : p = 0 := by
  rcases ha with ⟨n, l, v, ln, rfl⟩ | ⟨a, i, v, ln, rfl⟩ | ⟨o, q, v, ln, rfl⟩ <;>
    simp only [fits, Bool.and_eq_true, beq_iff_eq] at h
  · exact h.1
  · exact h.1.1.1
  · exact h.1.1

/-- prefix operators bind tighter than every binary operator (`**` included): the operand of a
    prefix operator is never a binary / logical node -/
theorem unary_operand_tight {p : Nat} {op : TT} {ln : Nat} {e : Expr} (h : fits p (.unary op ln e) = true) :
    topLevel e = none ∧ Expect.unaryOps.contains op = true := by
  simp only [fits, Bool.and_eq_true, decide_eq_true_eq] at h
  refine ⟨?_, h.1.2⟩
  cases ht : topLevel e with
  | none => rfl
  | some j =>
    have h1 := fits_top h.2 ht
    have h2 : j < nLevels := by
      cases e <;> simp only [topLevel] at ht <;> try (cases ht)
      all_goals (unfold levelOf at ht; have := List.findIdx?_eq_some_iff_getElem.mp ht; exact this.1)
    have hn : nLev = nLevels := rfl
    omega

/-- suffixes bind tightest: the callee / indexed / dereferenced expression is never a prefix,
    binary, logical or assignment node (it is a primary or another suffix: they chain to the left) -/
theorem suffix_target_tightest {p : Nat} {c : Expr}
    (h : (∃ ln args, fits p (.call c ln args) = true) ∨ (∃ i ln, fits p (.arrayAccess c i ln) = true) ∨ (∃ q ln, fits p (.propAccess c q ln) = true)) :
    fits (nLevels + 2) c = true := by
  rcases h with ⟨ln, args, h⟩ | ⟨i, ln, h⟩ | ⟨q, ln, h⟩ <;> simp only [fits, Bool.and_eq_true, decide_eq_true_eq] at h
  · exact h.1.2
  · exact h.1.2
  · exact h.2

/-- non-vacuity: `1 + 2 * 3 - 4` fits as `(1 + (2 * 3)) - 4` and not as `1 + (2 * (3 - 4))` -/
example :
    let n (k : Nat) : Expr := .literal .nil k
    fits 0 (.binary (.binary (n 1) .PLUS 1 (.binary (n 2) .STAR 1 (n 3))) .MINUS 1 (n 4)) = true ∧
    fits 0 (.binary (n 1) .PLUS 1 (.binary (n 2) .STAR 1 (.binary (n 3) .MINUS 1 (n 4)))) = false := by decide

/-! ## layer 3: completeness, uniqueness, explicit parentheses -/

/-- every tree that fits the ladder is what `expression` returns for its own rendering (followed by
    any token that cannot continue an expression), up to line fields, for all large enough fuel -/
theorem parse_complete (e : Expr) (hf : fits 0 e = true) (t : Token) (rest : List Token) (ht : followA t.tt = true) :
    ∃ f0, ∀ f, f0 ≤ f → assignment f (toks e ++ t :: rest) = .ok (eraseE e) (t :: rest) :=
  assignment_complete e hf t rest ht

/-- the published ladder determines the tree: two fitting trees with the same rendering are equal
    up to line fields -/
theorem tree_unique (e1 e2 : Expr) (h1 : fits 0 e1 = true) (h2 : fits 0 e2 = true) (h : rExpr e1 = rExpr e2) :
    eraseE e1 = eraseE e2 := rendering_injective e1 e2 h1 h2 h

/-- hence what the parser returns is *the* tree of the ladder for the tokens it consumed: any
    fitting tree with the same rendering as the returned one is the returned one -/
theorem parsed_is_the_unique_tree (f : Nat) (ts : List Token) (e : Expr) (r : List Token)
    (h : assignment f ts = .ok e r) (e' : Expr) (hf : fits 0 e' = true) (hr : rExpr e' = rExpr e) :
    eraseE e' = eraseE e := rendering_injective e' e hf (parsed_expression_fits f ts e r h) hr

/-- writing any syntax tree out with explicit parentheses and parsing that text gives back the
    same tree: the parser returns the parenthesised tree, whose `Grouping`-free form is the
    original's -/
theorem paren_roundtrip (e : Expr) (h : opsOk e = true) (t : Token) (rest : List Token) (ht : followA t.tt = true) :
    (∃ f0, ∀ f, f0 ≤ f → assignment f (toks (paren e) ++ t :: rest) = .ok (eraseE (paren e)) (t :: rest)) ∧
    strip (paren e) = strip e := Parser.paren_roundtrip e h t rest ht

/-- non-vacuity: `;`, `)`, `,`, EOF may follow an expression; `a = 1 + 2 * -b(3)[0].p` (as a tree) fits, and so does any
    well-formed tree once parenthesised — even `(1 + 2) * 3` written as a product of a sum -/
example :
    followA .SEMICOLON = true ∧ followA .RIGHT_PAREN = true ∧ followA .COMMA = true ∧ followA .EOF = true ∧ followA .PLUS = false ∧
    (let n (k : Nat) : Expr := .literal .nil k
     fits 0 (.assign ['a'] 1 (.binary (n 1) .PLUS 1 (.binary (n 2) .STAR 1
        (.unary .MINUS 1 (.propAccess (.arrayAccess (.call (.ident ['b'] 1) 1 [n 3]) (n 0) 1) ['p'] 1)))) 1) = true ∧
     fits 0 (.binary (.binary (n 1) .PLUS 1 (n 2)) .STAR 1 (n 3)) = false ∧
     opsOk (.binary (.binary (n 1) .PLUS 1 (n 2)) .STAR 1 (n 3)) = true ∧
     fits 0 (paren (.binary (.binary (n 1) .PLUS 1 (n 2)) .STAR 1 (n 3))) = true) := by decide

/-! ## layer 4: the dangling else -/

/-- in every tree `Parse` returns (with or without lenient diagnostics), the then-branch of each
    `if … else` is closed: the `else` could not have belonged to an inner `if` -/
theorem else_attaches_to_nearest_if (f : Nat) (ts : List Token) (p : List Stmt) (r : List Token) (ds : List Diag)
    (h : program f ts = .ok p r ds) : elseOkAll p = true := program_elseOk f ts p r ds h

/-- the reason: a statement that ends in an else-less `if` is never followed by `ELSE` -/
theorem open_if_takes_the_else (f : Nat) (ts : List Token) (s : Stmt) (t : Token) (r : List Token) (ds : List Diag)
    (h : statement f ts = .ok s (t :: r) ds) (ho : openIf s = true) : t.tt ≠ .ELSE :=
  ((elseP f).stmt ts s (t :: r) ds h).2 ho t r rfl

/-- non-vacuity: `if (a) if (b) x; else y;` with the else on the inner `if` is fine, on the outer one is not -/
example :
    let e : Expr := .literal .nil 1
    elseOk (.ifS e (.ifS e (.expr e) (some (.expr e))) none) = true ∧
    elseOk (.ifS e (.ifS e (.expr e) none) (some (.expr e))) = false := by decide

end Borno.Props.C01
