import BornoModel.Parser
/-! # C01 — accepted programs get the syntax tree the documented grammar prescribes

(first layer: the shape equations of the descent; the soundness / round-trip theorems over the
tree renderer live in `Props/C01Round.lean` once proved) -/
namespace Borno.Props.C01
open Borno Parser

/-- the published ladder: eleven left-associative levels, loosest first; every binary operator sits on exactly one level -/
theorem ladder_shape :
    Expect.ladder.length = 11 ∧
    (Expect.ladder.map (·.ops)).flatten.Nodup ∧
    Expect.ladder.map (·.name) = ["logicalOR", "logicalAnd", "bitwiseOR", "bitwiseXOR", "bitwiseAND", "equality",
      "comparison", "shift", "term", "factor", "power"] ∧
    levelOps 10 = [.POWER] ∧ levelOps 9 = [.SLASH, .STAR, .MODULO] ∧ levelOps 8 = [.MINUS, .PLUS] ∧
    levelOps 0 = [.LOGICAL_OR] ∧ levelOps 1 = [.LOGICAL_AND] := by decide

/-- a level parses its left operand with the next tighter level and then loops: operators of
    tighter levels end up deeper in the tree -/
theorem level_descends (f k : Nat) (ts : List Token) (hk : k < nLevels) :
    binLevel (f + 1) k ts = (binLevel f (k + 1) ts).bind fun l r => binLoop f k l r := by
  rw [binLevel]; simp [hk]

/-- binary operators associate to the left: on meeting an operator of its level the loop wraps what it has
    built so far as the LEFT child, takes ONE operand of the next level as the right child, and goes on -/
theorem binary_left_assoc (f k : Nat) (l right : Expr) (t : Token) (r r2 : List Token)
    (ht : (levelOps k).contains t.tt = true) (hr : binLevel f (k + 1) r = .ok right r2) :
    binLoop (f + 1) k l (t :: r) = binLoop f k (mkBin k l t right) r2 := by
  rw [binLoop]; simp only [peekTok, ht, hr, PR.bind, if_true]

/-- an operator of another level ends the loop and is left for an outer (looser) level -/
theorem level_stops_at_foreign_operator (f k : Nat) (l : Expr) (t : Token) (r : List Token)
    (ht : (levelOps k).contains t.tt = false) :
    binLoop (f + 1) k l (t :: r) = .ok l (t :: r) := by
  rw [binLoop]; simp only [peekTok, ht]; simp

/-- prefix operators bind tighter than `**`: the operands of the `**` level are parsed by `unary`,
    and a prefix operator takes a `unary` (not a power expression) as its operand -/
theorem prefix_tighter_than_power (f : Nat) (ts : List Token) :
    binLevel (f + 1) nLevels ts = unary f ts ∧ levelOps (nLevels - 1) = [.POWER] := by
  constructor
  · rw [binLevel]; simp
  · decide

theorem unary_operand_is_unary (f : Nat) (t : Token) (r : List Token) (ht : Expect.unaryOps.contains t.tt = true) :
    unary (f + 1) (t :: r) = (unary f r).bind fun e r2 => .ok (.unary t.tt t.line e) r2 := by
  rw [unary]; simp only [peekTok, ht, if_true]

/-- call / index / property suffixes bind tightest and chain left to right: each suffix wraps the
    expression built so far and the loop continues on the result -/
theorem suffix_chain_left_to_right (f : Nat) (e : Expr) (t2 : Token) (r : List Token) (t : Token) :
    (t.tt = .DOT → t2.tt = .IDENTIFIER →
      suffix (f + 1) e (t :: t2 :: r) = suffix f (.propAccess e t2.lexeme t2.line) r) ∧
    (t.tt = .LEFT_PAREN → t2.tt = .RIGHT_PAREN →
      suffix (f + 1) e (t :: t2 :: r) = suffix f (.call e t2.line []) r) := by
  constructor
  · intro h1 h2; rw [suffix]; simp [peekTok, expectTok, PR.bind, h1, h2]
  · intro h1 h2; rw [suffix]; simp [peekTok, h1, h2]

/-- assignment associates to the right: after `=` the value is parsed by `assignment` itself -/
theorem assign_right_assoc (f : Nat) (ts r1 r2 : List Token) (t : Token) (n : Name) (l : Nat) (v : Expr)
    (hl : binLevel f 0 ts = .ok (.ident n l) (t :: r1)) (ht : t.tt = .EQUAL) (hv : assignment f r1 = .ok v r2) :
    assignment (f + 1) ts = .ok (.assign n l v t.line) r2 := by
  rw [assignment]; simp only [hl, hv, PR.bind, peekTok, ht, if_true]

/-- a left side that is not a name, an index or a property access is diagnosed at its `=` -/
theorem assign_bad_target (f : Nat) (ts r1 r2 : List Token) (t : Token) (e v : Expr)
    (hl : binLevel f 0 ts = .ok e (t :: r1)) (ht : t.tt = .EQUAL) (hv : assignment f r1 = .ok v r2)
    (h1 : ∀ n l, e ≠ .ident n l) (h2 : ∀ a i l, e ≠ .arrayAccess a i l) (h3 : ∀ o p l, e ≠ .propAccess o p l) :
    assignment (f + 1) ts = .err (errAt t "Invalid assignment target.".toList) := by
  rw [assignment]; simp only [hl, hv, PR.bind, peekTok, ht, if_true]

/-- `নাহয়` attaches to the nearest `যদি`: the else is looked for immediately after the then-branch
    has been parsed, i.e. by the innermost pending `if` -/
theorem else_binds_nearest_if (f : Nat) (t e : Token) (r r1 r2 r3 r5 r6 : List Token) (c : Expr) (th el : Stmt) (ds1 ds2 : List Diag)
    (lp rp : Token)
    (ht : t.tt = .IF)
    (h1 : expectTok .LEFT_PAREN "Expect '(' after 'if'." r = .ok lp r1)
    (h2 : assignment f r1 = .ok c r2)
    (h3 : expectTok .RIGHT_PAREN "Expect ')' after if condition." r2 = .ok rp r3)
    (h4 : statement f r3 = .ok th (e :: r5) ds1) (he : e.tt = .ELSE)
    (h5 : statement f r5 = .ok el r6 ds2) :
    statement (f + 1) (t :: r) = .ok (.ifS c th (some el)) r6 (ds1 ++ ds2) := by
  unfold statement; simp only [peekTokS, ht, h1, h2, h3, PR.bind, PR.toSR, SR.bind, h4, h5, he, if_true]
  simp

end Borno.Props.C01
