import BornoModel.Cli
/-! # C20 — in the REPL a failed line never affects later lines; expression values echo -/
namespace Borno.Props.C20
open Borno Cli

theorem replRespond_eq (P : Platform) (fuel : Nat) : replRespond P fuel = fun l => run P fuel l true [] := rfl

/-- the session's stdout is, line by line, a prompt followed by that line's own response —
    a function of the line alone (fresh interpreter, fresh flags), whatever came before it -/
theorem repl_lines_independent (P : Platform) (fuel : Nat) (inp : List Char) :
    (repl P fuel inp).1 =
      (scanLines inp).flatMap (fun l => promptText ++ (run P fuel l true []).out) ++ promptText := by
  simp [repl, replRespond_eq, List.flatMap_def, List.foldl_map]

/-- stderr likewise is the concatenation of the per-line diagnostics -/
theorem repl_stderr_per_line (P : Platform) (fuel : Nat) (inp : List Char) :
    (repl P fuel inp).2 = (scanLines inp).flatMap (fun l => (run P fuel l true []).stderr) := by
  simp [repl, replRespond_eq, List.flatMap_def, List.foldl_map]

/-- a line with a lexical or syntax error produces no output at all (and runs nothing) -/
theorem failed_line_silent (P : Platform) (fuel : Nat) (line : List Char)
    (h : (frontEnd P.lm line).diags ≠ []) (hab : (frontEnd P.lm line).abnormal = none) :
    (run P fuel line true []).out = [] := by
  simp only [run, hab]
  have : (frontEnd P.lm line).diags.isEmpty = false := by
    cases hd : (frontEnd P.lm line).diags with
    | nil => exact absurd hd h
    | cons _ _ => rfl
  simp [this]

/-- interactive mode is entered with no arguments and always ends with status 0 -/
theorem eof_status0 (P : Platform) (fuel : Nat) (file : Option (List Char)) (stdin : List Char) :
    (main P fuel [] file stdin).status = 0 := by simp [main, mode]

/-- a bare expression statement echoes its value in interactive mode (and only there) -/
theorem expression_statement_echoed (P : Platform) (f : Nat) (e : Expr) (env : Nat) (σ σ1 : Store) (v : Val) (t : List Char)
    (h0 : σ.hadError = false) (he : evalE P f e env true σ = .ok (v, .none) σ1) (h1 : σ1.hadError = false)
    (ht : stringify σ1 (showFuel σ1) v = some t) :
    evalS P (f + 1) (.expr e) env true σ = .ok (v, .none) (σ1.print (t ++ ['\n'])) ∧
    (evalE P f e env false σ = .ok (v, .none) σ1 → evalS P (f + 1) (.expr e) env false σ = .ok (v, .none) σ1) := by
  constructor
  · rw [evalS]; simp only [guardErr, ER.seq, Res.bind, h0, he]; simp [guardErr, ER.seq, Res.bind, h1, ht]
  · intro he'; rw [evalS]; simp only [guardErr, ER.seq, Res.bind, h0, he']; simp

end Borno.Props.C20
