import BornoModel.Eval
/-! # C17 — math built-ins compute their mathematical function; misuse is a reported error -/
namespace Borno.Props.C17
open Borno Expect

/-- abs, sqrt and rounding are the exact F64 operations on the coerced argument;
    sin, cos, tan apply the platform's function to it -/
theorem unary_builtins (P : Platform) (σ : Store) (a : Val) (x : F64) (h : toNumber a = some x) :
    callPure P .abs [a] σ = .ok (.num x.abs, σ) ∧
    callPure P .sqrt [a] σ = .ok (.num x.sqrt, σ) ∧
    callPure P .round [a] σ = .ok (.num x.round, σ) ∧
    callPure P .sin [a] σ = .ok (.num (P.sin x), σ) ∧
    callPure P .cos [a] σ = .ok (.num (P.cos x), σ) ∧
    callPure P .tan [a] σ = .ok (.num (P.tan x), σ) := by
  simp [callPure, math1, numArg, h, Except.map]

/-- an argument that is not a number (or a string reading as one) is an error, never a value -/
theorem unary_type_error (P : Platform) (σ : Store) (a : Val) (h : toNumber a = none)
    (n : Native) (hn : n ∈ [Native.abs, .sqrt, .round, .sin, .cos, .tan]) :
    callPure P n [a] σ = .error "argument must be a number".toList := by
  simp at hn
  rcases hn with rfl | rfl | rfl | rfl | rfl | rfl <;> simp [callPure, math1, numArg, h, Except.map]

/-- `ঘাত(a, b)` applies the same platform function to the same coerced operands as `a ** b` -/
theorem pow_builtin_eq_operator (P : Platform) (σ : Store) (a b : Val) (x y : F64)
    (ha : toNumber a = some x) (hb : toNumber b = some y) :
    callPure P .pow [a, b] σ = .ok (.num (P.pow x y), σ) ∧
    binop P σ .POWER a b = .ok (.num (P.pow x y)) := by
  simp [callPure, natPow, numArg, binop, numPair, ha, hb, Except.map]

/-- the arities the call site enforces (`-1`: variadic, checked by the built-in itself) -/
theorem arities :
    arity .clock = 0 ∧ arity .len = 1 ∧ arity .append = -1 ∧ arity .remove = 2 ∧ arity .delete = 2 ∧
    arity .keys = 1 ∧ arity .values = 1 ∧ arity .abs = 1 ∧ arity .sqrt = 1 ∧ arity .pow = 2 ∧
    arity .sin = 1 ∧ arity .cos = 1 ∧ arity .tan = 1 ∧ arity .min = -1 ∧ arity .max = -1 ∧
    arity .round = 1 ∧ arity .input = -1 := by decide

/-- a call with the wrong number of arguments to a fixed-arity callee is a runtime error and the
    callee is not invoked -/
theorem arity_mismatch_error (P : Platform) (f : Nat) (c : Expr) (args : List Expr) (line env : Nat) (repl : Bool)
    (σ σ1 : Store) (n : Native) (h0 : σ.hadError = false)
    (hc : evalE P f c env repl σ = .ok (.native n, .none) σ1)
    (hk : arity n ≠ -1) (hm : (args.length : Int) ≠ arity n) :
    ∃ m, evalE P (f + 1) (.call c line args) env repl σ = .ok (.nil, .none) (σ1.rte m line) ∧
      (σ1.rte m line).nativeCalls = σ1.nativeCalls := by
  rw [evalE]; simp only [guardErr, ER.seq, Res.bind, h0, hc]
  simp [arityOf, hk, hm, nilOk, Store.rte]

/-- nothing to compare: `সর্বনিম্ন()` / `সর্বোচ্চ()` / an empty array are errors -/
theorem minmax_empty_error (P : Platform) (σ : Store) (r : Nat) (h : σ.arrs[r]? = some []) :
    (∃ m, callPure P .min [] σ = .error m) ∧ (∃ m, callPure P .max [] σ = .error m) ∧
    (∃ m, callPure P .min [.arr r] σ = .error m) ∧ (∃ m, callPure P .max [.arr r] σ = .error m) := by
  simp [callPure, minmax, minmaxArgs, h]

/-- the fold of min / max returns one of the numbers it was given -/
theorem extremum_mem (better : F64 → F64 → Bool) (acc : F64) (vs : List Val) (m : F64)
    (h : extremum better acc vs = .ok m) :
    m = acc ∨ ∃ v ∈ vs, toNumber v = some m := by
  induction vs generalizing acc with
  | nil => simp [extremum] at h; exact Or.inl h.symm
  | cons v vs ih =>
    unfold extremum at h
    cases hv : toNumber v with
    | none => simp [hv] at h
    | some x =>
      simp only [hv] at h
      rcases ih _ h with h1 | ⟨w, hw, hw'⟩
      · by_cases hb : better x acc = true
        · simp [hb] at h1; exact Or.inr ⟨v, by simp, by rw [hv, h1]⟩
        · simp [hb] at h1; exact Or.inl h1
      · exact Or.inr ⟨w, by simp [hw], hw'⟩

/-! ## the result is an extreme: nothing beats it -/

theorem rat_lt_trans {a b c : Rat} (h1 : a < b) (h2 : b < c) : a < c := by
  refine Rat.lt_of_le_of_ne (Rat.le_trans (Rat.le_of_lt h1) (Rat.le_of_lt h2)) ?_
  intro e; subst e
  exact absurd (Rat.le_of_lt h1) (Rat.not_le.mpr h2)

/-- `<` on doubles is irreflexive and transitive (NaN compares false with everything) -/
theorem lt_irrefl (x : F64) : F64.lt x x = false := by
  cases x with
  | nan => rfl
  | inf a => cases a <;> rfl
  | fin n m e => simp [F64.lt, Rat.lt_irrefl]

theorem lt_trans (x y z : F64) (h1 : F64.lt x y = true) (h2 : F64.lt y z = true) : F64.lt x z = true := by
  cases x <;> cases y <;> cases z <;> simp_all [F64.lt]
  rename_i n1 m1 e1 n2 m2 e2 n3 m3 e3
  exact rat_lt_trans h1 h2

/-- the fold only ever replaces its accumulator by something strictly better -/
theorem extremum_improves (better : F64 → F64 → Bool)
    (htr : ∀ x y z, better x y = true → better y z = true → better x z = true)
    (acc : F64) (vs : List Val) (m : F64) (h : extremum better acc vs = .ok m) :
    m = acc ∨ better m acc = true := by
  induction vs generalizing acc with
  | nil => simp [extremum] at h; exact Or.inl h.symm
  | cons v vs ih =>
    unfold extremum at h
    cases hv : toNumber v with
    | none => simp [hv] at h
    | some x =>
      simp only [hv] at h
      by_cases hb : better x acc = true
      · simp only [hb, if_true] at h
        rcases ih _ h with rfl | h2
        · exact Or.inr hb
        · exact Or.inr (htr _ _ _ h2 hb)
      · simp only [hb, Bool.false_eq_true, if_false] at h
        exact ih _ h

/-- whatever order `better` is, as long as it is irreflexive and transitive: the fold returns a
    value that no argument (and not the seed) beats -/
theorem extremum_optimal (better : F64 → F64 → Bool) (hirr : ∀ x, better x x = false)
    (htr : ∀ x y z, better x y = true → better y z = true → better x z = true)
    (acc : F64) (vs : List Val) (m : F64) (h : extremum better acc vs = .ok m) :
    better acc m = false ∧ ∀ v ∈ vs, ∀ x, toNumber v = some x → better x m = false := by
  induction vs generalizing acc with
  | nil => simp [extremum] at h; subst h; exact ⟨hirr _, by simp⟩
  | cons v vs ih =>
    have himp := extremum_improves better htr acc (v :: vs) m h
    unfold extremum at h
    cases hv : toNumber v with
    | none => simp [hv] at h
    | some x =>
      simp only [hv] at h
      by_cases hb : better x acc = true
      · simp only [hb, if_true] at h
        obtain ⟨hx, hrest⟩ := ih _ h
        refine ⟨?_, fun w hw y hy => ?_⟩
        · cases hc : better acc m with
          | false => rfl
          | true => rw [htr _ _ _ hb hc] at hx; cases hx
        · rcases List.mem_cons.mp hw with rfl | hw'
          · rw [hv] at hy; cases hy; exact hx
          · exact hrest w hw' y hy
      · simp only [hb, Bool.false_eq_true, if_false] at h
        obtain ⟨ha, hrest⟩ := ih _ h
        refine ⟨ha, fun w hw y hy => ?_⟩
        rcases List.mem_cons.mp hw with rfl | hw'
        · rw [hv] at hy; cases hy
          cases hc : better x m with
          | false => rfl
          | true =>
            rcases himp with rfl | h2
            · exact absurd hc hb
            · exact absurd (htr _ _ _ hc h2) hb
        · exact hrest w hw' y hy

/-- `সর্বনিম্ন`: no argument is smaller than the result; `সর্বোচ্চ`: none is greater — for all arguments,
    NaN included (it compares false with everything) -/
theorem min_least (acc : F64) (vs : List Val) (m : F64) (h : extremum F64.lt acc vs = .ok m) :
    F64.lt acc m = false ∧ ∀ v ∈ vs, ∀ x, toNumber v = some x → F64.lt x m = false :=
  extremum_optimal F64.lt lt_irrefl lt_trans acc vs m h

theorem max_greatest (acc : F64) (vs : List Val) (m : F64) (h : extremum F64.gt acc vs = .ok m) :
    F64.lt m acc = false ∧ ∀ v ∈ vs, ∀ x, toNumber v = some x → F64.lt m x = false :=
  extremum_optimal F64.gt (fun x => lt_irrefl x) (fun x y z h1 h2 => lt_trans z y x h2 h1) acc vs m h

/-- the array form and the list form agree: `সর্বনিম্ন([a, b, c])` is `সর্বনিম্ন(a, b, c)` (unless the list is itself a
    single array, which the list form would flatten again) -/
theorem list_and_array_forms_agree (better : F64 → F64 → Bool) (what : String) (σ : Store) (r : Nat) (xs : List Val)
    (hr : σ.arrs[r]? = some xs) (hne : xs ≠ []) (hflat : ∀ r', xs ≠ [.arr r']) :
    minmax better what [.arr r] σ = minmax better what xs σ := by
  have h1 : minmaxArgs σ [.arr r] = xs := by simp [minmaxArgs, hr]
  have h2 : minmaxArgs σ xs = xs := by
    unfold minmaxArgs
    split
    · rename_i r' ; exact absurd rfl (hflat r')
    · rfl
  cases xs with
  | nil => exact absurd rfl hne
  | cons a as =>
    unfold minmax
    simp only [h1, h2]

/-- an argument that is not a number makes min / max fail -/
theorem extremum_type_error (better : F64 → F64 → Bool) (acc : F64) (vs : List Val) (v : Val)
    (hv : v ∈ vs) (hn : toNumber v = none) : ∃ m, extremum better acc vs = .error m := by
  induction vs generalizing acc with
  | nil => simp at hv
  | cons w ws ih =>
    unfold extremum
    cases hw : toNumber w with
    | none => exact ⟨_, rfl⟩
    | some x =>
      simp only
      rcases List.mem_cons.mp hv with rfl | h'
      · rw [hn] at hw; cases hw
      · exact ih _ h'

/-- `ক্লক()` is the platform's clock -/
theorem clock_is_now (P : Platform) (σ : Store) : callPure P .clock [] σ = .ok (.num P.now, σ) := rfl

end Borno.Props.C17
