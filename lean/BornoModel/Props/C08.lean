import BornoModel.Cli
import BornoModel.Lemmas.ParseSoundStmt
import BornoModel.Lemmas.ParseCompleteStmt
import BornoModel.Lemmas.ParseWf
import BornoModel.Lemmas.ParseSafe
import BornoModel.Props.C09
/-! # C08 — the front end is total, accepts exactly the documented language, runs nothing else -/
namespace Borno.Props.C08
open Borno Parser Cli Grammar

/-- totality: lexing and parsing are total functions of the text (every Lean definition terminates);
    the front end always classifies: either no diagnostic, or at least one -/
theorem front_end_classifies (lm : Char → Bool) (src : List Char) :
    (frontEnd lm src).diags = [] ∨ (frontEnd lm src).diags ≠ [] := by
  cases (frontEnd lm src).diags <;> simp

/-- no part of a rejected text is executed — not even the statements before the error -/
theorem rejected_runs_nothing (P : Platform) (fuel : Nat) (src input : List Char) (repl : Bool)
    (h : (frontEnd P.lm src).diags ≠ []) :
    (run P fuel src repl input).out = [] ∧ (run P fuel src repl input).nativeCalls = 0 ∧
    (run P fuel src repl input).inputRest = input ∧ (run P fuel src repl input).runtimeDiags = [] := by
  have hne : (frontEnd P.lm src).diags.isEmpty = false := by
    cases hd : (frontEnd P.lm src).diags with
    | nil => exact absurd hd h
    | cons _ _ => rfl
  unfold run
  cases hab : (frontEnd P.lm src).abnormal <;> simp [hab, hne]

/-- and it exits with status 65 -/
theorem rejected_status_65 (P : Platform) (fuel : Nat) (src input : List Char)
    (h : (frontEnd P.lm src).diags ≠ []) : fileStatus (run P fuel src false input) = 65 := by
  have hne : (frontEnd P.lm src).diags.isEmpty = false := by
    cases hd : (frontEnd P.lm src).diags with
    | nil => exact absurd hd h
    | cons _ _ => rfl
  unfold run
  cases hab : (frontEnd P.lm src).abnormal <;> simp [hab, hne, fileStatus, Expect.exitSyntax]

/-- the lenient `consume` (after a print / expression statement, at the end of a block) goes on
    parsing but still flags the error -/
theorem lenient_consume_still_flags (tt : TT) (msg : String) (t : Token) (r : List Token) (h : t.tt ≠ tt) :
    lenient tt msg (t :: r) = .ok () (t :: r) [errAt t msg.toList] := by
  simp [lenient, peekTokS, h]

theorem lenient_consume_ok (tt : TT) (msg : String) (t : Token) (r : List Token) (h : t.tt = tt) :
    lenient tt msg (t :: r) = .ok () r [] := by
  simp [lenient, peekTokS, h]

/-- built-in names are barred as declared variable and function names -/
theorem reserved_variable_rejected (f il : Nat) (t : Token) (r : List Token) (ht : t.tt = .IDENTIFIER)
    (hr : isReserved t.lexeme = true) :
    varDecls (f + 1) il (t :: r) = .err (errAt t (reservedMsg t.lexeme "variable")) := by
  unfold varDecls; simp [peekTok, ht, hr]

theorem reserved_function_rejected (f : Nat) (t : Token) (r : List Token) (ht : t.tt = .IDENTIFIER)
    (hr : isReserved t.lexeme = true) :
    function (f + 1) (t :: r) = .err [errAt t (reservedMsg t.lexeme "function")] := by
  unfold function; simp [peekTokS, ht, hr]

/-- at most 255 parameters: the 256th is diagnosed -/
theorem too_many_parameters (f n : Nat) (t : Token) (r : List Token) (hn : n ≥ Expect.maxParams) :
    params (f + 1) n (t :: r) = .err (errAt t "Can't have more than 255 parameters.".toList) := by
  unfold params; simp [peekTok, hn]

/-- `{` at the start of a statement opens a block, never an object literal -/
theorem brace_opens_block (f : Nat) (t : Token) (r : List Token) (ht : t.tt = .LEFT_BRACE) :
    statement (f + 1) (t :: r) = (block f r).bind fun ss r1 => .ok (.block ss) r1 [] := by
  unfold statement; simp [peekTokS, ht]

/-- a diagnostic of the parser names the line of the token it stopped at -/
theorem diagnostic_line_is_token_line (t : Token) (msg : List Char) : (errAt t msg).line = t.line := rfl

open Grammar in
/-- **accepted ⇒ derivable**: if the parser accepts a token list without any diagnostic, the tokens up to
    the end-of-input token are exactly what the published grammar — read as the renderer `rStmts` of
    statements, declarations, the eleven-level ladder, prefix operators, suffix chains, literals and
    groupings — writes for the tree that was returned.  No token is skipped, invented or reordered. -/
theorem accepted_is_rendering (f : Nat) (ts : List Token) (p : List Stmt) (r : List Token)
    (hw : ∀ t ∈ ts, TokWf t) (h : program f ts = .ok p r []) :
    ∃ pre, ts = pre ++ r ∧ pre.map rtok = rStmts p ∧ ∃ e r', r = e :: r' ∧ e.tt = .EOF :=
  program_sound f ts p r hw h

open Grammar in
/-- the same for a single expression: what `expression` consumes is the rendering of what it returns -/
theorem expression_is_rendering (f : Nat) (ts : List Token) (e : Expr) (r : List Token)
    (hw : ∀ t ∈ ts, TokWf t) (h : assignment f ts = .ok e r) :
    ∃ pre, ts = pre ++ r ∧ pre.map rtok = rExpr e :=
  (soundE f).asg ts e r hw h

open Grammar in
/-- **end to end**: whenever a text is accepted — the scanner and the parser report nothing — its token
    sequence is the grammar's rendering of the returned tree followed by the single end-of-input token -/
theorem accepted_text_is_rendering (lm : Char → Bool) (hlm : lm '\n' = false) (src : List Char)
    (toks : List Token) (p : List Stmt) (r : List Token) (f : Nat)
    (hs : Lexer.scan lm src = some (toks, [])) (hp : program f toks = .ok p r []) :
    ∃ pre e, toks = pre ++ [e] ∧ e.tt = .EOF ∧ pre.map rtok = rStmts p := by
  have hwf : ∀ t ∈ toks, TokWf t := fun t ht => C09.scan_tokens_litOk lm hlm src toks [] hs t ht
  obtain ⟨pre, hsplit, hren, e, r', hr, he⟩ := program_sound f toks p r hwf hp
  obtain ⟨body, hbody, hne⟩ := C09.single_eof_last lm hlm src toks [] hs
  subst hr
  have key : r' = [] := by
    rw [hsplit] at hbody
    rcases List.append_eq_append_iff.mp hbody with ⟨a', h1, h2⟩ | ⟨c', h1, h2⟩
    · cases a' with
      | nil => simp at h2; exact h2.2
      | cons x a'' =>
        simp only [List.cons_append, List.cons.injEq] at h2
        obtain ⟨rfl, _⟩ := h2
        exact absurd he (hne _ (by rw [h1]; simp))
    · cases c' with
      | nil => simp at h2; exact h2.2.symm ▸ rfl
      | cons x c'' =>
        have := congrArg List.length h2
        simp at this
  subst key
  exact ⟨pre, e, hsplit, he, hren⟩

/-- the converse of `accepted_is_rendering` — **every text of the documented grammar is accepted**:
    for every well-formed program tree (`wfSs`: expressions fit the ladder, `ধরি` lists have their
    shape, declared names are not reserved, at most 255 parameters, arms and loop bodies are
    statements, `else` on the nearest `if`, expression statements do not begin with `{`), `Parse`
    applied to its rendering returns that tree, with no diagnostic, for all large enough fuel -/
theorem every_wellformed_program_is_accepted (p : List Stmt) (hw : wfSs p = true) :
    ∃ f0, ∀ f, f0 ≤ f → program f (toksSs p ++ [tk (kw .EOF)]) = .ok (eraseSs p) [tk (kw .EOF)] [] :=
  program_complete p hw

/-- and the tree is determined by the text: two well-formed programs with the same rendering are
    the same program (up to line fields) -/
theorem program_tree_unique (p q : List Stmt) (hp : wfSs p = true) (hq : wfSs q = true) (h : rStmts p = rStmts q) :
    eraseSs p = eraseSs q := program_rendering_injective p q hp hq h

/-- the remaining link: every program `Parse` accepts (no diagnostic) is well-formed — so the
    accepted token lists are *exactly* the renderings of well-formed programs:
    accepted ⇒ `accepted_is_rendering` + this; well-formed ⇒ `every_wellformed_program_is_accepted` -/
theorem accepted_program_is_wellformed (f : Nat) (ts : List Token) (p : List Stmt) (r : List Token)
    (hw : ∀ t ∈ ts, TokWf t) (h : program f ts = .ok p r []) : wfSs p = true :=
  program_wf f ts p r hw h

/-- hence the returned tree is *the* tree of the grammar for the accepted tokens: any well-formed
    program with the same rendering is the returned one (up to line fields) -/
theorem accepted_program_is_the_unique_tree (f : Nat) (ts : List Token) (p : List Stmt) (r : List Token)
    (hw : ∀ t ∈ ts, TokWf t) (h : program f ts = .ok p r []) (q : List Stmt) (hq : wfSs q = true) (hr : rStmts q = rStmts p) :
    eraseSs q = eraseSs p :=
  program_rendering_injective q p hq (program_wf f ts p r hw h) hr

/-- non-vacuity: a program with a function, a `ধরি` list, a `ফর` loop with all three clauses, an
    `if`/`else` chain, a block and a `return` is well-formed; the dangling-else tree that puts the
    `else` on the outer `if` is not -/
example :
    let n (k : Nat) : Expr := .literal .nil k
    let x : Expr := .ident ['x'] 1
    wfSs [.funS ['f'] [['a'], ['b']] [.varList [⟨['u'], 1, some (n 1)⟩, ⟨['v'], 1, none⟩],
            .forS (some (.var ⟨['i'], 1, some (n 0)⟩)) (some x) (some (.assign ['i'] 1 (n 2) 1))
              (.block [.ifS x (.print x) (some (.ifS x (.breakS 1) (some (.continueS 1))))]),
            .returnS 1 (some x)],
          .expr (.call (.ident ['f'] 1) 1 [n 1, n 2])] = true ∧
    wfSs [.ifS x (.ifS x (.print x) none) (some (.print x))] = false ∧
    wfSs [.ifS x (.ifS x (.print x) (some (.print x))) none] = true := by decide

/-- totality of the parser half: on the token list of any text `Parse` never indexes past the end
    (no panic outcome, whatever the fuel), and when it gives up it has reported a diagnostic -/
theorem parsing_never_panics (lm : Char → Bool) (hlm : lm '\n' = false) (src : List Char) (toks : List Token) (ds : List Diag)
    (hs : Lexer.scan lm src = some (toks, ds)) (f : Nat) :
    program f toks ≠ .abn .panic ∧ ∀ pd, program f toks = .err pd → pd ≠ [] := by
  obtain ⟨body, hb, hne⟩ := C09.single_eof_last lm hlm src toks ds hs
  exact ⟨parse_no_panic f toks ⟨body, _, hb, rfl, hne⟩, program_err_nonempty f toks⟩

/-- totality of the lexer half of the front end: every text is tokenised (see C09.scan_total) -/
theorem lexing_total (lm : Char → Bool) (hlm : lm '\n' = false) (src : List Char) :
    ∃ toks ds, Lexer.scan lm src = some (toks, ds) := C09.scan_total lm hlm src

/-- non-vacuity: a text with a lenient error is still rejected -/
example : (frontEnd (fun c => c.isAlpha) "a b;".toList).diags ≠ [] := by decide

end Borno.Props.C08
