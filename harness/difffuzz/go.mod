module verif/difffuzz

go 1.22.6

require (
	blessedborno v0.0.0
	github.com/ah-naf/borno v0.0.0
	golang.org/x/text v0.21.0
)

replace github.com/ah-naf/borno => /repo

replace blessedborno => ../../blessed/borno
