import BornoModel.Value
/-!
# Impl — the evaluator as the Go code has it (model of `interpreter/*.go`)

Same plumbing as the Go code: a global error flag in the store that `eval` consults at its
head, and in-band `break` / `continue` / `return` signals returned next to the value.
A failed operation reports, sets the flag and returns `nil`; the constructs around it then
consult the flag (or not) exactly where the Go code does.
-/
namespace Borno
open Expect (Native)

inductive Signal
  | none
  | brk (line : Nat)
  | cont (line : Nat)
  | ret (line : Nat) (v : Val)
  deriving DecidableEq, Repr, Inhabited

inductive Res (α : Type)
  | ok (a : α) (σ : Store)
  | abn (a : Abn)
  deriving Repr, Inhabited

abbrev ER := Res (Val × Signal)

/-- fuel handed to `stringify` (a value nests at most as deep as the store is large, unless cyclic) -/
def showFuel (σ : Store) : Nat :=
  (σ.arrs.map List.length).sum + (σ.objs.map List.length).sum + 2 * (σ.arrs.length + σ.objs.length) + 4

/-! ## operators -/

def msgLeftNum := "Left operand must be a number.".toList
def msgRightNum := "Right operand must be a number.".toList
def msgLeftInt := "Left operand must be an integer.".toList
def msgRightInt := "Right operand must be an integer.".toList
def msgDivZero := "Division by zero.".toList
def msgShiftNeg := "Shift count must not be negative.".toList
def msgAddOperands := "Operands must be numbers or strings.".toList
def msgAddRight := "Right operand must be a string or number.".toList
def msgExpNumber := "expected a number, got".toList
def msgExpInteger := "expected an integer, got".toList

/-- `stringifyOperand` -/
def stringifyOperand : Val → Option (List Char)
  | .num x => some x.fmtV
  | .str s => some s
  | _ => none

/-- outcome of an operator: a value or the message of the runtime error -/
abbrev OpRes := Except (List Char) Val

/-- `handleAddition` -/
def opAdd (l r : Val) : OpRes :=
  match l with
  | .num a =>
    (match r with
     | .str s => .ok (.str (a.fmtV ++ s))
     | .num b => .ok (.num (F64.add a b))
     | _ => .error msgAddOperands)
  | .str s =>
    (match stringifyOperand r with
     | some t => .ok (.str (s ++ t))
     | none => .error msgAddRight)
  | _ => .error msgAddOperands

def numPair (l r : Val) : Except (List Char) (F64 × F64) :=
  match toNumber l with
  | none => .error msgLeftNum
  | some a =>
    match toNumber r with
    | none => .error msgRightNum
    | some b => .ok (a, b)

def intPair (l r : Val) : Except (List Char) (Int × Int) :=
  match toInt64 l with
  | none => .error msgLeftInt
  | some a =>
    match toInt64 r with
    | none => .error msgRightInt
    | some b => .ok (a, b)

/-- `evaluateBinary` (the operator token type decides) -/
def binop (P : Platform) (σ : Store) (op : TT) (l r : Val) : OpRes :=
  match op with
  | .PLUS => opAdd l r
  | .MINUS => (numPair l r).map fun (a, b) => .num (F64.sub a b)
  | .STAR => (numPair l r).map fun (a, b) => .num (F64.mul a b)
  | .SLASH =>
    (match numPair l r with
     | .ok (a, b) => if b.isZero then .error msgDivZero else .ok (.num (F64.div a b))
     | .error m => .error m)
  | .EQUAL_EQUAL => .ok (.bool (valEq σ l r))
  | .BANG_EQUAL => .ok (.bool (!valEq σ l r))
  | .GREATER => (numPair l r).map fun (a, b) => .bool (F64.gt a b)
  | .GREATER_EQUAL => (numPair l r).map fun (a, b) => .bool (F64.ge a b)
  | .LESS => (numPair l r).map fun (a, b) => .bool (F64.lt a b)
  | .LESS_EQUAL => (numPair l r).map fun (a, b) => .bool (F64.le a b)
  | .AND => (intPair l r).map fun (a, b) => .num (F64.ofInt (bitAnd a b))
  | .OR => (intPair l r).map fun (a, b) => .num (F64.ofInt (bitOr a b))
  | .XOR => (intPair l r).map fun (a, b) => .num (F64.ofInt (bitXor a b))
  | .LEFT_SHIFT =>
    (match intPair l r with
     | .ok (a, b) => if b < 0 then .error msgShiftNeg else .ok (.num (F64.ofInt (shl a b)))
     | .error m => .error m)
  | .RIGHT_SHIFT =>
    (match intPair l r with
     | .ok (a, b) => if b < 0 then .error msgShiftNeg else .ok (.num (F64.ofInt (shr a b)))
     | .error m => .error m)
  | .POWER => (numPair l r).map fun (a, b) => .num (P.pow a b)
  | .MODULO =>
    (match numPair l r with
     | .ok (a, b) => if b.isZero then .error msgDivZero else .ok (.num (F64.mod a b))
     | .error m => .error m)
  | _ => .error "Unknown binary operator: ".toList

/-- `evaluateUnary` -/
def unop (op : TT) (v : Val) : OpRes :=
  match op with
  | .MINUS =>
    (match toNumber v with
     | some x => .ok (.num x.neg)
     | none => .error msgExpNumber)
  | .BANG => .ok (.bool (!truthy v))
  | .NOT =>
    (match toInt64 v with
     | some i => .ok (.num (F64.ofInt (bitNot i)))
     | none => .error msgExpInteger)
  | _ => .error "Unknown unary operator: ".toList

/-! ## built-ins -/

/-- result of a built-in: value and new store, or the `error` it returns -/
abbrev NatRes := Except (List Char) (Val × Store)

def numArg (v : Val) (msg : String) : Except (List Char) F64 :=
  match toNumber v with
  | some x => .ok x
  | none => .error msg.toList

def math1 (f : F64 → F64) (args : List Val) (σ : Store) (what : String) : NatRes :=
  match args with
  | [a] => (numArg a "argument must be a number").map fun x => (.num (f x), σ)
  | _ => .error (what ++ " function expects exactly 1 argument").toList

/-- fold of `সর্বনিম্ন` / `সর্বোচ্চ` -/
def extremum (better : F64 → F64 → Bool) : F64 → List Val → Except (List Char) F64
  | acc, [] => .ok acc
  | acc, v :: vs =>
    match toNumber v with
    | none => .error "all arguments must be numbers".toList
    | some x => extremum better (if better x acc then x else acc) vs

/-- a single array argument is flattened -/
def minmaxArgs (σ : Store) (args : List Val) : List Val :=
  match args with
  | [.arr r] => σ.arrs[r]?.getD []
  | _ => args

def minmax (better : F64 → F64 → Bool) (what : String) (args : List Val) (σ : Store) : NatRes :=
  match args with
  | [] => .error (what ++ " function expects at least 1 argument").toList
  | _ :: _ =>
    match minmaxArgs σ args with
    | [] => .error (what ++ " function expects a non-empty array or list of arguments").toList
    | a :: rest =>
      match toNumber a with
      | none => .error "all arguments must be numbers".toList
      | some x => (extremum better x rest).map fun m => (.num m, σ)

/-- one line of stdin as `bufio.Reader.ReadString('\n')` returns it, and the rest -/
def readLine (inp : List Char) : Option (List Char × List Char) :=
  match inp with
  | [] => none
  | _ =>
    let line := inp.takeWhile (· ≠ '\n')
    let rest := inp.dropWhile (· ≠ '\n')
    match rest with
    | [] => some (line, [])
    | _ :: rest' => some (line ++ ['\n'], rest')

/-- `NativeLenFn.Call` -/
def natLen (args : List Val) (σ : Store) : NatRes :=
  match args with
  | [.arr r] => .ok (.num (F64.ofNat (σ.arrs[r]?.getD []).length), σ)
  | [_] => .error "len function only works on arrays".toList
  | _ => .error "len function expects exactly 1 argument".toList

/-- `NativeAppendFn.Call` -/
def natAppend (args : List Val) (σ : Store) : NatRes :=
  match args with
  | a :: x :: xs =>
    (match a with
     | .arr r => .ok ((σ.newArr ((σ.arrs[r]?.getD []) ++ x :: xs)).2, (σ.newArr ((σ.arrs[r]?.getD []) ++ x :: xs)).1)
     | _ => .error "append function only works on arrays".toList)
  | _ => .error "append function expects at least 2 arguments (array and element(s))".toList

/-- `NativeRemoveFn.Call` -/
def natRemove (args : List Val) (σ : Store) : NatRes :=
  match args with
  | [a, i] =>
    (match a with
     | .arr r =>
       (match toInt64 i with
        | none => .error "array index must be an integer".toList
        | some k =>
          if k < 0 || k.toNat ≥ (σ.arrs[r]?.getD []).length then .error "array index out of bounds".toList
          else .ok ((σ.newArr ((σ.arrs[r]?.getD []).eraseIdx k.toNat)).2, (σ.newArr ((σ.arrs[r]?.getD []).eraseIdx k.toNat)).1))
     | _ => .error "remove function only works on arrays".toList)
  | _ => .error "remove function expects exactly 2 arguments (array and index)".toList

/-- `NativeDeleteFn.Call` -/
def natDelete (args : List Val) (σ : Store) : NatRes :=
  match args with
  | [o, k] =>
    (match o with
     | .obj r =>
       (match k with
        | .str key =>
          if ((σ.objs[r]?.getD []).lookup key).isSome then
            .ok (.obj r, { σ with objs := σ.objs.set r ((σ.objs[r]?.getD []).filter (fun p => p.1 != key)) })
          else .error ("key '".toList ++ key ++ "' not found in object".toList)
        | _ => .error "delete function expects the second argument to be a string key".toList)
     | _ => .error "delete function only works on objects".toList)
  | _ => .error "delete function expects exactly 2 arguments (object and key)".toList

/-- the listing order of an object's properties -/
def objKeys (σ : Store) (r : Nat) : List Name := sortKeys ((σ.objs[r]?.getD []).map (·.1))

/-- `NativeKeysFn.Call` -/
def natKeys (args : List Val) (σ : Store) : NatRes :=
  match args with
  | [.obj r] => .ok ((σ.newArr ((objKeys σ r).map .str)).2, (σ.newArr ((objKeys σ r).map .str)).1)
  | [_] => .error "keys function only works on objects".toList
  | _ => .error "keys function expects exactly 1 argument".toList

/-- `NativeValuesFn.Call` -/
def natValues (args : List Val) (σ : Store) : NatRes :=
  match args with
  | [.obj r] =>
    .ok ((σ.newArr ((objKeys σ r).map fun k => ((σ.objs[r]?.getD []).lookup k).getD .nil)).2,
         (σ.newArr ((objKeys σ r).map fun k => ((σ.objs[r]?.getD []).lookup k).getD .nil)).1)
  | [_] => .error "values function only works on objects".toList
  | _ => .error "values function expects exactly 1 argument".toList

/-- `NativePowFn.Call` -/
def natPow (P : Platform) (args : List Val) (σ : Store) : NatRes :=
  match args with
  | [a, b] =>
    (match numArg a "base must be a number" with
     | .error m => .error m
     | .ok x =>
       match numArg b "exponent must be a number" with
       | .error m => .error m
       | .ok y => .ok (.num (P.pow x y), σ))
  | _ => .error "pow function expects exactly 2 arguments".toList

/-- `Callable.Call` of each built-in except `ইনপুট` (these fail without side effect) -/
def callPure (P : Platform) (n : Native) (args : List Val) (σ : Store) : NatRes :=
  match n with
  | .clock => .ok (.num P.now, σ)
  | .len => natLen args σ
  | .append => natAppend args σ
  | .remove => natRemove args σ
  | .delete => natDelete args σ
  | .keys => natKeys args σ
  | .values => natValues args σ
  | .abs => math1 F64.abs args σ "abs"
  | .sqrt => math1 F64.sqrt args σ "sqrt"
  | .sin => math1 P.sin args σ "sin"
  | .cos => math1 P.cos args σ "cos"
  | .tan => math1 P.tan args σ "tan"
  | .round => math1 F64.round args σ "round"
  | .pow => natPow P args σ
  | .min => minmax F64.lt "min" args σ
  | .max => minmax F64.gt "max" args σ
  | .input => .error "input".toList

/-- the optional prompt of `ইনপুট`: written before the read -/
def inputPrompt (args : List Val) (σ : Store) : Except (List Char) Store :=
  match args with
  | [.str p] => .ok (σ.print p)
  | [_] => .error "input function's argument must be a string or []rune".toList
  | _ => .ok σ

/-- `NativeInputFn.Call`: the prompt is written before the read, so it stays when the read fails -/
def callInput (args : List Val) (σ : Store) : Store × Except (List Char) Val :=
  match args with
  | _ :: _ :: _ => (σ, .error "input function accepts at most 1 argument".toList)
  | _ =>
    match inputPrompt args σ with
    | .error m => (σ, .error m)
    | .ok σ1 =>
      match readLine σ1.input with
      | none => (σ1, .error "failed to read input: EOF".toList)
      | some lr => (σ1.consume lr.2, .ok (.str (trimSpace lr.1)))

/-- `Callable.Call` of a built-in: new store and the value or the returned `error` -/
def callNative (P : Platform) (n : Native) (args : List Val) (σ : Store) : Store × Except (List Char) Val :=
  match n with
  | .input => callInput args σ
  | _ =>
    match callPure P n args σ with
    | .ok (v, σ') => (σ', .ok v)
    | .error m => (σ, .error m)

/-! ## the evaluator -/

def nilOk (σ : Store) : ER := .ok (.nil, .none) σ

def litVal : LitVal → Val
  | .nil => .nil
  | .bool b => .bool b
  | .num x => .num x
  | .str s => .str s

def natToChars (n : Nat) : List Char := (toString n).toList
def intToChars (n : Int) : List Char := (toString n).toList

/-- checked index into an array: the message of the failure, or the position -/
def checkIndex (σ : Store) (a i : Val) (notArray : String) : Except (List Char) (Nat × Nat) :=
  match a with
  | .arr r =>
    (match toInt64 i with
     | none => .error "Array index must be an integer.".toList
     | some k =>
       if k < 0 || k.toNat ≥ (σ.arrs[r]?.getD []).length then .error "Array index out of bounds.".toList
       else .ok (r, k.toNat))
  | _ => .error notArray.toList

/-! ### plumbing combinators

`bind` threads the store and passes abnormal outcomes through.  `seq` is the Go idiom
`v, signal := i.eval(…); if signal.Type != ControlFlowNone { return nil, signal }`. -/

def Res.bind {α β : Type} (r : Res α) (k : α → Store → Res β) : Res β :=
  match r with
  | .ok a σ => k a σ
  | .abn x => .abn x

def ER.seq (r : ER) (k : Val → Store → ER) : ER :=
  r.bind fun p σ1 => if p.2 ≠ .none then .ok (.nil, p.2) σ1 else k p.1 σ1

/-- `if utils.HadRuntimeError { return nil, none }` -/
def guardErr (σ : Store) (k : ER) : ER := if σ.hadError then nilOk σ else k

/-- arity of a callee, if it is callable -/
def arityOf (σ : Store) : Val → Option Int
  | .fn id => (σ.funs[id]?).map fun cl => (cl.params.length : Int)
  | .native n => some (Expect.arity n)
  | _ => none

def arityMsg (k : Int) (n : Nat) : List Char :=
  "Expected ".toList ++ intToChars k ++ " arguments but ".toList ++ natToChars n ++ ".".toList

section
variable (P : Platform)

/-- a built-in call at a call site: count it, run it, turn a returned `error` into a runtime error -/
def invokeNative (n : Native) (vs : List Val) (parenLine : Nat) (σ : Store) : ER :=
  match callNative P n vs σ.enterNative with
  | (σ4, .ok v) => .ok (v, .none) σ4
  | (σ4, .error m) => nilOk (σ4.rte ("Function call failed: ".toList ++ m) parenLine)

mutual

/-- `eval` on an expression node -/
def evalE : Nat → Expr → Nat → Bool → Store → ER
  | 0, _, _, _, _ => .abn .fuel
  | f + 1, e, env, repl, σ =>
    guardErr σ <|
    match e with
    | .literal v _ => .ok (litVal v, .none) σ
    | .grouping e' _ => evalE f e' env repl σ
    | .ident n line =>
      (match σ.get env n with
       | some v => .ok (v, .none) σ
       | none => nilOk (σ.rte ("Variable ".toList ++ n ++ " is not defined.".toList) line))
    | .unary op line e' =>
      (evalE f e' env repl σ).seq fun v σ1 =>
        guardErr σ1 <|
        match unop op v with
        | .ok r => .ok (r, .none) σ1
        | .error m => nilOk (σ1.rte m line)
    | .binary l op line r =>
      (evalE f l env repl σ).seq fun a σ1 =>
        guardErr σ1 <|
        (evalE f r env repl σ1).seq fun b σ2 =>
          guardErr σ2 <|
          match binop P σ2 op a b with
          | .ok v => .ok (v, .none) σ2
          | .error m => nilOk (σ2.rte m line)
    | .logical l op r =>
      (evalE f l env repl σ).seq fun a σ1 =>
        if op = .LOGICAL_OR then
          (if truthy a then .ok (a, .none) σ1 else evalE f r env repl σ1)
        else
          (if !truthy a then .ok (a, .none) σ1 else evalE f r env repl σ1)
    | .assign n nameLine v _ =>
      (evalE f v env repl σ).seq fun x σ1 =>
        guardErr σ1 <|
        match σ1.find env n with
        | some fr => .ok (x, .none) (σ1.define fr n x)
        | none => .ok (x, .none) (σ1.rte ("Undefined variable '".toList ++ n ++ "'.".toList) nameLine)
    | .arrayLit es =>
      (evalList f es env repl σ).bind fun p σ1 =>
        if p.2 ≠ .none then .ok (.nil, p.2) σ1
        else .ok ((σ1.newArr p.1).2, .none) (σ1.newArr p.1).1
    | .objectLit ps _ =>
      (evalProps f (effectiveProps ps) env repl σ).bind fun p σ1 =>
        if p.2 ≠ .none then .ok (.nil, p.2) σ1
        else .ok ((σ1.newObj p.1).2, .none) (σ1.newObj p.1).1
    | .arrayAccess a i line =>
      (evalE f a env repl σ).seq fun av σ1 =>
        (evalE f i env repl σ1).seq fun iv σ2 =>
          match checkIndex σ2 av iv "Invalid array access. Not an array." with
          | .error m => nilOk (σ2.rte m line)
          | .ok (r, k) =>
            -- `array[index]` after the bounds test
            (match (σ2.arrs[r]?.getD [])[k]? with
             | some v => .ok (v, .none) σ2
             | none => .abn .panic)
    | .arrayAssign a i v line =>
      (evalE f a env repl σ).seq fun av σ1 =>
        (evalE f i env repl σ1).seq fun iv σ2 =>
          (evalE f v env repl σ2).seq fun x σ3 =>
            match checkIndex σ3 av iv "Invalid array assignment. Not an array." with
            | .error m => nilOk (σ3.rte m line)
            | .ok (r, k) =>
              .ok (x, .none) { σ3 with arrs := σ3.arrs.set r ((σ3.arrs[r]?.getD []).set k x) }
    | .propAccess o p line =>
      (evalE f o env repl σ).seq fun ov σ1 =>
        match ov with
        | .obj r =>
          (match (σ1.objs[r]?.getD []).lookup p with
           | some v => .ok (v, .none) σ1
           | none => nilOk (σ1.rte ("Property '".toList ++ p ++ "' does not exist on object".toList) line))
        | _ => nilOk (σ1.rte "Invalid property access. Not an object.".toList line)
    | .propAssign o p v line =>
      (evalE f o env repl σ).seq fun ov σ1 =>
        match ov with
        | .obj r =>
          (evalE f v env repl σ1).seq fun x σ2 =>
            .ok (x, .none) { σ2 with objs := σ2.objs.set r (upsert p x (σ2.objs[r]?.getD [])) }
        | _ => nilOk (σ1.rte "Invalid object assignment. Not an object.".toList line)
    | .call c parenLine args =>
      (evalE f c env repl σ).seq fun cv σ1 =>
        match arityOf σ1 cv with
        | none => nilOk (σ1.rte "Can only call functions.".toList parenLine)
        | some k =>
          if k ≠ -1 && (args.length : Int) ≠ k then nilOk (σ1.rte (arityMsg k args.length) parenLine)
          else
            (evalList f args env repl σ1).bind fun p σ2 =>
              if p.2 ≠ .none then .ok (.nil, p.2) σ2
              else
                guardErr σ2 <|
                match cv with
                | .fn id => callFn f id p.1 σ2
                | .native n => invokeNative P n p.1 parenLine σ2
                | _ => .abn .panic

/-- elements / arguments, left to right; a signal aborts -/
def evalList : Nat → List Expr → Nat → Bool → Store → Res (List Val × Signal)
  | 0, _, _, _, _ => .abn .fuel
  | _ + 1, [], _, _, σ => .ok ([], .none) σ
  | f + 1, e :: es, env, repl, σ =>
    (evalE f e env repl σ).bind fun p σ1 =>
      if p.2 ≠ .none then .ok ([], p.2) σ1
      else (evalList f es env repl σ1).bind fun q σ2 => .ok (p.1 :: q.1, q.2) σ2

/-- object-literal initialisers in `Keys` order -/
def evalProps : Nat → List (Name × Expr) → Nat → Bool → Store → Res (List (Name × Val) × Signal)
  | 0, _, _, _, _ => .abn .fuel
  | _ + 1, [], _, _, σ => .ok ([], .none) σ
  | f + 1, ke :: ps, env, repl, σ =>
    (evalE f ke.2 env repl σ).bind fun p σ1 =>
      if p.2 ≠ .none then .ok ([], p.2) σ1
      else (evalProps f ps env repl σ1).bind fun q σ2 => .ok ((ke.1, p.1) :: q.1, q.2) σ2

/-- `Function.Call` -/
def callFn : Nat → Nat → List Val → Store → ER
  | 0, _, _, _ => .abn .fuel
  | f + 1, id, args, σ =>
    match σ.funs[id]? with
    | none => .abn .panic
    | some cl =>
      -- `arguments[ind]` for each parameter
      if args.length < cl.params.length then .abn .panic
      else
        let fe := σ.envs.length
        let σ2 := (σ.newEnv (some cl.env)).1.define fe cl.name (.fn id)
        let σ3 := (cl.params.zip args).foldl (fun s (p : Name × Val) => s.define fe p.1 p.2) σ2
        (runBody f cl.body fe σ3).bind fun v σ4 => .ok (v, .none) σ4

/-- the statement loop of `Function.Call` -/
def runBody : Nat → List Stmt → Nat → Store → Res Val
  | 0, _, _, _ => .abn .fuel
  | _ + 1, [], _, σ => .ok .nil σ
  | f + 1, s :: ss, env, σ =>
    (evalS f s env false σ).bind fun p σ1 =>
      match p.2 with
      | .ret _ v => .ok v σ1
      | .none => runBody f ss env σ1
      | _ => .ok .nil σ1

/-- statements of a block: a signal or a set flag ends the block -/
def evalBlock : Nat → List Stmt → Nat → Bool → Store → ER
  | 0, _, _, _, _ => .abn .fuel
  | _ + 1, [], _, _, σ => nilOk σ
  | f + 1, s :: ss, env, repl, σ =>
    (evalS f s env repl σ).seq fun _ σ1 =>
      guardErr σ1 <| evalBlock f ss env repl σ1

/-- declarations of a `VarListStmt` -/
def evalDecls : Nat → List VarDecl → Nat → Bool → Store → ER
  | 0, _, _, _, _ => .abn .fuel
  | _ + 1, [], _, _, σ => nilOk σ
  | f + 1, d :: ds, env, repl, σ =>
    (evalS f (.var d) env repl σ).seq fun _ σ1 =>
      guardErr σ1 <| evalDecls f ds env repl σ1

/-- the `for { … }` of `*ast.While` -/
def whileLoop : Nat → Expr → Stmt → Nat → Bool → Store → ER
  | 0, _, _, _, _, _ => .abn .fuel
  | f + 1, c, b, env, repl, σ =>
    (evalE f c env repl σ).seq fun cv σ1 =>
      if !truthy cv then nilOk σ1
      else
        (evalS f b env repl σ1).bind fun p σ2 =>
          match p.2 with
          | .brk _ => nilOk σ2
          | .ret l v => .ok (.nil, .ret l v) σ2
          | _ => whileLoop f c b env repl σ2

/-- the `for { … }` of `*ast.ForStmt` -/
def forLoop : Nat → Expr → Option Expr → Stmt → Nat → Bool → Store → ER
  | 0, _, _, _, _, _, _ => .abn .fuel
  | f + 1, c, inc, b, env, repl, σ =>
    (evalE f c env repl σ).seq fun cv σ1 =>
      if !truthy cv then nilOk σ1
      else
        (evalS f b env repl σ1).bind fun p σ2 =>
          match p.2 with
          | .brk _ => nilOk σ2
          | .ret l v => .ok (.nil, .ret l v) σ2
          | _ =>
            (match inc with
             | none => forLoop f c inc b env repl σ2
             | some ie => (evalE f ie env repl σ2).seq fun _ σ3 => forLoop f c inc b env repl σ3)

/-- `eval` on a statement node -/
def evalS : Nat → Stmt → Nat → Bool → Store → ER
  | 0, _, _, _, _ => .abn .fuel
  | f + 1, s, env, repl, σ =>
    guardErr σ <|
    match s with
    | .expr e =>
      (evalE f e env repl σ).seq fun v σ1 =>
        if repl && !σ1.hadError then
          (match stringify σ1 (showFuel σ1) v with
           | some t => .ok (v, .none) (σ1.print (t ++ ['\n']))
           | none => .abn .cyclic)
        else .ok (v, .none) σ1
    | .print e =>
      (evalE f e env repl σ).bind fun p σ1 =>
        if p.2 ≠ .none then .ok (p.1, p.2) σ1
        else
          guardErr σ1 <|
          match stringify σ1 (showFuel σ1) p.1 with
          | some t => nilOk (σ1.print (P.nfc t ++ ['\n']))
          | none => .abn .cyclic
    | .var d =>
      ER.seq (match d.init with
       | none => Res.ok (Val.nil, Signal.none) σ
       | some e => (evalE f e env repl σ).seq fun v σ1 => guardErr σ1 <| .ok (v, .none) σ1) fun v σ1 =>
        guardErr σ1 <|
        match σ1.getHere env d.name with
        | none => nilOk (σ1.define env d.name v)
        | some _ => nilOk (σ1.rte ("Cannot redeclare variable ".toList ++ d.name ++ ".".toList) d.line)
    | .varList ds => evalDecls f ds env repl σ
    | .block ss => evalBlock f ss σ.envs.length repl (σ.newEnv (some env)).1
    | .ifS c t e =>
      (evalE f c env repl σ).seq fun cv σ1 =>
        if truthy cv then (evalS f t env repl σ1).bind fun p σ2 => .ok (.nil, p.2) σ2
        else
          (match e with
           | some el => (evalS f el env repl σ1).bind fun p σ2 => .ok (.nil, p.2) σ2
           | none => nilOk σ1)
    | .whileS c b => whileLoop f c b env repl σ
    | .forS init c inc b =>
      (match init with
       | none => forLoop f (forCond c) inc b σ.envs.length repl (σ.newEnv (some env)).1
       | some i =>
         (evalS f i σ.envs.length repl (σ.newEnv (some env)).1).seq fun _ σ2 =>
           forLoop f (forCond c) inc b σ.envs.length repl σ2)
    | .breakS line => .ok (.nil, .brk line) σ
    | .continueS line => .ok (.nil, .cont line) σ
    | .returnS line v =>
      (match v with
       | none => .ok (.nil, .ret line .nil) σ
       | some e => (evalE f e env repl σ).seq fun x σ1 => .ok (.nil, .ret line x) σ1)
    | .funS name ps body =>
      let ce := σ.envs.length
      nilOk (((σ.newEnv (some env)).1.newFun ⟨name, ps, body, ce⟩).1.define env name (.fn σ.funs.length))

end

/-- the statement loop of `Interpret` -/
def interpretLoop : Nat → List Stmt → Nat → Bool → Store → Res Unit
  | 0, _, _, _, _ => .abn .fuel
  | _ + 1, [], _, _, σ => .ok () σ
  | f + 1, s :: ss, env, repl, σ =>
    (evalS P f s env repl σ).bind fun p σ1 =>
      match p.2 with
      | .brk l => .ok () (σ1.rte "Unexpected 'break' outside of loop.".toList l)
      | .cont l => .ok () (σ1.rte "Unexpected 'continue' outside of loop.".toList l)
      | .ret l _ => .ok () (σ1.rte "Unexpected 'return' outside of function.".toList l)
      | .none => if σ1.hadError then .ok () σ1 else interpretLoop f ss env repl σ1

/-- the store `NewInterpreter` + `Interpret` start from: frame 0 holds the built-ins,
    frame 1 is the program's scope -/
def initStore (input : List Char) : Store :=
  { envs := [⟨Expect.natives.map fun (n, b) => (n, Val.native b), none⟩, ⟨[], some 0⟩],
    input := input }

/-- `Interpret(statements, isRepl)` on a fresh interpreter -/
def interpret (fuel : Nat) (prog : List Stmt) (repl : Bool) (input : List Char) : Res Unit :=
  interpretLoop P fuel prog 1 repl (initStore input)

end
end Borno
