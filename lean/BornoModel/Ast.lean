import BornoModel.Lexer
/-!
# Syntax trees (mirrors `ast/expr.go`, `ast/stmt.go`)

Each node keeps exactly the fields the Go node has and the interpreter or a diagnostic can
observe (operator token type, the `Line` fields, lexemes of names).  One ghost item: an object
literal keeps the *whole* parsed property list (duplicates included) and whether a comma followed
the last property, and a `ফর` statement keeps whether it had a condition (the Go parser
substitutes the literal `true`, line 0, for a missing one: `forCond`); `effectiveProps` gives the Go view (`Keys` in first-occurrence order, each with the last initialiser written for it).
-/
namespace Borno

inductive LitVal
  | nil
  | bool (b : Bool)
  | num (x : F64)
  | str (s : List Char)
  deriving DecidableEq, Repr, Inhabited

inductive Expr
  | literal (v : LitVal) (line : Nat)
  | ident (name : Name) (line : Nat)
  | grouping (e : Expr) (line : Nat)
  | unary (op : TT) (line : Nat) (e : Expr)
  | binary (l : Expr) (op : TT) (line : Nat) (r : Expr)
  | logical (l : Expr) (op : TT) (r : Expr)
  | call (callee : Expr) (parenLine : Nat) (args : List Expr)
  | arrayLit (elems : List Expr)
  | objectLit (props : List (Name × Expr)) (trailingComma : Bool)
  | arrayAccess (a : Expr) (i : Expr) (line : Nat)
  | propAccess (o : Expr) (prop : Name) (line : Nat)
  | assign (name : Name) (nameLine : Nat) (v : Expr) (line : Nat)
  | arrayAssign (a : Expr) (i : Expr) (v : Expr) (line : Nat)
  | propAssign (o : Expr) (prop : Name) (v : Expr) (line : Nat)
  deriving Repr, Inhabited

structure VarDecl where
  name : Name
  line : Nat
  init : Option Expr
  deriving Repr, Inhabited

inductive Stmt
  | expr (e : Expr)
  | print (e : Expr)
  | var (d : VarDecl)
  | varList (ds : List VarDecl)
  | block (ss : List Stmt)
  | ifS (c : Expr) (t : Stmt) (e : Option Stmt)
  | whileS (c : Expr) (b : Stmt)
  | forS (init : Option Stmt) (cond : Option Expr) (incr : Option Expr) (body : Stmt)
  | breakS (line : Nat)
  | continueS (line : Nat)
  | returnS (line : Nat) (v : Option Expr)
  | funS (name : Name) (params : List Name) (body : List Stmt)
  deriving Repr, Inhabited

/-- the condition a `ফর` statement runs with: the parser's stand-in `true` (line 0) when none was written -/
def forCond (c : Option Expr) : Expr := c.getD (.literal (.bool true) 0)

/-- Go map assignment on an association list that remembers first-insertion order -/
def upsert {α : Type} (k : Name) (v : α) : List (Name × α) → List (Name × α)
  | [] => [(k, v)]
  | (k', v') :: rest => if k' = k then (k', v) :: rest else (k', v') :: upsert k v rest

/-- Go view of an object literal: first-occurrence key order (`Keys`), last initialiser per key
    (`Properties[key]`) — exactly what `objectLiteral` builds -/
def effectiveProps {α : Type} (ps : List (Name × α)) : List (Name × α) :=
  ps.foldl (fun acc p => upsert p.1 p.2 acc) []

end Borno
