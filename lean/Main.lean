import Std
import BornoModel.Cli
import BornoModel.Nfc
import BornoModel.Gen.Unicode
/-!
# bornomodel — line-protocol driver of the Lean model

    request : mode TAB hex(source utf8) TAB hex(stdin) TAB options
    modes   : lex | parse | run | repl | num

One response line per request, in the same format as `harness/cmd/impl` prints for the Go code.
-/
open Borno

/-! ## bytes, hex, UTF-8 -/

def hexDigit (n : Nat) : Char := if n < 10 then Char.ofNat (48 + n) else Char.ofNat (87 + n)

def hexOfBytes (bs : List Nat) : String :=
  String.ofList (bs.flatMap fun b => [hexDigit (b / 16), hexDigit (b % 16)])

def hexVal? (c : Char) : Option Nat :=
  if '0' ≤ c ∧ c ≤ '9' then some (c.toNat - 48)
  else if 'a' ≤ c ∧ c ≤ 'f' then some (c.toNat - 87)
  else if 'A' ≤ c ∧ c ≤ 'F' then some (c.toNat - 55)
  else none

partial def bytesOfHex (s : List Char) : List Nat :=
  match s with
  | a :: b :: rest =>
    match hexVal? a, hexVal? b with
    | some x, some y => (x * 16 + y) :: bytesOfHex rest
    | _, _ => []
  | _ => []

def utf8Encode (c : Char) : List Nat :=
  let n := c.toNat
  if n < 0x80 then [n]
  else if n < 0x800 then [0xC0 + n / 64, 0x80 + n % 64]
  else if n < 0x10000 then [0xE0 + n / 4096, 0x80 + n / 64 % 64, 0x80 + n % 64]
  else [0xF0 + n / 262144, 0x80 + n / 4096 % 64, 0x80 + n / 64 % 64, 0x80 + n % 64]

def hx (s : List Char) : String := hexOfBytes (s.flatMap utf8Encode)

/-- Go's `[]rune(string)`: every invalid byte becomes U+FFFD -/
partial def utf8Decode (bs : List Nat) : List Char :=
  let cont (b : Nat) : Bool := 0x80 ≤ b && b < 0xC0
  let bad := Char.ofNat 0xFFFD
  match bs with
  | [] => []
  | b0 :: r =>
    if b0 < 0x80 then Char.ofNat b0 :: utf8Decode r
    else if 0xC2 ≤ b0 && b0 < 0xE0 then
      match r with
      | b1 :: r' => if cont b1 then Char.ofNat ((b0 - 0xC0) * 64 + (b1 - 0x80)) :: utf8Decode r' else bad :: utf8Decode r
      | _ => bad :: utf8Decode r
    else if 0xE0 ≤ b0 && b0 < 0xF0 then
      match r with
      | b1 :: b2 :: r' =>
        let lo := if b0 = 0xE0 then 0xA0 else 0x80
        let hi := if b0 = 0xED then 0xA0 else 0xC0
        if lo ≤ b1 && b1 < hi && cont b2 then
          Char.ofNat ((b0 - 0xE0) * 4096 + (b1 - 0x80) * 64 + (b2 - 0x80)) :: utf8Decode r'
        else bad :: utf8Decode r
      | _ => bad :: utf8Decode r
    else if 0xF0 ≤ b0 && b0 < 0xF5 then
      match r with
      | b1 :: b2 :: b3 :: r' =>
        let lo := if b0 = 0xF0 then 0x90 else 0x80
        let hi := if b0 = 0xF4 then 0x90 else 0xC0
        if lo ≤ b1 && b1 < hi && cont b2 && cont b3 then
          Char.ofNat ((b0 - 0xF0) * 262144 + (b1 - 0x80) * 4096 + (b2 - 0x80) * 64 + (b3 - 0x80)) :: utf8Decode r'
        else bad :: utf8Decode r
      | _ => bad :: utf8Decode r
    else bad :: utf8Decode r

def textOfHex (h : String) : List Char := utf8Decode (bytesOfHex h.toList)

/-! ## platform -/

def inRanges (rs : Array (Nat × Nat)) (n : Nat) : Bool := Id.run do
  let mut lo := 0
  let mut hi := rs.size
  while lo < hi do
    let mid := (lo + hi) / 2
    let (a, b) := rs[mid]!
    if n < a then hi := mid
    else if n > b then lo := mid + 1
    else return true
  return false

def cccOf (n : Nat) : Nat := Id.run do
  let rs := Borno.Gen.Unicode.cccRanges
  let mut lo := 0
  let mut hi := rs.size
  while lo < hi do
    let mid := (lo + hi) / 2
    let (a, b, c) := rs[mid]!
    if n < a then hi := mid
    else if n > b then lo := mid + 1
    else return c
  return 0

def decompMap : Std.HashMap Nat (List Nat) :=
  Borno.Gen.Unicode.decomp.foldl (fun m (k, v) => m.insert k v) {}

def composeMap : Std.HashMap (Nat × Nat) Nat :=
  Borno.Gen.Unicode.compose.foldl (fun m (a, b, c) => m.insert (a, b) c) {}

def nfcTables : Nfc.Tables :=
  { decomp := fun n => decompMap[n]?, ccc := cccOf, compose := fun a b => composeMap[(a, b)]? }

def toFloat (x : F64) : Float := Float.ofBits (UInt64.ofNat x.toBits)
def ofFloat (x : Float) : F64 := if x.isNaN then .nan else F64.ofBits x.toBits.toNat

def platform : Platform :=
  { lm := fun c => inRanges Borno.Gen.Unicode.lmRanges c.toNat
    nfc := Nfc.nfc nfcTables
    pow := fun a b => ofFloat (Float.pow (toFloat a) (toFloat b))
    sin := fun a => ofFloat (Float.sin (toFloat a))
    cos := fun a => ofFloat (Float.cos (toFloat a))
    tan := fun a => ofFloat (Float.tan (toFloat a))
    now := F64.ofNat 1790000000 }

/-! ## dumps -/

def hex16 (n : Nat) : String :=
  String.ofList ((List.range 16).map fun i => hexDigit (n / 16 ^ (15 - i) % 16))

def litDump : Lit → String
  | .none => "-"
  | .num x => "n" ++ hex16 x.toBits
  | .str s => "s" ++ hx s

def tokDump (t : Token) : String :=
  s!"T:{t.tt.idx}:{hx t.lexeme}:{litDump t.lit}:{t.line}"

def litValDump : LitVal → String
  | .nil => "-"
  | .bool true => "true"
  | .bool false => "false"
  | .num x => "n" ++ hex16 x.toBits
  | .str s => "s" ++ hx s

mutual
partial def exprDump : Expr → String
  | .literal v l => s!"(lit {litValDump v} {l})"
  | .ident n l => s!"(id {hx n} {l})"
  | .grouping e l => s!"(grp {exprDump e} {l})"
  | .unary op l e => s!"(un {op.idx} {l} {exprDump e})"
  | .binary a op l b => s!"(bin {op.idx} {l} {exprDump a} {exprDump b})"
  | .logical a op b => s!"(log {op.idx} {exprDump a} {exprDump b})"
  | .call c l args => s!"(call {exprDump c} {l} {exprsDump args})"
  | .arrayLit es => s!"(arr {exprsDump es})"
  | .objectLit ps _ =>
    let parts := (effectiveProps ps).map fun (k, e) => s!"({hx k} {exprDump e})"
    s!"(obj [{" ".intercalate parts}])"
  | .arrayAccess a i l => s!"(idx {exprDump a} {exprDump i} {l})"
  | .propAccess o p l => s!"(prop {exprDump o} {hx p} {l})"
  | .assign n nl v l => s!"(asg {hx n} {nl} {exprDump v} {l})"
  | .arrayAssign a i v l => s!"(aasg {exprDump a} {exprDump i} {exprDump v} {l})"
  | .propAssign o p v l => s!"(pasg {exprDump o} {hx p} {exprDump v} {l})"
partial def exprsDump (es : List Expr) : String := "[" ++ " ".intercalate (es.map exprDump) ++ "]"
end

def optExprDump : Option Expr → String
  | none => "-"
  | some e => exprDump e

def varDump (d : VarDecl) : String := s!"(var {hx d.name} {d.line} {optExprDump d.init})"

mutual
partial def stmtDump : Stmt → String
  | .expr e => s!"(expr {exprDump e})"
  | .print e => s!"(print {exprDump e})"
  | .var d => varDump d
  | .varList ds => s!"(varlist [{" ".intercalate (ds.map varDump)}])"
  | .block ss => s!"(block {stmtsDump ss})"
  | .ifS c t e => s!"(if {exprDump c} {stmtDump t} {match e with | some s => stmtDump s | none => "-"})"
  | .whileS c b => s!"(while {exprDump c} {stmtDump b})"
  | .forS i c inc b =>
    s!"(for {match i with | some s => stmtDump s | none => "-"} {exprDump (forCond c)} {optExprDump inc} {stmtDump b})"
  | .breakS l => s!"(break {l})"
  | .continueS l => s!"(continue {l})"
  | .returnS l v => s!"(return {l} {optExprDump v})"
  | .funS n ps body => s!"(fun {hx n} [{" ".intercalate (ps.map hx)}] {stmtsDump body})"
partial def stmtsDump (ss : List Stmt) : String := "[" ++ " ".intercalate (ss.map stmtDump) ++ "]"
end

def b01 (b : Bool) : String := if b then "1" else "0"

def diagsText (ds : List Diag) : List Char := ds.flatMap Cli.renderDiag

def abnName : Abn → String
  | .fuel => "fuel"
  | .panic => "panic"
  | .cyclic => "cyclic"

/-! ## modes -/

def doLex (src : List Char) : String :=
  match Lexer.scan platform.lm src with
  | none => "ABN:panic"
  | some (toks, ds) =>
    s!"{" ".intercalate (toks.map tokDump)}\tE:{hx (diagsText ds)}\tF:{b01 (!ds.isEmpty)}0"

def doParse (src : List Char) : String :=
  let fe := Cli.frontEnd platform.lm src
  match fe.abnormal with
  | some a => s!"ABN:{abnName a}"
  | none =>
    let tree := match fe.prog with
      | some p => stmtsDump p
      | none => "-"
    s!"{tree}\tE:{hx (diagsText fe.diags)}\tF:{b01 (!fe.diags.isEmpty)}0"

def doRun (fuel : Nat) (src stdin : List Char) (repl : Bool) : String :=
  let r := Cli.run platform fuel src repl stdin
  match r.abnormal with
  | some a => s!"ABN:{abnName a}"
  | none => s!"O:{hx r.out}\tE:{hx r.stderr}\tF:{b01 r.hadError}{b01 r.hadRuntimeError}\tN:{r.nativeCalls}\tI:{r.inputRest.length}"

/-- `cli TAB hex(args, each preceded by U+0001) TAB hex(stdin) TAB (ok:hex(content) | missing)` -/
def doCli (fuel : Nat) (argsHex stdinHex fileSpec : String) : String :=
  let argText := textOfHex argsHex
  let args : List (List Char) :=
    ((String.ofList argText).splitOn "\x01").drop 1 |>.map String.toList
  let file : Option (List Char) :=
    if fileSpec.startsWith "ok:" then some (textOfHex (fileSpec.drop 3).toString) else none
  let r := Cli.main platform fuel args file (textOfHex stdinHex)
  match r.abnormal with
  | some a => s!"ABN:{abnName a}"
  | none => s!"O:{hx r.out}\tE:{hx r.err}\tX:{r.status}"

def bitsArg (s : String) : F64 :=
  F64.ofBits ((bytesOfHex s.toList).foldl (fun acc b => acc * 256 + b) 0)

def doNum (f : List String) : String :=
  let r (x : F64) : String := hex16 x.toBits
  match f with
  | [_, "pf", h] =>
    (match F64.parseFloat (textOfHex h) with
     | .ok x => "ok " ++ r x
     | .range => "range"
     | .syntax => "syntax")
  | [_, "fmt", a] => hx (bitsArg a).fmtV
  | [_, "tr", h] => hx (Lexer.translit (textOfHex h))
  | [_, "ofint", i] => r (F64.ofInt i.toInt!)
  | [_, op, a] =>
    let x := bitsArg a
    (match op with
     | "neg" => r x.neg
     | "abs" => r x.abs
     | "round" => r x.round
     | "sqrt" => r x.sqrt
     | "i64" => (match x.toInt64? with | some i => s!"ok {i}" | none => "none")
     | _ => "?")
  | [_, op, a, b] =>
    let x := bitsArg a
    let y := bitsArg b
    (match op with
     | "add" => r (F64.add x y)
     | "sub" => r (F64.sub x y)
     | "mul" => r (F64.mul x y)
     | "div" => r (F64.div x y)
     | "mod" => r (F64.mod x y)
     | "lt" => b01 (F64.lt x y)
     | "le" => b01 (F64.le x y)
     | "eq" => b01 (F64.beq x y)
     | _ => "?")
  | _ => "?"

def handle (fuel : Nat) (line : String) : String :=
  let f := line.splitOn "\t"
  match f with
  | "num" :: _ => doNum f
  | ["cli", a, i, spec] => doCli fuel a i spec
  | mode :: rest =>
    let src := textOfHex (rest.getD 0 "")
    let stdin := textOfHex (rest.getD 1 "")
    (match mode with
     | "lex" => doLex src
     | "parse" => doParse src
     | "run" => doRun fuel src stdin false
     | "repl" => doRun fuel src stdin true
     | _ => "?mode")
  | [] => "?"

partial def loop (h : IO.FS.Stream) (out : IO.FS.Stream) (fuel : Nat) : IO Unit := do
  let line ← h.getLine
  if line.isEmpty then return ()
  let line := if line.endsWith "\n" then (line.dropEnd 1).toString else line
  out.putStrLn (handle fuel line)
  out.flush
  loop h out fuel

def main (args : List String) : IO Unit := do
  let fuel := match args with
    | a :: _ => a.toNat!
    | [] => 200000
  loop (← IO.getStdin) (← IO.getStdout) fuel
