package token

import "fmt"

// TokenType represents the type of a token
type TokenType int

// Token types
const (
	// Single-character tokens
	LEFT_PAREN TokenType = iota
	RIGHT_PAREN
	LEFT_BRACE
	RIGHT_BRACE
	LEFT_BRACKET
	RIGHT_BRACKET
	COMMA
	DOT
	MINUS
	PLUS
	SEMICOLON
	COLON
	SLASH
	STAR
	AND
	OR
	XOR
	POWER
	NOT
	MODULO

	// One or two character tokens
	BANG
	BANG_EQUAL
	EQUAL
	EQUAL_EQUAL
	GREATER
	GREATER_EQUAL
	LEFT_SHIFT
	LESS
	LESS_EQUAL
	RIGHT_SHIFT

	// Literals
	IDENTIFIER
	STRING
	NUMBER

	// Keywords
	BREAK
	CONTINUE
	LOGICAL_AND
	CLASS
	ELSE
	FALSE
	FUN
	FOR
	IF
	NIL
	LOGICAL_OR
	PRINT
	RETURN
	TRUE
	VAR
	WHILE

	EOF
)

type Token struct {
	Type    TokenType
	Lexeme  string
	Literal interface{}
	Line    int
}

// NewToken creates a new Token instance
func NewToken(tokenType TokenType, lexeme string, literal interface{}, line int) *Token {
	return &Token{
		Type:    tokenType,
		Lexeme:  lexeme,
		Literal: literal,
		Line:    line,
	}
}

// String returns a string representation of the Token
func (t *Token) String() string {
	return fmt.Sprintf("%v %s %v", t.Type, t.Lexeme, t.Literal)
}
