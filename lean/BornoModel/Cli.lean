import BornoModel.Parser
import BornoModel.Eval
/-!
# Cli — model of `main.go`: the `run` pipeline, `runFile`'s exit statuses, the REPL loop
-/
namespace Borno
namespace Cli

/-- everything observable about one `run(source, isRepl)` -/
structure RunOut where
  out : List Char := []
  /-- lexical and syntax diagnostics, in order -/
  staticDiags : List Diag := []
  /-- runtime diagnostics, in order -/
  runtimeDiags : List Diag := []
  hadError : Bool := false
  hadRuntimeError : Bool := false
  inputRest : List Char := []
  nativeCalls : Nat := 0
  /-- the model ran out of fuel / reached a partial host operation / met a cyclic value to print -/
  abnormal : Option Abn := none
  deriving Repr, Inhabited

def renderDiag : Diag → List Char
  | .static line wher msg =>
    "[line ".toList ++ (toString line).toList ++ "] Error".toList ++ wher ++ ": ".toList ++ msg ++ ['\n']
  | .runtime msg line =>
    msg ++ "\n[line ".toList ++ (toString line).toList ++ "]\n".toList

def RunOut.stderr (r : RunOut) : List Char :=
  (r.staticDiags ++ r.runtimeDiags).flatMap renderDiag

/-- front end: tokens, tree (if `Parse` returned one), diagnostics -/
structure Front where
  tokens : List Token := []
  prog : Option (List Stmt) := none
  diags : List Diag := []
  abnormal : Option Abn := none
  deriving Repr, Inhabited

def frontEnd (lm : Char → Bool) (src : List Char) : Front :=
  match Lexer.scan lm src with
  | none => { abnormal := some .panic }
  | some (toks, ld) =>
    match Parser.parse toks with
    | .ok p _ pd => { tokens := toks, prog := some p, diags := ld ++ pd }
    | .err pd => { tokens := toks, diags := ld ++ pd }
    | .abn a => { tokens := toks, diags := ld, abnormal := some a }

/-- `run(source, isRepl)` with a fresh pair of flags -/
def run (P : Platform) (fuel : Nat) (src : List Char) (repl : Bool) (input : List Char) : RunOut :=
  let fe := frontEnd P.lm src
  match fe.abnormal with
  | some a => { staticDiags := fe.diags, hadError := !fe.diags.isEmpty, inputRest := input, abnormal := some a }
  | none =>
    if !fe.diags.isEmpty then
      { staticDiags := fe.diags, hadError := true, inputRest := input }
    else
      match fe.prog with
      | none => { inputRest := input, abnormal := some .panic }
      | some prog =>
        match interpret P fuel prog repl input with
        | .ok _ σ =>
          { out := σ.out, runtimeDiags := σ.diags, hadRuntimeError := σ.hadError,
            inputRest := σ.input, nativeCalls := σ.nativeCalls }
        | .abn a => { inputRest := input, abnormal := some a }

/-- exit status of `runFile` after `run` -/
def fileStatus (r : RunOut) : Nat :=
  if r.hadError then Expect.exitSyntax else if r.hadRuntimeError then Expect.exitRuntime else 0

/-- `filepath.Ext` (Unix) -/
def ext (path : List Char) : List Char :=
  let rec go : List Char → List Char → List Char
    | [], _ => []
    | c :: rest, acc =>       -- walking the reversed path; acc = suffix after c
      if c = '/' then []
      else if c = '.' then c :: acc
      else go rest (c :: acc)
  go path.reverse []

inductive Mode
  | usage
  | badExt
  | file (path : List Char)
  | repl
  deriving Repr, DecidableEq

/-- the argument handling of `main` (`args` excludes the program name) -/
def mode (args : List (List Char)) : Mode :=
  match args with
  | [] => .repl
  | [p] => if ext p = ['.', 'b', 'n'] then .file p else .badExt
  | _ => .usage

def usageText : List Char := "Usage: borno [script]\n".toList
def badExtText : List Char := "Invalid file extension. Please use `.bn` for Borno scripts.\n".toList

/-- `bufio.Scanner` with `ScanLines`: lines without their terminator, one trailing CR dropped -/
def scanLines (inp : List Char) : List (List Char) :=
  let rec go : Nat → List Char → List (List Char)
    | 0, _ => []
    | _ + 1, [] => []
    | f + 1, s =>
      let line := s.takeWhile (· ≠ '\n')
      let rest := s.dropWhile (· ≠ '\n')
      let line' := if line.getLast? = some '\r' then line.dropLast else line
      match rest with
      | [] => [line']
      | _ :: rest' => line' :: go f rest'
  go (inp.length + 1) inp

def promptText : List Char := ">> ".toList

/-- one REPL response: what `run(line, true)` writes; flags are reset afterwards -/
def replRespond (P : Platform) (fuel : Nat) (line : List Char) : RunOut :=
  run P fuel line true []

/-- `runPrompt`: stdout and stderr of a whole session (status 0 at end of input) -/
def repl (P : Platform) (fuel : Nat) (inp : List Char) : List Char × List Char :=
  let rs := (scanLines inp).map (replRespond P fuel)
  (rs.foldl (fun acc r => acc ++ promptText ++ r.out) [] ++ promptText,
   rs.foldl (fun acc r => acc ++ r.stderr) [])

/-- what a `borno` process does: stdout, stderr, exit status -/
structure ProcOut where
  out : List Char := []
  err : List Char := []
  status : Nat := 0
  abnormal : Option Abn := none
  deriving Repr, Inhabited

def readErrorPrefix (path : List Char) : List Char :=
  "Error: could not read file '".toList ++ path ++ "': ".toList

/-- `main`: `args` excludes the program name; `file` is the content of the script if it can be
    read (`none`: `os.ReadFile` fails — the text after the prefix is the OS's) -/
def main (P : Platform) (fuel : Nat) (args : List (List Char)) (file : Option (List Char))
    (stdin : List Char) : ProcOut :=
  match mode args with
  | .usage => { out := usageText, status := Expect.exitUsage }
  | .badExt => { out := badExtText, status := Expect.exitUsage }
  | .file path =>
    (match file with
     | none => { err := readErrorPrefix path, status := Expect.exitRead }
     | some src =>
       let r := run P fuel src false stdin
       { out := r.out, err := r.stderr, status := fileStatus r, abnormal := r.abnormal })
  | .repl =>
    let (o, e) := repl P fuel stdin
    { out := o, err := e, status := 0 }

end Cli
end Borno
