// Package difffuzz: /repo (current) against blessed/borno (the sources the model was reviewed against), in one process.
// Used only as a SEARCH for a concrete failing input after a source fingerprint has changed; whatever it finds is then
// replayed on implementation and model by ./check, which decides.
package difffuzz

import (
	"fmt"
	"reflect"
	"strings"

	bl "blessedborno/lexer"
	bp "blessedborno/parser"
	bu "blessedborno/utils"

	cl "github.com/ah-naf/borno/lexer"
	cp "github.com/ah-naf/borno/parser"
	cu "github.com/ah-naf/borno/utils"
)

// dump renders tokens and syntax trees of either version identically (type names without their package)
func dump(b *strings.Builder, v reflect.Value, depth int) {
	if depth > 400 {
		b.WriteString("…")
		return
	}
	if !v.IsValid() {
		b.WriteString("nil")
		return
	}
	switch v.Kind() {
	case reflect.Ptr, reflect.Interface:
		if v.IsNil() {
			b.WriteString("nil")
			return
		}
		dump(b, v.Elem(), depth+1)
	case reflect.Struct:
		b.WriteString(v.Type().Name())
		b.WriteString("{")
		for i := 0; i < v.NumField(); i++ {
			if i > 0 {
				b.WriteString(" ")
			}
			dump(b, v.Field(i), depth+1)
		}
		b.WriteString("}")
	case reflect.Slice, reflect.Array:
		if v.Type().Elem().Kind() == reflect.Int32 {
			b.WriteString(fmt.Sprintf("%q", string(v.Interface().([]rune))))
			return
		}
		b.WriteString("[")
		for i := 0; i < v.Len(); i++ {
			if i > 0 {
				b.WriteString(" ")
			}
			dump(b, v.Index(i), depth+1)
		}
		b.WriteString("]")
	case reflect.Map:
		b.WriteString(fmt.Sprintf("map(%d)", v.Len()))
	case reflect.String:
		b.WriteString(fmt.Sprintf("%q", v.String()))
	case reflect.Float64, reflect.Float32:
		b.WriteString(fmt.Sprintf("%x", v.Float()))
	case reflect.Int, reflect.Int8, reflect.Int16, reflect.Int32, reflect.Int64:
		b.WriteString(fmt.Sprint(v.Int()))
	case reflect.Bool:
		b.WriteString(fmt.Sprint(v.Bool()))
	default:
		b.WriteString(v.Kind().String())
	}
}

func render(x interface{}) string {
	var b strings.Builder
	dump(&b, reflect.ValueOf(x), 0)
	return b.String()
}

// FrontCurrent / FrontBlessed: tokens, tree (or the parse error), error flag.  Diagnostics go to the process's stderr,
// which the caller has silenced; the flag and the trees carry the outcome.
func FrontCurrent(src string) (out string) {
	defer func() {
		if r := recover(); r != nil {
			out = fmt.Sprint("PANIC ", r)
		}
	}()
	cu.HadError, cu.HadRuntimeError = false, false
	toks := cl.NewScanner([]rune(src)).ScanTokens()
	lexErr := cu.HadError
	prog, err := cp.NewParser(toks).Parse()
	return fmt.Sprintf("%s\n%v %v %v\n%s", render(toks), lexErr, cu.HadError, err != nil, render(prog))
}

func FrontBlessed(src string) (out string) {
	defer func() {
		if r := recover(); r != nil {
			out = fmt.Sprint("PANIC ", r)
		}
	}()
	bu.HadError, bu.HadRuntimeError = false, false
	toks := bl.NewScanner([]rune(src)).ScanTokens()
	lexErr := bu.HadError
	prog, err := bp.NewParser(toks).Parse()
	return fmt.Sprintf("%s\n%v %v %v\n%s", render(toks), lexErr, bu.HadError, err != nil, render(prog))
}
