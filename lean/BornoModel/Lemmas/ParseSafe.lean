import BornoModel.Parser
/-!
# ParseSafe — the parser never runs off the end of the token list

The Go parser indexes `tokens[current]` without a bounds check; it is safe because the list ends
in an EOF token that no parsing function ever consumes.  Here: if the token list ends in EOF (and
has no EOF before), then no parsing function yields the `panic` outcome (the model's stand-in for
the index panic), and whatever it leaves unread again ends in EOF — for every token list and fuel.
-/
namespace Borno.Parser
open Borno

/-- the list is some non-EOF tokens followed by exactly one EOF token -/
def EndsEOF (ts : List Token) : Prop := ∃ pre e, ts = pre ++ [e] ∧ e.tt = .EOF ∧ ∀ t ∈ pre, t.tt ≠ .EOF

theorem EndsEOF.tail {t : Token} {r : List Token} (h : EndsEOF (t :: r)) (ht : t.tt ≠ .EOF) : EndsEOF r := by
  obtain ⟨pre, e, hs, he, hp⟩ := h
  cases pre with
  | nil => simp at hs; rw [hs.1] at ht; exact absurd he ht
  | cons p ps =>
    simp only [List.cons_append, List.cons.injEq] at hs
    exact ⟨ps, e, hs.2, he, fun x hx => hp x (List.mem_cons_of_mem _ hx)⟩

theorem EndsEOF.ne_nil {ts : List Token} (h : EndsEOF ts) : ts ≠ [] := by
  obtain ⟨pre, e, hs, _, _⟩ := h
  rw [hs]; simp

def SafeP {α : Type} (r : PR α) : Prop := r ≠ .abn .panic ∧ ∀ a rest, r = .ok a rest → EndsEOF rest
def SafeS {α : Type} (r : SR α) : Prop := r ≠ .abn .panic ∧ ∀ a rest ds, r = .ok a rest ds → EndsEOF rest

theorem safeP_ok {α : Type} (a : α) {rest : List Token} (h : EndsEOF rest) : SafeP (.ok a rest) :=
  ⟨(by intro e; cases e), fun _ _ e => by cases e; exact h⟩
theorem safeP_err {α : Type} (d : Diag) : SafeP (.err d : PR α) := ⟨(by intro e; cases e), fun _ _ e => by cases e⟩
theorem safeP_fuel {α : Type} : SafeP (.abn .fuel : PR α) := ⟨(by intro e; cases e), fun _ _ e => by cases e⟩
theorem safeS_ok {α : Type} (a : α) {rest : List Token} (ds : List Diag) (h : EndsEOF rest) : SafeS (.ok a rest ds) :=
  ⟨(by intro e; cases e), fun _ _ _ e => by cases e; exact h⟩
theorem safeS_err {α : Type} (ds : List Diag) : SafeS (.err ds : SR α) := ⟨(by intro e; cases e), fun _ _ _ e => by cases e⟩
theorem safeS_fuel {α : Type} : SafeS (.abn .fuel : SR α) := ⟨(by intro e; cases e), fun _ _ _ e => by cases e⟩

theorem safeP_bind {α β : Type} {r : PR α} {k : α → List Token → PR β} (h1 : SafeP r)
    (h2 : ∀ a r1, r = .ok a r1 → EndsEOF r1 → SafeP (k a r1)) : SafeP (r.bind k) := by
  cases r with
  | ok a r1 => exact h2 a r1 rfl (h1.2 a r1 rfl)
  | err d => exact safeP_err d
  | abn x =>
    cases x with
    | panic => exact absurd rfl h1.1
    | fuel => exact safeP_fuel
    | cyclic => exact ⟨(by intro e; cases e), fun _ _ e => by cases e⟩

theorem safeP_peek {α : Type} {ts : List Token} {k : Token → List Token → PR α} (h : EndsEOF ts)
    (hk : ∀ t r, ts = t :: r → SafeP (k t r)) : SafeP (peekTok ts k) := by
  cases ts with
  | nil => exact absurd rfl h.ne_nil
  | cons t r => exact hk t r rfl

theorem safeP_expect {tt : TT} {msg : String} {ts : List Token} (h : EndsEOF ts) (htt : tt ≠ .EOF) : SafeP (expectTok tt msg ts) := by
  unfold expectTok
  apply safeP_peek h
  intro t r hts
  by_cases ht : t.tt = tt
  · simp only [ht, if_true]
    subst hts
    exact safeP_ok t (h.tail (by rw [ht]; exact htt))
  · simp only [ht, if_false]; exact safeP_err _

theorem safeS_bind {α β : Type} {r : SR α} {k : α → List Token → SR β} (h1 : SafeS r)
    (h2 : ∀ a r1, EndsEOF r1 → SafeS (k a r1)) : SafeS (r.bind k) := by
  cases r with
  | ok a r1 d1 =>
    have hk := h2 a r1 (h1.2 a r1 d1 rfl)
    simp only [SR.bind]
    cases hkr : k a r1 with
    | ok b r2 d2 => exact safeS_ok b _ (hk.2 b r2 d2 hkr)
    | err d2 => exact safeS_err _
    | abn x =>
      rw [hkr] at hk
      exact ⟨hk.1, fun _ _ _ e => by cases e⟩
  | err d => exact safeS_err d
  | abn x =>
    cases x with
    | panic => exact absurd rfl h1.1
    | fuel => exact safeS_fuel
    | cyclic => exact ⟨(by intro e; cases e), fun _ _ _ e => by cases e⟩

theorem safeS_toSR {α : Type} {r : PR α} (h : SafeP r) : SafeS r.toSR := by
  cases r with
  | ok a r1 => exact safeS_ok a [] (h.2 a r1 rfl)
  | err d => exact safeS_err _
  | abn x =>
    refine ⟨?_, fun _ _ _ e => by cases e⟩
    intro e
    simp only [PR.toSR, SR.abn.injEq] at e
    exact h.1 (by rw [e])

theorem safeS_peek {α : Type} {ts : List Token} {k : Token → List Token → SR α} (h : EndsEOF ts)
    (hk : ∀ t r, ts = t :: r → SafeS (k t r)) : SafeS (peekTokS ts k) := by
  cases ts with
  | nil => exact absurd rfl h.ne_nil
  | cons t r => exact hk t r rfl

theorem safeS_lenient {tt : TT} {msg : String} {ts : List Token} (h : EndsEOF ts) (htt : tt ≠ .EOF) : SafeS (lenient tt msg ts) := by
  unfold lenient
  apply safeS_peek h
  intro t r hts
  by_cases ht : t.tt = tt
  · simp only [ht, if_true]
    subst hts
    exact safeS_ok () [] (h.tail (by rw [ht]; exact htt))
  · simp only [ht, if_false]; exact safeS_ok () _ h

theorem ladder_ops_not_eof : ∀ k, ∀ tt ∈ levelOps k, tt ≠ TT.EOF := by
  intro k tt h
  unfold levelOps at h
  cases hl : Expect.ladder[k]? with
  | none => simp [hl] at h
  | some l =>
    simp only [hl] at h
    have : ∀ l ∈ Expect.ladder, ∀ tt ∈ l.ops, tt ≠ TT.EOF := by decide
    exact this l (List.mem_of_getElem? hl) tt h

theorem unaryOps_not_eof : ∀ tt ∈ Expect.unaryOps, tt ≠ TT.EOF := by decide

structure SafeE (f : Nat) : Prop where
  asg : ∀ ts, EndsEOF ts → SafeP (assignment f ts)
  lvl : ∀ k ts, EndsEOF ts → SafeP (binLevel f k ts)
  loop : ∀ k l ts, EndsEOF ts → SafeP (binLoop f k l ts)
  un : ∀ ts, EndsEOF ts → SafeP (unary f ts)
  suf : ∀ e ts, EndsEOF ts → SafeP (suffix f e ts)
  lst : ∀ ts, EndsEOF ts → SafeP (exprList f ts)
  obj : ∀ ts, EndsEOF ts → SafeP (objProps f ts)
  prim : ∀ ts, EndsEOF ts → SafeP (primary f ts)

theorem safeE : ∀ f, SafeE f := by
  intro f
  induction f with
  | zero =>
    refine ⟨?_, ?_, ?_, ?_, ?_, ?_, ?_, ?_⟩ <;> intros
    · rw [assignment]; exact safeP_fuel
    · rw [binLevel]; exact safeP_fuel
    · rw [binLoop]; exact safeP_fuel
    · rw [unary]; exact safeP_fuel
    · rw [suffix]; exact safeP_fuel
    · rw [exprList]; exact safeP_fuel
    · rw [objProps]; exact safeP_fuel
    · rw [primary]; exact safeP_fuel
  | succ f ih =>
    refine ⟨?_, ?_, ?_, ?_, ?_, ?_, ?_, ?_⟩
    · -- assignment
      intro ts h
      rw [assignment]
      apply safeP_bind (ih.lvl 0 ts h)
      intro e r _ hr
      apply safeP_peek hr
      intro t r1 hts
      subst hts
      by_cases ht : t.tt = .EQUAL
      · simp only [ht, if_true]
        have hr1 : EndsEOF r1 := hr.tail (by simp [ht])
        apply safeP_bind (ih.asg r1 hr1)
        intro v r2 _ hr2
        cases e <;> first | exact safeP_ok _ hr2 | exact safeP_err _
      · simp only [ht, if_false]; exact safeP_ok e hr
    · -- binLevel
      intro k ts h
      rw [binLevel]
      by_cases hk : k < nLevels
      · simp only [hk, if_true]
        apply safeP_bind (ih.lvl (k + 1) ts h)
        intro l r _ hr
        exact ih.loop k l r hr
      · simp only [hk, if_false]; exact ih.un ts h
    · -- binLoop
      intro k l ts h
      rw [binLoop]
      apply safeP_peek h
      intro t r hts
      subst hts
      by_cases ht : (levelOps k).contains t.tt = true
      · simp only [ht, if_true]
        have hr : EndsEOF r := h.tail (ladder_ops_not_eof k t.tt (by simpa using ht))
        apply safeP_bind (ih.lvl (k + 1) r hr)
        intro right r2 _ hr2
        exact ih.loop k _ r2 hr2
      · simp only [ht, if_false]; exact safeP_ok l h
    · -- unary
      intro ts h
      rw [unary]
      apply safeP_peek h
      intro t r hts
      subst hts
      by_cases ht : Expect.unaryOps.contains t.tt = true
      · simp only [ht, if_true]
        have hr : EndsEOF r := h.tail (unaryOps_not_eof t.tt (by simpa using ht))
        apply safeP_bind (ih.un r hr)
        intro e r2 _ hr2
        exact safeP_ok _ hr2
      · simp only [ht, if_false]
        apply safeP_bind (ih.prim _ h)
        intro e r2 _ hr2
        exact ih.suf e r2 hr2
    · -- suffix
      intro e ts h
      rw [suffix]
      apply safeP_peek h
      intro t r hts
      subst hts
      by_cases h1 : t.tt = .LEFT_PAREN
      · simp only [h1, if_true]
        have hr : EndsEOF r := h.tail (by simp [h1])
        apply safeP_peek hr
        intro t2 r2 hts2
        subst hts2
        by_cases h2 : t2.tt = .RIGHT_PAREN
        · simp only [h2, if_true]
          exact ih.suf _ r2 (hr.tail (by simp [h2]))
        · simp only [h2, if_false]
          apply safeP_bind (ih.lst _ hr)
          intro args r3 _ hr3
          apply safeP_bind (safeP_expect hr3 (by simp))
          intro t3 r4 _ hr4
          exact ih.suf _ r4 hr4
      · simp only [h1, if_false]
        by_cases h2 : t.tt = .LEFT_BRACKET
        · simp only [h2, if_true]
          have hr : EndsEOF r := h.tail (by simp [h2])
          apply safeP_bind (ih.asg r hr)
          intro i r2 _ hr2
          apply safeP_bind (safeP_expect hr2 (by simp))
          intro t2 r3 _ hr3
          exact ih.suf _ r3 hr3
        · simp only [h2, if_false]
          by_cases h3 : t.tt = .DOT
          · simp only [h3, if_true]
            have hr : EndsEOF r := h.tail (by simp [h3])
            apply safeP_bind (safeP_expect hr (by simp))
            intro t2 r2 _ hr2
            exact ih.suf _ r2 hr2
          · simp only [h3, if_false]; exact safeP_ok e h
    · -- exprList
      intro ts h
      rw [exprList]
      apply safeP_bind (ih.asg ts h)
      intro a r _ hr
      apply safeP_peek hr
      intro t r2 hts
      subst hts
      by_cases ht : t.tt = .COMMA
      · simp only [ht, if_true]
        apply safeP_bind (ih.lst r2 (hr.tail (by simp [ht])))
        intro rest r3 _ hr3
        exact safeP_ok _ hr3
      · simp only [ht, if_false]; exact safeP_ok _ hr
    · -- objProps
      intro ts h
      rw [objProps]
      apply safeP_peek h
      intro t r hts
      subst hts
      by_cases hend : (t.tt = .RIGHT_BRACE || t.tt = .EOF) = true
      · simp only [hend, if_true]; exact safeP_ok _ h
      · simp only [hend, if_false]
        apply safeP_bind (safeP_expect h (by simp))
        intro tn rn _ _
        have hteof : t.tt ≠ .EOF := by
          intro e; apply hend; simp [e]
        have hr : EndsEOF r := h.tail hteof
        apply safeP_bind (safeP_expect hr (by simp))
        intro tc r1 _ hr1
        apply safeP_bind (ih.asg r1 hr1)
        intro v r2 _ hr2
        apply safeP_peek hr2
        intro t2 r3 hts2
        subst hts2
        by_cases h2 : t2.tt = .COMMA
        · simp only [h2, if_true]
          apply safeP_bind (ih.obj r3 (hr2.tail (by simp [h2])))
          intro ps r4 _ hr4
          exact safeP_ok _ hr4
        · simp only [h2, if_false]; exact safeP_ok _ hr2
    · -- primary
      intro ts h
      rw [primary]
      apply safeP_peek h
      intro t r hts
      subst hts
      split
      · rename_i hf; exact safeP_ok _ (h.tail (by simp [hf]))
      · rename_i hf; exact safeP_ok _ (h.tail (by simp [hf]))
      · rename_i hf; exact safeP_ok _ (h.tail (by simp [hf]))
      · rename_i hf; exact safeP_ok _ (h.tail (by simp [hf]))
      · rename_i hf; exact safeP_ok _ (h.tail (by simp [hf]))
      · rename_i hf; exact safeP_ok _ (h.tail (by simp [hf]))
      · rename_i hf
        have hr : EndsEOF r := h.tail (by simp [hf])
        apply safeP_bind (ih.asg r hr)
        intro e r2 _ hr2
        apply safeP_bind (safeP_expect hr2 (by simp))
        intro t2 r3 _ hr3
        exact safeP_ok _ hr3
      · rename_i hf
        have hr : EndsEOF r := h.tail (by simp [hf])
        apply safeP_peek hr
        intro t2 r2 hts2
        subst hts2
        by_cases h2 : t2.tt = .RIGHT_BRACKET
        · simp only [h2, if_true]; exact safeP_ok _ (hr.tail (by simp [h2]))
        · simp only [h2, if_false]
          apply safeP_bind (ih.lst _ hr)
          intro es r3 _ hr3
          apply safeP_bind (safeP_expect hr3 (by simp))
          intro _ r4 _ hr4
          exact safeP_ok _ hr4
      · rename_i hf
        have hr : EndsEOF r := h.tail (by simp [hf])
        apply safeP_bind (ih.obj r hr)
        intro ps r2 _ hr2
        apply safeP_bind (safeP_expect hr2 (by simp))
        intro _ r3 _ hr3
        exact safeP_ok _ hr3
      · exact safeP_err _

/-! ### statements -/

theorem safe_varDecls : ∀ (f il : Nat) (ts : List Token), EndsEOF ts → SafeP (varDecls f il ts) := by
  intro f
  induction f with
  | zero => intro il ts _; rw [varDecls]; exact safeP_fuel
  | succ f ih =>
    intro il ts h
    rw [varDecls]
    apply safeP_peek h
    intro t r hts
    subst hts
    split
    · exact safeP_err _
    · rename_i hid
      have hteof : t.tt ≠ .EOF := by
        have : t.tt = .IDENTIFIER := by simpa using hid
        simp [this]
      have hr : EndsEOF r := h.tail hteof
      split
      · exact safeP_err _
      · refine safeP_bind (r := peekTok r fun e r1 =>
            if e.tt = .EQUAL then (assignment f r1).bind fun v r2 => .ok (some v) r2 else .ok none r) ?_ ?_
        · apply safeP_peek hr
          intro e r1 hts
          subst hts
          by_cases he : e.tt = .EQUAL
          · simp only [he, if_true]
            apply safeP_bind ((safeE f).asg r1 (hr.tail (by simp [he])))
            intro v r2 _ hr2
            exact safeP_ok _ hr2
          · simp only [he, if_false]; exact safeP_ok _ hr
        · intro init r2 _ hr2
          apply safeP_peek hr2
          intro p r3 hts
          subst hts
          split
          · exact safeP_err _
          · by_cases hc : p.tt = .COMMA
            · simp only [hc, if_true]
              apply safeP_bind (ih il r3 (hr2.tail (by simp [hc])))
              intro rest r4 _ hr4
              exact safeP_ok _ hr4
            · simp only [hc, if_false]; exact safeP_ok _ hr2

theorem safe_varDeclaration (f : Nat) (ts : List Token) (h : EndsEOF ts) : SafeS (varDeclaration f ts) := by
  unfold varDeclaration
  apply safeS_peek h
  intro t0 r0 hts
  apply safeS_toSR
  apply safeP_bind (safe_varDecls f t0.line ts h)
  intro ds r _ hr
  apply safeP_bind (safeP_expect hr (by simp))
  intro _ r2 _ hr2
  split <;> exact safeP_ok _ hr2

theorem safe_exprThenSemi (f : Nat) (mk : Expr → Stmt) (ts : List Token) (h : EndsEOF ts) : SafeS (exprThenSemi f mk ts) := by
  unfold exprThenSemi
  apply safeS_bind (safeS_toSR ((safeE f).asg ts h))
  intro e r hr
  apply safeS_bind (safeS_lenient hr (by simp))
  intro _ r2 hr2
  exact safeS_ok _ [] hr2

theorem safe_params : ∀ (f n : Nat) (ts : List Token), EndsEOF ts → SafeP (params f n ts) := by
  intro f
  induction f with
  | zero => intro n ts _; rw [params]; exact safeP_fuel
  | succ f ih =>
    intro n ts h
    rw [params]
    apply safeP_peek h
    intro t r hts
    subst hts
    split
    · exact safeP_err _
    · split
      · exact safeP_err _
      · rename_i hid
        have hteof : t.tt ≠ .EOF := by
          have : t.tt = .IDENTIFIER := by simpa using hid
          simp [this]
        have hr : EndsEOF r := h.tail hteof
        apply safeP_peek hr
        intro c r2 hts
        subst hts
        by_cases hc : c.tt = .COMMA
        · simp only [hc, if_true]
          apply safeP_bind (ih (n + 1) r2 (hr.tail (by simp [hc])))
          intro rest r3 _ hr3
          exact safeP_ok _ hr3
        · simp only [hc, if_false]; exact safeP_ok _ hr

theorem safe_forInit (f : Nat) (ts : List Token) (h : EndsEOF ts) : SafeS (forInit f ts) := by
  unfold forInit
  apply safeS_peek h
  intro i r2 hts
  subst hts
  by_cases hs : i.tt = .SEMICOLON
  · simp only [hs, if_true]; exact safeS_ok _ [] (h.tail (by simp [hs]))
  · simp only [hs, if_false]
    by_cases hv : i.tt = .VAR
    · simp only [hv, if_true]
      apply safeS_bind (safe_varDeclaration f r2 (h.tail (by simp [hv])))
      intro s r3 hr3
      exact safeS_ok _ [] hr3
    · simp only [hv, if_false]
      apply safeS_bind (safe_exprThenSemi f .expr _ h)
      intro s r3 hr3
      exact safeS_ok _ [] hr3

theorem safe_optExpr (stop : TT) (f : Nat) (ts : List Token) (h : EndsEOF ts) : SafeP (optExprUntil stop f ts) := by
  unfold optExprUntil
  apply safeP_peek h
  intro c rc hts
  by_cases hs : c.tt = stop
  · simp only [hs, if_true]; exact safeP_ok _ h
  · simp only [hs, if_false]
    apply safeP_bind ((safeE f).asg ts h)
    intro e r' _ hr'
    exact safeP_ok _ hr'

theorem safe_forHeader (f : Nat) (ts : List Token) (h : EndsEOF ts) : SafeP (forHeader f ts) := by
  unfold forHeader
  apply safeP_bind (safe_optExpr _ f ts h)
  intro cond r4 _ hr4
  apply safeP_bind (safeP_expect hr4 (by simp))
  intro _ r5 _ hr5
  apply safeP_bind (safe_optExpr _ f r5 hr5)
  intro incr r6 _ hr6
  apply safeP_bind (safeP_expect hr6 (by simp))
  intro _ r7 _ hr7
  exact safeP_ok _ hr7

structure SafeSt (f : Nat) : Prop where
  decl : ∀ ts, EndsEOF ts → SafeS (declaration f ts)
  fn : ∀ ts, EndsEOF ts → SafeS (function f ts)
  blk : ∀ ts, EndsEOF ts → SafeS (block f ts)
  stmt : ∀ ts, EndsEOF ts → SafeS (statement f ts)

theorem safeSt : ∀ f, SafeSt f := by
  intro f
  induction f with
  | zero =>
    refine ⟨?_, ?_, ?_, ?_⟩ <;> intros
    · rw [declaration]; exact safeS_fuel
    · rw [function]; exact safeS_fuel
    · rw [block]; exact safeS_fuel
    · rw [statement]; exact safeS_fuel
  | succ f ih =>
    refine ⟨?_, ?_, ?_, ?_⟩
    · -- declaration
      intro ts h
      rw [declaration]
      apply safeS_peek h
      intro t r hts
      subst hts
      by_cases hf : t.tt = .FUN
      · simp only [hf, if_true]; exact ih.fn r (h.tail (by simp [hf]))
      · simp only [hf, if_false]
        by_cases hv : t.tt = .VAR
        · simp only [hv, if_true]; exact safe_varDeclaration f r (h.tail (by simp [hv]))
        · simp only [hv, if_false]; exact ih.stmt _ h
    · -- function
      intro ts h
      rw [function]
      apply safeS_peek h
      intro t r hts
      subst hts
      split
      · exact safeS_err _
      · rename_i hid
        have hteof : t.tt ≠ .EOF := by
          have : t.tt = .IDENTIFIER := by simpa using hid
          simp [this]
        have hr : EndsEOF r := h.tail hteof
        split
        · exact safeS_err _
        · apply safeS_bind
          · apply safeS_toSR
            apply safeP_bind (safeP_expect hr (by simp))
            intro _ r1 _ hr1
            refine safeP_bind (r := peekTok r1 fun p _ => if p.tt = .RIGHT_PAREN then .ok [] r1 else params f 0 r1) ?_ ?_
            · apply safeP_peek hr1
              intro p rp hts
              by_cases hp : p.tt = .RIGHT_PAREN
              · simp only [hp, if_true]; exact safeP_ok _ hr1
              · simp only [hp, if_false]; exact safe_params f 0 r1 hr1
            · intro names r2 _ hr2
              apply safeP_bind (safeP_expect hr2 (by simp))
              intro _ r3 _ hr3
              apply safeP_bind (safeP_expect hr3 (by simp))
              intro _ r4 _ hr4
              exact safeP_ok _ hr4
          · intro names r4 hr4
            apply safeS_bind (ih.blk r4 hr4)
            intro body r5 hr5
            exact safeS_ok _ [] hr5
    · -- block
      intro ts h
      rw [block]
      apply safeS_peek h
      intro t r hts
      subst hts
      by_cases hrb : t.tt = .RIGHT_BRACE
      · simp only [hrb, if_true]; exact safeS_ok _ [] (h.tail (by simp [hrb]))
      · simp only [hrb, if_false]
        by_cases heof : t.tt = .EOF
        · simp only [heof, if_true]; exact safeS_ok _ _ h
        · simp only [heof, if_false]
          apply safeS_bind (ih.decl _ h)
          intro s r1 hr1
          apply safeS_bind (ih.blk r1 hr1)
          intro ss r2 hr2
          exact safeS_ok _ [] hr2
    · -- statement
      intro ts h
      rw [statement]
      apply safeS_peek h
      intro t r hts
      subst hts
      split
      · -- if
        rename_i htt
        have hr : EndsEOF r := h.tail (by simp [htt])
        apply safeS_bind
        · apply safeS_toSR
          apply safeP_bind (safeP_expect hr (by simp))
          intro _ r1 _ hr1
          apply safeP_bind ((safeE f).asg r1 hr1)
          intro c r2 _ hr2
          apply safeP_bind (safeP_expect hr2 (by simp))
          intro _ r3 _ hr3
          exact safeP_ok _ hr3
        · intro c r3 hr3
          apply safeS_bind (ih.stmt r3 hr3)
          intro th r4 hr4
          apply safeS_peek hr4
          intro e r5 hts
          subst hts
          by_cases he : e.tt = .ELSE
          · simp only [he, if_true]
            apply safeS_bind (ih.stmt r5 (hr4.tail (by simp [he])))
            intro el r6 hr6
            exact safeS_ok _ [] hr6
          · simp only [he, if_false]; exact safeS_ok _ [] hr4
      · -- while
        rename_i htt
        have hr : EndsEOF r := h.tail (by simp [htt])
        apply safeS_bind
        · apply safeS_toSR
          apply safeP_bind (safeP_expect hr (by simp))
          intro _ r1 _ hr1
          apply safeP_bind ((safeE f).asg r1 hr1)
          intro c r2 _ hr2
          apply safeP_bind (safeP_expect hr2 (by simp))
          intro _ r3 _ hr3
          exact safeP_ok _ hr3
        · intro c r3 hr3
          apply safeS_bind (ih.stmt r3 hr3)
          intro b r4 hr4
          exact safeS_ok _ [] hr4
      · -- for
        rename_i htt
        have hr : EndsEOF r := h.tail (by simp [htt])
        apply safeS_bind (safeS_toSR (safeP_expect hr (by simp)))
        intro _ r1 hr1
        apply safeS_bind (safe_forInit f r1 hr1)
        intro init r3 hr3
        apply safeS_bind (safeS_toSR (safe_forHeader f r3 hr3))
        intro ci r7 hr7
        apply safeS_bind (ih.stmt r7 hr7)
        intro body r8 hr8
        exact safeS_ok _ [] hr8
      · -- print
        rename_i htt
        exact safe_exprThenSemi f .print r (h.tail (by simp [htt]))
      · -- return
        rename_i htt
        have hr : EndsEOF r := h.tail (by simp [htt])
        apply safeS_toSR
        apply safeP_peek hr
        intro sc r1 hts
        subst hts
        by_cases hs : sc.tt = .SEMICOLON
        · simp only [hs, if_true]; exact safeP_ok _ (hr.tail (by simp [hs]))
        · simp only [hs, if_false]
          apply safeP_bind ((safeE f).asg _ hr)
          intro v r2 _ hr2
          apply safeP_bind (safeP_expect hr2 (by simp))
          intro _ r3 _ hr3
          exact safeP_ok _ hr3
      · -- break
        rename_i htt
        have hr : EndsEOF r := h.tail (by simp [htt])
        apply safeS_toSR
        apply safeP_bind (safeP_expect hr (by simp))
        intro sc r1 _ hr1
        exact safeP_ok _ hr1
      · -- continue
        rename_i htt
        have hr : EndsEOF r := h.tail (by simp [htt])
        apply safeS_toSR
        apply safeP_bind (safeP_expect hr (by simp))
        intro sc r1 _ hr1
        exact safeP_ok _ hr1
      · -- block
        rename_i htt
        apply safeS_bind (ih.blk r (h.tail (by simp [htt])))
        intro ss r1 hr1
        exact safeS_ok _ [] hr1
      · -- expression statement
        exact safe_exprThenSemi f .expr _ h

theorem safe_program : ∀ (f : Nat) (ts : List Token), EndsEOF ts → SafeS (program f ts) := by
  intro f
  induction f with
  | zero => intro ts _; rw [program]; exact safeS_fuel
  | succ f ih =>
    intro ts h
    rw [program]
    apply safeS_peek h
    intro t r hts
    subst hts
    by_cases heof : t.tt = .EOF
    · simp only [heof, if_true]; exact safeS_ok _ [] h
    · simp only [heof, if_false]
      apply safeS_bind ((safeSt f).decl _ h)
      intro s r1 hr1
      apply safeS_bind (ih r1 hr1)
      intro ss r2 hr2
      exact safeS_ok _ [] hr2

/-- **`Parse` never indexes past the end of the token list**: on every token list that ends in its
    EOF token, with any fuel, the outcome is a tree, a diagnostic or out-of-fuel — never the panic -/
theorem parse_no_panic (f : Nat) (ts : List Token) (h : EndsEOF ts) : program f ts ≠ .abn .panic :=
  (safe_program f ts h).1

/-! ### a rejected program always carries a diagnostic -/

def ErrNE {α : Type} (r : SR α) : Prop := ∀ ds, r = .err ds → ds ≠ []

theorem errne_ok {α : Type} (a : α) (r : List Token) (ds : List Diag) : ErrNE (.ok a r ds) := fun _ e => by cases e
theorem errne_abn {α : Type} (x : Abn) : ErrNE (.abn x : SR α) := fun _ e => by cases e
theorem errne_err {α : Type} (ds : List Diag) (h : ds ≠ []) : ErrNE (.err ds : SR α) := fun _ e => by cases e; exact h

theorem errne_bind {α β : Type} {r : SR α} {k : α → List Token → SR β} (h1 : ErrNE r) (h2 : ∀ a r1, ErrNE (k a r1)) :
    ErrNE (r.bind k) := by
  cases r with
  | ok a r1 d1 =>
    simp only [SR.bind]
    cases hk : k a r1 with
    | ok b r2 d2 => exact errne_ok _ _ _
    | err d2 =>
      intro ds e
      simp only [SR.err.injEq] at e
      subst e
      have := h2 a r1 d2 hk
      simp [this]
    | abn x => exact errne_abn x
  | err d => exact fun ds e => by cases e; exact h1 d rfl
  | abn x => exact errne_abn x

theorem errne_toSR {α : Type} (r : PR α) : ErrNE r.toSR := by
  cases r with
  | ok a r1 => exact errne_ok _ _ _
  | err d => exact errne_err _ (by simp)
  | abn x => exact errne_abn x

theorem errne_peek {α : Type} {ts : List Token} {k : Token → List Token → SR α} (hk : ∀ t r, ErrNE (k t r)) :
    ErrNE (peekTokS ts k) := by
  cases ts with
  | nil => exact errne_abn _
  | cons t r => exact hk t r

theorem errne_lenient (tt : TT) (msg : String) (ts : List Token) : ErrNE (lenient tt msg ts) := by
  unfold lenient
  apply errne_peek
  intro t r
  split <;> exact errne_ok _ _ _

theorem errne_varDeclaration (f : Nat) (ts : List Token) : ErrNE (varDeclaration f ts) := by
  unfold varDeclaration
  exact errne_peek (fun _ _ => errne_toSR _)

theorem errne_exprThenSemi (f : Nat) (mk : Expr → Stmt) (ts : List Token) : ErrNE (exprThenSemi f mk ts) := by
  unfold exprThenSemi
  exact errne_bind (errne_toSR _) (fun _ _ => errne_bind (errne_lenient _ _ _) (fun _ _ => errne_ok _ _ _))

theorem errne_forInit (f : Nat) (ts : List Token) : ErrNE (forInit f ts) := by
  unfold forInit
  apply errne_peek
  intro i r2
  split
  · exact errne_ok _ _ _
  · split
    · exact errne_bind (errne_varDeclaration f r2) (fun _ _ => errne_ok _ _ _)
    · exact errne_bind (errne_exprThenSemi f _ _) (fun _ _ => errne_ok _ _ _)

structure ErrSt (f : Nat) : Prop where
  decl : ∀ ts, ErrNE (declaration f ts)
  fn : ∀ ts, ErrNE (function f ts)
  blk : ∀ ts, ErrNE (block f ts)
  stmt : ∀ ts, ErrNE (statement f ts)

theorem errSt : ∀ f, ErrSt f := by
  intro f
  induction f with
  | zero =>
    refine ⟨?_, ?_, ?_, ?_⟩ <;> intro ts
    · rw [declaration]; exact errne_abn _
    · rw [function]; exact errne_abn _
    · rw [block]; exact errne_abn _
    · rw [statement]; exact errne_abn _
  | succ f ih =>
    refine ⟨?_, ?_, ?_, ?_⟩
    · intro ts
      rw [declaration]
      apply errne_peek
      intro t r
      split
      · exact ih.fn r
      · split
        · exact errne_varDeclaration f r
        · exact ih.stmt _
    · intro ts
      rw [function]
      apply errne_peek
      intro t r
      split
      · exact errne_err _ (by simp)
      · split
        · exact errne_err _ (by simp)
        · exact errne_bind (errne_toSR _) (fun _ r4 => errne_bind (ih.blk r4) (fun _ _ => errne_ok _ _ _))
    · intro ts
      rw [block]
      apply errne_peek
      intro t r
      split
      · exact errne_ok _ _ _
      · split
        · exact errne_ok _ _ _
        · exact errne_bind (ih.decl _) (fun _ r1 => errne_bind (ih.blk r1) (fun _ _ => errne_ok _ _ _))
    · intro ts
      rw [statement]
      apply errne_peek
      intro t r
      split
      · refine errne_bind (errne_toSR _) (fun _ r3 => errne_bind (ih.stmt r3) (fun _ r4 => ?_))
        apply errne_peek
        intro e r5
        split
        · exact errne_bind (ih.stmt r5) (fun _ _ => errne_ok _ _ _)
        · exact errne_ok _ _ _
      · exact errne_bind (errne_toSR _) (fun _ r3 => errne_bind (ih.stmt r3) (fun _ _ => errne_ok _ _ _))
      · exact errne_bind (errne_toSR _) (fun _ r1 => errne_bind (errne_forInit f r1) (fun _ r3 =>
          errne_bind (errne_toSR _) (fun _ r7 => errne_bind (ih.stmt r7) (fun _ _ => errne_ok _ _ _))))
      · exact errne_exprThenSemi f _ _
      · exact errne_toSR _
      · exact errne_toSR _
      · exact errne_toSR _
      · exact errne_bind (ih.blk r) (fun _ _ => errne_ok _ _ _)
      · exact errne_exprThenSemi f _ _

/-- when `Parse` gives up it has reported at least one diagnostic -/
theorem program_err_nonempty : ∀ (f : Nat) (ts : List Token), ErrNE (program f ts) := by
  intro f
  induction f with
  | zero => intro ts; rw [program]; exact errne_abn _
  | succ f ih =>
    intro ts
    rw [program]
    apply errne_peek
    intro t r
    split
    · exact errne_ok _ _ _
    · exact errne_bind ((errSt f).decl _) (fun _ r1 => errne_bind (ih r1) (fun _ _ => errne_ok _ _ _))

end Borno.Parser
