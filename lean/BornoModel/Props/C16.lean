import BornoModel.Eval
/-! # C16 — a value behaves the same however it was produced

The model has exactly one constructor of `Val` per value kind (`Val.num` for every number,
`Val.str` for every string), and every consumer is a function of the `Val` alone.  That the Go
code has this shape too (one host representation per kind) is the dynamic `K:` check of every
campaign and the correspondence of the producers below. -/
namespace Borno.Props.C16
open Borno Expect

/-- literal, arithmetic, bitwise and built-in producers of a number all produce `Val.num` -/
theorem number_producers (P : Platform) (σ : Store) (x y : F64) (i j : Int)
    (hx : toInt64 (.num x) = some i) (hy : toInt64 (.num y) = some j) :
    litVal (.num x) = .num x ∧
    binop P σ .PLUS (.num x) (.num y) = .ok (.num (F64.add x y)) ∧
    binop P σ .AND (.num x) (.num y) = .ok (.num (F64.ofInt (bitAnd i j))) ∧
    binop P σ .OR (.num x) (.num y) = .ok (.num (F64.ofInt (bitOr i j))) ∧
    unop .NOT (.num x) = .ok (.num (F64.ofInt (bitNot i))) ∧
    callPure P .round [.num x] σ = .ok (.num x.round, σ) ∧
    callPure P .abs [.num x] σ = .ok (.num x.abs, σ) ∧
    (∀ r, callPure P .len [.arr r] σ = .ok (.num (F64.ofNat (σ.arrs[r]?.getD []).length), σ)) := by
  refine ⟨rfl, rfl, ?_, ?_, ?_, rfl, rfl, fun _ => rfl⟩
  · simp [binop, intPair, hx, hy, Except.map]
  · simp [binop, intPair, hx, hy, Except.map]
  · simp [unop, hx]

/-- literal, concatenation and `ইনপুট` producers of a string all produce `Val.str` -/
theorem string_producers (s t : List Char) (σ : Store) :
    litVal (.str s) = .str s ∧ opAdd (.str s) (.str t) = .ok (.str (s ++ t)) ∧
    (∀ line rest, readLine σ.input = some (line, rest) →
      (callInput [] σ).2 = .ok (.str (trimSpace line))) := by
  refine ⟨rfl, rfl, ?_⟩
  intro line rest h
  simp [callInput, inputPrompt, h]

/-- consumers depend on the value only: truthiness, equality, coercions and printing are functions of `Val` -/
theorem consumers_depend_on_value_only (σ : Store) (v w : Val) (h : v = w) (f : Nat) :
    truthy v = truthy w ∧ toNumber v = toNumber w ∧ toInt64 v = toInt64 w ∧
    stringify σ f v = stringify σ f w ∧ (∀ u, valEq σ v u = valEq σ w u) := by subst h; simp

end Borno.Props.C16
