import BornoModel.Lemmas.ParseCompleteStmt
import BornoModel.Lemmas.ParseElse
/-!
# ParseWf — every program `Parse` accepts is well-formed

The last link between soundness and completeness: a tree returned without diagnostics satisfies
`Grammar.wfSs`.  With `program_sound` (the accepted tokens are the rendering of the returned tree)
and `program_complete` (every well-formed tree is returned for its rendering) this gives: a token
list is accepted iff it is the rendering of a well-formed program, and that program is the tree
returned.
-/
namespace Borno.Parser
open Borno Grammar

theorem rExpr_head (e : Expr) : ∃ y ys, rExpr e = y :: ys ∧ y.tt = headTT e := by
  obtain ⟨x, xs, hx, hxt⟩ := toks_head e
  unfold toks at hx
  cases hr : rExpr e with
  | nil => rw [hr] at hx; cases hx
  | cons y ys =>
    rw [hr] at hx
    simp only [List.map_cons, List.cons.injEq] at hx
    exact ⟨y, ys, rfl, by rw [← hxt, ← hx.1]; rfl⟩

theorem varInit_fits (f : Nat) (r0 : List Token) (init : Option Expr) (r2 : List Token)
    (h : (peekTok r0 fun e r1 =>
          if e.tt = .EQUAL then (assignment f r1).bind fun v r2 => .ok (some v) r2
          else .ok none r0) = .ok init r2) : wfOE init = true := by
  obtain ⟨e, r1, rfl, h1⟩ := peek_ok h
  try dsimp only at h1
  by_cases he : e.tt = .EQUAL
  · simp only [he, if_true] at h1
    obtain ⟨v, r3, hv, h2⟩ := bind_ok h1
    try dsimp only at h2
    cases h2
    exact (fitsP f).asg r1 v r2 hv
  · simp only [he, if_false] at h1
    cases h1; rfl

theorem varDecls_wf : ∀ (f il : Nat) (ts : List Token) (ds : List VarDecl) (r : List Token),
    varDecls f il ts = .ok ds r → ds.all wfDecl = true := by
  intro f
  induction f with
  | zero => intro il ts ds r h; rw [varDecls] at h; cases h
  | succ f ih =>
    intro il ts ds r h
    rw [varDecls] at h
    obtain ⟨t, r0, rfl, h1⟩ := peek_ok h
    try dsimp only at h1
    split at h1
    · cases h1
    · split at h1
      · cases h1
      · rename_i hres
        obtain ⟨init, r2, hinit, h3⟩ := bind_ok h1
        try dsimp only at h3
        have hwi := varInit_fits f r0 init r2 hinit
        obtain ⟨p, r3, rfl, h4⟩ := peek_ok h3
        try dsimp only at h4
        have hwd : wfDecl ⟨t.lexeme, t.line, init⟩ = true := by
          simp only [wfDecl, Bool.and_eq_true, Bool.not_eq_true']
          exact ⟨by simpa using hres, hwi⟩
        split at h4
        · cases h4
        · by_cases hc : p.tt = .COMMA
          · simp only [hc, if_true] at h4
            obtain ⟨rest, r4, hrest, h5⟩ := bind_ok h4
            try dsimp only at h5
            cases h5
            simp [hwd, ih il r3 rest r hrest]
          · simp only [hc, if_false] at h4
            cases h4
            simp [hwd]

theorem varDeclaration_wf (f : Nat) (ts : List Token) (s : Stmt) (r : List Token) (hw : AllWf ts)
    (h : varDeclaration f ts = .ok s r []) : wfS s = true ∧ wfInit (some s) = true := by
  obtain ⟨_, hshape⟩ := varDeclaration_sound f ts s r hw h
  unfold varDeclaration at h
  obtain ⟨t0, r0, rfl, h1⟩ := speek_ok h
  try dsimp only at h1
  have h2 := toSR_nil h1
  obtain ⟨vs, r1, hvs, h3⟩ := bind_ok h2
  try dsimp only at h3
  have hall := varDecls_wf f t0.line (t0 :: r0) vs r1 hvs
  obtain ⟨sc, r2, _, h4⟩ := bind_ok h3
  try dsimp only at h4
  rcases hshape with ⟨d, rfl⟩ | ⟨ws, rfl, hlen⟩
  · split at h4
    · rename_i d'
      cases h4
      have : wfDecl d = true := by simpa using hall
      exact ⟨by simp [wfS, this], by simp [wfInit, this]⟩
    · cases h4
  · split at h4
    · cases h4
    · cases h4
      exact ⟨by simp [wfS, hlen, hall], by simp [wfInit, hlen, hall]⟩

theorem exprThenSemi_fits (f : Nat) (mk : Expr → Stmt) (ts : List Token) (s : Stmt) (r : List Token)
    (h : exprThenSemi f mk ts = .ok s r []) : ∃ e, s = mk e ∧ fits 0 e = true := by
  unfold exprThenSemi at h
  obtain ⟨e, r1, he, h1⟩ := sbind_nil h
  try dsimp only at h1
  have he' := toSR_nil he
  obtain ⟨u, r2, _, h2⟩ := sbind_nil h1
  try dsimp only at h2
  cases h2
  exact ⟨e, rfl, (fitsP f).asg ts e r1 he'⟩

theorem params_len : ∀ (f n : Nat) (ts : List Token) (ns : List Name) (r : List Token),
    params f n ts = .ok ns r → n + ns.length ≤ Expect.maxParams := by
  intro f
  induction f with
  | zero => intro n ts ns r h; rw [params] at h; cases h
  | succ f ih =>
    intro n ts ns r h
    rw [params] at h
    obtain ⟨t, r0, rfl, h1⟩ := peek_ok h
    try dsimp only at h1
    split at h1
    · cases h1
    · rename_i hn
      split at h1
      · cases h1
      · obtain ⟨c, r2, rfl, h2⟩ := peek_ok h1
        try dsimp only at h2
        by_cases hc : c.tt = .COMMA
        · simp only [hc, if_true] at h2
          obtain ⟨rest, r3, hrest, h3⟩ := bind_ok h2
          try dsimp only at h3
          cases h3
          have := ih (n + 1) r2 rest r hrest
          simp only [List.length_cons]; omega
        · simp only [hc, if_false] at h2
          cases h2
          simp only [List.length_cons, List.length_nil]
          simp only [ge_iff_le, Nat.not_le] at hn
          omega

theorem optExpr_fits (stop : TT) (f : Nat) (r : List Token) (o : Option Expr) (r' : List Token)
    (h : optExprUntil stop f r = .ok o r') : wfOE o = true := by
  unfold optExprUntil at h
  obtain ⟨c, rc, rfl, h1⟩ := peek_ok h
  try dsimp only at h1
  by_cases hs : c.tt = stop
  · simp only [hs, if_true] at h1; cases h1; rfl
  · simp only [hs, if_false] at h1
    obtain ⟨e, r2, he, h2⟩ := bind_ok h1
    try dsimp only at h2
    cases h2
    exact (fitsP f).asg _ e _ he

structure WfP (f : Nat) : Prop where
  decl : ∀ ts s r, AllWf ts → declaration f ts = .ok s r [] → wfS s = true
  fn : ∀ ts s r, AllWf ts → function f ts = .ok s r [] → wfS s = true
  blk : ∀ ts ss r, AllWf ts → block f ts = .ok ss r [] → wfSs ss = true
  stmt : ∀ ts s r, AllWf ts → statement f ts = .ok s r [] → wfS s = true ∧ isPlain s = true

theorem wfP : ∀ f, WfP f := by
  intro f
  induction f with
  | zero =>
    refine ⟨?_, ?_, ?_, ?_⟩ <;> intros <;> rename_i h
    · rw [declaration] at h; cases h
    · rw [function] at h; cases h
    · rw [block] at h; cases h
    · rw [statement] at h; cases h
  | succ f ih =>
    refine ⟨?_, ?_, ?_, ?_⟩
    · -- declaration
      intro ts s r hw h
      rw [declaration] at h
      obtain ⟨t, r0, rfl, h1⟩ := speek_ok h
      try dsimp only at h1
      by_cases hf : t.tt = .FUN
      · simp only [hf, if_true] at h1
        exact ih.fn r0 s r (AllWf.tail hw) h1
      · simp only [hf, if_false] at h1
        by_cases hv : t.tt = .VAR
        · simp only [hv, if_true] at h1
          exact (varDeclaration_wf f r0 s r (AllWf.tail hw) h1).1
        · simp only [hv, if_false] at h1
          exact (ih.stmt (t :: r0) s r hw h1).1
    · -- function
      intro ts s r hw h
      rw [function] at h
      obtain ⟨t, r0, rfl, h1⟩ := speek_ok h
      try dsimp only at h1
      split at h1
      · cases h1
      · split at h1
        · cases h1
        · rename_i hres
          obtain ⟨names, r4, hhead, h2⟩ := sbind_nil h1
          try dsimp only at h2
          have hhead' := toSR_nil hhead
          obtain ⟨lp, r1, hlp, h3⟩ := bind_ok hhead'
          try dsimp only at h3
          obtain ⟨e1, _⟩ := expect_ok hlp
          obtain ⟨names', r2, hnames, h4⟩ := bind_ok h3
          try dsimp only at h4
          have hnm : names'.length ≤ Expect.maxParams ∧ ∃ pp, r1 = pp ++ r2 := by
            obtain ⟨p, rp, rfl, h5⟩ := peek_ok hnames
            try dsimp only at h5
            by_cases hp : p.tt = .RIGHT_PAREN
            · simp only [hp, if_true] at h5; cases h5; exact ⟨by simp, [], rfl⟩
            · simp only [hp, if_false] at h5
              have := params_len f 0 (p :: rp) names' r2 h5
              obtain ⟨pp, hpp, _, _⟩ := params_sound f 0 (p :: rp) names' r2 h5
              exact ⟨by omega, pp, hpp⟩
          obtain ⟨hlen0, pp, e2⟩ := hnm
          obtain ⟨rp, r3, hrp, h6⟩ := bind_ok h4
          try dsimp only at h6
          obtain ⟨e3, _⟩ := expect_ok hrp
          obtain ⟨lb, r5, hlb, h7⟩ := bind_ok h6
          try dsimp only at h7
          obtain ⟨e4, _⟩ := expect_ok hlb
          have hw5 : AllWf r5 := by
            have a0 := AllWf.tail hw
            rw [e1] at a0
            have a1 := AllWf.tail a0
            rw [e2] at a1
            have a2 := AllWf.suffix a1
            rw [e3] at a2
            have a3 := AllWf.tail a2
            rw [e4] at a3
            exact AllWf.tail a3
          cases h7
          have hlen : names.length ≤ Expect.maxParams := hlen0
          obtain ⟨body, r6, hbody, h8⟩ := sbind_nil h2
          try dsimp only at h8
          cases h8
          have hw4 : AllWf r4 := hw5
          have hb := ih.blk r4 body r hw4 hbody
          simp only [wfS, Bool.and_eq_true, Bool.not_eq_true', decide_eq_true_eq]
          exact ⟨⟨by simpa using hres, hlen⟩, hb⟩
    · -- block
      intro ts ss r hw h
      rw [block] at h
      obtain ⟨t, r0, rfl, h1⟩ := speek_ok h
      try dsimp only at h1
      by_cases hrb : t.tt = .RIGHT_BRACE
      · simp only [hrb, if_true] at h1
        cases h1; rfl
      · simp only [hrb, if_false] at h1
        by_cases heof : t.tt = .EOF
        · simp only [heof, if_true] at h1; cases h1
        · simp only [heof, if_false] at h1
          obtain ⟨s, r1, hs, h2⟩ := sbind_nil h1
          try dsimp only at h2
          obtain ⟨p0, hts, _⟩ := (soundS f).decl (t :: r0) s r1 hw hs
          obtain ⟨ss', r2, hss, h3⟩ := sbind_nil h2
          try dsimp only at h3
          cases h3
          have hw1 : AllWf r1 := by rw [hts] at hw; exact AllWf.suffix hw
          simp [wfSs, ih.decl (t :: r0) s r1 hw hs, ih.blk r1 ss' r hw1 hss]
    · -- statement
      intro ts s r hw h
      have hsound := (soundS (f + 1)).stmt ts s r hw h
      have helse := ((elseP (f + 1)).stmt ts s r [] h).1
      rw [statement] at h
      obtain ⟨t, r0, rfl, h1⟩ := speek_ok h
      try dsimp only at h1
      have hw0 : AllWf r0 := AllWf.tail hw
      split at h1
      · -- if
        obtain ⟨c, r3, hhead, h2⟩ := sbind_nil h1
        try dsimp only at h2
        have hhead' := toSR_nil hhead
        obtain ⟨lp, r1, hlp, h3⟩ := bind_ok hhead'
        try dsimp only at h3
        obtain ⟨rfl, _⟩ := expect_ok hlp
        obtain ⟨c', r2, hc, h4⟩ := bind_ok h3
        try dsimp only at h4
        obtain ⟨pc, rfl, _⟩ := (soundE f).asg r1 c' r2 (AllWf.tail hw0) hc
        have hfc := (fitsP f).asg _ c' _ hc
        obtain ⟨rp, r3', hrp, h5⟩ := bind_ok h4
        try dsimp only at h5
        obtain ⟨rfl, _⟩ := expect_ok hrp
        cases h5
        obtain ⟨th, r4, hth, h6⟩ := sbind_nil h2
        try dsimp only at h6
        have hw3 : AllWf r3 := AllWf.tail (AllWf.suffix (AllWf.tail hw0))
        obtain ⟨pt, hpt, _⟩ := (soundS f).stmt r3 th r4 hw3 hth
        obtain ⟨wth, pth⟩ := ih.stmt r3 th r4 hw3 hth
        have hw4 : AllWf r4 := by rw [hpt] at hw3; exact AllWf.suffix hw3
        obtain ⟨e, r5, rfl, h7⟩ := speek_ok h6
        try dsimp only at h7
        by_cases he : e.tt = .ELSE
        · simp only [he, if_true] at h7
          obtain ⟨el, r6, hel, h8⟩ := sbind_nil h7
          try dsimp only at h8
          cases h8
          obtain ⟨wel, pel⟩ := ih.stmt r5 el r (AllWf.tail hw4) hel
          simp only [elseOk, elseOkElse, Bool.and_eq_true, Bool.not_eq_true'] at helse
          exact ⟨by simp [wfS, wfElse, hfc, wth, pth, wel, pel, helse.2.1], rfl⟩
        · simp only [he, if_false] at h7
          cases h7
          exact ⟨by simp [wfS, wfElse, hfc, wth, pth], rfl⟩
      · -- while
        obtain ⟨c, r3, hhead, h2⟩ := sbind_nil h1
        try dsimp only at h2
        have hhead' := toSR_nil hhead
        obtain ⟨lp, r1, hlp, h3⟩ := bind_ok hhead'
        try dsimp only at h3
        obtain ⟨rfl, _⟩ := expect_ok hlp
        obtain ⟨c', r2, hc, h4⟩ := bind_ok h3
        try dsimp only at h4
        obtain ⟨pc, rfl, _⟩ := (soundE f).asg r1 c' r2 (AllWf.tail hw0) hc
        have hfc := (fitsP f).asg _ c' _ hc
        obtain ⟨rp, r3', hrp, h5⟩ := bind_ok h4
        try dsimp only at h5
        obtain ⟨rfl, _⟩ := expect_ok hrp
        cases h5
        obtain ⟨b, r4, hb, h6⟩ := sbind_nil h2
        try dsimp only at h6
        cases h6
        have hw3 : AllWf r3 := AllWf.tail (AllWf.suffix (AllWf.tail hw0))
        obtain ⟨wb, pb⟩ := ih.stmt r3 b r hw3 hb
        exact ⟨by simp [wfS, hfc, wb, pb], rfl⟩
      · -- for
        obtain ⟨lp, r1, hlp0, h2⟩ := sbind_nil h1
        try dsimp only at h2
        have hlp := toSR_nil hlp0
        obtain ⟨rfl, _⟩ := expect_ok hlp
        have hw1 : AllWf r1 := AllWf.tail hw0
        obtain ⟨init, r3, hinit, h3⟩ := sbind_nil h2
        try dsimp only at h3
        -- initializer: well-formed, and the rest is a suffix
        have hi : wfInit init = true ∧ ∃ pi, r1 = pi ++ r3 := by
          unfold forInit at hinit
          obtain ⟨i, ri, rfl, h4⟩ := speek_ok hinit
          try dsimp only at h4
          by_cases hs : i.tt = .SEMICOLON
          · simp only [hs, if_true] at h4; cases h4
            exact ⟨rfl, [i], rfl⟩
          · simp only [hs, if_false] at h4
            by_cases hv : i.tt = .VAR
            · simp only [hv, if_true] at h4
              obtain ⟨s', r', hs', h5⟩ := sbind_nil h4
              try dsimp only at h5
              cases h5
              obtain ⟨⟨p0, hp0, _⟩, _⟩ := varDeclaration_sound f ri s' r3 (AllWf.tail hw1) hs'
              exact ⟨(varDeclaration_wf f ri s' r3 (AllWf.tail hw1) hs').2, i :: p0, by rw [hp0]; rfl⟩
            · simp only [hv, if_false] at h4
              obtain ⟨s', r', hs', h5⟩ := sbind_nil h4
              try dsimp only at h5
              cases h5
              obtain ⟨e, rfl, hfe⟩ := exprThenSemi_fits f .expr (i :: ri) s' r3 hs'
              obtain ⟨_, p0, _, hp, _⟩ := exprThenSemi_sound f .expr (i :: ri) _ r3 hw1 hs'
              exact ⟨by simp [wfInit, hfe], p0, hp⟩
        obtain ⟨hwi, pi, rfl⟩ := hi
        have hw3 : AllWf r3 := AllWf.suffix hw1
        obtain ⟨ci, r7, hci0, h6⟩ := sbind_nil h3
        try dsimp only at h6
        have hci := toSR_nil hci0
        unfold forHeader at hci
        obtain ⟨cond, r4, hcond, h7⟩ := bind_ok hci
        try dsimp only at h7
        have hwc := optExpr_fits _ f r3 cond r4 hcond
        obtain ⟨sc, r5, hsc, h10⟩ := bind_ok h7
        try dsimp only at h10
        obtain ⟨rfl, _⟩ := expect_ok hsc
        obtain ⟨incr, r6, hincr, h11⟩ := bind_ok h10
        try dsimp only at h11
        have hwn := optExpr_fits _ f r5 incr r6 hincr
        obtain ⟨rp, r7', hrp, h12⟩ := bind_ok h11
        try dsimp only at h12
        obtain ⟨rfl, _⟩ := expect_ok hrp
        cases h12
        obtain ⟨body, r8, hbody, h13⟩ := sbind_nil h6
        try dsimp only at h13
        cases h13
        -- the body's tokens are a suffix of the input
        have hw7 : AllWf r7 := by
          obtain ⟨pre, hpre, _⟩ := hsound
          -- r7 is a suffix of r3: use the soundness decomposition of the two optional clauses
          have h4s : ∃ pc, r3 = pc ++ (sc :: r5) := by
            unfold optExprUntil at hcond
            obtain ⟨c, rc, rfl, h8⟩ := peek_ok hcond
            try dsimp only at h8
            by_cases hs : c.tt = .SEMICOLON
            · simp only [hs, if_true] at h8; cases h8; exact ⟨[], rfl⟩
            · simp only [hs, if_false] at h8
              obtain ⟨e, r', he, h9⟩ := bind_ok h8
              try dsimp only at h9
              cases h9
              obtain ⟨p0, hp, _⟩ := (soundE f).asg (c :: rc) e _ hw3 he
              exact ⟨p0, hp⟩
          obtain ⟨pc, hpc⟩ := h4s
          have hw5 : AllWf r5 := by rw [hpc] at hw3; exact AllWf.tail (AllWf.suffix hw3)
          have h6s : ∃ pn, r5 = pn ++ (rp :: r7) := by
            unfold optExprUntil at hincr
            obtain ⟨c, rc, rfl, h8⟩ := peek_ok hincr
            try dsimp only at h8
            by_cases hs : c.tt = .RIGHT_PAREN
            · simp only [hs, if_true] at h8; cases h8; exact ⟨[], rfl⟩
            · simp only [hs, if_false] at h8
              obtain ⟨e, r', he, h9⟩ := bind_ok h8
              try dsimp only at h9
              cases h9
              obtain ⟨p0, hp, _⟩ := (soundE f).asg (c :: rc) e _ hw5 he
              exact ⟨p0, hp⟩
          obtain ⟨pn, hpn⟩ := h6s
          rw [hpn] at hw5
          exact AllWf.tail (AllWf.suffix hw5)
        obtain ⟨wb, pb⟩ := ih.stmt r7 body r hw7 hbody
        exact ⟨by simp [wfS, hwi, hwc, hwn, wb, pb], rfl⟩
      · -- print
        obtain ⟨e, rfl, hfe⟩ := exprThenSemi_fits f .print r0 s r h1
        exact ⟨by simp [wfS, hfe], rfl⟩
      · -- return
        have h2 := toSR_nil h1
        obtain ⟨sc, r1, rfl, h3⟩ := peek_ok h2
        try dsimp only at h3
        by_cases hs : sc.tt = .SEMICOLON
        · simp only [hs, if_true] at h3; cases h3
          exact ⟨by simp [wfS, wfOE], rfl⟩
        · simp only [hs, if_false] at h3
          obtain ⟨v, r2, hv, h4⟩ := bind_ok h3
          try dsimp only at h4
          obtain ⟨sm, r3, _, h5⟩ := bind_ok h4
          try dsimp only at h5
          cases h5
          exact ⟨by simp [wfS, wfOE, (fitsP f).asg _ v _ hv], rfl⟩
      · -- break
        have h2 := toSR_nil h1
        obtain ⟨sc, r1, _, h3⟩ := bind_ok h2
        try dsimp only at h3
        cases h3
        exact ⟨rfl, rfl⟩
      · -- continue
        have h2 := toSR_nil h1
        obtain ⟨sc, r1, _, h3⟩ := bind_ok h2
        try dsimp only at h3
        cases h3
        exact ⟨rfl, rfl⟩
      · -- block
        obtain ⟨ss, r1, hss, h2⟩ := sbind_nil h1
        try dsimp only at h2
        cases h2
        exact ⟨by simp [wfS, ih.blk r0 ss r hw0 hss], rfl⟩
      · -- expression statement
        rename_i hnot1 hnot2 hnot3 hnot4 hnot5 hnot6 hnot7 hnot8
        obtain ⟨e, rfl, hfe⟩ := exprThenSemi_fits f .expr (t :: r0) s r h1
        obtain ⟨pre, hpre, hren⟩ := hsound
        obtain ⟨y, ys, hy, hyt⟩ := rExpr_head e
        -- the first token is the head of the rendering
        have hhead : t.tt = headTT e := by
          cases pre with
          | nil => simp [rStmt, hy] at hren
          | cons p ps =>
            simp only [List.cons_append, List.cons.injEq] at hpre
            simp only [rStmt, hy, List.map_cons, List.cons_append, List.cons.injEq] at hren
            rw [← hyt, ← hren.1, hpre.1]; rfl
        have hb : headTT e ≠ .LEFT_BRACE := by rw [← hhead]; exact hnot8
        exact ⟨by simp [wfS, hfe, hb], rfl⟩

/-- every program `Parse` returns without diagnostics is well-formed -/
theorem program_wf : ∀ (f : Nat) (ts : List Token) (p : List Stmt) (r : List Token), AllWf ts →
    program f ts = .ok p r [] → wfSs p = true := by
  intro f
  induction f with
  | zero => intro ts p r _ h; rw [program] at h; cases h
  | succ f ih =>
    intro ts p r hw h
    rw [program] at h
    obtain ⟨t, r0, rfl, h1⟩ := speek_ok h
    try dsimp only at h1
    by_cases heof : t.tt = .EOF
    · simp only [heof, if_true] at h1
      cases h1; rfl
    · simp only [heof, if_false] at h1
      obtain ⟨s, r1, hs, h2⟩ := sbind_nil h1
      try dsimp only at h2
      obtain ⟨p0, hts, _⟩ := (soundS f).decl (t :: r0) s r1 hw hs
      obtain ⟨ss, r2, hss, h3⟩ := sbind_nil h2
      try dsimp only at h3
      cases h3
      have hw1 : AllWf r1 := by rw [hts] at hw; exact AllWf.suffix hw
      simp [wfSs, (wfP f).decl (t :: r0) s r1 hw hs, ih r1 ss r hw1 hss]

end Borno.Parser
