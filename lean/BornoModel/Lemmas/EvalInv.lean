import BornoModel.Lemmas.Ext
/-!
# EvalInv — every evaluation, of any program, with any fuel, extends the store and never panics

One induction on fuel over all evaluator functions.  `Sat σ r` says: if the evaluation returned,
the store it returned extends `σ` (`Ext`); if it ended abnormally, it was not by reaching a
partial host operation.
-/
namespace Borno
open Expect (Native)

def Sat {α : Type} (σ : Store) : Res α → Prop
  | .ok _ σ' => Ext σ σ'
  | .abn a => a ≠ .panic

theorem sat_ok {α : Type} {σ σ' : Store} (a : α) (h : Ext σ σ') : Sat σ (Res.ok a σ') := h

theorem sat_mono {α : Type} {σ σ1 : Store} {r : Res α} (h : Ext σ σ1) (hs : Sat σ1 r) : Sat σ r := by
  cases r with
  | ok a σ' => exact h.trans hs
  | abn x => exact hs

theorem sat_bind {α β : Type} {σ : Store} {r : Res α} {k : α → Store → Res β} (h1 : Sat σ r)
    (h2 : ∀ a σ1, r = .ok a σ1 → Sat σ1 (k a σ1)) : Sat σ (r.bind k) := by
  cases r with
  | ok a σ1 => exact sat_mono h1 (h2 a σ1 rfl)
  | abn x => exact h1

theorem sat_seq {σ : Store} {r : ER} {k : Val → Store → ER} (h1 : Sat σ r)
    (h2 : ∀ v σ1, r = .ok (v, .none) σ1 → Sat σ1 (k v σ1)) : Sat σ (ER.seq r k) := by
  unfold ER.seq
  apply sat_bind h1
  intro p σ1 hr
  obtain ⟨v, sig⟩ := p
  by_cases hs : sig = .none
  · subst hs; simp; exact h2 v σ1 hr
  · simp [hs]; exact Ext.refl σ1

theorem sat_guard {σ : Store} {k : ER} (h : σ.hadError = false → Sat σ k) : Sat σ (guardErr σ k) := by
  unfold guardErr
  by_cases he : σ.hadError = true
  · simp [he, nilOk]; exact Ext.refl σ
  · simp [he]; exact h (by simpa using he)

theorem sat_nilOk {σ σ' : Store} (h : Ext σ σ') : Sat σ (nilOk σ') := h

/-! ### built-ins -/

theorem math1_ext (f : F64 → F64) (w : String) (args : List Val) (σ σ' : Store) (v : Val)
    (hm : math1 f args σ w = .ok (v, σ')) : Ext σ σ' := by
  unfold math1 at hm
  split at hm
  · rename_i a
    cases hn : numArg a "argument must be a number" with
    | error m => simp [hn, Except.map] at hm
    | ok x => simp [hn, Except.map] at hm; rw [← hm.2]; exact Ext.refl σ
  · cases hm

theorem minmax_ext (b : F64 → F64 → Bool) (w : String) (args : List Val) (σ σ' : Store) (v : Val)
    (hm : minmax b w args σ = .ok (v, σ')) : Ext σ σ' := by
  unfold minmax at hm
  split at hm
  · cases hm
  · split at hm
    · cases hm
    · split at hm
      · cases hm
      · rename_i x hx
        simp only [Except.map] at hm
        split at hm
        · cases hm
        · cases hm; exact Ext.refl σ

theorem callPure_ext (P : Platform) (n : Native) (args : List Val) (σ σ' : Store) (v : Val)
    (h : callPure P n args σ = .ok (v, σ')) : Ext σ σ' := by
  cases n <;> simp only [callPure] at h
  · cases h; exact Ext.refl σ
  · unfold natLen at h; split at h <;> cases h; exact Ext.refl σ
  · unfold natAppend at h
    split at h
    · split at h
      · cases h; exact Ext.newArr σ _
      · cases h
    · cases h
  · unfold natRemove at h
    split at h
    · split at h
      · split at h
        · cases h
        · split at h
          · cases h
          · cases h; exact Ext.newArr σ _
      · cases h
    · cases h
  · unfold natDelete at h
    split at h
    · split at h
      · split at h
        · split at h
          · cases h; exact Ext.setObj σ _ _ (fun hok => Ext.filter_keys_nodup _ _ (Ext.objsOk_getD hok _))
          · cases h
        · cases h
      · cases h
    · cases h
  · unfold natKeys at h; split at h <;> cases h; exact Ext.newArr σ _
  · unfold natValues at h; split at h <;> cases h; exact Ext.newArr σ _
  · exact math1_ext _ _ _ _ _ _ h
  · exact math1_ext _ _ _ _ _ _ h
  · unfold natPow at h
    split at h
    · split at h
      · cases h
      · split at h
        · cases h
        · cases h; exact Ext.refl σ
    · cases h
  · exact math1_ext _ _ _ _ _ _ h
  · exact math1_ext _ _ _ _ _ _ h
  · exact math1_ext _ _ _ _ _ _ h
  · exact minmax_ext _ _ _ _ _ _ h
  · exact minmax_ext _ _ _ _ _ _ h
  · exact math1_ext _ _ _ _ _ _ h
  · cases h

theorem inputPrompt_ext (args : List Val) (σ σ1 : Store) (h0 : σ.hadError = false) (h : inputPrompt args σ = .ok σ1) :
    Ext σ σ1 ∧ σ1.hadError = false := by
  unfold inputPrompt at h
  split at h
  · cases h; exact ⟨Ext.print σ _ h0, h0⟩
  · cases h
  · cases h; exact ⟨Ext.refl σ, h0⟩

theorem callInput_ext (args : List Val) (σ : Store) (h0 : σ.hadError = false) :
    Ext σ (callInput args σ).1 := by
  unfold callInput
  split
  · exact Ext.refl σ
  · cases hp : inputPrompt args σ with
    | error m => exact Ext.refl σ
    | ok σ1 =>
      obtain ⟨h1, h2⟩ := inputPrompt_ext args σ σ1 h0 hp
      simp only
      cases readLine σ1.input with
      | none => exact h1
      | some lr => exact h1.trans (Ext.consume σ1 _ h2)

theorem callNative_ext (P : Platform) (n : Native) (args : List Val) (σ : Store) (h0 : σ.hadError = false) :
    Ext σ (callNative P n args σ).1 := by
  unfold callNative
  split
  · exact callInput_ext args σ h0
  · split
    · rename_i v σ' h; exact callPure_ext P _ args σ σ' v h
    · exact Ext.refl σ

theorem sat_invokeNative (P : Platform) (n : Native) (vs : List Val) (line : Nat) (σ : Store) (h0 : σ.hadError = false) :
    Sat σ (invokeNative P n vs line σ) := by
  unfold invokeNative
  have h1 : Ext σ σ.enterNative := Ext.enterNative σ h0
  have h2 : Ext σ.enterNative (callNative P n vs σ.enterNative).1 := callNative_ext P n vs _ (by simpa [Store.enterNative] using h0)
  split
  · rename_i σ4 v heq
    have : σ4 = (callNative P n vs σ.enterNative).1 := by rw [heq]
    rw [this]; exact h1.trans h2
  · rename_i σ4 m heq
    have : σ4 = (callNative P n vs σ.enterNative).1 := by rw [heq]
    rw [this]; exact (h1.trans h2).trans (Ext.rte _ _ _)

/-! ### lists -/

/-- when an object literal is evaluated completely, the values come with the keys of the source list, in order -/
theorem evalProps_keys (P : Platform) : ∀ (f : Nat) (ps : List (Name × Expr)) (env : Nat) (repl : Bool) (σ : Store)
    (vs : List (Name × Val)) (σ' : Store),
    evalProps P f ps env repl σ = .ok (vs, .none) σ' → vs.map (·.1) = ps.map (·.1) := by
  intro f
  induction f with
  | zero => intro ps env repl σ vs σ' h; rw [evalProps] at h; cases h
  | succ f ih =>
    intro ps env repl σ vs σ' h
    cases ps with
    | nil => rw [evalProps] at h; cases h; rfl
    | cons ke ps =>
      rw [evalProps] at h
      cases he : evalE P f ke.2 env repl σ with
      | abn x => simp [he, Res.bind] at h
      | ok p σ1 =>
        obtain ⟨v, sig⟩ := p
        simp only [he, Res.bind] at h
        by_cases hs : sig = .none
        · subst hs
          simp only [ne_eq, not_true_eq_false, if_false] at h
          cases hr : evalProps P f ps env repl σ1 with
          | abn x => simp [hr] at h
          | ok q σ2 =>
            obtain ⟨vs', sig2⟩ := q
            simp only [hr] at h
            simp only [Res.ok.injEq, Prod.mk.injEq] at h
            obtain ⟨⟨rfl, rfl⟩, rfl⟩ := h
            simp [ih ps env repl σ1 vs' σ2 hr]
        · simp only [ne_eq, hs, not_false_eq_true, if_true] at h
          simp only [Res.ok.injEq, Prod.mk.injEq] at h
          exact absurd h.1.2 hs

theorem evalList_length (P : Platform) : ∀ (f : Nat) (es : List Expr) (env : Nat) (repl : Bool) (σ σ' : Store) (vs : List Val),
    evalList P f es env repl σ = .ok (vs, .none) σ' → vs.length = es.length := by
  intro f
  induction f with
  | zero => intro es env repl σ σ' vs h; rw [evalList] at h; cases h
  | succ f ih =>
    intro es env repl σ σ' vs h
    cases es with
    | nil => rw [evalList] at h; cases h; rfl
    | cons e es =>
      rw [evalList] at h
      cases he : evalE P f e env repl σ with
      | abn x => simp [he, Res.bind] at h
      | ok p σ1 =>
        obtain ⟨v, sig⟩ := p
        simp only [he, Res.bind] at h
        by_cases hs : sig = .none
        · subst hs
          simp only [ne_eq, not_true_eq_false, if_false] at h
          cases hr : evalList P f es env repl σ1 with
          | abn x => simp [hr] at h
          | ok q σ2 =>
            obtain ⟨vs', sig2⟩ := q
            simp only [hr] at h
            simp only [Res.ok.injEq, Prod.mk.injEq] at h
            obtain ⟨⟨rfl, rfl⟩, rfl⟩ := h
            simp [ih es env repl σ1 σ2 vs' hr]
        · simp [hs] at h

theorem checkIndex_guard (σ : Store) (a iv : Val) (msg : String) (r k : Nat) (h : checkIndex σ a iv msg = .ok (r, k)) :
    ∃ v, (σ.arrs[r]?.getD [])[k]? = some v := by
  unfold checkIndex at h
  cases a <;> try (simp only at h; cases h)
  rename_i r'
  simp only at h
  cases hj : toInt64 iv with
  | none => simp [hj] at h
  | some j =>
    simp only [hj] at h
    split at h
    · cases h
    · rename_i hb
      simp only [Except.ok.injEq, Prod.mk.injEq] at h
      obtain ⟨rfl, rfl⟩ := h
      simp at hb
      exact ⟨_, List.getElem?_eq_getElem (by omega)⟩

/-! ### the induction -/

structure AllSat (P : Platform) (f : Nat) : Prop where
  e : ∀ e env repl σ, Sat σ (evalE P f e env repl σ)
  s : ∀ s env repl σ, Sat σ (evalS P f s env repl σ)
  l : ∀ es env repl σ, Sat σ (evalList P f es env repl σ)
  p : ∀ ps env repl σ, Sat σ (evalProps P f ps env repl σ)
  c : ∀ id args σ cl, σ.funs[id]? = some cl → cl.params.length ≤ args.length → Sat σ (callFn P f id args σ)
  b : ∀ ss env σ, Sat σ (runBody P f ss env σ)
  bl : ∀ ss env repl σ, Sat σ (evalBlock P f ss env repl σ)
  d : ∀ ds env repl σ, Sat σ (evalDecls P f ds env repl σ)
  w : ∀ c b env repl σ, Sat σ (whileLoop P f c b env repl σ)
  fo : ∀ c inc b env repl σ, Sat σ (forLoop P f c inc b env repl σ)

theorem fold_define_ext (fe : Nat) : ∀ (l : List (Name × Val)) (σ : Store),
    Ext σ (l.foldl (fun s (p : Name × Val) => s.define fe p.1 p.2) σ)
  | [], σ => Ext.refl σ
  | p :: l, σ => (Ext.define σ fe p.1 p.2).trans (fold_define_ext fe l _)

theorem fuel_ne_panic : Abn.fuel ≠ Abn.panic := by decide
theorem cyclic_ne_panic : Abn.cyclic ≠ Abn.panic := by decide

theorem allSat (P : Platform) : ∀ f, AllSat P f := by
  intro f
  induction f with
  | zero =>
    refine ⟨?_, ?_, ?_, ?_, ?_, ?_, ?_, ?_, ?_, ?_⟩ <;> intros
    · rw [evalE]; exact fuel_ne_panic
    · rw [evalS]; exact fuel_ne_panic
    · rw [evalList]; exact fuel_ne_panic
    · rw [evalProps]; exact fuel_ne_panic
    · rw [callFn]; exact fuel_ne_panic
    · rw [runBody]; exact fuel_ne_panic
    · rw [evalBlock]; exact fuel_ne_panic
    · rw [evalDecls]; exact fuel_ne_panic
    · rw [whileLoop]; exact fuel_ne_panic
    · rw [forLoop]; exact fuel_ne_panic
  | succ f ih =>
    -- the call of a callable value that is known to be callable in an earlier store
    have hcall : ∀ (cv : Val) (k : Int) (args : List Expr) (line env : Nat) (repl : Bool) (σ1 : Store),
        arityOf σ1 cv = some k → ¬ (k ≠ -1 ∧ (args.length : Int) ≠ k) →
        Sat σ1 ((evalList P f args env repl σ1).bind fun p σ2 =>
          if p.2 ≠ .none then .ok (.nil, p.2) σ2
          else guardErr σ2 <| match cv with
            | .fn id => callFn P f id p.1 σ2
            | .native n => invokeNative P n p.1 line σ2
            | _ => .abn .panic) := by
      intro cv k args line env repl σ1 har hk
      apply sat_bind (ih.l args env repl σ1)
      intro p σ2 hev
      obtain ⟨vs, sig⟩ := p
      by_cases hs : sig = .none
      · subst hs
        simp only [ne_eq, not_true_eq_false, if_false]
        apply sat_guard
        intro h2
        have hext : Ext σ1 σ2 := by have := ih.l args env repl σ1; rw [hev] at this; exact this
        have hlen := evalList_length P f args env repl σ1 σ2 vs hev
        cases cv with
        | fn id =>
          simp only [arityOf] at har
          cases hcl : σ1.funs[id]? with
          | none => simp [hcl] at har
          | some cl =>
            simp [hcl] at har
            have hcl2 := hext.funs_keep id cl hcl
            apply ih.c id vs σ2 cl hcl2
            have : ¬ ((cl.params.length : Int) ≠ -1 ∧ (args.length : Int) ≠ (cl.params.length : Int)) := by rw [har]; exact hk
            have hne : (cl.params.length : Int) ≠ -1 := by omega
            have : (args.length : Int) = cl.params.length := by
              by_cases he : (args.length : Int) = cl.params.length
              · exact he
              · exact absurd ⟨hne, he⟩ this
            omega
        | native n => exact sat_invokeNative P n vs line σ2 h2
        | nil => simp [arityOf] at har
        | bool _ => simp [arityOf] at har
        | num _ => simp [arityOf] at har
        | str _ => simp [arityOf] at har
        | arr _ => simp [arityOf] at har
        | obj _ => simp [arityOf] at har
      · simp only [ne_eq, hs, not_false_eq_true, if_true]
        exact Ext.refl σ2
    refine ⟨?_, ?_, ?_, ?_, ?_, ?_, ?_, ?_, ?_, ?_⟩
    · -- evalE
      intro e env repl σ
      cases e with
      | literal v l => rw [evalE]; exact sat_guard fun _ => Ext.refl σ
      | grouping e' l => rw [evalE]; exact sat_guard fun _ => ih.e e' env repl σ
      | ident n line =>
        rw [evalE]; apply sat_guard; intro _
        split
        · exact Ext.refl σ
        · exact Ext.rte σ _ _
      | unary op line e' =>
        rw [evalE]; apply sat_guard; intro _
        apply sat_seq (ih.e e' env repl σ)
        intro v σ1 _
        apply sat_guard; intro _
        split
        · exact Ext.refl σ1
        · exact Ext.rte σ1 _ _
      | binary l op line r =>
        rw [evalE]; apply sat_guard; intro _
        apply sat_seq (ih.e l env repl σ)
        intro a σ1 _
        apply sat_guard; intro _
        apply sat_seq (ih.e r env repl σ1)
        intro b σ2 _
        apply sat_guard; intro _
        split
        · exact Ext.refl σ2
        · exact Ext.rte σ2 _ _
      | logical l op r =>
        rw [evalE]; apply sat_guard; intro _
        apply sat_seq (ih.e l env repl σ)
        intro a σ1 _
        split
        · split
          · exact Ext.refl σ1
          · exact ih.e r env repl σ1
        · split
          · exact Ext.refl σ1
          · exact ih.e r env repl σ1
      | assign n nl v line =>
        rw [evalE]; apply sat_guard; intro _
        apply sat_seq (ih.e v env repl σ)
        intro x σ1 _
        apply sat_guard; intro _
        split
        · exact Ext.define σ1 _ _ _
        · exact Ext.rte σ1 _ _
      | arrayLit es =>
        rw [evalE]; apply sat_guard; intro _
        apply sat_bind (ih.l es env repl σ)
        intro p σ1 _
        split
        · exact Ext.refl σ1
        · exact Ext.newArr σ1 _
      | objectLit ps =>
        rw [evalE]; apply sat_guard; intro _
        apply sat_bind (ih.p _ env repl σ)
        intro p σ1 hp
        split
        · exact Ext.refl σ1
        · rename_i hsig
          have hk := evalProps_keys P f _ env repl σ p.1 σ1 (by
            have : p.2 = .none := by simpa using hsig
            rw [hp]; cases p; simp_all)
          exact Ext.newObj σ1 _ (by rw [hk]; exact Ext.effectiveProps_nodup _)
      | arrayAccess a i line =>
        rw [evalE]; apply sat_guard; intro _
        apply sat_seq (ih.e a env repl σ)
        intro av σ1 _
        apply sat_seq (ih.e i env repl σ1)
        intro iv σ2 _
        split
        · exact Ext.rte σ2 _ _
        · rename_i r k hc
          obtain ⟨v, hv⟩ := checkIndex_guard σ2 av iv _ r k hc
          simp only [hv]
          exact Ext.refl σ2
      | arrayAssign a i v line =>
        rw [evalE]; apply sat_guard; intro _
        apply sat_seq (ih.e a env repl σ)
        intro av σ1 _
        apply sat_seq (ih.e i env repl σ1)
        intro iv σ2 _
        apply sat_seq (ih.e v env repl σ2)
        intro x σ3 _
        split
        · exact Ext.rte σ3 _ _
        · exact Ext.setArr σ3 _ _ _
      | propAccess o p line =>
        rw [evalE]; apply sat_guard; intro _
        apply sat_seq (ih.e o env repl σ)
        intro ov σ1 _
        split
        · split
          · exact Ext.refl σ1
          · exact Ext.rte σ1 _ _
        · exact Ext.rte σ1 _ _
      | propAssign o p v line =>
        rw [evalE]; apply sat_guard; intro _
        apply sat_seq (ih.e o env repl σ)
        intro ov σ1 _
        split
        · apply sat_seq (ih.e v env repl σ1)
          intro x σ2 _
          exact Ext.setObj σ2 _ _ (fun hok => Ext.upsert_nodup _ _ _ (Ext.objsOk_getD hok _))
        · exact Ext.rte σ1 _ _
      | call c line args =>
        rw [evalE]; apply sat_guard; intro _
        apply sat_seq (ih.e c env repl σ)
        intro cv σ1 _
        split
        · exact Ext.rte σ1 _ _
        · rename_i k har
          split
          · exact Ext.rte σ1 _ _
          · rename_i hk
            exact hcall cv k args line env repl σ1 har (by simpa using hk)
    · -- evalS
      intro s env repl σ
      cases s with
      | expr e =>
        rw [evalS]; apply sat_guard; intro _
        apply sat_seq (ih.e e env repl σ)
        intro v σ1 _
        split
        · rename_i hc
          split
          · exact Ext.print σ1 _ (by simp at hc; exact hc.2)
          · exact cyclic_ne_panic
        · exact Ext.refl σ1
      | print e =>
        rw [evalS]; apply sat_guard; intro _
        apply sat_bind (ih.e e env repl σ)
        intro p σ1 _
        split
        · exact Ext.refl σ1
        · apply sat_guard; intro h1
          split
          · exact Ext.print σ1 _ h1
          · exact cyclic_ne_panic
      | var d =>
        unfold evalS; apply sat_guard; intro _
        apply sat_seq
        · split
          · exact Ext.refl σ
          · apply sat_seq (ih.e _ env repl σ)
            intro v σ1 _
            apply sat_guard; intro _
            exact Ext.refl σ1
        · intro v σ1 _
          apply sat_guard; intro _
          split
          · exact Ext.define σ1 _ _ _
          · exact Ext.rte σ1 _ _
      | varList ds => rw [evalS]; exact sat_guard fun _ => ih.d ds env repl σ
      | block ss =>
        rw [evalS]; apply sat_guard; intro _
        exact sat_mono (Ext.newEnv σ _) (ih.bl ss _ repl _)
      | ifS c t e =>
        rw [evalS]; apply sat_guard; intro _
        apply sat_seq (ih.e c env repl σ)
        intro cv σ1 _
        split
        · apply sat_bind (ih.s t env repl σ1)
          intro p σ2 _; exact Ext.refl σ2
        · split
          · apply sat_bind (ih.s _ env repl σ1)
            intro p σ2 _; exact Ext.refl σ2
          · exact Ext.refl σ1
      | whileS c b => rw [evalS]; exact sat_guard fun _ => ih.w c b env repl σ
      | forS init c inc b =>
        cases init with
        | none =>
          rw [evalS]; apply sat_guard; intro _
          exact sat_mono (Ext.newEnv σ _) (ih.fo _ inc b _ repl _)
        | some i =>
          rw [evalS]; apply sat_guard; intro _
          apply sat_mono (Ext.newEnv σ (some env))
          apply sat_seq (ih.s _ _ repl _)
          intro v σ2 _
          exact ih.fo _ inc b _ repl σ2
      | breakS line => rw [evalS]; exact sat_guard fun _ => Ext.refl σ
      | continueS line => rw [evalS]; exact sat_guard fun _ => Ext.refl σ
      | returnS line v =>
        cases v with
        | none => rw [evalS]; exact sat_guard fun _ => Ext.refl σ
        | some e =>
          rw [evalS]; apply sat_guard; intro _
          apply sat_seq (ih.e _ env repl σ)
          intro x σ1 _; exact Ext.refl σ1
      | funS name ps body =>
        unfold evalS; apply sat_guard; intro _
        exact ((Ext.newEnv σ _).trans (Ext.newFun _ _)).trans (Ext.define _ _ _ _)
    · -- evalList
      intro es env repl σ
      cases es with
      | nil => rw [evalList]; exact Ext.refl σ
      | cons e es =>
        rw [evalList]
        apply sat_bind (ih.e e env repl σ)
        intro p σ1 _
        split
        · exact Ext.refl σ1
        · apply sat_bind (ih.l es env repl σ1)
          intro q σ2 _; exact Ext.refl σ2
    · -- evalProps
      intro ps env repl σ
      cases ps with
      | nil => rw [evalProps]; exact Ext.refl σ
      | cons ke ps =>
        rw [evalProps]
        apply sat_bind (ih.e ke.2 env repl σ)
        intro p σ1 _
        split
        · exact Ext.refl σ1
        · apply sat_bind (ih.p ps env repl σ1)
          intro q σ2 _; exact Ext.refl σ2
    · -- callFn
      intro id args σ cl hcl hlen
      rw [callFn]; simp only [hcl]
      have : ¬ args.length < cl.params.length := by omega
      simp only [this, if_false]
      apply sat_mono (((Ext.newEnv σ (some cl.env)).trans (Ext.define _ _ _ _)).trans (fold_define_ext _ _ _))
      apply sat_bind (ih.b cl.body _ _)
      intro v σ4 _; exact Ext.refl σ4
    · -- runBody
      intro ss env σ
      cases ss with
      | nil => rw [runBody]; exact Ext.refl σ
      | cons s ss =>
        rw [runBody]
        apply sat_bind (ih.s s env false σ)
        intro p σ1 _
        split
        · exact Ext.refl σ1
        · exact ih.b ss env σ1
        · exact Ext.refl σ1
    · -- evalBlock
      intro ss env repl σ
      cases ss with
      | nil => rw [evalBlock]; exact Ext.refl σ
      | cons s ss =>
        rw [evalBlock]
        apply sat_seq (ih.s s env repl σ)
        intro v σ1 _
        exact sat_guard fun _ => ih.bl ss env repl σ1
    · -- evalDecls
      intro ds env repl σ
      cases ds with
      | nil => rw [evalDecls]; exact Ext.refl σ
      | cons d ds =>
        rw [evalDecls]
        apply sat_seq (ih.s _ env repl σ)
        intro v σ1 _
        exact sat_guard fun _ => ih.d ds env repl σ1
    · -- whileLoop
      intro c b env repl σ
      rw [whileLoop]
      apply sat_seq (ih.e c env repl σ)
      intro cv σ1 _
      split
      · exact Ext.refl σ1
      · apply sat_bind (ih.s b env repl σ1)
        intro p σ2 _
        split
        · exact Ext.refl σ2
        · exact Ext.refl σ2
        · exact ih.w c b env repl σ2
    · -- forLoop
      intro c inc b env repl σ
      rw [forLoop]
      apply sat_seq (ih.e c env repl σ)
      intro cv σ1 _
      split
      · exact Ext.refl σ1
      · apply sat_bind (ih.s b env repl σ1)
        intro p σ2 _
        split
        · exact Ext.refl σ2
        · exact Ext.refl σ2
        · split
          · exact ih.fo c _ b env repl σ2
          · apply sat_seq (ih.e _ env repl σ2)
            intro v σ3 _
            exact ih.fo c _ b env repl σ3

end Borno

namespace Borno

/-- the top-level statement loop also only extends the store and never panics -/
theorem sat_interpretLoop (P : Platform) : ∀ (f : Nat) (ss : List Stmt) (env : Nat) (repl : Bool) (σ : Store),
    Sat σ (interpretLoop P f ss env repl σ) := by
  intro f
  induction f with
  | zero => intro ss env repl σ; rw [interpretLoop]; exact fuel_ne_panic
  | succ f ih =>
    intro ss env repl σ
    cases ss with
    | nil => rw [interpretLoop]; exact Ext.refl σ
    | cons s ss =>
      rw [interpretLoop]
      apply sat_bind ((allSat P f).s s env repl σ)
      intro p σ1 _
      split
      · exact Ext.rte σ1 _ _
      · exact Ext.rte σ1 _ _
      · exact Ext.rte σ1 _ _
      · split
        · exact Ext.refl σ1
        · exact ih ss env repl σ1

end Borno
