def hello := "world"
