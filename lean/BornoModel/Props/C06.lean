import BornoModel.Eval
import BornoModel.Lemmas.EvalInv
/-! # C06 — a runtime error stops the program: true cause, right line, nothing afterwards -/
namespace Borno.Props.C06
open Borno

section
variable (P : Platform)

/-- once the error flag is set, evaluating any expression does nothing: the store — stdout, stdin,
    built-in call count, diagnostics — is returned unchanged, at once (no loop iterates, no
    function is entered); the only other outcome is the model's own fuel bound -/
theorem inert_expr (f : Nat) (e : Expr) (env : Nat) (repl : Bool) (σ : Store) (h : σ.hadError = true) :
    evalE P f e env repl σ = .ok (.nil, .none) σ ∨ evalE P f e env repl σ = .abn .fuel := by
  cases f with
  | zero => right; rw [evalE]
  | succ f => left; cases e <;> (rw [evalE]; simp [guardErr, ER.seq, Res.bind, h, nilOk])

theorem inert_stmt (f : Nat) (s : Stmt) (env : Nat) (repl : Bool) (σ : Store) (h : σ.hadError = true) :
    evalS P f s env repl σ = .ok (.nil, .none) σ ∨ evalS P f s env repl σ = .abn .fuel := by
  cases f with
  | zero => right; rw [evalS]
  | succ f => left; cases s <;> ((first | rw [evalS] | unfold evalS); simp [guardErr, ER.seq, Res.bind, h, nilOk])

/-- with one unit of fuel the inert evaluation finishes: bounded time after an error -/
theorem inert_terminates (f : Nat) (e : Expr) (s : Stmt) (env : Nat) (repl : Bool) (σ : Store) (h : σ.hadError = true) :
    evalE P (f + 1) e env repl σ = .ok (.nil, .none) σ ∧ evalS P (f + 1) s env repl σ = .ok (.nil, .none) σ := by
  constructor
  · cases e <;> (rw [evalE]; simp [guardErr, ER.seq, Res.bind, h, nilOk])
  · cases s <;> ((first | rw [evalS] | unfold evalS); simp [guardErr, ER.seq, Res.bind, h, nilOk])

/-- a loop whose condition is evaluated after the error ends at once -/
theorem loops_stop_after_error (f : Nat) (c : Expr) (inc : Option Expr) (b : Stmt) (env : Nat) (repl : Bool) (σ : Store)
    (h : σ.hadError = true) :
    whileLoop P (f + 2) c b env repl σ = .ok (.nil, .none) σ ∧ forLoop P (f + 2) c inc b env repl σ = .ok (.nil, .none) σ := by
  have hc := (inert_terminates P f c b env repl σ h).1
  constructor
  · rw [whileLoop]; simp only [guardErr, ER.seq, Res.bind, hc]; simp [guardErr, ER.seq, Res.bind, truthy, nilOk]
  · rw [forLoop]; simp only [guardErr, ER.seq, Res.bind, hc]; simp [guardErr, ER.seq, Res.bind, truthy, nilOk]

/-- the rest of a block, a function body and the program are skipped after the error -/
theorem block_stops_after_error (f : Nat) (s : Stmt) (ss : List Stmt) (env : Nat) (repl : Bool) (σ σ1 : Store) (sig : Signal)
    (hs : evalS P f s env repl σ = .ok (.nil, sig) σ1) (h1 : σ1.hadError = true) (hsig : sig = .none) :
    evalBlock P (f + 1) (s :: ss) env repl σ = .ok (.nil, .none) σ1 := by
  subst hsig
  rw [evalBlock]; simp only [guardErr, ER.seq, Res.bind, hs]; simp [guardErr, ER.seq, Res.bind, h1, nilOk]

theorem program_stops_after_error (f : Nat) (s : Stmt) (ss : List Stmt) (env : Nat) (repl : Bool) (σ σ1 : Store) (v : Val)
    (hs : evalS P f s env repl σ = .ok (v, .none) σ1) (h1 : σ1.hadError = true) :
    interpretLoop P (f + 1) (s :: ss) env repl σ = .ok () σ1 := by
  rw [interpretLoop]; simp only [guardErr, ER.seq, Res.bind, hs]; simp [guardErr, ER.seq, Res.bind, h1]

/-- no built-in is invoked once an argument (or anything before the call) has failed -/
theorem no_invocation_after_failed_argument (f : Nat) (c : Expr) (args : List Expr) (line env : Nat) (repl : Bool)
    (σ σ1 σ2 : Store) (n : Expect.Native) (vs : List Val) (h0 : σ.hadError = false)
    (hc : evalE P f c env repl σ = .ok (.native n, .none) σ1)
    (hk : Expect.arity n = -1 ∨ (args.length : Int) = Expect.arity n)
    (ha : evalList P f args env repl σ1 = .ok (vs, .none) σ2) (h2 : σ2.hadError = true) :
    evalE P (f + 1) (.call c line args) env repl σ = .ok (.nil, .none) σ2 := by
  rw [evalE]; simp only [guardErr, ER.seq, Res.bind, h0, hc]
  have : ¬ (Expect.arity n ≠ -1 ∧ (args.length : Int) ≠ Expect.arity n) := by
    rcases hk with hk | hk <;> simp [hk]
  simp [arityOf, this, ha, h2, nilOk, Res.bind, guardErr]

/-- printing is skipped when its operand failed -/
theorem no_print_after_failed_operand (f : Nat) (e : Expr) (env : Nat) (repl : Bool) (σ σ1 : Store) (v : Val)
    (h0 : σ.hadError = false) (he : evalE P f e env repl σ = .ok (v, .none) σ1) (h1 : σ1.hadError = true) :
    evalS P (f + 1) (.print e) env repl σ = .ok (.nil, .none) σ1 := by
  rw [evalS]; simp only [guardErr, ER.seq, Res.bind, h0, he]; simp [guardErr, ER.seq, Res.bind, h1, nilOk]

end

/-- reporting an error appends exactly one diagnostic (message, then the line) and sets the flag;
    stdout and stdin are untouched -/
theorem rte_effect (σ : Store) (msg : List Char) (line : Nat) :
    (σ.rte msg line).diags = σ.diags ++ [.runtime msg line] ∧ (σ.rte msg line).hadError = true ∧
    (σ.rte msg line).out = σ.out ∧ (σ.rte msg line).input = σ.input ∧ (σ.rte msg line).nativeCalls = σ.nativeCalls := by
  simp [Store.rte]

/-- **nothing after the first error**, for whole programs: in the sequence of observable events of any
    run (writes to stdout, diagnostics, reads of stdin, entries into built-ins), every event after the
    first diagnostic is itself a diagnostic — no output, no prompt, no read, no built-in — and the error
    flag is set exactly when a diagnostic was written -/
theorem nothing_after_first_error (P : Platform) (fuel : Nat) (prog : List Stmt) (repl : Bool) (input : List Char) (σ' : Store)
    (h : interpret P fuel prog repl input = .ok () σ') :
    quiet false σ'.trace = true ∧ σ'.hadError = σ'.trace.any Ev.isDiag := by
  have := sat_interpretLoop P fuel prog 1 repl (initStore input)
  unfold interpret at h
  rw [h] at this
  obtain ⟨new, ht, hq, hf⟩ := this.trace_ext
  simp [initStore] at ht hq hf
  rw [ht]; exact ⟨hq, hf⟩

/-- the same from any intermediate point of any evaluation: if the flag is set when a piece of
    evaluation starts, then when it returns stdout, the unread stdin and the number of built-in calls
    are what they were — whatever the piece is (loop, call, function body, …) -/
theorem frozen_after_error (P : Platform) (f : Nat) (e : Expr) (s : Stmt) (env : Nat) (repl : Bool) (σ σ' : Store) (r : Val × Signal)
    (herr : σ.hadError = true) :
    (evalE P f e env repl σ = .ok r σ' → σ'.out = σ.out ∧ σ'.input = σ.input ∧ σ'.nativeCalls = σ.nativeCalls) ∧
    (evalS P f s env repl σ = .ok r σ' → σ'.out = σ.out ∧ σ'.input = σ.input ∧ σ'.nativeCalls = σ.nativeCalls) := by
  constructor
  · intro h; have := (allSat P f).e e env repl σ; rw [h] at this; exact this.frozen herr
  · intro h; have := (allSat P f).s s env repl σ; rw [h] at this; exact this.frozen herr

/-- the first diagnostic of a run is never displaced: later evaluation only appends diagnostics -/
theorem first_diagnostic_stays (P : Platform) (f : Nat) (s : Stmt) (env : Nat) (repl : Bool) (σ σ' : Store) (r : Val × Signal) (d : Diag)
    (h : evalS P f s env repl σ = .ok r σ') (hd : σ.diags.head? = some d) : σ'.diags.head? = some d := by
  have := (allSat P f).s s env repl σ
  rw [h] at this
  obtain ⟨ds, hds⟩ := this.diags_ext
  rw [hds]
  cases hσ : σ.diags with
  | nil => rw [hσ] at hd; cases hd
  | cons x xs => rw [hσ] at hd; simpa using hd

end Borno.Props.C06
