import BornoModel.Value
/-! # C10 — numeric literals denote the correctly rounded value in either digit script -/
namespace Borno.Props.C10
open Borno Lexer

/-- a character is a digit iff it is an ASCII digit or one of the ten Bangla digits — for every character -/
theorem isDigit_iff (c : Char) :
    isDigit c = true ↔ (0x30 ≤ c.toNat ∧ c.toNat ≤ 0x39) ∨ (0x9E6 ≤ c.toNat ∧ c.toNat ≤ 0x9EF) := by
  simp [isDigit, Expect.digitRanges]

/-- the replacement table, as arithmetic on the code point -/
theorem lookup_digitMap (n : Nat) :
    Expect.digitMap.lookup n = if 0x9E6 ≤ n ∧ n ≤ 0x9EF then some (n - 0x9E6 + 0x30) else none := by
  by_cases h : 0x9E6 ≤ n ∧ n ≤ 0x9EF
  · rw [if_pos h]
    have : n = 2534 ∨ n = 2535 ∨ n = 2536 ∨ n = 2537 ∨ n = 2538 ∨ n = 2539 ∨ n = 2540 ∨ n = 2541 ∨ n = 2542 ∨ n = 2543 := by omega
    rcases this with rfl | rfl | rfl | rfl | rfl | rfl | rfl | rfl | rfl | rfl <;> rfl
  · rw [if_neg h]
    have hn : ∀ k ∈ [2534, 2535, 2536, 2537, 2538, 2539, 2540, 2541, 2542, 2543], (n == k) = false := by
      intro k hk; simp at hk; simp; omega
    simp [Expect.digitMap, List.lookup, hn]

/-- only the ten Bangla digits are transliterated; every other character is left alone -/
theorem translit_other (c : Char) (h : ¬ (0x9E6 ≤ c.toNat ∧ c.toNat ≤ 0x9EF)) : translitChar c = c := by
  unfold translitChar; rw [lookup_digitMap, if_neg h]

/-- a Bangla digit becomes the ASCII digit of the same value -/
theorem translit_digit (c : Char) (h : 0x9E6 ≤ c.toNat ∧ c.toNat ≤ 0x9EF) :
    translitChar c = Char.ofNat (c.toNat - 0x9E6 + 0x30) := by
  unfold translitChar; rw [lookup_digitMap, if_pos h]

theorem toNat_ofNat_small (n : Nat) (h : n < 0xd800) : (Char.ofNat n).toNat = n := by
  have hv : n.isValidChar := Or.inl h
  simp [Char.ofNat, hv, Char.toNat, Char.ofNatAux]

/-- transliteration maps into ASCII digits, on which it is the identity: it is idempotent, so a
    literal and the same literal with any digits swapped to the other script transliterate alike -/
theorem translit_idem (c : Char) : translitChar (translitChar c) = translitChar c := by
  by_cases h : 0x9E6 ≤ c.toNat ∧ c.toNat ≤ 0x9EF
  · rw [translit_digit c h]
    apply translit_other
    rw [toNat_ofNat_small _ (by omega)]
    omega
  · simp [translit_other c h]

/-- swapping a digit for its counterpart in the other script does not change the transliterated text -/
theorem script_swap_invariant (c : Char) (h : 0x30 ≤ c.toNat ∧ c.toNat ≤ 0x39) :
    translitChar (Char.ofNat (c.toNat + 0x9B6)) = c ∧ translitChar c = c := by
  constructor
  · have hn : (Char.ofNat (c.toNat + 0x9B6)).toNat = c.toNat + 0x9B6 := toNat_ofNat_small _ (by omega)
    rw [translit_digit _ (by rw [hn]; omega), hn]
    have : c.toNat + 0x9B6 - 0x9E6 + 0x30 = c.toNat := by omega
    rw [this]
    exact Char.ofNat_toNat c
  · exact translit_other c (by omega)

/-! ## the literal token -/

/-- the shape of a number lexeme: a digit run, then a point and a digit run only if a digit follows
    the point — `1.` and `1.x` leave the point for the next token -/
theorem fraction_needs_a_digit (r : List Char) :
    numFrac ['.'] = ([], ['.']) ∧ numFrac [] = ([], []) ∧
    (∀ x, isDigit x = false → numFrac ('.' :: x :: r) = ([], '.' :: x :: r)) ∧
    (∀ d, isDigit d = true → numFrac ('.' :: d :: r) = ('.' :: d :: r.takeWhile isDigit, r.dropWhile isDigit)) := by
  refine ⟨rfl, rfl, fun x hx => ?_, fun d hd => ?_⟩
  · simp [numFrac, hx]
  · simp [numFrac, hd]

/-- the two outcomes of scanning a number -/
theorem scanNumber_cases (c : Char) (r : List Char) (line : Nat) :
    (∃ x, F64.parseFloat (translit (c :: r.takeWhile isDigit ++ (numFrac (r.dropWhile isDigit)).1)) = .ok x ∧
      scanNumber c r line = ⟨some ⟨.NUMBER, c :: r.takeWhile isDigit ++ (numFrac (r.dropWhile isDigit)).1, .num x, line⟩, none,
        c :: r.takeWhile isDigit ++ (numFrac (r.dropWhile isDigit)).1, (numFrac (r.dropWhile isDigit)).2, line⟩) ∨
    ((∀ x, F64.parseFloat (translit (c :: r.takeWhile isDigit ++ (numFrac (r.dropWhile isDigit)).1)) ≠ .ok x) ∧
      scanNumber c r line = ⟨none, some (.static line [] invalidNumber),
        c :: r.takeWhile isDigit ++ (numFrac (r.dropWhile isDigit)).1, (numFrac (r.dropWhile isDigit)).2, line⟩) := by
  unfold scanNumber
  simp only
  cases hp : F64.parseFloat (translit (c :: r.takeWhile isDigit ++ (numFrac (r.dropWhile isDigit)).1)) with
  | ok x => exact Or.inl ⟨x, rfl, rfl⟩
  | range => exact Or.inr ⟨fun x h => (by cases h), rfl⟩
  | «syntax» => exact Or.inr ⟨fun x h => (by cases h), rfl⟩

theorem number_lexeme_shape (c : Char) (r : List Char) (line : Nat) :
    (scanNumber c r line).used = c :: r.takeWhile isDigit ++ (numFrac (r.dropWhile isDigit)).1 ∧
    (scanNumber c r line).rest = (numFrac (r.dropWhile isDigit)).2 := by
  rcases scanNumber_cases c r line with ⟨x, _, h⟩ | ⟨_, h⟩ <;> rw [h] <;> exact ⟨rfl, rfl⟩

/-- the value of a NUMBER token is `strconv.ParseFloat` of its transliterated lexeme; the lexeme is
    the text consumed -/
theorem literal_value (c : Char) (r : List Char) (line : Nat) (t : Token) (h : (scanNumber c r line).tok = some t) :
    t.tt = .NUMBER ∧ t.lexeme = (scanNumber c r line).used ∧ t.line = line ∧
    ∃ x, t.lit = .num x ∧ F64.parseFloat (translit t.lexeme) = .ok x ∧ (scanNumber c r line).diag = none := by
  rcases scanNumber_cases c r line with ⟨x, hx, hs⟩ | ⟨_, hs⟩
  · rw [hs] at h ⊢
    simp only [Option.some.injEq] at h
    subst h
    exact ⟨rfl, rfl, rfl, x, rfl, hx, rfl⟩
  · rw [hs] at h; cases h

/-- a literal whose transliterated text `ParseFloat` rejects (a value beyond the largest double
    included: Go reports a range error for it) yields no token and is diagnosed on its line -/
theorem overflow_is_diagnosed (c : Char) (r : List Char) (line : Nat)
    (h : ∀ x, F64.parseFloat (translit (scanNumber c r line).used) ≠ .ok x) :
    (scanNumber c r line).tok = none ∧ (scanNumber c r line).diag = some (.static line [] invalidNumber) := by
  rcases scanNumber_cases c r line with ⟨x, hx, hs⟩ | ⟨_, hs⟩
  · rw [hs] at h; exact absurd hx (h x)
  · rw [hs]; exact ⟨rfl, rfl⟩

/-- the value depends on the lexeme only through its transliteration: writing any of its digits in
    the other script gives the same double, bit for bit -/
theorem literal_depends_on_translit (c c' : Char) (r r' : List Char) (line line' : Nat) (t t' : Token)
    (h : (scanNumber c r line).tok = some t) (h' : (scanNumber c' r' line').tok = some t')
    (heq : translit t.lexeme = translit t'.lexeme) : t.lit = t'.lit := by
  obtain ⟨_, _, _, x, hx, hp, _⟩ := literal_value c r line t h
  obtain ⟨_, _, _, x', hx', hp', _⟩ := literal_value c' r' line' t' h'
  rw [heq, hp'] at hp
  cases hp
  rw [hx, hx']

/-- run-time coercion of a string reads a number exactly as the lexer reads a literal:
    the same transliteration, then the same `ParseFloat` -/
theorem runtime_coercion_same_translit (s : List Char) :
    toNumber (.str s) = (match F64.parseFloat (translit s) with | .ok x => some x | _ => none) := rfl

end Borno.Props.C10
