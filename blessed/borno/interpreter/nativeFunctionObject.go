package interpreter

import (
	"fmt"
	"sort"
)

// sortedKeys lists the property names of an object in a fixed (sorted) order,
// so that keys and values line up and do not change from run to run.
func sortedKeys(object map[string]interface{}) []string {
	names := make([]string, 0, len(object))
	for name := range object {
		names = append(names, name)
	}
	sort.Strings(names)
	return names
}

type NativeDeleteFn struct{}

func (n NativeDeleteFn) Call(i *Interpreter, arguments []interface{}) (interface{}, error) {
	// Ensure we have exactly 2 arguments: the object and the key
	if len(arguments) != 2 {
		return nil, fmt.Errorf("delete function expects exactly 2 arguments (object and key)")
	}

	// Ensure the first argument is an object (map)
	object, ok := arguments[0].(map[string]interface{})
	if !ok {
		return nil, fmt.Errorf("delete function only works on objects")
	}

	// Ensure the second argument is a string (key)
	var key string
	switch v := arguments[1].(type) {
	case string:
		key = v
	case []rune:
		key = string(v) // Convert []rune to string
	default:
		return nil, fmt.Errorf("delete function expects the second argument to be a string key")
	}

	// Remove the key if it exists
	if _, exists := object[key]; exists {
		delete(object, key)
	} else {
		return nil, fmt.Errorf("key '%s' not found in object", key)
	}

	return object, nil
}

func (n NativeDeleteFn) Arity() int {
	return 2 // Two arguments: object and key
}

func (n NativeDeleteFn) String() string {
	return "<native fn delete>"
}

type NativeKeysFn struct{}

func (n NativeKeysFn) Call(i *Interpreter, arguments []interface{}) (interface{}, error) {
	if len(arguments) != 1 {
		return nil, fmt.Errorf("keys function expects exactly 1 argument")
	}

	object, ok := arguments[0].(map[string]interface{})
	if !ok {
		return nil, fmt.Errorf("keys function only works on objects")
	}

	keys := make([]interface{}, 0, len(object))
	for _, key := range sortedKeys(object) {
		keys = append(keys, key)
	}

	return keys, nil
}

func (n NativeKeysFn) Arity() int {
	return 1
}

func (n NativeKeysFn) String() string {
	return "<native fn keys>"
}

type NativeValuesFn struct{}

func (n NativeValuesFn) Call(i *Interpreter, arguments []interface{}) (interface{}, error) {
	if len(arguments) != 1 {
		return nil, fmt.Errorf("values function expects exactly 1 argument")
	}

	object, ok := arguments[0].(map[string]interface{})
	if !ok {
		return nil, fmt.Errorf("values function only works on objects")
	}

	values := make([]interface{}, 0, len(object))
	for _, key := range sortedKeys(object) {
		values = append(values, object[key])
	}

	return values, nil
}

func (n NativeValuesFn) Arity() int {
	return 1
}

func (n NativeValuesFn) String() string {
	return "<native fn values>"
}
