# Campaigns for the evaluator: C02–C07, C11–C18 (run mode: stdout, stderr, flags)
import itertools, zlib
import re as _re
from fractions import Fraction
from .core import *
from .gen import *
from .runner import *

def dh(x):
    return zlib.crc32(repr(x).encode('utf-8'))

P = KW['print']; VAR = KW['var']; FUN = KW['fun']; IF = KW['if']; ELSE = KW['else']; WHILE = KW['while']; FOR = KW['for']
RET = KW['return']; BRK = KW['break']; CONT = KW['continue']; TRUE = KW['true']; FALSE = KW['false']
N = NAT

def prog_case(src, label, stdin=b'', group=None, note=None):
    return run_case('run', src, stdin, label=label, group=group, note=note)

# ---------------------------------------------------------------- C02

PRELUDE = (f'{VAR} A = [1, 2];\n{VAR} B = A;\n{VAR} E1 = [];\n{VAR} E2 = [];\n{VAR} O = {{p: 1}};\n{VAR} Q = O;\n'
           f'{FUN} f() {{}}\n{FUN} g() {{}}\n{VAR} INF = 10 ** 400;\n{VAR} NAN = INF - INF;\n')

VALUES = ['nil', TRUE, FALSE,
          '0', '(-0)', '1', '(-1)', '0.5', '2.5', '(-2.5)', '3', '7', '(-7)', '63', '64', '65', '2147483648', '9007199254740992', '9007199254740993',
          '9223372036854775807', '9223372036854775808', '(-9223372036854775808)', '(-9223372036854775809)', '18446744073709551616', '1' + '0' * 308, 'INF', '(-INF)', 'NAN',
          '1000000', '123456789', '0.1', '0.2', '4294967295', '1.5',
          '""', '"a"', '"abc"', '"12"', '"3.5"', '"০৭"', '" 1"', '"1e2"', '"0x10"', '"inf"', '"nan"', '"-"', '"true"', '"1_0"', '"-5"', '"9223372036854775808"', '"0.5"',
          '"\u0939"', '"\u0131"', '"1\u09653"', '"\u0968"', '"\uff11"', '"1\u00a0"',
          '[]', '[1]', 'A', 'B', 'E1', 'E2', '[1, 2]', '{}', 'O', 'Q', '({p: 1})', 'f', 'g', N['len'], N['sqrt'], N['len']]
BINOPS = ['+', '-', '*', '/', '%', '<', '<=', '>', '>=', '==', '!=', '&', '|', '^', '<<', '>>']
POW_BASE = ['0', '1', '2', '3', '(-2)', '10', '0.5', 'nil', '"2"', '"a"', TRUE, '[]', 'INF', 'NAN']
POW_EXP = ['0', '1', '2', '3', '(-1)', '(-2)', '"2"', 'nil', 'f', 'NAN', '1024']

def dec_of_bits(b):
    """exact decimal expansion of the double with the given bit pattern (finite, moderate exponent)"""
    import struct
    x = struct.unpack('>d', struct.pack('>Q', b))[0]
    q = Fraction(x)
    neg = q < 0
    q = abs(q)
    n, d = q.numerator, q.denominator
    k = 0
    while d % 2 == 0:
        d //= 2; k += 1
    num = n * 5 ** k
    s = str(num)
    if k:
        s = s.rjust(k + 1, '0')
        s = s[:-k] + '.' + s[-k:]
    return ('(-' + s + ')') if neg else s

def random_double_lit(rng):
    e = 1023 + rng.below(100) - 50
    m = rng.next() & ((1 << 52) - 1)
    if rng.chance(1, 3):
        m &= ~((1 << (20 + rng.below(30))) - 1)
    return dec_of_bits((rng.below(2) << 63) | (e << 52) | m)

def c02(tier, rng):
    cases = []
    for op in BINOPS:
        for l in VALUES:
            for r in VALUES:
                cases.append(prog_case(f'{PRELUDE}{P} {l} {op} {r};', 'matrix'))
    for l in POW_BASE:
        for r in POW_EXP:
            cases.append(prog_case(f'{PRELUDE}{P} {l} ** {r};', 'pow'))
    # strings that are canonically equivalent but different, strings that differ in one character, every pair of
    # callable values: equality and order are by content / identity, never by appearance
    twins = ['"ন\u09df"', '"ন\u09af\u09bc"', '"\u00e9"', '"e\u0301"', '"ক\u09cb"', '"ক\u09c7\u09be"', '"\u212b"', '"\u00c5"', '"A\u030a"', '"\u1e9b\u0323"', '"\u1e9b\u0323 "', '"a"', '"A"', '"a "', '" a"',
             '"\uff21"', '"\u0391"', '"\u0410"', '"ss"', '"\u00df"', '"i"', '"\u0130"', '"1"', '"১"', '"1.0"', '"01"']
    # strings with characters that mean something to a formatting or escaping layer underneath, on either side of every
    # operator together with numbers and the other kinds
    special = ['"%"', '"%d"', '"%s"', '"%v"', '"%%"', '"100%"', '"% off"', '"%!"', '"%5.2f"', '"{}"', '"{0}"', '"$1"', '"${x}"', '"\\"', '"\\n"', '"\\t"', '"\\u09df"', '"&amp;"', '"<b>"', '"\x00"', '"\x1b[0m"']
    others = ['50', '12.5', '0', '(-1)', '"a"', 'nil', TRUE, '[1]', '({k: 1})', 'f']
    for op in ['+', '==', '!=', '<', '-', '*']:
        for sp in special:
            for o_ in others + special[:6]:
                cases.append(prog_case(f'{PRELUDE}{P} {o_} {op} {sp};\n{P} {sp} {op} {o_};\n{P} [{o_} {op} {sp}];\n{VAR} t = {sp};\n{P} {o_} {op} t;', 'format-special-strings'))
    for op in ['==', '!=', '<', '<=', '>', '>=', '+']:
        for l in twins:
            for r in twins:
                cases.append(prog_case(f'{PRELUDE}{P} {l} {op} {r};', 'string-twins'))
    callables = list(NAT.values()) + ['f', 'g']
    for op in ['==', '!=']:
        for l in callables:
            for r in callables:
                cases.append(prog_case(f'{PRELUDE}{P} {l} {op} {r};\n{VAR} h = {l};\n{P} h {op} {r};\n{P} [{l}] {op} [{r}];', 'callable-pairs'))
    # right operands that invite a special case (one third, one half, small integers, their negatives and neighbours)
    # against bases on which the general rule and the special case differ (negative, zero of either sign, Inf, NaN, cubes)
    magic_l = ['(-8)', '27', '8', '125', '(-27)', '(-0)', '0', 'INF', '(-INF)', 'NAN', '2', '10', '(-1)', '0.001', '16', '(-16)', '1', '0.5', '"8"', '(-0.125)']
    magic_r = ['(1 / 3)', '(2 / 3)', '(-1 / 3)', '0.3333333333333333', '0.3333333333333334', '0.33333333333333326', '0.5', '(-0.5)', '0.25', '1.5', '2', '3', '4', '(-1)', '(-2)', '(-3)',
               '0', '(-0)', '1', '(1 / 7)', '0.1', '10', '(1 / 2)', '0.2', '(1 / 5)', '0.75', '1.0000000000000002', '0.9999999999999999']
    for op in ['**', '/', '%', '*', '<<', '>>', '-', '+']:
        for l in magic_l:
            for r in magic_r:
                cases.append(prog_case(f'{PRELUDE}{P} {l} {op} {r};\n{VAR} e = {r};\n{P} {l} {op} e;', 'magic-operand'))
    for op in ['-', '!', '~']:
        for v_ in VALUES:
            cases.append(prog_case(f'{PRELUDE}{P} {op}{v_};', 'unary'))
            cases.append(prog_case(f'{PRELUDE}{P} {op}{op}{v_};', 'unary'))
    # equality laws on the implementation alone are checked by the oracle over the matrix
    n = 4000 if tier == 'quick' else 150000
    arith = ['+', '-', '*', '/', '%', '<', '<=', '>', '>=', '==', '!=']
    for i in range(n):
        r = rng.fork(i)
        a, b_ = random_double_lit(r), random_double_lit(r)
        if r.chance(1, 4):
            b_ = a
        op = r.choice(arith)
        cases.append(prog_case(f'{P} {a} {op} {b_};', 'random-doubles'))
    m = 2000 if tier == 'quick' else 60000
    for i in range(m):
        r = rng.fork(10 ** 6 + i)
        g = ProgGen(r, err=15)
        e = g.e_any(Scope(), 4)
        cases.append(prog_case(f'{PRELUDE}{P} {r_expr(e)};', 'random-nested'))
    rule = (f'every binary operator x every ordered pair of {len(VALUES)} value expressions (all kinds; boundary magnitudes +-0, 63, 64, 2^31, 2^53, 2^63, 1e308, Inf, NaN; numeric-looking strings; '
            f'aliased and fresh arrays/objects; user and built-in functions) = {len(BINOPS) * len(VALUES) ** 2}; ** over {len(POW_BASE)}x{len(POW_EXP)} exactly representable cases; 7 operators x {len(twins)}^2 strings that are canonically equivalent, differ in case / width / one blank, or are numerals of different spelling; {len(special)} strings with characters special to formatting / escaping layers (%, {{}}, $, backslash, &amp;, NUL, ESC) on either side of 6 operators with every kind; == and != on every pair of the {len(callables)} callable values (directly, through a variable, inside an array); 8 operators x {len(magic_l)} bases x {len(magic_r)} notable right operands (thirds, halves, small integers, written as an expression and held in a variable); unary operators once and twice; '
            f'{n} seeded random double pairs written as exact decimal literals; {m} random nested expressions. Non-trivial = prints a value or a diagnostic (all do).')
    return {'cases': cases, 'rule': rule, 'exhaustive': True, 'oracles': [oracle_eq_laws]}

def oracle_eq_laws(cases):
    """== is total, symmetric, and != is its negation (implementation alone)"""
    bad = []
    res = {}
    for c in cases:
        if c.label != 'matrix':
            continue
        tail = c.src[len(PRELUDE):]
        for op in ('==', '!='):
            sep = f' {op} '
            if sep in tail:
                l, r = tail[len(P) + 1:-1].split(sep)
                res[(op, l, r)] = (fields(c.impl).get('O'), fields(c.impl).get('F'), c)
    for (op, l, r), (o, fl, c) in res.items():
        if fl != '00':
            bad.append((c, f'{l} {op} {r} is not total: it reports an error or crashes'))
            continue
        o2 = res.get((op, r, l))
        if o2 and o2[0] != o:
            bad.append((c, f'{op} is not symmetric on {l}, {r}'))
        ne = res.get(('!=' if op == '==' else '==', l, r))
        if ne and ne[0] == o:
            bad.append((c, f'== and != agree on {l}, {r}'))
        if op == '==' and l == r and l != 'NAN' and untext(o or '') != 'true\n' and not l.startswith(('[', '{', '({')):
            bad.append((c, f'== is not reflexive on {l}'))
    return bad

# ---------------------------------------------------------------- C03

def c03(tier, rng):
    """every history of declare / assign / read / enter / exit on colliding names"""
    cases = []
    atoms = ['Da', 'Db', 'Aa', 'Ab', 'Ra', 'Rb', '{', '}', 'F{', 'call', 'for{', 'if{', 'Df']
    maxlen = 4 if tier == 'quick' else 5
    def render(hist):
        out, stack, k = [], [], 0
        for h in hist:
            k += 1
            ind = '  ' * len(stack)
            if h == 'Da': out.append(f'{ind}{VAR} a = {k};')
            elif h == 'Db': out.append(f'{ind}{VAR} b = {k}0;')
            elif h == 'Aa': out.append(f'{ind}a = {k}00;')
            elif h == 'Ab': out.append(f'{ind}b = {k}000;')
            elif h == 'Ra': out.append(f'{ind}{P} "a" + a;')
            elif h == 'Rb': out.append(f'{ind}{P} "b" + b;')
            elif h == '{': out.append(ind + '{'); stack.append('}')
            elif h == 'if{': out.append(f'{ind}{IF} ({TRUE}) {{'); stack.append('}')
            elif h == 'for{': out.append(f'{ind}{FOR} ({VAR} a = {k}; a < {k + 1}; a = a + 1) {{'); stack.append('}')
            elif h == 'F{': out.append(f'{ind}{FUN} f() {{'); stack.append('F')
            elif h == 'Df': out.append(f'{ind}{FUN} a() {{ {P} "fa"; }}')
            elif h == 'call':
                if 'F' in stack:
                    return None        # a call of f inside f never terminates (unbounded recursion: see C07)
                out.append(f'{ind}f();')
            elif h == '}':
                if not stack:
                    return None
                stack.pop()
                out.append('  ' * len(stack) + '}')
        while stack:
            stack.pop()
            out.append('  ' * len(stack) + '}')
        out.append(f'{P} "end";')
        return '\n'.join(out) + '\n'
    for n in range(1, maxlen + 1):
        for hist in itertools.product(atoms, repeat=n):
            if hist[-1] in ('{', 'F{', 'for{', 'if{'):
                continue          # an empty trailing scope adds nothing
            src = render(hist)
            if src is not None:
                cases.append(prog_case(f'{VAR} a = 1; {VAR} b = 2;\n' + src if n >= 3 and hist[0] not in ('Da', 'Db') else src, 'history'))
    # the shapes the statement names explicitly
    extra = [
        f'{VAR} x = 1;\n{{ {VAR} x = 2; {P} x; }}\n{P} x;',
        f'{VAR} x = 1;\n{{ x = 2; {VAR} x = 3; x = 4; {P} x; }}\n{P} x;',
        f'{FUN} g() {{ {P} loc; }}\n{FUN} h() {{ {VAR} loc = 5; g(); }}\nh();',
        f'{VAR} x = 1;\n{FUN} g() {{ {P} x; }}\n{{ {VAR} x = 2; g(); }}',
        f'{FOR} ({VAR} i = 0; i < 2; i = i + 1) {{ {VAR} i = 9; {P} i; }}',
        f'{FOR} ({VAR} i = 0; i < 2; i = i + 1) {{ {P} i; }}\n{P} i;',
        f'{VAR} i = 7;\n{FOR} ({VAR} i = 0; i < 2; i = i + 1) {{ }}\n{P} i;',
        f'{VAR} i = 7;\n{FOR} (i = 0; i < 2; i = i + 1) {{ }}\n{P} i;',
        f'{{ {FUN} inner() {{ {RET} 1; }} {P} inner(); }}\n{P} inner();',
        f'{VAR} f = 1;\n{{ {FUN} f() {{ {RET} 2; }} {P} f(); }}\n{P} f;',
        f'{IF} ({TRUE}) {{ {FUN} f2() {{ {RET} 2; }} }}\n{P} f2;',
        f'{VAR} w = 0;\n{WHILE} (w < 2) {{ w = w + 1; {FUN} lf() {{ {RET} w; }} }}\n{P} lf;',
        f'{N["len"]} = 3;\n{P} {N["len"]};', f'{VAR} t = 1; {VAR} t = 2;', f'{P} undefined_;', f'undefined_ = 1;',
        f'{FUN} p(a) {{ {VAR} a = 2; }}\np(1);', f'{FUN} p(a) {{ a = 2; {P} a; }}\n{VAR} a = 1;\np(5);\n{P} a;',
        f'{FUN} p() {{ {VAR} p = 2; }}\np();',
    ]
    for a, b_ in [('ম\u09cbট', 'ম\u09c7\u09beট'), ('প\u09dc', 'প\u09a1\u09bc'), ('ন\u09df', 'ন\u09af\u09bc'), ('caf\u00e9', 'cafe\u0301'), ('\u212bx', '\u00c5x'), ('ক\u09cc', 'ক\u09c7\u09d7')]:
        extra.append(f'{VAR} {a} = 1;\n{VAR} {b_} = 2;\n{a} = {a} + 10;\n{P} {a};\n{P} {b_};\n{{ {VAR} {b_} = 30; {a} = {b_}; }}\n{P} {a};\n{P} {b_};')
        extra.append(f'{VAR} {a} = 1;\n{P} {b_};')
        extra.append(f'{FUN} f({a}, {b_}) {{ {RET} {a} - {b_}; }}\n{P} f(9, 4);')
    for s_ in extra:
        cases.append(prog_case(s_ + '\n', 'named-shape'))
    n = 2000 if tier == 'quick' else 40000
    for i in range(n):
        cases.append(prog_case(r_prog(random_program(rng.fork(i), 4 + rng.below(12), 3, err=8, use_natives=False)), 'random'))
    rule = (f'every history of <= {maxlen} events over {atoms} (declare/assign/read of a and b, block / if / for / function entry and exit, call, function named like a variable), '
            f'rendered one event per line with distinct constants; {len(extra)} hand-picked shapes from the statement; {n} seeded random programs. Non-trivial = prints or diagnoses.')
    return {'cases': cases, 'rule': rule, 'exhaustive': True}

# ---------------------------------------------------------------- C04

WRAPS = ['block', 'if', 'else', 'while', 'for']

def wrap(kind, inner, k):
    """one enclosing construct around `inner` (a list of lines), with trace prints before and after"""
    pre, post = f'{P} "in{k}";', f'{P} "after{k}";'
    if kind == 'block':
        return ['{', pre] + inner + [post, '}']
    if kind == 'if':
        return [f'{IF} ({TRUE}) {{', pre] + inner + [post, '}']
    if kind == 'else':
        return [f'{IF} ({FALSE}) {{ {P} "no"; }} {ELSE} {{', pre] + inner + [post, '}']
    if kind == 'while':
        return [f'{VAR} w{k} = 0;', f'{WHILE} (w{k} < 3) {{', f'w{k} = w{k} + 1;', pre] + inner + [post, '}']
    if kind == 'for':
        return [f'{FOR} ({VAR} i{k} = 0; i{k} < 3; i{k} = i{k} + 1) {{', pre] + inner + [post, '}']

def c04(tier, rng):
    cases = []
    depth = 3 if tier == 'quick' else 4
    # (a) return from every nesting of block / if / else / while / for, at first / middle / last position
    for d in range(0, depth + 1):
        for nest in itertools.product(WRAPS, repeat=d):
            for pos in ('first', 'middle', 'last'):
                for val in ('42', ''):
                    inner = [f'{RET} {val};'.replace(' ;', ';')]
                    if pos == 'middle':
                        inner = [f'{P} "before";'] + inner + [f'{P} "unreachable";']
                    elif pos == 'last':
                        inner = [f'{P} "before";'] + inner
                    else:
                        inner = inner + [f'{P} "unreachable";']
                    body = inner
                    for k, kind in enumerate(reversed(nest)):
                        body = wrap(kind, body, k)
                    src = f'{FUN} f() {{\n' + '\n'.join(body) + f'\n{P} "fell-off";\n}}\n{P} f();\n{P} "done";\n'
                    cases.append(prog_case(src, 'return-nesting'))
    # (b) recursion
    for n_ in (0, 1, 5, 20, 150):
        cases.append(prog_case(f'{FUN} fact(n) {{ {IF} (n <= 1) {RET} 1; {RET} n * fact(n - 1); }}\n{P} fact({n_});\n', 'recursion'))
        cases.append(prog_case(f'{FUN} ev(n) {{ {IF} (n == 0) {RET} {TRUE}; {RET} od(n - 1); }}\n{FUN} od(n) {{ {IF} (n == 0) {RET} {FALSE}; {RET} ev(n - 1); }}\n{P} ev({n_});\n', 'recursion'))
        cases.append(prog_case(f'{FUN} sum(n, acc) {{ {VAR} loc = n; {IF} (n == 0) {RET} acc; {VAR} r = sum(n - 1, acc + n); {P} loc; {RET} r; }}\n{P} sum({min(n_, 12)}, 0);\n', 'recursion'))
    cases.append(prog_case(f'{FUN} fib(n) {{ {IF} (n < 2) {RET} n; {RET} fib(n - 1) + fib(n - 2); }}\n{P} fib(15);\n', 'recursion'))
    # (c) counter factories: every interleaving of calls on two instances sharing / not sharing state
    fact = (f'{FUN} mk(start) {{\n {VAR} c = start;\n {FUN} inc() {{ c = c + 1; {RET} c; }}\n {FUN} get() {{ {RET} c; }}\n {FUN} add(k) {{ c = c + k; {RET} c; }}\n {RET} [inc, get, add];\n}}\n'
            f'{VAR} a = mk(0);\n{VAR} b = mk(100);\n')
    calls = ['a[0]()', 'a[1]()', 'b[0]()', 'b[1]()', 'a[2](10)', 'b[2](5)']
    L = 4 if tier == 'quick' else 5
    for n_ in range(1, L + 1):
        for seq in itertools.product(calls, repeat=n_):
            cases.append(prog_case(fact + ''.join(f'{P} {c};\n' for c in seq), 'closure-interleaving'))
    # (d) closures made in loops / blocks, each capturing its own variable, called after the scope ended
    for loop in ('while', 'for', 'block3', 'nested'):
        for order in itertools.permutations(range(3)):
            body = f'{VAR} x = k * 10;\n {FUN} h() {{ x = x + 1; {RET} x; }}\n fs = {N["append"]}(fs, h);\n'
            if loop == 'while':
                mk = f'{VAR} k = 0;\n{WHILE} (k < 3) {{\n k = k + 1;\n {body}}}\n'
            elif loop == 'for':
                mk = f'{FOR} ({VAR} k = 1; k < 4; k = k + 1) {{\n {body}}}\n'
            elif loop == 'nested':
                mk = f'{VAR} k = 0;\n{WHILE} (k < 3) {{\n k = k + 1;\n {IF} (k > 0) {{ {body} }}\n}}\n'
            else:
                mk = ''.join(f'{{ {VAR} k = {j}; {body} }}\n' for j in (1, 2, 3))
            calls_ = ''.join(f'{P} fs[{i}]();\n{P} fs[{i}]();\n' for i in order)
            cases.append(prog_case(f'{VAR} fs = [];\n' + mk + calls_, 'closure-per-iteration'))
    # (e) binding, arity, non-callables
    cases.append(prog_case(f'{FUN} f(a, b, c) {{ {P} a; {P} b; {P} c; }}\nf(1, 2, 3);\nf("x", [1], nil);\n', 'binding'))
    for nargs in range(0, 5):
        args = ', '.join(str(i + 1) for i in range(nargs))
        cases.append(prog_case(f'{FUN} f(a, b) {{ {P} a; {P} b; {RET} a; }}\n{P} "s";\n{P} f({args});\n{P} "e";\n', 'arity'))
        cases.append(prog_case(f'{FUN} z() {{ {RET} 1; }}\n{P} z({args});\n', 'arity'))
    for v_ in ['nil', TRUE, '1', '"s"', '[1]', '{}', '({p: 1})', '[f][0]', '({k: f}).k', 'f', 'f()', N['len']]:
        cases.append(prog_case(f'{FUN} f() {{ {RET} 7; }}\n{P} "s";\n{P} ({v_})();\n{P} "e";\n', 'callee-kind'))
    # (f) functions as values; late binding; self reference; parameter shadows the function name
    misc = [
        f'{FUN} twice(g, x) {{ {RET} g(g(x)); }}\n{FUN} inc(x) {{ {RET} x + 1; }}\n{P} twice(inc, 5);',
        f'{FUN} outer() {{ {VAR} x = 1; {FUN} inner() {{ {RET} x; }} x = 2; {RET} inner; }}\n{P} outer()();',
        f'{VAR} x = 1;\n{FUN} rd() {{ {RET} x; }}\nx = 2;\n{P} rd();\n{{ {VAR} x = 3; {P} rd(); }}',
        f'{FUN} f() {{ {RET} f; }}\n{P} f() == f;\n{P} f;',
        f'{FUN} f(f) {{ {RET} f; }}\n{P} f(3);',
        f'{FUN} f() {{ {BRK}; {P} "no"; }}\n{P} f();\n{P} "after";',
        f'{FUN} f() {{ {WHILE} ({TRUE}) {{ {RET} 1; }} }}\n{P} f();',
        f'{FUN} f() {{ {FOR} (;;) {{ {FOR} (;;) {{ {RET} 2; }} }} }}\n{P} f();',
        f'{FUN} mk() {{ {VAR} o = {{n: 0}}; {FUN} inc() {{ o.n = o.n + 1; {RET} o.n; }} {RET} inc; }}\n{VAR} p = mk(); {VAR} q = mk();\n{P} p(); {P} p(); {P} q();',
        f'{FUN} a1() {{ {RET} 1; }}\n{VAR} arr = [a1];\n{VAR} ob = {{m: a1}};\n{P} arr[0]() + ob.m();',
        f'{FUN} f(a) {{ a = a + 1; {RET} a; }}\n{VAR} a = 10;\n{P} f(a);\n{P} a;',
        f'{FUN} cnt() {{ {VAR} n = 0; {FUN} i() {{ n = n + 1; {RET} n; }} {RET} i; }}\n{VAR} c1 = cnt();\n{P} c1(); {P} c1();\n{VAR} c2 = cnt();\n{P} c2(); {P} c1();',
    ]
    for s_ in misc:
        cases.append(prog_case(s_ + '\n', 'functions-as-values'))
    n = 1500 if tier == 'quick' else 30000
    for i in range(n):
        cases.append(prog_case(r_prog(random_program(rng.fork(i), 5 + rng.below(10), 3, err=5)), 'random'))
    rule = (f'return at first/middle/last position inside every nesting of depth <= {depth} of block/if/else/while/for (with and without a value); recursion (direct, mutual, accumulator) to depth 150; '
            f'every interleaving of <= {L} calls on two counter-factory instances with three closures each; closures created per iteration of while/for/block/nested bodies and called after the loop in every order; '
            f'arity 0..4 against 0- and 2-parameter functions; every value kind as callee; {len(misc)} function-value shapes; {n} random programs. Non-trivial = prints or diagnoses.')
    return {'cases': cases, 'rule': rule, 'exhaustive': True, 'fuel': 12000}

# ---------------------------------------------------------------- C05

CONDS = ['i < 2', 'i == 1', TRUE, FALSE, 'i % 2 == 0', 'j < 1']

class Skel:
    def __init__(self, rng):
        self.rng, self.k, self.tr = rng, 0, 0
    def fresh(self):
        self.k += 1
        return self.k
    def trace(self):
        self.tr += 1
        return f'{P} "t{self.tr}";'
    def stmts(self, d, loop, n=None):
        r = self.rng
        out = []
        for _ in range(n or (1 + r.below(2))):
            out += self.stmt(d, loop)
        return out
    def stmt(self, d, loop):
        r = self.rng
        kinds = ['trace', 'trace']
        if loop:
            kinds += ['break', 'continue', 'ifbreak', 'ifcont']
        if d > 0:
            kinds += ['if', 'ifelse', 'while', 'for', 'forouter', 'block', 'fortrue', 'whiletrue']
        k = r.choice(kinds)
        if k == 'trace':
            return [self.trace()]
        if k == 'break':
            return [self.trace(), f'{BRK};']
        if k == 'continue':
            return [self.trace(), f'{CONT};']
        if k == 'ifbreak':
            return [f'{IF} ({loop} == 1) {BRK};']
        if k == 'ifcont':
            return [f'{IF} ({loop} % 2 == 0) {{ {self.trace()} {CONT}; }}']
        cond = r.choice(CONDS).replace('i', loop or '1').replace('j', '0')
        if k == 'if':
            return [f'{IF} ({cond}) {{'] + self.stmts(d - 1, loop) + ['}']
        if k == 'ifelse':
            return [f'{IF} ({cond}) {{'] + self.stmts(d - 1, loop) + [f'}} {ELSE} {{'] + self.stmts(d - 1, loop) + ['}']
        if k == 'block':
            return ['{'] + self.stmts(d - 1, loop) + ['}']
        n = self.fresh()
        v_ = f'c{n}'
        lim = 2 + r.below(2)
        if k == 'while':
            return [f'{VAR} {v_} = 0;', f'{WHILE} ({v_} < {lim}) {{', f'{v_} = {v_} + 1;'] + self.stmts(d - 1, v_) + ['}', f'{P} "{v_}=" + {v_};']
        if k == 'whiletrue':
            return [f'{VAR} {v_} = 0;', f'{WHILE} ({TRUE}) {{', f'{v_} = {v_} + 1;', f'{IF} ({v_} > {lim}) {BRK};'] + self.stmts(d - 1, v_) + ['}', f'{P} "{v_}=" + {v_};']
        if k == 'for':
            return [f'{FOR} ({VAR} {v_} = 0; {v_} < {lim}; {v_} = {v_} + 1) {{'] + self.stmts(d - 1, v_) + ['}']
        if k == 'forouter':
            return [f'{VAR} {v_} = 0;', f'{FOR} ({v_} = 0; {v_} < {lim}; {v_} = {v_} + 1) {{'] + self.stmts(d - 1, v_) + ['}', f'{P} "{v_}=" + {v_};']
        if k == 'fortrue':
            return [f'{VAR} {v_} = 0;', f'{FOR} (;; {v_} = {v_} + 1) {{', f'{IF} ({v_} >= {lim}) {BRK};'] + self.stmts(d - 1, v_) + ['}', f'{P} "{v_}=" + {v_};']

def c05(tier, rng):
    cases = []
    for v_ in TRUTH_VALUES:
        cases.append(prog_case(PROBE_PRE + f'{VAR} flag = {v_};\n{IF} (flag) {P} "then"; {ELSE} {P} "else";\n{VAR} n = 0;\n{WHILE} (flag) {{ n = n + 1; {IF} (n == 3) {{ flag = nil; }} }}\n{P} n;\n'
                               f'flag = {v_};\n{FOR} (n = 0; flag; n = n + 1) {{ {IF} (n == 2) {{ flag = 0; }} }}\n{P} n;\n{VAR} line = {N["input"]}();\n{IF} (line) {P} "line-then"; {ELSE} {P} "line-else";\n',
                               'condition-kinds', stdin=(v_.strip('"') + '\n').encode() if v_.startswith('"') else b'x\n'))
    n = 12000 if tier == 'quick' else 250000
    for i in range(n):
        sk = Skel(rng.fork(i))
        d = 1 + (i % 3)
        cases.append(prog_case('\n'.join(sk.stmts(d, None, 1 + (i % 3))) + f'\n{P} "end";\n', f'skeleton-d{d}'))
    # exhaustive small loops: every placement of break / continue in for / while bodies of three statements
    acts = ['T', 'B', 'C', 'IB', 'IC']
    def act(a, v_, k):
        return {'T': f'{P} "t{k}";', 'B': f'{BRK};', 'C': f'{CONT};', 'IB': f'{IF} ({v_} == 1) {BRK};', 'IC': f'{IF} ({v_} == 1) {CONT};'}[a]
    for body in itertools.product(acts, repeat=3):
        b_ = '\n'.join(act(a, 'i', k) for k, a in enumerate(body))
        cases.append(prog_case(f'{VAR} i = 0;\n{FOR} (i = 0; i < 3; i = i + 1) {{\n{b_}\n}}\n{P} i;\n', 'for-outer-counter'))
        cases.append(prog_case(f'{FOR} ({VAR} i = 0; i < 3; i = i + 1) {{\n{b_}\n}}\n{P} "e";\n', 'for-inner-counter'))
        cases.append(prog_case(f'{VAR} n = 0;\n{FOR} ({VAR} i = 0; i < 3; i = i + 1) {{\nn = n + 10;\n{b_}\n}}\n{P} n;\n', 'for-side-counter'))
        cases.append(prog_case(f'{VAR} n = 0;\n{VAR} i = 0;\n{FOR} (; i < 3; n = n + (i = i + 1)) {{\n{b_}\n}}\n{P} n; {P} i;\n', 'for-increment-effect'))
        cases.append(prog_case(f'{VAR} i = 0;\n{WHILE} (i < 3) {{\ni = i + 1;\n{b_}\n}}\n{P} i;\n', 'while'))
        for inner in (f'{FOR} ({VAR} j = 0; j < 2; j = j + 1)', f'{VAR} j = 0;\n{WHILE} (j < 2)'):
            bj = '\n'.join(act(a, 'j', k) for k, a in enumerate(body))
            head = inner if 'j = j + 1)' in inner else inner
            incr = '' if 'j = j + 1)' in inner else 'j = j + 1;\n'
            cases.append(prog_case(f'{VAR} i = 0;\n{WHILE} (i < 2) {{\ni = i + 1;\n{head} {{\n{incr}{bj}\n}}\n{P} "o" + i;\n}}\n{P} "e";\n', 'nested-loops'))
    # conditions of every kind decide the arm
    for v_ in ['nil', TRUE, FALSE, '0', '(-0)', '1', '""', '"a"', '"0"', '[]', '{}', 'f', '(10**400 - 10**400)']:
        cases.append(prog_case(f'{FUN} f() {{}}\n{IF} ({v_}) {P} "then"; {ELSE} {P} "else";\n{IF} ({v_}) {P} "then-only";\n{VAR} n = 0;\n{WHILE} ({v_}) {{ n = n + 1; {IF} (n > 2) {BRK}; }}\n{P} n;\n'
                               f'{FOR} ({VAR} k = 0; {v_}; k = k + 1) {{ {IF} (k > 1) {BRK}; {P} k; }}\n', 'condition-kind'))
    # stray signals at top level, in blocks, in if arms, in functions
    for sig in (BRK, CONT, RET, RET + ' 5'):
        for ctx in ('{S}', '{{ {S} }}', f'{IF} ({TRUE}) {{ {{S}} }}', f'{IF} ({FALSE}) {{}} {ELSE} {{S}}', f'{FUN} f() {{ {{S}} }}\nf();', f'{FOR} (;;) {{ {{S}} {BRK}; }}',
                    f'{FUN} f() {{ {WHILE} ({TRUE}) {{ {{S}} {BRK}; }} {P} "inf"; }}\n{P} f();'):
            body = ctx.replace('{{S}}', '{S}').replace('{S}', sig + ';')
            cases.append(prog_case(f'{P} "s";\n{body}\n{P} "e";\n', 'stray-signal'))
    rule = (f'{n} seeded skeletons nesting if/else, while, for (inner counter, outer counter, missing condition), blocks, break and continue to depth 1..3 with a trace point at every step and the counter printed after each loop; '
            f'every body of three actions out of {acts} in six loop shapes ({len(acts) ** 3} x 7); every value kind as condition; stray break/continue/return in 7 contexts. Non-trivial = prints or diagnoses.')
    return {'cases': cases, 'cli': long_loop_cases(), 'rule': rule + ' Three loops of 2.5 to 6 million iterations through the executable (implementation alone: the prescribed output).',
            'exhaustive': True, 'cli_oracles': [cli_oracle_expect], 'cli_timeout': 90}

# ---------------------------------------------------------------- C06

EXPR_FAULTS = [
    ('undefined', 'অজানা_নাম', 'Variable অজানা_নাম is not defined.'),
    ('type', '("a" - 1)', 'Left operand must be a number.'),
    ('zero', '(1 / 0)', 'Division by zero.'),
    ('modzero', '(1 % 0)', 'Division by zero.'),
    ('index', '[1][5]', 'Array index out of bounds.'),
    ('property', '({p: 1}).q', "Property 'q' does not exist on object"),
    ('noncallable', '(5)()', 'Can only call functions.'),
    ('arity', 'one()', 'Expected 1 arguments but 0.'),
    ('builtin', N['len'] + '(3)', 'Function call failed: len function only works on arrays'),
    ('assign-undefined', '(অজানা_নাম = 1)', "Undefined variable 'অজানা_নাম'."),
    ('negshift', '(1 << (0 - 1))', 'Shift count must not be negative.'),
    ('notobject', '(5).p', 'Invalid property access. Not an object.'),
    ('delete-percent', N['delete'] + '({a: 1}, "50%d")', "Function call failed: key '50%d' not found in object"),
    ('property-percent', '([{p: 1}][7 % 2 - 1]).m', "Property 'm' does not exist on object"),
    ('negate-percent', '(-"100%s")', 'expected a number, got'),
]
# templates: lines with FAULT where a faulty *expression* goes; one statement per line so the line is known
EXPR_TEMPLATES = {
    'top-print': ['{P} FAULT;'],
    'top-expr': ['FAULT;'],
    'var-init': ['{VAR} v = FAULT;', '{P} v;'],
    'assign': ['{VAR} v = 0;', 'v = FAULT;', '{P} v;'],
    'block': ['{', '{P} "B1";', '{P} FAULT;', '{P} "A1";', '}'],
    'nested-block': ['{', '{', '{P} FAULT;', '}', '{P} "A1";', '}'],
    'if-cond': ['{IF} (FAULT) {', '{P} "A1";', '} {ELSE} {', '{P} "A2";', 'probe();', '}'],
    'if-arm': ['{IF} ({TRUE}) {', '{P} FAULT;', '{P} "A1";', '}'],
    'else-arm': ['{IF} ({FALSE}) {', '{P} "B9";', '} {ELSE} {', '{P} FAULT;', '{P} "A1";', '}'],
    'while-cond': ['{WHILE} (FAULT) {', '{P} "A1";', '}'],
    'while-body': ['{VAR} n = 0;', '{WHILE} (n < 3) {', 'n = n + 1;', '{P} FAULT;', '{P} "A1";', '}'],
    'while-true-body': ['{WHILE} ({TRUE}) {', '{P} FAULT;', '{P} "A1";', '{BRK};', '}'],
    'for-forever-body': ['{FOR} (;;) {', '{P} FAULT;', '{P} "A1";', '{BRK};', '}'],
    'for-init': ['{FOR} ({VAR} i = FAULT; i < 2; i = i + 1) {', '{P} "A1";', '}'],
    'for-cond': ['{FOR} ({VAR} i = 0; FAULT; i = i + 1) {', '{P} "A1";', '}'],
    'for-incr': ['{FOR} ({VAR} i = 0; i < 2; i = FAULT) {', '{P} "B2";', '}'],
    'for-body': ['{FOR} ({VAR} i = 0; i < 3; i = i + 1) {', '{P} FAULT;', '{P} "A1";', '}'],
    'fun-body': ['{FUN} g() {', '{P} "B2";', '{P} FAULT;', '{P} "A1";', '{RET} 1;', '}', '{P} g();'],
    'fun-return': ['{FUN} g() {', '{RET} FAULT;', '}', '{P} g();'],
    'argument': ['{FUN} g(a, b) {', '{P} "A1";', '}', 'g(FAULT, probe());'],
    'argument-2nd': ['{FUN} g(a, b) {', '{P} "A1";', '}', 'g(1, FAULT);'],
    'builtin-argument': ['{P} {ABS}(FAULT);'],
    'callee': ['{P} (FAULT)(probe());'],
    'array-elem': ['{P} [1, FAULT, probe()];'],
    'object-value': ['{P} {k: FAULT, m: probe()};'],
    'index-expr': ['{P} [1, 2][FAULT];'],
    'indexed-array': ['{P} (FAULT)[0];'],
    'index-store': ['{VAR} arr = [1];', 'arr[0] = FAULT;', '{P} arr;'],
    'prop-store': ['{VAR} ob = {};', 'ob.k = FAULT;', '{P} ob;'],
    'or-right': ['{P} {FALSE} || FAULT;'],
    'and-right': ['{P} {TRUE} && FAULT;'],
    'binary-left': ['{P} FAULT + probe();'],
    'binary-right': ['{P} 1 + FAULT;'],
    'unary': ['{P} -FAULT;'],
    'grouping': ['{P} ((FAULT));'],
    'loop-in-fun-in-loop': ['{FUN} g(k) {', '{FOR} ({VAR} j = 0; j < 2; j = j + 1) {', '{IF} (k == 1) {', '{P} FAULT;', '}', '{P} "j";', '}', '{RET} k;', '}',
                            '{FOR} ({VAR} i = 0; i < 3; i = i + 1) {', '{P} g(i);', '}'],
    'recursive': ['{FUN} r(n) {', '{IF} (n == 0) {', '{RET} FAULT;', '}', '{VAR} x = r(n - 1);', '{P} "A1";', '{RET} x;', '}', '{P} r(3);'],
    'closure': ['{FUN} mk() {', '{FUN} inner() {', '{RET} FAULT;', '}', '{RET} inner;', '}', '{VAR} h = mk();', '{P} "B2";', '{P} h();'],
}
STMT_FAULTS = [
    ('redeclare', ['{VAR} dup = 1;', '{VAR} dup = 2;'], 1, 'Cannot redeclare variable dup.'),
    ('redeclare-list', ['{VAR} d1 = 1, d1 = 2;'], 0, 'Cannot redeclare variable d1.'),
    # a declaration list may continue on the next line after an array / object initialiser: the fault is where the name is
    ('redeclare-list-2nd-line', ['{VAR} e1 = [1],', 'e1 = [2];'], 1, 'Cannot redeclare variable e1.'),
    ('redeclare-list-3rd-line', ['{VAR} e1 = [1],', 'e2 = [2],', 'e1 = [3];'], 2, 'Cannot redeclare variable e1.'),
    ('redeclare-list-after-object', ['{VAR} g1 = {a: 1},', 'g2 = {', 'b: 2},', 'g1 = {c: 3};'], 3, 'Cannot redeclare variable g1.'),
    ('redeclare-outer-in-list', ['{VAR} h1 = [0];', '{VAR} h2 = [1],', 'h3 = [2],', 'h1 = [3];'], 3, 'Cannot redeclare variable h1.'),
]
# statements that span lines, the fault not on the first one (compared with the model: which line is named)
MULTILINE_TEMPLATES = [
    ['{P} [1,', '2,', 'FAULT];'], ['{P} 1 +', 'FAULT;'], ['{P} 1 +', '2 *', '(FAULT);'], ['{FUN} g2(a, b) {}', 'g2(1,', 'FAULT);'], ['{P} {k: 1,', 'm: FAULT};'],
    ['{VAR} w = [1,', 'FAULT];'], ['{VAR} w = [1],', 'w2 = [FAULT];'], ['{IF} ({TRUE} &&', 'FAULT) {', '{P} "A1";', '}'], ['{P} (', 'FAULT', ');'], ['{P} "multi', 'line" + FAULT;'],
    ['{P} /* c', 'c */ FAULT;'], ['{P} FAULT', ';'], ['{P} FAULT +', '1;'], ['{P} -', 'FAULT;'], ['{VAR} o2 = {};', 'o2', '.', 'k', '=', 'FAULT;'], ['{VAR} a2 = [0];', 'a2[', '0', ']', '= FAULT;'],
    ['{WHILE} (', 'FAULT', ') {', '}'], ['{FOR} ({VAR} i = 0;', 'FAULT;', 'i = i + 1) {', '}'], ['{FOR} ({VAR} i = 0;', 'i < 1;', 'i = FAULT) {', '}'], ['{FUN} g3() {', '{RET}', 'FAULT;', '}', 'g3();'],
]
STMT_TEMPLATES = {
    'top': ['STMTS'],
    'block': ['{', 'STMTS', '{P} "A1";', '}'],
    'if-arm': ['{IF} ({TRUE}) {', 'STMTS', '{P} "A1";', '}'],
    'while-body': ['{VAR} n = 0;', '{WHILE} (n < 2) {', 'n = n + 1;', '{', 'STMTS', '}', '{P} "A1";', '}'],
    'for-body': ['{FOR} ({VAR} i = 0; i < 2; i = i + 1) {', 'STMTS', '{P} "A1";', '}'],
    'fun-body': ['{FUN} g() {', 'STMTS', '{P} "A1";', '}', 'g();'],
}
STRAY = [(BRK + ';', "Unexpected 'break' outside of loop."), (CONT + ';', "Unexpected 'continue' outside of loop."),
         (RET + ';', "Unexpected 'return' outside of function."), (RET + ' 1;', "Unexpected 'return' outside of function.")]

def fill(line):
    return (line.replace('{P}', P).replace('{VAR}', VAR).replace('{IF}', IF).replace('{ELSE}', ELSE).replace('{WHILE}', WHILE).replace('{FOR}', FOR)
            .replace('{FUN}', FUN).replace('{RET}', RET).replace('{BRK}', BRK).replace('{TRUE}', TRUE).replace('{FALSE}', FALSE).replace('{ABS}', N['abs']))

C06_HEAD = [f'{FUN} one(a) {{ {RET} a; }}', f'{FUN} probe() {{ {P} "PROBE"; {RET} {N["input"]}("PROMPT"); }}', f'{P} "B0";']

# what precedes the program: nothing, a blank line, comments, a block comment and a string literal spanning lines
# (the line of the diagnostic must count every one of these lines)
C06_PADS = [[], [''], ['// note', ''], ['/* block', '   comment */'], ['"first', 'second', 'third";'], ['/* a', '*/ /* b', '*/', '"x', '";']]

def c06_program(lines, pad):
    head = C06_PADS[pad] + C06_HEAD
    tail = [f'{P} "A-end";', 'probe();']
    return head + lines + tail

def c06(tier, rng):
    cases, cli = [], []
    k = 0
    wraps = [None] if tier == 'quick' else [None, 'block', 'if', 'for', 'fun']
    for tname, tlines in EXPR_TEMPLATES.items():
        for fname, ftext, fmsg in EXPR_FAULTS:
            for w in wraps:
                body = [fill(l) for l in tlines]
                fl = next(i for i, l in enumerate(body) if 'FAULT' in l)
                body = [l.replace('FAULT', ftext) for l in body]
                pre_lines = 0
                if w == 'block':
                    body = ['{'] + body + ['}']; pre_lines = 1
                elif w == 'if':
                    body = [f'{IF} (1) {{'] + body + ['}']; pre_lines = 1
                elif w == 'for':
                    body = [f'{FOR} ({VAR} q = 0; q < 2; q = q + 1) {{'] + body + ['}']; pre_lines = 1
                elif w == 'fun':
                    body = [f'{FUN} wrapper() {{'] + body + ['}', 'wrapper();']; pre_lines = 1
                pad = k % len(C06_PADS)
                k += 1
                lines = c06_program(body, pad)
                line_no = len(C06_PADS[pad]) + len(C06_HEAD) + pre_lines + fl + 1
                src = '\n'.join(lines) + '\n'
                note = {'fault': fname, 'position': tname, 'wrap': w, 'line': line_no, 'message': fmsg}
                cases.append(prog_case(src, 'planted-fault', stdin=b'L1\nL2\nL3\n', note=note))
                if w is None and (tier == 'thorough' or fname in ('undefined', 'zero', 'arity', 'builtin')):
                    cli.append(CliCase('planted-fault', ['p.bn'], {'p.bn': src.encode()}, b'L1\nL2\nL3\n', 'p.bn', note=note))
    for tname, tlines in STMT_TEMPLATES.items():
        for fname, stm, off, fmsg in STMT_FAULTS:
            body = []
            fl = None
            for l in tlines:
                if l == 'STMTS':
                    fl = len(body) + off
                    body += [fill(x) for x in stm]
                else:
                    body.append(fill(l))
            lines = c06_program(body, 0)
            note = {'fault': fname, 'position': tname, 'wrap': None, 'line': len(C06_HEAD) + fl + 1, 'message': fmsg}
            src = '\n'.join(lines) + '\n'
            cases.append(prog_case(src, 'planted-fault', stdin=b'L1\n', note=note))
            cli.append(CliCase('planted-fault', ['p.bn'], {'p.bn': src.encode()}, b'L1\n', 'p.bn', note=note))
    for tl in MULTILINE_TEMPLATES:
        for fname, ftext, fmsg in EXPR_FAULTS:
            body = [fill(l).replace('FAULT', ftext) for l in tl]
            for pad in (0, 1):
                cases.append(prog_case('\n'.join(c06_program(body, pad)) + '\n', 'fault-on-later-line', stdin=b'L1\nL2\n'))
    for stm, fmsg in STRAY:
        for ctx in (['STRAY'], ['{', 'STRAY', '{P} "A1";', '}'], ['{IF} ({TRUE}) {', 'STRAY', '}'], ['{IF} ({TRUE})', 'STRAY']):
            body = [fill(l).replace('STRAY', stm) for l in ctx]
            fl = next(i for i, l in enumerate(ctx) if 'STRAY' in l)
            lines = c06_program(body, 0)
            note = {'fault': 'stray', 'position': 'top', 'wrap': None, 'line': len(C06_HEAD) + fl + 1, 'message': fmsg}
            src = '\n'.join(lines) + '\n'
            cases.append(prog_case(src, 'planted-fault', stdin=b'L1\n', note=note))
            cli.append(CliCase('planted-fault', ['p.bn'], {'p.bn': src.encode()}, b'L1\n', 'p.bn', note=note))
    # programs without any invalid operation: no diagnostic, status 0
    n = 300 if tier == 'quick' else 3000
    for i in range(n):
        src = r_prog(random_program(rng.fork(i), 4 + rng.below(8), 3, err=0))
        cases.append(prog_case(src, 'fault-free-candidate'))
        if i % 10 == 0:
            cli.append(CliCase('fault-free-candidate', ['p.bn'], {'p.bn': src.encode()}, b'', 'p.bn'))
    rule = (f'{len(EXPR_FAULTS)} expression faults x {len(EXPR_TEMPLATES)} syntactic positions x {len(wraps)} enclosing constructs, {len(STMT_FAULTS)} statement faults x {len(STMT_TEMPLATES)} positions, stray break/continue/return in 4 contexts; {len(MULTILINE_TEMPLATES)} statements spanning several lines with each expression fault on a later line (compared with the model: the line named); '
            'every program prints before the fault ("B…"), would print after it ("A…") and would prompt and read stdin (probe); checked on the implementation alone: first diagnostic = expected message on the line of the fault, '
            f'nothing of "A…"/PROMPT/PROBE after it on stdout, bounded time, status 70 through the CLI; {n} fault-free programs: no diagnostic, status 0. Non-trivial = every planted-fault case.')
    return {'cases': cases, 'cli': cli, 'rule': rule, 'exhaustive': True, 'timeout_ms': 3000, 'cli_timeout': 5,
            'oracles': [oracle_c06], 'cli_oracles': [cli_oracle_c06]}

def c06_verdict(note, out, err, flags_runtime, timed_out):
    if timed_out:
        return 'does not finish in bounded time'
    if not note:
        return None
    lines = err.split('\n')
    if not flags_runtime or len(lines) < 2:
        return 'no runtime diagnostic was reported'
    want = note['message']
    if not lines[0].startswith(want):
        return f'first diagnostic is {lines[0]!r}, expected {want!r}'
    if lines[1] != f'[line {note["line"]}]':
        return f'first diagnostic names {lines[1]} but the fault is on line {note["line"]}'
    for marker in ('"A', 'A1', 'A2', 'A-end', 'PROMPT', 'PROBE'):
        pass
    after = [l for l in out.split('\n') if l.startswith('A') or 'PROMPT' in l or l == 'PROBE']
    if after:
        return f'output after the error: {after[:3]}'
    return None

def oracle_c06(cases):
    bad = []
    for c in cases:
        if c.label == 'planted-fault':
            f = fields(c.impl)
            if c.impl.startswith('TIMEOUT'):
                bad.append((c, 'does not finish in bounded time after the error')); continue
            if 'O' not in f:
                continue
            v_ = c06_verdict(c.note, untext(f['O']), untext(f.get('E', '')), f.get('F', '00')[1] == '1', False)
            if v_:
                bad.append((c, v_))
        elif c.label == 'fault-free-candidate':
            f = fields(c.impl)
            if f.get('F') == '00' and f.get('E', '') != '':
                bad.append((c, 'a diagnostic without an error flag'))
    return bad

def cli_oracle_c06(clis):
    bad = []
    for c in clis:
        if c.label == 'planted-fault':
            v_ = c06_verdict(c.note, c.out.decode('utf-8', 'replace'), cli_canon_err(c.err), c.status == 70, c.timed_out)
            if not v_ and c.status != 70:
                v_ = f'exit status {c.status}, expected 70'
            if v_:
                bad.append((c, v_))
        elif c.label == 'fault-free-candidate':
            if (c.status == 0) != (c.err == b''):
                bad.append((c, f'status {c.status} with stderr {c.err[:60]!r}'))
    return bad

# ---------------------------------------------------------------- C07

KIND_VALUES = ['nil', TRUE, '0', '(-1)', '0.5', '1e', '"s"', '""', '"1"', '[]', '[1, 2]', '{}', '({p: 1})', 'f', N['len'], '(10 ** 400)', '(10 ** 400 - 10 ** 400)', '9223372036854775808', '(-9223372036854775809)']

def c07(tier, rng):
    kv = [v_ for v_ in KIND_VALUES if v_ != '1e']
    cases = []
    pre = f'{FUN} f() {{}}\n{VAR} A = [1, 2, 3];\n{VAR} O = {{p: 1}};\n'
    # every indexing / property / call / store form on every value kind
    for a in kv:
        for b_ in kv:
            for form in ('({a})[{b}]', '({a})[{b}] = 1', '({a}).p', '({a}).p = {b}', '({a})({b})', '({a})({b}, {b})', 'A[{b}]', 'A[{b}] = {a}', 'O.p = {a}',
                         '({a}) == ({b})', '({a}) != ({b})', '({a}) << ({b})', '({a}) >> ({b})', '({a}) % ({b})', '({a}) / ({b})', '({a}) ** ({b})', '({a}) + ({b})'):
                cases.append(prog_case(pre + f'{P} ' + form.format(a=a, b=b_) + ';\n', 'form-x-kind'))
    # every operator on every pair of callable values (each built-in with itself and with every other, user functions)
    callables = list(NAT.values()) + ['f', 'g2']
    for l in callables:
        for r in callables:
            for op in (BINOPS if tier == 'thorough' or l == r or (dh((l, r)) % 3 == 0) else ['==', '!=']):
                cases.append(prog_case(pre + f'{FUN} g2() {{}}\n{P} {l} {op} {r};\n{VAR} h = {l};\n{P} [h] == [{r}];\n{P} h == h;\n', 'callable-pairs'))
    # every built-in on 0..3 arguments of every kind
    for name in NAT:
        if name == 'clock':
            cases.append(prog_case(f'{P} {N[name]}() > 0;\n{P} {N[name]}(1);\n', 'builtin-x-kind'))
            continue
        cases.append(prog_case(pre + f'{P} {N[name]}();\n', 'builtin-x-kind', stdin=b'x\n'))
        for a in kv:
            cases.append(prog_case(pre + f'{P} {N[name]}({a});\n', 'builtin-x-kind', stdin=b'x\n'))
            for b_ in kv:
                cases.append(prog_case(pre + f'{P} {N[name]}({a}, {b_});\n', 'builtin-x-kind', stdin=b'x\n'))
                if tier == 'thorough' or (dh((name, a, b_)) % 7 == 0):
                    cases.append(prog_case(pre + f'{P} {N[name]}({a}, {b_}, {a});\n', 'builtin-x-kind', stdin=b'x\n'))
    # known findings, replayed on every run
    cases.append(prog_case(f'{VAR} a = [1];\na[0] = a;\n{P} a;\n', 'known-cyclic-print'))
    cases.append(prog_case(f'{VAR} o = {{}};\no.self = o;\n{P} o;\n', 'known-cyclic-print'))
    cases.append(prog_case(f'{FUN} r(n) {{ {RET} r(n + 1); }}\nr(0);\n', 'known-unbounded-recursion'))
    # bounded recursion depth, deep nesting of values and expressions
    for d in (100, 400):
        cases.append(prog_case(f'{FUN} r(n) {{ {IF} (n == 0) {RET} 0; {RET} 1 + r(n - 1); }}\n{P} r({d});\n', 'bounded-recursion'))
        cases.append(prog_case(f'{P} ' + '[' * d + ']' * d + ';\n', 'deep-value'))
        cases.append(prog_case(f'{P} ' + '(' * d + '1' + ')' * d + ';\n', 'deep-value'))
        cases.append(prog_case(f'{P} ' + '-' * d + '1;\n', 'deep-value'))
        cases.append(prog_case(f'{VAR} a = [];\n{FOR} ({VAR} i = 0; i < {d}; i = i + 1) {{ a = [a]; }}\n{P} a;\n', 'deep-value'))
    n = 4000 if tier == 'quick' else 120000
    for i in range(n):
        r = rng.fork(i)
        src = r_prog(random_program(r, 3 + r.below(10), 3, err=60))
        if r.chance(1, 3):
            # token-level mutation of a valid program (still syntactically valid most of the time)
            toks = src.split(' ')
            k = r.below(len(toks))
            if not _re.fullmatch(r'[iw]\d+;?\)?', toks[k]):      # loop counters stay: the programs must terminate
                toks[k] = r.choice(['nil', '[]', '{}', '0', '-1', '""', 'f', TRUE, toks[k]])
            src = ' '.join(toks)
        cases.append(prog_case(src, 'random-faulty'))
    # input lines that are not well-formed UTF-8 (a multi-byte character cut off at every point, stray continuation bytes,
    # overlong forms, surrogates, 0xFE/0xFF) in every position a string can be consumed.  The model has no ill-formed
    # strings, so these are decided on the executable alone: the run ends with status 0 or 70, never abnormally.
    cli = []
    INP = N['input']
    uses = ['{P} X;', '{P} [X];', '{P} {{k: X}};', '{P} X + 1;', '{P} 1 + X;', '{P} X - 1;', '{P} 1 - X;', '{P} X * 2;', '{P} X / 2;', '{P} X % 2;', '{P} X ** 2;', '{P} 2 ** X;', '{P} -X;', '{P} ~X;', '{P} !X;',
            '{P} X & 1;', '{P} X | 1;', '{P} X ^ 1;', '{P} X << 1;', '{P} 1 >> X;', '{P} X < 1;', '{P} 1 >= X;', '{P} X == "a";', '{P} X == X;', '{P} X + X;', '{P} [1, 2, 3][X];', '{V} a = [1]; a[X] = 2;',
            '{P} {ABS}(X);', '{P} {SQRT}(X);', '{P} {ROUND}(X);', '{P} {POW}(X, 2);', '{P} {MAX}(X, 1);', '{P} {MIN}([X, 1]);', '{P} {SIN}(X);', '{P} {LEN}([X]);', '{P} {APP}([], X);', '{P} {REM}([1], X);',
            '{V} o = {{}}; o.k = X; {P} o; {P} {KEYS}(o); {P} {VALS}(o);', '{P} {DEL}({{a: 1}}, X);', '{P} {INP}(X);', '{IF} (X) {P} 1;', '{P} X || 1;', '{P} X && 1;', '{P} "" + X + "";', 'X();']
    tails = [b'\xe0', b'\xe0\xa7', b'\xe0\xa6', b'\xe0\xa7\xa6\xe0\xa7', b'\xa7', b'\xa6\xa7', b'\xc3', b'\xf0\x9f', b'\xf0\x9f\x98', b'\xc0\xaf', b'\xed\xa0\x80', b'\xff', b'\xfe\xff', b'\xf8\x88\x80\x80\x80',
             b'\xe0\xa7\xa6', '৭'.encode(), b'\x00', b'\xe0\x80\x80']
    heads = [b'', b'12', '১২'.encode(), b'-', b'1.', b'x']
    sub = lambda t: (t.replace('{P}', P).replace('{V}', VAR).replace('{IF}', IF).replace('{ABS}', N['abs']).replace('{SQRT}', N['sqrt']).replace('{ROUND}', N['round']).replace('{POW}', N['pow'])
                     .replace('{MAX}', N['max']).replace('{MIN}', N['min']).replace('{SIN}', N['sin']).replace('{LEN}', N['len']).replace('{APP}', N['append']).replace('{REM}', N['remove'])
                     .replace('{KEYS}', N['keys']).replace('{VALS}', N['values']).replace('{DEL}', N['delete']).replace('{INP}', INP).replace('{{', '{').replace('}}', '}'))
    for u in uses:
        src = f'{VAR} X = {INP}();\n' + sub(u) + f'\n{P} "end";\n'
        for tl in (tails if tier == 'thorough' else tails[:9]):
            for hd in (heads if tier == 'thorough' else heads[:3]):
                for after in (b'', b'5'):
                    cli.append(CliCase('impl-only-ill-formed-input', ['p.bn'], {'p.bn': src.encode()}, hd + tl + after + b'\nnext\n', 'p.bn'))
    rule = (f'17 indexing/property/call/store/operator forms x {len(kv)}^2 value kinds and boundary magnitudes; every operator on every pair of the 19 callable values; every built-in x 0..3 arguments x every kind; recursion to depth 400, values and expressions nested 400 deep; '
            f'{len(cli)} runs of the executable on input lines that are not well-formed UTF-8 (characters cut off at every byte, stray continuation bytes, overlong forms, surrogates) consumed in {len(uses)} ways (implementation alone: status 0 or 70, never a Go panic); '
            f'{n} seeded grammar-based programs with a 6% fault rate, a third of them token-mutated; the two known findings (cyclic value printed, unbounded recursion) are replayed on every run. Non-trivial = prints or diagnoses.')
    return {'cases': cases, 'cli': cli, 'cli_oracles': [cli_oracle_no_abnormal], 'rule': rule, 'exhaustive': True, 'fuel': 10000, 'timeout_ms': 20000}

def cli_oracle_no_abnormal(clis):
    bad = []
    for c in clis:
        if not c.label.startswith('impl-only-ill-formed'):
            continue
        if c.timed_out:
            bad.append((c, 'the run did not finish')); continue
        if c.status not in (0, 70) or b'panic:' in c.err or b'fatal error:' in c.err or b'goroutine ' in c.err:
            bad.append((c, f'abnormal termination: status {c.status}, stderr starts {c.err[:160]!r}'))
    return bad

# ---------------------------------------------------------------- C11

ARR_PRE = f'{VAR} x = [1, 2, 3];\n{VAR} y = [4];\n{VAR} z = [];\n{FUN} m(p) {{ p[0] = p[0] + 100; {RET} p; }}\n{FUN} show() {{ {P} [x, y, z]; }}\n'
ARR_OPS = [
    'x = [7, 8, 9];', 'y = x;', 'z = y;', 'z = {AP}(x, 9);', 'z = {AP}(z, 8, 7);', 'y = {AP}(z, 6);', 'x = {AP}(x, 5, 4, 3);',
    'x[0] = 50;', 'y[0] = 60;', 'z[{LEN}(z) - 1] = 40;', 'x[{LEN}(x) - 1] = 41;',
    'z = {RM}(x, 0);', 'y = {RM}(x, {LEN}(x) - 1);', 'z = {RM}(z, 1);', 'x = {RM}(y, 0);', 'z = {RM}(z, {LEN}(z) - 1);',
    'y = [x, x];', 'y[0][0] = 70;', 'y = m(x);', 'm(z);', 'y = x[0];',
]
ARR_ERR = ['{P} x[3];', '{P} x[0 - 1];', 'x[0.5] = 1;', '{P} x["1"];', '{P} x["a"];', 'x[{LEN}(x)] = 1;', 'z = {RM}(x, 0 - 1);', 'z = {RM}(x, 3);', 'z = {RM}(x, 0.5);', 'z = {RM}(x, "1");',
           '{P} {LEN}(x) + 1;', '{P} {LEN}(z) == 0;', 'z = {AP}(x);', 'z = {AP}(5, 1);', '{P} x[nil];', '{P} x[{TRUE}];', '{P} x[[0]];', 'x["0"] = 5;', '{P} x[2.0];', '{P} x[1e];',
           '{P} x[0.5];', '{P} x[1.5];', '{P} x[2.9];', '{P} x[0 - 0.5];', '{P} x[1 + 0.5];', 'x[1.5] = 1;', 'x[0 - 0.5] = 1;', '{P} x[{LEN}(x) - 0.5];', '{P} x[(-1)];', '{P} x[-1];', 'x[-1] = 7;', '{P} y[0][0];', '{P} x[1][0];',
           '{P} x[1.0000000001];', '{P} x[0.9999999999];', 'x[(0.1 + 0.2) * 10 - 2] = 99;', '{P} x[0 - 0.0000000001];', 'z = {RM}(x, 0.9999999999);', '{P} x[2.0000000000000004];',
           '{P} x[1.0000000000000002];', 'x[0.99999999999999989] = 5;', '{P} x["1.0000000001"];']

C11_VALUES = ['"ন\u09df"', '"ম\u09c7\u09beট"', '"cafe\u0301"', '"\u212b"', '"50%"', '"%d"', '" pad "', '"a\\b"', '"\u09e7\u09e8"', '"12"', '12', '0.1', '(-0)', '1000000', 'nil', TRUE, '[]', '[1]', '({k: 1})', 'keep']

def c11_identity_cases():
    """what goes into an array comes out of it unchanged — through every built-in and operation that moves elements"""
    out = []
    pre = f'{FUN} keep() {{ {RET} 1; }}\n{FUN} same(a, b) {{ {RET} a == b && (("" + a) == ("" + b) || a == keep || a == nil || a == {TRUE}); }}\n'
    for v_ in C11_VALUES:
        body = (f'{VAR} v = {v_};\n{VAR} a = {N["append"]}([], v);\n{P} same(a[0], v);\n{VAR} b = {N["append"]}([0, v], v, 1);\n{P} same(b[1], v) && same(b[2], v);\n{VAR} c = {N["remove"]}(b, 0);\n{P} same(c[0], v);\n'
                f'{VAR} d = [v, [v]];\n{P} same(d[0], v) && same(d[1][0], v);\nd[0] = v;\n{P} same(d[0], v);\n{VAR} e = [0];\ne[0] = v;\n{P} same(e[0], v);\n{P} {N["len"]}({N["append"]}(a, v, v));\n')
        if v_.startswith('"'):
            body += f'{P} a[0] == {v_};\n{P} {N["remove"]}([{v_}, 1], 1)[0] == {v_};\n{P} {N["append"]}([{v_}], 2)[0] == {v_};\n'
        out.append(prog_case(pre + body, 'element-identity'))
    return out

def c11(tier, rng):
    sub = lambda s_: s_.replace('{AP}', N['append']).replace('{RM}', N['remove']).replace('{LEN}', N['len']).replace('{P}', P).replace('{TRUE}', TRUE)
    ops = [sub(o) for o in ARR_OPS]
    errs = [sub(o) for o in ARR_ERR if '1e' not in o]
    cases = c11_identity_cases()
    L = 3 if tier == 'quick' else 4
    for n in range(1, L + 1):
        for seq in itertools.product(ops, repeat=n):
            cases.append(prog_case(ARR_PRE + ''.join(o + '\nshow();\n' for o in seq), 'op-sequence'))
    for n in range(0, 3):
        for seq in itertools.product(ops[:12], repeat=n):
            for e in errs:
                cases.append(prog_case(ARR_PRE + ''.join(o + '\n' for o in seq) + e + '\nshow();\n', 'op-sequence-then-bad-index'))
    m = 6000 if tier == 'quick' else 200000
    for i in range(m):
        r = rng.fork(i)
        seq = [r.choice(ops) for _ in range(4 + r.below(16))]
        cases.append(prog_case(ARR_PRE + ''.join(o + '\nshow();\n' for o in seq), 'random-sequence'))
    rule = (f'every sequence of <= {L} of {len(ops)} array operations (literal, alias, এড with 1..3 extras onto any live array incl. earlier results, indexed writes, রিমুভ at first/last/middle index, element aliasing, mutation through a parameter) '
            f'on three arrays with shared ancestry, all live arrays printed after every step; <= 2 operations followed by each of {len(errs)} bad-index / misuse forms; {m} seeded random sequences of 4..19 operations. Non-trivial = all.')
    return {'cases': cases, 'rule': rule, 'exhaustive': True}

# ---------------------------------------------------------------- C12 / C13

OKEYS = ['b', 'aa', 'c', 'id', 'ID', 'Id', 'ক', 'z9']
OBJ_PRE = f'{VAR} o = {{}};\n{VAR} q = o;\n{VAR} r = {{b: 1, aa: 2}};\n{FUN} show() {{ {P} o; {P} {N["keys"]}(o); {P} {N["values"]}(o); {P} r; {P} {N["keys"]}(r); {P} {N["values"]}(r); }}\n'

def obj_ops():
    ops = []
    for k in OKEYS[:6]:
        ops.append(f'o.{k} = "{k}1";')
        ops.append(f'{N["delete"]}(o, "{k}");')
    # properties that exist and hold nil / false / 0 / "" are present: reads, listings and deletes agree on that
    ops += ['o.b = nil;', 'o = {b: nil, aa: 0, c: "", id: ' + FALSE + '};', 'o.aa = ' + FALSE + ';', f'{P} o.c;', f'{P} o.id;', 'r.c = nil;', f'{P} r.c;', f'{N["delete"]}(o, "c");']
    ops += ['q.b = 7;', 'q = r;', 'r.c = o;', 'o = {id: 1, ID: 2, Id: 3, ক: 4};', 'o = {b: 1, aa: 2, c: 3, z9: 4, id: 5};', 'o = {b: 1, b: 2, aa: 3};', 'o = {};',
            'r.aa = [o];', f'{P} o.b;', f'{P} o.aa;', f'{P} q.id;', f'{P} r.c.b;', 'o.b = o.b + 1;', f'{N["delete"]}(r, "aa");', f'{P} (5).b;', f'{P} "s".b;', f'{P} [o].b;', 'r = {k: {b: 1}};']
    return ops

def c12(tier, rng, reps=None):
    ops = obj_ops()
    cases = []
    L = 3 if tier == 'quick' else 4
    reps = reps or (2 if tier == 'quick' else 5)
    for n in range(1, L + 1):
        for seq in itertools.product(ops, repeat=n):
            if n == L and tier == 'quick' and (dh(seq) % 4):
                continue
            src = OBJ_PRE + ''.join(o + '\nshow();\n' for o in seq)
            for k in range(reps if n >= 2 else 1):
                cases.append(prog_case(src, 'op-sequence', group=f's{dh(seq)}'))
    # the key handed to the delete built-in is a plain string: it names at most one property of the object it is given,
    # however much it looks like a path, an index, a pattern or a number
    odd_keys = ['a.b', 'a.b.c', '.a', 'a.', '.', '', ' ', 'a b', 'a[0]', 'a/b', 'a,b', 'a:b', '*', 'a*', '%s', '%v', '0', '1', '-1', '1.5', 'A', 'aa', 'ab', 'nil', 'true', 'length', 'keys', '__proto__', 'constructor',
                'ক', 'ক.খ', N['len'], 'a\u0301', '\u00e1', 'b', 'c']
    for key in odd_keys:
        src = (f'{VAR} inner = {{b: 1, c: {{d: 2}}}};\n{VAR} o = {{a: inner, b: 5, aa: [inner], ক: {{খ: 1}}}};\n{VAR} alias = o.a;\n{P} "before";\n{N["delete"]}(o, "{key}");\n'
               f'{P} o;\n{P} inner;\n{P} alias;\n{P} {N["keys"]}(o);\n{P} "after";\n')
        cases.append(prog_case(src, 'delete-odd-key'))
        cases.append(prog_case(f'{VAR} o = {{a: {{b: 1}}}};\n{VAR} k = "{key}";\n{P} {N["delete"]}(o.a, k);\n{P} o;\n', 'delete-odd-key'))
    # a property that holds a function is called when it is called, whatever its name means to a reader; an absent
    # property is an error on every kind of receiver; nothing is a "method"
    from .words import WORDS
    meth = ['সাইজ', 'লেংথ', 'কাউন্ট', 'পুশ', 'পপ', 'যোগ', 'মুছ', 'কি', 'মান', 'টাইপ', 'স্ট্রিং', 'length', 'size', 'count', 'push', 'pop', 'keys', 'values', 'toString', 'len', 'has', 'get', 'set'] + list(NAT.values()) + WORDS[:25]
    for w in meth:
        src = (f'{FUN} mine() {{ {RET} "called"; }}\n{FUN} mine1(x) {{ {RET} ["called with", x]; }}\n{VAR} o = {{a: 1, b: 2}};\no.{w} = mine;\n{P} o.{w}();\n{P} o.{w} == mine;\n{P} {N["keys"]}(o);\n'
               f'o.{w} = mine1;\n{P} o.{w}(7);\n{VAR} p2 = {{a: 1, b: 2, c: 3}};\n{P} "before";\n{P} p2.{w}();\n{P} "not reached";\n')
        cases.append(prog_case(src, 'called-property'))
        for recv in ['[1, 2, 3]', '"text"', '({a: 1})', '5', 'nil', 'mine']:
            cases.append(prog_case(f'{FUN} mine() {{ {RET} 1; }}\n{P} "before";\n{P} {recv}.{w}();\n{P} "not reached";\n', 'called-property'))
            cases.append(prog_case(f'{FUN} mine() {{ {RET} 1; }}\n{P} "before";\n{P} {recv}.{w};\n{P} "not reached";\n', 'called-property'))
    # literals with 0..6 keys in every order of a 4-key subset
    for n in range(0, 7):
        for ks in itertools.permutations(OKEYS[:6], min(n, 4)) if n <= 4 else [tuple(OKEYS[:n])]:
            lit = '{' + ', '.join(f'{k}: "{k}"' for k in ks) + '}'
            src = f'{VAR} o = {lit};\n{P} o;\n{P} {N["keys"]}(o);\n{P} {N["values"]}(o);\n'
            for k in range(reps):
                cases.append(prog_case(src, 'literal', group=f'l{dh(ks)}'))
    m = 3000 if tier == 'quick' else 80000
    for i in range(m):
        r = rng.fork(i)
        seq = [r.choice(ops) for _ in range(4 + r.below(12))]
        cases.append(prog_case(OBJ_PRE + ''.join(o + '\nshow();\n' for o in seq), 'random-sequence'))
    rule = (f'every sequence of <= {L} of {len(ops)} object operations (write new/existing, delete present/absent, alias, nesting, literals incl. duplicate keys, reads of present/absent properties, `.` on non-objects) over the key pool {OKEYS} '
            f'(different lengths, case-only differences, Bangla), each program printing object, key list and value list after every step and run {reps}x (hash order); literals with 0..6 keys in every order; {m} random sequences. Non-trivial = all.')
    return {'cases': cases, 'rule': rule, 'exhaustive': tier == 'thorough', 'oracles': [oracle_repeat_equal, oracle_keys_values]}

def oracle_repeat_equal(cases):
    bad, groups = [], {}
    for c in cases:
        if c.group:
            groups.setdefault((c.group, c.req), []).append(c)
    for g, cs in groups.items():
        outs = {c.impl for c in cs}
        if len(outs) > 1:
            bad.append((cs[0], f'{len(outs)} different outcomes in {len(cs)} runs of the same program'))
    return bad

def oracle_keys_values(cases):
    """the i-th listed value is the value of the i-th listed key (read off the printed object)"""
    import re
    bad = []
    for c in cases:
        f = fields(c.impl)
        if f.get('F') not in ('00', '01') or 'O' not in f:
            continue
        lines = untext(f['O']).split('\n')
        for i in range(len(lines) - 2):
            m = re.fullmatch(r'map\[(.*)\]', lines[i])
            if m and lines[i + 1].startswith('[') and lines[i + 2].startswith('['):
                body = m.group(1)
                if any(ch in body for ch in '[]') or 'map' in body:
                    continue            # nested values: not parsed here
                pairs = [p.split(':', 1) for p in body.split(' ') if ':' in p]
                if any(len(pr) < 2 or pr[1] == '' for pr in pairs) or '  ' in lines[i + 2] or lines[i + 2] in ('[]', '[ ]') and pairs:
                    continue            # an empty-string value: the printed listing cannot be told from a shorter one
                ks = lines[i + 1][1:-1].split(' ') if lines[i + 1] != '[]' else []
                vs = lines[i + 2][1:-1].split(' ') if lines[i + 2] != '[]' else []
                d = dict(pairs)
                if sorted(ks) != sorted(d) or len(vs) != len(ks) or any(d.get(k) != v_ for k, v_ in zip(ks, vs)):
                    bad.append((c, f'keys {lines[i + 1]} / values {lines[i + 2]} do not list {lines[i]} consistently'))
                    break
    return bad

def c13(tier, rng):
    """determinism: repeated runs in one process and across fresh processes"""
    import glob as _g
    reps = 6 if tier == 'quick' else 30
    cases, cli = [], []
    progs = []
    ops = obj_ops()
    for i in range(150 if tier == 'quick' else 1500):
        r = rng.fork(i)
        progs.append(OBJ_PRE + ''.join(o + '\nshow();\n' for o in [r.choice(ops) for _ in range(3 + r.below(8))]))
    # initialisers with side effects, in source order
    for ks in itertools.permutations(['b', 'aa', 'ID', 'id', 'c'], 4):
        progs.append(f'{FUN} t(k) {{ {P} k; {RET} k; }}\n{VAR} o = {{' + ', '.join(f'{k}: t("{k}")' for k in ks) + f'}};\n{P} o;\n{P} {N["keys"]}(o);\n{P} {N["values"]}(o);\n')
    for i in range(100 if tier == 'quick' else 1500):
        progs.append(r_prog(random_program(rng.fork(5000 + i), 4 + rng.below(10), 3, err=10)))
    for f in sorted(_g.glob('/repo/example/*.bn')):
        t = open(f, encoding='utf-8').read()
        if NAT['clock'] not in t:
            progs.append(t)
    # programs that overwrite whatever a run could conceivably leave behind for the next one in the same process:
    # every built-in name, the program's own globals, a runtime error followed by nothing
    for name in NAT.values():
        progs.append(f'{P} {name};\n{name} = 7;\n{P} {name};\n')
        progs.append(f'{name} = nil;\n{P} {name};\n{P} {N["len"]}([1, 2, 3]);\n{P} {N["max"]}(1, 2);\n')
    progs.append(f'{VAR} g = 1;\n{FUN} bump() {{ g = g + 1; {RET} g; }}\n{P} bump();\n{P} bump();\n{P} nope;\n')
    progs.append(f'{P} "before";\n{P} 1 / 0;\n')
    progs.append(f'{P} {N["input"]}("? ");\n{P} {N["input"]}();\n')
    for j, src in enumerate(progs):
        for k in range(reps):
            cases.append(prog_case(src, 'repeat-in-process', stdin=b'7\nx\n', group=f'p{j}'))
        if j % (3 if tier == 'quick' else 1) == 0:
            for k in range(reps // 2):
                cli.append(CliCase('repeat-fresh-process', ['p.bn'], {'p.bn': src.encode()}, b'7\nx\n', 'p.bn', note=j))
    rule = (f'{len(progs)} programs (object-operation sequences over a key pool with case-only and length differences, object literals whose initialisers print, random programs, the shipped examples without ক্লক, programs that overwrite every built-in name or end in an error) '
            f'each run {reps}x in one process and {reps // 2}x in fresh processes; stdout, stderr and status must be byte-identical across runs and equal to the model. Non-trivial = all.')
    cli += long_loop_cases()
    # dense printing for longer than a second: every run writes the same bytes (a background flusher, a timer, a buffer
    # shared with another goroutine show up as truncated or reordered output in some run)
    dense = f'{VAR} i = 0;\n{WHILE} (i < 1200000) {{ i = i + 1; {P} i; }}\n{P} "end";\n'
    dense_out = ''.join(go_v(j) + '\n' for j in range(1, 1200001)) + 'end\n'
    for k in range(3):
        cli.append(CliCase('impl-only-dense-output', ['p.bn'], {'p.bn': dense.encode()}, b'', 'p.bn',
                           note={'out': dense_out, 'err': '', 'status': 0}))
    return {'cases': cases, 'cli': cli, 'rule': rule + ' Three loops of 2.5 to 6 million iterations through the executable (implementation alone: the prescribed output).', 'exhaustive': False,
            'oracles': [oracle_repeat_equal], 'cli_oracles': [cli_oracle_repeat, cli_oracle_expect], 'cli_timeout': 90}

def cli_oracle_repeat(clis):
    bad, groups = [], {}
    for c in clis:
        if c.label == 'repeat-fresh-process':
            groups.setdefault(c.note, []).append(c)
    for g, cs in groups.items():
        outs = {(c.out, c.err, c.status) for c in cs}
        if len(outs) > 1:
            bad.append((cs[0], f'{len(outs)} different outcomes in {len(cs)} fresh processes'))
    return bad

# ---------------------------------------------------------------- C14

PROBE_PRE = (f'{FUN} p(tag, v) {{ {P} "<" + tag + ">"; {RET} v; }}\n{FUN} f0() {{ {RET} 0; }}\n{FUN} id3(a, b, c) {{ {RET} [a, b, c]; }}\n'
             f'{VAR} A = [10, 20, 30];\n{VAR} O = {{k: 1}};\n{VAR} x = 0;\n')
TRUTH_VALUES = ['"' + KW['false'] + '"', '"' + KW['true'] + '"', '"false"', '"true"', '"nil"', '"null"', '"না"', '"no"', '"off"', '"[]"', '"{}"', '"0.0"', '"-0"', '"NaN"', '"\u09e6"',
                'nil', FALSE, TRUE, '0', '(-0)', '(10 ** 400 - 10 ** 400)', '1', '0.5', '""', '"a"', '"0"', '" "', '[]', '[0]', '{}', '({p: 1})', 'f0', N['len'], '(0 * (0 - 1))',
                '(0.1 + 0.2 - 0.3)', '(0.3 - 0.1 - 0.2)', '0.000000000000000001', '(-0.0000000000000000000000001)', '0.' + '0' * 323 + '5', '(1 / (10 ** 300))', '(10 ** 400)']

def c14(tier, rng):
    cases = []
    allops = [op for ops in LADDER for op in ops]
    pv = lambda t, val: f'p("{t}", {val})'
    exprs = []
    for op in allops:
        exprs.append(f'{pv("L", 6)} {op} {pv("R", 3)}')
        exprs.append(f'{pv("L", 6)} {op} {pv("M", 2)} {op} {pv("R", 1)}')
        exprs.append(f'({pv("L", 6)} {op} {pv("M", 2)}) {op} ({pv("R", 1)} {op} {pv("S", 1)})')
        for op2 in ['+', '*', '==', '&&', '||']:
            exprs.append(f'{pv("a", 1)} {op} {pv("b", 2)} {op2} {pv("c", 3)}')
            exprs.append(f'{pv("a", 1)} {op2} {pv("b", 2)} {op} {pv("c", 3)}')
    for u in UNARY:
        exprs.append(f'{u}{pv("U", 1)}')
        exprs.append(f'{u}{pv("U", 1)} + {u}{pv("V", 2)}')
    exprs += [
        f'{pv("callee", "id3")}({pv("a1", 1)}, {pv("a2", 2)}, {pv("a3", 3)})',
        f'id3({pv("a1", 1)}, id3({pv("b1", 1)}, {pv("b2", 2)}, {pv("b3", 3)}), {pv("a3", 3)})',
        f'[{pv("e1", 1)}, {pv("e2", 2)}, [{pv("e3", 3)}, {pv("e4", 4)}]]',
        f'{{b: {pv("vb", 1)}, aa: {pv("vaa", 2)}, c: {pv("vc", 3)}}}'.join(['(', ')']),
        f'({{k: {pv("first", 1)}, m: {pv("mid", 2)}, k: {pv("last", 3)}}})',
        f'{pv("arr", "A")}[{pv("idx", 1)}]',
        f'{pv("arr", "A")}[{pv("idx", 1)}] = {pv("val", 99)}',
        f'{pv("arr", "[[1], [2]]")}[{pv("i", 1)}][{pv("j", 0)}]',
        f'{pv("obj", "O")}.k',
        f'{pv("obj", "O")}.k = {pv("val", 5)}',
        f'x = {pv("val", 7)}',
        f'x = A[{pv("i", 0)}] = {pv("v", 8)}',
        f'A[x] = (x = x + 2)',
        f'A[{pv("i", 0)}] = A[{pv("j", 1)}] = {pv("v", 3)}',
        f'{pv("l", 1)} + (x = {pv("r", 2)}) + x',
        f'({pv("g", 1)})',
        f'{pv("callee", "id3")}({pv("a1", 1)})',
        f'{pv("notfn", 3)}({pv("a1", 1)})',
        f'{N["max"]}({pv("m1", 1)}, {pv("m2", 5)}, {pv("m3", 2)})',
        f'{N["append"]}({pv("arr", "A")}, {pv("x1", 1)}, {pv("x2", 2)})',
    ]
    # an operand that is a constant invites a special case: every operator with a notable constant on one side and, on
    # the other, an operand whose evaluation is observable at depth two (probes inside a subscript, an argument, a store)
    consts = ['0', '1', '2', '3', '0.5', '(-1)', '10', '"x"', 'nil', TRUE]
    deep = [f'A[{pv("i", 0)} + {pv("j", 1)}]', f'A[x + (x = x + 1)]', f'{N["abs"]}({pv("a", 1)} + {pv("b", 1)})', f'[{pv("e", 4)}, 5][{pv("k", 0)} * {pv("m", 1)}]', f'(O.k = {pv("s", 7)})']
    for op in allops:
        for cst in (consts if tier == 'thorough' else consts[:7]):
            for d_ in deep:
                exprs.append(f'{d_} {op} {cst}')
                exprs.append(f'{cst} {op} {d_}')
    for e in exprs:
        cases.append(prog_case(PROBE_PRE + f'{P} {e};\n{P} x;\n{P} A;\n{P} O;\n', 'probe-order'))
    # short circuit and truthiness, every value kind on the left
    for v_ in TRUTH_VALUES:
        for op in ['||', '&&', KW['or'], KW['and']]:
            cases.append(prog_case(PROBE_PRE + f'{P} {pv("L", v_)} {op} {pv("R", chr(34) + "right" + chr(34))};\n', 'short-circuit'))
            cases.append(prog_case(PROBE_PRE + f'{P} {pv("L", v_)} {op} {pv("M", v_)} {op} {pv("R", 9)};\n', 'short-circuit'))
        cases.append(prog_case(PROBE_PRE + f'{P} !{v_};\n{P} !!{v_};\n{IF} ({v_}) {P} "T"; {ELSE} {P} "F";\n{VAR} n = 0;\n{WHILE} ({v_}) {{ n = n + 1; {IF} (n > 1) {BRK}; }}\n{P} n;\n'
                               f'{FOR} (n = 0; {v_}; n = n + 1) {{ {IF} (n > 1) {BRK}; }}\n{P} n;\n{P} ({v_}) || "or";\n{P} ({v_}) && "and";\n', 'truthiness'))
    # statements: conditions and loop clauses are evaluated the right number of times
    cases.append(prog_case(PROBE_PRE + f'{FOR} ({VAR} i = {pv("init", 0)}; {pv("cond", "i < 2")}; i = {pv("inc", "i + 1")}) {{ {P} "body"; }}\n', 'loop-clauses'))
    cases.append(prog_case(PROBE_PRE + f'{VAR} i = 0;\n{WHILE} ({pv("cond", "i < 2")}) {{ i = i + 1; {P} "body"; }}\n', 'loop-clauses'))
    cases.append(prog_case(PROBE_PRE + f'{IF} ({pv("c", 0)}) {P} "t"; {ELSE} {P} "e";\n{VAR} a = {pv("i1", 1)}, b = {pv("i2", 2)};\n{P} a + b;\n', 'loop-clauses'))
    n = 1500 if tier == 'quick' else 40000
    leaves = ['1', '2', '0', '"s"', 'nil', TRUE, FALSE, 'A', '[]']
    for i in range(n):
        r = rng.fork(i)
        cnt = [0]
        def ex(d):
            cnt[0] += 1
            t = f't{cnt[0]}'
            if d == 0 or r.chance(1, 4):
                return pv(t, r.choice(leaves))
            k = r.below(7)
            if k <= 2:
                return f'({ex(d - 1)} {r.choice(allops)} {ex(d - 1)})'
            if k == 3:
                return f'id3({ex(d - 1)}, {ex(d - 1)}, {ex(d - 1)})'
            if k == 4:
                return f'[{ex(d - 1)}, {ex(d - 1)}]'
            if k == 5:
                return f'{r.choice(UNARY)}{ex(d - 1)}'
            return f'({{b: {ex(d - 1)}, aa: {ex(d - 1)}}})'
        cases.append(prog_case(PROBE_PRE + f'{P} {ex(2 + r.below(2))};\n', 'random-probes'))
    rule = (f'{len(exprs)} expression shapes whose every operand, argument, element, initialiser, index and callee is a probe that prints its tag (each binary operator alone, chained, grouped, and paired with 5 others; calls; literals incl. duplicate keys; '
            f'index / indexed store / property store / assignment chains); short-circuit and truthiness with {len(TRUTH_VALUES)} left values of every kind under symbol and word operators, !, if, while, for; loop clause counts; {n} random probe trees of depth 2..3. Non-trivial = all.')
    return {'cases': cases, 'rule': rule, 'exhaustive': True}

# ---------------------------------------------------------------- C15

def c15(tier, rng):
    import struct
    from .numcheck import BOUNDARY_BITS
    cases = []
    def lit(bits_):
        x = struct.unpack('>d', struct.pack('>Q', bits_))[0]
        if x != x or x in (float('inf'), float('-inf')):
            return None
        e = (bits_ >> 52) & 0x7FF
        if e > 1023 + 200 or (e < 1023 - 200 and e != 0):
            return None
        if e == 0 and (bits_ & ((1 << 52) - 1)) != 0:
            return None
        return dec_of_bits(bits_)
    bitsl = list(BOUNDARY_BITS)
    for k in range(-30, 31):
        bitsl.append(struct.unpack('>Q', struct.pack('>d', 10.0 ** k))[0])
        bitsl.append(struct.unpack('>Q', struct.pack('>d', 10.0 ** k))[0] + 1)
        bitsl.append(struct.unpack('>Q', struct.pack('>d', 10.0 ** k))[0] - 1)
    for x in [999999.0, 1000000.0, 999999.5, 1e21, 1e20, 123456789.0, 0.0001, 0.00001, 0.000099999, 2.0 ** 53 + 2, 2.0 ** 53 - 1, 0.1 + 0.2, 1 / 3, 100.0, 1e5, 123456.0, 1234567.0, 5e-5, 12345678901234567890.0]:
        bitsl.append(struct.unpack('>Q', struct.pack('>d', x))[0])
    n = 6000 if tier == 'quick' else 300000
    for i in range(n):
        r = rng.fork(i)
        e = 1023 + r.below(160) - 80
        m = r.next() & ((1 << 52) - 1)
        if r.chance(1, 3):
            m &= ~((1 << r.below(52)) - 1)
        bitsl.append((r.below(2) << 63) | (e << 52) | m)
    for b_ in bitsl:
        l = lit(b_)
        if l is None:
            continue
        cases.append(prog_case(f'{P} {l};\n{P} "" + {l};\n{P} {l} + "";\n{P} [{l}];\n{P} {{k: {l}}};\n', 'number', note=b_))
    for e in ['10 ** 400', '-(10 ** 400)', '10 ** 400 - 10 ** 400', '-0', '0 * -1', '1 / 3', '7 & 3', '1 << 40', '~0', '1 << 62', '1 << 63', '1 << 64', '100000000 | 0', '2 ** 70']:
        cases.append(prog_case(f'{P} {e};\n{P} "" + ({e});\n{P} [{e}];\n', 'number-expr'))
    # strings: Latin, Bangla letters, combining marks, every Bengali-block code point, decomposable characters
    beng = [chr(c) for c in range(0x0980, 0x0A00)]
    special = ['\u09dc', '\u09dd', '\u09df', '\u09cb', '\u09cc', '\u09c7\u09be', '\u09c7\u09d7', '\u09a1\u09bc', '\u09a2\u09bc', '\u09af\u09bc',
               '\u00e9', 'e\u0301', 'a\u0300\u0301', 'a\u0301\u0300', 'a\u0323\u0301', 'a\u0301\u0323', '\u1ea1\u0301',
               '\u212b', '\u2126', '\u1e9b\u0323', '\uac00', '\u1100\u1161', '\u1100\u1161\u11a8', '\ud55c', 'q\u0307\u0323', '\u0958', '\ufb1d', '\u0340', '\u0344',
               '\u0f73', '\U0001d15e', '\u09bc', '\u09cd', '\u09be', '\u0915\u093c', '\u09c7\u09cd\u09be', '\u0995\u09c7\u09bc\u09be']
    strs = ['', 'a', 'abc', 'x y', 'tab\tin', 'line\nbreak', 'বাংলা', 'কি', 'ক্ষ', 'é', '\U0001F600', '<nil>', 'nil', 'true', '[1 2]', 'map[a:1]', '1e+06', ' ', '\\n', "'"] + special
    for c in beng:
        strs.append(c)
        strs.append('ক' + c)
        # conjunct and joiner spellings: letter + hasant + joiner, joiner + letter, letter + hasant + letter
        for j in ['\u200d', '\u200c']:
            strs.append(c + '\u09cd' + j); strs.append(j + c); strs.append(c + j + '\u09af')
        for d in ['\u09af', '\u09b0', '\u09a4', '\u09b7']:
            strs.append(c + '\u09cd' + d)
    # line-break and control characters inside a string are characters like any other
    for sp_ in ['%', '%d', '%s', '%v', '%%', '100%', '% off', '%!', '%5.2f', '%!d(MISSING)', '{}', '{0}', '$1', '${x}', '\\', '\\n', '\\t', '&amp;', '<b>', '\x1b[0m']:
        strs.append(sp_); strs.append('a' + sp_ + 'b')
    for brk in ['\r\n', '\r', '\n\r', '\n\n', '\r\r\n', '\t\r\n', '\x0b', '\x0c', '\x00', '\x1b', '\x7f', '\u0085', '\u2028', '\u2029', '\ufeff', '\u00a0', '\u00ad', '\u200b', '\u200e', '\u202e', '\ufffd', '\ufffe']:
        strs.append('ab' + brk + 'cd'); strs.append(brk); strs.append(brk + 'x'); strs.append('x' + brk)
    if tier == 'thorough':
        for a in special:
            for c in beng:
                strs.append(a + c); strs.append(c + a)
    else:
        for a in ['\u09c7', '\u09be', '\u09d7', '\u09bc', '\u09af', '\u09a1', '\u09a2']:
            for c in ['\u09c7', '\u09be', '\u09d7', '\u09bc', '\u09cd', '\u09af', '\u0981']:
                strs.append(a + c); strs.append('\u0995' + a + c)
    for s_ in strs:
        if '"' in s_:
            continue
        q = '"' + s_ + '"'
        cases.append(prog_case(f'{P} {q};\n{P} [{q}, {q}];\n{P} {{k: {q}}};\n{P} "" + {q};\n{P} {q} + 1;\n{P} [[{q}]];\n', 'string', note=s_))
        cases.append(prog_case(f'{P} 50 + {q};\n{P} 12.5 + {q} + 1;\n{P} [0 + {q}];\n{P} (1 + {q}) == ("1" + {q});\n', 'number-then-string', note=s_))
    cases.append(prog_case(f'{P} nil;\n{P} {TRUE};\n{P} {FALSE};\n{P} [nil, {TRUE}, {FALSE}, [], {{}}];\n{P} {{b: nil, aa: [1, "x", {{c: 2}}]}};\n{FUN} fn() {{}}\n{P} fn;\n{P} [fn, {N["len"]}, {N["clock"]}];\n{P} {N["input"]};\n', 'constants'))
    cases.append(prog_case(f'{P} 1;{P} 2;\n{P} "a\nb";\n', 'newline-per-print'))
    for blk in ([1024, 4096, 8192] if tier == 'quick' else [256, 512, 1024, 2048, 4096, 8192, 16384, 65536]):
        for off in range(-4, 2):
            for pair in ['e\u0301', '\u09c7\u09be', '\u09af\u09bc', 'a\u0323\u0301']:
                body = 'a' * (blk + off) + pair + 'z'
                cases.append(prog_case(f'{P} "{body}";\n', 'long-string', note=body))
                if blk + off < 6000:        # the model's fuel bounds the loop length
                    cases.append(prog_case(f'{VAR} s = "";\n{FOR} ({VAR} i = 0; i < {blk + off}; i = i + 1) {{ s = s + "a"; }}\n{P} s + "{pair}" + "z";\n{P} [s + "{pair}"];\n', 'long-string-grown'))
    # several values in one run: what one print shows must not depend on what was printed before
    # (values that compare equal but print differently, repeated values, the same value in different positions)
    seqs = [['0', '-0'], ['-0', '0'], ['0', '-0', '0', '[0, -0]', '[-0, 0]', '"" + (-0)', '"" + 0'], ['1', '1.0', '"1"', '1'], ['"a"', '"a"', '["a"]', '"a"'],
            ['1000000', '999999', '1000000', '"" + 1000000'], ['0.1 + 0.2', '0.3', '0.1 + 0.2'], ['[]', '[]', '{}', '{}'], ['nil', '[nil]', 'nil'],
            ['10 ** 400', '-(10 ** 400)', '10 ** 400'], ['10 ** 400 - 10 ** 400', '0', '10 ** 400 - 10 ** 400']]
    for sq in seqs:
        cases.append(prog_case(''.join(f'{P} {e};\n' for e in sq), 'print-sequence'))
    lits = [l for l in (lit(b_) for b_ in bitsl[:400]) if l is not None]
    for i in range(200 if tier == 'quick' else 5000):
        r = rng.fork(900000 + i)
        sq = [r.choice(lits) for _ in range(2 + r.below(5))]
        sq = sq + sq[:2]
        cases.append(prog_case(''.join(f'{P} {e};\n' for e in sq), 'print-sequence'))
    rule = (f'{len(bitsl)} doubles (boundary list, powers of ten +-1 ulp around both exponent switches, {n} seeded random, written as exact decimal literals) printed alone, spliced by + on either side, and inside an array and an object; '
            f'{len(strs)} strings (Latin, Bangla, combining-mark orders, Hangul, singletons, every Bengali-block code point alone, after a consonant, before hasant + ZWJ / ZWNJ / ya / ra / ta / ssa and after a joiner; CR LF and 20 other line-break / control / format characters inside a string; pairs around the decomposable characters) printed alone, nested, and concatenated; constants and callables; sequences of prints in one run (signed zeros in both orders, repeated and equal-but-differently-written values, random sequences). '
            'Checked on the implementation alone: printing is NFC-idempotent for the repertoire, number text re-reads to the same double, "" + v equals the printed text. Non-trivial = all.')
    # what a print statement wrote is on stdout the moment it ran — also when the run later ends badly or is killed
    from .runner import CliCase
    cli = []
    head = ''.join(f'{P} "line{i}";\n' for i in range(5))
    for nm, tail_ in [('endless-loop', f'{VAR} i = 0;\n{WHILE} ({TRUE}) {{ i = i + 1; }}\n'), ('endless-printing', f'{VAR} i = 0;\n{WHILE} ({TRUE}) {{ i = i + 1; {IF} (i % 100000 == 0) {{ {P} i; }} }}\n'),
                      ('unbounded-recursion', f'{FUN} r(n) {{ {RET} r(n + 1) + 1; }}\n{P} r(0);\n'), ('cyclic-print', f'{VAR} a = [1];\na[0] = a;\n{P} a;\n'),
                      ('runtime-error', f'{P} nope;\n'), ('waits-for-input', f'{P} {N["input"]}("? ");\n{WHILE} ({TRUE}) {{ }}\n')]:
        cli.append(CliCase('impl-only-output-before-bad-end', ['p.bn'], {'p.bn': (head + tail_).encode()}, b'', 'p.bn', note={'prefix': ''.join(f'line{i}\n' for i in range(5)), 'name': nm}))
    return {'cases': cases, 'cli': cli, 'cli_oracles': [cli_oracle_prefix], 'cli_timeout': 6, 'rule': rule + ' Six scripts that print five lines and then never end, exhaust the stack, print a cyclic value, fail, or wait: the five lines are on stdout whatever happens next (executable alone).',
            'exhaustive': False, 'oracles': [oracle_c15]}

def cli_oracle_prefix(clis):
    bad = []
    for c in clis:
        if c.label == 'impl-only-output-before-bad-end' and not c.out.startswith(c.note['prefix'].encode()):
            bad.append((c, f'{c.note["name"]}: stdout starts {c.out[:60]!r}; the five lines printed before are missing'))
    return bad

def oracle_c15(cases):
    import struct, unicodedata
    bad = []
    for c in cases:
        f = fields(c.impl)
        if f.get('F') != '00' or 'O' not in f:
            continue
        out = untext(f['O'])
        lines = out.split('\n')
        if c.label == 'number':
            x = struct.unpack('>d', struct.pack('>Q', c.note))[0]
            try:
                if float(lines[0].replace('+Inf', 'inf').replace('-Inf', '-inf')) != x and not (x != x):
                    bad.append((c, f'{lines[0]!r} does not read back as the printed double')); continue
            except ValueError:
                bad.append((c, f'unreadable numeral {lines[0]!r}')); continue
            if abs(x) < 1e6 and x == int(x) and x != 0 and any(ch in lines[0] for ch in 'e.'):
                bad.append((c, f'integer below one million printed as {lines[0]!r}'))
            if not (lines[1] == lines[0] and lines[2] == lines[0] and lines[3] == '[' + lines[0] + ']' and lines[4] == 'map[k:' + lines[0] + ']'):
                bad.append((c, f'print and + disagree: {lines[:5]}'))
        elif c.label == 'string':
            s_ = c.note
            if '\n' in s_:
                continue
            if all(ord(ch) < 0x3000 for ch in s_):
                nf = unicodedata.normalize('NFC', s_)
                if lines[0] != nf:
                    bad.append((c, f'printed {[hex(ord(ch)) for ch in lines[0]]}, NFC of the string is {[hex(ord(ch)) for ch in nf]}')); continue
                if lines[1] != f'[{nf} {nf}]' and ' ' not in s_:
                    bad.append((c, 'the string is printed differently inside an array'))
                if lines[2] != f'map[k:{nf}]':
                    bad.append((c, 'the string is printed differently inside an object'))
            if lines[3] != lines[0]:
                bad.append((c, '"" + s prints differently from s'))
    return bad

# ---------------------------------------------------------------- C16

def c16(tier, rng):
    pre = (f'{FUN} rs(v) {{ {RET} v; }}\n{VAR} T = [10, 20, 30, 40, 50];\n{VAR} OB = {{abc: "yes", k: 1}};\n')
    def str_producers(lit):
        q = '"' + lit + '"'
        half = len(lit) // 2
        ps = [q, f'("{lit[:half]}" + "{lit[half:]}")', f'({{k: {q}}}).k', f'[{q}][0]', f'rs({q})', f'({q} || 0)', f'{N["input"]}()', f'{N["keys"]}({{{lit}: 1}})[0]' if lit.isidentifier() else q,
              f'{N["values"]}({{k: {q}}})[0]', f'("" + {q})', f'({q} + "")',
              # every built-in and construct a value can pass through unchanged
              f'{N["append"]}([], {q})[0]', f'{N["append"]}([{q}], 1)[0]', f'{N["remove"]}([{q}, 1], 1)[0]', f'{N["remove"]}([1, {q}], 0)[0]', f'({TRUE} && {q})', f'(nil || {q})',
              f'[[{q}]][0][0]', f'({{a: {{b: {q}}}}}).a.b', f'rs(rs({q}))']
        if lit.isascii() and lit.isdigit() and not (len(lit) > 1 and lit[0] == '0'):
            ps += [f'("" + {lit})', f'({lit} + "")', f'("" + ({lit} + 0))']      # the text of a number is the string
        if lit[:2].isdigit() and not lit.isdigit():
            ps += [f'({lit[:2]} + "{lit[2:]}")', f'({lit[:1]} + "{lit[1:]}")', f'(("" + {lit[:2]}) + "{lit[2:]}")']      # a number spliced in front
        if any(ch in lit for ch in '\r\n') or lit != lit.strip():
            ps = [p_ for p_ in ps if N['input'] not in p_]      # not one stdin line / trimmed by ইনপুট
            ps += [f'("{lit[:1]}" + "{lit[1:]}")', f'("{lit[:-1]}" + "{lit[-1:]}")'] + [f'("{lit[:k]}" + "{lit[k:]}")' for k in range(1, len(lit)) if lit[k - 1] in '\r\n\t ' or lit[k] in '\r\n\t ']
        return ps
    def num_producers(n):
        ps = [str(n), f'({n - 1} + 1)', f'({n} & {n})', f'({n} | 0)', f'({n} ^ 0)', f'(~(~{n}))', f'({n * 2} >> 1)', f'({n * 4} / 4)', f'{N["round"]}({n}.2)', f'{N["abs"]}(0 - {n})',
              f'{N["max"]}({n}, 0)', f'rs({n})', f'[{n}][0]', f'({{k: {n}}}).k', f'({n} % {n * 7})', f'(-(0 - {n}))']
        if n == 3:
            ps += [f'{N["len"]}([0, 0, 0])', f'({N["sqrt"]}(9))', '(7 & 3)', '(1 | 2)']
        if n > 0 and (n & (n - 1)) == 0:
            k = n.bit_length() - 1
            ps += [f'(1 << {k})', f'(2 ** {k})']
        if n % 2 == 0:
            ps.append(f'({n // 2} << 1)')
        return ps
    contexts = [
        '{P} H;', '{P} [H];', '{P} [[H], H];', '{P} {k: H};', '{P} H == H2;', '{P} H != H2;', '{P} H2 == H;', '{IF} (H) {P} "T"; {ELSE} {P} "F";', '{P} !H;', '{P} H || "alt";', '{P} H && "alt";',
        '{P} T[H];', 'T[H] = 1; {P} T;', '{P} "" + H;', '{P} H + "";', '{P} H + H;', '{P} H + 1;', '{P} 1 + H;', '{P} H - 1;', '{P} 2 * H;', '{P} H / 2;', '{P} 7 % H;', '{P} H ** 2;', '{P} H < 2;', '{P} H >= H2;',
        '{P} H & 1;', '{P} 1 | H;', '{P} H ^ H;', '{P} 1 << H;', '{P} H >> 1;', '{P} -H;', '{P} ~H;', '{P} {LEN}(H);', '{P} {MIN}(H, 5);', '{P} {MAX}([H, 1]);', '{P} {ABS}(H);', '{P} {SQRT}(H);', '{P} {ROUND}(H);',
        '{P} {POW}(H, 2);', '{P} {AP}(T, H);', '{P} {RM}(T, H);', '{P} {DEL}(OB, H);', '{P} {INP}(H);', '{VAR} w = H; {P} w; {P} [w, w];', '{P} rs(H) == H2;', '{P} {KEYS}({k: H});', '{P} {VALS}({k: H});', '{P} H(1);', '{P} H.k;',
    ]
    sub = lambda s_: (s_.replace('{P}', P).replace('{IF}', IF).replace('{ELSE}', ELSE).replace('{VAR}', VAR).replace('{LEN}', N['len']).replace('{MIN}', N['min']).replace('{MAX}', N['max'])
                      .replace('{ABS}', N['abs']).replace('{SQRT}', N['sqrt']).replace('{ROUND}', N['round']).replace('{POW}', N['pow']).replace('{AP}', N['append']).replace('{RM}', N['remove'])
                      .replace('{DEL}', N['delete']).replace('{INP}', N['input']).replace('{KEYS}', N['keys']).replace('{VALS}', N['values']))
    cases = []
    def emit(kind, value, producers, lit_text, stdin):
        for ci, ctx in enumerate(contexts):
            for pi, prod in enumerate(producers):
                if N['input'] in prod and ('{INP}' in ctx or ctx.replace('H2', '').count('H') > 1):
                    continue        # two reads in one program: not the same stdin position
                src = pre + sub(ctx).replace('H2', lit_text).replace('H', prod) + '\n'
                cases.append(prog_case(src, f'{kind}-context', stdin=stdin, group=f'{kind}:{value}:{ci}', note=(pi, prod)))
    for lit in ['abc', '', '12', '3', 'k', '০৭', 'a b', '50%', '% off', '%d', '{}', 'a\\b', 'ন\u09df', 'প\u09dc\u09be', 'cafe\u0301', 'ম\u09c7\u09beট', 'ab\r\ncd', 'x\ny', 'a\rb', 'a\tb', ' pad ', 'q\n', '\r\n']:
        ps = str_producers(lit) if lit else ['""', '("" + "")', '({k: ""}).k', '[""][0]', 'rs("")', f'{N["input"]}()']
        emit('string', lit, ps, '"' + lit + '"', (lit + '\nsecond\n').encode())
    for n in ([3, 8, 1000000, 2097152] if tier == 'quick' else [3, 8, 1, 0, 64, 1000000, 2097152, 4294967296, 100000000]):
        ps = num_producers(n) if n else ['0', '(1 - 1)', '(5 & 2)', '(0 | 0)', f'{N["len"]}([])', f'{N["round"]}(0.2)', 'rs(0)', '(7 ^ 7)', '(1 >> 1)']
        emit('number', n, ps, str(n), b'x\ny\n')
    # numbers that are not non-negative integers: fractions, negatives, zero written several ways
    def frac_producers(t):
        return [t, f'({t} + 0)', f'(2 * {t} / 2)', f'rs({t})', f'[{t}][0]', f'({{k: {t}}}).k', f'(0 - (0 - {t}))', f'{N["max"]}({t}, {t})', f'({t} * 1)', f'(("" + {t}) * 1)']
    for t in (['1.5', '(-1)', '0', '2.5'] if tier == 'quick' else ['1.5', '(-1)', '0', '2.5', '0.5', '(-0.5)', '(-2)', '4.000001', '1000000000000000000000', '0.1']):
        emit('number', t, frac_producers(t), t, b'x\ny\n')
    rule = (f'{len(contexts)} one-hole contexts (print alone / nested, both sides of ==, condition, !, ||, &&, index, key, every operator position, every built-in argument, callee, property base) x 18 strings (incl. strings with CR LF, LF, CR, TAB inside and padded ones) and {8 if tier == "quick" else 19} numbers (non-negative integers, fractions, negatives, zero), '
            'each produced 6..20 ways (literal, concatenation, property, element, function result, ইনপুট, keys/values listing; arithmetic, every bitwise operator, shifts, built-ins); all producers of one value must behave identically in each context (implementation alone) and as the model says. Non-trivial = all.')
    return {'cases': cases, 'rule': rule, 'exhaustive': True, 'oracles': [oracle_same_in_group]}

def oracle_same_in_group(cases):
    bad, groups = [], {}
    for c in cases:
        if c.group:
            groups.setdefault(c.group, []).append(c)
    for g, cs in groups.items():
        ref = cs[0]
        for c in cs[1:]:
            a, b_ = fields(ref.impl), fields(c.impl)
            if (a.get('O'), a.get('E'), a.get('F')) != (b_.get('O'), b_.get('E'), b_.get('F')) or ref.impl.split('\t')[0].split(':')[0] != c.impl.split('\t')[0].split(':')[0]:
                bad.append((c, f'the value produced as {c.note[1]} behaves differently from the same value produced as {ref.note[1]}'))
                break
    return bad

# ---------------------------------------------------------------- C17

NUM_ARGS = ['0', '(-0)', '0.5', '(-0.5)', '1.5', '(-1.5)', '2.5', '(-2.5)', '0.49999999999999994', '4503599627370496.5', '4503599627370497', '9007199254740993', '1' + '0' * 308, '5e', '(10 ** 400)', '(-(10 ** 400))',
            '(10 ** 400 - 10 ** 400)', '4', '2', '16', '0.25', '(-4)', '3', '(-3)', '1', '(-1)', '"9"', '"2.5"', '"x"', '1000000', '0.1']

def c17(tier, rng):
    import struct
    cases = []
    args = [a for a in NUM_ARGS if a != '5e']
    kinds = ['nil', TRUE, '"s"', '"4"', '[]', '[1, 2]', '[3, "1", 2]', '{}', 'f', N['abs']]
    pre = f'{FUN} f() {{}}\n'
    one = ['abs', 'round', 'sqrt']
    for name in one:
        for a in args + kinds:
            cases.append(prog_case(pre + f'{P} {N[name]}({a});\n', 'exact-unary'))
    # sin / cos / tan / pow: exactly representable cases only (the platform's accuracy is not modelled)
    for name in ('sin', 'cos', 'tan'):
        for a in ['0', '(-0)', '"0"', 'nil', '[]', '(10 ** 400)', '(10 ** 400 - 10 ** 400)'] + kinds:
            cases.append(prog_case(pre + f'{P} {N[name]}({a});\n', 'platform-unary'))
    for name in ('sin', 'cos', 'tan'):
        for a in ['1.5707963267948966', '1.5707963267948968', '1.5707963267948963', '3.141592653589793', '4.71238898038469', '6.283185307179586', '0.7853981633974483',
                  '(-1.5707963267948966)', '1.5707963267948966 * 3', '1.5707963267948966 * 5', '0.5', '1', '2', '100', '1000000', '0.000001', '(0.1 + 0.2)']:
            cases.append(prog_case(pre + f'{P} {N[name]}({a});\n', 'platform-notable'))
    for a in ['0', '1', '2', '3', '(-2)', '10', '0.5', '"2"', 'nil', '4', '(-1)']:
        for b_ in ['0', '1', '2', '3', '(-1)', '(-2)', '"2"', 'nil', '10']:
            cases.append(prog_case(pre + f'{P} {N["pow"]}({a}, {b_});\n{P} {a} ** {b_};\n{P} {N["pow"]}({a}, {b_}) == {a} ** {b_};\n', 'pow-equals-operator'))
    # the built-in and the operator must be the same function of the same arguments, whatever the platform's pow gives
    # (compared through their printed text, so NaN results compare equal too)
    for a in ['2', '10', '0.5', '(-2)', '1.5', '(-0.5)', '0', '(-0)', '1', '(-1)', '3', '0.001', '(10 ** 300)', '(10 ** 400)', '(-(10 ** 400))', '"2"']:
        for b_ in ['(-1075)', '(-1074)', '(-1022)', '(-324)', '(-310)', '(-308)', '(-53)', '(-3)', '(-1)', '(-0.5)', '0', '0.5', '1', '2', '3', '53', '308', '309', '1023', '1024', '(10 ** 400)', '(-(10 ** 400))', '(10 ** -300)', '2.5', '"3"']:
            cases.append(prog_case(pre + f'{P} ("" + {N["pow"]}({a}, {b_})) == ("" + ({a} ** {b_}));\n', 'pow-builtin-vs-operator'))
    # every built-in x 0..4 arguments x kinds
    vals = ['1', '"2"', 'nil', '[1, 2]', '({p: 1})', 'f', '"p"']
    for name in NAT:
        if name in ('clock', 'input'):
            continue
        for n_ in range(0, 5):
            combos = list(itertools.product(vals, repeat=n_))
            if n_ >= 3:
                combos = [c for c in combos if dh((name, c)) % (8 if tier == 'quick' else 2) == 0]
            for c in combos:
                if name in ('sin', 'cos', 'tan') and n_ == 1 and c[0] in ('1', '"2"'):
                    continue
                cases.append(prog_case(pre + f'{P} "s";\n{P} {N[name]}({", ".join(c)});\n{P} "e";\n', 'arity-and-kinds'))
    for n_ in range(0, 4):
        cases.append(prog_case(f'{P} {N["clock"]}({", ".join(["1"] * n_)}) > 1000000000;\n', 'clock'))
        cases.append(prog_case(f'{P} {N["input"]}({", ".join([chr(34) + "p" + chr(34)] * n_)});\n', 'input-arity', stdin=b' line one \nline two\n'))
    # min / max: all permutations of small lists, list and array forms, NaN-free and with NaN
    pools = [['3', '1', '2'], ['(-3)', '(-7)', '(-5)'], ['0', '(-0)', '0'], ['2', '2', '1'], ['(-1)', '0', '(-2)', '5'], ['"10"', '9', '"8"'], ['(10 ** 400)', '1', '(-(10 ** 400))'], ['1', '(10 ** 400 - 10 ** 400)', '2'], ['(-6)'], ['0.5', '0.25']]
    for pool in pools:
        for perm in set(itertools.permutations(pool)):
            for name in ('min', 'max'):
                l = ', '.join(perm)
                cases.append(prog_case(f'{P} {N[name]}({l});\n{P} {N[name]}([{l}]);\n{P} {N[name]}({l}) == {N[name]}([{l}]);\n', 'min-max'))
    for name in ('min', 'max'):
        for a in ['', '[]', '[[]]', '[], []', '[1], 2', '"a"', '[1, "a"]', 'nil', '[nil]', '1, nil', '[1, 2], [3]']:
            cases.append(prog_case(f'{P} {N[name]}({a});\n', 'min-max-misuse'))
    n = 3000 if tier == 'quick' else 100000
    for i in range(n):
        r = rng.fork(i)
        a = random_double_lit(r)
        name = r.choice(one)
        cases.append(prog_case(f'{P} {N[name]}({a});\n', 'random-exact'))
        if i % 3 == 0:
            xs = [random_double_lit(r) for _ in range(1 + r.below(5))]
            cases.append(prog_case(f'{P} {N["min"]}({", ".join(xs)});\n{P} {N["max"]}([{", ".join(xs)}]);\n', 'random-min-max'))
    rule = (f'abs / round / sqrt on {len(args)} boundary arguments (+-0, +-0.5, +-1.5, +-2.5, 2^52+0.5, huge, Inf, NaN, negative, numeric strings) and every other kind; sin/cos/tan on exactly representable cases and every kind; '
            f'pow built-in vs ** on 11x9 exact cases and, as one text-equality test each, on 16x25 argument pairs incl. subnormal / overflowing results; every built-in x 0..4 arguments over 7 kinds; min/max over all permutations of {len(pools)} pools in list and array form plus misuse; {n} seeded random doubles. Non-trivial = all.')
    # the clock built-in reads the wall clock every time it is called: two readings around a loop of a second or so, taken
    # inside one function call / one statement / one expression, differ and are in order; readings are seconds since 1970
    from .runner import CliCase, cli_oracle_expect
    CLK = N['clock']
    spin = f'{VAR} s = 0; {FOR} ({VAR} i = 0; i < 1500000; i = i + 1) {{ s = s + i; }}'
    clock_progs = [
        (f'{FUN} bench() {{ {VAR} t0 = {CLK}(); {spin} {VAR} t1 = {CLK}(); {P} t1 > t0; {P} t1 - t0 < 600; {RET} t1 - t0; }}\n{P} bench() > 0;\n{P} {CLK}() > 1600000000;\n{P} {CLK}() < 4000000000;\n', 'true\ntrue\ntrue\ntrue\ntrue\n'),
        (f'{FUN} wait() {{ {spin} {RET} 0; }}\n{P} {CLK}() + wait() < {CLK}();\n{P} [{CLK}(), wait(), {CLK}()][0] < {CLK}();\n{VAR} a = {CLK}(), b = wait(), c = {CLK}();\n{P} a < c;\n', 'true\ntrue\ntrue\n'),
        (f'{VAR} t0 = {CLK}();\n{VAR} n = 0;\n{WHILE} ({CLK}() - t0 < 0.3) {{ n = n + 1; }}\n{P} n > 0;\n{P} {CLK}() - t0 >= 0.3;\n{P} {CLK}({CLK}());\n', None),
    ]
    cli = []
    for src, out in clock_progs:
        if out is None:
            cli.append(CliCase('impl-only-clock', ['p.bn'], {'p.bn': src.encode()}, b'', 'p.bn', note={'out': 'true\ntrue\n', 'status': 70}))
        else:
            cli.append(CliCase('impl-only-clock', ['p.bn'], {'p.bn': src.encode()}, b'', 'p.bn', note={'out': out, 'err': '', 'status': 0}))
    return {'cases': cases, 'cli': cli, 'cli_oracles': [cli_oracle_expect], 'cli_timeout': 60, 'rule': rule + ' Three scripts that read the clock around a second of work inside one call, one expression, one declaration list, and poll it in a loop (executable alone).',
            'exhaustive': True, 'oracles': [oracle_c17]}

def oracle_c17(cases):
    bad = []
    for c in cases:
        f = fields(c.impl)
        if 'O' not in f:
            continue
        out = untext(f['O']).split('\n')
        if c.label == 'pow-equals-operator' and f.get('F') == '00' and len(out) >= 3 and out[2] != 'true' and out[0] != 'NaN':
            bad.append((c, f'ঘাত and ** differ: {out[:3]}'))
        if c.label == 'min-max' and f.get('F') == '00' and len(out) >= 3 and out[2] != 'true' and 'NaN' not in out[0]:
            bad.append((c, f'list form and array form differ: {out[:3]}'))
        if c.label == 'clock' and f.get('F') == '00' and out[0] != 'true':
            bad.append((c, 'ক্লক() is not the current Unix time'))
    return bad

# ---------------------------------------------------------------- C18

TT_NUMBER, TT_IDENT, TT_STRING, TT_VAR, TT_SEMI, TT_DOT, TT_COLON, TT_SLASH = 32, 30, 31, 47, 10, 7, 11, 12
COMMENTS = ['/* c */', '/**/', '/* ** */', '/***/', '/* x **/', '/** doc */', '/* a\n b */', '/* * / */', '/*/ */', '/* "q */']
FRESH = ['zqA1', 'zqB2x', 'ZqC3', 'ঝঞক১', 'ঝঞ_খ২', 'zq_D6', 'ঝঝগ৭', 'zqE8', 'zqF9', 'zqG0', 'zqH1', 'zqJ2', 'zqK_', 'ঝঞঘ', 'zqL5', 'zqM6']

def lexemes_of(sources):
    resp = run_impl([req('lex', s_) for s_ in sources])
    out = []
    for r in resp:
        f = fields(r)
        if f.get('F') != '00':
            out.append(None); continue
        toks = []
        for t in f.get('_', '').split(' '):
            p = t.split(':')
            if len(p) >= 5 and p[0] == 'T':
                toks.append((int(p[1]), unhx(p[2]).decode('utf-8')))
        out.append(toks[:-1])     # drop EOF
    return out

def join_tokens(toks, rng, layout):
    """write the token sequence back with chosen trivia; `ধরি` declarations stay on one line"""
    out = []
    in_var, depth = False, 0
    for i, (tt, lx_) in enumerate(toks):
        if tt == TT_VAR:
            in_var, depth = True, 0
        out.append(lx_)
        if in_var:
            if lx_ in '([{':
                depth += 1
            elif lx_ in ')]}':
                depth -= 1
            elif tt == TT_SEMI and depth <= 0:
                in_var = False
        if not layout:
            out.append('\n' if (tt == TT_SEMI or lx_ in '{}') and not in_var else ' ')
            continue
        k = rng.below(10)
        nl_ok = not in_var
        if k <= 3:
            sep = ' '
        elif k == 4:
            sep = '\t '
        elif k == 5:
            sep = '\n' if nl_ok else '  '
        elif k == 6:
            sep = ' \n\n\t' if nl_ok else ' \t'
        elif k == 7:
            c = rng.choice(COMMENTS)
            if '\n' in c and not nl_ok:
                c = '/* c */'
            sep = ' ' + c + ' '
        elif k == 8:
            sep = ' // note */ "\n' if nl_ok else ' /* n */ '
        else:
            sep = ' ' + rng.choice(COMMENTS[:6]) + rng.choice(COMMENTS[:6]) + ' '
        out.append(sep)
    return ''.join(out)

def t_digits(toks, rng):
    from .camp_front import swap_script
    return [(tt, swap_script(lx_, rng) if tt == TT_NUMBER else lx_) for tt, lx_ in toks]

def t_synonyms(toks, rng):
    m = {'&&': KW['and'], '||': KW['or'], KW['and']: '&&', KW['or']: '||'}
    return [(tt, m[lx_] if lx_ in m and rng.chance(2, 3) else lx_) for tt, lx_ in toks]

def t_rename(toks, rng, pool=None):
    fixed = set(NAT.values()) | {'input'}
    for i, (tt, lx_) in enumerate(toks):
        if tt == TT_IDENT:
            if (i > 0 and toks[i - 1][0] == TT_DOT) or (i + 1 < len(toks) and toks[i + 1][0] == TT_COLON):
                fixed.add(lx_)
    names = []
    for tt, lx_ in toks:
        if tt == TT_IDENT and lx_ not in fixed and lx_ not in names:
            names.append(lx_)
    present = {lx_ for tt, lx_ in toks if tt == TT_IDENT}
    pool = [w for w in (pool or FRESH) if w not in present]      # a new name must not capture a name the program already uses
    names = [n for n in names if rng.chance(2, 3)][:len(pool)]
    mp = {}
    for n in names:
        mp[n] = pool.pop(rng.below(len(pool)))
    return [(tt, mp.get(lx_, lx_) if tt == TT_IDENT else lx_) for tt, lx_ in toks], {v_: k for k, v_ in mp.items()}

# identifiers that are different code-point sequences but canonically equivalent: to the language they are different names
EQUIV_NAMES = ['ম\u09cbট', 'ম\u09c7\u09beট', 'ন\u09df', 'ন\u09af\u09bc', 'প\u09dc', 'প\u09a1\u09bc', 'ক\u09cc', 'ক\u09c7\u09d7', 'caf\u00e9', 'cafe\u0301', '\u212bx', '\u00c5x']

def t_rename_equiv(toks, rng):
    """rename ALL user identifiers, in order of first use, to names of which neighbours are canonically equivalent"""
    fixed = set(NAT.values()) | {'input'}
    for i, (tt, lx_) in enumerate(toks):
        if tt == TT_IDENT:
            if (i > 0 and toks[i - 1][0] == TT_DOT) or (i + 1 < len(toks) and toks[i + 1][0] == TT_COLON):
                fixed.add(lx_)
    names = []
    for tt, lx_ in toks:
        if tt == TT_IDENT and lx_ not in fixed and lx_ not in names:
            names.append(lx_)
    off = rng.below(3) * 2
    pool = EQUIV_NAMES[off:] + EQUIV_NAMES[:off]
    mp = {n: pool[k] for k, n in enumerate(names[:len(pool)])}
    return [(tt, mp.get(lx_, lx_) if tt == TT_IDENT else lx_) for tt, lx_ in toks], {v_: k for k, v_ in mp.items()}

def tree_parens(e, rng):
    """wrap value-producing sub-expressions in redundant parentheses"""
    k = e[0]
    rec = lambda x: tree_parens(x, rng)
    def w(x):
        y = rec(x)
        return ('grp', y) if rng.chance(1, 3) else y
    if k == 'bin':
        return ('bin', e[1], w(e[2]), w(e[3]))
    if k == 'un':
        return ('un', e[1], w(e[2]))
    if k == 'grp':
        return ('grp', w(e[1]))
    if k == 'call':
        return ('call', w(e[1]), [w(a) for a in e[2]])
    if k == 'arr':
        return ('arr', [w(a) for a in e[1]])
    if k == 'obj':
        return ('obj', [(n, w(x)) for n, x in e[1]])
    if k == 'idx':
        return ('idx', w(e[1]), w(e[2]))
    if k == 'prop':
        return ('prop', w(e[1]), e[2])
    if k == 'asg':
        t = e[1]
        if t[0] == 'idx':
            t = ('idx', w(t[1]), w(t[2]))
        elif t[0] == 'prop':
            t = ('prop', w(t[1]), t[2])
        return ('asg', t, w(e[2]))
    return e

def stmts_map(ss, fe, rng, dead):
    out = []
    for s_ in ss:
        k = s_[0]
        if dead and rng.chance(1, 6):
            g = ProgGen(rng.fork(7), err=0)
            junk = g.stmts(Scope(), 1 + rng.below(2), 1)
            out.append(('if', F, ('block', junk), None) if rng.chance(1, 2) else ('fun', 'dead' + str(rng.below(10 ** 6)), ['u'], junk))
        E_ = lambda x: fe(x) if x is not None else None
        M = lambda body: stmts_map(body, fe, rng, dead)
        if k == 'expr':
            out.append(('expr', E_(s_[1])))
        elif k == 'print':
            out.append(('print', E_(s_[1])))
        elif k == 'var':
            out.append(('var', [(n, E_(i)) for n, i in s_[1]]))
        elif k == 'block':
            out.append(('block', M(s_[1])))
        elif k == 'if':
            out.append(('if', E_(s_[1]), M([s_[2]])[0] if not dead else ('block', M([s_[2]])), None if s_[3] is None else (M([s_[3]])[0] if not dead else ('block', M([s_[3]])))))
        elif k == 'while':
            out.append(('while', E_(s_[1]), M([s_[2]])[0] if not dead else ('block', M([s_[2]]))))
        elif k == 'for':
            init = s_[1]
            if init is not None:
                init = stmts_map([init], fe, rng, False)[0]
            out.append(('for', init, E_(s_[2]), E_(s_[3]), M([s_[4]])[0] if not dead else ('block', M([s_[4]]))))
        elif k == 'return':
            out.append(('return', E_(s_[1])))
            if dead and rng.chance(1, 2):
                out.append(('print', ('str', 'never')))
        elif k == 'fun':
            out.append(('fun', s_[1], s_[2], M(s_[3])))
        else:
            out.append(s_)
    return out

import re as _re
def norm_out(resp, back=None):
    f = fields(resp)
    if 'O' not in f:
        return resp.split('\t')[0].split(':')[0]
    o, e = untext(f['O']), untext(f.get('E', ''))
    e = _re.sub(r'\[line \d+\]', '[line N]', e)
    if back:
        # whole names only (a renamed name may be a piece of another word of the output)
        for new, old in sorted(back.items(), key=lambda kv: -len(kv[0])):
            pat = _re.compile(r'(?<![\w\u0980-\u09FF])' + _re.escape(new) + r'(?![\w\u0980-\u09FF])')
            o, e = pat.sub(lambda m: old, o), pat.sub(lambda m: old, e)
    return (o, e, f.get('F'))

def c18(tier, rng):
    import glob as _g
    n = 500 if tier == 'quick' else 12000
    trees = [random_program(rng.fork(i), 4 + rng.below(10), 3, err=(12 if i % 3 else 0)) for i in range(n)]
    bases = [r_prog(t) for t in trees]
    for f in sorted(_g.glob('/repo/example/*.bn')):
        t = open(f, encoding='utf-8').read()
        if NAT['clock'] not in t:
            bases.append(t)
    # the re-execution programs (closures that escape loops, recursion through loops, factories, …) as further bases
    from .camp_reexec import reexec_programs
    rxp = [src for _, src in reexec_programs('quick')]
    from .camp_reexec import extra_programs
    nx = len(extra_programs())
    bases += rxp if tier == 'thorough' else rxp[:nx] + rxp[nx::3]
    lexed = lexemes_of(bases)
    cases = []
    backs = {}
    for i, (src, toks) in enumerate(zip(bases, lexed)):
        if toks is None:
            continue
        r = rng.fork(10 ** 6 + i)
        g = f'prog{i}'
        variants = [('base', join_tokens(toks, r, False), None)]
        for j in range(2):
            variants.append(('layout', join_tokens(toks, r, True), None))
        variants.append(('digits', join_tokens(t_digits(toks, r), r, False), None))
        variants.append(('synonyms', join_tokens(t_synonyms(toks, r), r, False), None))
        rn, back = t_rename(toks, r)
        variants.append(('rename', join_tokens(rn, r, False), back))
        from .words import WORDS
        rw_, backw = t_rename(toks, r, pool=[w for w in WORDS if ord(w[0]) >= 0x980])   # English words may be printed by the program itself
        variants.append(('rename', join_tokens(rw_, r, False), backw))
        rq, backq = t_rename_equiv(toks, r)
        variants.append(('rename', join_tokens(rq, r, False), backq))
        t2, back2 = t_rename(t_synonyms(t_digits(toks, r), r), r)
        variants.append(('combined', join_tokens(t2, r, True), back2))
        if i < len(trees):
            fe = lambda e: tree_parens(e, r)
            variants.append(('parens', r_prog(stmts_map(trees[i], fe, r, False)), None))
            variants.append(('dead-code', r_prog(stmts_map(trees[i], lambda e: e, r, True)), None))
            variants.append(('original-text', src, None))
        for kind, text, back_ in variants:
            c = prog_case(text, kind, stdin=b'5\n7\nabc\n', group=g, note=back_)
            cases.append(c)
    # (e), targeted: for every ordered pair of binary operators (and every prefix operator in front of one), the
    # unparenthesised expression and the one parenthesised as the published ladder prescribes must print the same
    LADDER = [['||', KW['or']], ['&&', KW['and']], ['|'], ['^'], ['&'], ['==', '!='], ['<', '<=', '>', '>='], ['<<', '>>'], ['-', '+'], ['/', '*', '%'], ['**']]
    level = {op: k for k, ops_ in enumerate(LADDER) for op in ops_}
    allops = [op for ops_ in LADDER for op in ops_]
    triples = [('7', '3', '2'), ('2', '3', '2'), ('1', '0', '5'), ('12', '4', '3')]
    gi = 0
    for o1 in allops:
        for o2 in allops:
            for (x, y, z) in (triples if tier == 'thorough' else triples[:2]):
                plain = f'{P} {x} {o1} {y} {o2} {z};\n'
                grouped = (f'{P} ({x} {o1} {y}) {o2} {z};\n' if level[o1] >= level[o2] else f'{P} {x} {o1} ({y} {o2} {z});\n')
                g = f'pair{gi}'; gi += 1
                cases.append(prog_case(plain, 'base', group=g))
                cases.append(prog_case(grouped, 'ladder-parens', group=g))
    for pre in ['-', '!', '~']:
        for o2 in allops:
            for (x, y) in [('7', '2'), ('2', '3'), ('0', '1')]:
                g = f'pre{gi}'; gi += 1
                cases.append(prog_case(f'{P} {pre}{x} {o2} {y};\n', 'base', group=g))
                cases.append(prog_case(f'{P} ({pre}{x}) {o2} {y};\n', 'ladder-parens', group=g))
                g = f'pre{gi}'; gi += 1
                cases.append(prog_case(f'{P} {y} {o2} {pre}{x};\n', 'base', group=g))
                cases.append(prog_case(f'{P} {y} {o2} ({pre}{x});\n', 'ladder-parens', group=g))
    # a callee is a value-producing sub-expression like any other, also when its name is that of a built-in (a parameter may be)
    for nm in NAT.values():
        pre_ = f'{FUN} tw(x) {{ {RET} [x, "mine"]; }}\n'
        g = f'callee{gi}'; gi += 1
        cases.append(prog_case(pre_ + f'{FUN} run({nm}) {{ {P} {nm}(4); {P} {nm}; }}\nrun(tw);\nrun(5);\n', 'base', group=g))
        cases.append(prog_case(pre_ + f'{FUN} run({nm}) {{ {P} ({nm})(4); {P} ({nm}); }}\nrun(tw);\nrun(5);\n', 'ladder-parens', group=g))
        g = f'callee{gi}'; gi += 1
        cases.append(prog_case(f'{P} {nm};\n{VAR} h = {nm};\n{P} h == {nm};\n', 'base', group=g))
        cases.append(prog_case(f'{P} ({nm});\n{VAR} h = ({nm});\n{P} (h) == (({nm}));\n', 'ladder-parens', group=g))
    for chain, grouped in [('a = b = 3', 'a = (b = 3)'), ('t[0][1]', '(t[0])[1]'), ('o.p.q', '(o.p).q'), ('f(1)(2)', '(f(1))(2)'), ('-t[0][1]', '-((t[0])[1])'), ('!o.p.q', '!((o.p).q)'), ('2 ** -1', '2 ** (-1)')]:
        pre_ = f'{VAR} a = 0; {VAR} b = 0; {VAR} t = [[1, 2]]; {VAR} o = {{p: {{q: 5}}}}; {FUN} f(x) {{ {FUN} g(y) {{ {RET} x + y; }} {RET} g; }}\n'
        g = f'chain{gi}'; gi += 1
        cases.append(prog_case(pre_ + f'{P} {chain};\n', 'base', group=g))
        cases.append(prog_case(pre_ + f'{P} {grouped};\n', 'ladder-parens', group=g))
    rule = (f'every ordered pair of the {len(allops)} binary operators, and every prefix operator before / after each, written plain and parenthesised as the ladder prescribes ({gi} pairs of programs); '
            f'{len(bases)} programs (generated, a third fault-free; the shipped examples; re-execution programs) x 11 variants: re-laid-out twice with blanks, tabs, line breaks outside ধরি declarations and {len(COMMENTS)} comment shapes between tokens; '
            'digits swapped between scripts; && / এবং and || / বা exchanged; user identifiers renamed to fresh Latin / Bangla names, to natural-language words that are not keywords (vlib/words.py), and to names that differ only by canonical equivalence (precomposed / split vowel signs, nukta letters); all of these combined; redundant parentheses around value-producing sub-expressions; never-executed code inserted. '
            'All variants of a program must print the same and fail the same (line numbers and renamed names aside) on the implementation alone, and each must agree with the model. Non-trivial = all.')
    return {'cases': cases, 'rule': rule, 'exhaustive': False, 'oracles': [oracle_c18]}

def oracle_c18(cases):
    bad, groups = [], {}
    for c in cases:
        groups.setdefault(c.group, []).append(c)
    for g, cs in groups.items():
        ref = next((c for c in cs if c.label == 'base'), cs[0])
        a = norm_out(ref.impl)
        for c in cs:
            if c is ref:
                continue
            b_ = norm_out(c.impl, c.note)
            if a != b_ and c.label in ('rename', 'combined') and isinstance(a, tuple) and isinstance(b_, tuple):
                # "renamed names … in printed function values may differ": printing NFC-normalises them, so two new names
                # that are canonically equivalent cannot be told apart in the output — compare with those names masked
                mask = lambda t: (_re.sub(r'<function [^>\n]*>', '<function>', t[0]), t[1], t[2])
                if mask(a) == mask(b_):
                    continue
            if a != b_:
                bad.append((c, f'the {c.label} variant behaves differently from the base program'))
                break
    return bad
