import BornoModel.Expect
/-!
# Lexer — model of `lexer/scanner.go`

Suffix style: the scanner state is the unread suffix of the source and the current line.  The
two partial host operations of the Go code (`advance` past the end, the slice
`source[start+1:current-1]`) show up as `none` (= a Go panic).  `lm` is
`unicode.IsLetter(r) || unicode.IsMark(r)`; theorems hold for every `lm`, the driver uses the
range tables extracted from the Go toolchain.
-/
namespace Borno

/-- a diagnostic line pair as written to stderr -/
inductive Diag
  /-- `[line N] Error<where>: <msg>` (lexer, parser) -/
  | static (line : Nat) (wher : List Char) (msg : List Char)
  /-- `<msg>` newline `[line N]` (interpreter) -/
  | runtime (msg : List Char) (line : Nat)
  deriving DecidableEq, Repr, Inhabited

def Diag.line : Diag → Nat
  | .static l _ _ => l
  | .runtime _ l => l

namespace Lexer

def isDigit (c : Char) : Bool :=
  Expect.digitRanges.any fun (lo, hi) => lo ≤ c.toNat && c.toNat ≤ hi

/-- `utils.ConvertBanglaDigitsToASCII`, one character -/
def translitChar (c : Char) : Char :=
  match Expect.digitMap.lookup c.toNat with
  | some a => Char.ofNat a
  | none => c

def translit (s : List Char) : List Char := s.map translitChar

section
variable (lm : Char → Bool)

def isAlpha (c : Char) : Bool := lm c || c = '_'
def isAlphaNum (c : Char) : Bool := isAlpha lm c || isDigit c

/-- result of scanning one lexeme (or one piece of trivia) -/
structure Step where
  tok : Option Token
  diag : Option Diag
  rest : List Char
  line : Nat
  deriving Repr

def countNl (s : List Char) : Nat := (s.filter (· = '\n')).length

/-- body of `multilineComment`: returns the rest after `*/` (or `none` when unterminated) and the line -/
def blockComment : List Char → Nat → Option (List Char) × Nat
  | [], line => (none, line)
  | c :: r, line =>
    if c = '\n' then blockComment r (line + 1)
    else if c = '*' then
      match r with
      | d :: r' => if d = '/' then (some r', line) else blockComment r line
      | [] => blockComment r line
    else blockComment r line

def unexpectedChar : List Char := "Unexpected character.".toList
def unterminatedString : List Char := "Unterminated string.".toList
def unterminatedComment : List Char := "Unterminated multiline comment".toList
def invalidNumber : List Char := "Invalid number format".toList

/-- `scanToken` after `s.start = s.current`; `none` = the Go code would panic -/
def scanToken : List Char → Nat → Option Step
  | [], _ => none
  | c :: r, line =>
    match Expect.singleOps.lookup c with
    | some tt => some ⟨some ⟨tt, [c], .none, line⟩, none, r, line⟩
    | none =>
    match Expect.twoOps.lookup c with
    | some (alts, dflt) =>
      (match r with
       | d :: r' =>
         (match alts.lookup d with
          | some tt => some ⟨some ⟨tt, [c, d], .none, line⟩, none, r', line⟩
          | none => some ⟨some ⟨dflt, [c], .none, line⟩, none, r, line⟩)
       | [] => some ⟨some ⟨dflt, [c], .none, line⟩, none, r, line⟩)
    | none =>
    if c = '/' then
      (match r with
       | d :: r' =>
         if d = '/' then
           -- line comment: up to, not including, the newline
           some ⟨none, none, r'.dropWhile (· ≠ '\n'), line⟩
         else if d = '*' then
           (match blockComment r' line with
            | (some rest, line') => some ⟨none, none, rest, line'⟩
            | (none, line') => some ⟨none, some (.static line' [] unterminatedComment), [], line'⟩)
         else some ⟨some ⟨.SLASH, [c], .none, line⟩, none, r, line⟩
       | [] => some ⟨some ⟨.SLASH, [c], .none, line⟩, none, r, line⟩)
    else if Expect.blanks.contains c then some ⟨none, none, r, line⟩
    else if c = '\n' then some ⟨none, none, r, line + 1⟩
    else if c = '"' then
      let body := r.takeWhile (· ≠ '"')
      let rest := r.dropWhile (· ≠ '"')
      let line' := line + countNl body
      (match rest with
       | [] => some ⟨none, some (.static line' [] unterminatedString), [], line'⟩
       | q :: rest' =>
         let lexeme := c :: body ++ [q]
         -- value := source[start+1 : current-1]
         if lexeme.length < 2 then none
         else some ⟨some ⟨.STRING, lexeme, .str ((lexeme.drop 1).dropLast), line'⟩, none, rest', line'⟩)
    else if isDigit c then
      let ds := r.takeWhile isDigit
      let r1 := r.dropWhile isDigit
      let (frac, r2) : List Char × List Char :=
        match r1 with
        | p :: d :: r' =>
          if p = '.' && isDigit d then
            ('.' :: d :: r'.takeWhile isDigit, r'.dropWhile isDigit)
          else ([], r1)
        | _ => ([], r1)
      let lexeme := c :: ds ++ frac
      (match F64.parseFloat (translit lexeme) with
       | .ok x => some ⟨some ⟨.NUMBER, lexeme, .num x, line⟩, none, r2, line⟩
       | _ => some ⟨none, some (.static line [] invalidNumber), r2, line⟩)
    else if isAlpha lm c then
      let word := c :: r.takeWhile (isAlphaNum lm)
      let rest := r.dropWhile (isAlphaNum lm)
      let tt := (Expect.keywords.lookup word).getD .IDENTIFIER
      some ⟨some ⟨tt, word, .none, line⟩, none, rest, line⟩
    else some ⟨none, some (.static line [] unexpectedChar), r, line⟩

/-- `ScanTokens`: fuel `src.length + 1` always suffices (`scan_fuel_ok`) -/
def scanLoop : Nat → List Char → Nat → Option (List Token × List Diag)
  | 0, _, _ => none
  | _ + 1, [], line => some ([⟨.EOF, [], .none, line⟩], [])
  | f + 1, c :: r, line =>
    match scanToken lm (c :: r) line with
    | none => none
    | some st =>
      match scanLoop f st.rest st.line with
      | none => none
      | some (ts, ds) => some (st.tok.toList ++ ts, st.diag.toList ++ ds)

def scan (src : List Char) : Option (List Token × List Diag) :=
  scanLoop lm (src.length + 1) src 1

end
end Lexer
end Borno
