/-! Small list lemmas used by the lexer proofs -/
namespace Borno.ListAux

theorem takeWhile_forall {α : Type} (p : α → Bool) : ∀ (l : List α), ∀ x ∈ l.takeWhile p, p x = true
  | [], x, h => by simp at h
  | a :: l, x, h => by
    by_cases ha : p a = true
    · simp [List.takeWhile, ha] at h
      rcases h with rfl | h
      · exact ha
      · exact takeWhile_forall p l x h
    · simp [List.takeWhile, ha] at h

theorem dropWhile_head {α : Type} (p : α → Bool) : ∀ (l : List α) (q : α) (rest : List α),
    l.dropWhile p = q :: rest → p q = false
  | [], q, rest, h => by simp at h
  | a :: l, q, rest, h => by
    by_cases ha : p a = true
    · simp [List.dropWhile, ha] at h; exact dropWhile_head p l q rest h
    · simp [List.dropWhile, ha] at h; obtain ⟨rfl, _⟩ := h; simpa using ha

theorem lookup_cons_eq {α β : Type} [BEq α] [LawfulBEq α] (k : α) (v : β) (ps : List (α × β)) :
    List.lookup k ((k, v) :: ps) = some v := by
  simp [List.lookup]

theorem lookup_cons_ne {α β : Type} [BEq α] [LawfulBEq α] (q k : α) (v : β) (ps : List (α × β)) (h : q ≠ k) :
    List.lookup q ((k, v) :: ps) = List.lookup q ps := by
  have : (q == k) = false := by simpa using h
  simp only [List.lookup, this]

end Borno.ListAux
