/-!
# NFC — Unicode canonical composition (UAX #15) over externally supplied tables

The algorithm is fixed here; the data (full canonical decompositions, combining classes, primary
composites) is a parameter, instantiated by the driver with the tables `factgen` extracts from
the `golang.org/x/text` version the repository links.  Hangul is algorithmic.
-/
namespace Borno.Nfc

structure Tables where
  /-- full canonical decomposition of a code point, if it has one -/
  decomp : Nat → Option (List Nat)
  /-- canonical combining class -/
  ccc : Nat → Nat
  /-- primary composite of a pair -/
  compose : Nat → Nat → Option Nat

def sBase := 0xAC00
def lBase := 0x1100
def vBase := 0x1161
def tBase := 0x11A7
def lCount := 19
def vCount := 21
def tCount := 28
def nCount := vCount * tCount
def sCount := lCount * nCount

def decompOne (T : Tables) (c : Nat) : List Nat :=
  if sBase ≤ c ∧ c < sBase + sCount then
    let s := c - sBase
    let l := lBase + s / nCount
    let v := vBase + (s % nCount) / tCount
    let t := tBase + s % tCount
    if t = tBase then [l, v] else [l, v, t]
  else
    match T.decomp c with
    | some d => d
    | none => [c]

/-- insert a combining mark into an already ordered run (stable: after marks of equal class) -/
def insertMark (T : Tables) (c : Nat) : List Nat → List Nat
  | [] => [c]
  | d :: rest => if T.ccc c < T.ccc d then c :: d :: rest else d :: insertMark T c rest

/-- canonical ordering: reorder each maximal run of non-starters by combining class -/
def reorder (T : Tables) : List Nat → List Nat → List Nat
  | [], run => run
  | c :: rest, run =>
    if T.ccc c = 0 then run ++ c :: reorder T rest []
    else reorder T rest (insertMark T c run)

def composePair (T : Tables) (a b : Nat) : Option Nat :=
  -- Hangul LV, LVT
  if lBase ≤ a ∧ a < lBase + lCount ∧ vBase ≤ b ∧ b < vBase + vCount then
    some (sBase + ((a - lBase) * vCount + (b - vBase)) * tCount)
  else if sBase ≤ a ∧ a < sBase + sCount ∧ (a - sBase) % tCount = 0 ∧ tBase < b ∧ b < tBase + tCount then
    some (a + (b - tBase))
  else T.compose a b

/-- composition pass over a canonically ordered sequence.
    `starter` = last starter (if any), `pending` = characters after it that did not combine
    (in order), `lastCcc` = class of the last pending character -/
def composeGo (T : Tables) : List Nat → Option Nat → List Nat → List Nat → List Nat
  | [], starter, pending, acc => acc ++ starter.toList ++ pending
  | c :: rest, starter, pending, acc =>
    let cc := T.ccc c
    match starter with
    | none =>
      if cc = 0 then composeGo T rest (some c) [] (acc ++ pending)
      else composeGo T rest none (pending ++ [c]) acc
    | some s =>
      let blocked :=
        match pending.getLast? with
        | none => false
        | some p => T.ccc p = 0 || T.ccc p ≥ cc
      match (if blocked then none else composePair T s c) with
      | some comp => composeGo T rest (some comp) pending acc
      | none =>
        if cc = 0 then composeGo T rest (some c) [] (acc ++ s :: pending)
        else composeGo T rest (some s) (pending ++ [c]) acc

def nfcCodes (T : Tables) (s : List Nat) : List Nat :=
  let d := s.flatMap (decompOne T)
  let o := reorder T d []
  composeGo T o none [] []

def nfc (T : Tables) (s : List Char) : List Char :=
  (nfcCodes T (s.map Char.toNat)).map Char.ofNat

end Borno.Nfc
