package interpreter

import "fmt"

type NativeLenFn struct{}

// Call executes the native `len` function
func (n NativeLenFn) Call(i *Interpreter, arguments []interface{}) (interface{}, error) {
	if len(arguments) != 1 {
		return nil, fmt.Errorf("len function expects exactly 1 argument")
	}

	// Check if the argument is a slice (array in our case)
	array, ok := arguments[0].([]interface{})
	if !ok {
		return nil, fmt.Errorf("len function only works on arrays")
	}

	// Return the length of the array
	return float64(len(array)), nil
}

func (n NativeLenFn) Arity() int {
	return 1 // The function expects one argument (the array)
}

func (n NativeLenFn) String() string {
	return "<native fn len>"
}

type NativeAppendFn struct{}

func (n NativeAppendFn) Call(i *Interpreter, arguments []interface{}) (interface{}, error) {
	if len(arguments) < 2 {
		return nil, fmt.Errorf("append function expects at least 2 arguments (array and element(s))")
	}

	// Ensure the first argument is an array
	array, ok := arguments[0].([]interface{})
	if !ok {
		return nil, fmt.Errorf("append function only works on arrays")
	}
	// Append all other arguments to the array
	result := make([]interface{}, 0, len(array)+len(arguments)-1)
	result = append(result, array...)
	result = append(result, arguments[1:]...)

	return result, nil
}

func (n NativeAppendFn) Arity() int {
	return -1 // Variable number of arguments (at least 2)
}

func (n NativeAppendFn) String() string {
	return "<native fn append>"
}

type NativeRemoveFn struct{}

func (n NativeRemoveFn) Call(i *Interpreter, arguments []interface{}) (interface{}, error) {
	if len(arguments) != 2 {
		return nil, fmt.Errorf("remove function expects exactly 2 arguments (array and index)")
	}

	// Ensure the first argument is an array
	array, ok := arguments[0].([]interface{})
	if !ok {
		return nil, fmt.Errorf("remove function only works on arrays")
	}

	// Ensure the second argument is an integer (index)
	index, err := toInt64(arguments[1])
	if err != nil {
		return nil, fmt.Errorf("array index must be an integer")
	}

	// Ensure the index is within bounds
	if index < 0 || int(index) >= len(array) {
		return nil, fmt.Errorf("array index out of bounds")
	}

	// Remove the element at the specified index
	result := make([]interface{}, 0, len(array)-1)
	result = append(result, array[:index]...)
	result = append(result, array[index+1:]...)

	return result, nil
}

func (n NativeRemoveFn) Arity() int {
	return 2 // Two arguments: array and index
}

func (n NativeRemoveFn) String() string {
	return "<native fn remove>"
}
