import BornoModel.Lemmas.ParseSound
/-!
# ParseFits — every tree the expression parser returns fits the ladder

`Grammar.fits k e`: the tree `e` may stand unparenthesised at grammar position `k`.  The parser
only ever builds trees that fit: an operator of ladder level `j` has, as its left operand, a tree
of position ≥ `j` (same level allowed: left-associativity), and as its right operand a tree of
position ≥ `j + 1` (strictly tighter); assignment only at position 0 with its value again an
assignment (right-associativity); prefix operators above every binary level; suffixes above those.
-/
namespace Borno.Parser
open Borno Grammar

theorem levelOf_ops : ∀ k, k < nLevels → ∀ tt ∈ levelOps k, levelOf tt = some k := by decide

theorem fits_mono {e : Expr} {k k' : Nat} (h : fits k e = true) (hk : k' ≤ k) : fits k' e = true := by
  cases e <;> simp only [fits, Bool.and_eq_true, decide_eq_true_eq, beq_iff_eq] at h ⊢
  case literal | ident => omega
  case grouping | arrayLit | propAccess => exact ⟨by omega, h.2⟩
  case objectLit => exact ⟨⟨by omega, h.1.2⟩, h.2⟩
  case call | arrayAccess => exact ⟨⟨by omega, h.1.2⟩, h.2⟩
  case unary => exact ⟨⟨by omega, h.1.2⟩, h.2⟩
  case assign => exact ⟨by omega, h.2⟩
  case arrayAssign => exact ⟨⟨⟨by omega, h.1.1.2⟩, h.1.2⟩, h.2⟩
  case propAssign => exact ⟨⟨by omega, h.1.2⟩, h.2⟩
  case binary l op ln r =>
    split at h
    · simp only [Bool.and_eq_true, decide_eq_true_eq, beq_iff_eq] at h ⊢
      exact ⟨⟨⟨by omega, h.1.1.2⟩, h.1.2⟩, h.2⟩
    · cases h
  case logical l op r =>
    split at h
    · simp only [Bool.and_eq_true, decide_eq_true_eq, beq_iff_eq] at h ⊢
      exact ⟨⟨⟨by omega, h.1.1.2⟩, h.1.2⟩, h.2⟩
    · cases h

theorem fits_mkBin {k : Nat} {l r : Expr} {t : Token} (hk : k < nLevels) (ht : (levelOps k).contains t.tt = true)
    (hl : fits (k + 1) l = true) (hr : fits (k + 2) r = true) : fits (k + 1) (mkBin k l t r) = true := by
  have hlev := levelOf_ops k hk t.tt (by simpa using ht)
  unfold mkBin
  cases hn : levelNode k <;> simp [fits, hlev, hn, hl, hr]

structure FitsP (f : Nat) : Prop where
  asg : ∀ ts e r, assignment f ts = .ok e r → fits 0 e = true
  lvl : ∀ k ts e r, k ≤ nLevels → binLevel f k ts = .ok e r → fits (k + 1) e = true
  loop : ∀ k l ts e r, k < nLevels → fits (k + 1) l = true → binLoop f k l ts = .ok e r → fits (k + 1) e = true
  un : ∀ ts e r, unary f ts = .ok e r → fits (nLevels + 1) e = true
  suf : ∀ e0 ts e r, fits (nLevels + 2) e0 = true → suffix f e0 ts = .ok e r → fits (nLevels + 2) e = true
  lst : ∀ ts es r, exprList f ts = .ok es r → fitsAll es = true
  obj : ∀ ts ps r, objProps f ts = .ok ps r → fitsProps ps.1 = true ∧ (ps.1 = [] → ps.2 = false)
  prim : ∀ ts e r, primary f ts = .ok e r → fits (nLevels + 2) e = true

theorem fitsP : ∀ f, FitsP f := by
  intro f
  induction f with
  | zero =>
    refine ⟨?_, ?_, ?_, ?_, ?_, ?_, ?_, ?_⟩ <;> intros <;> rename_i h
    · rw [assignment] at h; cases h
    · rw [binLevel] at h; cases h
    · rw [binLoop] at h; cases h
    · rw [unary] at h; cases h
    · rw [suffix] at h; cases h
    · rw [exprList] at h; cases h
    · rw [objProps] at h; cases h
    · rw [primary] at h; cases h
  | succ f ih =>
    refine ⟨?_, ?_, ?_, ?_, ?_, ?_, ?_, ?_⟩
    · -- assignment
      intro ts e r h
      rw [assignment] at h
      ibind h e0 r0 h0
      have f0 := ih.lvl 0 ts e0 r0 (Nat.zero_le _) h0
      ipeek h t r1
      by_cases ht : t.tt = .EQUAL
      · simp only [ht, if_true] at h
        ibind h v r2 hv
        have fv := ih.asg r1 v r2 hv
        cases e0 <;> simp only at h <;> try (cases h)
        · simp [fits, fv]
        · simp only [fits, Bool.and_eq_true, decide_eq_true_eq] at f0
          simp [fits, fv, f0.1.2, f0.2]
        · simp only [fits, Bool.and_eq_true, decide_eq_true_eq] at f0
          simp [fits, fv, f0.2]
      · simp only [ht, if_false] at h
        cases h
        exact fits_mono f0 (Nat.zero_le _)
    · -- binLevel
      intro k ts e r hkn h
      rw [binLevel] at h
      by_cases hk : k < nLevels
      · simp only [hk, if_true] at h
        ibind h l r0 hl
        have fl := ih.lvl (k + 1) ts l r0 hk hl
        exact ih.loop k l r0 e r hk (fits_mono fl (Nat.le_succ _)) h
      · simp only [hk, if_false] at h
        have : k = nLevels := by omega
        subst this
        exact ih.un ts e r h
    · -- binLoop
      intro k l ts e r hk hl h
      rw [binLoop] at h
      ipeek h t r0
      by_cases ht : (levelOps k).contains t.tt = true
      · simp only [ht, if_true] at h
        ibind h right r2 hr
        have fr := ih.lvl (k + 1) r0 right r2 hk hr
        exact ih.loop k (mkBin k l t right) r2 e r hk (fits_mkBin hk ht hl fr) h
      · simp only [ht, if_false] at h
        cases h
        exact hl
    · -- unary
      intro ts e r h
      rw [unary] at h
      ipeek h t r0
      by_cases ht : Expect.unaryOps.contains t.tt = true
      · simp only [ht, if_true] at h
        ibind h e1 r2 he
        cases h
        have f1 := ih.un r0 e1 r he
        have hm : t.tt ∈ Expect.unaryOps := by simpa using ht
        simp [fits, hm, f1]
      · simp only [ht, if_false] at h
        ibind h e1 r2 he
        have f1 := ih.prim (t :: r0) e1 r2 he
        exact fits_mono (ih.suf e1 r2 e r f1 h) (Nat.le_succ _)
    · -- suffix
      intro e0 ts e r h0 h
      rw [suffix] at h
      ipeek h t r0
      by_cases h1 : t.tt = .LEFT_PAREN
      · simp only [h1, if_true] at h
        ipeek h t2 r2
        by_cases h2 : t2.tt = .RIGHT_PAREN
        · simp only [h2, if_true] at h
          exact ih.suf _ r2 e r (by simp [fits, fitsAll, h0]) h
        · simp only [h2, if_false] at h
          ibind h args r3 ha
          have fa := ih.lst (t2 :: r2) args r3 ha
          ibind h t3 r4 h3
          exact ih.suf _ r4 e r (by simp [fits, h0, fa]) h
      · simp only [h1, if_false] at h
        by_cases h2 : t.tt = .LEFT_BRACKET
        · simp only [h2, if_true] at h
          ibind h i r2 hi
          have fi := ih.asg r0 i r2 hi
          ibind h t2 r3 h3
          exact ih.suf _ r3 e r (by simp [fits, h0, fi]) h
        · simp only [h2, if_false] at h
          by_cases h3 : t.tt = .DOT
          · simp only [h3, if_true] at h
            ibind h t2 r2 h4
            exact ih.suf _ r2 e r (by simp [fits, h0]) h
          · simp only [h3, if_false] at h
            cases h
            exact h0
    · -- exprList
      intro ts es r h
      rw [exprList] at h
      ibind h a r0 ha
      have fa := ih.asg ts a r0 ha
      ipeek h t r2
      by_cases ht : t.tt = .COMMA
      · simp only [ht, if_true] at h
        ibind h rest r3 hr
        cases h
        simp [fitsAll, fa, ih.lst r2 rest r hr]
      · simp only [ht, if_false] at h
        cases h
        simp [fitsAll, fa]
    · -- objProps
      intro ts ps r h
      rw [objProps] at h
      ipeek h t r0
      by_cases hend : (t.tt = .RIGHT_BRACE || t.tt = .EOF) = true
      · simp only [hend, if_true] at h
        cases h
        simp [fitsProps]
      · simp only [hend, if_false] at h
        ibind h tn rn hn
        ibind h tc r1 hc
        ibind h v r2 hv
        have fv := ih.asg r1 v r2 hv
        ipeek h t2 r3
        by_cases h2 : t2.tt = .COMMA
        · simp only [h2, if_true] at h
          ibind h ps' r4 hp
          try dsimp only at h
          cases h
          simp [fitsProps, fv, (ih.obj r3 ps' r hp).1]
        · simp only [h2, if_false] at h
          cases h
          simp [fitsProps, fv]
    · -- primary
      intro ts e r h
      rw [primary] at h
      ipeek h t r0
      split at h
      · cases h; simp [fits]
      · cases h; simp [fits]
      · cases h; simp [fits]
      · cases h; simp [fits]
      · cases h; simp [fits]
      · cases h; simp [fits]
      · ibind h e1 r2 he
        ibind h t2 r3 h3
        cases h
        simp [fits, ih.asg r0 e1 r2 he]
      · ipeek h t2 r2
        by_cases h2 : t2.tt = .RIGHT_BRACKET
        · simp only [h2, if_true] at h
          cases h
          simp [fits, fitsAll]
        · simp only [h2, if_false] at h
          ibind h es r3 hes
          ibind h t3 r4 h3
          cases h
          simp [fits, ih.lst (t2 :: r2) es r3 hes]
      · ibind h ps r2 hps
        ibind h t3 r4 h3
        cases h
        obtain ⟨ho1, ho2⟩ := ih.obj r0 ps r2 hps
        cases hps1 : ps.1 with
        | nil => simp [fits, fitsProps, ho2 hps1]
        | cons a b => rw [hps1] at ho1; simp [fits, ho1]
      · cases h

end Borno.Parser
