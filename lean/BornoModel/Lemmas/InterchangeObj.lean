import BornoModel.Lemmas.Interchange
/-! # Interchange inside object-literal initialisers -/
namespace Borno
variable (P : Platform)

/-- property lists with the same keys, position by position, and related values -/
inductive RelP (R : Expr → Expr → Prop) : List (Name × Expr) → List (Name × Expr) → Prop
  | nil : RelP R [] []
  | cons {k : Name} {e e' : Expr} {ps ps' : List (Name × Expr)} : R e e' → RelP R ps ps' → RelP R ((k, e) :: ps) ((k, e') :: ps')

theorem relP_upsert {R : Expr → Expr → Prop} (k : Name) {e e' : Expr} (he : R e e') :
    ∀ {acc acc' : List (Name × Expr)}, RelP R acc acc' → RelP R (upsert k e acc) (upsert k e' acc')
  | _, _, .nil => .cons he .nil
  | _, _, @RelP.cons _ k0 x x' ps ps' hx hps => by
    show RelP R (if k0 = k then (k0, e) :: ps else (k0, x) :: upsert k e ps) (if k0 = k then (k0, e') :: ps' else (k0, x') :: upsert k e' ps')
    by_cases hk : k0 = k
    · simp only [hk, if_true]; exact .cons he hps
    · simp only [hk, if_false]; exact .cons hx (relP_upsert k he hps)

theorem relP_foldl {R : Expr → Expr → Prop} : ∀ {ps ps' : List (Name × Expr)}, RelP R ps ps' →
    ∀ {acc acc' : List (Name × Expr)}, RelP R acc acc' →
    RelP R (ps.foldl (fun a p => upsert p.1 p.2 a) acc) (ps'.foldl (fun a p => upsert p.1 p.2 a) acc')
  | _, _, .nil, _, _, ha => ha
  | _, _, .cons he hps, _, _, ha => relP_foldl hps (relP_upsert _ he ha)

theorem relP_effective {R : Expr → Expr → Prop} {ps ps' : List (Name × Expr)} (h : RelP R ps ps') :
    RelP R (effectiveProps ps) (effectiveProps ps') := relP_foldl h .nil

theorem settlesP (ps : List (Name × Expr)) (env : Nat) (repl : Bool) (σ : Store) : Settles (fun F => evalProps P F ps env repl σ) :=
  settles_of_le _ (fun f => (mono P f).p ps env repl σ)

theorem evalProps_ev2 {ps ps' : List (Name × Expr)} (h : RelP (EvEq P) ps ps') (env : Nat) (repl : Bool) :
    ∀ σ, Ev2 (fun F => evalProps P F ps env repl σ) (fun F => evalProps P F ps' env repl σ) := by
  induction h with
  | nil => intro σ; exact Ev2.refl _
  | @cons k e e' ps ps' he _ ih =>
    intro σ
    refine ev2_of_succ ?_
    simp only [evalProps]
    exact ev2_bind (he env repl σ) (settlesE P _ _ _ _) (fun _ σ1 => ev2_ite (Ev2.refl _) (ev2_bind (ih σ1) (settlesP P _ _ _ _) (fun _ _ => Ev2.refl _)))

theorem cong_objectLit {ps ps' : List (Name × Expr)} (tc : Bool) (h : RelP (EvEq P) ps ps') : EvEq P (.objectLit ps tc) (.objectLit ps' tc) := by
  refine evEq_of_succ P (fun env repl σ => ?_); simp only [evalE]; refine ev2_guard ?_
  exact ev2_bind (evalProps_ev2 P (relP_effective h) env repl σ) (settlesP P _ _ _ _) (fun _ _ => Ev2.refl _)

theorem RelP.refl_ev : ∀ (ps : List (Name × Expr)), RelP (EvEq P) ps ps
  | [] => .nil
  | (_, e) :: ps => .cons (EvEq.refl P e) (RelP.refl_ev ps)

theorem RelP.hole (pre post : List (Name × Expr)) (k : Name) {e e' : Expr} (h : EvEq P e e') :
    RelP (EvEq P) (pre ++ (k, e) :: post) (pre ++ (k, e') :: post) := by
  induction pre with
  | nil => exact .cons h (RelP.refl_ev P post)
  | cons x pre ih => exact .cons (EvEq.refl P x.2) ih

/-- the remaining hole position: the initialiser of a property of an object literal (inside any context) -/
theorem plug_congr_propVal (C : Ctx) (pre post : List (Name × Expr)) (k : Name) (tc : Bool) (D : Ctx) {e e' : Expr} (h : EvEq P e e') :
    EvEq P (C.plug (.objectLit (pre ++ (k, D.plug e) :: post) tc)) (C.plug (.objectLit (pre ++ (k, D.plug e') :: post) tc)) :=
  plug_congr P C (cong_objectLit P tc (RelP.hole P pre post k (plug_congr P D h)))

end Borno
