package interpreter

import (
	"fmt"
	"math"
	"reflect"
	"strconv"

	"blessedborno/ast"
	"blessedborno/environment"
	"blessedborno/token"
	"blessedborno/utils"
	"golang.org/x/text/unicode/norm"
)

// Interpreter struct represents the execution context for evaluating expressions and statements.
type Interpreter struct {
	globals *environment.Environment
}

type ControlFlowSignal struct {
	Type       int
	LineNumber int
	Value      interface{}
}

// NewInterpreter creates a new instance of the Interpreter with the given environment.
func NewInterpreter() *Interpreter {
	// Define the global environment and set up the clock function first
	globals := environment.NewEnvironment()

	globals.Define("ক্লক", NativeClockFn{})
	globals.Define("লেন", NativeLenFn{})
	globals.Define("এড", NativeAppendFn{}) // Register `append` function
	globals.Define("রিমুভ", NativeRemoveFn{})
	globals.Define("কি_রিমুভ", NativeDeleteFn{})
	globals.Define("অব্জেক্ট_কি", NativeKeysFn{})
	globals.Define("অব্জেক্ট_মান", NativeValuesFn{})

	globals.Define("পরমমান", NativeAbsFn{})
	globals.Define("বর্গমূল", NativeSqrtFn{})
	globals.Define("ঘাত", NativePowFn{})
	globals.Define("সাইন", NativeSinFn{})
	globals.Define("কসাইন", NativeCosFn{})
	globals.Define("ট্যান", NativeTanFn{})
	globals.Define("সর্বনিম্ন", NativeMinFn{})
	globals.Define("সর্বোচ্চ", NativeMaxFn{})
	globals.Define("রাউন্ড", NativeRoundFn{})

	globals.Define("ইনপুট", NativeInputFn{})

	// Then, create the Interpreter instance with the global environment
	i := &Interpreter{
		globals: globals, // Store the reference to the global environment
	}

	return i
}

const (
	ControlFlowNone int = iota
	ControlFlowBreak
	ControlFlowContinue
	ControlFlowReturn
)

func (i *Interpreter) Interpret(statements []ast.Stmt, isRepl bool) []interface{} {
	var results []interface{}
	env := environment.NewEnvironmentWithParent(i.globals)

	for _, statement := range statements {
		// fmt.Printf("%#v\n", statement)
		result, signal := i.eval(statement, env, isRepl)
		if signal.Type == ControlFlowBreak {
			utils.RuntimeError(token.Token{Line: signal.LineNumber}, "Unexpected 'break' outside of loop.")
			return nil
		} else if signal.Type == ControlFlowContinue {
			utils.RuntimeError(token.Token{Line: signal.LineNumber}, "Unexpected 'continue' outside of loop.")
			return nil
		} else if signal.Type == ControlFlowReturn {
			utils.RuntimeError(token.Token{Line: signal.LineNumber}, "Unexpected 'return' outside of function.")
			return nil
		}
		// fmt.Printf("%#v\n", result)
		if utils.HadRuntimeError {
			return nil // Stop execution if a runtime error occurred during evaluation
		}
		results = append(results, result)
	}

	return results
}

func (i *Interpreter) eval(expr ast.Expr, env *environment.Environment, isRepl bool) (interface{}, *ControlFlowSignal) {
	// fmt.Printf("%T\n", expr)
	if utils.HadRuntimeError {
		// A runtime error has been reported: nothing else is evaluated.
		return nil, &ControlFlowSignal{Type: ControlFlowNone, LineNumber: 0}
	}
	switch e := expr.(type) {
	case *ast.PropertyAssignment:
		objectValue, signal := i.eval(e.Object, env, isRepl)
		if signal.Type != ControlFlowNone {
			return nil, signal
		}

		// Ensure the object is a map
		object, ok := objectValue.(map[string]interface{})
		if !ok {
			utils.RuntimeError(token.Token{Line: e.Line}, "Invalid object assignment. Not an object.")
			return nil, &ControlFlowSignal{Type: ControlFlowNone, LineNumber: 0}
		}

		// Evaluate the new value to assign
		newValue, signal := i.eval(e.Value, env, isRepl)
		if signal.Type != ControlFlowNone {
			return nil, signal
		}

		// Assign the new value to the property
		propertyName := e.Property.Lexeme
		object[propertyName] = newValue

		return newValue, &ControlFlowSignal{Type: ControlFlowNone, LineNumber: 0}
	case *ast.ObjectLiteral:
		properties := make(map[string]interface{})

		for _, key := range e.Keys {
			value, signal := i.eval(e.Properties[key], env, isRepl)
			if signal.Type != ControlFlowNone {
				return nil, signal
			}
			
			// If 'value' is a []rune, convert it to a string
			if runes, ok := value.([]rune); ok {
				properties[key] = string(runes)
			} else {
				properties[key] = value
			}
		}

		return properties, &ControlFlowSignal{Type: ControlFlowNone, LineNumber: 0}

	case *ast.PropertyAccess:
		objectValue, signal := i.eval(e.Object, env, isRepl)
		if signal.Type != ControlFlowNone {
			return nil, signal
		}

		object, ok := objectValue.(map[string]interface{})
		if !ok {
			utils.RuntimeError(token.Token{Line: e.Line}, "Invalid property access. Not an object.")
			return nil, &ControlFlowSignal{Type: ControlFlowNone, LineNumber: 0}
		}

		propertyName := e.Property.Lexeme
		value, exists := object[propertyName]
		if !exists {
			utils.RuntimeError(token.Token{Line: e.Line}, "Property '"+propertyName+"' does not exist on object '"+e.Object.String()+"'.")
			return nil, &ControlFlowSignal{Type: ControlFlowNone, LineNumber: 0}
		}

		return value, &ControlFlowSignal{Type: ControlFlowNone, LineNumber: 0}

	case *ast.ArrayLiteral:
		elements := []interface{}{}
		for _, element := range e.Elements {
			value, signal := i.eval(element, env, isRepl)
			if signal.Type != ControlFlowNone {
				return nil, signal
			}
			elements = append(elements, value)
		}
		return elements, &ControlFlowSignal{Type: ControlFlowNone, LineNumber: 0}

	case *ast.ArrayAccess:
		arrayValue, signal := i.eval(e.Array, env, isRepl)
		if signal.Type != ControlFlowNone {
			return nil, signal
		}

		indexValue, signal := i.eval(e.Index, env, isRepl)
		if signal.Type != ControlFlowNone {
			return nil, signal
		}

		// Ensure the array is a slice and the index is a number
		array, ok := arrayValue.([]interface{})

		if !ok {
			utils.RuntimeError(token.Token{Line: e.Line}, "Invalid array access. Not an array.")
			return nil, &ControlFlowSignal{Type: ControlFlowNone, LineNumber: 0}
		}

		index, err := toInt64(indexValue)
		if err != nil {
			utils.RuntimeError(token.Token{Line: e.Line}, "Array index must be an integer.")
			return nil, &ControlFlowSignal{Type: ControlFlowNone, LineNumber: 0}
		}

		if index < 0 || int(index) >= len(array) {
			utils.RuntimeError(token.Token{Line: e.Line}, "Array index out of bounds.")
			return nil, &ControlFlowSignal{Type: ControlFlowNone, LineNumber: 0}
		}

		return array[index], &ControlFlowSignal{Type: ControlFlowNone, LineNumber: 0}

	case *ast.ArrayAssignment:
		arrayValue, signal := i.eval(e.Array, env, isRepl)
		if signal.Type != ControlFlowNone {
			return nil, signal
		}

		indexValue, signal := i.eval(e.Index, env, isRepl)
		if signal.Type != ControlFlowNone {
			return nil, signal
		}

		newValue, signal := i.eval(e.Value, env, isRepl)
		if signal.Type != ControlFlowNone {
			return nil, signal
		}

		// Ensure the array is a slice and the index is a number
		array, ok := arrayValue.([]interface{})
		if !ok {
			utils.RuntimeError(token.Token{Line: e.Line}, "Invalid array assignment. Not an array.")
			return nil, &ControlFlowSignal{Type: ControlFlowNone, LineNumber: 0}
		}

		index, err := toInt64(indexValue)
		if err != nil {
			utils.RuntimeError(token.Token{Line: e.Line}, "Array index must be an integer.")
			return nil, &ControlFlowSignal{Type: ControlFlowNone, LineNumber: 0}
		}

		if index < 0 || int(index) >= len(array) {
			utils.RuntimeError(token.Token{Line: e.Line}, "Array index out of bounds.")
			return nil, &ControlFlowSignal{Type: ControlFlowNone, LineNumber: 0}
		}

		// Update the array element
		array[index] = newValue
		return newValue, &ControlFlowSignal{Type: ControlFlowNone, LineNumber: 0}

	case *ast.FunctionStmt:
		function := NewFunction(e, environment.NewEnvironmentWithParent(env))
		// fmt.Printf("%#v %#v\n",e.Name.Lexeme, function)
		env.Define(e.Name.Lexeme, function)
		return nil, &ControlFlowSignal{Type: ControlFlowNone, LineNumber: 0}

	case *ast.Return:
		var value interface{}
		if e.Value != nil {
			v, signal := i.eval(e.Value, env, isRepl)
			if signal.Type != ControlFlowNone {
				return nil, signal
			}
			value = v
		}
		return nil, &ControlFlowSignal{Type: ControlFlowReturn, LineNumber: e.Keyword.Line, Value: value}

	case *ast.Call:
		// Step 1: Evaluate the callee (the thing being called)

		callee, signal := i.eval(e.Callee, env, isRepl)

		if signal.Type != ControlFlowNone {
			return nil, signal
		}

		// Ensure the callee is a callable function
		function, ok := callee.(Callable)
		if !ok {
			utils.RuntimeError(e.Paren, "Can only call functions.")
			return nil, &ControlFlowSignal{Type: ControlFlowNone, LineNumber: 0}
		}

		if function.Arity() != -1 && len(e.Arguments) != function.Arity() {
			utils.RuntimeError(e.Paren, fmt.Sprintf("Expected %d arguments but %d.", function.Arity(), len(e.Arguments)))
			return nil, &ControlFlowSignal{Type: ControlFlowNone, LineNumber: 0}
		}

		// Step 2: Evaluate each argument and collect them in a list
		var arguments []interface{}
		for _, arg := range e.Arguments {
			argValue, signal := i.eval(arg, env, isRepl)
			if signal.Type != ControlFlowNone {
				return nil, signal
			}
			arguments = append(arguments, argValue)
		}

		if utils.HadRuntimeError {
			return nil, &ControlFlowSignal{Type: ControlFlowNone, LineNumber: 0}
		}

		// Step 3: Call the function and return its result
		result, err := function.Call(i, arguments)
		if err != nil {
			utils.RuntimeError(e.Paren, "Function call failed: "+err.Error())
			return nil, &ControlFlowSignal{Type: ControlFlowNone, LineNumber: 0}
		}

		return result, &ControlFlowSignal{Type: ControlFlowNone, LineNumber: 0}

	case *ast.PrintStatement:
		value, signal := i.eval(e.Expression, env, isRepl)
		if signal.Type != ControlFlowNone {
			return value, signal
		}
		if utils.HadRuntimeError {
			return nil, &ControlFlowSignal{Type: ControlFlowNone, LineNumber: 0} // Stop execution if a runtime error occurred during evaluation
		}

		if val, ok := value.([]rune); ok {
			s := string(val)
			fmt.Println(norm.NFC.String(s))
		} else {
			fmt.Println(norm.NFC.String(stringify(value)))
		}

		return nil, &ControlFlowSignal{Type: ControlFlowNone, LineNumber: 0}

	case *ast.ExpressionStatement:
		value, signal := i.eval(e.Expression, env, isRepl)

		if signal.Type != ControlFlowNone {
			return nil, signal
		}
		if isRepl && !utils.HadRuntimeError {
			if val, ok := value.([]rune); ok {
				fmt.Println(string(val))
			} else {
				fmt.Println(stringify(value))
			}
		}
		return value, &ControlFlowSignal{Type: ControlFlowNone, LineNumber: 0}

	case *ast.Literal:
		return e.Value, &ControlFlowSignal{Type: ControlFlowNone, LineNumber: 0}

	case *ast.Grouping:
		return i.eval(e.Expression, env, isRepl)

	case *ast.Unary:
		right, signal := i.eval(e.Right, env, isRepl)
		if signal.Type != ControlFlowNone {
			return nil, signal
		}
		if utils.HadRuntimeError {
			return nil, &ControlFlowSignal{Type: ControlFlowNone, LineNumber: 0}
		}
		return evaluateUnary(e.Operator, right), &ControlFlowSignal{Type: ControlFlowNone, LineNumber: 0}

	case *ast.Binary:
		left, signal := i.eval(e.Left, env, isRepl)
		if signal.Type != ControlFlowNone {
			return nil, signal
		}
		if utils.HadRuntimeError {
			return nil, &ControlFlowSignal{Type: ControlFlowNone, LineNumber: 0}
		}
		right, signal := i.eval(e.Right, env, isRepl)
		if signal.Type != ControlFlowNone {
			return nil, signal
		}
		if utils.HadRuntimeError {
			return nil, &ControlFlowSignal{Type: ControlFlowNone, LineNumber: 0}
		}
		return evaluateBinary(left, e.Operator, right), &ControlFlowSignal{Type: ControlFlowNone, LineNumber: 0}

	case *ast.VarStmt:
		var value interface{}
		if e.Initializer != nil {
			v, signal := i.eval(e.Initializer, env, isRepl)
			if signal.Type != ControlFlowNone {
				return nil, signal
			}
			if utils.HadRuntimeError {
				return nil, &ControlFlowSignal{Type: ControlFlowNone, LineNumber: 0}
			}
			value = v
		}
		_, err := env.GetInCurrentScope(e.Name.Lexeme)
		if err != nil {
			env.Define(e.Name.Lexeme, value)
		} else {
			utils.RuntimeError(token.Token{Line: e.Line}, "Cannot redeclare variable "+e.Name.Lexeme+".")
			return nil, &ControlFlowSignal{Type: ControlFlowNone, LineNumber: 0}
		}
		return nil, &ControlFlowSignal{Type: ControlFlowNone, LineNumber: 0}

	case *ast.VarListStmt:
		for _, decl := range e.Declarations {
			_, signal := i.eval(&decl, env, isRepl)
			if signal.Type != ControlFlowNone {
				return nil, signal
			}
			if utils.HadRuntimeError {
				return nil, &ControlFlowSignal{Type: ControlFlowNone, LineNumber: 0}
			}
		}
		return nil, &ControlFlowSignal{Type: ControlFlowNone, LineNumber: 0}

	case *ast.AssignmentStmt:
		val, signal := i.eval(e.Value, env, isRepl)
		if signal.Type != ControlFlowNone {
			return nil, signal
		}
		if utils.HadRuntimeError {
			return nil, &ControlFlowSignal{Type: ControlFlowNone, LineNumber: 0}
		}
		env.Assign(e.Name, val)
		return val, &ControlFlowSignal{Type: ControlFlowNone, LineNumber: 0}

	case *ast.Identifier:
		val, err := env.Get(e.Name.Lexeme)
		if err != nil {
			utils.RuntimeError(token.Token{Line: e.Line}, "Variable "+e.Name.Lexeme+" is not defined.")
			return nil, &ControlFlowSignal{Type: ControlFlowNone, LineNumber: 0}
		}
		return val, &ControlFlowSignal{Type: ControlFlowNone, LineNumber: 0}

	case *ast.BlockStmt:
		newEnv := environment.NewEnvironmentWithParent(env)
		for _, statement := range e.Block {
			_, signal := i.eval(statement, newEnv, isRepl)
			if signal.Type != ControlFlowNone {
				return nil, signal
			}
			if utils.HadRuntimeError {
				return nil, &ControlFlowSignal{Type: ControlFlowNone, LineNumber: 0}
			}
		}
		return nil, &ControlFlowSignal{Type: ControlFlowNone, LineNumber: 0}

	case *ast.IfStmt:
		cc, signal := i.eval(e.Condition, env, isRepl)
		if signal.Type != ControlFlowNone {
			return nil, signal
		}
		if isTruthy(cc) {
			_, signal := i.eval(e.ThenBranch, env, isRepl)
			if signal.Type != ControlFlowNone {
				return nil, signal
			}
		} else if e.ElseBranch != nil {
			_, signal := i.eval(e.ElseBranch, env, isRepl)
			if signal.Type != ControlFlowNone {
				return nil, signal
			}
		}
		return nil, &ControlFlowSignal{Type: ControlFlowNone, LineNumber: 0}

	case *ast.Logical:
		left, signal := i.eval(e.Left, env, isRepl)
		if signal.Type != ControlFlowNone {
			return nil, signal
		}
		// fmt.Printf("%v %v %v\n", left, e.Operator.Type, token.OR)
		if e.Operator.Type == token.LOGICAL_OR {
			if isTruthy(left) {
				return left, &ControlFlowSignal{Type: ControlFlowNone, LineNumber: 0}
			}
		} else {
			if !isTruthy(left) {
				return left, &ControlFlowSignal{Type: ControlFlowNone, LineNumber: 0}
			}
		}
		return i.eval(e.Right, env, isRepl)

	case *ast.While:
		for {
			condVal, signal := i.eval(e.Condition, env, isRepl)
			if signal.Type != ControlFlowNone {
				return nil, signal // Propagate signal upwards
			}
			if !isTruthy(condVal) {
				break
			}

			_, signal = i.eval(e.Body, env, isRepl)
			if signal.Type == ControlFlowBreak {
				break // Exit the loop
			}
			if signal.Type == ControlFlowReturn {
				return nil, signal // A return inside the loop leaves the enclosing function
			}
		}
		return nil, &ControlFlowSignal{Type: ControlFlowNone, LineNumber: 0}

	case *ast.ForStmt:
		// Execute the initializer
		newEnvironement := environment.NewEnvironmentWithParent(env)
		if e.Initializer != nil {
			_, signal := i.eval(e.Initializer, newEnvironement, isRepl)
			if signal.Type != ControlFlowNone {
				return nil, signal
			}
		}

		for {
			// Check the condition
			if e.Condition != nil {
				condVal, signal := i.eval(e.Condition, newEnvironement, isRepl)
				if signal.Type != ControlFlowNone {
					return nil, signal
				}
				if !isTruthy(condVal) {
					break
				}
			}
			// Execute the body
			_, signal := i.eval(e.Body, newEnvironement, isRepl)
			if signal.Type == ControlFlowBreak {
				break
			}
			if signal.Type == ControlFlowContinue {
				// Skip to the increment
			} else if signal.Type != ControlFlowNone {
				return nil, signal
			}

			// Execute the increment
			if e.Increment != nil {
				_, signal := i.eval(e.Increment, newEnvironement, isRepl)
				if signal.Type != ControlFlowNone {
					return nil, signal
				}
			}
		}
		return nil, &ControlFlowSignal{Type: ControlFlowNone, LineNumber: 0}

	case *ast.BreakStmt:
		return nil, &ControlFlowSignal{Type: ControlFlowBreak, LineNumber: e.Line}

	case *ast.ContinueStmt:
		return nil, &ControlFlowSignal{Type: ControlFlowContinue, LineNumber: e.Line}

	default:
		lineNumber := getLineNumber(expr)
		utils.RuntimeError(token.Token{Line: lineNumber}, "Unknown expression type.")
		return nil, &ControlFlowSignal{Type: ControlFlowNone, LineNumber: 0}
	}
}

func evaluateBinary(left interface{}, operator token.Token, right interface{}) interface{} {
	if utils.HadRuntimeError {
		return nil
	}

	switch operator.Type {
	case token.PLUS:
		return handleAddition(left, right, operator)

	case token.MINUS, token.STAR, token.SLASH:
		return handleArithmetic(left, right, operator)

	case token.EQUAL_EQUAL, token.BANG_EQUAL:
		return handleEquality(left, right, operator)

	case token.GREATER, token.GREATER_EQUAL, token.LESS, token.LESS_EQUAL:
		return handleComparison(left, right, operator)

	case token.AND, token.OR, token.XOR, token.LEFT_SHIFT, token.RIGHT_SHIFT:
		return handleBitwise(left, right, operator)

	case token.POWER:
		leftFloat, err := toNumber(left)
		if err != nil {
			utils.RuntimeError(operator, "Left operand must be a number.")
			return nil
		}
		rightFloat, err := toNumber(right)
		if err != nil {
			utils.RuntimeError(operator, "Right operand must be a number.")
			return nil
		}
		return math.Pow(leftFloat, rightFloat)

	case token.MODULO:
		leftNum, err := toNumber(left)
		if err != nil {
			utils.RuntimeError(operator, "Left operand must be a number.")
			return nil
		}
		rightNum, err := toNumber(right)
		if err != nil {
			utils.RuntimeError(operator, "Right operand must be a number.")
			return nil
		}
		if rightNum == 0 {
			utils.RuntimeError(operator, "Division by zero.")
			return nil
		}
		return math.Mod(leftNum, rightNum)

	default:
		utils.RuntimeError(operator, "Unknown binary operator: "+operator.Lexeme)
		return nil
	}
}

func evaluateUnary(operator token.Token, right interface{}) interface{} {
	if utils.HadRuntimeError {
		return nil
	}
	// fmt.Printf("%#v\n", operator)
	switch operator.Type {
	case token.MINUS:
		value, err := toNumber(right)
		if err != nil {
			utils.RuntimeError(operator, err.Error())
			return nil
		}
		return -value

	case token.BANG:
		return !isTruthy(right)

	case token.NOT:
		value, err := toInt64(right)
		if err != nil {
			utils.RuntimeError(operator, err.Error())
			return nil
		}
		return float64(^value)

	default:
		utils.RuntimeError(operator, "Unknown unary operator: "+operator.Lexeme)
		return nil
	}
}

// Helper functions to reduce code duplication

func handleAddition(left, right interface{}, operator token.Token) interface{} {
	// Handle number addition and string concatenation
	switch l := left.(type) {
	case int64, float64:
		leftNum, err := toNumber(left)
		if err != nil {
			utils.RuntimeError(operator, "Left operand must be a number.")
			return nil
		}
		rightStr, ok := right.(string)
		if ok {
			return fmt.Sprintf("%v", leftNum) + rightStr
		}
		if rightStr, ok := right.([]rune); ok {
			return fmt.Sprintf("%v", leftNum) + string(rightStr)
		}
		rightNum, err := toNumber(right)
		if err == nil {
			return leftNum + rightNum
		}
	case string:
		rightStr, err := stringifyOperand(right)
		if err != nil {
			utils.RuntimeError(operator, "Right operand must be a string or number.")
			return nil
		}
		return l + rightStr
	case []rune:
		var rightStr string
		// Check the type of the right operand:
		switch r := right.(type) {
		case []rune:
			// Both operands are []rune; convert them to strings.
			rightStr = string(r)
		case string:
			rightStr = r
		case bool:
			rightStr = "false"
			if r {
				rightStr = "true"
			}
		default:
			// If the right operand isn’t directly a string or []rune,
			// attempt to stringify it using your helper.
			var err error
			rightStr, err = stringifyOperand(right)
			if err != nil {
				utils.RuntimeError(operator, "Right operand must be a string or number.")
				return nil
			}
		}
		// Convert leftVal (a []rune) to a string and add.
		return string(l) + rightStr
	}
	utils.RuntimeError(operator, "Operands must be numbers or strings.")
	return nil
}

func handleArithmetic(left, right interface{}, operator token.Token) interface{} {
	leftNum, err := toNumber(left)
	if err != nil {
		utils.RuntimeError(operator, "Left operand must be a number.")
		return nil
	}
	rightNum, err := toNumber(right)
	if err != nil {
		utils.RuntimeError(operator, "Right operand must be a number.")
		return nil
	}

	switch operator.Type {
	case token.MINUS:
		return leftNum - rightNum
	case token.STAR:
		return leftNum * rightNum
	case token.SLASH:
		if rightNum == 0 {
			utils.RuntimeError(operator, "Division by zero.")
			return nil
		}
		return leftNum / rightNum
	}
	return nil
}

func handleEquality(left, right interface{}, operator token.Token) interface{} {
	isEqual := isEqual(left, right)
	if operator.Type == token.BANG_EQUAL {
		return !isEqual
	}
	return isEqual
}

func handleComparison(left, right interface{}, operator token.Token) interface{} {
	leftNum, err := toNumber(left)
	if err != nil {
		utils.RuntimeError(operator, "Left operand must be a number.")
		return nil
	}
	rightNum, err := toNumber(right)
	if err != nil {
		utils.RuntimeError(operator, "Right operand must be a number.")
		return nil
	}

	switch operator.Type {
	case token.GREATER:
		return leftNum > rightNum
	case token.GREATER_EQUAL:
		return leftNum >= rightNum
	case token.LESS:
		return leftNum < rightNum
	case token.LESS_EQUAL:
		return leftNum <= rightNum
	}
	return nil
}

func handleBitwise(left, right interface{}, operator token.Token) interface{} {
	leftInt, err := toInt64(left)
	if err != nil {
		utils.RuntimeError(operator, "Left operand must be an integer.")
		return nil
	}
	rightInt, err := toInt64(right)
	if err != nil {
		utils.RuntimeError(operator, "Right operand must be an integer.")
		return nil
	}

	if (operator.Type == token.LEFT_SHIFT || operator.Type == token.RIGHT_SHIFT) && rightInt < 0 {
		utils.RuntimeError(operator, "Shift count must not be negative.")
		return nil
	}

	switch operator.Type {
	case token.AND:
		return float64(leftInt & rightInt)
	case token.OR:
		return float64(leftInt | rightInt)
	case token.XOR:
		return float64(leftInt ^ rightInt)
	case token.LEFT_SHIFT:
		return float64(leftInt << rightInt)
	case token.RIGHT_SHIFT:
		return float64(leftInt >> rightInt)
	case token.POWER:
		return int64(math.Pow(float64(leftInt), float64(rightInt)))
	}
	return nil
}

// Helper functions for type conversions

func toNumber(value interface{}) (float64, error) {
	switch v := value.(type) {
	case int64:
		return float64(v), nil
	case float64:
		return v, nil
	case string:
		ascii := utils.ConvertBanglaDigitsToASCII(v)
		num, err := strconv.ParseFloat(ascii, 64)
		if err != nil {
			return 0, fmt.Errorf("expected a number, got string %q", v)
		}
		return num, nil
	default:
		return 0, fmt.Errorf("expected a number, got %T", value)
	}
}

func toInt64(value interface{}) (int64, error) {
	switch v := value.(type) {
	case int64:
		return v, nil
	case float64:
		if float64(int64(v)) == v {
			return int64(v), nil
		}
		return 0, fmt.Errorf("expected an integer, got float %v", v)
	case string:
		ascii := utils.ConvertBanglaDigitsToASCII(v)
		num, err := strconv.ParseFloat(ascii, 64)
		if err != nil {
			return 0, fmt.Errorf("expected an integer, got string %q", v)
		}
		if float64(int64(num)) == num {
			return int64(num), nil
		}
		return 0, fmt.Errorf("expected an integer, got float %v", num)
	default:
		return 0, fmt.Errorf("expected an integer, got %T", value)
	}
}

func stringifyOperand(value interface{}) (string, error) {
	switch v := value.(type) {
	case int64, float64, string:
		return fmt.Sprintf("%v", v), nil
	case []rune:
		return fmt.Sprintf("%v", string(v)), nil
	default:
		return "", fmt.Errorf("cannot stringify value of type %T", value)
	}
}

func isTruthy(value interface{}) bool {
	if value == nil {
		return false
	}
	if b, ok := value.(bool); ok {
		return b
	}
	if num, ok := value.(float64); ok {
		// 0.0 should be false, any non-zero number should be true
		return num != 0.0
	}
	if str, ok := value.(string); ok {
		// An empty string should be false, non-empty string should be true
		return str != ""
	}
	if num, ok := value.(int64); ok {
		return num != 0
	}
	if num, ok := value.(int); ok {
		return num != 0
	}
	return true // Everything else is considered true
}

func isEqual(a, b interface{}) bool {
	// Arrays and objects are references: equal only to themselves.
	// (Comparing two slices or two maps with == panics in Go.)
	switch x := a.(type) {
	case []interface{}:
		y, ok := b.([]interface{})
		return ok && len(x) == len(y) && (len(x) == 0 || &x[0] == &y[0])
	case map[string]interface{}:
		y, ok := b.(map[string]interface{})
		return ok && reflect.ValueOf(x).Pointer() == reflect.ValueOf(y).Pointer()
	}
	switch b.(type) {
	case []interface{}, map[string]interface{}:
		return false
	}
	return a == b
}

func getLineNumber(expr ast.Expr) int {
	switch e := expr.(type) {
	case *ast.Binary:
		return e.Line
	case *ast.Unary:
		return e.Line
	case *ast.Literal:
		return e.Line
	case *ast.Grouping:
		return e.Line
	case *ast.VarStmt:
		return e.Name.Line
	case *ast.Identifier:
		return e.Line
	case *ast.BreakStmt:
		return e.Line
	case *ast.ContinueStmt:
		return e.Line

	// Add cases for other expression types if necessary
	default:
		return 0 // Return 0 if line number is not available
	}
}

func stringify(value interface{}) string {
	if value == nil {
		return "nil"
	}
	if valRune, ok := value.([]rune); ok {
		return string(valRune)
	}
	return fmt.Sprintf("%v", value)
}
