import BornoModel.Eval
import BornoModel.Lemmas.ListAux
/-!
# Ext — what every evaluation step preserves

`Ext σ σ'` ("σ' extends σ") collects the store properties that hold across *any* piece of
evaluation: tables only grow, closures are immutable, arrays never change length, frames keep
their parent and only gain names, the error flag is monotone, and — the heart of C06 — once the
flag is set nothing observable happens any more except further diagnostics.
-/
namespace Borno

def Ev.isDiag : Ev → Bool
  | .diag _ => true
  | _ => false

/-- `quiet err new`: in the event sequence `new`, started with error flag `err`, every event that
    follows a diagnostic (or that happens while `err` is already set) is itself a diagnostic -/
def quiet : Bool → List Ev → Bool
  | _, [] => true
  | err, e :: es => if e.isDiag then quiet true es else (!err && quiet err es)

theorem quiet_append (err : Bool) (a b : List Ev) (ha : quiet err a = true) (hb : quiet (err || a.any Ev.isDiag) b = true) :
    quiet err (a ++ b) = true := by
  induction a generalizing err with
  | nil => simpa using hb
  | cons e es ih =>
    simp only [List.cons_append, quiet] at ha ⊢
    by_cases he : e.isDiag = true
    · simp only [he, if_true] at ha ⊢
      exact ih true ha (by simpa [he] using hb)
    · simp only [he, Bool.false_eq_true, if_false, Bool.and_eq_true, Bool.not_eq_eq_eq_not, Bool.not_true] at ha ⊢
      refine ⟨ha.1, ih err ha.2 ?_⟩
      have he' : e.isDiag = false := by simpa using he
      simpa [List.any_cons, he'] using hb

theorem quiet_true_all_diag : ∀ (l : List Ev), quiet true l = true → l.all Ev.isDiag = true
  | [], _ => rfl
  | e :: es, h => by
    simp only [quiet] at h
    by_cases he : e.isDiag = true
    · simp only [he, if_true] at h; simp [he, quiet_true_all_diag es h]
    · simp [he] at h

/-- the bytes the `out` events of a trace write to stdout, in order -/
def outOf : List Ev → List Char
  | [] => []
  | .out s :: es => s ++ outOf es
  | _ :: es => outOf es

/-- the diagnostics a trace reports, in order -/
def diagsOf : List Ev → List Diag
  | [] => []
  | .diag d :: es => d :: diagsOf es
  | _ :: es => diagsOf es

/-- the number of built-in invocations in a trace -/
def nativesOf : List Ev → Nat
  | [] => 0
  | .native :: es => nativesOf es + 1
  | _ :: es => nativesOf es

theorem outOf_append (a b : List Ev) : outOf (a ++ b) = outOf a ++ outOf b := by
  induction a with
  | nil => rfl
  | cons e es ih => cases e <;> simp [outOf, ih]

theorem diagsOf_append (a b : List Ev) : diagsOf (a ++ b) = diagsOf a ++ diagsOf b := by
  induction a with
  | nil => rfl
  | cons e es ih => cases e <;> simp [diagsOf, ih]

theorem nativesOf_append (a b : List Ev) : nativesOf (a ++ b) = nativesOf a + nativesOf b := by
  induction a with
  | nil => simp [nativesOf]
  | cons e es ih => cases e <;> simp [nativesOf, ih] <;> omega

/-- the observable fields of a store are the projections of its event trace: stdout is exactly the
    printed texts, the diagnostics are exactly the reported ones, the flag is set iff there is one,
    the call counter counts the built-in entries -/
def LogOk (σ : Store) : Prop :=
  σ.out = outOf σ.trace ∧ σ.diags = diagsOf σ.trace ∧ σ.hadError = !σ.diags.isEmpty ∧ σ.nativeCalls = nativesOf σ.trace

/-- no object holds a property name twice -/
def ObjsOk (σ : Store) : Prop := ∀ (i : Nat) (ps : List (Name × Val)), σ.objs[i]? = some ps → (ps.map (·.1)).Nodup

structure Ext (σ σ' : Store) : Prop where
  envs_len : σ.envs.length ≤ σ'.envs.length
  env_keep : ∀ (i : Nat) (fr : Frame), σ.envs[i]? = some fr → ∃ fr' : Frame, σ'.envs[i]? = some fr' ∧ fr'.parent = fr.parent ∧
      ∀ n, (fr.vars.lookup n).isSome = true → (fr'.vars.lookup n).isSome = true
  arrs_keep : ∀ (i : Nat) (xs : List Val), σ.arrs[i]? = some xs → ∃ ys : List Val, σ'.arrs[i]? = some ys ∧ ys.length = xs.length
  objs_len : σ.objs.length ≤ σ'.objs.length
  funs_keep : ∀ (i : Nat) (cl : Closure), σ.funs[i]? = some cl → σ'.funs[i]? = some cl
  flag_mono : σ.hadError = true → σ'.hadError = true
  trace_ext : ∃ new, σ'.trace = σ.trace ++ new ∧ quiet σ.hadError new = true ∧
      σ'.hadError = (σ.hadError || new.any Ev.isDiag)
  frozen : σ.hadError = true → σ'.out = σ.out ∧ σ'.input = σ.input ∧ σ'.nativeCalls = σ.nativeCalls
  diags_ext : ∃ d, σ'.diags = σ.diags ++ d
  /-- objects stay well-formed: if no object of `σ` holds a key twice, none of `σ'` does -/
  objs_nodup : ObjsOk σ → ObjsOk σ'
  /-- the observable fields stay the projections of the trace -/
  log_ok : LogOk σ → LogOk σ'

namespace Ext

theorem refl (σ : Store) : Ext σ σ :=
  ⟨Nat.le_refl _, fun i fr h => ⟨fr, h, rfl, fun _ h => h⟩, fun i xs h => ⟨xs, h, rfl⟩, Nat.le_refl _, fun _ _ h => h,
   fun h => h, ⟨[], by simp, rfl, by simp⟩, fun _ => ⟨rfl, rfl, rfl⟩, ⟨[], by simp⟩, fun h => h, fun h => h⟩

theorem trans {a b c : Store} (h1 : Ext a b) (h2 : Ext b c) : Ext a c := by
  refine ⟨Nat.le_trans h1.envs_len h2.envs_len, ?_, ?_, Nat.le_trans h1.objs_len h2.objs_len, ?_, ?_, ?_, ?_, ?_,
    fun h => h2.objs_nodup (h1.objs_nodup h), fun h => h2.log_ok (h1.log_ok h)⟩
  · intro i fr h
    obtain ⟨fr1, e1, p1, d1⟩ := h1.env_keep i fr h
    obtain ⟨fr2, e2, p2, d2⟩ := h2.env_keep i fr1 e1
    exact ⟨fr2, e2, p2.trans p1, fun n hn => d2 n (d1 n hn)⟩
  · intro i xs h
    obtain ⟨ys, e1, l1⟩ := h1.arrs_keep i xs h
    obtain ⟨zs, e2, l2⟩ := h2.arrs_keep i ys e1
    exact ⟨zs, e2, l2.trans l1⟩
  · intro i cl h; exact h2.funs_keep i cl (h1.funs_keep i cl h)
  · intro h; exact h2.flag_mono (h1.flag_mono h)
  · obtain ⟨n1, t1, q1, f1⟩ := h1.trace_ext
    obtain ⟨n2, t2, q2, f2⟩ := h2.trace_ext
    refine ⟨n1 ++ n2, by rw [t2, t1, List.append_assoc], ?_, ?_⟩
    · exact quiet_append _ _ _ q1 (by rw [← f1]; exact q2)
    · rw [f2, f1, List.any_append, Bool.or_assoc]
  · intro h
    obtain ⟨o1, i1, c1⟩ := h1.frozen h
    obtain ⟨o2, i2, c2⟩ := h2.frozen (h1.flag_mono h)
    exact ⟨o2.trans o1, i2.trans i1, c2.trans c1⟩
  · obtain ⟨d1, e1⟩ := h1.diags_ext
    obtain ⟨d2, e2⟩ := h2.diags_ext
    exact ⟨d1 ++ d2, by rw [e2, e1, List.append_assoc]⟩

/-- a store that differs only in tables that grew by appending, with no observable event -/
theorem of_tables (σ σ' : Store)
    (henvs : ∃ ex, σ'.envs = σ.envs ++ ex) (harrs : ∃ ax, σ'.arrs = σ.arrs ++ ax)
    (hobjs : ∃ ox, σ'.objs = σ.objs ++ ox ∧ ∀ ps ∈ ox, (ps.map (·.1)).Nodup)
    (hfuns : ∃ fx, σ'.funs = σ.funs ++ fx)
    (ho : σ'.out = σ.out) (hd : σ'.diags = σ.diags) (he : σ'.hadError = σ.hadError) (hi : σ'.input = σ.input)
    (hn : σ'.nativeCalls = σ.nativeCalls) (ht : σ'.trace = σ.trace) : Ext σ σ' := by
  obtain ⟨ex, henvs⟩ := henvs; obtain ⟨ax, harrs⟩ := harrs; obtain ⟨ox, hobjs, hox⟩ := hobjs; obtain ⟨fx, hfuns⟩ := hfuns
  refine ⟨by simp [henvs], ?_, ?_, by simp [hobjs], ?_, by simp [he], ⟨[], by simp [ht], rfl, by simp [he]⟩,
    fun _ => ⟨ho, hi, hn⟩, ⟨[], by simp [hd]⟩, ?_, fun h => by unfold LogOk at h ⊢; rw [ho, hd, he, hn, ht]; exact h⟩
  rotate_left 3
  · intro hok i ps h
    rw [hobjs] at h
    by_cases hlt : i < σ.objs.length
    · rw [List.getElem?_append_left hlt] at h; exact hok i ps h
    · rw [List.getElem?_append_right (by omega)] at h
      exact hox ps (List.mem_of_getElem? h)
  · intro i fr h
    have hlt : i < σ.envs.length := (List.getElem?_eq_some_iff.mp h).1
    exact ⟨fr, by rw [henvs, List.getElem?_append_left hlt]; exact h, rfl, fun _ h => h⟩
  · intro i xs h
    have hlt : i < σ.arrs.length := (List.getElem?_eq_some_iff.mp h).1
    exact ⟨xs, by rw [harrs, List.getElem?_append_left hlt]; exact h, rfl⟩
  · intro i cl h
    have hlt : i < σ.funs.length := (List.getElem?_eq_some_iff.mp h).1
    rw [hfuns, List.getElem?_append_left hlt]; exact h

theorem newEnv (σ : Store) (p : Option Nat) : Ext σ (σ.newEnv p).1 :=
  of_tables _ _ ⟨_, rfl⟩ ⟨[], by simp [Store.newEnv]⟩ ⟨[], by simp [Store.newEnv], by simp⟩ ⟨[], by simp [Store.newEnv]⟩ rfl rfl rfl rfl rfl rfl

theorem newArr (σ : Store) (xs : List Val) : Ext σ (σ.newArr xs).1 :=
  of_tables _ _ ⟨[], by simp [Store.newArr]⟩ ⟨_, rfl⟩ ⟨[], by simp [Store.newArr], by simp⟩ ⟨[], by simp [Store.newArr]⟩ rfl rfl rfl rfl rfl rfl

theorem newObj (σ : Store) (ps : List (Name × Val)) (hps : (ps.map (·.1)).Nodup) : Ext σ (σ.newObj ps).1 :=
  of_tables _ _ ⟨[], by simp [Store.newObj]⟩ ⟨[], by simp [Store.newObj]⟩ ⟨[ps], rfl, by simpa using hps⟩ ⟨[], by simp [Store.newObj]⟩ rfl rfl rfl rfl rfl rfl

theorem newFun (σ : Store) (c : Closure) : Ext σ (σ.newFun c).1 :=
  of_tables _ _ ⟨[], by simp [Store.newFun]⟩ ⟨[], by simp [Store.newFun]⟩ ⟨[], by simp [Store.newFun], by simp⟩ ⟨_, rfl⟩ rfl rfl rfl rfl rfl rfl

theorem rte (σ : Store) (msg : List Char) (line : Nat) : Ext σ (σ.rte msg line) := by
  refine ⟨Nat.le_refl _, fun i fr h => ⟨fr, h, rfl, fun _ h => h⟩, fun i xs h => ⟨xs, h, rfl⟩, Nat.le_refl _, fun _ _ h => h,
    fun _ => rfl, ⟨[.diag (.runtime msg line)], rfl, by simp [quiet, Ev.isDiag], by simp [Store.rte, Ev.isDiag]⟩,
    fun _ => ⟨rfl, rfl, rfl⟩, ⟨_, rfl⟩, fun h => h, ?_⟩
  intro h
  obtain ⟨h1, h2, h3, h4⟩ := h
  refine ⟨?_, ?_, ?_, ?_⟩
  · simp [Store.rte, outOf_append, outOf, h1]
  · simp [Store.rte, diagsOf_append, diagsOf, h2]
  · simp [Store.rte]
  · simp [Store.rte, nativesOf_append, nativesOf, h4]

theorem print (σ : Store) (s : List Char) (h : σ.hadError = false) : Ext σ (σ.print s) := by
  refine ⟨Nat.le_refl _, fun i fr h => ⟨fr, h, rfl, fun _ h => h⟩, fun i xs h => ⟨xs, h, rfl⟩, Nat.le_refl _, fun _ _ h => h,
    (fun h' => by rw [h] at h'; cases h'), ⟨[.out s], rfl, by simp [quiet, Ev.isDiag, h], by simp [Store.print, Ev.isDiag]⟩,
    (fun h' => by rw [h] at h'; cases h'), ⟨[], by simp [Store.print]⟩, fun h => h, ?_⟩
  intro hl
  obtain ⟨h1, h2, h3, h4⟩ := hl
  refine ⟨?_, ?_, ?_, ?_⟩
  · simp [Store.print, outOf_append, outOf, h1]
  · simp [Store.print, diagsOf_append, diagsOf, h2]
  · simpa [Store.print] using h3
  · simp [Store.print, nativesOf_append, nativesOf, h4]

theorem enterNative (σ : Store) (h : σ.hadError = false) : Ext σ σ.enterNative := by
  refine ⟨Nat.le_refl _, fun i fr h => ⟨fr, h, rfl, fun _ h => h⟩, fun i xs h => ⟨xs, h, rfl⟩, Nat.le_refl _, fun _ _ h => h,
    (fun h' => by rw [h] at h'; cases h'), ⟨[.native], rfl, by simp [quiet, Ev.isDiag, h], by simp [Store.enterNative, Ev.isDiag]⟩,
    (fun h' => by rw [h] at h'; cases h'), ⟨[], by simp [Store.enterNative]⟩, fun h => h, ?_⟩
  intro hl
  obtain ⟨h1, h2, h3, h4⟩ := hl
  refine ⟨?_, ?_, ?_, ?_⟩
  · simp [Store.enterNative, outOf_append, outOf, h1]
  · simp [Store.enterNative, diagsOf_append, diagsOf, h2]
  · simpa [Store.enterNative] using h3
  · simp [Store.enterNative, nativesOf_append, nativesOf, h4]

theorem consume (σ : Store) (rest : List Char) (h : σ.hadError = false) : Ext σ (σ.consume rest) := by
  refine ⟨Nat.le_refl _, fun i fr h => ⟨fr, h, rfl, fun _ h => h⟩, fun i xs h => ⟨xs, h, rfl⟩, Nat.le_refl _, fun _ _ h => h,
    (fun h' => by rw [h] at h'; cases h'), ⟨[.read], rfl, by simp [quiet, Ev.isDiag, h], by simp [Store.consume, Ev.isDiag]⟩,
    (fun h' => by rw [h] at h'; cases h'), ⟨[], by simp [Store.consume]⟩, fun h => h, ?_⟩
  intro hl
  obtain ⟨h1, h2, h3, h4⟩ := hl
  refine ⟨?_, ?_, ?_, ?_⟩
  · simp [Store.consume, outOf_append, outOf, h1]
  · simp [Store.consume, diagsOf_append, diagsOf, h2]
  · simpa [Store.consume] using h3
  · simp [Store.consume, nativesOf_append, nativesOf, h4]

theorem upsert_keeps {α : Type} (k n : Name) (v : α) (ps : List (Name × α)) (h : (ps.lookup n).isSome = true) :
    ((upsert k v ps).lookup n).isSome = true := by
  induction ps with
  | nil => simp [List.lookup] at h
  | cons p ps ih =>
    obtain ⟨k', v'⟩ := p
    unfold upsert
    by_cases hk : k' = k
    · rw [if_pos hk]
      by_cases hn : n = k'
      · subst hn; rw [ListAux.lookup_cons_eq]; rfl
      · rw [ListAux.lookup_cons_ne n k' v _ hn]; rw [ListAux.lookup_cons_ne n k' v' _ hn] at h; exact h
    · rw [if_neg hk]
      by_cases hn : n = k'
      · subst hn; rw [ListAux.lookup_cons_eq]; rfl
      · rw [ListAux.lookup_cons_ne n k' v' _ hn]; rw [ListAux.lookup_cons_ne n k' v' _ hn] at h; exact ih h

theorem upsert_keys {α : Type} (k : Name) (v : α) (ps : List (Name × α)) :
    (upsert k v ps).map (·.1) = if k ∈ ps.map (·.1) then ps.map (·.1) else ps.map (·.1) ++ [k] := by
  induction ps with
  | nil => simp [upsert]
  | cons p ps ih =>
    obtain ⟨k', v'⟩ := p
    unfold upsert
    by_cases hk : k' = k
    · subst hk; simp
    · simp only [if_neg hk, List.map_cons, ih, List.mem_cons]
      have hk2 : ¬ k = k' := fun e => hk e.symm
      by_cases hm : k ∈ List.map (fun x => x.fst) ps
      · simp [hm]
      · simp [hm, hk2]

theorem upsert_nodup {α : Type} (k : Name) (v : α) (ps : List (Name × α)) (h : (ps.map (·.1)).Nodup) :
    ((upsert k v ps).map (·.1)).Nodup := by
  rw [upsert_keys]
  split
  · exact h
  · rename_i hn
    exact List.nodup_append.mpr ⟨h, by simp, by intro a ha b hb; simp at hb; subst hb; intro e; subst e; exact hn ha⟩

/-- the Go view of an object literal never holds a key twice -/
theorem effectiveProps_nodup {α : Type} (ps : List (Name × α)) : ((effectiveProps ps).map (·.1)).Nodup := by
  unfold effectiveProps
  have : ∀ (l acc : List (Name × α)), (acc.map (·.1)).Nodup → ((l.foldl (fun acc p => upsert p.1 p.2 acc) acc).map (·.1)).Nodup := by
    intro l
    induction l with
    | nil => intro acc h; exact h
    | cons p l ih => intro acc h; exact ih _ (upsert_nodup p.1 p.2 acc h)
  exact this ps [] (by simp)

theorem filter_keys_nodup {α : Type} (q : Name × α → Bool) (ps : List (Name × α)) (h : (ps.map (·.1)).Nodup) :
    ((ps.filter q).map (·.1)).Nodup :=
  List.Nodup.sublist (List.Sublist.map _ List.filter_sublist) h

/-- the table entry of an object in a well-formed store is duplicate-free (an absent entry reads as empty) -/
theorem objsOk_getD {σ : Store} (h : ObjsOk σ) (r : Nat) : (((σ.objs[r]?).getD []).map (·.1)).Nodup := by
  cases hr : σ.objs[r]? with
  | none => simp
  | some ps => simpa using h r ps hr

theorem define (σ : Store) (env : Nat) (n : Name) (v : Val) : Ext σ (σ.define env n v) := by
  unfold Store.define
  cases henv : σ.envs[env]? with
  | none => exact refl σ
  | some fr0 =>
    have hlt : env < σ.envs.length := (List.getElem?_eq_some_iff.mp henv).1
    refine ⟨by simp, ?_, fun i xs h => ⟨xs, h, rfl⟩, Nat.le_refl _, fun _ _ h => h, fun h => h,
      ⟨[], by simp, rfl, by simp⟩, fun _ => ⟨rfl, rfl, rfl⟩, ⟨[], by simp⟩, fun h => h, fun h => h⟩
    intro i fr h
    by_cases hi : i = env
    · subst hi
      rw [henv] at h; cases h
      refine ⟨{ fr0 with vars := upsert n v fr0.vars }, ?_, rfl, fun m hm => upsert_keeps n m v _ hm⟩
      simp [List.getElem?_set, hlt]
    · refine ⟨fr, ?_, rfl, fun _ h => h⟩
      simp only [List.getElem?_set, Ne.symm hi, if_false]; exact h

theorem setArr (σ : Store) (r k : Nat) (x : Val) :
    Ext σ { σ with arrs := σ.arrs.set r ((σ.arrs[r]?.getD []).set k x) } := by
  refine ⟨Nat.le_refl _, fun i fr h => ⟨fr, h, rfl, fun _ h => h⟩, ?_, Nat.le_refl _, fun _ _ h => h, fun h => h,
    ⟨[], by simp, rfl, by simp⟩, fun _ => ⟨rfl, rfl, rfl⟩, ⟨[], by simp⟩, fun h => h, fun h => h⟩
  intro i xs h
  have hlt : i < σ.arrs.length := (List.getElem?_eq_some_iff.mp h).1
  by_cases hi : i = r
  · subst hi
    refine ⟨(xs.set k x), ?_, by simp⟩
    simp only [List.getElem?_set, hlt, if_true, h, Option.getD_some]
  · refine ⟨xs, ?_, rfl⟩
    simp only [List.getElem?_set, Ne.symm hi, if_false]; exact h

theorem setObj (σ : Store) (r : Nat) (ps : List (Name × Val))
    (hps : ObjsOk σ → (ps.map (·.1)).Nodup) : Ext σ { σ with objs := σ.objs.set r ps } := by
  refine ⟨Nat.le_refl _, fun i fr h => ⟨fr, h, rfl, fun _ h => h⟩, fun i xs h => ⟨xs, h, rfl⟩, by simp, fun _ _ h => h, fun h => h,
    ⟨[], by simp, rfl, by simp⟩, fun _ => ⟨rfl, rfl, rfl⟩, ⟨[], by simp⟩, ?_, fun h => h⟩
  intro hok i qs h
  by_cases hi : r = i
  · subst hi
    by_cases hlt : r < σ.objs.length
    · simp only [List.getElem?_set, hlt, if_true, Option.some.injEq] at h
      subst h; exact hps hok
    · have : (σ.objs.set r ps)[r]? = none := by simp [List.getElem?_eq_none_iff]; omega
      simp only at h; rw [this] at h; cases h
  · simp only [List.getElem?_set, hi, if_false] at h
    exact hok i qs h

end Ext
end Borno
