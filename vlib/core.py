# Shared plumbing of the checks: protocol helpers, parallel runners for the Go implementation
# (harness/cmd/impl, linked against /repo) and for the Lean model driver, comparison, evidence.
import binascii, json, os, subprocess, sys, time, hashlib
from concurrent.futures import ThreadPoolExecutor

ROOT = os.path.dirname(os.path.dirname(os.path.abspath(__file__)))
BUILD = os.path.join(ROOT, '.build')
IMPL = os.path.join(BUILD, 'impl')
BORNO = os.path.join(BUILD, 'borno')
MODEL = os.path.join(ROOT, 'lean', '.lake', 'build', 'bin', 'bornomodel')
NCPU = int(os.environ.get('VERIF_JOBS', '16'))

# keywords, by code point: two of them contain U+09DF, which is not NFC-stable
def _cp(*cs): return ''.join(chr(c) for c in cs)
KW = {
    'fun': _cp(0x09AB, 0x09BE, 0x0982, 0x09B6, 0x09A8),
    'var': _cp(0x09A7, 0x09B0, 0x09BF),
    'for': _cp(0x09AB, 0x09B0),
    'if': _cp(0x09AF, 0x09A6, 0x09BF),
    'else': _cp(0x09A8, 0x09BE, 0x09B9, 0x09DF),
    'while': _cp(0x09AF, 0x09A4, 0x0995, 0x09CD, 0x09B7, 0x09A3),
    'true': _cp(0x09B8, 0x09A4, 0x09CD, 0x09AF),
    'false': _cp(0x09AE, 0x09BF, 0x09A5, 0x09CD, 0x09AF, 0x09BE),
    'nil': 'nil',
    'print': _cp(0x09A6, 0x09C7, 0x0996, 0x09BE, 0x0993),
    'return': _cp(0x09AB, 0x09C7, 0x09B0, 0x09A4),
    'break': _cp(0x09A5, 0x09BE, 0x09AE, 0x09CB),
    'continue': _cp(0x099A, 0x09BE, 0x09B2, 0x09BF, 0x09DF, 0x09C7, 0x005F, 0x09AF, 0x09BE, 0x0993),
    'and': _cp(0x098F, 0x09AC, 0x0982),
    'or': _cp(0x09AC, 0x09BE),
}
NAT = {
    'clock': _cp(0x0995, 0x09CD, 0x09B2, 0x0995),
    'len': _cp(0x09B2, 0x09C7, 0x09A8),
    'append': _cp(0x098F, 0x09A1),
    'remove': _cp(0x09B0, 0x09BF, 0x09AE, 0x09C1, 0x09AD),
    'delete': _cp(0x0995, 0x09BF, 0x005F, 0x09B0, 0x09BF, 0x09AE, 0x09C1, 0x09AD),
    'keys': _cp(0x0985, 0x09AC, 0x09CD, 0x099C, 0x09C7, 0x0995, 0x09CD, 0x099F, 0x005F, 0x0995, 0x09BF),
    'values': _cp(0x0985, 0x09AC, 0x09CD, 0x099C, 0x09C7, 0x0995, 0x09CD, 0x099F, 0x005F, 0x09AE, 0x09BE, 0x09A8),
    'abs': _cp(0x09AA, 0x09B0, 0x09AE, 0x09AE, 0x09BE, 0x09A8),
    'sqrt': _cp(0x09AC, 0x09B0, 0x09CD, 0x0997, 0x09AE, 0x09C2, 0x09B2),
    'pow': _cp(0x0998, 0x09BE, 0x09A4),
    'sin': _cp(0x09B8, 0x09BE, 0x0987, 0x09A8),
    'cos': _cp(0x0995, 0x09B8, 0x09BE, 0x0987, 0x09A8),
    'tan': _cp(0x099F, 0x09CD, 0x09AF, 0x09BE, 0x09A8),
    'min': _cp(0x09B8, 0x09B0, 0x09CD, 0x09AC, 0x09A8, 0x09BF, 0x09AE, 0x09CD, 0x09A8),
    'max': _cp(0x09B8, 0x09B0, 0x09CD, 0x09AC, 0x09CB, 0x099A, 0x09CD, 0x099A),
    'round': _cp(0x09B0, 0x09BE, 0x0989, 0x09A8, 0x09CD, 0x09A1),
    'input': _cp(0x0987, 0x09A8, 0x09AA, 0x09C1, 0x099F),
}

def hx(s):
    if isinstance(s, str):
        s = s.encode('utf-8', errors='surrogatepass')
    return binascii.hexlify(s).decode()

def unhx(h):
    return binascii.unhexlify(h)

def untext(h):
    return binascii.unhexlify(h).decode('utf-8', errors='replace')

def req(mode, src, stdin=b'', opts=''):
    return f"{mode}\t{hx(src)}\t{hx(stdin)}\t{opts}"

class SplitMix64:
    """every random choice of a campaign derives from one state (VERIF_SEED)"""
    def __init__(self, seed):
        self.s = seed & 0xFFFFFFFFFFFFFFFF
    def next(self):
        self.s = (self.s + 0x9E3779B97F4A7C15) & 0xFFFFFFFFFFFFFFFF
        z = self.s
        z = ((z ^ (z >> 30)) * 0xBF58476D1CE4E5B9) & 0xFFFFFFFFFFFFFFFF
        z = ((z ^ (z >> 27)) * 0x94D049BB133111EB) & 0xFFFFFFFFFFFFFFFF
        return z ^ (z >> 31)
    def below(self, n):
        return self.next() % n
    def choice(self, xs):
        return xs[self.below(len(xs))]
    def chance(self, num, den):
        return self.below(den) < num
    def fork(self, k):
        return SplitMix64(self.next() ^ (k * 0x9E3779B97F4A7C15))

def seed():
    try:
        return int(os.environ.get('VERIF_SEED', '1'))
    except ValueError:
        return 1

def _run_chunk(cmd, lines, env=None, sentinel_on_short=True):
    """feed `lines` to a line-protocol process; if it dies or hangs on a case, record that and go on"""
    out = []
    i = 0
    while i < len(lines):
        data = ('\n'.join(lines[i:]) + '\n').encode()
        try:
            p = subprocess.run(cmd, input=data, capture_output=True, env=env, timeout=420)
            got = p.stdout.decode('utf-8', errors='replace').split('\n')
            if got and got[-1] == '':
                got.pop()
            rc = p.returncode
            err = p.stderr.decode('utf-8', errors='replace')
        except subprocess.TimeoutExpired as e:
            got = (e.stdout or b'').decode('utf-8', errors='replace').split('\n')[:-1]
            rc, err = -9, 'driver timeout'
        out.extend(got[:len(lines) - i])
        i += len(got)
        if i < len(lines):
            # the process ended before answering case i
            if out and out[-1] == 'TIMEOUT' and rc == 3:
                pass  # the TIMEOUT line *is* the answer to the last case consumed
            else:
                tail = err.strip().split('\n')
                banner = next((l for l in tail if l.startswith(('panic:', 'fatal error:', 'runtime:'))), tail[0] if tail else '')
                out.append(f"CRASH:rc={rc}:{hx(banner[:200])}")
                i += 1
    return out[:len(lines)]

def _parallel(cmd, lines, env=None, jobs=None):
    jobs = jobs or NCPU
    n = len(lines)
    if n == 0:
        return []
    # many small chunks: a slow case delays only its own chunk, idle workers take the next one
    size = max(1, min(250, (n + jobs * 8 - 1) // (jobs * 8)))
    chunks = [lines[k:k + size] for k in range(0, n, size)]
    with ThreadPoolExecutor(max_workers=jobs) as ex:
        res = list(ex.map(lambda c: _run_chunk(cmd, c, env), chunks))
    return [r for c in res for r in c]

# when set (by ./check, if an obligation is broken or in the thorough tier) the coverage-instrumented builds run
# instead and write Go coverage counters there: which statements of /repo the campaign executed
COVER = {'dir': None}

def cover_env(env):
    if COVER['dir']:
        env['GOCOVERDIR'] = COVER['dir']
    return env

def run_impl(lines, timeout_ms=5000, jobs=None):
    env = dict(os.environ)
    env['IMPL_TIMEOUT_MS'] = str(timeout_ms)
    env['GOMEMLIMIT'] = '1GiB'
    env['GOMAXPROCS'] = '2'
    exe = IMPL + '_cover' if COVER['dir'] and os.path.exists(IMPL + '_cover') else IMPL
    return _parallel(['/bin/sh', '-c', f'ulimit -v 4000000; exec {exe}'], lines, cover_env(env), jobs)

def run_model(lines, fuel=8000, jobs=None):
    return _parallel(['/bin/sh', '-c', f'ulimit -s unlimited 2>/dev/null || ulimit -s 1000000; exec {MODEL} {fuel}'], lines, None, jobs)

def fields(resp):
    """split a run/lex/parse response into a dict keyed by the field tag"""
    d = {}
    parts = resp.split('\t')
    for k, p in enumerate(parts):
        if len(p) >= 2 and p[1] == ':' and p[0] in 'OEFKNIX':
            d[p[0]] = p[2:]
        elif k == 0:
            d['_'] = p
    return d

def same(impl, model, keys):
    """compare two responses on the given field tags; abnormal outcomes are never equal to normal ones"""
    a, b = fields(impl), fields(model)
    if impl.startswith(('PANIC', 'CRASH', 'TIMEOUT')) or model.startswith('ABN'):
        # a hang of the implementation and an out-of-fuel model agree (both diverge)
        return impl.startswith('TIMEOUT') and model.startswith('ABN:fuel')
    return all(a.get(k) == b.get(k) for k in keys)

def describe(resp):
    d = fields(resp)
    o = {}
    for k, v in d.items():
        if k in ('O', 'E'):
            try:
                o[{'O': 'stdout', 'E': 'stderr'}[k]] = untext(v)
            except Exception:
                o[k] = v
        elif k == 'F':
            o['hadError,hadRuntimeError'] = v
        elif k == '_':
            o['head'] = v[:2000]
        else:
            o[k] = v
    if not d:
        o['raw'] = resp[:2000]
        if resp.startswith('PANIC:'):
            try:
                o['panic'] = untext(resp.split('\t')[0][6:])
            except Exception:
                pass
        if resp.startswith('CRASH:'):
            try:
                o['crash'] = untext(resp.split(':')[2])
            except Exception:
                pass
    return o

def write_replay(prop, kind, payload):
    d = os.path.join(ROOT, 'replays', prop)
    os.makedirs(d, exist_ok=True)
    body = json.dumps(payload, ensure_ascii=False, indent=1, sort_keys=True)
    h = hashlib.sha256(body.encode('utf-8', errors='replace')).hexdigest()[:12]
    path = os.path.join(d, f'{kind}-{h}.json')
    with open(path, 'w', encoding='utf-8', errors='replace') as f:
        f.write(body)
    return path
