import BornoModel.Eval
import BornoModel.Lemmas.EvalInv
/-! # C11 — arrays are bounds-checked shared references; লেন / এড / রিমুভ are pure sequence operations -/
namespace Borno.Props.C11
open Borno Expect

/-- what an array reference holds -/
def arrOf (σ : Store) (r : Nat) : List Val := σ.arrs[r]?.getD []

/-- `লেন(a)` is the element count, as an ordinary number; the store is untouched -/
theorem len_is_count_number (P : Platform) (σ : Store) (r : Nat) :
    callPure P .len [.arr r] σ = .ok (.num (F64.ofNat (arrOf σ r).length), σ) := rfl

/-- `এড(a, x…)` returns a *fresh* array holding a's elements followed by x…; no existing array changes -/
theorem append_pure (P : Platform) (σ : Store) (r : Nat) (x : Val) (xs : List Val) :
    ∃ σ', callPure P .append (.arr r :: x :: xs) σ = .ok (.arr σ.arrs.length, σ') ∧
      arrOf σ' σ.arrs.length = arrOf σ r ++ x :: xs ∧
      (∀ i, i < σ.arrs.length → σ'.arrs[i]? = σ.arrs[i]?) ∧
      σ'.objs = σ.objs ∧ σ'.envs = σ.envs ∧ σ'.out = σ.out := by
  refine ⟨{ σ with arrs := σ.arrs ++ [arrOf σ r ++ x :: xs] }, rfl, ?_, ?_, rfl, rfl, rfl⟩
  · simp [arrOf]
  · intro i hi; simp [List.getElem?_append_left hi]

/-- `রিমুভ(a, i)` with `0 ≤ i < len` returns a fresh array without the i-th element; nothing else changes -/
theorem remove_pure (P : Platform) (σ : Store) (r : Nat) (iv : Val) (k : Int)
    (hi : toInt64 iv = some k) (h0 : 0 ≤ k) (hlt : k.toNat < (arrOf σ r).length) :
    ∃ σ', callPure P .remove [.arr r, iv] σ = .ok (.arr σ.arrs.length, σ') ∧
      arrOf σ' σ.arrs.length = (arrOf σ r).eraseIdx k.toNat ∧
      (∀ i, i < σ.arrs.length → σ'.arrs[i]? = σ.arrs[i]?) := by
  refine ⟨{ σ with arrs := σ.arrs ++ [(arrOf σ r).eraseIdx k.toNat] }, ?_, ?_, ?_⟩
  · have h1 : ¬ k < 0 := by omega
    have h2 : ¬ (σ.arrs[r]?.getD []).length ≤ k.toNat := by unfold arrOf at hlt; omega
    simp only [callPure, natRemove, hi]
    simp [h1, h2, Store.newArr, arrOf]
  · simp [arrOf]
  · intro i hi'; simp [List.getElem?_append_left hi']

/-- `রিমুভ` with an index that is negative, fractional / non-numeric, or ≥ the length is an error -/
theorem remove_bad_index (P : Platform) (σ : Store) (r : Nat) (iv : Val) :
    (toInt64 iv = none → ∃ m, callPure P .remove [.arr r, iv] σ = .error m) ∧
    (∀ k, toInt64 iv = some k → (k < 0 ∨ (arrOf σ r).length ≤ k.toNat) →
      ∃ m, callPure P .remove [.arr r, iv] σ = .error m) := by
  constructor
  · intro h; simp only [callPure, natRemove, h]; exact ⟨_, rfl⟩
  · intro k hk hb
    simp only [callPure, natRemove, hk]
    have : (k < 0 || decide ((σ.arrs[r]?.getD []).length ≤ k.toNat)) = true := by
      unfold arrOf at hb
      rcases hb with hb | hb <;> simp [hb]
    simp only [ge_iff_le, this]
    exact ⟨_, rfl⟩

/-- the index check accepts exactly the integers `0 ≤ k < len` -/
theorem index_check (σ : Store) (r : Nat) (iv : Val) (msg : String) :
    (∀ k, checkIndex σ (.arr r) iv msg = .ok (r, k) ↔
      (∃ j : Int, toInt64 iv = some j ∧ 0 ≤ j ∧ j.toNat = k ∧ k < (arrOf σ r).length)) := by
  intro k
  unfold checkIndex arrOf
  cases hj : toInt64 iv with
  | none => simp
  | some j =>
    simp only
    by_cases hb : j < 0 || decide ((σ.arrs[r]?.getD []).length ≤ j.toNat)
    · simp [hb]
      simp at hb
      intro _ h0; omega
    · simp [hb]
      simp at hb
      constructor
      · intro h; exact ⟨by omega, h, by omega⟩
      · intro h; exact h.2.1

/-- indexing something that is not an array is an error -/
theorem index_non_array (σ : Store) (a iv : Val) (msg : String) (h : ∀ r, a ≠ .arr r) :
    checkIndex σ a iv msg = .error msg.toList := by
  cases a <;> simp [checkIndex] at h ⊢

/-- `a[i] = v`: afterwards `a[i]` reads v, the length and every other element are unchanged, and so
    is every other array (arrays never grow, wrap or truncate by indexing) -/
theorem index_write_frame (σ : Store) (r k : Nat) (x : Val) (hk : k < (arrOf σ r).length) (hr : r < σ.arrs.length) :
    let σ' : Store := { σ with arrs := σ.arrs.set r ((arrOf σ r).set k x) }
    (arrOf σ' r)[k]? = some x ∧
    (arrOf σ' r).length = (arrOf σ r).length ∧
    (∀ j, j ≠ k → (arrOf σ' r)[j]? = (arrOf σ r)[j]?) ∧
    (∀ r', r' ≠ r → arrOf σ' r' = arrOf σ r') := by
  intro σ'
  have hset : arrOf σ' r = (arrOf σ r).set k x := by
    simp [σ', arrOf, List.getElem?_set, hr]
  refine ⟨?_, ?_, ?_, ?_⟩
  · rw [hset]; simp [hk]
  · rw [hset]; simp
  · intro j hj; rw [hset]; simp [List.getElem?_set, Ne.symm hj]
  · intro r' hr'
    simp [σ', arrOf, List.getElem?_set, Ne.symm hr']

/-- an array value is a reference: reading `a[i]` through any holder of `arr r` consults the one table entry -/
theorem array_is_reference (P : Platform) (f : Nat) (a i : Expr) (line env : Nat) (repl : Bool)
    (σ σ1 σ2 : Store) (r k : Nat) (iv : Val)
    (h0 : σ.hadError = false)
    (ha : evalE P f a env repl σ = .ok (.arr r, .none) σ1)
    (hi : evalE P f i env repl σ1 = .ok (iv, .none) σ2)
    (hc : checkIndex σ2 (.arr r) iv "Invalid array access. Not an array." = .ok (r, k))
    (v : Val) (hv : (arrOf σ2 r)[k]? = some v) :
    evalE P (f + 1) (.arrayAccess a i line) env repl σ = .ok (v, .none) σ2 := by
  rw [evalE]; simp only [guardErr, ER.seq, Res.bind, h0, ha, hi]
  simp [hc]
  simp [arrOf] at hv
  simp [hv]

/-- **arrays never grow, wrap or truncate**: whatever is evaluated — any expression, statement, call,
    loop, built-in —, every array that existed before still exists afterwards with the same length -/
theorem arrays_never_resize (P : Platform) (f : Nat) (e : Expr) (s : Stmt) (env : Nat) (repl : Bool) (σ σ' : Store) (r : Val × Signal)
    (i : Nat) (xs : List Val) (hx : σ.arrs[i]? = some xs) :
    (evalE P f e env repl σ = .ok r σ' → ∃ ys, σ'.arrs[i]? = some ys ∧ ys.length = xs.length) ∧
    (evalS P f s env repl σ = .ok r σ' → ∃ ys, σ'.arrs[i]? = some ys ∧ ys.length = xs.length) := by
  constructor
  · intro h; have := (allSat P f).e e env repl σ; rw [h] at this; exact this.arrs_keep i xs hx
  · intro h; have := (allSat P f).s s env repl σ; rw [h] at this; exact this.arrs_keep i xs hx

end Borno.Props.C11
