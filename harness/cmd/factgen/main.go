// factgen re-reads the Borno sources and regenerates the Lean facts the model is tied to:
//
//	factgen <repo> <out-dir>      writes <out-dir>/Facts.lean and <out-dir>/Unicode.lean
//
// It pattern-matches the shapes the code has today; a shape it does not recognise is emitted as
// an "unknown …" marker, which cannot equal the expectation, so the tie breaks instead of
// silently passing. It is keyed on function / case / type names, never on line numbers, and
// ignores comments and formatting.
package main

import (
	"bytes"
	"crypto/sha256"
	"fmt"
	"go/ast"
	"go/parser"
	"go/printer"
	"go/token"
	"os"
	"path/filepath"
	"regexp"
	"sort"
	"strconv"
	"strings"
)

var fset = token.NewFileSet()

func parseFile(path string) *ast.File {
	f, err := parser.ParseFile(fset, path, nil, 0) // comments dropped
	if err != nil {
		fmt.Fprintln(os.Stderr, "factgen:", err)
		os.Exit(2)
	}
	return f
}

func render(n ast.Node) string {
	var b bytes.Buffer
	printer.Fprint(&b, token.NewFileSet(), n)
	// normalise white space
	return strings.Join(strings.Fields(b.String()), " ")
}

func leanStr(s string) string {
	var b strings.Builder
	b.WriteByte('"')
	for _, r := range s {
		switch {
		case r == '"':
			b.WriteString("\\\"")
		case r == '\\':
			b.WriteString("\\\\")
		case r == '\n':
			b.WriteString("\\n")
		case r == '\t':
			b.WriteString("\\t")
		case r < 0x20 || r > 0x7e:
			fmt.Fprintf(&b, "\\u{%x}", r)
		default:
			b.WriteRune(r)
		}
	}
	b.WriteByte('"')
	return b.String()
}

func cps(s string) string {
	var parts []string
	for _, r := range s {
		parts = append(parts, fmt.Sprintf("0x%04X", r))
	}
	return "[" + strings.Join(parts, ", ") + "]"
}

func strLit(e ast.Expr) (string, bool) {
	if bl, ok := e.(*ast.BasicLit); ok && bl.Kind == token.STRING {
		s, err := strconv.Unquote(bl.Value)
		return s, err == nil
	}
	return "", false
}

func charLit(e ast.Expr) (rune, bool) {
	if bl, ok := e.(*ast.BasicLit); ok && bl.Kind == token.CHAR {
		s, err := strconv.Unquote(bl.Value)
		if err == nil {
			return []rune(s)[0], true
		}
	}
	return 0, false
}

func selName(e ast.Expr) string {
	if s, ok := e.(*ast.SelectorExpr); ok {
		return s.Sel.Name
	}
	if id, ok := e.(*ast.Ident); ok {
		return id.Name
	}
	return "unknown " + render(e)
}

func funcs(f *ast.File) map[string]*ast.FuncDecl {
	m := map[string]*ast.FuncDecl{}
	for _, d := range f.Decls {
		if fd, ok := d.(*ast.FuncDecl); ok {
			name := fd.Name.Name
			if fd.Recv != nil && len(fd.Recv.List) > 0 {
				t := fd.Recv.List[0].Type
				if st, ok := t.(*ast.StarExpr); ok {
					t = st.X
				}
				name = render(t) + "." + name
			}
			m[name] = fd
		}
	}
	return m
}

func digest(n ast.Node) string {
	h := sha256.Sum256([]byte(render(n)))
	return fmt.Sprintf("%x", h[:8])
}

type out struct{ b strings.Builder }

func (o *out) p(format string, a ...interface{}) { fmt.Fprintf(&o.b, format+"\n", a...) }

func list(items []string) string { return "[" + strings.Join(items, ", ") + "]" }

func quoteAll(xs []string) []string {
	var r []string
	for _, x := range xs {
		r = append(r, leanStr(x))
	}
	return r
}

// ---------------------------------------------------------------- token.go

func genTokens(o *out, repo string) {
	f := parseFile(filepath.Join(repo, "token/token.go"))
	var names []string
	for _, d := range f.Decls {
		gd, ok := d.(*ast.GenDecl)
		if !ok || gd.Tok != token.CONST {
			continue
		}
		for _, s := range gd.Specs {
			vs := s.(*ast.ValueSpec)
			for _, n := range vs.Names {
				names = append(names, n.Name)
			}
		}
	}
	o.p("def tokenTypes : List String := %s", list(quoteAll(names)))
}

// ---------------------------------------------------------------- scanner.go

func genScanner(o *out, repo string) map[string]string {
	f := parseFile(filepath.Join(repo, "lexer/scanner.go"))
	opText := map[string]string{} // operator spelling -> token type (for the doc ladder)
	// keywords
	var kws []string
	for _, d := range f.Decls {
		gd, ok := d.(*ast.GenDecl)
		if !ok || gd.Tok != token.VAR {
			continue
		}
		for _, s := range gd.Specs {
			vs := s.(*ast.ValueSpec)
			if len(vs.Names) == 1 && vs.Names[0].Name == "keywords" && len(vs.Values) == 1 {
				cl, ok := vs.Values[0].(*ast.CompositeLit)
				if !ok {
					kws = append(kws, "unknown")
					continue
				}
				for _, el := range cl.Elts {
					kv := el.(*ast.KeyValueExpr)
					k, _ := strLit(kv.Key)
					kws = append(kws, fmt.Sprintf("(%s, %s)", cps(k), leanStr(selName(kv.Value))))
					opText[k] = selName(kv.Value)
				}
			}
		}
	}
	o.p("def keywords : List (List Nat × String) := %s", list(kws))

	fm := funcs(f)
	var single, two, blanks, other []string
	if fd := fm["Scanner.scanToken"]; fd != nil {
		ast.Inspect(fd.Body, func(n ast.Node) bool {
			sw, ok := n.(*ast.SwitchStmt)
			if !ok {
				return true
			}
			for _, c := range sw.Body.List {
				cc := c.(*ast.CaseClause)
				if cc.List == nil {
					other = append(other, fmt.Sprintf("(%s, %s)", leanStr("default"), leanStr(render(&ast.BlockStmt{List: cc.Body}))))
					continue
				}
				var chars []rune
				for _, e := range cc.List {
					r, ok := charLit(e)
					if !ok {
						other = append(other, fmt.Sprintf("(%s, %s)", leanStr("unknown"), leanStr(render(e))))
					}
					chars = append(chars, r)
				}
				if len(cc.Body) == 0 {
					for _, r := range chars {
						blanks = append(blanks, fmt.Sprintf("%d", r))
					}
					continue
				}
				// single: s.addToken(token.X)
				if len(cc.Body) == 1 && len(chars) == 1 {
					if es, ok := cc.Body[0].(*ast.ExprStmt); ok {
						if call, ok := es.X.(*ast.CallExpr); ok && render(call.Fun) == "s.addToken" && len(call.Args) == 1 {
							single = append(single, fmt.Sprintf("(%d, %s)", chars[0], leanStr(selName(call.Args[0]))))
							opText[string(chars[0])] = selName(call.Args[0])
							continue
						}
					}
					// two: if s.match('c') { addToken(X) } else if … else { addToken(Y) }
					if ifs, ok := cc.Body[0].(*ast.IfStmt); ok {
						if alts, dflt, ok := matchChain(ifs); ok {
							var as []string
							for _, a := range alts {
								as = append(as, fmt.Sprintf("(%d, %s)", a.c, leanStr(a.tt)))
								opText[string(chars[0])+string(a.c)] = a.tt
							}
							opText[string(chars[0])] = dflt
							two = append(two, fmt.Sprintf("(%d, %s, %s)", chars[0], list(as), leanStr(dflt)))
							continue
						}
					}
				}
				for _, r := range chars {
					other = append(other, fmt.Sprintf("(%s, %s)", leanStr(fmt.Sprintf("%d", r)), leanStr(render(&ast.BlockStmt{List: cc.Body}))))
					// a character that is a token unless something follows (the '/' case)
					ast.Inspect(&ast.BlockStmt{List: cc.Body}, func(n ast.Node) bool {
						if call, ok := n.(*ast.CallExpr); ok && render(call.Fun) == "s.addToken" && len(call.Args) == 1 {
							opText[string(r)] = selName(call.Args[0])
						}
						return true
					})
				}
			}
			return false
		})
	}
	o.p("def singleOps : List (Nat × String) := %s", list(single))
	o.p("def twoOps : List (Nat × List (Nat × String) × String) := %s", list(two))
	o.p("def blanks : List Nat := %s", list(blanks))
	o.p("def otherCases : List (String × String) := %s", list(other))
	// isDigit ranges
	o.p("def digitRanges : List (Nat × Nat) := %s", digitRanges(fm["isDigit"]))
	if fd := fm["isAlpha"]; fd != nil {
		o.p("def isAlphaBody : String := %s", leanStr(render(fd.Body)))
	} else {
		o.p("def isAlphaBody : String := \"unknown\"")
	}
	if fd := fm["isAlphaNumeric"]; fd != nil {
		o.p("def isAlphaNumericBody : String := %s", leanStr(render(fd.Body)))
	} else {
		o.p("def isAlphaNumericBody : String := \"unknown\"")
	}
	return opText
}

type alt struct {
	c  rune
	tt string
}

func addTokenArg(b *ast.BlockStmt) (string, bool) {
	if b == nil || len(b.List) != 1 {
		return "", false
	}
	es, ok := b.List[0].(*ast.ExprStmt)
	if !ok {
		return "", false
	}
	call, ok := es.X.(*ast.CallExpr)
	if !ok || render(call.Fun) != "s.addToken" || len(call.Args) != 1 {
		return "", false
	}
	return selName(call.Args[0]), true
}

func matchChain(ifs *ast.IfStmt) ([]alt, string, bool) {
	var alts []alt
	for {
		call, ok := ifs.Cond.(*ast.CallExpr)
		if !ok || render(call.Fun) != "s.match" || len(call.Args) != 1 {
			return nil, "", false
		}
		c, ok := charLit(call.Args[0])
		if !ok {
			return nil, "", false
		}
		tt, ok := addTokenArg(ifs.Body)
		if !ok {
			return nil, "", false
		}
		alts = append(alts, alt{c, tt})
		switch e := ifs.Else.(type) {
		case *ast.IfStmt:
			ifs = e
		case *ast.BlockStmt:
			d, ok := addTokenArg(e)
			if !ok {
				return nil, "", false
			}
			return alts, d, true
		default:
			return nil, "", false
		}
	}
}

// (c >= 'a' && c <= 'b') || (…)
func digitRanges(fd *ast.FuncDecl) string {
	if fd == nil || len(fd.Body.List) != 1 {
		return "[(0, 0)] -- unknown"
	}
	ret, ok := fd.Body.List[0].(*ast.ReturnStmt)
	if !ok || len(ret.Results) != 1 {
		return "[(0, 0)] -- unknown"
	}
	var ranges []string
	var walk func(e ast.Expr) bool
	walk = func(e ast.Expr) bool {
		switch x := e.(type) {
		case *ast.ParenExpr:
			return walk(x.X)
		case *ast.BinaryExpr:
			if x.Op == token.LOR {
				return walk(x.X) && walk(x.Y)
			}
			if x.Op == token.LAND {
				l, ok1 := unparen(x.X).(*ast.BinaryExpr)
				r, ok2 := unparen(x.Y).(*ast.BinaryExpr)
				if ok1 && ok2 && l.Op == token.GEQ && r.Op == token.LEQ && render(l.X) == render(r.X) {
					lo, ok3 := charLit(l.Y)
					hi, ok4 := charLit(r.Y)
					if ok3 && ok4 {
						ranges = append(ranges, fmt.Sprintf("(0x%X, 0x%X)", lo, hi))
						return true
					}
				}
			}
		}
		return false
	}
	if !walk(ret.Results[0]) {
		return "[(0, 0)] -- unknown " + render(ret.Results[0])
	}
	return list(ranges)
}

func unparen(e ast.Expr) ast.Expr {
	for {
		p, ok := e.(*ast.ParenExpr)
		if !ok {
			return e
		}
		e = p.X
	}
}

// ---------------------------------------------------------------- utils.go

func genUtils(o *out, repo string) {
	f := parseFile(filepath.Join(repo, "utils/utils.go"))
	fm := funcs(f)
	var pairs []string
	if fd := fm["ConvertBanglaDigitsToASCII"]; fd != nil {
		ast.Inspect(fd.Body, func(n ast.Node) bool {
			cl, ok := n.(*ast.CompositeLit)
			if !ok {
				return true
			}
			if render(cl.Type) != "map[rune]rune" {
				return true
			}
			for _, el := range cl.Elts {
				kv := el.(*ast.KeyValueExpr)
				k, ok1 := charLit(kv.Key)
				v, ok2 := charLit(kv.Value)
				if !ok1 || !ok2 {
					pairs = append(pairs, "(0, 0)")
					continue
				}
				pairs = append(pairs, fmt.Sprintf("(0x%04X, 0x%02X)", k, v))
			}
			return false
		})
	}
	sort.Strings(pairs)
	o.p("def digitMap : List (Nat × Nat) := %s", list(pairs))
}

// ---------------------------------------------------------------- parser.go

func genParser(o *out, repo string) {
	f := parseFile(filepath.Join(repo, "parser/parser.go"))
	fm := funcs(f)
	// reserved identifiers
	var res []string
	for _, d := range f.Decls {
		gd, ok := d.(*ast.GenDecl)
		if !ok || gd.Tok != token.VAR {
			continue
		}
		for _, s := range gd.Specs {
			vs := s.(*ast.ValueSpec)
			if len(vs.Names) == 1 && vs.Names[0].Name == "reservedIdentifiers" && len(vs.Values) == 1 {
				if cl, ok := vs.Values[0].(*ast.CompositeLit); ok {
					for _, el := range cl.Elts {
						kv := el.(*ast.KeyValueExpr)
						k, _ := strLit(kv.Key)
						if render(kv.Value) != "true" {
							k = "unknown"
						}
						res = append(res, cps(k))
					}
				}
			}
		}
	}
	o.p("def reserved : List (List Nat) := %s", list(res))

	// the ladder, followed from `expression`
	type level struct {
		fn, next, loop string
		ops        []string
		next2, node string
	}
	var ladder []string
	cur := "logicalOR"
	if fd := fm["Parser.assignment"]; fd != nil {
		// first call p.X() in the body
		cur = firstCallee(fd.Body)
	}
	o.p("def assignmentOperand : String := %s", leanStr(cur))
	seen := map[string]bool{}
	for cur != "" && !seen[cur] {
		seen[cur] = true
		fd := fm["Parser."+cur]
		if fd == nil {
			break
		}
		lv, ok := binaryLevel(fd)
		if !ok {
			break
		}
		ladder = append(ladder, fmt.Sprintf("(%s, %s, %s, %s, %s, %s)", leanStr(cur), leanStr(lv.next), leanStr(lv.loop),
			list(quoteAll(lv.ops)), leanStr(lv.next2), leanStr(lv.node)))
		cur = lv.next
	}
	o.p("def ladder : List (String × String × String × List String × String × String) := %s", list(ladder))
	o.p("def ladderEnd : String := %s", leanStr(cur))
	// fingerprints of every parser function (normalised text)
	genDigests(o, "parserDigests", fm)
	// 255
	max := "unknown"
	if fd := fm["Parser.function"]; fd != nil {
		ast.Inspect(fd.Body, func(n ast.Node) bool {
			be, ok := n.(*ast.BinaryExpr)
			if ok && strings.HasPrefix(render(be.X), "len(parameters)") {
				max = be.Op.String() + " " + render(be.Y)
			}
			return true
		})
	}
	o.p("def maxParamsTest : String := %s", leanStr(max))
}

func firstCallee(b *ast.BlockStmt) string {
	name := ""
	ast.Inspect(b, func(n ast.Node) bool {
		if name != "" {
			return false
		}
		if call, ok := n.(*ast.CallExpr); ok {
			if se, ok := call.Fun.(*ast.SelectorExpr); ok && render(se.X) == "p" {
				name = se.Sel.Name
				return false
			}
		}
		return true
	})
	return name
}

type levelInfo struct {
	next, loop string
	ops        []string
	next2, node string
}

func binaryLevel(fd *ast.FuncDecl) (levelInfo, bool) {
	var lv levelInfo
	if len(fd.Body.List) < 2 {
		return lv, false
	}
	as, ok := fd.Body.List[0].(*ast.AssignStmt)
	if !ok || len(as.Rhs) != 1 {
		return lv, false
	}
	call, ok := as.Rhs[0].(*ast.CallExpr)
	if !ok {
		return lv, false
	}
	lv.next = selName(call.Fun)
	found := false
	for _, st := range fd.Body.List[1:] {
		var cond ast.Expr
		var body *ast.BlockStmt
		switch s := st.(type) {
		case *ast.ForStmt:
			if s.Init == nil && s.Post == nil && s.Cond != nil {
				cond, body, lv.loop = s.Cond, s.Body, "for"
			}
		case *ast.IfStmt:
			if c, ok := s.Cond.(*ast.CallExpr); ok && render(c.Fun) == "p.match" {
				cond, body, lv.loop = s.Cond, s.Body, "if"
			}
		}
		if cond == nil {
			continue
		}
		c, ok := cond.(*ast.CallExpr)
		if !ok || render(c.Fun) != "p.match" {
			continue
		}
		for _, a := range c.Args {
			lv.ops = append(lv.ops, selName(a))
		}
		ast.Inspect(body, func(n ast.Node) bool {
			switch x := n.(type) {
			case *ast.AssignStmt:
				if len(x.Rhs) == 1 {
					if cc, ok := x.Rhs[0].(*ast.CallExpr); ok {
						if se, ok := cc.Fun.(*ast.SelectorExpr); ok && render(se.X) == "p" && se.Sel.Name != "previous" && lv.next2 == "" {
							lv.next2 = se.Sel.Name
						}
					}
				}
			case *ast.CompositeLit:
				if lv.node == "" {
					// Left: expr, Operator: operator, Right: right
					lv.node = render(x.Type) + "{" + fieldsOf(x) + "}"
				}
			}
			return true
		})
		found = true
		break
	}
	return lv, found && lv.next2 != ""
}

func fieldsOf(cl *ast.CompositeLit) string {
	var fs []string
	for _, el := range cl.Elts {
		fs = append(fs, render(el))
	}
	return strings.Join(fs, ", ")
}

func genDigests(o *out, name string, fm map[string]*ast.FuncDecl) {
	var names []string
	for n := range fm {
		names = append(names, n)
	}
	sort.Strings(names)
	var items []string
	for _, n := range names {
		items = append(items, fmt.Sprintf("(%s, %s)", leanStr(n), leanStr(digest(fm[n]))))
	}
	o.p("def %s : List (String × String) := %s", name, list(items))
}

// ---------------------------------------------------------------- interpreter

func genInterpreter(o *out, repo string) {
	dir := filepath.Join(repo, "interpreter")
	all := map[string]*ast.FuncDecl{}
	var natives, arities []string
	files, _ := filepath.Glob(filepath.Join(dir, "*.go"))
	sort.Strings(files)
	var evalFn *ast.FuncDecl
	for _, path := range files {
		if strings.HasSuffix(path, "_test.go") || strings.HasSuffix(path, "verif_hooks.go") {
			continue
		}
		f := parseFile(path)
		for n, fd := range funcs(f) {
			all[n] = fd
			if n == "Interpreter.eval" {
				evalFn = fd
			}
			if strings.HasSuffix(n, ".Arity") && len(fd.Body.List) == 1 {
				if ret, ok := fd.Body.List[0].(*ast.ReturnStmt); ok && len(ret.Results) == 1 {
					arities = append(arities, fmt.Sprintf("(%s, %s)", leanStr(strings.TrimSuffix(n, ".Arity")), leanStr(render(ret.Results[0]))))
				}
			}
		}
		if fd := funcs(f)["NewInterpreter"]; fd != nil {
			ast.Inspect(fd.Body, func(n ast.Node) bool {
				call, ok := n.(*ast.CallExpr)
				if ok && render(call.Fun) == "globals.Define" && len(call.Args) == 2 {
					name, _ := strLit(call.Args[0])
					typ := "unknown"
					if cl, ok := call.Args[1].(*ast.CompositeLit); ok {
						typ = render(cl.Type)
					}
					natives = append(natives, fmt.Sprintf("(%s, %s)", cps(name), leanStr(typ)))
				}
				return true
			})
		}
	}
	sort.Strings(arities)
	o.p("def natives : List (List Nat × String) := %s", list(natives))
	o.p("def arities : List (String × String) := %s", list(arities))
	// eval: one fingerprint per case clause, plus the prologue
	var cases []string
	if evalFn != nil {
		for _, st := range evalFn.Body.List {
			ts, ok := st.(*ast.TypeSwitchStmt)
			if !ok {
				cases = append(cases, fmt.Sprintf("(%s, %s)", leanStr("prologue"), leanStr(render(st))))
				continue
			}
			for _, c := range ts.Body.List {
				cc := c.(*ast.CaseClause)
				name := "default"
				if cc.List != nil {
					var ns []string
					for _, e := range cc.List {
						ns = append(ns, render(e))
					}
					name = strings.Join(ns, ",")
				}
				cases = append(cases, fmt.Sprintf("(%s, %s)", leanStr(name), leanStr(digest(&ast.BlockStmt{List: cc.Body}))))
			}
		}
	}
	o.p("def evalCases : List (String × String) := %s", list(cases))
	delete(all, "Interpreter.eval")
	genDigests(o, "interpreterDigests", all)
}

// ---------------------------------------------------------------- environment, utils, lexer, main

func genOtherDigests(o *out, repo string) {
	for _, it := range []struct{ name, path string }{
		{"environmentDigests", "environment/environment.go"},
		{"utilsDigests", "utils/utils.go"},
		{"lexerDigests", "lexer/scanner.go"},
		{"mainDigests", "main.go"},
	} {
		genDigests(o, it.name, funcs(parseFile(filepath.Join(repo, it.path))))
	}
	// exit statuses in main.go, in source order with their function
	f := parseFile(filepath.Join(repo, "main.go"))
	var exits []string
	for _, d := range f.Decls {
		fd, ok := d.(*ast.FuncDecl)
		if !ok {
			continue
		}
		ast.Inspect(fd.Body, func(n ast.Node) bool {
			call, ok := n.(*ast.CallExpr)
			if ok && render(call.Fun) == "os.Exit" && len(call.Args) == 1 {
				exits = append(exits, fmt.Sprintf("(%s, %s)", leanStr(fd.Name.Name), leanStr(render(call.Args[0]))))
			}
			return true
		})
	}
	o.p("def exits : List (String × String) := %s", list(exits))
}

// ---------------------------------------------------------------- docs

var ruleRe = regexp.MustCompile(`^(\w+)\s+→\s+(\w+) \( (.*) (\w+) \)\* ;$`)
var quoted = regexp.MustCompile(`"([^"]+)"`)

func docLadder(text string, opText map[string]string) []string {
	var levels []string
	for _, line := range strings.Split(text, "\n") {
		m := ruleRe.FindStringSubmatch(strings.TrimSpace(line))
		if m == nil || m[2] != m[4] {
			continue
		}
		var ops []string
		for _, q := range quoted.FindAllStringSubmatch(m[3], -1) {
			tt, ok := opText[q[1]]
			if !ok {
				tt = "unknown " + q[1]
			}
			dup := false
			for _, x := range ops {
				if x == tt {
					dup = true
				}
			}
			if !dup {
				ops = append(ops, tt)
			}
		}
		sort.Strings(ops)
		levels = append(levels, fmt.Sprintf("(%s, %s, %s)", leanStr(m[1]), leanStr(m[2]), list(quoteAll(ops))))
	}
	return levels
}

func genDocs(o *out, repo string, opText map[string]string) {
	g, err := os.ReadFile(filepath.Join(repo, "grammer.txt"))
	if err != nil {
		o.p("def docLadder : List (String × String × List String) := []")
		return
	}
	text := string(g)
	// the বাংলা section is the one written with the real keywords
	if i := strings.Index(text, "--------- বাংলা"); i >= 0 {
		text = text[i:]
	}
	o.p("def docLadder : List (String × String × List String) := %s", list(docLadder(text, opText)))
	r, err := os.ReadFile(filepath.Join(repo, "README.md"))
	if err == nil {
		o.p("def readmeLadder : List (String × String × List String) := %s", list(docLadder(string(r), opText)))
	} else {
		o.p("def readmeLadder : List (String × String × List String) := []")
	}
}

func main() {
	if len(os.Args) != 3 {
		fmt.Fprintln(os.Stderr, "usage: factgen <repo> <out-dir>")
		os.Exit(2)
	}
	repo, outDir := os.Args[1], os.Args[2]
	os.MkdirAll(outDir, 0o755)
	o := &out{}
	o.p("/-! REGENERATED by factgen from the sources under /repo on every run. Do not edit. -/")
	o.p("namespace Borno.Gen")
	genTokens(o, repo)
	opText := genScanner(o, repo)
	genUtils(o, repo)
	genParser(o, repo)
	genInterpreter(o, repo)
	genOtherDigests(o, repo)
	genDocs(o, repo, opText)
	genInventory(o, repo)
	o.p("end Borno.Gen")
	if err := os.WriteFile(filepath.Join(outDir, "Facts.lean"), []byte(o.b.String()), 0o644); err != nil {
		fmt.Fprintln(os.Stderr, err)
		os.Exit(2)
	}
	uf, err := os.Create(filepath.Join(outDir, "Unicode.lean"))
	if err != nil {
		fmt.Fprintln(os.Stderr, err)
		os.Exit(2)
	}
	genUnicode(uf)
	uf.Close()
}
