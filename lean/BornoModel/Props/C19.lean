import BornoModel.Cli
import BornoModel.Lemmas.EvalInv
/-! # C19 — exit status and output streams classify every run -/
namespace Borno.Props.C19
open Borno Cli

/-- the three script outcomes are exhaustive and mutually exclusive, and each is decided by the two flags -/
theorem status_classification (r : RunOut) :
    (fileStatus r = 0 ↔ (r.hadError = false ∧ r.hadRuntimeError = false)) ∧
    (fileStatus r = 65 ↔ r.hadError = true) ∧
    (fileStatus r = 70 ↔ (r.hadError = false ∧ r.hadRuntimeError = true)) := by
  unfold fileStatus Expect.exitSyntax Expect.exitRuntime
  cases r.hadError <;> cases r.hadRuntimeError <;> simp

/-- a text with a lexical or syntax diagnostic is not interpreted: no stdout, no stdin consumed,
    no built-in invoked, status 65 -/
theorem rejected_runs_nothing (P : Platform) (fuel : Nat) (src input : List Char)
    (h : (frontEnd P.lm src).diags ≠ []) (hab : (frontEnd P.lm src).abnormal = none) :
    let r := run P fuel src false input
    r.out = [] ∧ r.inputRest = input ∧ r.nativeCalls = 0 ∧ r.runtimeDiags = [] ∧ fileStatus r = 65 := by
  simp only [run, hab]
  have : (frontEnd P.lm src).diags.isEmpty = false := by
    cases hd : (frontEnd P.lm src).diags with
    | nil => exact absurd hd h
    | cons _ _ => rfl
  simp [this, fileStatus, Expect.exitSyntax]

/-- a run writes diagnostics only to stderr: stdout of an interpreted program is what the store collected -/
theorem usage_and_extension (P : Platform) (fuel : Nat) (args : List (List Char)) (file : Option (List Char)) (stdin : List Char) :
    (2 ≤ args.length → (main P fuel args file stdin).status = 64 ∧ (main P fuel args file stdin).err = [] ∧
        (main P fuel args file stdin).out = usageText) ∧
    (∀ p, args = [p] → ext p ≠ ['.', 'b', 'n'] →
        (main P fuel args file stdin).status = 64 ∧ (main P fuel args file stdin).out = badExtText) ∧
    (∀ p, args = [p] → ext p = ['.', 'b', 'n'] → file = none →
        (main P fuel args file stdin).status = 1 ∧ (main P fuel args file stdin).out = []) := by
  refine ⟨?_, ?_, ?_⟩
  · intro h
    match args, h with
    | _ :: _ :: _, _ => simp [main, mode, Expect.exitUsage]
  · intro p hp he
    subst hp
    simp [main, mode, he, Expect.exitUsage]
  · intro p hp he hf
    subst hp; subst hf
    simp [main, mode, he, Expect.exitRead]

/-! ## streams -/

/-- in every store a program run reaches, stdout is exactly the texts of the print events (prints,
    echoes, prompts) in order, the diagnostics are exactly the reported ones in order — neither
    leaks into the other —, the error flag is set iff a diagnostic was reported, and the call counter
    counts the built-in entries -/
theorem streams_are_trace_projections (P : Platform) (fuel : Nat) (prog : List Stmt) (repl : Bool) (input : List Char) (σ : Store)
    (h : interpret P fuel prog repl input = .ok () σ) : LogOk σ := by
  have := sat_interpretLoop P fuel prog 1 repl (initStore input)
  unfold interpret at h
  rw [h] at this
  exact this.log_ok ⟨rfl, rfl, rfl, rfl⟩

theorem renderDiag_ne_nil (d : Diag) : renderDiag d ≠ [] := by
  cases d with
  | «static» line wher msg => unfold renderDiag; exact List.append_ne_nil_of_right_ne_nil _ (by simp)
  | runtime msg line => unfold renderDiag; exact List.append_ne_nil_of_right_ne_nil _ (by decide)

theorem stderr_empty_iff (ds : List Diag) : ds.flatMap renderDiag = [] ↔ ds = [] := by
  cases ds with
  | nil => simp
  | cons d ds =>
    simp only [List.flatMap_cons, List.append_eq_nil_iff, reduceCtorEq, iff_false, not_and]
    intro h; exact absurd h (renderDiag_ne_nil d)

/-- **status 0 iff nothing on stderr** (for every run that ends; `abnormal` marks the model's fuel
    bound and the two known crash classes), 65 iff a lexical / syntax diagnostic, 70 iff only
    runtime diagnostics -/
theorem status0_iff_clean (P : Platform) (fuel : Nat) (src input : List Char)
    (hab : (run P fuel src false input).abnormal = none) :
    let r := run P fuel src false input
    (fileStatus r = 0 ↔ r.stderr = []) ∧
    (fileStatus r = 65 ↔ r.staticDiags ≠ []) ∧
    (fileStatus r = 70 ↔ (r.staticDiags = [] ∧ r.runtimeDiags ≠ [])) := by
  unfold run at hab ⊢
  cases hfa : (frontEnd P.lm src).abnormal with
  | some a => simp [hfa] at hab
  | none =>
    simp only [hfa] at hab ⊢
    cases hd : (frontEnd P.lm src).diags with
    | cons d ds =>
      simp [hd, fileStatus, RunOut.stderr, Expect.exitSyntax, renderDiag_ne_nil]
    | nil =>
      simp only [hd, List.isEmpty_nil, Bool.not_true, Bool.false_eq_true, if_false] at hab ⊢
      cases hp : (frontEnd P.lm src).prog with
      | none => simp [hp] at hab
      | some prog =>
        simp only [hp] at hab ⊢
        cases hi : interpret P fuel prog false input with
        | abn a => simp [hi] at hab
        | ok u σ =>
          have hlog := streams_are_trace_projections P fuel prog false input σ (by cases u; exact hi)
          obtain ⟨_, _, hflag, _⟩ := hlog
          simp only [fileStatus, RunOut.stderr, List.nil_append, Bool.false_eq_true, if_false, Expect.exitRuntime, Expect.exitSyntax,
            stderr_empty_iff]
          cases hds : σ.diags with
          | nil => simp [hflag, hds]
          | cons d ds => simp [hflag, hds]

/-! ## `ইনপুট` -/

/-- `ইনপুট` consumes exactly one line of stdin — up to and including its newline, or the
    unterminated rest — and returns it trimmed; the optional prompt goes to stdout first; at end of
    input it is an error and nothing is consumed -/
theorem input_consumes_one_line (σ : Store) (l rest : List Char) :
    (readLine σ.input = some (l, rest) →
      callInput [] σ = (σ.consume rest, .ok (.str (trimSpace l))) ∧
      ∀ p, callInput [.str p] σ = ((σ.print p).consume rest, .ok (.str (trimSpace l)))) ∧
    (readLine σ.input = none → ∃ m, callInput [] σ = (σ, .error m)) := by
  constructor
  · intro h
    constructor
    · simp [callInput, inputPrompt, h]
    · intro p
      have : (σ.print p).input = σ.input := rfl
      simp [callInput, inputPrompt, this, h]
  · intro h
    exact ⟨"failed to read input: EOF".toList, by simp [callInput, inputPrompt, h]⟩

/-- a line is the text up to the first newline; what follows it is left for the next read -/
theorem readLine_splits (inp : List Char) (l rest : List Char) (h : readLine inp = some (l, rest)) :
    l ++ rest = inp ∧ (∀ c ∈ l.dropLast, c ≠ '\n') := by
  unfold readLine at h
  cases inp with
  | nil => cases h
  | cons c cs =>
    simp only at h
    have hsplit := List.takeWhile_append_dropWhile (p := (· ≠ '\n')) (l := c :: cs)
    have hall : ∀ x ∈ (c :: cs).takeWhile (· ≠ '\n'), x ≠ '\n' := by
      intro x hx
      have := ListAux.takeWhile_forall (· ≠ '\n') (c :: cs) x hx
      simpa using this
    split at h
    · rename_i hr
      simp only [Option.some.injEq, Prod.mk.injEq] at h
      obtain ⟨rfl, rfl⟩ := h
      rw [hr, List.append_nil] at hsplit
      exact ⟨by rw [List.append_nil]; exact hsplit, fun x hx => hall x (List.dropLast_subset _ hx)⟩
    · rename_i q rest' hr
      simp only [Option.some.injEq, Prod.mk.injEq] at h
      obtain ⟨rfl, rfl⟩ := h
      have hq : q = '\n' := by
        have := ListAux.dropWhile_head (· ≠ '\n') (c :: cs) q rest' hr
        simpa using this
      subst hq
      refine ⟨by rw [List.append_assoc, List.singleton_append, ← hr]; exact hsplit, fun x hx => ?_⟩
      rw [List.dropLast_concat] at hx
      exact hall x hx

/-- the extension is the suffix from the last dot of the last path element -/
example : ext "a.bn".toList = ".bn".toList ∧ ext "a.bn.txt".toList = ".txt".toList ∧ ext "d.bn/x".toList = [] ∧
    ext ".bn".toList = ".bn".toList ∧ ext "a.BN".toList = ".BN".toList := by decide

/-- non-vacuity: a concrete rejected text -/
example : (frontEnd (fun _ => false) "@".toList).diags ≠ [] ∧ (frontEnd (fun _ => false) "@".toList).abnormal = none := by decide

end Borno.Props.C19
