import BornoModel.Lexer
/-! # C10 — numeric literals denote the correctly rounded value in either digit script -/
namespace Borno.Props.C10
open Borno Lexer

/-- a character is a digit iff it is an ASCII digit or one of the ten Bangla digits — for every character -/
theorem isDigit_iff (c : Char) :
    isDigit c = true ↔ (0x30 ≤ c.toNat ∧ c.toNat ≤ 0x39) ∨ (0x9E6 ≤ c.toNat ∧ c.toNat ≤ 0x9EF) := by
  simp [isDigit, Expect.digitRanges]

/-- the replacement table, as arithmetic on the code point -/
theorem lookup_digitMap (n : Nat) :
    Expect.digitMap.lookup n = if 0x9E6 ≤ n ∧ n ≤ 0x9EF then some (n - 0x9E6 + 0x30) else none := by
  by_cases h : 0x9E6 ≤ n ∧ n ≤ 0x9EF
  · rw [if_pos h]
    have : n = 2534 ∨ n = 2535 ∨ n = 2536 ∨ n = 2537 ∨ n = 2538 ∨ n = 2539 ∨ n = 2540 ∨ n = 2541 ∨ n = 2542 ∨ n = 2543 := by omega
    rcases this with rfl | rfl | rfl | rfl | rfl | rfl | rfl | rfl | rfl | rfl <;> rfl
  · rw [if_neg h]
    have hn : ∀ k ∈ [2534, 2535, 2536, 2537, 2538, 2539, 2540, 2541, 2542, 2543], (n == k) = false := by
      intro k hk; simp at hk; simp; omega
    simp [Expect.digitMap, List.lookup, hn]

/-- only the ten Bangla digits are transliterated; every other character is left alone -/
theorem translit_other (c : Char) (h : ¬ (0x9E6 ≤ c.toNat ∧ c.toNat ≤ 0x9EF)) : translitChar c = c := by
  unfold translitChar; rw [lookup_digitMap, if_neg h]

/-- a Bangla digit becomes the ASCII digit of the same value -/
theorem translit_digit (c : Char) (h : 0x9E6 ≤ c.toNat ∧ c.toNat ≤ 0x9EF) :
    translitChar c = Char.ofNat (c.toNat - 0x9E6 + 0x30) := by
  unfold translitChar; rw [lookup_digitMap, if_pos h]

theorem toNat_ofNat_small (n : Nat) (h : n < 0xd800) : (Char.ofNat n).toNat = n := by
  have hv : n.isValidChar := Or.inl h
  simp [Char.ofNat, hv, Char.toNat, Char.ofNatAux]

/-- transliteration maps into ASCII digits, on which it is the identity: it is idempotent, so a
    literal and the same literal with any digits swapped to the other script transliterate alike -/
theorem translit_idem (c : Char) : translitChar (translitChar c) = translitChar c := by
  by_cases h : 0x9E6 ≤ c.toNat ∧ c.toNat ≤ 0x9EF
  · rw [translit_digit c h]
    apply translit_other
    rw [toNat_ofNat_small _ (by omega)]
    omega
  · simp [translit_other c h]

/-- swapping a digit for its counterpart in the other script does not change the transliterated text -/
theorem script_swap_invariant (c : Char) (h : 0x30 ≤ c.toNat ∧ c.toNat ≤ 0x39) :
    translitChar (Char.ofNat (c.toNat + 0x9B6)) = c ∧ translitChar c = c := by
  constructor
  · have hn : (Char.ofNat (c.toNat + 0x9B6)).toNat = c.toNat + 0x9B6 := toNat_ofNat_small _ (by omega)
    rw [translit_digit _ (by rw [hn]; omega), hn]
    have : c.toNat + 0x9B6 - 0x9E6 + 0x30 = c.toNat := by omega
    rw [this]
    exact Char.ofNat_toNat c
  · exact translit_other c (by omega)

end Borno.Props.C10
