import BornoModel.Lemmas.ParseComplete
import BornoModel.Lemmas.ParseSoundStmt
/-!
# ParseCompleteStmt — every well-formed program is what `Parse` returns for its own rendering

The statement-level converse of `ParseSoundStmt`: for every list of statements satisfying `wfSs`,
`program` applied to the rendering followed by EOF returns the program (line fields forgotten),
without diagnostics, for all sufficiently large fuel.  Together with soundness: a token list is
accepted without diagnostics iff it is the rendering of a well-formed program.
-/
namespace Borno.Parser
open Borno Grammar

theorem sr_bind_nil {α β : Type} (a : α) (r : List Token) (k : α → List Token → SR β) : (SR.ok a r []).bind k = k a r := by
  simp only [SR.bind]
  cases k a r <;> simp

theorem ev_sbind {α β : Type} {p : Nat → SR α} {q : Nat → α → List Token → SR β} {a : α} {r1 : List Token} {v : SR β}
    (h1 : Ev p (.ok a r1 [])) (h2 : Ev (fun f => q f a r1) v) : Ev (fun f => (p f).bind (q f)) v := by
  obtain ⟨f1, h1⟩ := h1; obtain ⟨f2, h2⟩ := h2
  exact ⟨max f1 f2, fun f hf => by simp only [h1 f (by omega), sr_bind_nil]; exact h2 f (by omega)⟩

theorem ev_toSR {α : Type} {p : Nat → PR α} {a : α} {r : List Token} (h : Ev p (.ok a r)) :
    Ev (fun f => (p f).toSR) (.ok a r []) := by
  obtain ⟨f0, h⟩ := h
  exact ⟨f0, fun f hf => by simp only [h f hf, PR.toSR]⟩

/-! ### renderings -/

def toksD (d : VarDecl) : List Token := (rDecl d).map tk
def toksDs (ds : List VarDecl) : List Token := (rDecls ds).map tk

theorem toksD_none (n : Name) (l : Nat) : toksD ⟨n, l, none⟩ = [tk (idt n)] := by simp [toksD, rDecl, rInit]
theorem toksD_some (n : Name) (l : Nat) (e : Expr) : toksD ⟨n, l, some e⟩ = tk (idt n) :: tk (kw .EQUAL) :: toks e := by
  simp [toksD, rDecl, rInit, toks]
theorem toksDs_one (d : VarDecl) : toksDs [d] = toksD d := by simp [toksDs, toksD, rDecls]
theorem toksDs_more (d d2 : VarDecl) (ds : List VarDecl) : toksDs (d :: d2 :: ds) = toksD d ++ tk (kw .COMMA) :: toksDs (d2 :: ds) := by
  simp [toksDs, toksD, rDecls]

theorem semi_follow : followA .SEMICOLON = true := by decide

/-! ### `ধরি` declarations -/

theorem ev_varDecl_one (d : VarDecl) (hw : wfDecl d = true) (t : Token) (rest : List Token)
    (ht : t.tt = .SEMICOLON ∨ t.tt = .COMMA) (hl : t.line = 0)
    {v : PR (List VarDecl)}
    (hk : Ev (fun f => if t.tt = .COMMA then (varDecls f 0 rest).bind fun more r4 => .ok (eraseD d :: more) r4
                        else .ok [eraseD d] (t :: rest)) v) :
    Ev (fun f => varDecls f 0 (toksD d ++ t :: rest)) v := by
  obtain ⟨n, l, init⟩ := d
  simp only [wfDecl, Bool.and_eq_true, Bool.not_eq_true'] at hw
  have hne : t.tt ≠ .EQUAL := by rcases ht with h | h <;> simp [h]
  cases init with
  | none =>
    rw [toksD_none]
    refine ev_succ (body := fun f => if t.tt = .COMMA then (varDecls f 0 rest).bind fun more r4 => .ok (eraseD ⟨n, l, none⟩ :: more) r4
                        else .ok [eraseD ⟨n, l, none⟩] (t :: rest)) (fun f => ?_) hk
    rw [varDecls]
    simp [peekTok, hw.1, hne, PR.bind, isLiteralInit, hl, eraseD, eraseOE]
  | some e =>
    rw [toksD_some]
    have hfe : fits 0 e = true := by simpa [wfOE] using hw.2
    have hfo : followA t.tt = true := by rcases ht with h | h <;> rw [h] <;> decide
    obtain ⟨f0, ha⟩ := (claims e).A hfe t rest hfo
    obtain ⟨f1, hk⟩ := hk
    refine ⟨max f0 f1 + 1, fun f hf => ?_⟩
    obtain ⟨g, rfl⟩ : ∃ g, f = g + 1 := ⟨f - 1, by omega⟩
    have := hk g (by omega)
    simp only at this
    show varDecls (g + 1) 0 _ = _
    rw [varDecls]
    simp only [List.cons_append, peekTok, tk_idt_tt, ne_eq, not_true_eq_false, if_false, tk_idt_lexeme, hw.1, Bool.false_eq_true,
      tk_kw_tt, if_true, ha g (by omega), PR.bind, hl]
    rw [← this]
    by_cases hc : t.tt = .COMMA <;> simp [hc, eraseD, eraseOE, PR.bind]

theorem decls_claim : ∀ (ds : List VarDecl), ds ≠ [] → ds.all wfDecl = true →
    ∀ rest, Ev (fun f => varDecls f 0 (toksDs ds ++ tk (kw .SEMICOLON) :: rest)) (.ok (ds.map eraseD) (tk (kw .SEMICOLON) :: rest))
  | [], hne, _, _ => absurd rfl hne
  | [d], _, hw, rest => by
    simp only [List.all_cons, List.all_nil, Bool.and_true] at hw
    rw [toksDs_one]
    refine ev_varDecl_one d hw _ rest (Or.inl rfl) rfl ?_
    simp only [tk_kw_tt, reduceCtorEq, if_false, List.map_cons, List.map_nil]
    exact Ev.const _
  | d :: d2 :: ds, _, hw, rest => by
    simp only [List.all_cons, Bool.and_eq_true] at hw
    rw [toksDs_more, List.append_assoc, List.cons_append]
    refine ev_varDecl_one d hw.1 _ _ (Or.inr rfl) rfl ?_
    simp only [tk_kw_tt, if_true]
    have ih := decls_claim (d2 :: ds) (by simp) (by simp [hw.2]) rest
    exact ev_bind (q := fun _ more r4 => .ok (eraseD d :: more) r4) ih (by simpa using Ev.const _)

theorem toksDs_head : ∀ (ds : List VarDecl), ds ≠ [] → ∃ x xs, toksDs ds = x :: xs ∧ x.line = 0
  | [], h => absurd rfl h
  | d :: ds, _ => ⟨tk (idt d.name), _, by simp only [toksDs, rDecls, rDecl, List.cons_append, List.map_cons]; rfl, rfl⟩

/-- the statement a `ধরি` with the declarations `ds` becomes -/
def varStmt : List VarDecl → Stmt
  | [d] => .var d
  | ds => .varList ds

theorem ev_varDeclaration (ds : List VarDecl) (hne : ds ≠ []) (hw : ds.all wfDecl = true) (rest : List Token) :
    Ev (fun f => varDeclaration f (toksDs ds ++ tk (kw .SEMICOLON) :: rest)) (.ok (varStmt (ds.map eraseD)) rest []) := by
  obtain ⟨f0, h⟩ := decls_claim ds hne hw rest
  obtain ⟨x, xs, hx, hxl⟩ := toksDs_head ds hne
  refine ⟨f0, fun f hf => ?_⟩
  have h' := h f hf
  simp only [hx, List.cons_append] at h' ⊢
  unfold varDeclaration
  simp only [peekTokS, hxl, h', PR.bind, expectTok, peekTok, tk_kw_tt, if_true]
  cases hm : ds.map eraseD with
  | nil => simp [varStmt, PR.toSR]
  | cons a as => cases as <;> simp [varStmt, PR.toSR]

theorem ev_exprThenSemi (mk : Expr → Stmt) (e : Expr) (hf : fits 0 e = true) (rest : List Token) :
    Ev (fun f => exprThenSemi f mk (toks e ++ tk (kw .SEMICOLON) :: rest)) (.ok (mk (eraseE e)) rest []) := by
  obtain ⟨f0, h⟩ := (claims e).A hf (tk (kw .SEMICOLON)) rest semi_follow
  refine ⟨f0, fun f hf => ?_⟩
  unfold exprThenSemi
  simp only [h f hf, PR.toSR, sr_bind_nil, lenient, peekTokS, tk_kw_tt, if_true]

def toksNames (ns : List Name) : List Token := (rNames ns).map tk

theorem toksNames_one (n : Name) : toksNames [n] = [tk (idt n)] := by simp [toksNames, rNames]
theorem toksNames_more (n m : Name) (ns : List Name) : toksNames (n :: m :: ns) = tk (idt n) :: tk (kw .COMMA) :: toksNames (m :: ns) := by
  simp [toksNames, rNames]

theorem params_claim : ∀ (ns : List Name) (n : Nat), ns ≠ [] → n + ns.length ≤ Expect.maxParams → ∀ rest,
    Ev (fun f => params f n (toksNames ns ++ tk (kw .RIGHT_PAREN) :: rest)) (.ok ns (tk (kw .RIGHT_PAREN) :: rest))
  | [], _, h, _, _ => absurd rfl h
  | [a], n, _, hn, rest => by
    rw [toksNames_one]
    refine ev_succ (body := fun _ => .ok [a] (tk (kw .RIGHT_PAREN) :: rest)) (fun f => ?_) (Ev.const _)
    have : ¬ n ≥ Expect.maxParams := by simp at hn; omega
    rw [params]; simp [peekTok, this]
  | a :: b :: ns, n, _, hn, rest => by
    rw [toksNames_more]
    have ih := params_claim (b :: ns) (n + 1) (by simp) (by simp at hn ⊢; omega) rest
    refine ev_succ (body := fun f => (params f (n + 1) (toksNames (b :: ns) ++ tk (kw .RIGHT_PAREN) :: rest)).bind fun more r3 => .ok (a :: more) r3)
      (fun f => ?_) (ev_bind (q := fun _ more r3 => .ok (a :: more) r3) ih (Ev.const _))
    have : ¬ n ≥ Expect.maxParams := by simp at hn; omega
    rw [params]; simp [peekTok, this]

/-! ### the `ফর` header -/

def toksOE (o : Option Expr) : List Token := (rOptE o).map tk

theorem exprStart_not_stop : ∀ tt ∈ exprStart, tt ≠ TT.SEMICOLON ∧ tt ≠ TT.RIGHT_PAREN ∧ tt ≠ TT.VAR ∧ tt ≠ TT.FUN ∧ tt ≠ TT.EOF ∧
    tt ≠ TT.RIGHT_BRACE ∧ tt ≠ TT.IF ∧ tt ≠ TT.WHILE ∧ tt ≠ TT.FOR ∧ tt ≠ TT.PRINT ∧ tt ≠ TT.RETURN ∧ tt ≠ TT.BREAK ∧ tt ≠ TT.CONTINUE ∧
    tt ≠ TT.ELSE := by decide

theorem ev_optExpr_none (stop : TT) (t : Token) (rest : List Token) (ht : t.tt = stop) :
    Ev (fun f => optExprUntil stop f (t :: rest)) (.ok none (t :: rest)) :=
  ⟨0, fun f _ => by simp [optExprUntil, peekTok, ht]⟩

theorem ev_optExpr_some (stop : TT) (hstop : followA stop = true) (hns : ∀ tt ∈ exprStart, tt ≠ stop)
    (e : Expr) (hf : fits 0 e = true) (rest : List Token) :
    Ev (fun f => optExprUntil stop f (toks e ++ tk (kw stop) :: rest)) (.ok (some (eraseE e)) (tk (kw stop) :: rest)) := by
  obtain ⟨f0, h⟩ := (claims e).A hf (tk (kw stop)) rest hstop
  obtain ⟨x, xs, hx, hxt⟩ := toks_head e
  have hs := head_expr e 0 hf
  rw [← hxt] at hs
  refine ⟨f0, fun f hf => ?_⟩
  have h' := h f hf
  simp only [hx, List.cons_append] at h' ⊢
  simp only [optExprUntil, peekTok, hns _ hs, if_false, h', PR.bind]

theorem ev_optExpr (stop : TT) (hstop : followA stop = true) (hns : ∀ tt ∈ exprStart, tt ≠ stop)
    (o : Option Expr) (hf : wfOE o = true) (rest : List Token) :
    Ev (fun f => optExprUntil stop f (toksOE o ++ tk (kw stop) :: rest)) (.ok (eraseOE o) (tk (kw stop) :: rest)) := by
  cases o with
  | none => simpa [toksOE, rOptE, eraseOE] using ev_optExpr_none stop (tk (kw stop)) rest rfl
  | some e => simpa [toksOE, rOptE, eraseOE, toks] using ev_optExpr_some stop hstop hns e (by simpa [wfOE] using hf) rest

theorem ev_forHeader (c inc : Option Expr) (hc : wfOE c = true) (hi : wfOE inc = true) (rest : List Token) :
    Ev (fun f => forHeader f (toksOE c ++ tk (kw .SEMICOLON) :: (toksOE inc ++ tk (kw .RIGHT_PAREN) :: rest)))
      (.ok (eraseOE c, eraseOE inc) rest) := by
  obtain ⟨f0, h0⟩ := ev_optExpr .SEMICOLON semi_follow (fun tt h => (exprStart_not_stop tt h).1) c hc (toksOE inc ++ tk (kw .RIGHT_PAREN) :: rest)
  obtain ⟨f1, h1⟩ := ev_optExpr .RIGHT_PAREN follow_close.1 (fun tt h => (exprStart_not_stop tt h).2.1) inc hi rest
  refine ⟨max f0 f1, fun f hf => ?_⟩
  unfold forHeader
  simp only [h0 f (by omega), h1 f (by omega), PR.bind, expectTok, peekTok, tk_kw_tt, if_true]

def toksInit (o : Option Stmt) : List Token := (rForInit o).map tk

theorem ev_forInit (init : Option Stmt) (hw : wfInit init = true) (rest : List Token) :
    Ev (fun f => forInit f (toksInit init ++ rest)) (.ok (eraseOS init) rest []) := by
  cases init with
  | none => exact ⟨0, fun f _ => by simp [forInit, toksInit, rForInit, peekTokS, eraseOS]⟩
  | some s =>
    cases s <;> simp only [wfInit, Bool.false_eq_true] at hw
    case expr e =>
      obtain ⟨f0, h⟩ := ev_exprThenSemi .expr e hw rest
      obtain ⟨x, xs, hx, hxt⟩ := toks_head e
      have hs := head_expr e 0 hw
      rw [← hxt] at hs
      have hn := exprStart_not_stop _ hs
      refine ⟨f0, fun f hf => ?_⟩
      have h' := h f hf
      have htoks : toksInit (some (.expr e)) ++ rest = toks e ++ tk (kw .SEMICOLON) :: rest := by
        simp [toksInit, rForInit, rStmt, toks]
      rw [htoks]
      simp only [hx, List.cons_append] at h' ⊢
      simp only [forInit, peekTokS, hn.1, hn.2.2.1, if_false, h', sr_bind_nil, eraseOS, eraseS]
    case var d =>
      obtain ⟨f0, h⟩ := ev_varDeclaration [d] (by simp) (by simpa using hw) rest
      refine ⟨f0, fun f hf => ?_⟩
      have h' := h f hf
      have htoks : toksInit (some (.var d)) ++ rest = tk (kw .VAR) :: (toksDs [d] ++ tk (kw .SEMICOLON) :: rest) := by
        simp [toksInit, rForInit, rStmt, toksDs, rDecls]
      rw [htoks]
      simp only [forInit, peekTokS, tk_kw_tt, reduceCtorEq, if_false, if_true, h', sr_bind_nil, eraseOS, eraseS, List.map_cons, List.map_nil, varStmt]
    case varList ds =>
      simp only [Bool.and_eq_true, decide_eq_true_eq] at hw
      have hne : ds ≠ [] := by intro h; subst h; simp at hw
      obtain ⟨f0, h⟩ := ev_varDeclaration ds hne hw.2 rest
      refine ⟨f0, fun f hf => ?_⟩
      have h' := h f hf
      have htoks : toksInit (some (.varList ds)) ++ rest = tk (kw .VAR) :: (toksDs ds ++ tk (kw .SEMICOLON) :: rest) := by
        simp [toksInit, rForInit, rStmt, toksDs]
      rw [htoks]
      have hvs : varStmt (ds.map eraseD) = .varList (ds.map eraseD) := by
        cases ds with
        | nil => exact absurd rfl hne
        | cons a as => cases as with
          | nil => simp at hw
          | cons b bs => simp [varStmt]
      simp only [forInit, peekTokS, tk_kw_tt, reduceCtorEq, if_false, if_true, h', sr_bind_nil, eraseOS, eraseS, hvs]

/-! ### renderings of statements -/

def toksElse (o : Option Stmt) : List Token := (rElse o).map tk

theorem toksS_expr (e : Expr) : toksS (.expr e) = toks e ++ [tk (kw .SEMICOLON)] := by simp [toksS, rStmt, toks]
theorem toksS_print (e : Expr) : toksS (.print e) = tk (kw .PRINT) :: (toks e ++ [tk (kw .SEMICOLON)]) := by simp [toksS, rStmt, toks]
theorem toksS_var (d : VarDecl) : toksS (.var d) = tk (kw .VAR) :: (toksDs [d] ++ [tk (kw .SEMICOLON)]) := by
  simp [toksS, rStmt, toksDs, rDecls]
theorem toksS_varList (ds : List VarDecl) : toksS (.varList ds) = tk (kw .VAR) :: (toksDs ds ++ [tk (kw .SEMICOLON)]) := by
  simp [toksS, rStmt, toksDs]
theorem toksS_block (ss : List Stmt) : toksS (.block ss) = tk (kw .LEFT_BRACE) :: (toksSs ss ++ [tk (kw .RIGHT_BRACE)]) := by
  simp [toksS, toksSs, rStmt]
theorem toksS_if (c : Expr) (t : Stmt) (e : Option Stmt) :
    toksS (.ifS c t e) = tk (kw .IF) :: tk (kw .LEFT_PAREN) :: (toks c ++ tk (kw .RIGHT_PAREN) :: (toksS t ++ toksElse e)) := by
  simp [toksS, toksElse, rStmt, toks]
theorem toksS_while (c : Expr) (b : Stmt) :
    toksS (.whileS c b) = tk (kw .WHILE) :: tk (kw .LEFT_PAREN) :: (toks c ++ tk (kw .RIGHT_PAREN) :: toksS b) := by
  simp [toksS, rStmt, toks]
theorem toksS_for (init : Option Stmt) (c inc : Option Expr) (b : Stmt) :
    toksS (.forS init c inc b) = tk (kw .FOR) :: tk (kw .LEFT_PAREN) ::
      (toksInit init ++ (toksOE c ++ tk (kw .SEMICOLON) :: (toksOE inc ++ tk (kw .RIGHT_PAREN) :: toksS b))) := by
  simp [toksS, toksInit, toksOE, rStmt]
theorem toksS_break (l : Nat) : toksS (.breakS l) = [tk (kw .BREAK), tk (kw .SEMICOLON)] := by simp [toksS, rStmt]
theorem toksS_continue (l : Nat) : toksS (.continueS l) = [tk (kw .CONTINUE), tk (kw .SEMICOLON)] := by simp [toksS, rStmt]
theorem toksS_return (l : Nat) (v : Option Expr) : toksS (.returnS l v) = tk (kw .RETURN) :: (toksOE v ++ [tk (kw .SEMICOLON)]) := by
  simp [toksS, toksOE, rStmt]
theorem toksS_fun (n : Name) (ps : List Name) (body : List Stmt) :
    toksS (.funS n ps body) = tk (kw .FUN) :: tk (idt n) :: tk (kw .LEFT_PAREN) ::
      (toksNames ps ++ tk (kw .RIGHT_PAREN) :: tk (kw .LEFT_BRACE) :: (toksSs body ++ [tk (kw .RIGHT_BRACE)])) := by
  simp [toksS, toksSs, toksNames, rStmt]
theorem toksSs_nil : toksSs [] = [] := rfl
theorem toksSs_cons (s : Stmt) (ss : List Stmt) : toksSs (s :: ss) = toksS s ++ toksSs ss := by simp [toksSs, toksS, rStmts]
theorem toksElse_none : toksElse none = [] := rfl
theorem toksElse_some (el : Stmt) : toksElse (some el) = tk (kw .ELSE) :: toksS el := by simp [toksElse, toksS, rElse]

/-- the first token of a statement's rendering: never `}`, EOF or `নাহয়`; for statements proper also not `ফাংশন` / `ধরি` -/
theorem toksS_head (s : Stmt) (hw : wfS s = true) :
    ∃ x xs, toksS s = x :: xs ∧ x.tt ≠ .RIGHT_BRACE ∧ x.tt ≠ .EOF ∧ x.tt ≠ .ELSE ∧
      (isPlain s = true → x.tt ≠ .FUN ∧ x.tt ≠ .VAR) := by
  cases s with
  | expr e =>
    simp only [wfS, Bool.and_eq_true] at hw
    obtain ⟨x, xs, hx, hxt⟩ := toks_head e
    have hs := head_expr e 0 hw.1
    rw [← hxt] at hs
    have hn := exprStart_not_stop _ hs
    exact ⟨x, xs ++ [tk (kw .SEMICOLON)], by rw [toksS_expr, hx]; rfl, hn.2.2.2.2.2.1, hn.2.2.2.2.1, hn.2.2.2.2.2.2.2.2.2.2.2.2.2,
      fun _ => ⟨hn.2.2.2.1, hn.2.2.1⟩⟩
  | print e => exact ⟨_, _, toksS_print e, by simp, by simp, by simp, fun _ => by simp⟩
  | var d => exact ⟨_, _, toksS_var d, by simp, by simp, by simp, fun h => by simp [isPlain] at h⟩
  | varList ds => exact ⟨_, _, toksS_varList ds, by simp, by simp, by simp, fun h => by simp [isPlain] at h⟩
  | block ss => exact ⟨_, _, toksS_block ss, by simp, by simp, by simp, fun _ => by simp⟩
  | ifS c t e => exact ⟨_, _, toksS_if c t e, by simp, by simp, by simp, fun _ => by simp⟩
  | whileS c b => exact ⟨_, _, toksS_while c b, by simp, by simp, by simp, fun _ => by simp⟩
  | forS i c inc b => exact ⟨_, _, toksS_for i c inc b, by simp, by simp, by simp, fun _ => by simp⟩
  | breakS l => exact ⟨_, _, toksS_break l, by simp, by simp, by simp, fun _ => by simp⟩
  | continueS l => exact ⟨_, _, toksS_continue l, by simp, by simp, by simp, fun _ => by simp⟩
  | returnS l v => exact ⟨_, _, toksS_return l v, by simp, by simp, by simp, fun _ => by simp⟩
  | funS n ps body => exact ⟨_, _, toksS_fun n ps body, by simp, by simp, by simp, fun h => by simp [isPlain] at h⟩

/-! ### the claims, per statement -/

def StAt (s : Stmt) : Prop := wfS s = true → isPlain s = true → ∀ t rest, (openIf s = true → t.tt ≠ .ELSE) →
    Ev (fun f => statement f (toksS s ++ t :: rest)) (.ok (eraseS s) (t :: rest) [])

def DeAt (s : Stmt) : Prop := wfS s = true → ∀ t rest, (openIf s = true → t.tt ≠ .ELSE) →
    Ev (fun f => declaration f (toksS s ++ t :: rest)) (.ok (eraseS s) (t :: rest) [])

def BlAt (ss : List Stmt) : Prop := wfSs ss = true → ∀ rest,
    Ev (fun f => block f (toksSs ss ++ tk (kw .RIGHT_BRACE) :: rest)) (.ok (eraseSs ss) rest [])

structure SClaims (s : Stmt) : Prop where
  St : StAt s
  De : DeAt s

/-- a statement proper is parsed by `declaration` through `statement` -/
theorem De_of_St {s : Stmt} (hp : isPlain s = true) (hS : StAt s) : DeAt s := by
  intro hw t rest ho
  obtain ⟨x, xs, hx, _, _, _, hfv⟩ := toksS_head s hw
  obtain ⟨f0, h⟩ := hS hw hp t rest ho
  refine ⟨f0 + 1, fun f hf => ?_⟩
  obtain ⟨g, rfl⟩ : ∃ g, f = g + 1 := ⟨f - 1, by omega⟩
  have h' := h g (by omega)
  simp only [hx, List.cons_append] at h' ⊢
  show declaration (g + 1) _ = _
  rw [declaration]
  simp only [peekTokS, (hfv hp).1, (hfv hp).2, if_false, h']

theorem st_expr (e : Expr) : SClaims (.expr e) := by
  have hS : StAt (.expr e) := by
    intro hw _ t rest _
    simp only [wfS, Bool.and_eq_true, bne_iff_ne] at hw
    obtain ⟨f0, h⟩ := ev_exprThenSemi .expr e hw.1 (t :: rest)
    obtain ⟨x, xs, hx, hxt⟩ := toks_head e
    have hs := head_expr e 0 hw.1
    rw [← hxt] at hs
    have hn := exprStart_not_stop _ hs
    have hb : x.tt ≠ .LEFT_BRACE := by rw [hxt]; exact hw.2
    refine ⟨f0 + 1, fun f hf => ?_⟩
    obtain ⟨g, rfl⟩ : ∃ g, f = g + 1 := ⟨f - 1, by omega⟩
    have h' := h g (by omega)
    rw [toksS_expr]
    simp only [List.append_assoc, List.cons_append, List.nil_append, hx] at h' ⊢
    show statement (g + 1) _ = _
    rw [statement]
    simp only [peekTokS]
    split <;> first | exact h' | (exfalso; simp_all)
  exact ⟨hS, De_of_St rfl hS⟩

theorem st_print (e : Expr) : SClaims (.print e) := by
  have hS : StAt (.print e) := by
    intro hw _ t rest _
    simp only [wfS] at hw
    obtain ⟨f0, h⟩ := ev_exprThenSemi .print e hw (t :: rest)
    refine ⟨f0 + 1, fun f hf => ?_⟩
    obtain ⟨g, rfl⟩ : ∃ g, f = g + 1 := ⟨f - 1, by omega⟩
    have h' := h g (by omega)
    rw [toksS_print]
    simp only [List.append_assoc, List.cons_append, List.nil_append] at h' ⊢
    show statement (g + 1) _ = _
    rw [statement]
    simp only [peekTokS, tk_kw_tt, h', eraseS]
  exact ⟨hS, De_of_St rfl hS⟩

theorem st_break (l : Nat) : SClaims (.breakS l) := by
  have hS : StAt (.breakS l) := by
    intro _ _ t rest _
    refine ⟨1, fun f hf => ?_⟩
    obtain ⟨g, rfl⟩ : ∃ g, f = g + 1 := ⟨f - 1, by omega⟩
    rw [toksS_break]
    show statement (g + 1) _ = _
    rw [statement]
    simp [peekTokS, expectTok, peekTok, PR.bind, PR.toSR, eraseS]
  exact ⟨hS, De_of_St rfl hS⟩

theorem st_continue (l : Nat) : SClaims (.continueS l) := by
  have hS : StAt (.continueS l) := by
    intro _ _ t rest _
    refine ⟨1, fun f hf => ?_⟩
    obtain ⟨g, rfl⟩ : ∃ g, f = g + 1 := ⟨f - 1, by omega⟩
    rw [toksS_continue]
    show statement (g + 1) _ = _
    rw [statement]
    simp [peekTokS, expectTok, peekTok, PR.bind, PR.toSR, eraseS]
  exact ⟨hS, De_of_St rfl hS⟩

theorem st_return (l : Nat) (v : Option Expr) : SClaims (.returnS l v) := by
  have hS : StAt (.returnS l v) := by
    intro hw _ t rest _
    simp only [wfS] at hw
    cases v with
    | none =>
      refine ⟨1, fun f hf => ?_⟩
      obtain ⟨g, rfl⟩ : ∃ g, f = g + 1 := ⟨f - 1, by omega⟩
      rw [toksS_return]
      show statement (g + 1) _ = _
      rw [statement]
      simp [peekTokS, toksOE, rOptE, peekTok, PR.toSR, eraseS, eraseOE]
    | some e =>
      have hf : fits 0 e = true := by simpa [wfOE] using hw
      obtain ⟨f0, h⟩ := (claims e).A hf (tk (kw .SEMICOLON)) (t :: rest) semi_follow
      obtain ⟨x, xs, hx, hxt⟩ := toks_head e
      have hs := head_expr e 0 hf
      rw [← hxt] at hs
      have hn := exprStart_not_stop _ hs
      refine ⟨f0 + 1, fun f hf => ?_⟩
      obtain ⟨g, rfl⟩ : ∃ g, f = g + 1 := ⟨f - 1, by omega⟩
      have h' := h g (by omega)
      rw [toksS_return]
      have : toksOE (some e) = toks e := by simp [toksOE, rOptE, toks]
      rw [this]
      simp only [List.append_assoc, List.cons_append, List.nil_append, hx] at h' ⊢
      show statement (g + 1) _ = _
      rw [statement]
      simp only [peekTokS, tk_kw_tt, peekTok, hn.1, if_false, h', PR.bind, expectTok, if_true, PR.toSR, tk_line, eraseS, eraseOE]
  exact ⟨hS, De_of_St rfl hS⟩

theorem st_block {ss : List Stmt} (hB : BlAt ss) : SClaims (.block ss) := by
  have hS : StAt (.block ss) := by
    intro hw _ t rest _
    simp only [wfS] at hw
    obtain ⟨f0, h⟩ := hB hw (t :: rest)
    refine ⟨f0 + 1, fun f hf => ?_⟩
    obtain ⟨g, rfl⟩ : ∃ g, f = g + 1 := ⟨f - 1, by omega⟩
    have h' := h g (by omega)
    rw [toksS_block]
    simp only [List.append_assoc, List.cons_append, List.nil_append] at h' ⊢
    show statement (g + 1) _ = _
    rw [statement]
    simp only [peekTokS, tk_kw_tt, h', sr_bind_nil, eraseS]
  exact ⟨hS, De_of_St rfl hS⟩

theorem st_while (c : Expr) {b : Stmt} (hb : StAt b) : SClaims (.whileS c b) := by
  have hS : StAt (.whileS c b) := by
    intro hw _ t rest ho
    simp only [wfS, Bool.and_eq_true] at hw
    obtain ⟨f0, hc⟩ := (claims c).A hw.1.1 (tk (kw .RIGHT_PAREN)) (toksS b ++ t :: rest) follow_close.1
    obtain ⟨f1, hbody⟩ := hb hw.2 hw.1.2 t rest (fun h => ho (by simpa [openIf] using h))
    refine ⟨max f0 f1 + 1, fun f hf => ?_⟩
    obtain ⟨g, rfl⟩ : ∃ g, f = g + 1 := ⟨f - 1, by omega⟩
    rw [toksS_while]
    simp only [List.append_assoc, List.cons_append]
    show statement (g + 1) _ = _
    rw [statement]
    simp only [peekTokS, tk_kw_tt, expectTok, peekTok, if_true, PR.bind, hc g (by omega), PR.toSR, sr_bind_nil, hbody g (by omega), eraseS]
  exact ⟨hS, De_of_St rfl hS⟩

theorem st_if (c : Expr) {th : Stmt} {el : Option Stmt} (hth : StAt th) (hel : ∀ e, el = some e → StAt e) : SClaims (.ifS c th el) := by
  have hS : StAt (.ifS c th el) := by
    intro hw _ t rest ho
    simp only [wfS, Bool.and_eq_true] at hw
    cases el with
    | none =>
      have htne : t.tt ≠ .ELSE := ho (by simp [openIf])
      obtain ⟨f0, hc⟩ := (claims c).A hw.1.1.1 (tk (kw .RIGHT_PAREN)) (toksS th ++ t :: rest) follow_close.1
      obtain ⟨f1, hthen⟩ := hth hw.1.2 hw.1.1.2 t rest (fun _ => htne)
      refine ⟨max f0 f1 + 1, fun f hf => ?_⟩
      obtain ⟨g, rfl⟩ : ∃ g, f = g + 1 := ⟨f - 1, by omega⟩
      rw [toksS_if, toksElse_none]
      simp only [List.append_assoc, List.cons_append, List.append_nil]
      show statement (g + 1) _ = _
      rw [statement]
      simp only [peekTokS, tk_kw_tt, expectTok, peekTok, if_true, PR.bind, hc g (by omega), PR.toSR, sr_bind_nil, hthen g (by omega),
        htne, if_false, eraseS, eraseOS]
    | some e =>
      simp only [wfElse, Bool.and_eq_true, Bool.not_eq_true'] at hw
      obtain ⟨f0, hc⟩ := (claims c).A hw.1.1.1 (tk (kw .RIGHT_PAREN)) (toksS th ++ tk (kw .ELSE) :: (toksS e ++ t :: rest)) follow_close.1
      obtain ⟨f1, hthen⟩ := hth hw.1.2 hw.1.1.2 (tk (kw .ELSE)) (toksS e ++ t :: rest) (fun h => by rw [hw.2.1.1] at h; cases h)
      obtain ⟨f2, helse⟩ := hel e rfl hw.2.2 hw.2.1.2 t rest (fun h => ho (by simpa [openIf] using h))
      refine ⟨max f0 (max f1 f2) + 1, fun f hf => ?_⟩
      obtain ⟨g, rfl⟩ : ∃ g, f = g + 1 := ⟨f - 1, by omega⟩
      rw [toksS_if, toksElse_some]
      simp only [List.append_assoc, List.cons_append]
      show statement (g + 1) _ = _
      rw [statement]
      simp only [peekTokS, tk_kw_tt, expectTok, peekTok, if_true, PR.bind, hc g (by omega), PR.toSR, sr_bind_nil, hthen g (by omega),
        helse g (by omega), eraseS, eraseOS]
  exact ⟨hS, De_of_St rfl hS⟩

theorem st_for (init : Option Stmt) (c inc : Option Expr) {b : Stmt} (hb : StAt b) : SClaims (.forS init c inc b) := by
  have hS : StAt (.forS init c inc b) := by
    intro hw _ t rest ho
    simp only [wfS, Bool.and_eq_true] at hw
    obtain ⟨f0, hi⟩ := ev_forInit init hw.1.1.1.1 (toksOE c ++ tk (kw .SEMICOLON) :: (toksOE inc ++ tk (kw .RIGHT_PAREN) :: (toksS b ++ t :: rest)))
    obtain ⟨f1, hh⟩ := ev_forHeader c inc hw.1.1.1.2 hw.1.1.2 (toksS b ++ t :: rest)
    obtain ⟨f2, hbody⟩ := hb hw.2 hw.1.2 t rest (fun h => ho (by simpa [openIf] using h))
    refine ⟨max f0 (max f1 f2) + 1, fun f hf => ?_⟩
    obtain ⟨g, rfl⟩ : ∃ g, f = g + 1 := ⟨f - 1, by omega⟩
    rw [toksS_for]
    simp only [List.append_assoc, List.cons_append]
    show statement (g + 1) _ = _
    rw [statement]
    simp only [peekTokS, tk_kw_tt, expectTok, peekTok, if_true, PR.toSR, sr_bind_nil, hi g (by omega), hh g (by omega), hbody g (by omega), eraseS]
  exact ⟨hS, De_of_St rfl hS⟩

theorem st_var (d : VarDecl) : SClaims (.var d) := by
  refine ⟨fun _ hp => by simp [isPlain] at hp, ?_⟩
  intro hw t rest _
  simp only [wfS] at hw
  obtain ⟨f0, h⟩ := ev_varDeclaration [d] (by simp) (by simpa using hw) (t :: rest)
  refine ⟨f0 + 1, fun f hf => ?_⟩
  obtain ⟨g, rfl⟩ : ∃ g, f = g + 1 := ⟨f - 1, by omega⟩
  have h' := h g (by omega)
  rw [toksS_var]
  simp only [List.append_assoc, List.cons_append, List.nil_append] at h' ⊢
  show declaration (g + 1) _ = _
  rw [declaration]
  simp only [peekTokS, tk_kw_tt, reduceCtorEq, if_false, if_true, h', List.map_cons, List.map_nil, varStmt, eraseS]

theorem st_varList (ds : List VarDecl) : SClaims (.varList ds) := by
  refine ⟨fun _ hp => by simp [isPlain] at hp, ?_⟩
  intro hw t rest _
  simp only [wfS, Bool.and_eq_true, decide_eq_true_eq] at hw
  have hne : ds ≠ [] := by intro h; subst h; simp at hw
  obtain ⟨f0, h⟩ := ev_varDeclaration ds hne hw.2 (t :: rest)
  refine ⟨f0 + 1, fun f hf => ?_⟩
  obtain ⟨g, rfl⟩ : ∃ g, f = g + 1 := ⟨f - 1, by omega⟩
  have h' := h g (by omega)
  have hvs : varStmt (ds.map eraseD) = .varList (ds.map eraseD) := by
    cases ds with
    | nil => exact absurd rfl hne
    | cons a as => cases as with
      | nil => simp at hw
      | cons b bs => simp [varStmt]
  rw [toksS_varList]
  simp only [List.append_assoc, List.cons_append, List.nil_append] at h' ⊢
  show declaration (g + 1) _ = _
  rw [declaration]
  simp only [peekTokS, tk_kw_tt, reduceCtorEq, if_false, if_true, h', hvs, eraseS]

theorem ev_function (n : Name) (ps : List Name) {body : List Stmt} (hB : BlAt body)
    (hn : isReserved n = false) (hps : ps.length ≤ Expect.maxParams) (hw : wfSs body = true) (rest : List Token) :
    Ev (fun f => function f (tk (idt n) :: tk (kw .LEFT_PAREN) ::
        (toksNames ps ++ tk (kw .RIGHT_PAREN) :: tk (kw .LEFT_BRACE) :: (toksSs body ++ tk (kw .RIGHT_BRACE) :: rest))))
      (.ok (.funS n ps (eraseSs body)) rest []) := by
  obtain ⟨f0, hb⟩ := hB hw rest
  cases ps with
  | nil =>
    refine ⟨f0 + 1, fun f hf => ?_⟩
    obtain ⟨g, rfl⟩ : ∃ g, f = g + 1 := ⟨f - 1, by omega⟩
    show function (g + 1) _ = _
    rw [function]
    simp only [toksNames, rNames, List.map_nil, List.nil_append, peekTokS, tk_idt_tt, ne_eq, not_true_eq_false, if_false, tk_idt_lexeme, hn,
      Bool.false_eq_true, expectTok, peekTok, tk_kw_tt, if_true, PR.bind, PR.toSR, sr_bind_nil, hb g (by omega)]
  | cons a as =>
    obtain ⟨f1, hp⟩ := params_claim (a :: as) 0 (by simp) (by simpa using hps) (tk (kw .LEFT_BRACE) :: (toksSs body ++ tk (kw .RIGHT_BRACE) :: rest))
    obtain ⟨x, xs, hx⟩ : ∃ x xs, toksNames (a :: as) = x :: xs ∧ x.tt = .IDENTIFIER := by
      cases as with
      | nil => exact ⟨_, _, toksNames_one a, rfl⟩
      | cons b bs => exact ⟨_, _, toksNames_more a b bs, rfl⟩
    refine ⟨max f0 f1 + 1, fun f hf => ?_⟩
    obtain ⟨g, rfl⟩ : ∃ g, f = g + 1 := ⟨f - 1, by omega⟩
    have hp' := hp g (by omega)
    simp only [hx.1, List.cons_append] at hp' ⊢
    show function (g + 1) _ = _
    rw [function]
    simp only [peekTokS, tk_idt_tt, ne_eq, not_true_eq_false, if_false, tk_idt_lexeme, hn, Bool.false_eq_true, expectTok, peekTok, tk_kw_tt,
      if_true, PR.bind, hx.2, reduceCtorEq, hp', PR.toSR, sr_bind_nil, hb g (by omega)]

theorem st_fun (n : Name) (ps : List Name) {body : List Stmt} (hB : BlAt body) : SClaims (.funS n ps body) := by
  refine ⟨fun _ hp => by simp [isPlain] at hp, ?_⟩
  intro hw t rest _
  simp only [wfS, Bool.and_eq_true, Bool.not_eq_true', decide_eq_true_eq] at hw
  obtain ⟨f0, h⟩ := ev_function n ps hB hw.1.1 hw.1.2 hw.2 (t :: rest)
  refine ⟨f0 + 1, fun f hf => ?_⟩
  obtain ⟨g, rfl⟩ : ∃ g, f = g + 1 := ⟨f - 1, by omega⟩
  have h' := h g (by omega)
  rw [toksS_fun]
  simp only [List.append_assoc, List.cons_append, List.nil_append] at h' ⊢
  show declaration (g + 1) _ = _
  rw [declaration]
  simp only [peekTokS, tk_kw_tt, if_true, h', eraseS]

/-! ### statement lists -/

def AllS : List Stmt → Prop
  | [] => True
  | s :: ss => SClaims s ∧ AllS ss

def OptS : Option Stmt → Prop
  | none => True
  | some s => SClaims s

/-- what follows a statement inside a block or at top level is never `নাহয়` -/
theorem next_not_else (ss : List Stmt) (hw : wfSs ss = true) (close : TT) (hc : close ≠ .ELSE) (rest : List Token) :
    ∃ t r, toksSs ss ++ tk (kw close) :: rest = t :: r ∧ t.tt ≠ .ELSE := by
  cases ss with
  | nil => exact ⟨_, _, rfl, by simpa using hc⟩
  | cons s ss' =>
    simp only [wfSs, Bool.and_eq_true] at hw
    obtain ⟨x, xs, hx, _, _, hne, _⟩ := toksS_head s hw.1
    exact ⟨x, xs ++ (toksSs ss' ++ tk (kw close) :: rest), by rw [toksSs_cons, hx]; simp, hne⟩

theorem block_claim : ∀ (ss : List Stmt), AllS ss → BlAt ss
  | [], _ => by
    intro _ rest
    refine ⟨1, fun f hf => ?_⟩
    obtain ⟨g, rfl⟩ : ∃ g, f = g + 1 := ⟨f - 1, by omega⟩
    show block (g + 1) _ = _
    rw [block]; simp [toksSs_nil, peekTokS, eraseSs]
  | s :: ss, hall => by
    intro hw rest
    simp only [wfSs, Bool.and_eq_true] at hw
    obtain ⟨t, r, htr, hne⟩ := next_not_else ss hw.2 .RIGHT_BRACE (by simp) rest
    obtain ⟨f0, hd⟩ := hall.1.De hw.1 t r (fun _ => hne)
    obtain ⟨f1, hb⟩ := block_claim ss hall.2 hw.2 rest
    obtain ⟨x, xs, hx, hnb, hneof, _, _⟩ := toksS_head s hw.1
    refine ⟨max f0 f1 + 1, fun f hf => ?_⟩
    obtain ⟨g, rfl⟩ : ∃ g, f = g + 1 := ⟨f - 1, by omega⟩
    have hd' := hd g (by omega)
    have hb' := hb g (by omega)
    rw [← htr] at hd'
    simp only at hd' hb'
    show block (g + 1) _ = _
    rw [toksSs_cons, List.append_assoc, block]
    simp only [hx, List.cons_append] at hd' ⊢
    simp only [peekTokS, hnb, hneof, if_false, hd', sr_bind_nil, hb', eraseSs]

theorem program_claim : ∀ (p : List Stmt), AllS p → wfSs p = true →
    Ev (fun f => program f (toksSs p ++ [tk (kw .EOF)])) (.ok (eraseSs p) [tk (kw .EOF)] [])
  | [], _, _ => by
    refine ⟨1, fun f hf => ?_⟩
    obtain ⟨g, rfl⟩ : ∃ g, f = g + 1 := ⟨f - 1, by omega⟩
    show program (g + 1) _ = _
    rw [program]; simp [toksSs_nil, peekTokS, eraseSs]
  | s :: ss, hall, hw => by
    simp only [wfSs, Bool.and_eq_true] at hw
    obtain ⟨t, r, htr, hne⟩ := next_not_else ss hw.2 .EOF (by simp) []
    obtain ⟨f0, hd⟩ := hall.1.De hw.1 t r (fun _ => hne)
    obtain ⟨f1, hb⟩ := program_claim ss hall.2 hw.2
    obtain ⟨x, xs, hx, _, hneof, _, _⟩ := toksS_head s hw.1
    refine ⟨max f0 f1 + 1, fun f hf => ?_⟩
    obtain ⟨g, rfl⟩ : ∃ g, f = g + 1 := ⟨f - 1, by omega⟩
    have hd' := hd g (by omega)
    have hb' := hb g (by omega)
    rw [← htr] at hd'
    simp only at hd' hb'
    show program (g + 1) _ = _
    rw [toksSs_cons, List.append_assoc, program]
    simp only [hx, List.cons_append] at hd' ⊢
    simp only [peekTokS, hneof, if_false, hd', sr_bind_nil, hb', eraseSs]

mutual
theorem sclaims : ∀ s : Stmt, SClaims s
  | .expr e => st_expr e
  | .print e => st_print e
  | .var d => st_var d
  | .varList ds => st_varList ds
  | .block ss => st_block (block_claim ss (sclaimsL ss))
  | .ifS c t e => st_if c (sclaims t).St (fun x hx => by
      have := sclaimsO e
      rw [hx] at this
      exact this.St)
  | .whileS c b => st_while c (sclaims b).St
  | .forS init c inc b => st_for init c inc (sclaims b).St
  | .breakS l => st_break l
  | .continueS l => st_continue l
  | .returnS l v => st_return l v
  | .funS n ps body => st_fun n ps (block_claim body (sclaimsL body))
theorem sclaimsL : ∀ ss : List Stmt, AllS ss
  | [] => trivial
  | s :: ss => ⟨sclaims s, sclaimsL ss⟩
theorem sclaimsO : ∀ o : Option Stmt, OptS o
  | none => trivial
  | some s => sclaims s
end

/-- **completeness of `Parse`**: every well-formed program is what the parser returns — without any
    diagnostic — for its own rendering followed by EOF, line fields forgotten, for all
    sufficiently large fuel -/
theorem program_complete (p : List Stmt) (hw : wfSs p = true) :
    ∃ f0, ∀ f, f0 ≤ f → program f (toksSs p ++ [tk (kw .EOF)]) = .ok (eraseSs p) [tk (kw .EOF)] [] :=
  program_claim p (sclaimsL p) hw

/-- the statement grammar determines the tree: two well-formed programs with the same rendering
    are the same program up to line fields -/
theorem program_rendering_injective (p q : List Stmt) (hp : wfSs p = true) (hq : wfSs q = true) (h : rStmts p = rStmts q) :
    eraseSs p = eraseSs q := by
  obtain ⟨f1, c1⟩ := program_complete p hp
  obtain ⟨f2, c2⟩ := program_complete q hq
  have ht : toksSs p = toksSs q := by unfold toksSs; rw [h]
  have a := c1 (max f1 f2) (by omega)
  have b := c2 (max f1 f2) (by omega)
  rw [ht, b] at a
  injection a with a1 _ _
  exact a1.symm

end Borno.Parser
