import BornoModel.Eval
/-! # The evaluator is monotone in its step budget

`r ⊑ r'` : `r` ran out of fuel, or `r = r'`.  For every one of the ten mutually recursive functions,
`eval f … ⊑ eval (f+1) …`; hence an answer other than "out of fuel" is the answer at every larger budget. -/
namespace Borno
variable (P : Platform)

def Res.le {α : Type} (r r' : Res α) : Prop := r = .abn .fuel ∨ r = r'

namespace Res
theorem le_refl {α : Type} (r : Res α) : r.le r := Or.inr rfl
theorem fuel_le {α : Type} (r : Res α) : (Res.abn .fuel : Res α).le r := Or.inl rfl
theorem le_trans {α : Type} {a b c : Res α} (h1 : a.le b) (h2 : b.le c) : a.le c := by
  rcases h1 with h | h
  · exact Or.inl h
  · subst h; exact h2

theorem bind_le {α β : Type} {r r' : Res α} {k k' : α → Store → Res β} (h : r.le r')
    (hk : ∀ a σ, (k a σ).le (k' a σ)) : (r.bind k).le (r'.bind k') := by
  rcases h with h | h
  · subst h; exact Or.inl rfl
  · subst h
    cases r with
    | ok a σ => exact hk a σ
    | abn x => exact Or.inr rfl
end Res

theorem ite_le {α : Type} {c : Prop} [Decidable c] {a a' b b' : Res α} (ha : c → a.le a') (hb : ¬c → b.le b') :
    (if c then a else b).le (if c then a' else b') := by
  by_cases h : c
  · simp only [h, if_true]; exact ha h
  · simp only [h, if_false]; exact hb h

theorem seq_le {r r' : ER} {k k' : Val → Store → ER} (h : r.le r')
    (hk : ∀ a σ, (k a σ).le (k' a σ)) : (r.seq k).le (r'.seq k') := by
  unfold ER.seq
  apply Res.bind_le h
  intro p σ1
  exact ite_le (fun _ => Res.le_refl _) (fun _ => hk _ _)

theorem guardErr_le {σ : Store} {k k' : ER} (h : k.le k') : (guardErr σ k).le (guardErr σ k') := by
  unfold guardErr
  exact ite_le (fun _ => Res.le_refl _) (fun _ => h)


/-- all ten functions at budget `f` are below themselves at budget `f + 1` -/
structure Mono (f : Nat) : Prop where
  e : ∀ e env repl σ, (evalE P f e env repl σ).le (evalE P (f + 1) e env repl σ)
  l : ∀ es env repl σ, (evalList P f es env repl σ).le (evalList P (f + 1) es env repl σ)
  p : ∀ ps env repl σ, (evalProps P f ps env repl σ).le (evalProps P (f + 1) ps env repl σ)
  c : ∀ id args σ, (callFn P f id args σ).le (callFn P (f + 1) id args σ)
  b : ∀ ss env σ, (runBody P f ss env σ).le (runBody P (f + 1) ss env σ)
  k : ∀ ss env repl σ, (evalBlock P f ss env repl σ).le (evalBlock P (f + 1) ss env repl σ)
  d : ∀ ds env repl σ, (evalDecls P f ds env repl σ).le (evalDecls P (f + 1) ds env repl σ)
  w : ∀ c b env repl σ, (whileLoop P f c b env repl σ).le (whileLoop P (f + 1) c b env repl σ)
  fl : ∀ c inc b env repl σ, (forLoop P f c inc b env repl σ).le (forLoop P (f + 1) c inc b env repl σ)
  s : ∀ s env repl σ, (evalS P f s env repl σ).le (evalS P (f + 1) s env repl σ)

theorem mono_zero : Mono P 0 where
  e := fun e env repl σ => by rw [evalE]; exact Res.fuel_le _
  l := fun es env repl σ => by rw [evalList]; exact Res.fuel_le _
  p := fun ps env repl σ => by rw [evalProps]; exact Res.fuel_le _
  c := fun id args σ => by rw [callFn]; exact Res.fuel_le _
  b := fun ss env σ => by rw [runBody]; exact Res.fuel_le _
  k := fun ss env repl σ => by rw [evalBlock]; exact Res.fuel_le _
  d := fun ds env repl σ => by rw [evalDecls]; exact Res.fuel_le _
  w := fun c b env repl σ => by rw [whileLoop]; exact Res.fuel_le _
  fl := fun c inc b env repl σ => by rw [forLoop]; exact Res.fuel_le _
  s := fun s env repl σ => by rw [evalS]; exact Res.fuel_le _

theorem mono_succ_e (f : Nat) (ih : Mono P f) (e : Expr) (env : Nat) (repl : Bool) (σ : Store) :
    (evalE P (f + 1) e env repl σ).le (evalE P (f + 1 + 1) e env repl σ) := by
  cases e
  all_goals (rw [evalE, evalE]; apply guardErr_le)
  case literal v l => exact Res.le_refl _
  case ident n l => exact Res.le_refl _
  case grouping e' l => exact ih.e _ _ _ _
  case unary op l e' => exact seq_le (ih.e _ _ _ _) (fun _ _ => Res.le_refl _)
  case binary l op line r =>
    exact seq_le (ih.e _ _ _ _) (fun _ _ => guardErr_le (seq_le (ih.e _ _ _ _) (fun _ _ => Res.le_refl _)))
  case logical l op r =>
    exact seq_le (ih.e _ _ _ _) (fun _ _ => ite_le (fun _ => ite_le (fun _ => Res.le_refl _) (fun _ => ih.e _ _ _ _))
      (fun _ => ite_le (fun _ => Res.le_refl _) (fun _ => ih.e _ _ _ _)))
  case call c pl args =>
    refine seq_le (ih.e _ _ _ _) (fun cv σ1 => ?_)
    split
    · exact Res.le_refl _
    · refine ite_le (fun _ => Res.le_refl _) (fun _ => Res.bind_le (ih.l _ _ _ _) (fun p σ2 => ite_le (fun _ => Res.le_refl _) (fun _ => guardErr_le ?_)))
      cases cv <;> first | exact Res.le_refl _ | exact ih.c _ _ _
  case arrayLit es => exact Res.bind_le (ih.l _ _ _ _) (fun _ _ => Res.le_refl _)
  case objectLit ps tc => exact Res.bind_le (ih.p _ _ _ _) (fun _ _ => Res.le_refl _)
  case arrayAccess a i l => exact seq_le (ih.e _ _ _ _) (fun _ _ => seq_le (ih.e _ _ _ _) (fun _ _ => Res.le_refl _))
  case propAccess o p l => exact seq_le (ih.e _ _ _ _) (fun _ _ => Res.le_refl _)
  case assign n nl v l => exact seq_le (ih.e _ _ _ _) (fun _ _ => Res.le_refl _)
  case arrayAssign a i v l =>
    exact seq_le (ih.e _ _ _ _) (fun _ _ => seq_le (ih.e _ _ _ _) (fun _ _ => seq_le (ih.e _ _ _ _) (fun _ _ => Res.le_refl _)))
  case propAssign o p v l =>
    refine seq_le (ih.e _ _ _ _) (fun ov σ1 => ?_)
    cases ov <;> first | exact Res.le_refl _ | exact seq_le (ih.e _ _ _ _) (fun _ _ => Res.le_refl _)


theorem mono_succ_l (f : Nat) (ih : Mono P f) (es : List Expr) (env : Nat) (repl : Bool) (σ : Store) :
    (evalList P (f + 1) es env repl σ).le (evalList P (f + 1 + 1) es env repl σ) := by
  cases es with
  | nil => rw [evalList, evalList]; exact Res.le_refl _
  | cons e es =>
    rw [evalList, evalList]
    exact Res.bind_le (ih.e _ _ _ _) (fun _ _ => ite_le (fun _ => Res.le_refl _) (fun _ => Res.bind_le (ih.l _ _ _ _) (fun _ _ => Res.le_refl _)))

theorem mono_succ_p (f : Nat) (ih : Mono P f) (ps : List (Name × Expr)) (env : Nat) (repl : Bool) (σ : Store) :
    (evalProps P (f + 1) ps env repl σ).le (evalProps P (f + 1 + 1) ps env repl σ) := by
  cases ps with
  | nil => rw [evalProps, evalProps]; exact Res.le_refl _
  | cons e es =>
    rw [evalProps, evalProps]
    exact Res.bind_le (ih.e _ _ _ _) (fun _ _ => ite_le (fun _ => Res.le_refl _) (fun _ => Res.bind_le (ih.p _ _ _ _) (fun _ _ => Res.le_refl _)))

theorem mono_succ_c (f : Nat) (ih : Mono P f) (id : Nat) (args : List Val) (σ : Store) :
    (callFn P (f + 1) id args σ).le (callFn P (f + 1 + 1) id args σ) := by
  rw [callFn, callFn]
  split
  · exact Res.le_refl _
  · exact ite_le (fun _ => Res.le_refl _) (fun _ => Res.bind_le (ih.b _ _ _) (fun _ _ => Res.le_refl _))

theorem mono_succ_b (f : Nat) (ih : Mono P f) (ss : List Stmt) (env : Nat) (σ : Store) :
    (runBody P (f + 1) ss env σ).le (runBody P (f + 1 + 1) ss env σ) := by
  cases ss with
  | nil => rw [runBody, runBody]; exact Res.le_refl _
  | cons s ss =>
    rw [runBody, runBody]
    refine Res.bind_le (ih.s _ _ _ _) (fun p σ1 => ?_)
    split
    · exact Res.le_refl _
    · exact ih.b _ _ _
    · exact Res.le_refl _

theorem mono_succ_k (f : Nat) (ih : Mono P f) (ss : List Stmt) (env : Nat) (repl : Bool) (σ : Store) :
    (evalBlock P (f + 1) ss env repl σ).le (evalBlock P (f + 1 + 1) ss env repl σ) := by
  cases ss with
  | nil => rw [evalBlock, evalBlock]; exact Res.le_refl _
  | cons s ss =>
    rw [evalBlock, evalBlock]
    exact seq_le (ih.s _ _ _ _) (fun _ _ => guardErr_le (ih.k _ _ _ _))

theorem mono_succ_d (f : Nat) (ih : Mono P f) (ds : List VarDecl) (env : Nat) (repl : Bool) (σ : Store) :
    (evalDecls P (f + 1) ds env repl σ).le (evalDecls P (f + 1 + 1) ds env repl σ) := by
  cases ds with
  | nil => rw [evalDecls, evalDecls]; exact Res.le_refl _
  | cons s ss =>
    rw [evalDecls, evalDecls]
    exact seq_le (ih.s _ _ _ _) (fun _ _ => guardErr_le (ih.d _ _ _ _))

theorem mono_succ_w (f : Nat) (ih : Mono P f) (c : Expr) (b : Stmt) (env : Nat) (repl : Bool) (σ : Store) :
    (whileLoop P (f + 1) c b env repl σ).le (whileLoop P (f + 1 + 1) c b env repl σ) := by
  rw [whileLoop, whileLoop]
  refine seq_le (ih.e _ _ _ _) (fun cv σ1 => ite_le (fun _ => Res.le_refl _) (fun _ => Res.bind_le (ih.s _ _ _ _) (fun p σ2 => ?_)))
  split
  · exact Res.le_refl _
  · exact Res.le_refl _
  · exact ih.w _ _ _ _ _

theorem mono_succ_fl (f : Nat) (ih : Mono P f) (c : Expr) (inc : Option Expr) (b : Stmt) (env : Nat) (repl : Bool) (σ : Store) :
    (forLoop P (f + 1) c inc b env repl σ).le (forLoop P (f + 1 + 1) c inc b env repl σ) := by
  rw [forLoop, forLoop]
  refine seq_le (ih.e _ _ _ _) (fun cv σ1 => ite_le (fun _ => Res.le_refl _) (fun _ => Res.bind_le (ih.s _ _ _ _) (fun p σ2 => ?_)))
  split
  · exact Res.le_refl _
  · exact Res.le_refl _
  · cases inc with
    | none => exact ih.fl _ _ _ _ _ _
    | some ie => exact seq_le (ih.e _ _ _ _) (fun _ _ => ih.fl _ _ _ _ _ _)


theorem evalS_forS (f : Nat) (i : Option Stmt) (c inc : Option Expr) (b : Stmt) (env : Nat) (repl : Bool) (σ : Store) :
    evalS P (f+1) (.forS i c inc b) env repl σ = guardErr σ (match i with
       | none => forLoop P f (forCond c) inc b σ.envs.length repl (σ.newEnv (some env)).1
       | some i =>
         (evalS P f i σ.envs.length repl (σ.newEnv (some env)).1).seq fun _ σ2 =>
           forLoop P f (forCond c) inc b σ.envs.length repl σ2) := by
  rw [evalS.eq_def]; rfl

theorem evalS_returnS (f : Nat) (line : Nat) (v : Option Expr) (env : Nat) (repl : Bool) (σ : Store) :
    evalS P (f+1) (.returnS line v) env repl σ = guardErr σ (match v with
       | none => .ok (.nil, .ret line .nil) σ
       | some e => (evalE P f e env repl σ).seq fun x σ1 => .ok (.nil, .ret line x) σ1) := by
  rw [evalS.eq_def]; rfl

theorem mono_succ_s (f : Nat) (ih : Mono P f) (s : Stmt) (env : Nat) (repl : Bool) (σ : Store) :
    (evalS P (f + 1) s env repl σ).le (evalS P (f + 1 + 1) s env repl σ) := by
  cases s
  all_goals (first | rw [evalS, evalS] | rw [evalS_forS, evalS_forS] | rw [evalS_returnS, evalS_returnS])
  all_goals apply guardErr_le
  case expr e => exact seq_le (ih.e _ _ _ _) (fun _ _ => Res.le_refl _)
  case print e => exact Res.bind_le (ih.e _ _ _ _) (fun _ _ => Res.le_refl _)
  case var d =>
    refine seq_le ?_ (fun _ _ => Res.le_refl _)
    cases d.init with
    | none => exact Res.le_refl _
    | some e => exact seq_le (ih.e _ _ _ _) (fun _ _ => Res.le_refl _)
  case varList ds => exact ih.d _ _ _ _
  case block ss => exact ih.k _ _ _ _
  case ifS c t e =>
    refine seq_le (ih.e _ _ _ _) (fun cv σ1 => ite_le (fun _ => Res.bind_le (ih.s _ _ _ _) (fun _ _ => Res.le_refl _)) (fun _ => ?_))
    cases e with
    | none => exact Res.le_refl _
    | some el => exact Res.bind_le (ih.s _ _ _ _) (fun _ _ => Res.le_refl _)
  case whileS c b => exact ih.w _ _ _ _ _
  case forS init c inc b =>
    cases init with
    | none => exact ih.fl _ _ _ _ _ _
    | some i => exact seq_le (ih.s _ _ _ _) (fun _ _ => ih.fl _ _ _ _ _ _)
  case breakS l => exact Res.le_refl _
  case continueS l => exact Res.le_refl _
  case returnS l v =>
    cases v with
    | none => exact Res.le_refl _
    | some e => exact seq_le (ih.e _ _ _ _) (fun _ _ => Res.le_refl _)
  case funS name ps body => exact Res.le_refl _

/-- **every function of the evaluator is monotone in the step budget** -/
theorem mono : ∀ f, Mono P f
  | 0 => mono_zero P
  | f + 1 =>
    have ih := mono f
    { e := mono_succ_e P f ih, l := mono_succ_l P f ih, p := mono_succ_p P f ih, c := mono_succ_c P f ih,
      b := mono_succ_b P f ih, k := mono_succ_k P f ih, d := mono_succ_d P f ih, w := mono_succ_w P f ih,
      fl := mono_succ_fl P f ih, s := mono_succ_s P f ih }

/-- an answer other than "out of fuel" is the answer at every larger budget -/
theorem le_of_le {α : Type} (g : Nat → Res α) (h : ∀ f, (g f).le (g (f + 1))) : ∀ f k, (g f).le (g (f + k))
  | _, 0 => Res.le_refl _
  | f, k + 1 => Res.le_trans (le_of_le g h f k) (h (f + k))

theorem stable_of_le {α : Type} (g : Nat → Res α) (h : ∀ f, (g f).le (g (f + 1))) (f f' : Nat) (hf : f ≤ f')
    (hne : g f ≠ .abn .fuel) : g f' = g f := by
  obtain ⟨k, rfl⟩ := Nat.exists_eq_add_of_le hf
  rcases le_of_le g h f k with h1 | h1
  · exact absurd h1 hne
  · exact h1.symm

theorem evalE_stable (f f' : Nat) (hf : f ≤ f') (e : Expr) (env : Nat) (repl : Bool) (σ : Store)
    (h : evalE P f e env repl σ ≠ .abn .fuel) : evalE P f' e env repl σ = evalE P f e env repl σ :=
  stable_of_le (fun f => evalE P f e env repl σ) (fun f => (mono P f).e e env repl σ) f f' hf h

theorem evalS_stable (f f' : Nat) (hf : f ≤ f') (s : Stmt) (env : Nat) (repl : Bool) (σ : Store)
    (h : evalS P f s env repl σ ≠ .abn .fuel) : evalS P f' s env repl σ = evalS P f s env repl σ :=
  stable_of_le (fun f => evalS P f s env repl σ) (fun f => (mono P f).s s env repl σ) f f' hf h


theorem interpretLoop_le (f : Nat) (ss : List Stmt) (env : Nat) (repl : Bool) (σ : Store) :
    (interpretLoop P f ss env repl σ).le (interpretLoop P (f + 1) ss env repl σ) := by
  induction f generalizing ss σ with
  | zero => rw [interpretLoop]; exact Res.fuel_le _
  | succ f ih =>
    cases ss with
    | nil => rw [interpretLoop, interpretLoop]; exact Res.le_refl _
    | cons s ss =>
      rw [interpretLoop, interpretLoop]
      refine Res.bind_le ((mono P f).s _ _ _ _) (fun p σ1 => ?_)
      split
      · exact Res.le_refl _
      · exact Res.le_refl _
      · exact Res.le_refl _
      · exact ite_le (fun _ => Res.le_refl _) (fun _ => ih _ _)

/-- **the model's answer to a program does not depend on the step budget**: if interpreting a program with
    budget `f` ends in anything but "out of fuel", every larger budget gives exactly the same final store -/
theorem interpret_stable (f f' : Nat) (hf : f ≤ f') (prog : List Stmt) (repl : Bool) (input : List Char)
    (h : interpret P f prog repl input ≠ .abn .fuel) : interpret P f' prog repl input = interpret P f prog repl input :=
  stable_of_le (fun f => interpret P f prog repl input) (fun f => interpretLoop_le P f prog 1 repl (initStore input)) f f' hf h

end Borno
