import BornoModel.Props.C09
import BornoModel.Props.C10
/-!
# LexInsert — a scanning step looks at most two characters past what it consumes

`Compat lm c used Y`: the unread text `Y` would have let the step that consumed `used` (starting
with `c`) end in the same place.  `scanToken_swap`: under `Compat`, replacing the unread rest by
`Y` leaves the step unchanged (same token, diagnostic, consumed text, line).  With it: inserting a
blank or a line break immediately after a token changes no token (`Props/C18`).
-/
namespace Borno.Lexer
open Borno Lexer ListAux Props.C09

/-- the first character of `Y` (if any) satisfies `p` -/
def headSat (p : Char → Bool) : List Char → Bool
  | [] => true
  | y :: _ => p y

theorem takeWhile_stop {p : Char → Bool} : ∀ (a Y : List Char), (∀ x ∈ a, p x = true) → headSat (fun y => !p y) Y = true →
    (a ++ Y).takeWhile p = a ∧ (a ++ Y).dropWhile p = Y
  | [], [], _, _ => ⟨rfl, rfl⟩
  | [], y :: ys, _, h => by
    have : p y = false := by simpa [headSat] using h
    simp [List.takeWhile, List.dropWhile, this]
  | x :: a, Y, ha, h => by
    have hx : p x = true := ha x (by simp)
    have ih := takeWhile_stop a Y (fun z hz => ha z (List.mem_cons_of_mem _ hz)) h
    simp [List.takeWhile, List.dropWhile, hx, ih.1, ih.2]

/-- `Y` does not start a fraction: not `.` followed by a digit -/
def noFrac : List Char → Bool
  | '.' :: d :: _ => !isDigit d
  | _ => true

theorem numFrac_none (Y : List Char) (h : noFrac Y = true) : numFrac Y = ([], Y) := by
  unfold numFrac
  split
  · rename_i p d r'
    by_cases hp : p = '.'
    · subst hp
      have : isDigit d = false := by simpa [noFrac] using h
      simp [this]
    · simp [hp]
  · rfl

/-- when a step that began with `c` and consumed `used` would end in the same place on unread text `Y` -/
def Compat (lm : Char → Bool) (c : Char) (used Y : List Char) : Prop :=
  match Expect.singleOps.lookup c with
  | some _ => True
  | none =>
  match Expect.twoOps.lookup c with
  | some (alts, _) => used.length = 2 ∨ headSat (fun y => (alts.lookup y).isNone) Y = true
  | none =>
  if c = '/' then
    (match used with
     | ['/'] => headSat (fun y => y != '/' && y != '*') Y = true
     | '/' :: '/' :: _ => headSat (fun y => y == '\n') Y = true
     | _ => True)
  else if Expect.blanks.contains c then True
  else if c = '\n' then True
  else if c = '"' then True
  else if isDigit c then
    headSat (fun y => !isDigit y) Y = true ∧ (('.' ∈ used) ∨ noFrac Y = true)
  else if isAlpha lm c then headSat (fun y => !isAlphaNum lm y) Y = true
  else True

theorem blockComment_head (c : Char) (r u : List Char) (k : Option (List Char)) (h : blockComment (c :: r) = (u, k)) :
    ∃ u', u = c :: u' := by
  unfold blockComment at h
  by_cases hc : c = '*'
  · simp only [hc, if_true] at h
    cases r with
    | nil => simp at h; exact ⟨[], by rw [← h.1, hc]⟩
    | cons d r' =>
      simp only at h
      by_cases hd : d = '/'
      · simp only [hd, if_true, Prod.mk.injEq] at h; exact ⟨['/'], by rw [← h.1, hc]⟩
      · simp only [hd, if_false] at h
        cases hb : blockComment (d :: r') with
        | mk u1 k1 => rw [hb] at h; simp only [Prod.mk.injEq] at h; exact ⟨u1, by rw [← h.1, hc]⟩
  · simp only [hc, if_false] at h
    cases hb : blockComment r with
    | mk u1 k1 => rw [hb] at h; simp only [Prod.mk.injEq] at h; exact ⟨u1, h.1.symm⟩

/-- a terminated block comment is recognised from its own text alone: whatever follows it -/
theorem blockComment_swap : ∀ (r u rest Y : List Char), blockComment r = (u, some rest) →
    blockComment (u ++ Y) = (u, some Y) ∧ u ++ rest = r := by
  intro r
  induction r with
  | nil => intro u rest Y h; simp [blockComment] at h
  | cons c r1 ih =>
    intro u rest Y h
    unfold blockComment at h
    by_cases hc : c = '*'
    · simp only [hc, if_true] at h
      cases r1 with
      | nil => simp at h
      | cons d r2 =>
        simp only at h
        by_cases hd : d = '/'
        · simp only [hd, if_true, Prod.mk.injEq, Option.some.injEq] at h
          obtain ⟨rfl, rfl⟩ := h
          subst hc; subst hd
          exact ⟨by simp [blockComment], rfl⟩
        · simp only [hd, if_false] at h
          cases hb : blockComment (d :: r2) with
          | mk u1 k1 =>
            rw [hb] at h
            simp only [Prod.mk.injEq] at h
            obtain ⟨rfl, rfl⟩ := h
            obtain ⟨h1, h2⟩ := ih u1 rest Y hb
            obtain ⟨u1', rfl⟩ := blockComment_head d r2 u1 _ hb
            subst hc
            refine ⟨?_, by simp [h2]⟩
            simp only [List.cons_append] at h1 ⊢
            unfold blockComment
            simp only [if_true, hd, if_false, h1]
    · simp only [hc, if_false] at h
      cases hb : blockComment r1 with
      | mk u1 k1 =>
        rw [hb] at h
        simp only [Prod.mk.injEq] at h
        obtain ⟨rfl, rfl⟩ := h
        obtain ⟨h1, h2⟩ := ih u1 rest Y hb
        refine ⟨?_, by simp [h2]⟩
        simp only [List.cons_append]
        unfold blockComment
        simp only [hc, if_false, h1]

theorem dot_not_digit : isDigit '.' = false := by decide

theorem numFrac_swap (l Y : List Char) (hY : headSat (fun y => !isDigit y) Y = true) (hne : (numFrac l).1 ≠ []) :
    numFrac ((numFrac l).1 ++ Y) = ((numFrac l).1, Y) ∧ (numFrac l).1.head? = some '.' := by
  unfold numFrac at hne ⊢
  split at hne
  · rename_i p d r'
    by_cases hpd : (p = '.' && isDigit d) = true
    · simp only [hpd, if_true] at hne ⊢
      simp only [Bool.and_eq_true, decide_eq_true_eq] at hpd
      have hs := takeWhile_stop (r'.takeWhile isDigit) Y (fun x hx => takeWhile_forall isDigit r' x hx) hY
      simp only [List.cons_append, hpd.1, hpd.2, decide_true, Bool.and_self, if_true, hs.1, hs.2, List.head?_cons]
      exact ⟨trivial, trivial⟩
    · simp only [hpd] at hne; simp at hne
  · simp at hne

/-- **a scanning step depends on the unread text only through `Compat`**: replace what follows the
    consumed text by any `Y` that is compatible, and the step is the same — same token, same
    diagnostic, same consumed text, same line -/
theorem scanToken_swap (lm : Char → Bool) (c : Char) (r : List Char) (line : Nat) (st : Step)
    (h : scanToken lm (c :: r) line = some st) (hlive : st.rest ≠ [] ∨ st.tok.isSome = true)
    (Y : List Char) (hY : Compat lm c st.used Y) :
    scanToken lm (st.used ++ Y) line = some { st with rest := Y } := by
  unfold scanToken at h
  unfold Compat at hY
  cases h1 : Expect.singleOps.lookup c with
  | some tt =>
    simp only [h1, Option.some.injEq] at h
    subst h
    simp [plainTok, scanToken, h1]
  | none =>
    simp only [h1] at h hY
    cases h2 : Expect.twoOps.lookup c with
    | some ad =>
      obtain ⟨alts, dflt⟩ := ad
      simp only [h2, Option.some.injEq] at h hY
      subst h
      unfold scanTwo at hY ⊢
      cases r with
      | nil =>
        simp only [plainTok, List.length_singleton] at hY ⊢
        have hy : headSat (fun y => (alts.lookup y).isNone) Y = true := by rcases hY with h | h; omega; exact h
        cases Y with
        | nil => simp [scanToken, h1, h2, scanTwo, plainTok]
        | cons y ys =>
          have : alts.lookup y = none := by simpa [headSat] using hy
          simp [scanToken, h1, h2, scanTwo, plainTok, this]
      | cons d r' =>
        simp only at hY ⊢
        cases h3 : alts.lookup d with
        | some tt => simp [h3, plainTok, scanToken, h1, h2, scanTwo]
        | none =>
          simp only [h3, plainTok, List.length_singleton] at hY ⊢
          have hy : headSat (fun y => (alts.lookup y).isNone) Y = true := by rcases hY with h | h; omega; exact h
          cases Y with
          | nil => simp [scanToken, h1, h2, scanTwo, plainTok]
          | cons y ys =>
            have : alts.lookup y = none := by simpa [headSat] using hy
            simp [scanToken, h1, h2, scanTwo, plainTok, this]
    | none =>
      simp only [h2] at h hY
      by_cases hs : c = '/'
      · subst hs
        simp only [if_true, Option.some.injEq] at h hY
        subst h
        unfold scanSlash at hY hlive ⊢
        cases r with
        | nil =>
          simp only [plainTok] at hY ⊢
          cases Y with
          | nil => simp [scanToken, h1, h2, scanSlash, plainTok]
          | cons y ys =>
            have : y ≠ '/' ∧ y ≠ '*' := by simpa [headSat] using hY
            simp [scanToken, h1, h2, scanSlash, plainTok, this.1, this.2]
        | cons d r' =>
          simp only at hY hlive ⊢
          by_cases hd : d = '/'
          · subst hd
            simp only [if_true] at hY hlive ⊢
            have hYn : headSat (fun y => !notNl y) Y = true := by
              cases Y with
              | nil => rfl
              | cons y ys => simp only [headSat] at hY ⊢; simp [notNl, hY]
            have hs := takeWhile_stop (r'.takeWhile notNl) Y (fun x hx => takeWhile_forall notNl r' x hx) hYn
            simp [scanToken, h1, h2, scanSlash, hs.1, hs.2]
          · simp only [hd, if_false] at hY hlive ⊢
            by_cases hst : d = '*'
            · subst hst
              simp only [if_true] at hY hlive ⊢
              cases hb : blockComment r' with
              | mk u k =>
                cases k with
                | none => simp [hb] at hlive
                | some rest =>
                  simp only [hb] at hY ⊢
                  obtain ⟨hsw, _⟩ := blockComment_swap r' u rest Y hb
                  simp [scanToken, h1, h2, scanSlash, hsw]
            · simp only [hst, if_false, plainTok] at hY ⊢
              cases Y with
              | nil => simp [scanToken, h1, h2, scanSlash, plainTok]
              | cons y ys =>
                have : y ≠ '/' ∧ y ≠ '*' := by simpa [headSat] using hY
                simp [scanToken, h1, h2, scanSlash, plainTok, this.1, this.2]
      · simp only [hs, if_false] at h hY
        cases hb : Expect.blanks.contains c with
        | true =>
          simp only [hb, if_true, Option.some.injEq] at h
          subst h
          show scanToken lm (c :: Y) line = _
          rw [scanToken]
          simp only [h1, h2, hs, hb, if_false, if_true]
        | false =>
          simp only [hb, Bool.false_eq_true, if_false] at h hY
          by_cases hn : c = '\n'
          · simp only [hn, if_true, Option.some.injEq] at h
            subst h; subst hn
            show scanToken lm ('\n' :: Y) line = _
            rw [scanToken]
            simp only [h1, h2, hs, hb, Bool.false_eq_true, if_false, if_true]
          · simp only [hn, if_false] at h hY
            by_cases hq : c = '"'
            · subst hq
              simp only [if_true] at h
              unfold scanString at h
              simp only at h
              cases hrest : r.dropWhile notQuote with
              | nil => simp only [hrest, Option.some.injEq] at h; subst h; simp at hlive
              | cons q rest' =>
                simp only [hrest] at h
                have hq' : notQuote q = false := dropWhile_head notQuote r q rest' hrest
                have hqq : q = '"' := by simpa [notQuote] using hq'
                subst hqq
                have hlen : ¬ ('"' :: (r.takeWhile notQuote ++ ['"'])).length < 2 := by simp
                simp only [List.cons_append, hlen, if_false, Option.some.injEq] at h
                subst h
                have hs2 := takeWhile_stop (r.takeWhile notQuote) ('"' :: Y) (fun x hx => takeWhile_forall notQuote r x hx)
                  (by simp [headSat, notQuote])
                show scanToken lm (('"' :: (r.takeWhile notQuote ++ ['"'])) ++ Y) line = _
                simp only [List.cons_append, List.append_assoc, List.singleton_append, List.nil_append]
                rw [scanToken]
                simp only [h1, h2, hs, hb, hn, Bool.false_eq_true, if_false, if_true]
                unfold scanString
                simp only [hs2.1, hs2.2, List.cons_append, hlen, if_false]
            · simp only [hq, if_false] at h hY
              cases hdg : isDigit c with
              | true =>
                simp only [hdg, if_true, Option.some.injEq] at h hY
                subst h
                obtain ⟨hYd, hYf⟩ := hY
                -- the text a number consumes: digits, then the fraction `numFrac` found
                have hshape := Props.C10.number_lexeme_shape c r line
                have hds : ∀ x ∈ r.takeWhile isDigit, isDigit x = true := fun x hx => takeWhile_forall isDigit r x hx
                -- what follows the digits in the new text still stops the digit run
                have hstop : headSat (fun y => !isDigit y) ((numFrac (r.dropWhile isDigit)).1 ++ Y) = true := by
                  cases hfr : (numFrac (r.dropWhile isDigit)).1 with
                  | nil => simpa using hYd
                  | cons p ps =>
                    have := (numFrac_swap (r.dropWhile isDigit) Y hYd (by rw [hfr]; simp)).2
                    rw [hfr] at this
                    simp only [List.head?_cons, Option.some.injEq] at this
                    subst this
                    simp [headSat, dot_not_digit]
                have htw := takeWhile_stop (r.takeWhile isDigit) ((numFrac (r.dropWhile isDigit)).1 ++ Y) hds hstop
                -- and the fraction is found again, with `Y` left over
                have hfrac : numFrac ((numFrac (r.dropWhile isDigit)).1 ++ Y) = ((numFrac (r.dropWhile isDigit)).1, Y) := by
                  cases hfr : (numFrac (r.dropWhile isDigit)).1 with
                  | nil =>
                    simp only [List.nil_append]
                    refine numFrac_none Y ?_
                    rcases hYf with hdot | hnf
                    · exfalso
                      rw [hshape.1, hfr, List.append_nil] at hdot
                      rcases List.mem_cons.mp hdot with e | e
                      · rw [← e] at hdg; rw [dot_not_digit] at hdg; cases hdg
                      · have := hds _ e; rw [dot_not_digit] at this; cases this
                    · exact hnf
                  | cons p ps =>
                    have := (numFrac_swap (r.dropWhile isDigit) Y hYd (by rw [hfr]; simp)).1
                    rw [hfr] at this; exact this
                have hnum : scanNumber c (r.takeWhile isDigit ++ ((numFrac (r.dropWhile isDigit)).1 ++ Y)) line =
                    { scanNumber c r line with rest := Y } := by
                  unfold scanNumber
                  simp only [htw.1, htw.2, hfrac]
                  split <;> rfl
                rw [hshape.1]
                simp only [List.cons_append, List.append_assoc]
                rw [scanToken]
                simp only [h1, h2, hs, hb, hn, hq, hdg, Bool.false_eq_true, if_false, if_true, hnum]
                simp [hshape.1]
              | false =>
                simp only [hdg, Bool.false_eq_true, if_false] at h hY
                cases ha : isAlpha lm c with
                | true =>
                  simp only [ha, if_true, Option.some.injEq] at h hY
                  subst h
                  unfold scanWord
                  simp only [plainTok]
                  have hs2 := takeWhile_stop (r.takeWhile (isAlphaNum lm)) Y (fun x hx => takeWhile_forall (isAlphaNum lm) r x hx) hY
                  simp only [List.cons_append]
                  rw [scanToken]
                  simp only [h1, h2, hs, hb, hn, hq, hdg, ha, Bool.false_eq_true, if_false, if_true]
                  unfold scanWord
                  simp only [plainTok, hs2.1, hs2.2]
                | false =>
                  simp only [ha, Bool.false_eq_true, if_false, Option.some.injEq] at h
                  subst h
                  show scanToken lm (c :: Y) line = _
                  rw [scanToken]
                  simp only [h1, h2, hs, hb, hn, hq, hdg, ha, Bool.false_eq_true, if_false]

theorem headSat_dropWhile (p : Char → Bool) (l : List Char) : headSat (fun y => !p y) (l.dropWhile p) = true := by
  cases h : l.dropWhile p with
  | nil => rfl
  | cons q rest => simp [headSat, dropWhile_head p l q rest h]

theorem noFrac_of_numFrac_nil (l : List Char) (h : (numFrac l).1 = []) : noFrac l = true ∧ (numFrac l).2 = l := by
  cases hnf : noFrac l with
  | true => exact ⟨rfl, by rw [numFrac_none l hnf]⟩
  | false =>
    exfalso
    unfold noFrac at hnf
    split at hnf
    · rename_i d r'
      have hd : isDigit d = true := by simpa using hnf
      simp [numFrac, hd] at h
    · cases hnf

/-- the unread text a step leaves is itself compatible with the step -/
theorem compat_self (lm : Char → Bool) (c : Char) (r : List Char) (line : Nat) (st : Step)
    (h : scanToken lm (c :: r) line = some st) (hlive : st.rest ≠ [] ∨ st.tok.isSome = true) :
    Compat lm c st.used st.rest := by
  unfold scanToken at h
  unfold Compat
  cases h1 : Expect.singleOps.lookup c with
  | some tt => trivial
  | none =>
    simp only [h1] at h ⊢
    cases h2 : Expect.twoOps.lookup c with
    | some ad =>
      obtain ⟨alts, dflt⟩ := ad
      simp only [h2, Option.some.injEq] at h ⊢
      subst h
      unfold scanTwo
      cases r with
      | nil => right; rfl
      | cons d r' =>
        simp only
        cases h3 : alts.lookup d with
        | some tt => left; simp [plainTok]
        | none => right; simp [plainTok, headSat, h3]
    | none =>
      simp only [h2] at h ⊢
      by_cases hs : c = '/'
      · subst hs
        simp only [if_true, Option.some.injEq] at h ⊢
        subst h
        unfold scanSlash at hlive ⊢
        cases r with
        | nil => simp [plainTok, headSat]
        | cons d r' =>
          simp only at hlive ⊢
          by_cases hd : d = '/'
          · subst hd
            simp only [if_true]
            have := headSat_dropWhile notNl r'
            cases hdw : r'.dropWhile notNl with
            | nil => rfl
            | cons q qs =>
              rw [hdw] at this
              simp only [headSat] at this ⊢
              simpa [notNl] using this
          · simp only [hd, if_false] at hlive ⊢
            by_cases hst : d = '*'
            · subst hst
              simp only [if_true] at hlive ⊢
              cases hb : blockComment r' with
              | mk u k =>
                cases k with
                | none => simp [hb] at hlive
                | some rest => simp
            · simp only [hst, if_false, plainTok, headSat]
              simp [hd, hst]
      · simp only [hs, if_false] at h ⊢
        cases hb : Expect.blanks.contains c with
        | true => simp
        | false =>
          simp only [hb, Bool.false_eq_true, if_false] at h ⊢
          by_cases hn : c = '\n'
          · simp [hn]
          · simp only [hn, if_false] at h ⊢
            by_cases hq : c = '"'
            · simp [hq]
            · simp only [hq, if_false] at h ⊢
              cases hdg : isDigit c with
              | true =>
                simp only [hdg, if_true, Option.some.injEq] at h ⊢
                subst h
                have hshape := Props.C10.number_lexeme_shape c r line
                rw [hshape.1, hshape.2]
                cases hfr : (numFrac (r.dropWhile isDigit)).1 with
                | nil =>
                  obtain ⟨hnf, h2'⟩ := noFrac_of_numFrac_nil _ hfr
                  rw [h2']
                  exact ⟨headSat_dropWhile isDigit r, Or.inr hnf⟩
                | cons p ps =>
                  have hne : (numFrac (r.dropWhile isDigit)).1 ≠ [] := by rw [hfr]; simp
                  have hdot := (numFrac_swap (r.dropWhile isDigit) [] rfl hne).2
                  rw [hfr] at hdot
                  simp only [List.head?_cons, Option.some.injEq] at hdot
                  subst hdot
                  refine ⟨?_, Or.inl (by simp)⟩
                  -- the rest after a fraction: what `dropWhile isDigit` left
                  unfold numFrac at hfr ⊢
                  split at hfr
                  · rename_i p' d' r'' heq
                    by_cases hpd : (p' = '.' && isDigit d') = true
                    · simp only [heq, hpd, if_true]
                      exact headSat_dropWhile isDigit r''
                    · simp [hpd] at hfr
                  · simp at hfr
              | false =>
                simp only [hdg, Bool.false_eq_true, if_false] at h ⊢
                cases ha : isAlpha lm c with
                | true =>
                  simp only [ha, if_true, Option.some.injEq] at h ⊢
                  subst h
                  unfold scanWord
                  simp only [plainTok]
                  exact headSat_dropWhile (isAlphaNum lm) r
                | false => simp

theorem headSat_cons (p : Char → Bool) (a : Char) (R Y : List Char) : headSat p (a :: R) = headSat p (a :: Y) := rfl

theorem noFrac_transfer (a : Char) (R Y : List Char) (h : noFrac (a :: R) = true)
    (hw : R.head? = Y.head? ∨ headSat (fun y => !isDigit y) Y = true) : noFrac (a :: Y) = true := by
  by_cases ha : a = '.'
  · subst ha
    cases Y with
    | nil => rfl
    | cons y ys =>
      simp only [noFrac]
      rcases hw with hw | hw
      · cases R with
        | nil => simp at hw
        | cons x xs =>
          simp only [List.head?_cons, Option.some.injEq] at hw
          subst hw
          simpa [noFrac] using h
      · simpa [headSat] using hw
  · unfold noFrac
    split
    · rename_i heq; simp only [List.cons.injEq] at heq; exact absurd heq.1 ha
    · rfl

/-- compatibility looks at the first character of the unread text — and, for a number without
    fraction, at whether a digit follows a point -/
theorem compat_head (lm : Char → Bool) (c a : Char) (used R Y : List Char) (h : Compat lm c used (a :: R))
    (hw : R.head? = Y.head? ∨ headSat (fun y => !isDigit y) Y = true) : Compat lm c used (a :: Y) := by
  unfold Compat at h ⊢
  cases h1 : Expect.singleOps.lookup c with
  | some tt => trivial
  | none =>
    simp only [h1] at h ⊢
    cases h2 : Expect.twoOps.lookup c with
    | some ad => obtain ⟨alts, dflt⟩ := ad; simp only [h2] at h ⊢; exact h
    | none =>
      simp only [h2] at h ⊢
      by_cases hs : c = '/'
      · simp only [hs, if_true] at h ⊢
        split <;> first | exact h | trivial
      · simp only [hs, if_false] at h ⊢
        cases hb : Expect.blanks.contains c with
        | true => simp
        | false =>
          simp only [hb, Bool.false_eq_true, if_false] at h ⊢
          by_cases hn : c = '\n'
          · simp [hn]
          · simp only [hn, if_false] at h ⊢
            by_cases hq : c = '"'
            · simp [hq]
            · simp only [hq, if_false] at h ⊢
              cases hdg : isDigit c with
              | true =>
                simp only [hdg, if_true] at h ⊢
                exact ⟨h.1, h.2.imp id (fun hn => noFrac_transfer a R Y hn hw)⟩
              | false =>
                simp only [hdg, Bool.false_eq_true, if_false] at h ⊢
                exact h

def isGap (b : Char) : Prop := b = ' ' ∨ b = '\t' ∨ b = '\r' ∨ b = '\n'

theorem twoOps_alts_gap : ∀ p ∈ Expect.twoOps, ∀ b ∈ [' ', '\t', '\r', '\n'], p.2.1.lookup b = none := by decide

theorem gap_facts (b : Char) (hb : isGap b) : isDigit b = false ∧ b ≠ '.' ∧ b ≠ '/' ∧ b ≠ '*' ∧ b ≠ '_' ∧ b ∈ [' ', '\t', '\r', '\n'] := by
  rcases hb with rfl | rfl | rfl | rfl <;> decide

/-- a blank or a line break right after a token is compatible with that token's step -/
theorem compat_gap (lm : Char → Bool) (c : Char) (r : List Char) (line : Nat) (st : Step)
    (h : scanToken lm (c :: r) line = some st) (htok : st.tok.isSome = true)
    (b : Char) (hb : isGap b) (hlm : lm b = false) (Z : List Char) : Compat lm c st.used (b :: Z) := by
  obtain ⟨hbd, hbdot, hbs, hbst, hbu, hbm⟩ := gap_facts b hb
  unfold scanToken at h
  unfold Compat
  cases h1 : Expect.singleOps.lookup c with
  | some tt => trivial
  | none =>
    simp only [h1] at h ⊢
    cases h2 : Expect.twoOps.lookup c with
    | some ad =>
      obtain ⟨alts, dflt⟩ := ad
      simp only [h2]
      right
      have hmem := lookup_mem Expect.twoOps c (alts, dflt) h2
      have := twoOps_alts_gap _ hmem b hbm
      simp only at this
      simp [headSat, this]
    | none =>
      simp only [h2] at h ⊢
      by_cases hs : c = '/'
      · subst hs
        simp only [if_true, Option.some.injEq] at h ⊢
        subst h
        unfold scanSlash at htok ⊢
        cases r with
        | nil => simp [plainTok, headSat, hbs, hbst]
        | cons d r' =>
          simp only at htok ⊢
          by_cases hd : d = '/'
          · simp [hd] at htok
          · simp only [hd, if_false] at htok ⊢
            by_cases hst : d = '*'
            · simp only [hst, if_true] at htok
              cases hbc : blockComment r' with
              | mk u k => cases k <;> simp [hbc] at htok
            · simp [hst, plainTok, headSat, hbs, hbst]
      · simp only [hs, if_false] at h ⊢
        cases hbl : Expect.blanks.contains c with
        | true => simp
        | false =>
          simp only [hbl, Bool.false_eq_true, if_false] at h ⊢
          by_cases hn : c = '\n'
          · simp [hn]
          · simp only [hn, if_false] at h ⊢
            by_cases hq : c = '"'
            · simp [hq]
            · simp only [hq, if_false] at h ⊢
              cases hdg : isDigit c with
              | true =>
                simp only [if_true]
                refine ⟨by simp [headSat, hbd], Or.inr ?_⟩
                unfold noFrac
                split
                · rename_i heq; simp only [List.cons.injEq] at heq; exact absurd heq.1 hbdot
                · rfl
              | false =>
                simp only [Bool.false_eq_true, if_false]
                cases ha : isAlpha lm c with
                | true => simp [headSat, isAlphaNum, isAlpha, hlm, hbu, hbd]
                | false => simp

/-- `A` is a prefix of the text that the scanner consumes in whole steps, the last of which yields a token:
    the position between `A` and `B` is *immediately after a token* -/
inductive AfterToken (lm : Char → Bool) : List Char → List Char → Nat → Prop
  | here {A B : List Char} {line : Nat} {st : Step} :
      scanToken lm (A ++ B) line = some st → st.used = A → st.tok.isSome = true → AfterToken lm A B line
  | later {A A' B : List Char} {line : Nat} {st : Step} :
      scanToken lm (A ++ B) line = some st → A = st.used ++ A' → A' ≠ [] → AfterToken lm A' B st.line → AfterToken lm A B line

theorem scanToken_nonempty {lm : Char → Bool} {src : List Char} {line : Nat} {st : Step} (h : scanToken lm src line = some st) :
    ∃ c r, src = c :: r := by
  cases src with
  | nil => simp [scanToken] at h
  | cons c r => exact ⟨c, r, rfl⟩

theorem blank_step (lm : Char → Bool) (b : Char) (hb : b = ' ' ∨ b = '\t' ∨ b = '\r') (r : List Char) (line : Nat) :
    scanToken lm (b :: r) line = some ⟨none, none, [b], r, line⟩ := by
  rcases hb with rfl | rfl | rfl <;> simp [scanToken, Expect.singleOps, Expect.twoOps, Expect.blanks, List.lookup]

/-- **inserting a blank immediately after a token changes nothing**: the scanner returns exactly the
    same tokens (types, lexemes, literals, lines) and the same diagnostics -/
theorem blank_after_token (lm : Char → Bool) (hlm : lm '\n' = false) (b : Char) (hb : b = ' ' ∨ b = '\t' ∨ b = '\r') (hlmb : lm b = false)
    {A B : List Char} {line : Nat} (hat : AfterToken lm A B line) :
    ∀ (f : Nat) (toks : List Token) (ds : List Diag), scanLoop lm f (A ++ B) line = some (toks, ds) →
      scanLoop lm (f + 1) (A ++ b :: B) line = some (toks, ds) := by
  have hgap : isGap b := by rcases hb with h | h | h <;> simp [isGap, h]
  induction hat with
  | @here A B line st hst hused htok =>
    intro f toks ds h
    obtain ⟨c, r, hcr⟩ := scanToken_nonempty hst
    obtain ⟨st', hst', hok⟩ := scanToken_ok lm hlm c r line
    rw [hcr] at hst h
    rw [hst] at hst'; cases hst'
    have hrest : st.rest = B := by
      have := hok.split; rw [← hcr, hused] at this; exact List.append_cancel_left this
    cases f with
    | zero => simp [scanLoop] at h
    | succ f' =>
      rw [scanLoop] at h
      simp only [hst] at h
      -- the new text
      have hsw := scanToken_swap lm c r line st hst (Or.inr htok) (b :: B) (compat_gap lm c r line st hst htok b hgap hlmb B)
      rw [hused] at hsw
      obtain ⟨c2, r2, hcr2⟩ := scanToken_nonempty hsw
      rw [hcr2] at hsw ⊢
      rw [scanLoop]
      simp only [hsw]
      cases f' with
      | zero => rw [hrest] at h; simp [scanLoop] at h
      | succ f'' =>
        rw [scanLoop]
        simp only [blank_step lm b hb B st.line]
        rw [hrest] at h
        cases hin : scanLoop lm (f'' + 1) B st.line with
        | none => simp [hin] at h
        | some p =>
          obtain ⟨ts, dd⟩ := p
          simp only [hin] at h ⊢
          simpa using h
  | @later A A' B line st hst hA hne _ ih =>
    intro f toks ds h
    obtain ⟨c, r, hcr⟩ := scanToken_nonempty hst
    obtain ⟨st', hst', hok⟩ := scanToken_ok lm hlm c r line
    rw [hcr] at hst h
    rw [hst] at hst'; cases hst'
    have hrest : st.rest = A' ++ B := by
      have := hok.split; rw [← hcr, hA, List.append_assoc] at this; exact List.append_cancel_left this
    cases f with
    | zero => simp [scanLoop] at h
    | succ f' =>
      rw [scanLoop] at h
      simp only [hst] at h
      obtain ⟨a, A'', rfl⟩ : ∃ a A'', A' = a :: A'' := by
        cases A' with
        | nil => exact absurd rfl hne
        | cons a A'' => exact ⟨a, A'', rfl⟩
      have hself := compat_self lm c r line st hst (Or.inl (by rw [hrest]; simp))
      rw [hrest] at hself
      have hcomp : Compat lm c st.used (a :: (A'' ++ b :: B)) := by
        refine compat_head lm c a st.used (A'' ++ B) (A'' ++ b :: B) hself ?_
        cases A'' with
        | nil => right; simp [headSat, (gap_facts b hgap).1]
        | cons x xs => left; rfl
      have hsw := scanToken_swap lm c r line st hst (Or.inl (by rw [hrest]; simp)) _ hcomp
      have htext : A ++ b :: B = st.used ++ (a :: (A'' ++ b :: B)) := by rw [hA]; simp
      rw [htext]
      obtain ⟨c2, r2, hcr2⟩ := scanToken_nonempty hsw
      rw [hcr2] at hsw ⊢
      rw [scanLoop]
      simp only [hsw]
      rw [hrest] at h
      simp only [List.cons_append] at h ih
      cases hin : scanLoop lm f' (a :: (A'' ++ B)) st.line with
      | none => simp [hin] at h
      | some p =>
        obtain ⟨ts, dd⟩ := p
        have := ih f' ts dd hin
        simp only [hin] at h
        simp only [this]
        exact h

/-! ### the starting line only shifts the line fields -/

def shiftTok (k : Nat) (t : Token) : Token := { t with line := t.line + k }

def shiftDiag (k : Nat) : Diag → Diag
  | .static line w m => .static (line + k) w m
  | .runtime m line => .runtime m (line + k)

def shiftStep (k : Nat) (st : Step) : Step :=
  ⟨st.tok.map (shiftTok k), st.diag.map (shiftDiag k), st.used, st.rest, st.line + k⟩

theorem scanToken_shift (lm : Char → Bool) (src : List Char) (line k : Nat) :
    scanToken lm src (line + k) = (scanToken lm src line).map (shiftStep k) := by
  cases src with
  | nil => simp [scanToken]
  | cons c r =>
    unfold scanToken
    cases h1 : Expect.singleOps.lookup c with
    | some tt => simp [h1, plainTok, shiftStep, shiftTok]
    | none =>
      simp only [h1]
      cases h2 : Expect.twoOps.lookup c with
      | some ad =>
        obtain ⟨alts, dflt⟩ := ad
        simp only [h2, Option.map_some, Option.some.injEq]
        unfold scanTwo
        cases r with
        | nil => simp [plainTok, shiftStep, shiftTok]
        | cons d r' =>
          simp only
          cases alts.lookup d <;> simp [plainTok, shiftStep, shiftTok]
      | none =>
        simp only [h2]
        by_cases hs : c = '/'
        · simp only [hs, if_true, Option.map_some, Option.some.injEq]
          unfold scanSlash
          cases r with
          | nil => simp [plainTok, shiftStep, shiftTok]
          | cons d r' =>
            simp only
            by_cases hd : d = '/'
            · simp [hd, shiftStep]
            · simp only [hd, if_false]
              by_cases hst : d = '*'
              · simp only [hst, if_true]
                cases hb : blockComment r' with
                | mk u kk =>
                  cases kk with
                  | none => simp [shiftStep, shiftDiag, Nat.add_right_comm]
                  | some rest => simp [shiftStep, Nat.add_right_comm]
              · simp [hst, plainTok, shiftStep, shiftTok]
        · simp only [hs, if_false]
          cases hb : Expect.blanks.contains c with
          | true => simp [shiftStep]
          | false =>
            simp only [Bool.false_eq_true, if_false]
            by_cases hn : c = '\n'
            · simp [hn, shiftStep, Nat.add_right_comm]
            · simp only [hn, if_false]
              by_cases hq : c = '"'
              · simp only [hq, if_true]
                unfold scanString
                simp only
                cases r.dropWhile notQuote with
                | nil => simp [shiftStep, shiftDiag, Nat.add_right_comm]
                | cons q rest' =>
                  simp only
                  split <;> simp [shiftStep, shiftTok, Nat.add_right_comm]
              · simp only [hq, if_false]
                cases hdg : isDigit c with
                | true =>
                  simp only [if_true, Option.map_some, Option.some.injEq]
                  unfold scanNumber
                  simp only
                  split <;> simp [shiftStep, shiftTok, shiftDiag]
                | false =>
                  simp only [Bool.false_eq_true, if_false]
                  cases ha : isAlpha lm c with
                  | true => simp [scanWord, plainTok, shiftStep, shiftTok]
                  | false => simp [shiftStep, shiftDiag]

theorem scanLoop_shift (lm : Char → Bool) (k : Nat) : ∀ (f : Nat) (src : List Char) (line : Nat),
    scanLoop lm f src (line + k) = (scanLoop lm f src line).map fun p => (p.1.map (shiftTok k), p.2.map (shiftDiag k)) := by
  intro f
  induction f with
  | zero => intro src line; simp [scanLoop]
  | succ f ih =>
    intro src line
    cases src with
    | nil => simp [scanLoop, shiftTok]
    | cons c r =>
      rw [scanLoop, scanLoop, scanToken_shift]
      cases hst : scanToken lm (c :: r) line with
      | none => simp
      | some st =>
        simp only [Option.map_some, shiftStep]
        rw [ih st.rest st.line]
        cases hin : scanLoop lm f st.rest st.line with
        | none => simp
        | some p =>
          obtain ⟨ts, ds⟩ := p
          simp only [Option.map_some]
          cases st.tok <;> cases st.diag <;> simp

/-- a token without its line; a diagnostic without its line -/
def tokShape (t : Token) : TT × List Char × Lit := (t.tt, t.lexeme, t.lit)

def diagShape : Diag → List Char × List Char
  | .static _ w m => (w, m)
  | .runtime m _ => ([], m)

theorem tokShape_shift (k : Nat) (ts : List Token) : (ts.map (shiftTok k)).map tokShape = ts.map tokShape := by
  simp [tokShape, shiftTok, Function.comp_def]

theorem diagShape_shift (k : Nat) (ds : List Diag) : (ds.map (shiftDiag k)).map diagShape = ds.map diagShape := by
  rw [List.map_map]
  apply List.map_congr_left
  intro d _
  cases d <;> rfl

theorem newline_step (lm : Char → Bool) (r : List Char) (line : Nat) :
    scanToken lm ('\n' :: r) line = some ⟨none, none, ['\n'], r, line + 1⟩ := by
  simp [scanToken, Expect.singleOps, Expect.twoOps, Expect.blanks, List.lookup]

/-- **inserting a line break immediately after a token changes no token and no diagnostic — only
    their line numbers** (the ones that follow move down by one) -/
theorem newline_after_token (lm : Char → Bool) (hlm : lm '\n' = false)
    {A B : List Char} {line : Nat} (hat : AfterToken lm A B line) :
    ∀ (f : Nat) (toks : List Token) (ds : List Diag), scanLoop lm f (A ++ B) line = some (toks, ds) →
      ∃ toks' ds', scanLoop lm (f + 1) (A ++ '\n' :: B) line = some (toks', ds') ∧
        toks'.map tokShape = toks.map tokShape ∧ ds'.map diagShape = ds.map diagShape := by
  have hgap : isGap '\n' := by simp [isGap]
  induction hat with
  | @here A B line st hst hused htok =>
    intro f toks ds h
    obtain ⟨c, r, hcr⟩ := scanToken_nonempty hst
    obtain ⟨st', hst', hok⟩ := scanToken_ok lm hlm c r line
    rw [hcr] at hst h
    rw [hst] at hst'; cases hst'
    have hrest : st.rest = B := by
      have := hok.split; rw [← hcr, hused] at this; exact List.append_cancel_left this
    cases f with
    | zero => simp [scanLoop] at h
    | succ f' =>
      rw [scanLoop] at h
      simp only [hst] at h
      have hsw := scanToken_swap lm c r line st hst (Or.inr htok) ('\n' :: B) (compat_gap lm c r line st hst htok '\n' hgap hlm B)
      rw [hused] at hsw
      obtain ⟨c2, r2, hcr2⟩ := scanToken_nonempty hsw
      rw [hcr2] at hsw ⊢
      rw [scanLoop]
      simp only [hsw]
      cases f' with
      | zero => rw [hrest] at h; simp [scanLoop] at h
      | succ f'' =>
        rw [scanLoop]
        simp only [newline_step lm B st.line]
        rw [hrest] at h
        rw [scanLoop_shift lm 1 (f'' + 1) B st.line]
        cases hin : scanLoop lm (f'' + 1) B st.line with
        | none => simp [hin] at h
        | some p =>
          obtain ⟨ts, dd⟩ := p
          simp only [hin, Option.some.injEq, Prod.mk.injEq] at h
          obtain ⟨rfl, rfl⟩ := h
          refine ⟨_, _, rfl, ?_, ?_⟩
          · simp only [Option.map_some, Option.toList_none, List.nil_append, List.map_append, tokShape_shift]
          · simp only [Option.map_some, Option.toList_none, List.nil_append, List.map_append, diagShape_shift]
  | @later A A' B line st hst hA hne _ ih =>
    intro f toks ds h
    obtain ⟨c, r, hcr⟩ := scanToken_nonempty hst
    obtain ⟨st', hst', hok⟩ := scanToken_ok lm hlm c r line
    rw [hcr] at hst h
    rw [hst] at hst'; cases hst'
    have hrest : st.rest = A' ++ B := by
      have := hok.split; rw [← hcr, hA, List.append_assoc] at this; exact List.append_cancel_left this
    cases f with
    | zero => simp [scanLoop] at h
    | succ f' =>
      rw [scanLoop] at h
      simp only [hst] at h
      obtain ⟨a, A'', rfl⟩ : ∃ a A'', A' = a :: A'' := by
        cases A' with
        | nil => exact absurd rfl hne
        | cons a A'' => exact ⟨a, A'', rfl⟩
      have hself := compat_self lm c r line st hst (Or.inl (by rw [hrest]; simp))
      rw [hrest] at hself
      have hcomp : Compat lm c st.used (a :: (A'' ++ '\n' :: B)) := by
        refine compat_head lm c a st.used (A'' ++ B) (A'' ++ '\n' :: B) hself ?_
        cases A'' with
        | nil => right; simp [headSat, (gap_facts '\n' hgap).1]
        | cons x xs => left; rfl
      have hsw := scanToken_swap lm c r line st hst (Or.inl (by rw [hrest]; simp)) _ hcomp
      have htext : A ++ '\n' :: B = st.used ++ (a :: (A'' ++ '\n' :: B)) := by rw [hA]; simp
      rw [htext]
      obtain ⟨c2, r2, hcr2⟩ := scanToken_nonempty hsw
      rw [hcr2] at hsw ⊢
      rw [scanLoop]
      simp only [hsw]
      rw [hrest] at h
      simp only [List.cons_append] at h ih
      cases hin : scanLoop lm f' (a :: (A'' ++ B)) st.line with
      | none => simp [hin] at h
      | some p =>
        obtain ⟨ts, dd⟩ := p
        obtain ⟨ts', dd', h1, h2, h3⟩ := ih f' ts dd hin
        simp only [hin, Option.some.injEq, Prod.mk.injEq] at h
        obtain ⟨rfl, rfl⟩ := h
        simp only [h1]
        exact ⟨_, _, rfl, by simp [h2], by simp [h3]⟩

/-! ### the general form: any single piece of trivia after any closed step -/

/-- the first character of a piece of trivia: a blank, a line break, or the `/` of a comment -/
def isGap' (b : Char) : Prop := b = ' ' ∨ b = '\t' ∨ b = '\r' ∨ b = '\n' ∨ b = '/'

theorem twoOps_alts_gap' : ∀ p ∈ Expect.twoOps, ∀ b ∈ [' ', '\t', '\r', '\n', '/'], p.2.1.lookup b = none := by decide

theorem gap_facts' (b : Char) (hb : isGap' b) : isDigit b = false ∧ b ≠ '.' ∧ b ≠ '*' ∧ b ≠ '_' ∧ b ∈ [' ', '\t', '\r', '\n', '/'] := by
  rcases hb with rfl | rfl | rfl | rfl | rfl <;> decide

/-- a step after which trivia may be inserted: a token that is not `/` when the trivia is a comment,
    a blank, a line break, or a terminated block comment — not a line comment (it runs to the end of
    the line) and nothing unterminated -/
def Closed (b : Char) (st : Step) : Prop :=
  (st.tok.isSome = true ∧ (b = '/' → st.used ≠ ['/'])) ∨
  (st.tok = none ∧ st.diag = none ∧ ¬ (∃ u, st.used = '/' :: '/' :: u))

theorem compat_closed (lm : Char → Bool) (c : Char) (r : List Char) (line : Nat) (st : Step)
    (h : scanToken lm (c :: r) line = some st) (b : Char) (hb : isGap' b) (hlm : lm b = false)
    (hcl : Closed b st) (Z : List Char) : Compat lm c st.used (b :: Z) := by
  obtain ⟨hbd, hbdot, hbst, hbu, hbm⟩ := gap_facts' b hb
  unfold scanToken at h
  unfold Compat
  cases h1 : Expect.singleOps.lookup c with
  | some tt => trivial
  | none =>
    simp only [h1] at h ⊢
    cases h2 : Expect.twoOps.lookup c with
    | some ad =>
      obtain ⟨alts, dflt⟩ := ad
      simp only [h2]
      right
      have hmem := lookup_mem Expect.twoOps c (alts, dflt) h2
      have := twoOps_alts_gap' _ hmem b hbm
      simp only at this
      simp [headSat, this]
    | none =>
      simp only [h2] at h ⊢
      by_cases hs : c = '/'
      · subst hs
        simp only [if_true, Option.some.injEq] at h ⊢
        subst h
        unfold scanSlash at hcl ⊢
        cases r with
        | nil =>
          simp only [plainTok, headSat, Bool.and_eq_true, bne_iff_ne, ne_eq]
          rcases hcl with ⟨_, hns⟩ | ⟨ht, _⟩
          · refine ⟨fun e => hns e (by simp [plainTok]), hbst⟩
          · simp [plainTok] at ht
        | cons d r' =>
          simp only at hcl ⊢
          by_cases hd : d = '/'
          · subst hd
            simp only [if_true] at hcl
            rcases hcl with ⟨ht, _⟩ | ⟨_, _, hnl⟩
            · simp at ht
            · exact absurd ⟨_, rfl⟩ hnl
          · simp only [hd, if_false] at hcl ⊢
            by_cases hst : d = '*'
            · subst hst
              simp only [if_true] at hcl ⊢
              cases hbc : blockComment r' with
              | mk u k => cases k <;> simp
            · simp only [hst, if_false, plainTok, headSat, Bool.and_eq_true, bne_iff_ne, ne_eq] at hcl ⊢
              rcases hcl with ⟨_, hns⟩ | ⟨ht, _⟩
              · exact ⟨fun e => hns e rfl, hbst⟩
              · simp at ht
      · simp only [hs, if_false] at h ⊢
        cases hbl : Expect.blanks.contains c with
        | true => simp
        | false =>
          simp only [Bool.false_eq_true, if_false]
          by_cases hn : c = '\n'
          · simp [hn]
          · simp only [hn, if_false]
            by_cases hq : c = '"'
            · simp [hq]
            · simp only [hq, if_false]
              cases hdg : isDigit c with
              | true =>
                simp only [if_true]
                refine ⟨by simp [headSat, hbd], Or.inr ?_⟩
                unfold noFrac
                split
                · rename_i heq; simp only [List.cons.injEq] at heq; exact absurd heq.1 hbdot
                · rfl
              | false =>
                simp only [Bool.false_eq_true, if_false]
                cases ha : isAlpha lm c with
                | true => simp [headSat, isAlphaNum, isAlpha, hlm, hbu, hbd]
                | false => simp

/-- `A` is consumed in whole steps, the last of which satisfies `P` -/
inductive AfterStep (lm : Char → Bool) (P : Step → Prop) : List Char → List Char → Nat → Prop
  | here {A B : List Char} {line : Nat} {st : Step} :
      scanToken lm (A ++ B) line = some st → st.used = A → P st → AfterStep lm P A B line
  | later {A A' B : List Char} {line : Nat} {st : Step} :
      scanToken lm (A ++ B) line = some st → A = st.used ++ A' → A' ≠ [] → AfterStep lm P A' B st.line → AfterStep lm P A B line

/-- **a piece of trivia `T` (one scanning step producing nothing) inserted after a closed step changes
    no token and no diagnostic, only the line numbers of what follows** -/
theorem piece_after_step (lm : Char → Bool) (hlm : lm '\n' = false) (b : Char) (T' : List Char) (hb : isGap' b) (hlmb : lm b = false)
    {A B : List Char} {line : Nat}
    (hT : ∀ l, scanToken lm ((b :: T') ++ B) l = some ⟨none, none, b :: T', B, l + countNl (b :: T')⟩)
    (hat : AfterStep lm (fun st => Closed b st ∧ (st.rest ≠ [] ∨ st.tok.isSome = true)) A B line) :
    ∀ (f : Nat) (toks : List Token) (ds : List Diag), scanLoop lm f (A ++ B) line = some (toks, ds) →
      ∃ toks' ds', scanLoop lm (f + 1) (A ++ (b :: T') ++ B) line = some (toks', ds') ∧
        toks'.map tokShape = toks.map tokShape ∧ ds'.map diagShape = ds.map diagShape := by
  have hbd : isDigit b = false := (gap_facts' b hb).1
  induction hat with
  | @here A B line st hst hused hP =>
    intro f toks ds h
    obtain ⟨hcl, hlive⟩ := hP
    obtain ⟨c, r, hcr⟩ := scanToken_nonempty hst
    obtain ⟨st', hst', hok⟩ := scanToken_ok lm hlm c r line
    rw [hcr] at hst h
    rw [hst] at hst'; cases hst'
    have hrest : st.rest = B := by
      have := hok.split; rw [← hcr, hused] at this; exact List.append_cancel_left this
    cases f with
    | zero => simp [scanLoop] at h
    | succ f' =>
      rw [scanLoop] at h
      simp only [hst] at h
      have hsw := scanToken_swap lm c r line st hst hlive (b :: (T' ++ B)) (compat_closed lm c r line st hst b hb hlmb hcl (T' ++ B))
      rw [hused] at hsw
      have htext : A ++ (b :: T') ++ B = A ++ b :: (T' ++ B) := by simp
      rw [htext]
      obtain ⟨c2, r2, hcr2⟩ := scanToken_nonempty hsw
      rw [hcr2] at hsw ⊢
      rw [scanLoop]
      simp only [hsw]
      cases f' with
      | zero => rw [hrest] at h; simp [scanLoop] at h
      | succ f'' =>
        rw [scanLoop]
        have hT' := hT st.line
        simp only [List.cons_append] at hT'
        simp only [hT']
        rw [hrest] at h
        rw [scanLoop_shift lm (countNl (b :: T')) (f'' + 1) B st.line]
        cases hin : scanLoop lm (f'' + 1) B st.line with
        | none => simp [hin] at h
        | some p =>
          obtain ⟨ts, dd⟩ := p
          simp only [hin, Option.some.injEq, Prod.mk.injEq] at h
          obtain ⟨rfl, rfl⟩ := h
          refine ⟨_, _, rfl, ?_, ?_⟩
          · simp only [Option.map_some, Option.toList_none, List.nil_append, List.map_append, tokShape_shift]
          · simp only [Option.map_some, Option.toList_none, List.nil_append, List.map_append, diagShape_shift]
  | @later A A' B line st hst hA hne _ ih =>
    intro f toks ds h
    obtain ⟨c, r, hcr⟩ := scanToken_nonempty hst
    obtain ⟨st', hst', hok⟩ := scanToken_ok lm hlm c r line
    rw [hcr] at hst h
    rw [hst] at hst'; cases hst'
    have hrest : st.rest = A' ++ B := by
      have := hok.split; rw [← hcr, hA, List.append_assoc] at this; exact List.append_cancel_left this
    cases f with
    | zero => simp [scanLoop] at h
    | succ f' =>
      rw [scanLoop] at h
      simp only [hst] at h
      obtain ⟨a, A'', rfl⟩ : ∃ a A'', A' = a :: A'' := by
        cases A' with
        | nil => exact absurd rfl hne
        | cons a A'' => exact ⟨a, A'', rfl⟩
      have hself := compat_self lm c r line st hst (Or.inl (by rw [hrest]; simp))
      rw [hrest] at hself
      have hcomp : Compat lm c st.used (a :: (A'' ++ (b :: T') ++ B)) := by
        refine compat_head lm c a st.used (A'' ++ B) (A'' ++ (b :: T') ++ B) hself ?_
        cases A'' with
        | nil => right; simp [headSat, hbd]
        | cons x xs => left; rfl
      have hsw := scanToken_swap lm c r line st hst (Or.inl (by rw [hrest]; simp)) _ hcomp
      have htext : A ++ (b :: T') ++ B = st.used ++ (a :: (A'' ++ (b :: T') ++ B)) := by rw [hA]; simp
      rw [htext]
      obtain ⟨c2, r2, hcr2⟩ := scanToken_nonempty hsw
      rw [hcr2] at hsw ⊢
      rw [scanLoop]
      simp only [hsw]
      rw [hrest] at h
      simp only [List.cons_append, List.append_assoc] at h ih ⊢
      cases hin : scanLoop lm f' (a :: (A'' ++ B)) st.line with
      | none => simp [hin] at h
      | some p =>
        obtain ⟨ts, dd⟩ := p
        obtain ⟨ts', dd', h1, h2, h3⟩ := ih (by intro l; have := hT l; simpa using this) f' ts dd hin
        simp only [hin, Option.some.injEq, Prod.mk.injEq] at h
        obtain ⟨rfl, rfl⟩ := h
        simp only [h1]
        exact ⟨_, _, rfl, by simp [h2], by simp [h3]⟩

theorem AfterStep.mono {lm : Char → Bool} {P Q : Step → Prop} (hpq : ∀ st, P st → Q st) {A B : List Char} {line : Nat}
    (h : AfterStep lm P A B line) : AfterStep lm Q A B line := by
  induction h with
  | here h1 h2 h3 => exact AfterStep.here h1 h2 (hpq _ h3)
  | later h1 h2 h3 _ ih => exact AfterStep.later h1 h2 h3 ih

/-- the sequence of scanning steps of a text is unique -/
theorem Scans_unique {lm : Char → Bool} {src : List Char} {line : Nat} {s1 s2 : List Step}
    (h1 : Scans lm src line s1) (h2 : Scans lm src line s2) : s1 = s2 := by
  induction h1 generalizing s2 with
  | nil line => cases h2; rfl
  | @cons c r line st steps hst _ ih =>
    cases h2 with
    | @cons _ _ _ st2 steps2' hst2 hrest2 =>
      rw [hst] at hst2; cases hst2
      rw [ih hrest2]

/-- a terminated block comment is one silent scanning step, whatever follows it -/
theorem block_comment_step (lm : Char → Bool) (r0 u rest0 : List Char) (hbc : blockComment r0 = (u, some rest0)) (B : List Char) (l : Nat) :
    scanToken lm (('/' :: '*' :: u) ++ B) l = some ⟨none, none, '/' :: '*' :: u, B, l + countNl ('/' :: '*' :: u)⟩ := by
  have hsw := (blockComment_swap r0 u rest0 B hbc).1
  have hc : countNl ('/' :: '*' :: u) = countNl u := by
    rw [countNl_cons, countNl_cons]; simp
  simp [scanToken, Expect.singleOps, Expect.twoOps, List.lookup, scanSlash, hsw, hc]

end Borno.Lexer
