# Re-execution campaign: the SAME piece of program text is executed several times in DIFFERENT dynamic states.
#
# A tree-walking interpreter has one obvious place to go wrong that neither small exhaustive domains nor random
# straight-line programs exercise: state attached to a syntax node, a call site, a declaration or a scope that is
# kept from one execution of that node to the next (a cache, a memo, a reused scope, a resolved callee).  Every
# program below = CONTEXT[BODY]: the context makes the body run two or three times (called twice, looped, looped in
# a loop, re-entered recursively while an earlier execution is still running, produced twice by a factory), the body
# observes and mutates state through literals, closures, scopes, callee variables and containers, and what escapes
# (closures, containers) is used again after the context is over.  The model has no caches, so any such state shows
# as a disagreement.  Shared by the evaluator properties (label 'reexec').
from .core import KW, NAT

P, VAR, FUN, IF, ELSE, WHILE, FOR = KW['print'], KW['var'], KW['fun'], KW['if'], KW['else'], KW['while'], KW['for']
RET, BRK, CONT, TRUE, FALSE = KW['return'], KW['break'], KW['continue'], KW['true'], KW['false']
N = NAT

# ---- bodies: use the variable `k` (an integer that differs between executions) ; may use the globals FS (array of
# escaped closures), LOG (array), G (number).  Each is a list of statements as text.
def bodies():
    B = {}
    B['literal-array-nested'] = f'{VAR} t = [[0, 0], [0, 0]][k % 2]; {P} t; t[0] = t[0] + k + 1; {P} t; {P} [[0, 0], [0, 0]][k % 2];'
    B['literal-array-flat'] = f'{VAR} t = [10, 20, 30]; {P} t[k % 3]; t[k % 3] = k; {P} t; {P} [10, 20, 30][k % 3];'
    B['literal-object-nested'] = f'{VAR} o = {{a: {{n: 0}}, b: [0]}}; o.a.n = o.a.n + k + 1; o.b[0] = k; {P} o; {P} {{a: {{n: 0}}}}.a;'
    B['literal-index-direct'] = f'{P} [[1, 2], [3, 4]][k % 2][1]; {VAR} r = [[1, 2], [3, 4]][k % 2]; r[1] = r[1] * 10; {P} r; {P} [[1, 2], [3, 4]][k % 2];'
    B['closure-over-k'] = f'{FUN} g() {{ {RET} k * 10; }} FS = {N["append"]}(FS, g); {P} g();'
    B['closure-over-local'] = f'{VAR} loc = k + 100; {FUN} g() {{ loc = loc + 1; {RET} loc; }} FS = {N["append"]}(FS, g); {P} g();'
    B['closure-in-nested-if'] = f'{VAR} x = k + 7; {IF} (x > 0) {{ {FUN} g() {{ {RET} x; }} FS = {N["append"]}(FS, g); }} {P} x;'
    B['closure-in-nested-block'] = f'{VAR} x = k; {{ {VAR} y = x * 2; {{ {FUN} g() {{ {RET} x + y; }} FS = {N["append"]}(FS, g); }} }}'
    B['closure-then-continue'] = f'{VAR} x = k + 1; {IF} ({TRUE}) {{ {FUN} g() {{ {RET} x; }} FS = {N["append"]}(FS, g); }} {IF} (k % 2 == 1) {{ LOG = {N["append"]}(LOG, k); }}'
    B['callee-variable'] = f'{VAR} h = {N["abs"]}; {IF} (k % 2 == 1) {{ h = {N["round"]}; }} {P} h(0 - 2.5 - k);'
    B['callee-variable-math'] = f'{VAR} h = {N["sqrt"]}; {IF} (k % 2 == 1) {{ h = {N["abs"]}; }} {{ {P} h(16); }}'
    B['callee-user-or-native'] = f'{FUN} mine(x) {{ {RET} "mine" + x[0]; }} {VAR} h = mine; {IF} (k % 2 == 1) {{ h = {N["len"]}; }} {{ {P} h([k, k]); }}'
    B['callee-from-array'] = f'{VAR} hs = [{N["max"]}, {N["min"]}]; {VAR} h = hs[k % 2]; {{ {P} h(k, 5, 1); }}'
    B['scope-shadow'] = f'{VAR} x = k; {{ {VAR} x = x + 10; {{ {VAR} x = x + 100; {P} x; }} {P} x; }} {P} x;'
    B['scope-assign-outer'] = f'G = G + k; {VAR} y = G; {{ y = y + 1; {VAR} y = 0; y = 5; }} {P} y; {P} G;'
    B['keys-of-fresh-object'] = f'{VAR} o = {{p: 1, q: 2, r: 3, s: 4}}; {IF} (k % 2 == 1) {{ o = {{w: 1, x: 2, y: 3, z: 4}}; }} {P} {N["keys"]}(o); {P} {N["values"]}(o);'
    B['keys-after-swap'] = f'{VAR} o = {{a: 1, b: 2, c: 3, d: 4}}; {N["delete"]}(o, "a"); o.e = k; {P} {N["keys"]}(o); {N["delete"]}(o, "b"); o.a = 0; {P} {N["keys"]}(o); {P} {N["values"]}(o);'
    B['array-alias'] = f'{VAR} a = [k, k + 1]; {VAR} b = a; b[0] = 99; {P} a; {VAR} c = {N["append"]}(a, 3); c[1] = 0; {P} a; {P} c;'
    B['string-build'] = f'{VAR} s = "s"; {FOR} ({VAR} j = 0; j < k + 1; j = j + 1) {{ s = s + j; }} {P} s;'
    B['inner-loop-break'] = f'{VAR} c = 0; {FOR} ({VAR} j = 0; j < 5; j = j + 1) {{ {IF} (j == k + 1) {BRK}; {IF} (j % 2 == 0) {CONT}; c = c + j; }} {P} c;'
    B['inner-while'] = f'{VAR} j = 0; {WHILE} (j < k + 2) {{ j = j + 1; {IF} (j == 2) {CONT}; G = G + 1; }} {P} j; {P} G;'
    B['power-of-index'] = f'{VAR} xs = [2, 3, 4, 5, 6]; {VAR} i = 0; {P} xs[i + (i = i + 1)] ** 2; {P} i; {P} xs[k % 3] ** 2; {P} xs[k % 3 + 1] ** 3;'
    B['logical-values'] = f'{P} (k % 2 == 0) || "right"; {P} (k % 2 == 0) && "right"; {P} nil || k; {P} 0 && k; {P} "" || (k + 1);'
    B['early-return-in-loop'] = f'{FUN} find(n) {{ {FOR} ({VAR} j = 0; j < 10; j = j + 1) {{ {IF} (j == n) {{ {RET} "at" + j; }} }} {RET} "none"; }} {P} find(k); {P} find(k + 20);'
    B['object-method-like'] = f'{VAR} o = {{v: k}}; {FUN} get() {{ {RET} o.v; }} o.get = get; {P} o.get(); o.v = o.v + 1; {P} o.get(); FS = {N["append"]}(FS, o.get);'
    B['self-reference'] = f'{VAR} o = {{n: k}}; o.me = o; o.me.n = o.n + 1; {P} o.n; {P} o.me.me.n; {P} o == o.me; {P} {N["keys"]}(o); o.me = nil; {P} o;'
    B['array-self-reference'] = f'{VAR} a = [k, 0]; a[1] = a; a[1][0] = a[0] + 5; {P} a[0]; {P} a[1][1][0]; {P} {N["len"]}(a[1]); a[1] = 0; {P} a;'
    B['redeclare-error-guarded'] = f'{VAR} z = k; {{ {VAR} z = 1; }} {P} z;'
    B['var-list'] = f'{VAR} m = k, n2 = m + 1, q = [m, n2]; {P} q; {VAR} u, w = 2; {P} u; {P} w;'
    # loops whose test depends on state that the body, the increment or a helper changes: the test is evaluated anew
    # before every round, on the state of that moment
    B['worklist-grows'] = f'{VAR} w = [k, k + 1]; {VAR} seen = 0; {FOR} ({VAR} j = 0; j < {N["len"]}(w); j = j + 1) {{ seen = seen + 1; {IF} ({N["len"]}(w) < 5) {{ w = {N["append"]}(w, j); }} }} {P} seen; {P} w;'
    B['worklist-grows-via-helper'] = f'{VAR} w = [k]; {FUN} push(x) {{ w = {N["append"]}(w, x); }} {VAR} seen = 0; {FOR} ({VAR} j = 0; j < {N["len"]}(w); j = j + 1) {{ seen = seen + 1; {IF} (j < 3) {{ push(j * 10); }} }} {P} seen; {P} w;'
    B['worklist-shrinks'] = f'{VAR} w = [1, 2, 3, 4, 5, 6]; {VAR} seen = 0; {FOR} ({VAR} j = 0; j < {N["len"]}(w); j = j + 1) {{ seen = seen + w[j]; {IF} (j == k % 2) {{ w = {N["remove"]}(w, 0); w = {N["remove"]}(w, 0); }} }} {P} seen; {P} w;'
    B['while-on-length'] = f'{VAR} w = [1, 2, 3]; {VAR} n = 0; {WHILE} ({N["len"]}(w) > 0) {{ n = n + w[0]; w = {N["remove"]}(w, 0); {IF} (n == 1 && k > 0) {{ w = {N["append"]}(w, 9); }} }} {P} n;'
    B['bound-variable-changes'] = f'{VAR} lim = 3; {VAR} c = 0; {FOR} ({VAR} j = 0; j < lim; j = j + 1) {{ c = c + 1; {IF} (j == 1 && lim < 6) {{ lim = lim + k + 1; }} }} {P} c; {P} lim;'
    B['condition-calls-function'] = f'{VAR} calls = 0; {FUN} more() {{ calls = calls + 1; {RET} calls < 3 + k; }} {VAR} r = 0; {WHILE} (more()) {{ r = r + 1; }} {P} r; {P} calls; {FOR} (; more() || calls < 8; ) {{ r = r + 1; }} {P} calls;'
    B['condition-on-property'] = f'{VAR} st = {{go: {TRUE}, n: 0}}; {WHILE} (st.go) {{ st.n = st.n + 1; {IF} (st.n > k + 1) {{ st.go = {FALSE}; }} }} {P} st;'
    B['condition-on-element'] = f'{VAR} q = [1, 1, 1, 0, 1]; {VAR} j = 0; {WHILE} (q[j]) {{ j = j + 1; {IF} (j == 2 && k == 1) {{ q[3] = 1; q[4] = 0; }} }} {P} j;'
    B['increment-rebinds'] = f'{VAR} w = [0]; {VAR} c = 0; {FOR} ({VAR} j = 0; j < {N["len"]}(w) && j < 4 + k; j = (w = {N["append"]}(w, j))[0] + j + 1) {{ c = c + 1; }} {P} c; {P} {N["len"]}(w);'
    # a call that does nothing still evaluates its arguments; a later operand may rebind what an earlier one read
    B['noop-callee-arguments'] = f'{FUN} noop(a, b) {{ }} {FUN} konst(a) {{ {RET} 0; }} {FUN} say(t) {{ {P} "<" + t + ">"; {RET} t; }} {P} noop(say("a"), say("b")); {P} konst(say("c")); noop(G = G + 1, LOG = {N["append"]}(LOG, k)); {P} noop(G, 1) == nil; {P} noop(1, nosuch);'
    B['rhs-rebinds-target'] = f'{VAR} x = [0, 0, 0]; {VAR} old = x; {FUN} fresh() {{ x = [7, 7, 7]; {RET} 4; }} x[k % 3] = fresh(); {P} x; {P} old; {VAR} o = {{v: 0}}; {VAR} oo = o; {FUN} fo() {{ o = {{v: 9}}; {RET} 5; }} o.v = fo(); {P} o; {P} oo;'
    B['argument-rebinds-callee'] = f'{FUN} one() {{ {RET} "one"; }} {FUN} two() {{ {RET} "two"; }} {VAR} h = one; {FUN} swap() {{ h = two; {RET} 0; }} {FUN} call2(a, b) {{ {RET} [a, b]; }} {P} call2(h(), swap()); {P} h(); {VAR} y = 1; {P} y + (y = 5) + y; {P} [y, (y = 2), y];'
    B['builtins-leave-arguments-alone'] = (f'{VAR} a = ["10", "9", 3, "2.5"]; {FUN} kind(x) {{ {IF} (("" + x) == x) {{ {RET} "s"; }} {RET} "n"; }} {FUN} kinds(v) {{ {VAR} r = ""; {FOR} ({VAR} j = 0; j < {N["len"]}(v); j = j + 1) {{ r = r + kind(v[j]); }} {RET} r; }} '
        f'{P} {N["min"]}(a); {P} kinds(a); {P} {N["max"]}(a); {P} kinds(a); {P} {N["len"]}(a); {VAR} b = {N["append"]}(a, "7"); {P} kinds(a) + kinds(b); {VAR} c = {N["remove"]}(a, k % 2); {P} kinds(a) + kinds(c); '
        f'{P} {N["abs"]}(a[0]) + {N["round"]}(a[3]) + {N["sqrt"]}(a[1]) + {N["pow"]}(a[0], a[3]); {P} kinds(a); {VAR} o = {{p: "5", q: 6}}; {P} {N["max"]}({N["values"]}(o)); {P} kind(o.p) + kind(o.q); {P} a[0] + 1; {P} a[0] == "10";')
    B['number-text'] = f'{P} (k + 1) / 3; {P} "" + (k + 1) / 3; {P} (k + 1) * 1000000; {P} 0 - k;'
    return B

# ---- contexts: `{B}` is the body, which sees `k`
def contexts():
    C = {}
    C['called-twice'] = f'{FUN} run(k) {{ {{B}} }}\nrun(0);\nrun(1);\nrun(0);\n'
    C['called-thrice-args'] = f'{FUN} run(k) {{ {{B}} {RET} k; }}\n{P} run(2);\n{P} run(1);\n{P} run(2);\n'
    C['for-loop'] = f'{FOR} ({VAR} k = 0; k < 3; k = k + 1) {{ {{B}} }}\n'
    C['for-loop-run-twice'] = f'{FUN} go() {{ {FOR} ({VAR} k = 0; k < 2; k = k + 1) {{ {{B}} }} }}\ngo();\ngo();\n'
    C['nested-for'] = f'{FOR} ({VAR} m = 0; m < 2; m = m + 1) {{ {FOR} ({VAR} k = m; k < m + 2; k = k + 1) {{ {{B}} }} }}\n'
    C['while-loop'] = f'{VAR} k = 0 - 1;\n{WHILE} (k < 2) {{ k = k + 1; {{B}} }}\n'
    C['for-with-continue'] = f'{FOR} ({VAR} k = 0; k < 4; k = k + 1) {{ {IF} (k == 1) {CONT}; {{B}} {IF} (k == 2) {BRK}; }}\n'
    C['recursion-through-for'] = (f'{FUN} rec(d) {{ {FOR} ({VAR} k = d; k < d + 2; k = k + 1) {{ {{B}} {IF} (d > 0 && k == d) {{ rec(d - 1); }} {P} "back" + d + k; }} }}\nrec(2);\n')
    C['recursion-through-while'] = (f'{FUN} rec(d) {{ {VAR} k = d; {WHILE} (k < d + 2) {{ {{B}} {IF} (d > 0 && k == d) {{ rec(d - 1); }} k = k + 1; }} }}\nrec(1);\n')
    C['recursion-in-condition'] = (f'{FUN} rec(d) {{ {FOR} ({VAR} k = 0; k < 2 && (d == 0 || rec(d - 1) == nil); k = k + 1) {{ {{B}} }} }}\nrec(1);\n')
    C['factory-twice'] = (f'{FUN} mk(k) {{ {FUN} body() {{ {{B}} {RET} k; }} {RET} body; }}\n{VAR} b1 = mk(1);\n{VAR} b2 = mk(2);\n{P} b1();\n{P} b2();\n{P} b1();\n')
    C['factory-cross-call'] = (f'{FUN} mk(k) {{ {FUN} body(other, n) {{ {{B}} {IF} (n > 0) {{ {RET} other(body, n - 1); }} {RET} k; }} {RET} body; }}\n'
                               f'{VAR} b1 = mk(1);\n{VAR} b2 = mk(10);\n{P} b1(b2, 1);\n{P} b2(b1, 2);\n{P} b1(b1, 1);\n')
    C['tail-call-direct'] = (f'{FUN} mk(k) {{ {FUN} step(other, n) {{ {{B}} {IF} (n == 0) {{ {RET} k; }} {RET} other(step, n - 1); }} {RET} step; }}\n'
                             f'{VAR} s1 = mk(1);\n{VAR} s2 = mk(10);\n{P} s1(s2, 1);\n{P} s2(s1, 1);\n{P} s1(s2, 2);\n{P} s1(s1, 3);\n')
    C['tail-call-by-name'] = (f'{FUN} even(k) {{ {IF} (k == 0) {{ {RET} "even"; }} {RET} odd(k - 1); }}\n{FUN} odd(k) {{ {{B}} {IF} (k == 0) {{ {RET} "odd"; }} {RET} even(k - 1); }}\n{P} even(3);\n{P} odd(2);\n')
    C['tail-call-sibling'] = (f'{FUN} mk(k) {{ {FUN} body(other, n) {{ {IF} (n > 0) {{ {RET} other(body, n - 1); }} {{B}} {RET} k; }} {RET} body; }}\n'
                              f'{VAR} b1 = mk(1);\n{VAR} b2 = mk(10);\n{P} b1(b2, 1);\n{P} b2(b1, 1);\n{P} b1(b2, 2);\n')
    C['object-property-call'] = f'{VAR} obj = {{}};\n{FUN} run(k) {{ {{B}} {RET} k; }}\nobj.run = run;\n{P} obj.run(0);\n{P} obj.run(1);\n{VAR} alias = obj.run;\n{P} alias(2);\n'
    C['if-else-arms'] = f'{FOR} ({VAR} k = 0; k < 3; k = k + 1) {{ {IF} (k % 2 == 0) {{ {{B}} }} {ELSE} {{ {P} "odd"; {{B}} }} }}\n'
    C['parameter-named-like-builtin'] = (f'{FUN} run(k, {N["len"]}, {N["max"]}) {{ {P} {N["len"]}(k); {P} ({N["len"]})(k); {P} {N["max"]}; {{B}} }}\n'
                                         f'{FUN} twice(x) {{ {RET} x * 2; }}\nrun(0, twice, 5);\nrun(1, twice, 6);\n{P} {N["len"]}([1, 2, 3]);\n')
    return C

PRE = f'{VAR} FS = [];\n{VAR} LOG = [];\n{VAR} G = 0;\n'
POST = (f'{P} {N["len"]}(FS);\n{FOR} ({VAR} q = 0; q < {N["len"]}(FS); q = q + 1) {{ {VAR} fq = FS[q]; {P} fq(); }}\n'
        f'{FOR} ({VAR} q = 0; q < {N["len"]}(FS); q = q + 1) {{ {VAR} fq = FS[q]; {P} fq(); }}\n{P} LOG;\n{P} G;\n')

def extra_programs():
    """whole programs about what a NAME denotes at the moment it is used: a function's own name, names declared after the
    closure that uses them was created, the same call expression re-entered from inside one of its own arguments"""
    E = {}
    # --- a function's own name (bound in each activation to that function, whatever the outer name means by then)
    E['own-name-after-rebinding'] = f'{FUN} f(n) {{ {IF} (n == 0) {{ {RET} "base"; }} {RET} f(n - 1); }}\n{VAR} g = f;\n{FUN} other(n) {{ {RET} "other"; }}\nf = other;\n{P} g(2);\n{P} f(2);\n{P} g == f;\n'
    E['own-name-in-nested-helper'] = f'{VAR} log = [];\n{FUN} walk(n) {{ {FUN} step() {{ {RET} walk(n - 1); }} log = {N["append"]}(log, n); {IF} (n == 0) {{ {RET} "end"; }} {RET} step(); }}\n{VAR} w = walk;\n{FUN} wrap(n) {{ {P} "wrapped"; {RET} w(n); }}\nwalk = wrap;\n{P} walk(2);\n{P} log;\n'
    E['own-name-one-return'] = f'{VAR} calls = 0;\n{FUN} cnt(n) {{ {RET} n == 0 || cnt(n - 1); }}\n{VAR} c0 = cnt;\n{FUN} loud(n) {{ calls = calls + 1; {RET} c0(n); }}\ncnt = loud;\n{P} cnt(3);\n{P} calls;\n{FUN} cnt2(n) {{ {IF} ({FALSE}) {{ {P} "dead"; }} {RET} n == 0 || cnt2(n - 1); }}\n{VAR} c2 = cnt2;\n{FUN} loud2(n) {{ calls = calls + 10; {RET} c2(n); }}\ncnt2 = loud2;\n{P} cnt2(3);\n{P} calls;\n'
    E['own-name-redeclared-in-body'] = f'{FUN} total(a, b) {{ {VAR} sum = a + b; {P} "before"; {VAR} total = sum * 2; {P} "not reached"; {RET} total; }}\n{P} total(1, 2);\n{P} "after";\n'
    E['own-name-assigned-in-body'] = f'{FUN} once() {{ once = 5; {RET} "first"; }}\n{P} once();\n{P} once();\n{P} once;\n{FUN} again() {{ {VAR} keep = again; again = nil; {RET} keep; }}\n{VAR} a1 = again();\n{P} a1 == again;\n{P} again;\n{P} a1() == a1;\n'
    E['own-name-as-parameter'] = f'{FUN} f(f) {{ {RET} f + 1; }}\n{P} f(1);\n{FUN} g(x, g) {{ {RET} [x, g]; }}\n{P} g(1, 2);\n{P} g;\n'
    E['own-name-shadowed-by-local-function'] = f'{FUN} outer() {{ {FUN} outer2() {{ {RET} outer; }} {RET} outer2() == outer; }}\n{P} outer();\n{VAR} o = outer;\nouter = 1;\n{P} o();\n'
    # --- names declared after the closure that uses them exists
    E['closure-sees-later-declaration'] = f'{VAR} FS = [];\n{{\n  {{ {FUN} peek() {{ {RET} late; }} FS = {N["append"]}(FS, peek); }}\n  {VAR} late = 5;\n  {VAR} h = FS[0];\n  {P} h();\n  late = 6;\n}}\n{VAR} h2 = FS[0];\n{P} h2();\n'
    E['closure-sees-later-declaration-in-function'] = f'{FUN} mk() {{ {{ {FUN} get() {{ {RET} v; }} {VAR} unused = 0; }} {IF} ({TRUE}) {{ {FUN} get2() {{ {RET} v + 1; }} {VAR} v = 10; {RET} get2; }} }}\n{VAR} g = mk();\n{P} g();\n{VAR} v = 100;\n{{ {{ {FUN} gv() {{ {RET} v; }} {P} gv(); }} {VAR} v = 7; }}\n'
    E['block-without-declarations'] = f'{VAR} x = 1;\n{{ {{ x = x + 1; {FUN} inc() {{ x = x + 10; {RET} x; }} {P} inc(); }} {P} x; {VAR} x = 50; {P} x; }}\n{P} x;\n'
    # --- the same call expression re-entered from one of its own arguments
    E['recursion-in-second-argument'] = f'{FUN} add(a, b) {{ {RET} a + b; }}\n{FUN} sum(n) {{ {IF} (n == 0) {{ {RET} 0; }} {RET} add(n, sum(n - 1)); }}\n{P} sum(3);\n{P} sum(10);\n{FUN} fib(n) {{ {IF} (n < 2) {{ {RET} n; }} {RET} add(fib(n - 1), fib(n - 2)); }}\n{P} fib(10);\n'
    E['recursion-in-later-argument-of-builtin'] = f'{VAR} row = [3, 9, 4, 7, 1];\n{FUN} biggest(i) {{ {IF} (i == {N["len"]}(row) - 1) {{ {RET} row[i]; }} {RET} {N["max"]}(row[i], biggest(i + 1)); }}\n{P} biggest(0);\n{FUN} pair(a, b) {{ {RET} [a, b]; }}\n{FUN} nest(n) {{ {IF} (n == 0) {{ {RET} "leaf"; }} {RET} pair(n, nest(n - 1)); }}\n{P} nest(3);\n'
    E['ackermann'] = f'{FUN} ack(m, n) {{ {IF} (m == 0) {{ {RET} n + 1; }} {IF} (n == 0) {{ {RET} ack(m - 1, 1); }} {RET} ack(m - 1, ack(m, n - 1)); }}\n{P} ack(2, 2);\n{P} ack(2, 3);\n'
    E['arguments-survive-inner-call'] = f'{FUN} three(a, b, c) {{ {RET} [a, b, c]; }}\n{FUN} deep(n) {{ {IF} (n == 0) {{ {RET} three("x", "y", "z"); }} {RET} three(n, deep(n - 1), n * 10); }}\n{P} deep(2);\n'
    # --- the increment of a `ফর` loop runs after a round that ended normally or by continue, and only then
    E['increment-with-effects'] = (f'{VAR} LOG = [];\n{VAR} G = 0;\n{FUN} find(n) {{ {FOR} ({VAR} j = 0; j < 5; LOG = {N["append"]}(LOG, j = j + 1)) {{ {IF} (j == n) {{ {RET} j; }} {IF} (j == 1) {{ {CONT}; }} G = G + 1; }} {RET} 0 - 1; }}\n'
                                   f'{P} find(2);\n{P} LOG;\n{P} G;\n{P} find(9);\n{P} LOG;\n{FUN} stop(n) {{ {FOR} ({VAR} j = 0; j < 5; G = G + 100) {{ {IF} (j == n) {{ {BRK}; }} j = j + 1; }} {RET} n; }}\n{P} stop(2);\n{P} G;\n'
                                   f'{FUN} nested(n) {{ {FOR} ({VAR} a = 0; a < 3; G = G + 1000) {{ {FOR} ({VAR} b = 0; b < 3; G = G + 10000) {{ {IF} (a + b == n) {{ {RET} [a, b]; }} b = b + 1; }} a = a + 1; }} {RET} nil; }}\n{P} nested(3);\n{P} G;\n')
    E['increment-that-fails'] = f'{FUN} f() {{ {FOR} ({VAR} j = 0; j < 3; j = j + nosuch) {{ {RET} "returned"; }} {RET} "fell out"; }}\n{P} f();\n{FUN} g() {{ {FOR} ({VAR} j = 0; j < 3; j = j + nosuch) {{ {BRK}; }} {RET} "broke"; }}\n{P} g();\n{P} "end";\n'
    return [(k, v) for k, v in E.items()]

def reexec_programs(tier='quick'):
    out = list(extra_programs())
    Bs, Cs = bodies(), contexts()
    for cn, ctx in Cs.items():
        for bn, body in Bs.items():
            src = PRE + ctx.replace('{B}', body) + POST
            out.append((f'{cn} x {bn}', src))
    if tier == 'thorough':
        # two bodies in one context (state kept by one construct observed through another)
        names = list(Bs)
        for cn in ('called-twice', 'for-loop-run-twice', 'recursion-through-for', 'factory-twice'):
            for i, b1 in enumerate(names):
                for b2 in names[i + 1:]:
                    if 'closure' in b1 and 'closure' in b2:
                        continue     # both declare `g` in the same scope
                    if {b1, b2} & {'redeclare-error-guarded'}:
                        continue
                    body = '{ ' + Bs[b1] + ' } { ' + Bs[b2] + ' }'
                    out.append((f'{cn} x {b1} + {b2}', PRE + Cs[cn].replace('{B}', body) + POST))
    return out
