package difffuzz

import (
	"bufio"
	"encoding/hex"
	"os"
	"testing"
)

func silence() func() {
	devnull, _ := os.OpenFile(os.DevNull, os.O_WRONLY, 0)
	so, se := os.Stdout, os.Stderr
	os.Stdout, os.Stderr = devnull, devnull
	return func() { os.Stdout, os.Stderr = so, se; devnull.Close() }
}

// FuzzFront: coverage-guided search for a text on which the current front end and the blessed one differ
func FuzzFront(f *testing.F) {
	if fh, err := os.Open("testdata/seeds.hex"); err == nil {
		sc := bufio.NewScanner(fh)
		sc.Buffer(make([]byte, 1<<20), 1<<24)
		for sc.Scan() {
			if b, err := hex.DecodeString(sc.Text()); err == nil && len(b) < 4000 {
				f.Add(string(b))
			}
		}
		fh.Close()
	}
	f.Fuzz(func(t *testing.T, src string) {
		if len(src) > 6000 {
			return
		}
		restore := silence()
		a := FrontCurrent(src)
		b := FrontBlessed(src)
		restore()
		if a != b {
			t.Fatalf("DIFF %s", hex.EncodeToString([]byte(src)))
		}
	})
}
