import BornoModel.Grammar
/-!
# ParseSound — whatever the expression parser returns is the rendering of its tree

For every fuel and every token list: if a parsing function returns a tree and a rest, then the
tokens it consumed are exactly `rExpr tree` (the grammar's rendering), and the rest is a suffix.
-/
namespace Borno.Parser
open Borno Grammar

theorem bind_ok {α β : Type} {r : PR α} {k : α → List Token → PR β} {b : β} {rest : List Token}
    (h : r.bind k = .ok b rest) : ∃ a r1, r = .ok a r1 ∧ k a r1 = .ok b rest := by
  cases r with
  | ok a r1 => exact ⟨a, r1, rfl, h⟩
  | err d => cases h
  | abn x => cases h

theorem peek_ok {α : Type} {ts : List Token} {k : Token → List Token → PR α} {b : α} {rest : List Token}
    (h : peekTok ts k = .ok b rest) : ∃ t r, ts = t :: r ∧ k t r = .ok b rest := by
  cases ts with
  | nil => cases h
  | cons t r => exact ⟨t, r, rfl, h⟩

theorem expect_ok {tt : TT} {msg : String} {ts : List Token} {t : Token} {r : List Token}
    (h : expectTok tt msg ts = .ok t r) : ts = t :: r ∧ t.tt = tt := by
  unfold expectTok at h
  cases ts with
  | nil => cases h
  | cons t' r' =>
    simp only [peekTok] at h
    by_cases ht : t'.tt = tt
    · simp only [ht, if_true] at h; cases h; exact ⟨rfl, ht⟩
    · simp only [ht, if_false] at h; cases h

/-- invert `r.bind k = ok …` in hypothesis `h`: names for the intermediate value, rest and equation -/
macro "ibind " h:ident a:ident r:ident h0:ident : tactic =>
  `(tactic| (have hx := bind_ok $h; clear $h
             refine Exists.elim hx (fun $a hx2 => Exists.elim hx2 (fun $r hx3 => And.elim (fun $h0 $h => ?_) hx3))
             clear hx; try (dsimp only at $h:ident)))

/-- invert `peekTok ts k = ok …` in hypothesis `h`: the list is `t :: r` -/
macro "ipeek " h:ident t:ident r:ident : tactic =>
  `(tactic| (have hx := peek_ok $h; clear $h
             refine Exists.elim hx (fun $t hx2 => Exists.elim hx2 (fun $r hx3 => And.elim (fun heq $h => ?_) hx3))
             clear hx; subst heq; try (dsimp only at $h:ident)))

def AllWf (ts : List Token) : Prop := ∀ t ∈ ts, TokWf t

theorem AllWf.tail {t : Token} {r : List Token} (h : AllWf (t :: r)) : AllWf r := fun x hx => h x (List.mem_cons_of_mem _ hx)
theorem AllWf.suffix {pre r : List Token} (h : AllWf (pre ++ r)) : AllWf r := fun x hx => h x (List.mem_append_right _ hx)

theorem rtok_kw (t : Token) (h1 : t.tt ≠ .IDENTIFIER) (h2 : t.tt ≠ .NUMBER) (h3 : t.tt ≠ .STRING) : rtok t = kw t.tt := by
  simp [rtok, kw, h1, h2, h3]

theorem rtok_ident (t : Token) (h : t.tt = .IDENTIFIER) : rtok t = idt t.lexeme := by
  simp [rtok, idt, h]

theorem ladder_ops_plain : ∀ l ∈ Expect.ladder, ∀ tt ∈ l.ops, tt ≠ TT.IDENTIFIER ∧ tt ≠ TT.NUMBER ∧ tt ≠ TT.STRING := by decide

theorem levelOps_plain (k : Nat) (tt : TT) (h : (levelOps k).contains tt = true) :
    tt ≠ .IDENTIFIER ∧ tt ≠ .NUMBER ∧ tt ≠ .STRING := by
  unfold levelOps at h
  cases hl : Expect.ladder[k]? with
  | none => simp [hl] at h
  | some l =>
    simp only [hl] at h
    exact ladder_ops_plain l (List.mem_of_getElem? hl) tt (by simpa using h)

theorem unaryOps_plain (tt : TT) (h : Expect.unaryOps.contains tt = true) :
    tt ≠ .IDENTIFIER ∧ tt ≠ .NUMBER ∧ tt ≠ .STRING := by
  have : ∀ x ∈ Expect.unaryOps, x ≠ TT.IDENTIFIER ∧ x ≠ TT.NUMBER ∧ x ≠ TT.STRING := by decide
  exact this tt (by simpa using h)

theorem rExpr_mkBin (k : Nat) (l r : Expr) (t : Token) : rExpr (mkBin k l t r) = rExpr l ++ kw t.tt :: rExpr r := by
  unfold mkBin
  cases levelNode k <;> simp [rExpr]

structure SoundE (f : Nat) : Prop where
  asg : ∀ ts e r, AllWf ts → assignment f ts = .ok e r → ∃ pre, ts = pre ++ r ∧ pre.map rtok = rExpr e
  lvl : ∀ k ts e r, AllWf ts → binLevel f k ts = .ok e r → ∃ pre, ts = pre ++ r ∧ pre.map rtok = rExpr e
  loop : ∀ k l ts e r, AllWf ts → binLoop f k l ts = .ok e r → ∃ pre, ts = pre ++ r ∧ rExpr l ++ pre.map rtok = rExpr e
  un : ∀ ts e r, AllWf ts → unary f ts = .ok e r → ∃ pre, ts = pre ++ r ∧ pre.map rtok = rExpr e
  suf : ∀ e0 ts e r, AllWf ts → suffix f e0 ts = .ok e r → ∃ pre, ts = pre ++ r ∧ rExpr e0 ++ pre.map rtok = rExpr e
  lst : ∀ ts es r, AllWf ts → exprList f ts = .ok es r → ∃ pre, ts = pre ++ r ∧ pre.map rtok = rList es ∧ es ≠ []
  obj : ∀ ts ps r, AllWf ts → objProps f ts = .ok ps r →
      ∃ pre, ts = pre ++ r ∧ pre.map rtok = rProps ps.1 ++ (if ps.2 then [kw .COMMA] else []) ∧ (ps.1 = [] → ps.2 = false)
  prim : ∀ ts e r, AllWf ts → primary f ts = .ok e r → ∃ pre, ts = pre ++ r ∧ pre.map rtok = rExpr e

theorem rList_cons_cons (a b : Expr) (es : List Expr) : rList (a :: b :: es) = rExpr a ++ kw .COMMA :: rList (b :: es) := by
  simp [rList]

theorem rList_single (a : Expr) : rList [a] = rExpr a := by simp [rList]

theorem rList_cons_ne (a : Expr) (es : List Expr) (h : es ≠ []) : rList (a :: es) = rExpr a ++ kw .COMMA :: rList es := by
  cases es with
  | nil => exact absurd rfl h
  | cons b es => exact rList_cons_cons a b es

theorem rProps_cons_ne (k : Name) (e : Expr) (ps : List (Name × Expr)) (h : ps ≠ []) :
    rProps ((k, e) :: ps) = idt k :: kw .COLON :: rExpr e ++ kw .COMMA :: rProps ps := by
  cases ps with
  | nil => exact absurd rfl h
  | cons p ps => simp [rProps]

theorem rProps_single (k : Name) (e : Expr) : rProps [(k, e)] = idt k :: kw .COLON :: rExpr e := by simp [rProps]

theorem soundE : ∀ f, SoundE f := by
  intro f
  induction f with
  | zero =>
    refine ⟨?_, ?_, ?_, ?_, ?_, ?_, ?_, ?_⟩ <;> intros <;> rename_i h
    · rw [assignment] at h; cases h
    · rw [binLevel] at h; cases h
    · rw [binLoop] at h; cases h
    · rw [unary] at h; cases h
    · rw [suffix] at h; cases h
    · rw [exprList] at h; cases h
    · rw [objProps] at h; cases h
    · rw [primary] at h; cases h
  | succ f ih =>
    refine ⟨?_, ?_, ?_, ?_, ?_, ?_, ?_, ?_⟩
    · -- assignment
      intro ts e r hw h
      rw [assignment] at h
      ibind h e0 r0 h0
      obtain ⟨p0, rfl, hp0⟩ := ih.lvl 0 ts e0 r0 hw h0
      ipeek h t r1
      by_cases ht : t.tt = .EQUAL
      · simp only [ht, if_true] at h
        ibind h v r2 hv
        obtain ⟨p1, rfl, hp1⟩ := ih.asg r1 v r2 (AllWf.tail (AllWf.suffix hw)) hv
        have hteq : rtok t = kw .EQUAL := by rw [rtok_kw t (by simp [ht]) (by simp [ht]) (by simp [ht]), ht]
        cases e0 <;> simp only at h <;> try (cases h)
        · rename_i n l
          simp only [rExpr] at hp0
          exact ⟨p0 ++ t :: p1, by simp, by simp [rExpr, hp0, hp1, hteq]⟩
        · rename_i a i l
          simp only [rExpr] at hp0
          exact ⟨p0 ++ t :: p1, by simp, by simp [rExpr, hp0, hp1, hteq]⟩
        · rename_i o p l
          simp only [rExpr] at hp0
          exact ⟨p0 ++ t :: p1, by simp, by simp [rExpr, hp0, hp1, hteq]⟩
      · simp only [ht, if_false] at h
        cases h
        exact ⟨p0, rfl, hp0⟩
    · -- binLevel
      intro k ts e r hw h
      rw [binLevel] at h
      by_cases hk : k < nLevels
      · simp only [hk, if_true] at h
        ibind h l r0 hl
        obtain ⟨p0, rfl, hp0⟩ := ih.lvl (k + 1) ts l r0 hw hl
        obtain ⟨p1, rfl, hp1⟩ := ih.loop k l r0 e r (AllWf.suffix hw) h
        exact ⟨p0 ++ p1, by simp, by rw [List.map_append, hp0]; exact hp1⟩
      · simp only [hk, if_false] at h
        exact ih.un ts e r hw h
    · -- binLoop
      intro k l ts e r hw h
      rw [binLoop] at h
      ipeek h t r0
      by_cases ht : (levelOps k).contains t.tt = true
      · simp only [ht, if_true] at h
        ibind h right r2 hr
        obtain ⟨p0, rfl, hp0⟩ := ih.lvl (k + 1) r0 right r2 (AllWf.tail hw) hr
        obtain ⟨p1, rfl, hp1⟩ := ih.loop k (mkBin k l t right) r2 e r (AllWf.suffix (AllWf.tail hw)) h
        obtain ⟨q1, q2, q3⟩ := levelOps_plain k t.tt ht
        refine ⟨t :: p0 ++ p1, by simp, ?_⟩
        rw [← hp1, rExpr_mkBin]
        simp [rtok_kw t q1 q2 q3, hp0]
      · simp only [ht, if_false] at h
        cases h
        exact ⟨[], rfl, by simp⟩
    · -- unary
      intro ts e r hw h
      rw [unary] at h
      ipeek h t r0
      by_cases ht : Expect.unaryOps.contains t.tt = true
      · simp only [ht, if_true] at h
        ibind h e1 r2 he
        cases h
        obtain ⟨p0, rfl, hp0⟩ := ih.un r0 e1 r (AllWf.tail hw) he
        obtain ⟨q1, q2, q3⟩ := unaryOps_plain t.tt ht
        exact ⟨t :: p0, rfl, by simp [rExpr, rtok_kw t q1 q2 q3, hp0]⟩
      · simp only [ht, if_false] at h
        ibind h e1 r2 he
        obtain ⟨p0, hts, hp0⟩ := ih.prim (t :: r0) e1 r2 hw he
        rw [hts] at hw
        obtain ⟨p1, rfl, hp1⟩ := ih.suf e1 r2 e r (AllWf.suffix hw) h
        exact ⟨p0 ++ p1, by rw [hts]; simp, by rw [List.map_append, hp0]; exact hp1⟩
    · -- suffix
      intro e0 ts e r hw h
      rw [suffix] at h
      ipeek h t r0
      by_cases h1 : t.tt = .LEFT_PAREN
      · simp only [h1, if_true] at h
        have ht : rtok t = kw .LEFT_PAREN := by rw [rtok_kw t (by simp [h1]) (by simp [h1]) (by simp [h1]), h1]
        ipeek h t2 r2
        by_cases h2 : t2.tt = .RIGHT_PAREN
        · simp only [h2, if_true] at h
          have ht2 : rtok t2 = kw .RIGHT_PAREN := by rw [rtok_kw t2 (by simp [h2]) (by simp [h2]) (by simp [h2]), h2]
          obtain ⟨p1, rfl, hp1⟩ := ih.suf _ r2 e r (AllWf.tail (AllWf.tail hw)) h
          refine ⟨t :: t2 :: p1, rfl, ?_⟩
          rw [← hp1]; simp [rExpr, rList, ht, ht2]
        · simp only [h2, if_false] at h
          ibind h args r3 ha
          obtain ⟨p0, hts, hp0, _⟩ := ih.lst (t2 :: r2) args r3 (AllWf.tail hw) ha
          ibind h t3 r4 h3
          obtain ⟨rfl, h3t⟩ := expect_ok h3
          have ht3 : rtok t3 = kw .RIGHT_PAREN := by rw [rtok_kw t3 (by simp [h3t]) (by simp [h3t]) (by simp [h3t]), h3t]
          have hw4 : AllWf r4 := by
            have : AllWf (p0 ++ t3 :: r4) := by rw [← hts]; exact AllWf.tail hw
            exact AllWf.tail (AllWf.suffix this)
          obtain ⟨p1, rfl, hp1⟩ := ih.suf _ r4 e r hw4 h
          refine ⟨t :: p0 ++ t3 :: p1, by rw [hts]; simp, ?_⟩
          rw [← hp1]; simp [rExpr, ht, ht3, hp0]
      · simp only [h1, if_false] at h
        by_cases h2 : t.tt = .LEFT_BRACKET
        · simp only [h2, if_true] at h
          have ht : rtok t = kw .LEFT_BRACKET := by rw [rtok_kw t (by simp [h2]) (by simp [h2]) (by simp [h2]), h2]
          ibind h i r2 hi
          obtain ⟨p0, rfl, hp0⟩ := ih.asg r0 i r2 (AllWf.tail hw) hi
          ibind h t2 r3 h3
          obtain ⟨rfl, h3t⟩ := expect_ok h3
          have ht2 : rtok t2 = kw .RIGHT_BRACKET := by rw [rtok_kw t2 (by simp [h3t]) (by simp [h3t]) (by simp [h3t]), h3t]
          obtain ⟨p1, rfl, hp1⟩ := ih.suf _ r3 e r (AllWf.tail (AllWf.suffix (AllWf.tail hw))) h
          refine ⟨t :: p0 ++ t2 :: p1, by simp, ?_⟩
          rw [← hp1]; simp [rExpr, ht, ht2, hp0]
        · simp only [h2, if_false] at h
          by_cases h3 : t.tt = .DOT
          · simp only [h3, if_true] at h
            have ht : rtok t = kw .DOT := by rw [rtok_kw t (by simp [h3]) (by simp [h3]) (by simp [h3]), h3]
            ibind h t2 r2 h4
            obtain ⟨rfl, h4t⟩ := expect_ok h4
            obtain ⟨p1, rfl, hp1⟩ := ih.suf _ r2 e r (AllWf.tail (AllWf.tail hw)) h
            refine ⟨t :: t2 :: p1, rfl, ?_⟩
            rw [← hp1]; simp [rExpr, ht, rtok_ident t2 h4t]
          · simp only [h3, if_false] at h
            cases h
            exact ⟨[], rfl, by simp⟩
    · -- exprList
      intro ts es r hw h
      rw [exprList] at h
      ibind h a r0 ha
      obtain ⟨p0, rfl, hp0⟩ := ih.asg ts a r0 hw ha
      ipeek h t r2
      by_cases ht : t.tt = .COMMA
      · simp only [ht, if_true] at h
        ibind h rest r3 hr
        cases h
        obtain ⟨p1, rfl, hp1, hne⟩ := ih.lst r2 rest r (AllWf.tail (AllWf.suffix hw)) hr
        have htc : rtok t = kw .COMMA := by rw [rtok_kw t (by simp [ht]) (by simp [ht]) (by simp [ht]), ht]
        exact ⟨p0 ++ t :: p1, by simp, by rw [rList_cons_ne a rest hne]; simp [hp0, hp1, htc], by simp⟩
      · simp only [ht, if_false] at h
        cases h
        exact ⟨p0, rfl, by rw [rList_single]; exact hp0, by simp⟩
    · -- objProps
      intro ts ps r hw h
      rw [objProps] at h
      ipeek h t r0
      by_cases hend : (t.tt = .RIGHT_BRACE || t.tt = .EOF) = true
      · simp only [hend, if_true] at h
        cases h
        exact ⟨[], rfl, by simp [rProps], fun _ => rfl⟩
      · simp only [hend, if_false] at h
        ibind h tn rn hn
        obtain ⟨hcons, hnt⟩ := expect_ok hn
        cases hcons
        ibind h tc r1 hc
        obtain ⟨rfl, hct⟩ := expect_ok hc
        ibind h v r2 hv
        obtain ⟨p0, rfl, hp0⟩ := ih.asg r1 v r2 (AllWf.tail (AllWf.tail hw)) hv
        ipeek h t2 r3
        have htn : rtok t = idt t.lexeme := rtok_ident t hnt
        have htcol : rtok tc = kw .COLON := by rw [rtok_kw tc (by simp [hct]) (by simp [hct]) (by simp [hct]), hct]
        by_cases h2 : t2.tt = .COMMA
        · simp only [h2, if_true] at h
          ibind h ps' r4 hp
          try dsimp only at h
          cases h
          have hw3 : AllWf r3 := AllWf.tail (AllWf.suffix (AllWf.tail (AllWf.tail hw)))
          obtain ⟨p1, rfl, hp1, hflag⟩ := ih.obj r3 ps' r hw3 hp
          have ht2 : rtok t2 = kw .COMMA := by rw [rtok_kw t2 (by simp [h2]) (by simp [h2]) (by simp [h2]), h2]
          refine ⟨t :: tc :: p0 ++ t2 :: p1, by simp, ?_, by simp⟩
          by_cases hemp : ps'.1 = []
          · have hf := hflag hemp
            simp only [hemp, hf] at hp1
            simp [hemp, rProps_single, htn, htcol, hp0, ht2, hp1, rProps]
          · have : ps'.1.isEmpty = false := by cases h' : ps'.1 <;> simp_all
            simp only [this]
            rw [rProps_cons_ne _ _ _ hemp]
            simp [htn, htcol, hp0, ht2, hp1]
        · simp only [h2, if_false] at h
          cases h
          exact ⟨t :: tc :: p0, by simp, by simp [rProps_single, htn, htcol, hp0], by simp⟩
    · -- primary
      intro ts e r hw h
      rw [primary] at h
      ipeek h t r0
      have hwt : TokWf t := hw t (by simp)
      have plain : ∀ tt, t.tt = tt → tt ≠ .IDENTIFIER → tt ≠ .NUMBER → tt ≠ .STRING → rtok t = kw tt := by
        intro tt h1 h2 h3 h4; rw [← h1] at h2 h3 h4 ⊢; exact rtok_kw t h2 h3 h4
      split at h
      · rename_i hf; cases h; exact ⟨[t], rfl, by simp [rExpr, rLit, plain _ hf (by simp) (by simp) (by simp)]⟩
      · rename_i hf; cases h; exact ⟨[t], rfl, by simp [rExpr, rLit, plain _ hf (by simp) (by simp) (by simp)]⟩
      · rename_i hf; cases h; exact ⟨[t], rfl, by simp [rExpr, rLit, plain _ hf (by simp) (by simp) (by simp)]⟩
      · rename_i hf; cases h
        obtain ⟨x, hx⟩ := hwt.1 hf
        exact ⟨[t], rfl, by simp [rExpr, rLit, rtok, hf, hx, litOf]⟩
      · rename_i hf; cases h
        obtain ⟨x, hx⟩ := hwt.2 hf
        exact ⟨[t], rfl, by simp [rExpr, rLit, rtok, hf, hx, litOf]⟩
      · rename_i hf; cases h; exact ⟨[t], rfl, by simp [rExpr, rtok_ident t hf]⟩
      · rename_i hf
        ibind h e1 r2 he
        obtain ⟨p0, rfl, hp0⟩ := ih.asg r0 e1 r2 (AllWf.tail hw) he
        ibind h t2 r3 h3
        obtain ⟨rfl, h3t⟩ := expect_ok h3
        cases h
        have ht2 : rtok t2 = kw .RIGHT_PAREN := by rw [rtok_kw t2 (by simp [h3t]) (by simp [h3t]) (by simp [h3t]), h3t]
        exact ⟨t :: p0 ++ [t2], by simp, by simp [rExpr, plain _ hf (by simp) (by simp) (by simp), hp0, ht2]⟩
      · rename_i hf
        have ht : rtok t = kw .LEFT_BRACKET := plain _ hf (by simp) (by simp) (by simp)
        ipeek h t2 r2
        by_cases h2 : t2.tt = .RIGHT_BRACKET
        · simp only [h2, if_true] at h
          cases h
          have ht2 : rtok t2 = kw .RIGHT_BRACKET := by rw [rtok_kw t2 (by simp [h2]) (by simp [h2]) (by simp [h2]), h2]
          exact ⟨[t, t2], rfl, by simp [rExpr, rList, ht, ht2]⟩
        · simp only [h2, if_false] at h
          ibind h es r3 hes
          obtain ⟨p0, hts, hp0, _⟩ := ih.lst (t2 :: r2) es r3 (AllWf.tail hw) hes
          ibind h t3 r4 h3
          obtain ⟨rfl, h3t⟩ := expect_ok h3
          cases h
          have ht3 : rtok t3 = kw .RIGHT_BRACKET := by rw [rtok_kw t3 (by simp [h3t]) (by simp [h3t]) (by simp [h3t]), h3t]
          exact ⟨t :: p0 ++ [t3], by rw [hts]; simp, by simp [rExpr, ht, ht3, hp0]⟩
      · rename_i hf
        have ht : rtok t = kw .LEFT_BRACE := plain _ hf (by simp) (by simp) (by simp)
        ibind h ps r2 hps
        obtain ⟨p0, rfl, hp0, _⟩ := ih.obj r0 ps r2 (AllWf.tail hw) hps
        ibind h t3 r4 h3
        obtain ⟨rfl, h3t⟩ := expect_ok h3
        cases h
        have ht3 : rtok t3 = kw .RIGHT_BRACE := by rw [rtok_kw t3 (by simp [h3t]) (by simp [h3t]) (by simp [h3t]), h3t]
        exact ⟨t :: p0 ++ [t3], by simp, by simp [rExpr, ht, ht3, hp0]⟩
      · cases h

end Borno.Parser
