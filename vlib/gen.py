# Program trees, a renderer that follows the published ladder, and seeded generators.
# Trees are tuples; keywords are emitted by code point (vlib.core.KW).
from .core import KW, NAT, SplitMix64

# ---------------------------------------------------------------- ladder (documented)
LADDER = [
    ['||'], ['&&'], ['|'], ['^'], ['&'], ['!=', '=='], ['>', '>=', '<', '<='], ['<<', '>>'],
    ['-', '+'], ['/', '*', '%'], ['**'],
]
LEVEL = {op: i for i, ops in enumerate(LADDER) for op in ops}
NLEV = len(LADDER)          # binary levels 0..10; NLEV = unary; NLEV+1 = call/primary
UNARY = ['!', '-', '~']

def level_of(e):
    """the ladder level at which expression e can stand without parentheses"""
    k = e[0]
    if k == 'bin':
        return LEVEL[e[1]]
    if k == 'un':
        return NLEV
    if k == 'asg':
        return -1
    return NLEV + 1

class Style:
    def __init__(self, sp=' ', nl='\n', word_ops=False, digits='ascii'):
        self.sp, self.nl, self.word_ops, self.digits = sp, nl, word_ops, digits

PLAIN = Style()

def bn_digits(s):
    return ''.join(chr(0x09E6 + ord(c) - 48) if '0' <= c <= '9' else c for c in s)

def r_op(op, st):
    if st.word_ops and op == '&&':
        return KW['and']
    if st.word_ops and op == '||':
        return KW['or']
    return op

def r_expr(e, st=PLAIN, need=-1):
    """render e so that it parses back to e when an expression of level >= need is expected"""
    s = _r(e, st)
    if level_of(e) < need:
        return '(' + s + ')'
    return s

def _r(e, st):
    k = e[0]
    if k == 'num':
        return bn_digits(e[1]) if st.digits == 'bn' else e[1]
    if k == 'str':
        return '"' + e[1] + '"'
    if k in ('true', 'false', 'nil'):
        return KW[k]
    if k == 'id':
        return e[1]
    if k == 'grp':
        return '(' + r_expr(e[1], st) + ')'
    if k == 'un':
        inner = r_expr(e[2], st, NLEV)
        # `- -x` must not fuse; `--` is two MINUS tokens anyway, keep as is
        return e[1] + inner
    if k == 'bin':
        lv = LEVEL[e[1]]
        return r_expr(e[2], st, lv) + st.sp + r_op(e[1], st) + st.sp + r_expr(e[3], st, lv + 1)
    if k == 'call':
        return r_expr(e[1], st, NLEV + 1) + '(' + (',' + st.sp).join(r_expr(a, st) for a in e[2]) + ')'
    if k == 'arr':
        return '[' + (',' + st.sp).join(r_expr(a, st) for a in e[1]) + ']'
    if k == 'obj':
        return '{' + (',' + st.sp).join(n + ':' + st.sp + r_expr(v, st) for n, v in e[1]) + '}'
    if k == 'idx':
        return r_expr(e[1], st, NLEV + 1) + '[' + r_expr(e[2], st) + ']'
    if k == 'prop':
        return r_expr(e[1], st, NLEV + 1) + '.' + e[2]
    if k == 'asg':
        return r_expr(e[1], st, NLEV + 1) + st.sp + '=' + st.sp + r_expr(e[2], st)
    if k == 'raw':
        return e[1]
    raise ValueError(k)

def r_stmt(s, st=PLAIN, ind=''):
    k = s[0]
    if k == 'expr':
        e = s[1]
        txt = r_expr(e, st)
        if txt.lstrip().startswith('{'):        # `{` at statement start would open a block: the tree is an expression
            txt = '(' + txt + ')'
        return ind + txt + ';'
    if k == 'print':
        return ind + KW['print'] + ' ' + r_expr(s[1], st) + ';'
    if k == 'var':
        parts = [n + ('' if init is None else st.sp + '=' + st.sp + r_expr(init, st)) for n, init in s[1]]
        return ind + KW['var'] + ' ' + (',' + st.sp).join(parts) + ';'
    if k == 'block':
        return ind + '{' + st.nl + ''.join(r_stmt(x, st, ind + '  ') + st.nl for x in s[1]) + ind + '}'
    if k == 'if':
        out = ind + KW['if'] + st.sp + '(' + r_expr(s[1], st) + ')' + st.nl + r_stmt(s[2], st, ind + '  ')
        if s[3] is not None:
            out += st.nl + ind + KW['else'] + st.nl + r_stmt(s[3], st, ind + '  ')
        return out
    if k == 'while':
        return ind + KW['while'] + st.sp + '(' + r_expr(s[1], st) + ')' + st.nl + r_stmt(s[2], st, ind + '  ')
    if k == 'for':
        init, cond, inc, body = s[1], s[2], s[3], s[4]
        i = ';' if init is None else r_stmt(init, st, '')
        c = '' if cond is None else r_expr(cond, st)
        n = '' if inc is None else r_expr(inc, st)
        return ind + KW['for'] + st.sp + '(' + i + ' ' + c + '; ' + n + ')' + st.nl + r_stmt(body, st, ind + '  ')
    if k == 'break':
        return ind + KW['break'] + ';'
    if k == 'continue':
        return ind + KW['continue'] + ';'
    if k == 'return':
        return ind + KW['return'] + ('' if s[1] is None else ' ' + r_expr(s[1], st)) + ';'
    if k == 'fun':
        return (ind + KW['fun'] + ' ' + s[1] + '(' + (',' + st.sp).join(s[2]) + ')' + st.sp + '{' + st.nl +
                ''.join(r_stmt(x, st, ind + '  ') + st.nl for x in s[3]) + ind + '}')
    if k == 'raw':
        return ind + s[1]
    raise ValueError(k)

def r_prog(ss, st=PLAIN):
    return ''.join(r_stmt(s, st) + st.nl for s in ss)

# ---------------------------------------------------------------- helpers to build trees
def num(x): return ('num', str(x))
def s(x): return ('str', x)
def v(x): return ('id', x)
def b(op, l, r): return ('bin', op, l, r)
def call(f, *args): return ('call', v(f) if isinstance(f, str) else f, list(args))
def nat(name, *args): return ('call', v(NAT[name]), list(args))
def pr(e): return ('print', e)
def var(n, e=None): return ('var', [(n, e)])
def asg(t, e): return ('expr', ('asg', v(t) if isinstance(t, str) else t, e))
def blk(*ss): return ('block', list(ss))
T, F, NIL = ('true',), ('false',), ('nil',)

# ---------------------------------------------------------------- random, mostly-valid programs
NAMES = ['a', 'b', 'c', 'x', 'y', 'n', 'k', 'অ', 'ক', 'মান', 'ফল', 'তালিকা', 'v_1', 'ঙ২']
FNAMES = ['f', 'g', 'h', 'যোগ', 'গুণ', 'mk']
KEYS = ['p', 'q', 'r', 'নাম', 'k1']
STRS = ['', 'a', 'ab', 'abc', 'x y', '12', '3.5', '০৭', 'বাংলা', 'কী', '-', 'true', 'nil', 'e1', '1e2']
NUMS = ['0', '1', '2', '3', '7', '10', '0.5', '2.5', '100', '1000000', '123456', '0.001', '3.14', '64', '63', '9007199254740993', '4294967296']

class Scope:
    def __init__(self, parent=None):
        self.vars = {}          # name -> type hint
        self.parent = parent
    def lookup(self, n):
        sc = self
        while sc:
            if n in sc.vars:
                return sc.vars[n]
            sc = sc.parent
        return None
    def visible(self, want=None):
        out, seen, sc = [], set(), self
        while sc:
            for n, t in sc.vars.items():
                if n not in seen:
                    seen.add(n)
                    if want is None or t == want:
                        out.append(n)
            sc = sc.parent
        return out

class ProgGen:
    """grammar-based generator of terminating, mostly error-free programs; `err` is the
    per-mille rate at which a deliberately faulty construct is emitted"""
    def __init__(self, rng, err=20, use_natives=True, use_closures=True):
        self.rng, self.err = rng, err
        self.use_natives, self.use_closures = use_natives, use_closures
        self.counter = 0
        self.funs = {}           # name -> arity (globally visible function names)
        self.loop_depth = 0
        self.fun_depth = 0

    def fresh(self, base):
        self.counter += 1
        return f'{base}{self.counter}'

    # ---- expressions by type hint
    def e_num(self, sc, d):
        r = self.rng
        k = r.below(10 if d > 0 else 3)
        if k <= 1:
            return num(r.choice(NUMS))
        if k == 2:
            vs = sc.visible('num') + sc.visible('ctr')
            return v(r.choice(vs)) if vs else num(r.choice(NUMS))
        if k <= 5:
            op = r.choice(['+', '-', '*', '/', '%', '**'] if r.chance(1, 4) else ['+', '-', '*'])
            l, rr = self.e_num(sc, d - 1), self.e_num(sc, d - 1)
            if op in ('/', '%'):
                rr = b('+', ('un', '-', rr) if r.chance(1, 5) else rr, num('1')) if r.chance(1, 2) else num(r.choice(['2', '3', '0.5', '7']))
            if op == '**':
                rr = num(r.choice(['0', '1', '2', '3']))
                l = num(r.choice(['2', '3', '10', '0.5', '1']))
            return b(op, l, rr)
        if k == 6:
            return b(r.choice(['&', '|', '^', '<<', '>>']), num(r.below(200)), num(r.below(9)))
        if k == 7:
            return ('un', '-', self.e_num(sc, d - 1))
        if k == 8 and self.use_natives:
            f = r.choice(['abs', 'round', 'sqrt', 'min', 'max', 'len'])
            if f == 'len':
                return nat('len', self.e_arr(sc, d - 1))
            if f in ('min', 'max'):
                return nat(f, *[self.e_num(sc, d - 1) for _ in range(1 + r.below(3))])
            if f == 'sqrt':
                return nat('sqrt', num(r.choice(['0', '1', '4', '2', '16', '0.25', '10'])))
            return nat(f, self.e_num(sc, d - 1))
        if k == 9:
            return ('grp', self.e_num(sc, d - 1))
        return num(r.choice(NUMS))

    def e_str(self, sc, d):
        r = self.rng
        k = r.below(6 if d > 0 else 2)
        if k == 0:
            return s(r.choice(STRS))
        if k == 1:
            vs = sc.visible('str')
            return v(r.choice(vs)) if vs else s(r.choice(STRS))
        if k <= 3:
            return b('+', self.e_str(sc, d - 1), self.e_str(sc, d - 1) if r.chance(1, 2) else self.e_num(sc, d - 1))
        if k == 4:
            return b('+', self.e_num(sc, d - 1), self.e_str(sc, d - 1))
        return ('grp', self.e_str(sc, d - 1))

    def e_bool(self, sc, d):
        r = self.rng
        k = r.below(8 if d > 0 else 2)
        if k == 0:
            return r.choice([T, F])
        if k == 1:
            vs = sc.visible('bool')
            return v(r.choice(vs)) if vs else r.choice([T, F])
        if k <= 3:
            return b(r.choice(['<', '<=', '>', '>=']), self.e_num(sc, d - 1), self.e_num(sc, d - 1))
        if k == 4:
            t = r.choice(['num', 'str', 'bool', 'any'])
            return b(r.choice(['==', '!=']), self.e_any(sc, d - 1, t), self.e_any(sc, d - 1, t))
        if k == 5:
            return ('un', '!', self.e_any(sc, d - 1))
        if k == 6:
            return b(r.choice(['&&', '||']), self.e_bool(sc, d - 1), self.e_bool(sc, d - 1))
        return ('grp', self.e_bool(sc, d - 1))

    def e_arr(self, sc, d):
        r = self.rng
        k = r.below(5 if d > 0 else 2)
        if k == 0 or (k == 1 and not sc.visible('arr')):
            return ('arr', [self.e_any(sc, d - 1) for _ in range(r.below(4))])
        if k == 1:
            return v(r.choice(sc.visible('arr')))
        if k == 2 and self.use_natives:
            return nat('append', self.e_arr(sc, d - 1), *[self.e_any(sc, d - 1) for _ in range(1 + r.below(2))])
        if k == 3 and self.use_natives:
            return nat('keys', self.e_obj(sc, d - 1))
        return ('arr', [self.e_num(sc, d - 1) for _ in range(1 + r.below(3))])

    def e_obj(self, sc, d):
        r = self.rng
        vs = sc.visible('obj')
        if vs and r.chance(1, 2):
            return v(r.choice(vs))
        ks = []
        for _ in range(r.below(4)):
            k = r.choice(KEYS)
            if k not in [x for x, _ in ks] or r.chance(1, 10):
                ks.append((k, self.e_any(sc, d - 1)))
        return ('obj', ks)

    def e_any(self, sc, d, t=None):
        r = self.rng
        if d < 0:
            d = 0
        if t is None or t == 'any':
            t = r.choice(['num', 'num', 'str', 'bool', 'arr', 'obj', 'nil', 'num', 'str'])
        if self.err and r.below(1000) < self.err:
            return self.e_fault(sc, d)
        if t == 'num':
            return self.e_num(sc, d)
        if t == 'str':
            return self.e_str(sc, d)
        if t == 'bool':
            return self.e_bool(sc, d)
        if t == 'arr':
            return self.e_arr(sc, d)
        if t == 'obj':
            return self.e_obj(sc, d)
        if t == 'fn':
            fs = [n for n in self.funs]
            return v(r.choice(fs)) if fs else NIL
        return NIL

    def e_fault(self, sc, d):
        r = self.rng
        k = r.below(9)
        if k == 0:
            return v('অজানা')                                    # undefined name
        if k == 1:
            return b('/', self.e_num(sc, d - 1), num('0'))
        if k == 2:
            return b('-', s('abc'), self.e_num(sc, d - 1))
        if k == 3:
            return ('idx', ('arr', [num('1'), num('2')]), num(r.choice(['2', '-1', '0.5', '99'])))
        if k == 4:
            return ('prop', ('obj', [('p', num('1'))]), 'zz')
        if k == 5:
            return call(('num', '3'))
        if k == 6:
            return nat('len', num('3'))
        if k == 7:
            return b('+', T, num('1'))
        return nat('sqrt')

    # ---- statements
    def stmts(self, sc, n, d):
        out = []
        for _ in range(n):
            out.extend(self.stmt(sc, d))
        return out

    def stmt(self, sc, d):
        r = self.rng
        k = r.below(20)
        if d <= 0:
            k = r.below(8)
        if k <= 2:       # declaration
            t = r.choice(['num', 'num', 'str', 'bool', 'arr', 'obj'])
            n = r.choice(NAMES)
            if n in sc.vars:
                if self.err and r.below(1000) < self.err:
                    return [var(n, self.e_any(sc, 2, t))]        # redeclaration fault
                return [asg(n, self.e_any(sc, 2, sc.vars[n]))]
            init = self.e_any(sc, 2, t)
            sc.vars[n] = t
            return [var(n, init)]
        if k <= 4:       # print
            return [pr(self.e_any(sc, 3))]
        if k == 5:       # assignment to visible variable, keeping its type
            vs = sc.visible()
            vs = [x for x in vs if sc.lookup(x) in ('num', 'str', 'bool', 'arr', 'obj')]
            if not vs:
                return [pr(self.e_any(sc, 2))]
            n = r.choice(vs)
            rhs = self.e_any(sc, 2, sc.lookup(n))
            if sc.lookup(n) == 'str':
                # a string may grow by a bounded amount per execution, never multiply: inside nested loops
                # `x = x + x` (or two strings feeding each other) makes the text exponentially long, which
                # only exercises the memory and time limits of the harness
                def var_uses(t):
                    if isinstance(t, tuple):
                        if len(t) == 2 and t[0] == 'id':
                            return 1 if sc.lookup(t[1]) in ('str', 'any', None) else 0
                        return sum(var_uses(x) for x in t[1:])
                    if isinstance(t, list):
                        return sum(var_uses(x) for x in t)
                    return 0
                if var_uses(rhs) > 1:
                    rhs = b('+', v(n), s(r.choice(STRS)))
            return [asg(n, rhs)]
        if k == 6:       # element / property update
            arrs, objs = sc.visible('arr'), sc.visible('obj')
            if arrs and r.chance(1, 2):
                a = r.choice(arrs)
                return [('expr', ('asg', ('idx', v(a), num('0')), self.e_any(sc, 1))) if False else
                        ('if', b('>', nat('len', v(a)), num('0')), ('expr', ('asg', ('idx', v(a), num('0')), self.e_any(sc, 1, r.choice(['num', 'str', 'bool'])))), None)]
            if objs:
                o = r.choice(objs)
                return [('expr', ('asg', ('prop', v(o), r.choice(KEYS)), self.e_any(sc, 1, r.choice(['num', 'str', 'bool']))))]
            return [pr(self.e_any(sc, 2))]
        if k == 7:
            if self.loop_depth > 0 and r.chance(1, 3):
                return [('if', self.e_bool(sc, 1), ('break',) if r.chance(1, 2) else ('continue',), None)]
            if self.fun_depth > 0 and r.chance(1, 2):
                return [('if', self.e_bool(sc, 1), ('return', self.e_any(sc, 1)), None)]
            return [pr(self.e_any(sc, 2))]
        if k <= 9:       # if
            inner = Scope(sc)
            th = ('block', self.stmts(inner, 1 + r.below(2), d - 1))
            el = None
            if r.chance(1, 2):
                el = ('block', self.stmts(Scope(sc), 1 + r.below(2), d - 1))
            return [('if', self.e_bool(sc, 2) if r.chance(3, 4) else self.e_any(sc, 1), th, el)]
        if k <= 11:      # for
            i = self.fresh('i')
            hdr = Scope(sc)
            hdr.vars[i] = 'ctr'
            self.loop_depth += 1
            body = ('block', self.stmts(Scope(hdr), 1 + r.below(3), d - 1))
            self.loop_depth -= 1
            return [('for', var(i, num('0')), b('<', v(i), num(1 + r.below(4))), ('asg', v(i), b('+', v(i), num('1'))), body)]
        if k == 12:      # while with a counter bumped first
            w = self.fresh('w')
            sc.vars[w] = 'ctr'
            self.loop_depth += 1
            inner = Scope(sc)
            body = [asg(w, b('+', v(w), num('1')))] + self.stmts(inner, 1 + r.below(2), d - 1)
            self.loop_depth -= 1
            return [var(w, num('0')), ('while', b('<', v(w), num(1 + r.below(3))), ('block', body))]
        if k == 13:      # block
            return [('block', self.stmts(Scope(sc), 1 + r.below(3), d - 1))]
        if k <= 15 and self.fun_depth < 2:     # function declaration + call
            fn = r.choice(FNAMES) + str(self.counter)
            self.counter += 1
            ps = [r.choice(NAMES) for _ in range(r.below(3))]
            ps = list(dict.fromkeys(ps))
            fs = Scope(sc)
            for p in ps:
                fs.vars[p] = 'num'
            self.fun_depth += 1
            ld, self.loop_depth = self.loop_depth, 0
            body = self.stmts(fs, 1 + r.below(3), d - 1)
            if r.chance(2, 3):
                body.append(('return', self.e_any(fs, 2, 'num')))
            self.loop_depth = ld
            self.fun_depth -= 1
            sc.vars[fn] = 'fn'
            self.funs[fn] = len(ps)
            outs = [('fun', fn, ps, body)]
            nargs = len(ps) if not (self.err and r.below(1000) < self.err) else len(ps) + 1
            outs.append(pr(call(fn, *[self.e_num(sc, 1) for _ in range(nargs)])))
            return outs
        if k == 16 and self.use_closures and self.fun_depth < 2:      # counter factory
            mk, c, inc = self.fresh('mk'), self.fresh('c'), self.fresh('inc')
            a1, a2 = self.fresh('ca'), self.fresh('cb')
            sc.vars[a1] = 'fn'; sc.vars[a2] = 'fn'; sc.vars[mk] = 'fn'
            body = [var(c, num(r.below(3))), ('fun', inc, [], [asg(c, b('+', v(c), num('1'))), ('return', v(c))]), ('return', v(inc))]
            calls = [pr(call(r.choice([a1, a2]))) for _ in range(1 + r.below(4))]
            return [('fun', mk, [], body), var(a1, call(mk)), var(a2, call(mk))] + calls
        if k == 17:      # call of a visible function
            fs = [n for n in self.funs if sc.lookup(n) == 'fn']
            if fs:
                fn = r.choice(fs)
                return [pr(call(fn, *[self.e_num(sc, 1) for _ in range(self.funs[fn])]))]
            return [pr(self.e_any(sc, 2))]
        if k == 18 and self.use_natives:
            objs = sc.visible('obj')
            if objs:
                o = r.choice(objs)
                return [pr(nat('keys', v(o))), pr(nat('values', v(o)))]
            return [pr(self.e_any(sc, 2, 'obj'))]
        return [('expr', self.e_any(sc, 2))]

    def program(self, n_stmts, depth=3):
        sc = Scope()
        return self.stmts(sc, n_stmts, depth)

def random_program(rng, n_stmts=8, depth=3, err=20, **kw):
    g = ProgGen(rng, err=err, **kw)
    return g.program(n_stmts, depth)
