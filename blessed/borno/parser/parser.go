package parser

import (
	"fmt"

	"blessedborno/ast"
	"blessedborno/token"
	"blessedborno/utils"
)

var reservedIdentifiers = map[string]bool{
	"ক্লক":         true,
	"লেন":          true,
	"এড":           true,
	"রিমুভ":        true,
	"কি_রিমুভ":     true,
	"অব্জেক্ট_কি":  true,
	"অব্জেক্ট_মান": true,
	"পরমমান":       true,
	"বর্গমূল":      true,
	"ঘাত":          true,
	"সাইন":         true,
	"কসাইন":        true,
	"ট্যান":        true,
	"সর্বনিম্ন":    true,
	"সর্বোচ্চ":     true,
	"রাউন্ড":       true,
	"input":        true,
	"ইনপুট":        true,
}

type ParseError struct {
	message string
}

func (e ParseError) Error() string {
	return e.message
}

type Parser struct {
	tokens  []token.Token
	current int
}

func NewParser(tokens []token.Token) *Parser {
	return &Parser{
		tokens: tokens,
	}
}

func (p *Parser) Parse() ([]ast.Stmt, error) {
	statments := []ast.Stmt{}

	for !p.isAtEnd() {
		stmt, err := p.declaration()
		if err != nil {
			return nil, err
		}
		statments = append(statments, stmt)
	}

	return statments, nil
}

func (p *Parser) declaration() (ast.Stmt, error) {
	if p.match(token.FUN) {
		return p.function("function")
	}
	if p.match(token.VAR) {
		return p.varDeclaration()
	}
	return p.statement()
}

func (p *Parser) varDeclaration() (ast.Stmt, error) {
	var declarations []ast.VarStmt
	initialLine := p.peek().Line // Track the line number at the start of the declaration

	for {
		// Parse the variable name
		name, err := p.consume(token.IDENTIFIER, "Expect variable name.")
		if err != nil {
			return nil, err
		}

		// Check if the name is a reserved identifier
		if _, isReserved := reservedIdentifiers[name.Lexeme]; isReserved {
			return nil, p.error(name, fmt.Sprintf("'%s' is a reserved identifier and cannot be used as a variable name.", name.Lexeme))
		}

		// Optional initializer
		var initializer ast.Expr
		if p.match(token.EQUAL) {
			val, err := p.expression()
			if err != nil {
				return nil, err
			}
			initializer = val
		}

		// Create a VarStmt for each variable
		declaration := &ast.VarStmt{Name: name, Initializer: initializer, Line: name.Line}
		declarations = append(declarations, *declaration)

		// Check for newline and semicolon before proceeding to the next variable,
		// but skip this check if the initializer is an object or array literal.
		switch initializer.(type) {
		case *ast.ObjectLiteral, *ast.ArrayLiteral:
			// Skip newline check for ObjectLiteral and ArrayLiteral
		default:
			if p.peek().Line != initialLine {
				return nil, p.error(p.peek(), "Expect ';' before newline.")
			}
		}

		// If no more commas, break out of the loop
		if !p.match(token.COMMA) {
			break
		}
	}

	// Ensure semicolon at the end of the declaration
	_, err := p.consume(token.SEMICOLON, "Expect ';' after variable declaration.")
	if err != nil {
		return nil, err
	}

	// If there's only one variable, return it directly
	if len(declarations) == 1 {
		return &declarations[0], nil
	}

	// If there are multiple variables, return a VarListStmt
	return &ast.VarListStmt{Declarations: declarations}, nil
}

func (p *Parser) statement() (ast.Stmt, error) {
	if p.match(token.IF) {
		return p.IfStatement()
	}
	if p.match(token.WHILE) {
		return p.while()
	}
	if p.match(token.FOR) {
		return p.forStatement()
	}
	if p.match(token.PRINT) {
		return p.printStatement()
	}
	if p.match(token.RETURN) {
		return p.returnStatement()
	}
	if p.match(token.BREAK) {
		_, err := p.consume(token.SEMICOLON, "Expected ; after break.")
		if err != nil {
			return nil, err
		}
		return &ast.BreakStmt{Line: p.previous().Line}, nil
	}
	if p.match(token.CONTINUE) {
		_, err := p.consume(token.SEMICOLON, "Expected ; after continue.")
		if err != nil {
			return nil, err
		}
		return &ast.ContinueStmt{Line: p.previous().Line}, nil
	}

	if p.match(token.LEFT_BRACE) {
		blocks, err := p.block()
		if err != nil {
			return nil, err
		}
		return &ast.BlockStmt{Block: blocks}, nil
	}

	return p.expressionStatement()
}

func (p *Parser) forStatement() (ast.Stmt, error) {
	_, err := p.consume(token.LEFT_PAREN, "Expect '(' after 'for'.")
	if err != nil {
		return nil, err
	}

	var initializer ast.Stmt
	if p.match(token.SEMICOLON) {
		initializer = nil
	} else if p.match(token.VAR) {
		initializer, err = p.varDeclaration()
		if err != nil {
			return nil, err
		}
	} else {
		initializer, err = p.expressionStatement()
		if err != nil {
			return nil, err
		}
	}
	var condition ast.Expr
	if !p.check(token.SEMICOLON) {
		condition, err = p.expression()
		if err != nil {
			return nil, err
		}
	}
	_, err = p.consume(token.SEMICOLON, "Expect ';' after loop condition.")
	if err != nil {
		return nil, err
	}

	var increment ast.Expr
	if !p.check(token.RIGHT_PAREN) {
		increment, err = p.expression()
		if err != nil {
			return nil, err
		}
	}
	_, err = p.consume(token.RIGHT_PAREN, "Expect ')' after for clauses.")
	if err != nil {
		return nil, err
	}

	body, err := p.statement()
	if err != nil {
		return nil, err
	}

	if condition == nil {
		condition = &ast.Literal{Value: true}
	}

	return &ast.ForStmt{Initializer: initializer, Condition: condition, Body: body, Increment: increment}, nil
}

func (p *Parser) while() (ast.Stmt, error) {
	_, err := p.consume(token.LEFT_PAREN, "Expect '(' after 'while'.")
	if err != nil {
		return nil, err
	}

	condition, err := p.expression()
	if err != nil {
		return nil, err
	}

	_, err = p.consume(token.RIGHT_PAREN, "Expect ')' after condition.")
	if err != nil {
		return nil, err
	}

	body, err := p.statement()
	if err != nil {
		return nil, err
	}

	return &ast.While{Condition: condition, Body: body}, nil
}

func (p *Parser) IfStatement() (ast.Stmt, error) {
	_, err := p.consume(token.LEFT_PAREN, "Expect '(' after 'if'.")
	if err != nil {
		return nil, err
	}
	condition, err := p.expression()
	if err != nil {
		return nil, err
	}
	_, err = p.consume(token.RIGHT_PAREN, "Expect ')' after if condition.")
	if err != nil {
		return nil, err
	}

	thenBranch, err := p.statement()
	if err != nil {
		return nil, err
	}
	var elseBranch ast.Stmt
	if p.match(token.ELSE) {
		v, err := p.statement()
		if err != nil {
			return nil, err
		}
		elseBranch = v
	}
	return &ast.IfStmt{Condition: condition, ThenBranch: thenBranch, ElseBranch: elseBranch}, nil
}

func (p *Parser) printStatement() (ast.Stmt, error) {
	value, err := p.expression()
	if err != nil {
		return nil, err
	}
	p.consume(token.SEMICOLON, "Expect ';' after value.")
	return &ast.PrintStatement{Expression: value}, nil
}

func (p *Parser) returnStatement() (ast.Stmt, error) {
	keyword := p.previous()
	var value ast.Expr

	if !p.check(token.SEMICOLON) {
		v, err := p.expression()
		if err != nil {
			return nil, err
		}
		value = v
	}

	_, err := p.consume(token.SEMICOLON, "Expect ';' after return value.")
	if err != nil {
		return nil, err
	}

	return &ast.Return{Keyword: keyword, Value: value}, nil
}

func (p *Parser) expressionStatement() (ast.Stmt, error) {
	value, err := p.expression()
	if err != nil {
		return nil, err
	}
	p.consume(token.SEMICOLON, "Expect ';' after value.")
	return &ast.ExpressionStatement{Expression: value}, nil
}

func (p *Parser) function(kind string) (ast.Stmt, error) {
	name, err := p.consume(token.IDENTIFIER, "Expect "+kind+" name.")
	if err != nil {
		return nil, err
	}

	if _, isReserved := reservedIdentifiers[name.Lexeme]; isReserved {
		return nil, p.error(name, fmt.Sprintf("'%s' is a reserved identifier and cannot be used as a function name.", name.Lexeme))
	}

	_, err = p.consume(token.LEFT_PAREN, "Expect '(' after "+kind+" name.")
	if err != nil {
		return nil, err
	}

	parameters := []token.Token{}
	if !p.check(token.RIGHT_PAREN) {
		for {
			if len(parameters) >= 255 {
				return nil, p.error(p.peek(), "Can't have more than 255 parameters.")
			}

			pp, err := p.consume(token.IDENTIFIER, "Expect parameter name.")
			if err != nil {
				return nil, err
			}
			parameters = append(parameters, pp)

			if !p.match(token.COMMA) {
				break
			}
		}
	}
	_, err = p.consume(token.RIGHT_PAREN, "Expect ')' after parameters.")
	if err != nil {
		return nil, err
	}

	_, err = p.consume(token.LEFT_BRACE, "Expect '{' before "+kind+" body.")
	if err != nil {
		return nil, err
	}

	body, err := p.block()
	if err != nil {
		return nil, err
	}

	return &ast.FunctionStmt{Name: name, Params: parameters, Body: body}, nil
}

func (p *Parser) block() ([]ast.Stmt, error) {
	statments := []ast.Stmt{}

	for !p.check(token.RIGHT_BRACE) && !p.isAtEnd() {
		decl, err := p.declaration()
		if err != nil {
			return nil, err
		}
		statments = append(statments, decl)
	}

	p.consume(token.RIGHT_BRACE, "Expect '}' after block.")
	return statments, nil
}

func (p *Parser) expression() (ast.Expr, error) {
	return p.assignment()
}

func (p *Parser) assignment() (ast.Expr, error) {
	// Parse the expression on the left-hand side of the assignment
	expr, err := p.logicalOR()
	if err != nil {
		return nil, err
	}

	// Check if the current token is an assignment operator
	if p.match(token.EQUAL) {
		equalOperator := p.previous()

		// Parse the expression on the right-hand side of the assignment
		value, err := p.assignment()
		if err != nil {
			return nil, err
		}

		// fmt.Printf("%#v\n", expr)
		// Ensure that the left-hand side is a valid assignment target
		switch target := expr.(type) {
		case *ast.Identifier:
			// If the left-hand side is an identifier, it's a valid assignment target
			return &ast.AssignmentStmt{
				Name:  target.Name,
				Value: value,
				Line:  equalOperator.Line,
			}, nil
		case *ast.ArrayAccess:
			// If the left-hand side is an array access, it's also a valid assignment target
			return &ast.ArrayAssignment{
				Array: target.Array,
				Index: target.Index,
				Value: value,
				Line:  equalOperator.Line,
			}, nil
		case *ast.PropertyAccess:
			// Handle object property access assignment
			return &ast.PropertyAssignment{
				Object:   target.Object,
				Property: target.Property,
				Value:    value,
				Line:     equalOperator.Line,
			}, nil
		default:
			// If the left-hand side is neither, throw an error
			return nil, p.error(equalOperator, "Invalid assignment target.")
		}
	}

	// If no assignment, return the original expression
	return expr, nil
}

func (p *Parser) logicalOR() (ast.Expr, error) {
	expr, err := p.logicalAnd()
	if err != nil {
		return nil, err
	}

	for p.match(token.LOGICAL_OR) {
		operator := p.previous()
		right, err := p.logicalAnd()
		if err != nil {
			return nil, err
		}

		expr = &ast.Logical{Left: expr, Operator: operator, Right: right}
	}

	return expr, nil
}

func (p *Parser) logicalAnd() (ast.Expr, error) {
	expr, err := p.bitwiseOR()
	if err != nil {
		return nil, err
	}

	for p.match(token.LOGICAL_AND) {
		operator := p.previous()
		right, err := p.bitwiseOR()
		if err != nil {
			return nil, err
		}

		expr = &ast.Logical{Left: expr, Operator: operator, Right: right}
	}

	return expr, nil
}

func (p *Parser) bitwiseOR() (ast.Expr, error) {
	expr, err := p.bitwiseXOR()

	if err != nil {
		return nil, err
	}

	for p.match(token.OR) {
		operator := p.previous()
		right, err := p.bitwiseXOR()

		if err != nil {
			return nil, err
		}

		expr = &ast.Binary{Left: expr, Operator: operator, Right: right, Line: operator.Line}
	}

	return expr, nil
}

func (p *Parser) bitwiseXOR() (ast.Expr, error) {
	expr, err := p.bitwiseAND()

	if err != nil {
		return nil, err
	}

	for p.match(token.XOR) {
		operator := p.previous()
		right, err := p.bitwiseAND()

		if err != nil {
			return nil, err
		}

		expr = &ast.Binary{Left: expr, Operator: operator, Right: right, Line: operator.Line}
	}
	return expr, nil
}

func (p *Parser) bitwiseAND() (ast.Expr, error) {
	expr, err := p.equality()

	if err != nil {
		return nil, err
	}

	for p.match(token.AND) {
		operator := p.previous()
		right, err := p.equality()

		if err != nil {
			return nil, err
		}

		expr = &ast.Binary{Left: expr, Operator: operator, Right: right, Line: operator.Line}
	}
	return expr, nil
}

func (p *Parser) equality() (ast.Expr, error) {
	expr, err := p.comparison()

	if err != nil {
		return nil, err
	}

	for p.match(token.BANG_EQUAL, token.EQUAL_EQUAL) {
		operator := p.previous()
		right, err := p.comparison()

		if err != nil {
			return nil, err
		}

		expr = &ast.Binary{Left: expr, Operator: operator, Right: right, Line: operator.Line}
	}

	return expr, nil
}

func (p *Parser) comparison() (ast.Expr, error) {
	expr, err := p.shift()

	if err != nil {
		return nil, err
	}

	for p.match(token.GREATER, token.GREATER_EQUAL, token.LESS, token.LESS_EQUAL) {
		operator := p.previous()
		right, err := p.shift()

		if err != nil {
			return nil, err
		}

		expr = &ast.Binary{Left: expr, Operator: operator, Right: right, Line: operator.Line}
	}

	return expr, nil
}

func (p *Parser) shift() (ast.Expr, error) {
	expr, err := p.term()

	if err != nil {
		return nil, err
	}

	for p.match(token.LEFT_SHIFT, token.RIGHT_SHIFT) {
		operator := p.previous()
		right, err := p.term()

		if err != nil {
			return nil, err
		}

		expr = &ast.Binary{Left: expr, Operator: operator, Right: right, Line: operator.Line}
	}

	return expr, nil
}

func (p *Parser) term() (ast.Expr, error) {
	expr, err := p.factor()

	if err != nil {
		return nil, err
	}

	for p.match(token.MINUS, token.PLUS) {
		operator := p.previous()
		right, err := p.factor()

		if err != nil {
			return nil, err
		}

		expr = &ast.Binary{Left: expr, Operator: operator, Right: right, Line: operator.Line}
	}

	return expr, nil
}

func (p *Parser) factor() (ast.Expr, error) {
	expr, err := p.power()

	if err != nil {
		return nil, err
	}

	for p.match(token.SLASH, token.STAR, token.MODULO) {
		operator := p.previous()
		right, err := p.power()

		if err != nil {
			return nil, err
		}

		expr = &ast.Binary{Left: expr, Operator: operator, Right: right, Line: operator.Line}
	}

	return expr, nil
}

func (p *Parser) power() (ast.Expr, error) {
	expr, err := p.unary()

	if err != nil {
		return nil, err
	}

	for p.match(token.POWER) {
		operator := p.previous()
		right, err := p.unary()

		if err != nil {
			return nil, err
		}

		expr = &ast.Binary{Left: expr, Operator: operator, Right: right, Line: operator.Line}
	}

	return expr, nil
}

func (p *Parser) unary() (ast.Expr, error) {
	if p.match(token.BANG, token.MINUS, token.NOT) {
		operator := p.previous()
		right, err := p.unary()

		if err != nil {
			return nil, err
		}

		return &ast.Unary{Operator: operator, Right: right, Line: operator.Line}, nil
	}

	return p.call()
}

func (p *Parser) call() (ast.Expr, error) {
	// Start by parsing the primary expression (the callee).
	expr, err := p.primary()
	if err != nil {
		return nil, err
	}

	// Continue to check for function calls (which may be chained).
	for {
		if p.match(token.LEFT_PAREN) {
			// If the next token is '(', finish parsing the call expression.
			expr, err = p.finishCall(expr)
			if err != nil {
				return nil, err
			}
		} else if p.match(token.LEFT_BRACKET) {
			index, err := p.expression()
			if err != nil {
				return nil, err
			}

			_, err = p.consume(token.RIGHT_BRACKET, "Expect ']' after array index.")
			if err != nil {
				return nil, err
			}
			expr = &ast.ArrayAccess{Array: expr, Index: index, Line: p.previous().Line}
			// fmt.Printf("%#v\n", expr)
		} else if p.match(token.DOT) {
			// Handle property access
			propName, err := p.consume(token.IDENTIFIER, "Expect property name after '.'.")
			if err != nil {
				return nil, err
			}
			expr = &ast.PropertyAccess{Object: expr, Property: propName, Line: p.previous().Line}
		} else {
			break // No more call expressions to parse.
		}
	}
	return expr, nil
}

func (p *Parser) finishCall(callee ast.Expr) (ast.Expr, error) {
	// Parse the arguments inside the parentheses.
	arguments := []ast.Expr{}

	if !p.check(token.RIGHT_PAREN) { // If there are arguments to parse.
		for {
			arg, err := p.expression()
			if err != nil {
				return nil, err
			}
			arguments = append(arguments, arg)

			// Continue parsing arguments separated by commas.
			if !p.match(token.COMMA) {
				break
			}
		}
	}

	// Ensure the call expression ends with a closing parenthesis.
	paren, err := p.consume(token.RIGHT_PAREN, "Expect ')' after arguments.")
	if err != nil {
		return nil, err
	}

	// Return the call expression node.
	return &ast.Call{
		Callee:    callee,
		Paren:     paren,     // This stores the right parenthesis token for error reporting.
		Arguments: arguments, // The list of parsed arguments.
	}, nil
}

func (p *Parser) primary() (ast.Expr, error) {
	if p.match(token.FALSE) {
		return &ast.Literal{Value: false, Line: p.previous().Line}, nil
	}
	if p.match(token.TRUE) {
		return &ast.Literal{Value: true, Line: p.previous().Line}, nil
	}
	if p.match(token.NIL) {
		return &ast.Literal{Value: nil, Line: p.previous().Line}, nil
	}

	if p.match(token.NUMBER, token.STRING) {
		return &ast.Literal{Value: p.previous().Literal, Line: p.previous().Line}, nil
	}

	if p.match(token.IDENTIFIER) {
		return &ast.Identifier{Name: p.previous(), Line: p.previous().Line}, nil
	}

	if p.match(token.LEFT_PAREN) {
		expr, err := p.expression()

		if err != nil {
			return nil, err
		}

		_, err = p.consume(token.RIGHT_PAREN, "Expect ')' after expression.")

		if err != nil {
			return nil, err
		}

		return &ast.Grouping{Expression: expr, Line: p.previous().Line}, nil
	}

	// Parse array literals
	if p.match(token.LEFT_BRACKET) {
		return p.arrayLiteral()
	}

	// Parse object literals
	if p.match(token.LEFT_BRACE) {
		return p.objectLiteral()
	}

	return nil, p.error(p.peek(), "Unexpected token. Expect expression.")
}

func (p *Parser) objectLiteral() (ast.Expr, error) {
	properties := make(map[string]ast.Expr)
	keys := []string{}

	for !p.check(token.RIGHT_BRACE) && !p.isAtEnd() {
		propName, err := p.consume(token.IDENTIFIER, "Expect property name. Must be a string.")
		if err != nil {
			return nil, err
		}

		// Expect a colon `:` after the property name
		_, err = p.consume(token.COLON, "Expect ':' after property name.")
		if err != nil {
			return nil, err
		}

		// Parse the property value (expression)
		propValue, err := p.expression()
		if err != nil {
			return nil, err
		}

		// fmt.Printf("%#v ---- %#v\n", propName, propValue)
		// Store the property in the map
		if _, seen := properties[propName.Lexeme]; !seen {
			keys = append(keys, propName.Lexeme)
		}
		properties[propName.Lexeme] = propValue

		// If there's no comma, break out of the loop
		if !p.match(token.COMMA) {
			break
		}
	}

	// Expect the closing right brace `}`
	_, err := p.consume(token.RIGHT_BRACE, "Expect '}' after object literal.")
	if err != nil {
		return nil, err
	}
	return &ast.ObjectLiteral{Properties: properties, Keys: keys}, nil
}

// New function to handle array literals
func (p *Parser) arrayLiteral() (ast.Expr, error) {
	elements := []ast.Expr{}

	if !p.check(token.RIGHT_BRACKET) { // If the array is not empty
		for {
			element, err := p.expression()
			if err != nil {
				return nil, err
			}
			elements = append(elements, element)

			// Check if there are more elements
			if !p.match(token.COMMA) {
				break
			}
		}
	}

	_, err := p.consume(token.RIGHT_BRACKET, "Expect ']' after array elements.")
	if err != nil {
		return nil, err
	}

	return &ast.ArrayLiteral{Elements: elements}, nil
}

func (p *Parser) match(types ...token.TokenType) bool {
	for _, tt := range types {
		if p.check(tt) {
			p.advance()
			return true
		}
	}
	return false
}

func (p *Parser) consume(tokenType token.TokenType, message string) (token.Token, error) {
	if p.check(tokenType) {
		return p.advance(), nil
	}
	return token.Token{}, p.error(p.peek(), message)
}

func (p *Parser) error(t token.Token, message string) error {
	utils.GlobalErrorToken(t, message)
	return fmt.Errorf(message)
}

func (p *Parser) check(tokenType token.TokenType) bool {
	if p.isAtEnd() {
		return false
	}
	return p.peek().Type == tokenType
}

func (p *Parser) advance() token.Token {
	if !p.isAtEnd() {
		p.current++
	}
	return p.previous()
}

func (p *Parser) isAtEnd() bool {
	return p.peek().Type == token.EOF
}

func (p *Parser) peek() token.Token {
	return p.tokens[p.current]
}

func (p *Parser) previous() token.Token {
	return p.tokens[p.current-1]
}
