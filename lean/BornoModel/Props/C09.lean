import BornoModel.Lexer
import BornoModel.Lemmas.ListAux
/-! # C09 — tokens are a faithful maximal-munch partition of the source, with true lines

`lm` is `unicode.IsLetter || unicode.IsMark`; the only fact used about it is that a newline is
neither (`hlm`). -/
namespace Borno.Props.C09
open Borno Lexer ListAux

theorem countNl_append (a b : List Char) : countNl (a ++ b) = countNl a + countNl b := by
  simp [countNl]

theorem countNl_cons (c : Char) (l : List Char) : countNl (c :: l) = (if c = '\n' then 1 else 0) + countNl l := by
  unfold countNl
  rw [List.filter_cons]
  by_cases h : c = '\n' <;> simp [isNl, h]
  omega

theorem countNl_zero (l : List Char) (h : ∀ c ∈ l, c ≠ '\n') : countNl l = 0 := by
  induction l with
  | nil => rfl
  | cons c l ih =>
    rw [countNl_cons, ih (fun x hx => h x (List.mem_cons_of_mem _ hx))]
    simp [h c (by simp)]

/-- what every scanning step guarantees about the text it consumed -/
structure StepOk (input : List Char) (line : Nat) (st : Step) : Prop where
  split : st.used ++ st.rest = input
  progress : st.used ≠ []
  line_eq : st.line = line + countNl st.used
  tok_lexeme : ∀ t, st.tok = some t → t.lexeme = st.used ∧ t.line = st.line ∧ t.tt ≠ .EOF
  silent : st.tok = none → st.diag = none →
    (∀ c ∈ st.used, Expect.blanks.contains c ∨ c = '\n') ∨ (∃ u, st.used = '/' :: '/' :: u) ∨ (∃ u, st.used = '/' :: '*' :: u)

theorem plainTok_ok (tt : TT) (lexeme rest : List Char) (line : Nat) (hne : lexeme ≠ []) (hnl : ∀ c ∈ lexeme, c ≠ '\n')
    (htt : tt ≠ .EOF) : StepOk (lexeme ++ rest) line (plainTok tt lexeme rest line) := by
  refine ⟨rfl, hne, by simp [plainTok, countNl_zero lexeme hnl], ?_, ?_⟩
  · intro t ht; simp [plainTok] at ht; subst ht; exact ⟨rfl, rfl, htt⟩
  · intro h; simp [plainTok] at h

theorem singleOps_facts (c : Char) (tt : TT) (h : Expect.singleOps.lookup c = some tt) : tt ≠ .EOF ∧ c ≠ '\n' := by
  have : ∀ p ∈ Expect.singleOps, p.2 ≠ TT.EOF ∧ p.1 ≠ '\n' := by decide
  have hm : (c, tt) ∈ Expect.singleOps := by
    clear this
    revert h; generalize Expect.singleOps = l
    induction l with
    | nil => simp [List.lookup]
    | cons p ps ih =>
      obtain ⟨k, v⟩ := p
      simp only [List.lookup]
      cases hk : c == k
      · intro h; exact List.mem_cons_of_mem _ (ih h)
      · intro h; cases h; simp at hk; subst hk; simp
  exact this _ hm

theorem lookup_mem {α β : Type} [BEq α] [LawfulBEq α] (l : List (α × β)) (k : α) (v : β) (h : l.lookup k = some v) : (k, v) ∈ l := by
  induction l with
  | nil => simp [List.lookup] at h
  | cons p ps ih =>
    obtain ⟨k', v'⟩ := p
    simp only [List.lookup] at h
    cases hk : k == k'
    · rw [hk] at h; exact List.mem_cons_of_mem _ (ih h)
    · rw [hk] at h; cases h; have := eq_of_beq hk; subst this; simp

theorem twoOps_facts (c : Char) (alts : List (Char × TT)) (dflt : TT) (h : Expect.twoOps.lookup c = some (alts, dflt)) :
    dflt ≠ .EOF ∧ c ≠ '\n' ∧ ∀ p ∈ alts, p.2 ≠ TT.EOF ∧ p.1 ≠ '\n' := by
  have : ∀ e ∈ Expect.twoOps, e.2.2 ≠ TT.EOF ∧ e.1 ≠ '\n' ∧ ∀ p ∈ e.2.1, p.2 ≠ TT.EOF ∧ p.1 ≠ '\n' := by decide
  exact this _ (lookup_mem _ _ _ h)

theorem scanTwo_ok (c : Char) (alts : List (Char × TT)) (dflt : TT) (r : List Char) (line : Nat)
    (h : Expect.twoOps.lookup c = some (alts, dflt)) : StepOk (c :: r) line (scanTwo c alts dflt r line) := by
  obtain ⟨h1, h2, h3⟩ := twoOps_facts c alts dflt h
  unfold scanTwo
  cases r with
  | nil => exact plainTok_ok dflt [c] [] line (by simp) (by simpa using h2) h1
  | cons d r' =>
    simp only
    cases hl : alts.lookup d with
    | none => exact plainTok_ok dflt [c] (d :: r') line (by simp) (by simpa using h2) h1
    | some tt =>
      have := h3 _ (lookup_mem _ _ _ hl)
      exact plainTok_ok tt [c, d] r' line (by simp) (by simp [h2, this.2]) this.1

theorem blockComment_used : ∀ (r : List Char),
    (∀ rest, (blockComment r).2 = some rest → (blockComment r).1 ++ rest = r) ∧
    ((blockComment r).2 = none → (blockComment r).1 = r)
  | [] => by simp [blockComment]
  | c :: r => by
    have ih := blockComment_used r
    unfold blockComment
    by_cases hc : c = '*'
    · simp only [hc, if_true]
      cases r with
      | nil => simp
      | cons d r' =>
        by_cases hd : d = '/'
        · simp [hd]
        · simp only [hd, if_false]
          constructor
          · intro rest h; simp at h ⊢; exact ih.1 rest h
          · intro h; simp at h ⊢; exact ih.2 h
    · simp only [hc, if_false]
      constructor
      · intro rest h; simp at h ⊢; exact ih.1 rest h
      · intro h; simp at h ⊢; exact ih.2 h

theorem scanSlash_ok (r : List Char) (line : Nat) : StepOk ('/' :: r) line (scanSlash r line) := by
  unfold scanSlash
  cases r with
  | nil => exact plainTok_ok .SLASH ['/'] [] line (by simp) (by simp) (by simp)
  | cons d r' =>
    simp only
    by_cases h1 : d = '/'
    · subst h1
      simp only [if_true]
      refine ⟨by simp [List.takeWhile_append_dropWhile], by simp, ?_, by intro t h; simp at h, ?_⟩
      · have : countNl ('/' :: '/' :: r'.takeWhile notNl) = 0 := by
          apply countNl_zero
          intro c hc
          simp only [List.mem_cons] at hc
          rcases hc with rfl | rfl | hc
          · decide
          · decide
          · have := takeWhile_forall notNl r' c hc
            intro e; subst e; simp [notNl] at this
        simp [this]
      · intro _ _; exact Or.inr (Or.inl ⟨_, rfl⟩)
    · simp only [h1, if_false]
      by_cases h2 : d = '*'
      · subst h2
        simp only [if_true]
        have hu := blockComment_used r'
        cases hb : blockComment r' with
        | mk u k =>
          rw [hb] at hu
          cases k with
          | some rest =>
            simp only
            have hsp : u ++ rest = r' := hu.1 rest rfl
            refine ⟨by simp [hsp], by simp, ?_, by intro t h; simp at h, ?_⟩
            · simp [countNl_cons]
            · intro _ _; exact Or.inr (Or.inr ⟨_, rfl⟩)
          | none =>
            simp only
            have hsp : u = r' := hu.2 rfl
            refine ⟨by simp [hsp], by simp, ?_, by intro t h; simp at h, ?_⟩
            · simp [countNl_cons]
            · intro _ h; simp at h
      · simp only [h2, if_false]
        exact plainTok_ok .SLASH ['/'] (d :: r') line (by simp) (by simp) (by simp)

theorem scanString_ok (r : List Char) (line : Nat) : ∃ st, scanString r line = some st ∧ StepOk ('"' :: r) line st := by
  unfold scanString
  have hsplit := List.takeWhile_append_dropWhile (p := notQuote) (l := r)
  cases hrest : r.dropWhile notQuote with
  | nil =>
    simp only
    refine ⟨_, rfl, ?_, by simp, ?_, by intro t h; simp at h, by intro _ h; simp at h⟩
    · rw [hrest] at hsplit; simp at hsplit; simp [hsplit]
    · simp [countNl_cons]
  | cons q rest' =>
    simp only
    have hlen : ¬ ('"' :: List.takeWhile notQuote r ++ [q]).length < 2 := by
      simp only [List.cons_append, List.length_cons, List.length_append, List.length_nil]; omega
    rw [if_neg hlen]
    refine ⟨_, rfl, ?_, by simp, ?_, ?_, by intro h; simp at h⟩
    · have h2 : List.takeWhile notQuote r ++ q :: rest' = r := by rw [← hrest]; exact hsplit
      simp only [List.cons_append, List.append_assoc, List.nil_append, h2]
    · have hq : q = '"' := by
        have := dropWhile_head notQuote r q rest' hrest
        simpa [notQuote] using this
      subst hq
      show line + countNl (List.takeWhile notQuote r) = line + countNl ('"' :: List.takeWhile notQuote r ++ ['"'])
      rw [List.cons_append, countNl_cons, countNl_append, countNl_cons]
      simp [countNl]
    · intro t ht; simp at ht; subst ht; exact ⟨rfl, rfl, by simp⟩

/-- the value of a string token is the text between its quotes, and that text contains no quote -/
theorem string_value (r : List Char) (line : Nat) (st : Step) (t : Token) (h : scanString r line = some st) (ht : st.tok = some t) :
    ∃ body, t.lexeme = '"' :: body ++ ['"'] ∧ t.lit = .str body ∧ '"' ∉ body ∧ t.tt = .STRING := by
  unfold scanString at h
  cases hrest : r.dropWhile notQuote with
  | nil => rw [hrest] at h; simp only at h; cases h; simp at ht
  | cons q rest' =>
    have hq : q = '"' := by
      have := dropWhile_head notQuote r q rest' hrest
      simpa [notQuote] using this
    subst hq
    rw [hrest] at h; simp only at h
    have hlen : ¬ ('"' :: List.takeWhile notQuote r ++ ['"']).length < 2 := by
      simp only [List.cons_append, List.length_cons, List.length_append, List.length_nil]; omega
    rw [if_neg hlen] at h
    cases h; simp at ht; subst ht
    refine ⟨r.takeWhile notQuote, rfl, rfl, ?_, rfl⟩
    intro hm; have := takeWhile_forall notQuote r _ hm; simp [notQuote] at this

theorem isDigit_not_nl : isDigit '\n' = false := by decide

theorem numFrac_ok (l : List Char) : (numFrac l).1 ++ (numFrac l).2 = l ∧ ∀ x ∈ (numFrac l).1, x ≠ '\n' := by
  unfold numFrac
  split
  · rename_i p d r'
    by_cases hpd : (p = '.' && isDigit d) = true
    · rw [if_pos hpd]
      simp at hpd
      refine ⟨by simp [hpd.1, List.takeWhile_append_dropWhile], ?_⟩
      intro x hx e; subst e
      simp only [List.mem_cons] at hx
      rcases hx with hx | hx | hx
      · revert hx; decide
      · rw [← hx, isDigit_not_nl] at hpd; simp at hpd
      · have := takeWhile_forall isDigit _ _ hx; rw [isDigit_not_nl] at this; cases this
    · rw [if_neg hpd]; simp
  · simp

theorem scanNumber_ok (c : Char) (r : List Char) (line : Nat) (hc : isDigit c = true) :
    StepOk (c :: r) line (scanNumber c r line) := by
  have hcn : c ≠ '\n' := by intro e; subst e; rw [isDigit_not_nl] at hc; cases hc
  have hds : ∀ x ∈ r.takeWhile isDigit, x ≠ '\n' := by
    intro x hx e; subst e; have := takeWhile_forall isDigit _ _ hx; rw [isDigit_not_nl] at this; cases this
  obtain ⟨hsplit, hnl⟩ := numFrac_ok (r.dropWhile isDigit)
  unfold scanNumber
  generalize numFrac (r.dropWhile isDigit) = fr at hsplit hnl ⊢
  have hused : (c :: r.takeWhile isDigit ++ fr.1) ++ fr.2 = c :: r := by
    simp [List.append_assoc, hsplit, List.takeWhile_append_dropWhile]
  have hz : countNl (c :: r.takeWhile isDigit ++ fr.1) = 0 := by
    apply countNl_zero
    intro x hx; simp at hx
    rcases hx with rfl | hx | hx
    · exact hcn
    · exact hds x hx
    · exact hnl x hx
  simp only
  split
  · refine ⟨hused, by simp, by show line = line + countNl (c :: r.takeWhile isDigit ++ fr.1); rw [hz]; rfl, ?_, by intro h; simp at h⟩
    intro t ht; simp at ht; subst ht; exact ⟨rfl, rfl, by simp⟩
  · refine ⟨hused, by simp, by show line = line + countNl (c :: r.takeWhile isDigit ++ fr.1); rw [hz]; rfl, by intro t ht; simp at ht, by intro _ h; simp at h⟩

theorem keywords_not_eof : ∀ p ∈ Expect.keywords, p.2 ≠ TT.EOF := by decide

theorem scanWord_ok (lm : Char → Bool) (hlm : lm '\n' = false) (c : Char) (r : List Char) (line : Nat) (hc : c ≠ '\n') :
    StepOk (c :: r) line (scanWord lm c r line) := by
  unfold scanWord
  have hw : ∀ x ∈ c :: r.takeWhile (isAlphaNum lm), x ≠ '\n' := by
    intro x hx e; subst e; simp at hx
    rcases hx with hx | hx
    · exact hc hx.symm
    · have := takeWhile_forall (isAlphaNum lm) _ _ hx
      simp [isAlphaNum, isAlpha, hlm, isDigit_not_nl] at this
  have htt : (Expect.keywords.lookup (c :: r.takeWhile (isAlphaNum lm))).getD .IDENTIFIER ≠ .EOF := by
    cases hl : Expect.keywords.lookup (c :: r.takeWhile (isAlphaNum lm)) with
    | none => simp
    | some tt => simpa using keywords_not_eof _ (lookup_mem _ _ _ hl)
  have := plainTok_ok _ (c :: r.takeWhile (isAlphaNum lm)) (r.dropWhile (isAlphaNum lm)) line (by simp) hw htt
  simpa [List.takeWhile_append_dropWhile] using this

/-- every scanning step succeeds on a non-empty input (no out-of-range access, no bad slice) and
    consumes a non-empty prefix of it, counting the newlines it passes -/
theorem scanToken_ok (lm : Char → Bool) (hlm : lm '\n' = false) (c : Char) (r : List Char) (line : Nat) :
    ∃ st, scanToken lm (c :: r) line = some st ∧ StepOk (c :: r) line st := by
  cases h1 : Expect.singleOps.lookup c with
  | some tt =>
    have := singleOps_facts c tt h1
    exact ⟨_, by simp only [scanToken, h1], plainTok_ok tt [c] r line (by simp) (by simpa using this.2) this.1⟩
  | none =>
    cases h2 : Expect.twoOps.lookup c with
    | some p => obtain ⟨alts, dflt⟩ := p; exact ⟨_, by simp only [scanToken, h1, h2], scanTwo_ok c alts dflt r line h2⟩
    | none =>
      by_cases h3 : c = '/'
      · subst h3; exact ⟨_, by simp only [scanToken, h1, h2, if_true], scanSlash_ok r line⟩
      · by_cases h4 : Expect.blanks.contains c = true
        · have hcn : c ≠ '\n' := by intro e; subst e; revert h4; decide
          refine ⟨⟨none, none, [c], r, line⟩, by simp only [scanToken, h1, h2, h3, h4, if_true, if_false], rfl, by simp, ?_, by intro t h; simp at h, ?_⟩
          · simp [countNl_cons, hcn, countNl, isNl]
          · intro _ _; left; intro x hx; simp at hx; subst hx; exact Or.inl h4
        · by_cases h5 : c = '\n'
          · subst h5
            refine ⟨⟨none, none, ['\n'], r, line + 1⟩, by simp only [scanToken, h1, h2, h3, h4, if_true, if_false, Bool.false_eq_true], rfl, by simp, ?_, by intro t h; simp at h, ?_⟩
            · simp [countNl, isNl]
            · intro _ _; left; intro x hx; simp at hx; subst hx; exact Or.inr rfl
          · by_cases h6 : c = '"'
            · subst h6
              obtain ⟨st, hs, hok⟩ := scanString_ok r line
              exact ⟨st, by simp only [scanToken, h1, h2, h3, h4, h5, if_true, if_false, Bool.false_eq_true]; exact hs, hok⟩
            · by_cases h7 : isDigit c = true
              · exact ⟨_, by simp only [scanToken, h1, h2, h3, h4, h5, h6, h7, if_true, if_false, Bool.false_eq_true], scanNumber_ok c r line h7⟩
              · by_cases h8 : isAlpha lm c = true
                · exact ⟨_, by simp only [scanToken, h1, h2, h3, h4, h5, h6, h7, h8, if_true, if_false, Bool.false_eq_true], scanWord_ok lm hlm c r line h5⟩
                · refine ⟨⟨none, some (.static line [] unexpectedChar), [c], r, line⟩,
                    by simp only [scanToken, h1, h2, h3, h4, h5, h6, h7, h8, if_true, if_false, Bool.false_eq_true], rfl, by simp, ?_, by intro t h; simp at h, by intro _ h; simp at h⟩
                  simp [countNl_cons, h5, countNl, isNl]

/-- the pieces a text is cut into -/
inductive Scans (lm : Char → Bool) : List Char → Nat → List Step → Prop
  | nil (line : Nat) : Scans lm [] line []
  | cons {c r line st steps} : scanToken lm (c :: r) line = some st → Scans lm st.rest st.line steps →
      Scans lm (c :: r) line (st :: steps)

theorem scanLoop_scans (lm : Char → Bool) (hlm : lm '\n' = false) : ∀ (fuel : Nat) (src : List Char) (line : Nat) (toks : List Token) (ds : List Diag),
    scanLoop lm fuel src line = some (toks, ds) →
    ∃ steps, Scans lm src line steps ∧
      toks = steps.filterMap (·.tok) ++ [⟨.EOF, [], .none, line + countNl src⟩] ∧
      ds = steps.filterMap (·.diag) := by
  intro fuel
  induction fuel with
  | zero => intro src line toks ds h; simp [scanLoop] at h
  | succ f ih =>
    intro src line toks ds h
    cases src with
    | nil => simp [scanLoop] at h; obtain ⟨rfl, rfl⟩ := h; exact ⟨[], .nil line, by simp [countNl], rfl⟩
    | cons c r =>
      rw [scanLoop] at h
      cases hst : scanToken lm (c :: r) line with
      | none => simp [hst] at h
      | some st =>
        simp only [hst] at h
        cases hrec : scanLoop lm f st.rest st.line with
        | none => simp [hrec] at h
        | some p =>
          obtain ⟨ts, ds'⟩ := p
          simp [hrec] at h
          obtain ⟨rfl, rfl⟩ := h
          obtain ⟨steps, hs, ht, hd⟩ := ih _ _ _ _ hrec
          obtain ⟨st', hst', hok⟩ := scanToken_ok lm hlm c r line
          rw [hst] at hst'; cases hst'
          have hline : st.line + countNl st.rest = line + countNl (c :: r) := by
            rw [hok.line_eq, ← hok.split, countNl_append]; omega
          refine ⟨st :: steps, .cons hst hs, ?_, ?_⟩
          · rw [ht, hline]
            cases htk : st.tok <;> simp [List.filterMap_cons, htk]
          · rw [hd]
            cases hdg : st.diag <;> simp [List.filterMap_cons, hdg]

/-- **partition**: the pieces, in order, concatenate to the source; each token's lexeme is exactly the text
    of its piece, so the lexemes appear in source order, do not overlap, and everything between them is
    a blank, a newline, a comment, or a diagnosed piece -/
theorem scans_partition (lm : Char → Bool) (hlm : lm '\n' = false) : ∀ (src : List Char) (line : Nat) (steps : List Step),
    Scans lm src line steps →
    steps.flatMap (·.used) = src ∧
    (∀ st ∈ steps, st.used ≠ [] ∧ (∀ t, st.tok = some t → t.lexeme = st.used ∧ t.tt ≠ .EOF) ∧
      (st.tok = none → st.diag = none →
        (∀ c ∈ st.used, Expect.blanks.contains c ∨ c = '\n') ∨ (∃ u, st.used = '/' :: '/' :: u) ∨ (∃ u, st.used = '/' :: '*' :: u))) := by
  intro src line steps h
  induction h with
  | nil line => simp
  | @cons c r line st steps hst _ ih =>
    obtain ⟨st', hst', hok⟩ := scanToken_ok lm hlm c r line
    rw [hst] at hst'; cases hst'
    refine ⟨by simp [List.flatMap_cons, ih.1, hok.split], ?_⟩
    intro s hs
    rcases List.mem_cons.mp hs with rfl | hs
    · exact ⟨hok.progress, fun t ht => ⟨(hok.tok_lexeme t ht).1, (hok.tok_lexeme t ht).2.2⟩, hok.silent⟩
    · exact ih.2 s hs

/-- **true lines**: every token carries 1 + the number of newlines that precede its last character
    (for a scan started at line 1; in general `line` + the newlines of the text up to the token's end) -/
theorem scans_lines (lm : Char → Bool) (hlm : lm '\n' = false) : ∀ (src : List Char) (line : Nat) (steps : List Step),
    Scans lm src line steps →
    ∀ (pre : List Step) (st : Step) (post : List Step), steps = pre ++ st :: post →
      st.line = line + countNl ((pre ++ [st]).flatMap (·.used)) ∧ (∀ t, st.tok = some t → t.line = st.line) := by
  intro src line steps h
  induction h with
  | nil line => intro pre st post he; simp at he
  | @cons c r line st0 steps hst _ ih =>
    obtain ⟨st', hst', hok⟩ := scanToken_ok lm hlm c r line
    rw [hst] at hst'; cases hst'
    intro pre st post he
    cases pre with
    | nil =>
      simp at he; obtain ⟨rfl, rfl⟩ := he
      exact ⟨by simp [hok.line_eq], fun t ht => (hok.tok_lexeme t ht).2.1⟩
    | cons p pre' =>
      simp at he; obtain ⟨rfl, he⟩ := he
      obtain ⟨h1, h2⟩ := ih pre' st post he
      refine ⟨?_, h2⟩
      rw [h1, hok.line_eq]
      simp [List.flatMap_cons, countNl_append]; omega

/-- **totality and no abnormal termination of the lexer**: scanning any text, with the fuel `scan`
    provides, returns a token list — it never reaches a partial host operation and never runs out of fuel -/
theorem scanLoop_total (lm : Char → Bool) (hlm : lm '\n' = false) : ∀ (fuel : Nat) (src : List Char) (line : Nat),
    src.length < fuel → ∃ toks ds, scanLoop lm fuel src line = some (toks, ds) := by
  intro fuel
  induction fuel with
  | zero => intro src line h; omega
  | succ f ih =>
    intro src line h
    cases src with
    | nil => exact ⟨_, _, by rw [scanLoop]⟩
    | cons c r =>
      obtain ⟨st, hst, hok⟩ := scanToken_ok lm hlm c r line
      have hlen : st.rest.length < f := by
        have := congrArg List.length hok.split
        simp at this
        have hu : st.used.length ≠ 0 := by
          intro e; exact hok.progress (List.length_eq_zero_iff.mp e)
        simp at h; omega
      obtain ⟨ts, ds, hrec⟩ := ih st.rest st.line hlen
      exact ⟨_, _, by rw [scanLoop]; simp only [hst, hrec]; rfl⟩

theorem scan_total (lm : Char → Bool) (hlm : lm '\n' = false) (src : List Char) : ∃ toks ds, scan lm src = some (toks, ds) :=
  scanLoop_total lm hlm _ src 1 (by omega)

/-- exactly one end-of-input token closes the list, carrying the line of the end of the text -/
theorem single_eof_last (lm : Char → Bool) (hlm : lm '\n' = false) (src : List Char) (toks : List Token) (ds : List Diag)
    (h : scan lm src = some (toks, ds)) :
    ∃ body, toks = body ++ [⟨.EOF, [], .none, 1 + countNl src⟩] ∧ ∀ t ∈ body, t.tt ≠ .EOF := by
  obtain ⟨steps, hs, ht, _⟩ := scanLoop_scans lm hlm _ _ _ _ _ h
  refine ⟨_, ht, ?_⟩
  intro t htm
  simp only [List.mem_filterMap] at htm
  obtain ⟨st, hst, htk⟩ := htm
  exact ((scans_partition lm hlm _ _ _ hs).2 st hst).2.1 t htk |>.2

/-- characters that start no token, unterminated strings and unterminated block comments each
    produce a diagnostic instead of being dropped silently: a piece that yields no token and no diagnostic
    is a blank, a newline, or a comment (see `scans_partition`); in particular: -/
theorem bad_input_diagnosed (lm : Char → Bool) (c : Char) (r : List Char) (line : Nat)
    (h1 : Expect.singleOps.lookup c = none) (h2 : Expect.twoOps.lookup c = none) (h3 : c ≠ '/')
    (h4 : Expect.blanks.contains c = false) (h5 : c ≠ '\n') (h6 : c ≠ '"') (h7 : isDigit c = false) (h8 : isAlpha lm c = false) :
    scanToken lm (c :: r) line = some ⟨none, some (.static line [] unexpectedChar), [c], r, line⟩ := by
  simp only [scanToken, h1, h2, h3, h4, h5, h6, h7, h8, if_false, Bool.false_eq_true]

theorem unterminated_string_diagnosed (r : List Char) (line : Nat) (h : r.dropWhile notQuote = []) :
    ∃ st, scanString r line = some st ∧ st.tok = none ∧ st.diag = some (.static st.line [] unterminatedString) := by
  unfold scanString; rw [h]; exact ⟨_, rfl, rfl, rfl⟩

/-- **maximal munch** for operators: the two-character operator is chosen whenever the second character fits -/
theorem two_char_operator_preferred (c d : Char) (alts : List (Char × TT)) (dflt tt : TT) (r : List Char) (line : Nat)
    (h : alts.lookup d = some tt) : (scanTwo c alts dflt (d :: r) line).used = [c, d] ∧
      (scanTwo c alts dflt (d :: r) line).tok = some ⟨tt, [c, d], .none, line⟩ := by
  simp [scanTwo, h, plainTok]

/-- **maximal munch** for words and numbers: what follows an identifier / keyword is not a letter, mark,
    `_` or digit, and what follows the integer part of a number is not a digit -/
theorem word_is_maximal (lm : Char → Bool) (c : Char) (r : List Char) (line : Nat) (x : Char) (rest : List Char)
    (h : (scanWord lm c r line).rest = x :: rest) : isAlphaNum lm x = false := by
  simp only [scanWord, plainTok] at h
  exact dropWhile_head (isAlphaNum lm) r x rest h

/-- a word is a keyword exactly when it equals one of the 15 entries of the keyword table -/
theorem keyword_iff_table (lm : Char → Bool) (c : Char) (r : List Char) (line : Nat) :
    ∃ t, (scanWord lm c r line).tok = some t ∧ t.lexeme = c :: r.takeWhile (isAlphaNum lm) ∧
      (t.tt = .IDENTIFIER ∨ (t.lexeme, t.tt) ∈ Expect.keywords) ∧
      (∀ tt, (t.lexeme, tt) ∈ Expect.keywords → Expect.keywords.lookup t.lexeme ≠ none) ∧ Expect.keywords.length = 15 := by
  refine ⟨_, rfl, rfl, ?_, ?_, by decide⟩
  · simp only [scanWord, plainTok]
    cases hl : Expect.keywords.lookup (c :: r.takeWhile (isAlphaNum lm)) with
    | none => left; rfl
    | some tt => right; exact lookup_mem _ _ _ hl
  · intro tt hm hnone
    simp only [scanWord, plainTok] at hm hnone
    have : ∀ (l : List (List Char × TT)) (k : List Char) (v : TT), (k, v) ∈ l → l.lookup k ≠ none := by
      intro l k v
      induction l with
      | nil => simp
      | cons p ps ih =>
        obtain ⟨k', v'⟩ := p
        intro hmem
        simp only [List.lookup]
        cases hk : k == k'
        · simp at hk
          rcases List.mem_cons.mp hmem with e | e
          · cases e; exact absurd rfl hk
          · exact ih e
        · simp
    exact this _ _ _ hm hnone

/-! ### literal tokens carry a literal of their kind -/

def LitOk (t : Token) : Prop :=
  (t.tt = .NUMBER → ∃ x, t.lit = .num x) ∧ (t.tt = .STRING → ∃ s, t.lit = .str s)

theorem plain_tables :
    (∀ p ∈ Expect.singleOps, p.2 ≠ TT.NUMBER ∧ p.2 ≠ TT.STRING) ∧
    (∀ e ∈ Expect.twoOps, (e.2.2 ≠ TT.NUMBER ∧ e.2.2 ≠ TT.STRING) ∧ ∀ p ∈ e.2.1, p.2 ≠ TT.NUMBER ∧ p.2 ≠ TT.STRING) ∧
    (∀ p ∈ Expect.keywords, p.2 ≠ TT.NUMBER ∧ p.2 ≠ TT.STRING) := by decide

theorem plainTok_litOk (tt : TT) (lexeme rest : List Char) (line : Nat) (h : tt ≠ .NUMBER ∧ tt ≠ .STRING) (t : Token)
    (ht : (plainTok tt lexeme rest line).tok = some t) : LitOk t := by
  simp [plainTok] at ht; subst ht; exact ⟨fun e => absurd e h.1, fun e => absurd e h.2⟩

theorem scanToken_litOk (lm : Char → Bool) (c : Char) (r : List Char) (line : Nat) (st : Step) (t : Token)
    (h : scanToken lm (c :: r) line = some st) (ht : st.tok = some t) : LitOk t := by
  cases h1 : Expect.singleOps.lookup c with
  | some tt =>
    simp only [scanToken, h1] at h; cases h
    exact plainTok_litOk _ _ _ _ (plain_tables.1 _ (lookup_mem _ _ _ h1)) t ht
  | none =>
    cases h2 : Expect.twoOps.lookup c with
    | some p =>
      obtain ⟨alts, dflt⟩ := p
      simp only [scanToken, h1, h2] at h; cases h
      have hf := plain_tables.2.1 _ (lookup_mem _ _ _ h2)
      unfold scanTwo at ht
      cases r with
      | nil => exact plainTok_litOk _ _ _ _ hf.1 t ht
      | cons d r' =>
        simp only at ht
        cases hl : alts.lookup d with
        | none => rw [hl] at ht; exact plainTok_litOk _ _ _ _ hf.1 t ht
        | some tt => rw [hl] at ht; exact plainTok_litOk _ _ _ _ (hf.2 _ (lookup_mem _ _ _ hl)) t ht
    | none =>
      by_cases h3 : c = '/'
      · subst h3
        simp only [scanToken, h1, h2, if_true] at h; cases h
        unfold scanSlash at ht
        cases r with
        | nil => exact plainTok_litOk _ _ _ _ (by decide) t ht
        | cons d r' =>
          simp only at ht
          by_cases hd1 : d = '/'
          · simp only [hd1, if_true] at ht; cases ht
          · simp only [hd1, if_false] at ht
            by_cases hd2 : d = '*'
            · simp only [hd2, if_true] at ht
              split at ht <;> cases ht
            · simp only [hd2, if_false] at ht
              exact plainTok_litOk _ _ _ _ (by decide) t ht
      · by_cases h4 : Expect.blanks.contains c = true
        · simp only [scanToken, h1, h2, h3, h4, if_true, if_false] at h; cases h; cases ht
        · by_cases h5 : c = '\n'
          · subst h5; simp only [scanToken, h1, h2, h3, h4, if_true, if_false, Bool.false_eq_true] at h; cases h; cases ht
          · by_cases h6 : c = '"'
            · subst h6
              simp only [scanToken, h1, h2, h3, h4, h5, if_true, if_false, Bool.false_eq_true] at h
              obtain ⟨body, _, hlit, _, htt⟩ := string_value r line st t h ht
              exact ⟨(fun e => by rw [htt] at e; cases e), fun _ => ⟨body, hlit⟩⟩
            · by_cases h7 : isDigit c = true
              · simp only [scanToken, h1, h2, h3, h4, h5, h6, h7, if_true, if_false, Bool.false_eq_true] at h; cases h
                unfold scanNumber at ht
                simp only at ht
                split at ht
                · rename_i x hx; cases ht; exact ⟨fun _ => ⟨x, rfl⟩, (fun e => by cases e)⟩
                · cases ht
              · by_cases h8 : isAlpha lm c = true
                · simp only [scanToken, h1, h2, h3, h4, h5, h6, h7, h8, if_true, if_false, Bool.false_eq_true] at h; cases h
                  unfold scanWord at ht
                  refine plainTok_litOk _ _ _ _ ?_ t ht
                  cases hl : Expect.keywords.lookup (c :: r.takeWhile (isAlphaNum lm)) with
                  | none => simp
                  | some tt => simpa using plain_tables.2.2 _ (lookup_mem _ _ _ hl)
                · simp only [scanToken, h1, h2, h3, h4, h5, h6, h7, h8, if_true, if_false, Bool.false_eq_true] at h; cases h; cases ht

/-- every token the scanner produces is well-formed for the parser: NUMBER tokens carry a number,
    STRING tokens a string (and the closing EOF token carries nothing) -/
theorem scan_tokens_litOk (lm : Char → Bool) (hlm : lm '\n' = false) (src : List Char) (toks : List Token) (ds : List Diag)
    (h : scan lm src = some (toks, ds)) : ∀ t ∈ toks, LitOk t := by
  obtain ⟨steps, hs, ht, _⟩ := scanLoop_scans lm hlm _ _ _ _ _ h
  intro t htm
  rw [ht] at htm
  rcases List.mem_append.mp htm with hm | hm
  · simp only [List.mem_filterMap] at hm
    obtain ⟨st, hst, htk⟩ := hm
    -- find the scanning step that produced it
    have : ∀ (src : List Char) (line : Nat) (steps : List Step), Scans lm src line steps → ∀ st ∈ steps, ∀ t, st.tok = some t → LitOk t := by
      intro src line steps hsc
      induction hsc with
      | nil => intro st h; cases h
      | @cons c r line st0 steps hst0 _ ih =>
        intro st hm t ht
        rcases List.mem_cons.mp hm with rfl | hm
        · exact scanToken_litOk lm c r line st t hst0 ht
        · exact ih st hm t ht
    exact this _ _ _ hs st hst t htk
  · simp at hm; subst hm; exact ⟨(fun e => by cases e), (fun e => by cases e)⟩

end Borno.Props.C09
