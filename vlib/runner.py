# Campaign execution: differential runs (implementation vs model), metamorphic groups on the
# implementation alone, and process-level runs of the real `borno` binary.
import os, shutil, subprocess, tempfile, time
from collections import Counter
from concurrent.futures import ThreadPoolExecutor
from .core import *

class Case:
    __slots__ = ('label', 'req', 'keys', 'src', 'group', 'note', 'impl', 'model')
    def __init__(self, label, req, keys=('O', 'E', 'F'), src=None, group=None, note=None):
        self.label, self.req, self.keys, self.src, self.group, self.note = label, req, tuple(keys), src, group, note
        self.impl = self.model = None

def run_case(mode, src, stdin=b'', keys=None, label='', group=None, note=None):
    if keys is None:
        keys = ('_', 'E', 'F') if mode in ('lex', 'parse') else ('O', 'E', 'F')
    return Case(label, req(mode, src, stdin), keys, src, group, note)

ALLOWED_KINDS = {'<nil>', 'bool', 'float64', 'string', '[]interface {}', 'map[string]interface {}', '*interpreter.Function'}

def kinds_ok(resp):
    k = fields(resp).get('K')
    if not k:
        return True
    for t in k.split(','):
        if t in ALLOWED_KINDS or (t.startswith('interpreter.Native') and t.endswith('Fn')):
            continue
        return False
    return True

def classify_abnormal(impl, model):
    """known classes of abnormal termination shared by both sides"""
    if impl.startswith('CRASH') and model.startswith('ABN:cyclic'):
        return 'cyclic-print'
    if impl.startswith('TIMEOUT') and model.startswith('ABN:cyclic'):
        return 'cyclic-print'
    if impl.startswith('CRASH') and model.startswith('ABN:fuel'):
        try:
            banner = untext(impl.split('\t')[0].split(':')[2])
        except Exception:
            banner = ''
        if 'stack' in banner:
            return 'stack-exhaustion'
    return None

import re as _re
_PLATFORM = [NAT['sin'], NAT['cos'], NAT['tan'], NAT['pow'], '**']
_NUM = _re.compile(r'-?\d+(?:\.\d+)?(?:e[+-]?\d+)?')

def platform_sensitive(src):
    return isinstance(src, str) and any(p in src for p in _PLATFORM)

def approx_same(impl, model, keys):
    """outputs that differ only in numerals agreeing to 4 ulp (results of the platform's pow/sin/cos/tan)"""
    a, b = fields(impl), fields(model)
    if any(a.get(k) != b.get(k) for k in keys if k != 'O') or 'O' not in a or 'O' not in b:
        return False
    ta, tb = untext(a['O']), untext(b['O'])
    na, nb = _NUM.findall(ta), _NUM.findall(tb)
    if _NUM.sub('#', ta) != _NUM.sub('#', tb) or len(na) != len(nb):
        return False
    for x, y in zip(na, nb):
        if x == y:
            continue
        fx, fy = float(x), float(y)
        if fx == fy:
            continue
        if abs(fx - fy) > 1e-12 * max(abs(fx), abs(fy), 1e-3):
            return False
    return True

def execute(cases, fuel=8000, timeout_ms=5000, model=True):
    reqs = [c.req for c in cases]
    t0 = time.time()
    impl = run_impl(reqs, timeout_ms=timeout_ms)
    t1 = time.time()
    mod = run_model(reqs, fuel=fuel) if model else [None] * len(reqs)
    t2 = time.time()
    for c, a, b in zip(cases, impl, mod):
        c.impl, c.model = a, b
    # a time-out under load is not a hang: before it is believed, the case runs again on its own with ten times the budget
    slow = [c for c in cases if c.impl.startswith('TIMEOUT') and not (c.model or '').startswith('ABN')]
    if slow and len(slow) <= 200:
        again = run_impl([c.req for c in slow], timeout_ms=timeout_ms * 10, jobs=4)
        for c, a in zip(slow, again):
            c.impl = a
    # the model is defined with a step budget (fuel); an implementation run that ends normally while the model driver
    # ran out of its budget is beyond the driver's reach, not a disagreement: asked again with eight times the budget,
    # and counted as unanswered if that is still not enough
    starved = [c for c in cases if model and (c.model or '').startswith('ABN:fuel') and not c.impl.startswith(('TIMEOUT', 'CRASH', 'PANIC'))]
    if starved and len(starved) <= 100:
        again = run_model([c.req for c in starved], fuel=fuel * 8, jobs=8)
        for c, b in zip(starved, again):
            c.model = b
    return {'impl_s': round(t1 - t0, 1), 'model_s': round(t2 - t1, 1), 'timeouts_rerun': len(slow), 'fuel_rerun': len(starved)}

DRIVER_TIMEOUT = 'CRASH:rc=-9:' + hx('driver timeout')

def model_unanswered(cases):
    """cases the model driver did not answer within the harness's own time limit (a limit of the
    machinery — the model is a function of the input alone —, so neither agreement nor disagreement)"""
    return [c for c in cases if c.model is not None and (c.model.startswith(DRIVER_TIMEOUT) or _starved(c))]

def _starved(c):
    return c.model.startswith('ABN:fuel') and not c.impl.startswith(('TIMEOUT', 'CRASH', 'PANIC'))

def disagreements(cases):
    """cases on which implementation and model differ on the compared fields"""
    out = []
    for c in cases:
        if c.model is None or c.model.startswith(DRIVER_TIMEOUT) or _starved(c):
            continue
        if not same(c.impl, c.model, c.keys):
            if platform_sensitive(c.src) and not c.impl.startswith(('PANIC', 'CRASH', 'TIMEOUT')) and not c.model.startswith('ABN') and approx_same(c.impl, c.model, c.keys):
                continue
            out.append(c)
    return out

def outcome_class(resp):
    if resp.startswith(('PANIC', 'CRASH', 'TIMEOUT', 'ABN')):
        return resp.split(':')[0] + (':' + resp.split(':')[1].split('\t')[0] if resp.startswith('ABN') else '')
    f = fields(resp)
    fl = f.get('F', '')
    return {'00': 'clean', '10': 'static-error', '01': 'runtime-error', '11': 'static+runtime'}.get(fl, 'other')

def distribution(cases):
    c = Counter(outcome_class(x.impl) for x in cases)
    return dict(c)

def distinct_nontrivial(cases):
    """distinct requests whose implementation outcome is not the trivial one (empty stdout, no
    diagnostic, no tokens/tree beyond EOF)"""
    seen = set()
    n = 0
    for c in cases:
        if c.req in seen:
            continue
        seen.add(c.req)
        f = fields(c.impl)
        trivial = (f.get('O', '') == '' and f.get('E', '') == '' and f.get('_', '') in ('', '[]', 'T:49::-:1'))
        if not trivial:
            n += 1
    return n

# ------------------------------------------------------------------ process level

CLI_STATS = {}

class CliCase:
    __slots__ = ('label', 'args', 'files', 'stdin', 'script', 'note', 'out', 'err', 'status', 'timed_out', 'model')
    def __init__(self, label, args, files=None, stdin=b'', script=None, note=None):
        # files: {name: bytes or None (directory)}; script: the name whose content the model is given
        self.label, self.args, self.files, self.stdin, self.script, self.note = label, args, files or {}, stdin, script, note
        self.out = self.err = b''
        self.status = None
        self.timed_out = False
        self.model = None

def _run_one_cli(c, timeout):
    d = tempfile.mkdtemp(prefix='cli', dir=os.path.join(BUILD, 'tmp'))
    try:
        for name, content in c.files.items():
            p = os.path.join(d, name)
            os.makedirs(os.path.dirname(p), exist_ok=True)
            if content is None:
                os.makedirs(p, exist_ok=True)
            else:
                with open(p, 'wb') as f:
                    f.write(content)
        try:
            exe = BORNO + '_cover' if COVER['dir'] and os.path.exists(BORNO + '_cover') else BORNO
            p = subprocess.run([exe] + c.args, input=c.stdin, capture_output=True, cwd=d, timeout=timeout,
                               env=cover_env({'PATH': '/usr/bin:/bin', 'GOMEMLIMIT': '1GiB'}))
            c.out, c.err, c.status = p.stdout, p.stderr, p.returncode
        except subprocess.TimeoutExpired as e:
            c.out, c.err, c.status, c.timed_out = e.stdout or b'', e.stderr or b'', None, True
    finally:
        shutil.rmtree(d, ignore_errors=True)
    return c

def execute_cli(cases, timeout=10, fuel=8000, jobs=None):
    os.makedirs(os.path.join(BUILD, 'tmp'), exist_ok=True)
    t0 = time.time()
    with ThreadPoolExecutor(max_workers=jobs or NCPU) as ex:
        list(ex.map(lambda c: _run_one_cli(c, timeout), cases))
    t1 = time.time()
    reqs = []
    withmodel = [c for c in cases if not c.label.startswith('impl-only')]
    for c in withmodel:
        spec = 'missing'
        if c.script is not None and c.files.get(c.script) is not None:
            spec = 'ok:' + hx(c.files[c.script])
        reqs.append('cli\t' + hx(''.join('\x01' + a for a in c.args)) + '\t' + hx(c.stdin) + '\t' + spec)
    # 'impl-only' cases are beyond the model driver's reach (millions of iterations): decided by their oracle alone
    mod = run_model(reqs, fuel=fuel)
    for c in cases:
        c.model = None
    for c, m in zip(withmodel, mod):
        c.model = m
    # as in `execute`: a process that ended normally while the model driver ran out of its step budget is beyond the
    # driver's reach, not a disagreement — asked again with eight times the budget, unanswered if that is not enough
    starved = [(c, r) for c, r in zip(withmodel, reqs) if (c.model or '').startswith('ABN:fuel') and not c.timed_out]
    if starved and len(starved) <= 100:
        again = run_model([r for _, r in starved], fuel=fuel * 8, jobs=8)
        for (c, _), m in zip(starved, again):
            c.model = m
    unanswered = 0
    for c in withmodel:
        if (c.model or '').startswith('ABN:fuel') and not c.timed_out:
            c.model = None
            unanswered += 1
    CLI_STATS['model_unanswered'] = CLI_STATS.get('model_unanswered', 0) + unanswered
    return {'impl_s': round(t1 - t0, 1), 'model_s': round(time.time() - t1, 1)}

def cli_canon_err(err):
    """stderr of the process with the Go-specific tails removed (same rules as cmd/impl)"""
    s = err.decode('utf-8', errors='replace')
    out = []
    i = 0
    while True:
        cands = [(s.find(p, i), k) for k, p in enumerate(["expected a number, got", "expected an integer, got", " does not exist on object '"]) if s.find(p, i) >= 0]
        if not cands:
            out.append(s[i:]); break
        j, k = min(cands)
        if k < 2:
            pat = ["expected a number, got", "expected an integer, got"][k]
            out.append(s[i:j + len(pat)])
            e = s.find("\n[line ", j)
            if e < 0: break
            i = e
        else:
            out.append(s[i:j + len(" does not exist on object")])
            e = s.find("'.\n[line ", j)
            if e < 0: break
            i = e + 2
    s = ''.join(out)
    # unreadable file: keep the model's prefix only
    if s.startswith("Error: could not read file '"):
        k = s.find("': ")
        if k >= 0:
            s = s[:k + 3]
    return s

def cli_same(c):
    if c.model is None:
        return True
    if c.timed_out:
        return c.model.startswith('ABN:fuel') or c.model.startswith('ABN:cyclic')
    if c.model.startswith('ABN'):
        return False
    f = fields(c.model)
    return (hx(c.out) == f.get('O') and hx(cli_canon_err(c.err)) == f.get('E') and str(c.status) == f.get('X'))

def cli_describe(c):
    d = {'args': c.args, 'stdin': c.stdin.decode('utf-8', 'replace'),
         'files': {k: (None if v is None else v.decode('utf-8', 'replace')) for k, v in c.files.items()},
         'impl': {'stdout': c.out.decode('utf-8', 'replace'), 'stderr': c.err.decode('utf-8', 'replace'), 'status': c.status, 'timed_out': c.timed_out}}
    if c.model is not None:
        d['model'] = describe(c.model)
    return d


def cli_oracle_expect(clis):
    """implementation-only cases carry what the property prescribes in `note`: {'out':…, 'err':…, 'status':…}"""
    bad = []
    for c in clis:
        if not c.label.startswith('impl-only') or not isinstance(c.note, dict):
            continue
        if c.timed_out:
            bad.append((c, 'the run did not finish')); continue
        exp = c.note
        if 'out' in exp and c.out != exp['out'].encode():
            bad.append((c, f'stdout is {c.out[:200]!r}, the property prescribes {exp["out"][:200]!r}')); continue
        if 'err' in exp and c.err != exp['err'].encode():
            bad.append((c, f'stderr is {c.err[:200]!r}, the property prescribes {exp["err"][:200]!r}')); continue
        if 'status' in exp and c.status != exp['status']:
            bad.append((c, f'exit status {c.status}, the property prescribes {exp["status"]}'))
    return bad

def long_loop_cases():
    """loops far longer than any model run: six million iterations of while and of for, a late break and a late continue"""
    from .core import KW
    W, F, P, V, I, B, C = KW['while'], KW['for'], KW['print'], KW['var'], KW['if'], KW['break'], KW['continue']
    progs = [
        (f'{V} i = 0;\n{W} (i < 6000000) {{ i = i + 1; }}\n{P} i;\n{P} "end";\n', '6e+06\nend\n'),
        (f'{V} s = 0;\n{F} ({V} i = 0; i < 6000000; i = i + 1) {{ {I} (i % 2 == 0) {C}; s = s + 1; }}\n{P} s;\n', '3e+06\n'),
        (f'{V} i = 0;\n{W} (1) {{ i = i + 1; {I} (i == 2500000) {B}; }}\n{P} i;\n', '2.5e+06\n'),
    ]
    return [CliCase('impl-only-long-loop', ['p.bn'], {'p.bn': src.encode()}, b'', 'p.bn', note={'out': out, 'err': '', 'status': 0}) for src, out in progs]

def go_v(x):
    """the text fmt's %v gives a float64: shortest round-trip digits, exponent form when the decimal exponent is < -4 or >= 6"""
    from decimal import Decimal
    x = float(x)
    if x != x: return 'NaN'
    if x in (float('inf'), float('-inf')): return '+Inf' if x > 0 else '-Inf'
    if x == 0: return '-0' if str(x).startswith('-') else '0'
    sign, digits, exp = Decimal(repr(x)).as_tuple()
    digits = list(digits)
    while len(digits) > 1 and digits[-1] == 0:
        digits.pop(); exp += 1
    nd = len(digits); dp = nd + exp; e = dp - 1
    ds = ''.join(map(str, digits))
    if e < -4 or e >= 6:
        body = ds[0] + ('.' + ds[1:] if nd > 1 else '') + ('e+' if e >= 0 else 'e-') + ('%02d' % abs(e))
    elif dp <= 0:
        body = '0.' + '0' * (-dp) + ds
    elif dp >= nd:
        body = ds + '0' * (dp - nd)
    else:
        body = ds[:dp] + '.' + ds[dp:]
    return ('-' if sign else '') + body

def volume_cases(kinds, tier='quick'):
    """implementation-alone programs whose only distinction is VOLUME (hundreds of thousands of calls, scope entries,
    loop rounds, elements): the model driver cannot run that long, but what the property prescribes is a closed form"""
    from .core import KW, NAT
    W, F, P, V, I, B, C, FN, R, E = KW['while'], KW['for'], KW['print'], KW['var'], KW['if'], KW['break'], KW['continue'], KW['fun'], KW['return'], KW['else']
    LEN, APP = NAT['len'], NAT['append']
    big = tier == 'thorough'
    out = []
    def add(kind, name, src, lines):
        if kind in kinds:
            out.append(CliCase('impl-only-volume', ['p.bn'], {'p.bn': src.encode()}, b'', 'p.bn',
                               note={'out': ''.join(l + '\n' for l in lines), 'err': '', 'status': 0, 'name': name}))
    for n in ([12000, 150000] if not big else [9999, 10000, 10001, 32768, 65537, 150000, 1100000]):
        add('calls', f'calls-noreturn-{n}', f'{V} c = 0;\n{FN} bump() {{ c = c + 1; }}\n{F} ({V} i = 0; i < {n}; i = i + 1) {{ bump(); }}\n{P} c;\n{FN} id(x) {{ {R} x; }}\n{P} id(7);\n{P} bump();\n{P} c;\n',
            [go_v(n), '7', 'nil', go_v(n + 1)])
        add('calls', f'calls-return-{n}', f'{FN} g(x) {{ {R} x + 1; }}\n{V} v = 0;\n{F} ({V} i = 0; i < {n}; i = i + 1) {{ v = g(v); }}\n{P} v;\n{P} g(1);\n', [go_v(n), '2'])
        add('calls', f'calls-return-in-loop-{n}', f'{FN} g(x) {{ {W} ({KW["true"]}) {{ {I} (x > 0) {{ {R} x; }} x = x + 1; }} }}\n{V} v = 0;\n{F} ({V} i = 0; i < {n}; i = i + 1) {{ v = v + g(1); }}\n{P} v;\n', [go_v(n)])
        add('calls', f'calls-native-{n}', f'{V} v = 0;\n{F} ({V} i = 0; i < {n}; i = i + 1) {{ v = v + {LEN}([i, i]); }}\n{P} v;\n{P} {LEN}([7]);\n', [go_v(2 * n), '1'])
        add('calls', f'closures-{n}', f'{FN} mk(k) {{ {FN} get() {{ {R} k; }} {R} get; }}\n{V} s = 0;\n{F} ({V} i = 0; i < {n}; i = i + 1) {{ {V} h = mk(i); s = s + h() - i + 1; }}\n{P} s;\n', [go_v(n)])
        add('scopes', f'blocks-{n}', f'{V} x = 1;\n{V} s = 0;\n{F} ({V} i = 0; i < {n}; i = i + 1) {{ {{ {V} x = i; {{ {V} x = 2; s = s + x; }} }} }}\n{P} s;\n{P} x;\n', [go_v(2 * n), '1'])
        add('scopes', f'shadow-in-call-{n}', f'{V} x = 5;\n{FN} f(x) {{ {V} y = x; x = x + 1; {R} y; }}\n{V} s = 0;\n{F} ({V} i = 0; i < {n}; i = i + 1) {{ s = s + f(1); }}\n{P} s;\n{P} x;\n', [go_v(n), '5'])
        add('loops', f'nested-loops-{n}', f'{V} s = 0;\n{F} ({V} i = 0; i < {n // 100}; i = i + 1) {{ {F} ({V} j = 0; j < 1000; j = j + 1) {{ {I} (j >= 100) {B}; {I} (j % 2 == 1) {C}; s = s + 1; }} }}\n{P} s;\n', [go_v((n // 100) * 50)])
        add('loops', f'loop-in-function-{n}', f'{FN} f(n) {{ {V} k = 0; {W} ({KW["true"]}) {{ k = k + 1; {I} (k == n) {{ {R} k; }} }} }}\n{P} f({n});\n{P} "after";\n', [go_v(n), 'after'])
    for n in ([20000, 60000] if not big else [9999, 10001, 20000, 60000, 100000]):
        add('calls', f'recursion-{n}', f'{FN} sum(n) {{ {I} (n == 0) {{ {R} 0; }} {R} n + sum(n - 1); }}\n{P} sum({n});\n{P} sum(3);\n', [go_v(n * (n + 1) // 2), '6'])
        add('calls', f'recursion-noreturn-{n}', f'{V} c = 0;\n{FN} down(n) {{ {I} (n > 0) {{ c = c + 1; down(n - 1); }} }}\ndown({n});\n{P} c;\ndown(2);\n{P} c;\n', [go_v(n), go_v(n + 2)])
    for n in ([20000] if not big else [4096, 20000, 70000]):
        add('data', f'array-grown-{n}', f'{V} a = [];\n{F} ({V} i = 0; i < {n}; i = i + 1) {{ a = {APP}(a, i); }}\n{P} {LEN}(a);\n{P} a[{n - 1}];\n{P} a[0];\n', [go_v(n), go_v(n - 1), '0'])
        add('data', f'keys-of-fresh-objects-{n}', f'{V} bad = 0;\n{F} ({V} i = 0; i < {n * 5}; i = i + 1) {{ {V} o = {{a: 1, b: 2, c: 3, d: 4}}; {I} (i % 2 == 1) {{ o = {{w: i, x: 2, y: 3, z: 4}}; }} '
            f'{V} ks = {NAT["keys"]}(o); {V} vs = {NAT["values"]}(o); {I} (i % 2 == 1) {{ {I} (ks[0] != "w" || vs[0] != i) {{ bad = bad + 1; }} }} {E} {{ {I} (ks[0] != "a" || vs[3] != 4) {{ bad = bad + 1; }} }} }}\n{P} bad;\n', ['0'])
        add('data', f'fresh-arrays-{n}', f'{V} bad = 0;\n{F} ({V} i = 0; i < {n * 5}; i = i + 1) {{ {V} a = [i, [i + 1, 0]]; {V} b = [0, [0, 0]]; b[1][1] = i; {I} (a[1][1] != 0 || a[1][0] != i + 1 || {LEN}(a) != 2) {{ bad = bad + 1; }} }}\n{P} bad;\n', ['0'])
        add('data', f'string-grown-{n}', f'{V} s = "";\n{F} ({V} i = 0; i < {n}; i = i + 1) {{ s = s + "ab"; }}\n{P} s == s + "";\n{P} s == s + "a";\n', ['true', 'false'])
    return out

def shrink_case(c, fuel=8000, timeout_ms=5000, budget_s=150):
    """delta-debug a model-vs-implementation disagreement: drop pieces of the source (lines first, then blank-separated
    words) while implementation and model still differ; the candidates of one round run in parallel"""
    if not isinstance(c.src, str) or len(c.src) < 400 or c.model is None:
        return c
    mode = c.req.split('\t', 1)[0]
    stdin = unhx(c.req.split('\t')[2]) if c.req.count('\t') >= 2 else b''
    t_end = time.time() + budget_s
    def still_fails(srcs):
        cs = [run_case(mode, s_, stdin, keys=c.keys, label=c.label, group=c.group, note=c.note) for s_ in srcs]
        execute(cs, fuel=fuel, timeout_ms=timeout_ms)
        bad = {id(x) for x in disagreements(cs)}
        return [x if id(x) in bad else None for x in cs]
    best = c
    for sep in ('\n', ' '):
        units = best.src.split(sep)
        n = 2
        while len(units) >= 2 and time.time() < t_end:
            size = max(1, (len(units) + n - 1) // n)
            chunks = [units[i:i + size] for i in range(0, len(units), size)]
            cands = [sep.join(ch) for ch in chunks] if n == 2 else []
            cands += [sep.join(u for j, ch in enumerate(chunks) if j != i for u in ch) for i in range(len(chunks))] if len(chunks) > 1 else []
            cands = cands[:24]
            res = still_fails(cands)
            hit = next((x for x in res if x is not None), None)
            if hit is not None:
                best = hit
                units = best.src.split(sep)
                n = max(2, n - 1)
            elif size == 1:
                break
            else:
                n = min(len(units), n * 2)
    return best
