import BornoModel.Eval
import BornoModel.Lemmas.EvalInv
/-! # C04 — calls bind arguments by position, return exactly; closures own captured state -/
namespace Borno.Props.C04
open Borno

section
variable (P : Platform)

/-- a call runs the body in a *fresh* activation frame (index = number of frames allocated so far) whose
    parent is the closure's captured scope — not the caller's —, holding first the function's own
    name, then the parameters bound to the arguments in order -/
theorem call_binds_positionally (f : Nat) (id : Nat) (args : List Val) (σ : Store) (cl : Closure)
    (hcl : σ.funs[id]? = some cl) (hn : cl.params.length ≤ args.length) :
    callFn P (f + 1) id args σ =
      (runBody P f cl.body σ.envs.length
        ((cl.params.zip args).foldl (fun s (p : Name × Val) => s.define σ.envs.length p.1 p.2)
          ((σ.newEnv (some cl.env)).1.define σ.envs.length cl.name (.fn id)))).bind fun v σ4 => .ok (v, .none) σ4 := by
  rw [callFn]; simp only [hcl]
  have : ¬ args.length < cl.params.length := by omega
  simp [this]

/-- the activation frame is new: no earlier frame is replaced by its allocation -/
theorem activation_fresh (σ : Store) (parent : Option Nat) :
    (σ.newEnv parent).2 = σ.envs.length ∧
    (∀ i, i < σ.envs.length → (σ.newEnv parent).1.envs[i]? = σ.envs[i]?) ∧
    (σ.newEnv parent).1.envs[σ.envs.length]? = some ⟨[], parent⟩ := by
  refine ⟨rfl, ?_, ?_⟩
  · intro i hi; simp [Store.newEnv, List.getElem?_append_left hi]
  · simp [Store.newEnv]

/-- the value of a call is the value of the first `ফেরত` executed, and nothing after it in the body runs;
    a body that ends without one yields nil -/
theorem return_ends_body (f : Nat) (s : Stmt) (ss : List Stmt) (env : Nat) (σ σ1 : Store) (x : Val) (l : Nat) (w : Val)
    (hs : evalS P f s env false σ = .ok (w, .ret l x) σ1) :
    runBody P (f + 1) (s :: ss) env σ = .ok x σ1 := by
  rw [runBody]; simp only [guardErr, ER.seq, Res.bind, hs]

theorem no_return_nil (f : Nat) (env : Nat) (σ : Store) : runBody P (f + 1) [] env σ = .ok .nil σ := by
  rw [runBody]

theorem body_continues_without_signal (f : Nat) (s : Stmt) (ss : List Stmt) (env : Nat) (σ σ1 : Store) (w : Val)
    (hs : evalS P f s env false σ = .ok (w, .none) σ1) :
    runBody P (f + 1) (s :: ss) env σ = runBody P f ss env σ1 := by
  rw [runBody]; simp only [guardErr, ER.seq, Res.bind, hs]

/-- `ফেরত` raises a return signal carrying the value; blocks, branches and both loops hand it upward unchanged -/
theorem return_signal (f : Nat) (e : Expr) (line env : Nat) (repl : Bool) (σ σ1 : Store) (x : Val)
    (h0 : σ.hadError = false) (he : evalE P f e env repl σ = .ok (x, .none) σ1) :
    evalS P (f + 1) (.returnS line (some e)) env repl σ = .ok (.nil, .ret line x) σ1 ∧
    evalS P (f + 1) (.returnS line none) env repl σ = .ok (.nil, .ret line .nil) σ := by
  constructor
  · rw [evalS]; simp only [guardErr, ER.seq, Res.bind, h0, he]; simp
  · rw [evalS]; simp [guardErr, ER.seq, Res.bind, h0]

theorem return_through_block (f : Nat) (s : Stmt) (ss : List Stmt) (env : Nat) (repl : Bool) (σ σ1 : Store) (w x : Val) (l : Nat)
    (hs : evalS P f s env repl σ = .ok (w, .ret l x) σ1) :
    evalBlock P (f + 1) (s :: ss) env repl σ = .ok (.nil, .ret l x) σ1 := by
  rw [evalBlock]; simp only [guardErr, ER.seq, Res.bind, hs]; simp

theorem return_through_while (f : Nat) (c : Expr) (b : Stmt) (env : Nat) (repl : Bool) (σ σ1 σ2 : Store) (cv w x : Val) (l : Nat)
    (hc : evalE P f c env repl σ = .ok (cv, .none) σ1) (ht : truthy cv = true)
    (hb : evalS P f b env repl σ1 = .ok (w, .ret l x) σ2) :
    whileLoop P (f + 1) c b env repl σ = .ok (.nil, .ret l x) σ2 := by
  rw [whileLoop]; simp only [guardErr, ER.seq, Res.bind, hc, hb]; simp [guardErr, ER.seq, Res.bind, ht]

theorem return_through_for (f : Nat) (c : Expr) (inc : Option Expr) (b : Stmt) (env : Nat) (repl : Bool) (σ σ1 σ2 : Store) (cv w x : Val) (l : Nat)
    (hc : evalE P f c env repl σ = .ok (cv, .none) σ1) (ht : truthy cv = true)
    (hb : evalS P f b env repl σ1 = .ok (w, .ret l x) σ2) :
    forLoop P (f + 1) c inc b env repl σ = .ok (.nil, .ret l x) σ2 := by
  rw [forLoop]; simp only [guardErr, ER.seq, Res.bind, hc, hb]; simp [guardErr, ER.seq, Res.bind, ht]

/-- calling something that is not a function, or a function with the wrong number of arguments, is a
    runtime error at the call's closing parenthesis; the callee is not entered -/
theorem call_errors (f : Nat) (c : Expr) (args : List Expr) (line env : Nat) (repl : Bool) (σ σ1 : Store) (cv : Val)
    (h0 : σ.hadError = false) (hc : evalE P f c env repl σ = .ok (cv, .none) σ1) :
    ((∀ id, cv ≠ .fn id) → (∀ n, cv ≠ .native n) →
      evalE P (f + 1) (.call c line args) env repl σ = .ok (.nil, .none) (σ1.rte "Can only call functions.".toList line)) ∧
    (∀ id cl, cv = .fn id → σ1.funs[id]? = some cl → args.length ≠ cl.params.length →
      ∃ m, evalE P (f + 1) (.call c line args) env repl σ = .ok (.nil, .none) (σ1.rte m line)) := by
  constructor
  · intro h1 h2
    rw [evalE]; simp only [guardErr, ER.seq, Res.bind, h0, hc]
    cases cv <;> simp [nilOk, arityOf] at h1 h2 ⊢
  · intro id cl hcv hcl hne
    subst hcv
    rw [evalE]; simp only [guardErr, ER.seq, Res.bind, h0, hc]
    have h1 : ¬ (args.length : Int) = (cl.params.length : Int) := by omega
    have h2 : ¬ (cl.params.length : Int) = -1 := by omega
    simp only [arityOf, hcl, Option.map_some, ne_eq, h1, h2, not_false_eq_true, Bool.and_self, decide_true, if_true,
      Bool.false_eq_true, if_false, not_true_eq_false, nilOk, bne_iff_ne, Bool.and_eq_true, decide_eq_true_eq, and_self]
    exact ⟨_, rfl⟩

/-- a function declaration captures (a fresh child of) the scope it is executed in: each execution of
    the declaration allocates its own closure frame, so two closures made by two executions are separate -/
theorem declaration_captures_current_scope (f : Nat) (name : Name) (ps : List Name) (body : List Stmt) (env : Nat) (repl : Bool) (σ : Store)
    (h0 : σ.hadError = false) (henv : env < σ.envs.length) :
    ∃ σ', evalS P (f + 1) (.funS name ps body) env repl σ = .ok (.nil, .none) σ' ∧
      σ'.funs = σ.funs ++ [⟨name, ps, body, σ.envs.length⟩] ∧
      σ'.envs.length = σ.envs.length + 1 ∧
      σ'.envs[σ.envs.length]? = some ⟨[], some env⟩ := by
  refine ⟨_, by rw [evalS]; simp [guardErr, ER.seq, Res.bind, h0, nilOk, Store.newEnv, Store.newFun]; rfl, ?_, ?_, ?_⟩
  · simp [Store.define, Store.newEnv, Store.newFun]
    split <;> rfl
  · simp [Store.define, Store.newEnv, Store.newFun]
    split <;> simp
  · simp [Store.define, Store.newEnv, Store.newFun]
    split
    · rename_i fr hfr
      have he : env ≠ σ.envs.length := by omega
      simp [List.getElem?_set, he]
    · simp

/-- **a function value keeps what it captured**: across any evaluation a closure keeps its declaration
    and the scope it captured, and that scope keeps its place in the chain and all its names — the
    captured variables stay alive after the declaring scope has finished -/
theorem closure_keeps_captured_scope (f : Nat) (s : Stmt) (env : Nat) (repl : Bool) (σ σ' : Store) (r : Val × Signal)
    (h : evalS P f s env repl σ = .ok r σ') (id : Nat) (cl : Closure) (hcl : σ.funs[id]? = some cl)
    (fr : Frame) (hfr : σ.envs[cl.env]? = some fr) :
    σ'.funs[id]? = some cl ∧ ∃ fr', σ'.envs[cl.env]? = some fr' ∧ fr'.parent = fr.parent ∧
      ∀ n, (fr.vars.lookup n).isSome = true → (fr'.vars.lookup n).isSome = true := by
  have := (allSat P f).s s env repl σ; rw [h] at this
  exact ⟨this.funs_keep id cl hcl, this.env_keep _ fr hfr⟩

end
end Borno.Props.C04
