# Process-level campaigns: C19 (exit status, streams, ইনপুট), C20 (interactive sessions)
import itertools
from .core import *
from .gen import *
from .runner import *

P = KW['print']; VAR = KW['var']; FUN = KW['fun']; IF = KW['if']; WHILE = KW['while']; TRUE = KW['true']; RET = KW['return']; BRK = KW['break']; CONT = KW['continue']; FOR = KW['for']
INP = NAT['input']

DIRECTIVE_LINES = ['#!/usr/bin/env borno', '#!borno', '#!', '#', '# comment', '#lang borno', '#include <x>', '<?borno', '%YAML 1.2', '-*- coding: utf-8 -*-', '// -*- mode: borno -*-', '@echo off', '"use strict";',
                   '\ufeff#!/usr/bin/env borno', ':set fileencoding=utf-8', 'package main', 'import x', '---', '\\', 'exit', '__END__']

def c19(tier, rng):
    cli = []
    ok = f'{P} "out";\n'.encode()
    # command lines
    names = ['a.bn', 'a.BN', 'a.bn.txt', '.bn', 'a.', 'a', 'a.bnx', 'x.y.bn', 'dir.bn/inner', 'dir.x/a.bn', 'a.b n', 'বাংলা.bn', 'a.bn ', '-.bn', 'missing.bn', 'isdir.bn', 'a.txt', 'bn', '..bn', 'a..bn']
    for nme in names:
        files = {}
        if nme not in ('missing.bn',):
            if nme == 'isdir.bn':
                files[nme] = None
            else:
                files[nme] = ok
        cli.append(CliCase('one-argument', [nme], files, b'', nme))
    for args in ([], ['a.bn', 'b.bn'], ['a.bn', 'b.bn', 'c'], ['a', 'b'], ['a.txt', 'a.bn'], ['a.bn', ''], ['', '']):
        cli.append(CliCase('argument-count', list(args), {'a.bn': ok, 'b.bn': ok}, b'', None if args else None))
    cli.append(CliCase('empty-name', [''], {}, b'', ''))
    # outcome classes x error position x stdin shapes x number of ইনপুট calls
    stdins = [b'', b'one\n', b'one', b'one\ntwo\n', b'one\ntwo', b' padded \t\n\nthree\n', b'\n', b'one\r\ntwo\r\n', b'a\nb\nc\nd\n', ' nbsp \n'.encode(), b'\x0bvt\x0c\n']
    def reads(k, prompt):
        return ''.join(f'{P} "[" + {INP}({prompt}) + "]";\n' for _ in range(k))
    bodies = {
        'clean': '{R}' + f'{P} "done";\n',
        'lexical-first': '@\n{R}' + f'{P} "x";\n',
        'lexical-last': '{R}' + f'{P} "x";\n"open\n',
        'syntax-first': f'{P} ;\n' + '{R}',
        'syntax-middle': f'{P} "x";\n' + '{R}' + f'{VAR} = 1;\n{P} "y";\n',
        'syntax-last': '{R}' + f'{P} "x";\n{P} (1;\n',
        'lenient-semicolon': '{R}' + f'{P} "x"\n{P} "y";\n',
        'runtime-first': f'{P} nope;\n' + '{R}',
        'runtime-middle': f'{P} "x";\n' + '{R}' + f'{P} 1 / 0;\n{P} "y";\n',
        'runtime-last': '{R}' + f'{P} "x";\n[1][2];\n',
        'runtime-in-loop': '{R}' + f'{VAR} i = 0;\n{WHILE} ({TRUE}) {{ i = i + 1; {IF} (i > 2) {{ {P} i.p; }} }}\n',
        'both-lexical-and-would-be-runtime': f'{P} nope;\n@\n' + '{R}',
        'empty': '{R}',
    }
    for cls, body in bodies.items():
        for k in (0, 1, 2, 3):
            for prompt in ('', '"? "'):
                if k == 0 and prompt:
                    continue
                src = body.replace('{R}', reads(k, prompt))
                sel = stdins if (tier == 'thorough' or cls in ('clean', 'runtime-middle', 'syntax-middle')) else stdins[:5]
                for si in sel:
                    cli.append(CliCase('outcome-x-stdin', ['s.bn'], {'s.bn': src.encode()}, si, 's.bn', note=cls))
    # ইনপুট misuse
    for a in ['1', 'nil', '[1]', '"a", "b"', f'{INP}', '"" + 5']:
        cli.append(CliCase('input-misuse', ['s.bn'], {'s.bn': f'{P} {INP}({a});\n{P} "after";\n'.encode()}, b'line\nnext\n', 's.bn'))
    # a first line that looks like a directive to a shell, an editor or another language is program text like any other
    for first in DIRECTIVE_LINES:
        for rest in (f'{P} "ran";\n', f'{P} "ran";\n{P} nope;\n'):
            cli.append(CliCase('first-line-directive', ['s.bn'], {'s.bn': (first + '\n' + rest).encode()}, b'', 's.bn'))
        cli.append(CliCase('first-line-directive', ['s.bn'], {'s.bn': (first + '\n').encode()}, b'', 's.bn'))
        cli.append(CliCase('first-line-directive', ['s.bn'], {'s.bn': (' ' + first + '\n' + f'{P} "ran";\n').encode()}, b'', 's.bn'))
    # invalid UTF-8 and odd bytes in the script
    for raw in [b'\xff', f'{P} "'.encode() + b'\xc3\x28' + b'";\n', b'\xef\xbb\xbf' + ok, ok + b'\x00', ok.replace(b'\n', b'\r\n'), b'']:
        cli.append(CliCase('odd-bytes', ['s.bn'], {'s.bn': raw}, b'', 's.bn'))
    n = 150 if tier == 'quick' else 3000
    for i in range(n):
        r = rng.fork(i)
        src = r_prog(random_program(r, 3 + r.below(8), 3, err=25))
        if r.chance(1, 5):
            src = src.replace(';', '', 1) if r.chance(1, 2) else src + '\n)'
        cli.append(CliCase('random', ['s.bn'], {'s.bn': src.encode()}, b'3\n4\n', 's.bn'))
    # size-only scripts (see vlib/scale.py) through the executable: as they are, and followed by a runtime error
    from .scale import scale_programs
    sc = scale_programs(tier)
    for name, src in sc:
        if name.startswith(('iterations', 'long-loop')) or platform_sensitive(src):
            continue     # pow / sin / cos / tan are platform parameters of the model: their last digit is not compared here
        cli.append(CliCase('scale-script', ['s.bn'], {'s.bn': src.encode()}, b'', 's.bn', note=name))
        if name.startswith('nested'):
            cli.append(CliCase('scale-script', ['s.bn'], {'s.bn': (src + f'{P} "reached";\n{P} nope;\n{P} "not reached";\n').encode()}, b'', 's.bn', note=name + '+runtime-error'))
            cli.append(CliCase('scale-script', ['s.bn'], {'s.bn': (f'{P} "first";\n' + src + '@\n').encode()}, b'', 's.bn', note=name + '+lexical-error'))
    # the re-execution programs (vlib/camp_reexec.py) through the executable: what they print and how they end
    from .camp_reexec import reexec_programs
    rx = reexec_programs('quick')
    for name, src in rx:
        cli.append(CliCase('reexec-script', ['s.bn'], {'s.bn': src.encode()}, b'', 's.bn', note=name))
    rule = (f'{len(names)} script names (every extension shape, directories, missing), 7 argument counts; {len(bodies)} outcome classes (clean, lexical / syntax / runtime error first, middle, last, in a loop, lenient) x 0..3 ইনপুট calls with and without prompt x '
            f'{len(stdins)} stdin contents (0..4 lines, with/without final newline, CRLF, padded, Unicode blanks); ইনপুট misuse; odd script bytes; {len(DIRECTIVE_LINES)} first lines that look like directives to a shell, an editor or another language; {n} random programs; {len(sc)} size-only scripts (deep nesting, long lists, many names), also followed by a runtime / lexical error; {len(rx)} re-execution scripts — all through the real executable, compared with the model on stdout, stderr and status; '
            'on the implementation alone: status 0 iff stderr empty, 65/70 exclusive, stdout silent on 64/65. Non-trivial = every run.')
    return {'cli': cli, 'cases': [], 'rule': rule, 'exhaustive': False, 'cli_oracles': [cli_oracle_c19]}

def cli_oracle_c19(clis):
    bad = []
    for c in clis:
        if c.timed_out:
            continue
        if c.status not in (0, 1, 64, 65, 70):
            bad.append((c, f'exit status {c.status}')); continue
        if c.status != 64 and (c.status == 0) != (c.err == b''):
            bad.append((c, f'status {c.status} but stderr {"empty" if not c.err else "not empty"}')); continue
        if c.status == 65 and c.out != b'':
            bad.append((c, 'a rejected script wrote to stdout')); continue
        if c.status == 64 and (c.err != b'' or not c.out):
            bad.append((c, 'usage / extension error without the message on stdout')); continue
        if c.status in (65, 70) and b'[line ' not in c.err:
            bad.append((c, 'error status without a diagnostic'))
    return bad

# ---------------------------------------------------------------- C20

def c20(tier, rng):
    LEN = NAT['len']; MAX = NAT['max']
    pool = [
        f'{P} 1 + 2;', '1 + 2;', '"text";', 'nil;', '[1, {a: 2}];', f'{LEN}([1, 2, 3]);', f'{MAX}(3, 9);', f'{VAR} v = 5;', 'v;', 'v = v + 1;', f'{FUN} h() {{ {RET} 7; }}', 'h();',
        '@', '"unterminated', '1 +;', f'{P} (;', f'{VAR} = 3;', 'nope;', '1 / 0;', f'{LEN}(5);', f'{P} [1][4];', f'{LEN} = 5;', f'{LEN} = 5; {LEN}([1]);', f'{MAX} = 0; 1 / {MAX};', f'{P} 1 {P} 2;', '{',
        '1' + '0' * 400 + ';', '১' + '০' * 400 + ';', f'{P} ' + '৯' * 310 + '.৫;', '/* open', f'{P} "a" + ৫;', f'{VAR} বড় = ' + '৯' * 309 + ';',
        'exit', 'quit', 'exit;', 'quit();', ':q', '.exit', 'help', 'clear', '\\q', f'{P} 1; \\', '\\', f'{P} 1 \\', '...', '\x04', '#!/usr/bin/env borno', '# comment',
        f'{FUN} e1() {{ {RET}; }} e1();', f'{FUN} e2() {{ }} e2();', f'{FUN} e3() {{ {RET} nil; }} e3();', f'{RET} 42;', f'{RET} "kept";', f'{RET} [1, 2];', f'{FUN} e4() {{ {WHILE} ({TRUE}) {{ {BRK}; }} }} e4();',
        f'{FUN} e5() {{ {FOR} ({VAR} i = 0; i < 2; i = i + 1) {{ {CONT}; }} }} e5();', f'{CONT};',
        f'{BRK};', f'{RET} 1;', '', '   ', '// comment', f'{IF} ({TRUE}) 3;', f'{VAR} a = 1; {VAR} a = 2;', '1; 2; 3;', f'{WHILE} ({TRUE}) {{ {BRK}; }}', 'x' * 70000 + ';',
    ]
    probes = [f'{LEN}([1, 2, 3]);', f'{MAX}(3, 9);', '1 + 2;', f'{P} "p";', '"s" + 1;']
    # a probe that exercises every way a call can end (bare return, no return, value) and every loop exit
    probes_fn = [f'{FUN} z() {{ {RET}; }} z();', f'{FUN} z() {{ }} z();', f'{FUN} z(n) {{ {WHILE} (n > 0) {{ n = n - 1; {IF} (n == 1) {{ {BRK}; }} }} {RET} n; }} z(3);']
    cli = []
    L = 2 if tier == 'quick' else 3
    for n in range(1, L + 1):
        # triples (thorough) over a third of the pool, chosen across all kinds of line: the full cube would be a million sessions
        idx = range(len(pool) - 1) if n <= 2 else [i for i in range(len(pool) - 1) if i % 3 == 0]
        for seq in itertools.product(idx, repeat=n):
            for pr in (probes if n <= 1 or tier == 'thorough' else probes[:2]):
                lines = [pool[i] for i in seq] + [pr]
                cli.append(CliCase('session', [], {}, ('\n'.join(lines) + '\n').encode(), None, note=(len(lines), pr)))
    for n in (1, 2):
        for seq in itertools.product(range(len(pool) - 1), repeat=n):
            if n == 2 and tier == 'quick' and (seq[0] * 31 + seq[1]) % 3:
                continue
            for pr in probes_fn:
                lines = [pool[i] for i in seq] + [pr]
                cli.append(CliCase('session', [], {}, ('\n'.join(lines) + '\n').encode(), None, note=(len(lines), pr)))
    # sessions whose LAST line is each kind of line (the status at end of input is 0 whatever the last line did)
    for i, ln in enumerate(pool[:-1]):
        cli.append(CliCase('session-ends-with', [], {}, (ln + '\n').encode(), None))
        cli.append(CliCase('session-ends-with', [], {}, ('1 + 1;\n' + ln).encode(), None))
        cli.append(CliCase('session-ends-with', [], {}, (pool[(i * 7) % (len(pool) - 1)] + '\n' + ln + '\n').encode(), None))
    cli.append(CliCase('session', [], {}, (pool[-1] + '\n1 + 1;\n').encode(), None, note=(2, '1 + 1;')))
    cli.append(CliCase('session-no-final-newline', [], {}, b'1 + 1;\n2 + 2;', None))
    cli.append(CliCase('session-empty', [], {}, b'', None))
    cli.append(CliCase('session-crlf', [], {}, b'1 + 1;\r\n"a";\r\n', None))
    m = 200 if tier == 'quick' else 5000
    for i in range(m):
        r = rng.fork(i)
        lines = [r.choice(pool[:-1]) for _ in range(3 + r.below(25))]
        pr = r.choice(probes)
        cli.append(CliCase('session-random', [], {}, ('\n'.join(lines + [pr]) + '\n').encode(), None, note=(len(lines) + 1, pr)))
    # long histories of failure: thousands of failing lines, and lines that fail thousands of calls deep; whatever a failed
    # line leaves behind (a counter, a flag, a half-unwound stack) has had every chance to add up before the probe
    deep = lambda k: f'{FUN} d(n) {{ {IF} (n == 0) {{ {RET} {LEN}(5); }} {RET} d(n - 1); }} d({k});'
    deepdiv = lambda k: f'{FUN} e(n) {{ {IF} (n == 0) {{ {RET} nope; }} {RET} 1 + e(n - 1); }} e({k});'
    hist = [[f'{LEN}(5);'] * 3000, ['nope;'] * 3000, [f'{FUN} q() {{ {RET} {LEN}(5); }} q();'] * 6000, ['1 +;'] * 3000, ['@'] * 3000,
            [deep(4000)] * 3, [deepdiv(3500)] * 4, [deep(12000)], [deep(40000)], [deep(700)] * 20, [deep(100), 'nope;', '@', '1 +;'] * 60]
    if tier == 'thorough':
        hist += [[f'{LEN}(5);'] * 40000, [deep(2000)] * 40, [deep(100000)], [deepdiv(9000)] * 8, [f'{MAX}();'] * 20000]
    for hl in hist:
        for pr in (probes if tier == 'thorough' else probes[:2]):
            cli.append(CliCase('impl-only-session', [], {}, ('\n'.join(hl + [pr]) + '\n').encode(), None, note=(len(hl) + 1, pr)))
    # the response to each probe as the first line of a fresh session
    for pr in probes + probes_fn + ['1 + 1;']:
        cli.append(CliCase('fresh-probe', [], {}, (pr + '\n').encode(), None, note=pr))
    rule = (f'every session of <= {min(L, 2)} lines (thorough: also every triple over a third of the pool) over a pool of {len(pool) - 1} representative lines (statements, bare expressions of every kind, lexical / syntax / runtime errors incl. out-of-range literals in both scripts and an open comment, lines that look like commands of a shell or another REPL (exit, quit, :q, help, a trailing backslash, a shebang), assignments to built-in names, stray signals, blank and comment lines) '
            f'followed by a probe line that uses only literals and built-ins, and sessions that END with each line of the pool (with and without a final newline) (and by three probes that define and call a function ending in a bare return, no return, a loop exit); {m} random sessions of 4..28 lines; {len(hist)} long histories of failure (thousands of failing lines, lines failing up to {100000 if tier == "thorough" else 40000} calls deep; implementation alone) before each probe; a 70 000-character line; missing final newline, CRLF, empty input. Compared with the model (stdout split at the prompts, stderr, status 0); '
            'on the implementation alone: the probe answers exactly as in a fresh session. Non-trivial = every session.')
    return {'cli': cli, 'cases': [], 'rule': rule, 'exhaustive': True, 'cli_oracles': [cli_oracle_c20], 'cli_timeout': 20}

def cli_oracle_c20(clis):
    bad = []
    fresh = {}
    for c in clis:
        if c.label == 'fresh-probe':
            parts = c.out.split(b'>> ')
            fresh[c.note] = parts[1] if len(parts) > 1 else None
    for c in clis:
        if c.status != 0 and not c.timed_out:
            bad.append((c, f'the session ended with status {c.status}')); continue
        if c.label in ('session', 'session-random', 'impl-only-session') and c.note:
            nlines, pr = c.note
            parts = c.out.split(b'>> ')
            # one prompt per line plus the final one
            if len(parts) != nlines + 2:
                bad.append((c, f'{len(parts) - 1} prompts for {nlines} lines')); continue
            if pr in fresh and fresh[pr] is not None and parts[nlines] != fresh[pr]:
                bad.append((c, f'the last line answers {parts[nlines]!r}, in a fresh session it answers {fresh[pr]!r}'))
    return bad
