import BornoModel.Parser
/-!
# Grammar — the published grammar as a renderer of trees

`rProg p` writes a tree out as the token sequence the grammar of `grammer.txt` derives for it (no
parentheses are added: a `Grouping` node prints its own).  Tokens are compared through `rtok`:
type, the lexeme of identifiers, the value of literals — spelling variants (`&&`/`এবং`), positions
and lines are not part of the grammar.
-/
namespace Borno.Grammar
open Borno

structure RTok where
  tt : TT
  name : Name
  lit : Lit
  deriving DecidableEq, Repr

def rtok (t : Token) : RTok :=
  ⟨t.tt, if t.tt = .IDENTIFIER then t.lexeme else [], if t.tt = .NUMBER ∨ t.tt = .STRING then t.lit else .none⟩

def kw (tt : TT) : RTok := ⟨tt, [], .none⟩
def idt (n : Name) : RTok := ⟨.IDENTIFIER, n, .none⟩

def rLit : LitVal → RTok
  | .nil => kw .NIL
  | .bool true => kw .TRUE
  | .bool false => kw .FALSE
  | .num x => ⟨.NUMBER, [], .num x⟩
  | .str s => ⟨.STRING, [], .str s⟩

mutual
def rExpr : Expr → List RTok
  | .literal v _ => [rLit v]
  | .ident n _ => [idt n]
  | .grouping e _ => kw .LEFT_PAREN :: rExpr e ++ [kw .RIGHT_PAREN]
  | .unary op _ e => kw op :: rExpr e
  | .binary l op _ r => rExpr l ++ kw op :: rExpr r
  | .logical l op r => rExpr l ++ kw op :: rExpr r
  | .call c _ args => rExpr c ++ kw .LEFT_PAREN :: rList args ++ [kw .RIGHT_PAREN]
  | .arrayLit es => kw .LEFT_BRACKET :: rList es ++ [kw .RIGHT_BRACKET]
  | .objectLit ps tc => kw .LEFT_BRACE :: rProps ps ++ (if tc then [kw .COMMA] else []) ++ [kw .RIGHT_BRACE]
  | .arrayAccess a i _ => rExpr a ++ kw .LEFT_BRACKET :: rExpr i ++ [kw .RIGHT_BRACKET]
  | .propAccess o p _ => rExpr o ++ [kw .DOT, idt p]
  | .assign n _ v _ => idt n :: kw .EQUAL :: rExpr v
  | .arrayAssign a i v _ => rExpr a ++ kw .LEFT_BRACKET :: rExpr i ++ kw .RIGHT_BRACKET :: kw .EQUAL :: rExpr v
  | .propAssign o p v _ => rExpr o ++ kw .DOT :: idt p :: kw .EQUAL :: rExpr v
def rList : List Expr → List RTok
  | [] => []
  | e :: es => rExpr e ++ (match es with
                           | [] => []
                           | _ :: _ => kw .COMMA :: rList es)
def rProps : List (Name × Expr) → List RTok
  | [] => []
  | (k, e) :: ps => idt k :: kw .COLON :: rExpr e ++ (match ps with
                                                      | [] => []
                                                      | _ :: _ => kw .COMMA :: rProps ps)
end

/-- an optional expression (loop condition, increment, return value) -/
def rOptE : Option Expr → List RTok
  | none => []
  | some e => rExpr e

def rInit : Option Expr → List RTok
  | none => []
  | some e => kw .EQUAL :: rExpr e

def rDecl (d : VarDecl) : List RTok := idt d.name :: rInit d.init

def rDecls : List VarDecl → List RTok
  | [] => []
  | d :: ds => rDecl d ++ (match ds with
                           | [] => []
                           | _ :: _ => kw .COMMA :: rDecls ds)

def rNames : List Name → List RTok
  | [] => []
  | n :: ns => idt n :: (match ns with
                         | [] => []
                         | _ :: _ => kw .COMMA :: rNames ns)

mutual
def rStmt : Stmt → List RTok
  | .expr e => rExpr e ++ [kw .SEMICOLON]
  | .print e => kw .PRINT :: rExpr e ++ [kw .SEMICOLON]
  | .var d => kw .VAR :: rDecl d ++ [kw .SEMICOLON]
  | .varList ds => kw .VAR :: rDecls ds ++ [kw .SEMICOLON]
  | .block ss => kw .LEFT_BRACE :: rStmts ss ++ [kw .RIGHT_BRACE]
  | .ifS c t e => kw .IF :: kw .LEFT_PAREN :: rExpr c ++ kw .RIGHT_PAREN :: rStmt t ++ rElse e
  | .whileS c b => kw .WHILE :: kw .LEFT_PAREN :: rExpr c ++ kw .RIGHT_PAREN :: rStmt b
  | .forS init c inc b =>
    kw .FOR :: kw .LEFT_PAREN :: rForInit init ++ rOptE c ++ kw .SEMICOLON :: rOptE inc ++ kw .RIGHT_PAREN :: rStmt b
  | .breakS _ => [kw .BREAK, kw .SEMICOLON]
  | .continueS _ => [kw .CONTINUE, kw .SEMICOLON]
  | .returnS _ v => kw .RETURN :: rOptE v ++ [kw .SEMICOLON]
  | .funS name ps body =>
    kw .FUN :: idt name :: kw .LEFT_PAREN :: rNames ps ++ kw .RIGHT_PAREN :: kw .LEFT_BRACE :: rStmts body ++ [kw .RIGHT_BRACE]
def rStmts : List Stmt → List RTok
  | [] => []
  | s :: ss => rStmt s ++ rStmts ss
/-- the initializer clause of a `ফর` header (a statement with its own `;`, or a bare `;`) -/
def rForInit : Option Stmt → List RTok
  | none => [kw .SEMICOLON]
  | some i => rStmt i
def rElse : Option Stmt → List RTok
  | none => []
  | some el => kw .ELSE :: rStmt el
end

def rProg (p : List Stmt) : List RTok := rStmts p ++ [kw .EOF]

/-! ## the ladder as a well-formedness predicate on trees

Positions in the grammar are numbered: 0 = `assignment`, `j + 1` = the ladder level `j` of
`Expect.ladder` (`logicalOR` … `power`), `nLevels + 1` = `unary`, `nLevels + 2` = `call` / `primary`.
`fits k e` says: the tree `e` may stand, unparenthesised, where the grammar expects position `k`. -/

abbrev nLev : Nat := Parser.nLevels

/-- the ladder level an operator belongs to -/
def levelOf (op : TT) : Option Nat := Expect.ladder.findIdx? (fun l => l.ops.contains op)

mutual
def fits : Nat → Expr → Bool
  | k, .assign _ _ v _ => k == 0 && fits 0 v
  | k, .arrayAssign a i v _ => k == 0 && fits (nLev + 2) a && fits 0 i && fits 0 v
  | k, .propAssign o _ v _ => k == 0 && fits (nLev + 2) o && fits 0 v
  | k, .binary l op _ r =>
    (match levelOf op with
     | some j => decide (k ≤ j + 1) && (Parser.levelNode j == .binary) && fits (j + 1) l && fits (j + 2) r
     | none => false)
  | k, .logical l op r =>
    (match levelOf op with
     | some j => decide (k ≤ j + 1) && (Parser.levelNode j == .logical) && fits (j + 1) l && fits (j + 2) r
     | none => false)
  | k, .unary op _ e => decide (k ≤ nLev + 1) && Expect.unaryOps.contains op && fits (nLev + 1) e
  | k, .literal _ _ => decide (k ≤ nLev + 2)
  | k, .ident _ _ => decide (k ≤ nLev + 2)
  | k, .grouping e _ => decide (k ≤ nLev + 2) && fits 0 e
  | k, .call c _ args => decide (k ≤ nLev + 2) && fits (nLev + 2) c && fitsAll args
  | k, .arrayLit es => decide (k ≤ nLev + 2) && fitsAll es
  | k, .objectLit ps _ => decide (k ≤ nLev + 2) && fitsProps ps
  | k, .arrayAccess a i _ => decide (k ≤ nLev + 2) && fits (nLev + 2) a && fits 0 i
  | k, .propAccess o _ _ => decide (k ≤ nLev + 2) && fits (nLev + 2) o
def fitsAll : List Expr → Bool
  | [] => true
  | e :: es => fits 0 e && fitsAll es
def fitsProps : List (Name × Expr) → Bool
  | [] => true
  | (_, e) :: ps => fits 0 e && fitsProps ps
end

/-! ## the dangling else as a well-formedness predicate on statement trees -/

mutual
/-- the statement ends in an `if` without `else`: an `else` token right after it would belong to that `if` -/
def openIf : Stmt → Bool
  | .ifS _ _ none => true
  | .ifS _ _ (some el) => openIf el
  | .whileS _ b => openIf b
  | .forS _ _ _ b => openIf b
  | _ => false
end

mutual
/-- everywhere in the tree, the then-branch of an `if … else` is closed (so the `else` could not have
    belonged to an inner `if`) -/
def elseOk : Stmt → Bool
  | .ifS _ th el => elseOk th && elseOkElse th el
  | .whileS _ b => elseOk b
  | .forS _ _ _ b => elseOk b
  | .block ss => elseOkAll ss
  | .funS _ _ body => elseOkAll body
  | _ => true
def elseOkAll : List Stmt → Bool
  | [] => true
  | s :: ss => elseOk s && elseOkAll ss
def elseOkElse (th : Stmt) : Option Stmt → Bool
  | none => true
  | some el => !openIf th && elseOk el
end

/-- literal tokens carry a literal of their kind (true of every token the lexer produces) -/
def TokWf (t : Token) : Prop :=
  (t.tt = .NUMBER → ∃ x, t.lit = .num x) ∧ (t.tt = .STRING → ∃ s, t.lit = .str s)

end Borno.Grammar
