# Build step of every check: regenerate the facts from /repo, rebuild the Go harness and the
# interpreter from the current working tree, rebuild the Lean project, check the ties.
import fcntl, glob, hashlib, json, os, re, shutil, subprocess, time
from .core import ROOT, BUILD

LEAN = os.path.join(ROOT, 'lean')
GEN = os.path.join(LEAN, 'BornoModel', 'Gen')
REPO = os.environ.get('VERIF_REPO', '/repo')

GOENV = dict(os.environ, GOPROXY='off', GOSUMDB='off', GOTOOLCHAIN='local', CGO_ENABLED='0')

class BuildError(Exception):
    pass

def sh(cmd, cwd=None, env=None, timeout=3600):
    p = subprocess.run(cmd, cwd=cwd, env=env, capture_output=True, text=True, timeout=timeout)
    return p.returncode, p.stdout, p.stderr

def repo_fingerprint():
    h = hashlib.sha256()
    for root, dirs, files in os.walk(REPO):
        dirs[:] = sorted(d for d in dirs if d != '.git')
        for f in sorted(files):
            p = os.path.join(root, f)
            h.update(p.encode())
            try:
                with open(p, 'rb') as fh:
                    h.update(fh.read())
            except OSError:
                pass
    return h.hexdigest()

def verif_fingerprint():
    h = hashlib.sha256()
    pats = ['lean/*.lean', 'lean/*.toml', 'lean/BornoModel/*.lean', 'lean/BornoModel/*/*.lean', 'harness/go.*', 'harness/cmd/*/*.go']
    for pat in pats:
        for p in sorted(glob.glob(os.path.join(ROOT, pat))):
            if '/Gen/' in p:
                continue
            h.update(p.encode())
            with open(p, 'rb') as fh:
                h.update(fh.read())
    return h.hexdigest()

def lean_error_decls(path, output):
    """names of the declarations in `path` at which Lean reported an error"""
    lines = open(path, encoding='utf-8').read().split('\n')
    decl_at = {}
    cur = None
    for i, l in enumerate(lines, 1):
        m = re.match(r'\s*(?:theorem|def|example|lemma)\s+([^\s:({\[]+)', l)
        if m:
            cur = m.group(1)
        decl_at[i] = cur
    bad = {}
    base = os.path.basename(path)
    for m in re.finditer(r'(' + re.escape(base) + r'):(\d+):(\d+): error:?(.*)', output):
        name = decl_at.get(int(m.group(2)))
        if name:
            bad.setdefault(name, m.group(4).strip()[:300])
    return bad

def build(force=False, log=None):
    """returns a dict: {'ties_broken': {name: msg}, 'props_broken': {module: msg}, 'stamp': …}"""
    os.makedirs(BUILD, exist_ok=True)
    lock = open(os.path.join(ROOT, '.lock'), 'w')
    fcntl.flock(lock, fcntl.LOCK_EX)
    try:
        stamp = {'repo': repo_fingerprint(), 'verif': verif_fingerprint()}
        status_path = os.path.join(BUILD, 'status.json')
        if not force and os.path.exists(status_path):
            try:
                old = json.load(open(status_path))
                if old.get('stamp') == stamp and all(os.path.exists(os.path.join(BUILD, b)) for b in ('impl', 'borno', 'factgen')):
                    return old
            except Exception:
                pass
        t0 = time.time()
        # 1. Go: harness (linked against /repo through the module replace), interpreter binary
        henv = dict(GOENV, GOFLAGS='-mod=mod')
        hdir = os.path.join(ROOT, 'harness')
        shutil.copyfile(os.path.join(REPO, 'go.sum'), os.path.join(hdir, 'go.sum'))
        for name in ('impl', 'factgen'):
            rc, o, e = sh(['go', 'build', '-tags', 'verif', '-o', os.path.join(BUILD, name), './cmd/' + name], cwd=hdir, env=henv)
            if rc != 0:
                raise BuildError(f'go build {name} failed:\n{e}')
        renv = dict(GOENV)
        renv.pop('GOFLAGS', None)
        rc, o, e = sh(['go', 'build', '-tags', 'verif', '-o', os.path.join(BUILD, 'borno'), '.'], cwd=REPO, env=renv)
        if rc != 0:
            raise BuildError(f'go build of /repo failed:\n{e}')
        # coverage-instrumented twins (used when an obligation is broken and in the thorough tier; see vlib/cover.py)
        for f in ('impl_cover', 'borno_cover'):
            try: os.remove(os.path.join(BUILD, f))
            except OSError: pass
        sh(['go', 'build', '-tags', 'verif', '-cover', '-coverpkg=./...,github.com/ah-naf/borno/...', '-o', os.path.join(BUILD, 'impl_cover'), './cmd/impl'], cwd=hdir, env=henv)
        sh(['go', 'build', '-tags', 'verif', '-cover', '-o', os.path.join(BUILD, 'borno_cover'), '.'], cwd=REPO, env=renv)
        # 2. regenerate the facts (old ones deleted first)
        shutil.rmtree(GEN, ignore_errors=True)
        rc, o, e = sh([os.path.join(BUILD, 'factgen'), REPO, GEN], env=renv)
        if rc != 0:
            raise BuildError(f'factgen failed:\n{o}{e}')
        # 3. Lean: driver + library (model, lemmas, property theorems)
        rc, o, e = sh(['lake', 'build', 'bornomodel', 'BornoModel'], cwd=LEAN)
        props_broken = {}
        if rc != 0:
            out = o + e
            for m in re.finditer(r'error: (BornoModel/[\w/]+\.lean):(\d+):(\d+):(.*)', out):
                props_broken.setdefault(m.group(1), f'line {m.group(2)}: {m.group(4).strip()[:300]}')
            if not os.path.exists(os.path.join(LEAN, '.lake', 'build', 'bin', 'bornomodel')) or not props_broken:
                raise BuildError('lake build failed:\n' + out[-4000:])
        # 4. the ties: Gen.* = Expect.*  (each theorem is checked; failures are named)
        ties_broken = {}
        for tie in ('Tie.lean', 'TieDigests.lean'):
            path = os.path.join(LEAN, 'BornoModel', tie)
            if not os.path.exists(path):
                continue
            rc, o, e = sh(['lake', 'env', 'lean', path], cwd=LEAN)
            if rc != 0:
                bad = lean_error_decls(path, o + e)
                if not bad:
                    raise BuildError(f'{tie} failed without a named theorem:\n' + (o + e)[-3000:])
                ties_broken.update(bad)
        status = {'stamp': stamp, 'ties_broken': ties_broken, 'props_broken': props_broken,
                  'build_s': round(time.time() - t0, 1)}
        json.dump(status, open(status_path, 'w'), indent=1)
        return status
    finally:
        fcntl.flock(lock, fcntl.LOCK_UN)
        lock.close()

ALLOWED_AXIOMS = {'propext', 'Classical.choice', 'Quot.sound'}

def audit(module, names):
    """#print axioms for each theorem; returns {name: [axioms]} and {name: error}"""
    path = os.path.join(BUILD, f'Audit_{module.replace(".", "_")}_{os.getpid()}.lean')
    with open(path, 'w') as f:
        f.write(f'import {module}\n')
        for n in names:
            f.write(f'#print axioms {n}\n')
    rc, o, e = sh(['lake', 'env', 'lean', path], cwd=LEAN)
    os.unlink(path)
    out = o + e
    axioms, errors = {}, {}
    for n in names:
        m = re.search(r"'" + re.escape(n) + r"' depends on axioms: \[([^\]]*)\]", out)
        if m:
            axioms[n] = [a.strip() for a in m.group(1).replace('\n', ' ').split(',') if a.strip()]
        elif re.search(r"'" + re.escape(n) + r"' does not depend on any axioms", out):
            axioms[n] = []
        else:
            errors[n] = 'not found / not proved'
    return axioms, errors

def theorem_names(lean_file, namespace):
    src = open(lean_file, encoding='utf-8').read()
    # strip comments
    src = re.sub(r'/-.*?-/', '', src, flags=re.S)
    src = re.sub(r'--.*', '', src)
    return [namespace + '.' + m for m in re.findall(r'^theorem\s+([^\s:({\[]+)', src, flags=re.M)]

def forbidden_tokens(lean_files):
    bad = []
    for p in lean_files:
        src = open(p, encoding='utf-8').read()
        src = re.sub(r'/-.*?-/', '', src, flags=re.S)
        src = re.sub(r'--.*', '', src)
        for tok in ('sorry', 'admit', 'native_decide', 'bv_decide', 'implemented_by', 'unsafe ', 'maxHeartbeats 0'):
            if re.search(r'\b' + re.escape(tok.strip()) + r'\b', src):
                bad.append(f'{os.path.basename(p)}: {tok.strip()}')
        if re.search(r'^axiom\s', src, flags=re.M):
            bad.append(f'{os.path.basename(p)}: axiom')
    return bad
