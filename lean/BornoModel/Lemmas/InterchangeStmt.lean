import BornoModel.Lemmas.InterchangeLoop
/-! # Interchange in statements, blocks and whole programs -/
namespace Borno
variable (P : Platform)

theorem settlesS (s : Stmt) (env : Nat) (repl : Bool) (σ : Store) : Settles (fun F => evalS P F s env repl σ) :=
  settles_of_le _ (fun f => (mono P f).s s env repl σ)

theorem forLoop_ev2 {c c' : Expr} (h : EvEq P c c') {inc inc' : Option Expr} (hi : OptEv P inc inc') {b b' : Stmt} (hb : EvS P b b')
    (env : Nat) (repl : Bool) (σ : Store) :
    Ev2 (fun F => forLoop P F c inc b env repl σ) (fun F => forLoop P F c' inc' b' env repl σ) :=
  ev2_of_transfer _ _ (fun f => (mono P f).fl c inc b env repl σ) (fun f => (mono P f).fl c' inc' b' env repl σ)
    (fun f hf => for_transfer P h hi hb env repl f σ _ rfl hf)
    (fun f hf => for_transfer P (EvEq.symm P h) (OptEv.symm P hi) (EvS.symm P hb) env repl f σ _ rfl hf)

theorem forCond_ev {c c' : Option Expr} (h : OptEv P c c') : EvEq P (forCond c) (forCond c') := by
  cases h with
  | none => exact EvEq.refl P _
  | some h => exact h

inductive OptS : Option Stmt → Option Stmt → Prop
  | none : OptS none none
  | some {s s' : Stmt} : EvS P s s' → OptS (some s) (some s')

theorem evS_for {i i' : Option Stmt} (hi0 : OptS P i i') {c c' : Option Expr} (hc : OptEv P c c') {inc inc' : Option Expr} (hi : OptEv P inc inc')
    {b b' : Stmt} (hb : EvS P b b') : EvS P (.forS i c inc b) (.forS i' c' inc' b') := by
  intro env repl σ
  refine ev2_of_succ ?_
  simp only [evalS_forS]
  refine ev2_guard ?_
  cases hi0 with
  | none => exact forLoop_ev2 P (forCond_ev P hc) hi hb _ _ _
  | some hs => exact ev2_seq (hs _ _ _) (settlesS P _ _ _ _) (fun _ σ2 => forLoop_ev2 P (forCond_ev P hc) hi hb _ _ σ2)

theorem evS_if {c c' : Expr} (hc : EvEq P c c') {t t' : Stmt} (ht : EvS P t t') {e e' : Option Stmt} (he : OptS P e e') :
    EvS P (.ifS c t e) (.ifS c' t' e') := by
  intro env repl σ
  refine ev2_of_succ ?_
  simp only [evalS]
  refine ev2_guard ?_
  refine ev2_seq (hc env repl σ) (settlesE P _ _ _ _) (fun cv σ1 => ev2_ite ?_ ?_)
  · exact ev2_bind (ht env repl σ1) (settlesS P _ _ _ _) (fun _ _ => Ev2.refl _)
  · cases he with
    | none => exact Ev2.refl _
    | some hs => exact ev2_bind (hs env repl σ1) (settlesS P _ _ _ _) (fun _ _ => Ev2.refl _)

/-- statement lists, element-wise -/
inductive ListS : List Stmt → List Stmt → Prop
  | nil : ListS [] []
  | cons {s s' : Stmt} {ss ss' : List Stmt} : EvS P s s' → ListS ss ss' → ListS (s :: ss) (s' :: ss')

theorem evalBlock_ev2 {ss ss' : List Stmt} (h : ListS P ss ss') (env : Nat) (repl : Bool) :
    ∀ σ, Ev2 (fun F => evalBlock P F ss env repl σ) (fun F => evalBlock P F ss' env repl σ) := by
  induction h with
  | nil => intro σ; exact Ev2.refl _
  | @cons s s' ss ss' hs _ ih =>
    intro σ
    refine ev2_of_succ ?_
    simp only [evalBlock]
    exact ev2_seq (hs env repl σ) (settlesS P _ _ _ _) (fun _ σ1 => ev2_guard (ih σ1))

theorem evS_block {ss ss' : List Stmt} (h : ListS P ss ss') : EvS P (.block ss) (.block ss') := by
  intro env repl σ
  refine ev2_of_succ ?_
  simp only [evalS]
  exact ev2_guard (evalBlock_ev2 P h _ _ _)

theorem evS_varNone (n : Name) (l : Nat) : EvS P (.var ⟨n, l, none⟩) (.var ⟨n, l, none⟩) := EvS.refl P _

/-- declaration lists: same names and lines, initialisers that agree -/
inductive ListD : List VarDecl → List VarDecl → Prop
  | nil : ListD [] []
  | consNone {n : Name} {l : Nat} {ds ds' : List VarDecl} : ListD ds ds' → ListD (⟨n, l, none⟩ :: ds) (⟨n, l, none⟩ :: ds')
  | consSome {n : Name} {l : Nat} {e e' : Expr} {ds ds' : List VarDecl} : EvEq P e e' → ListD ds ds' →
      ListD (⟨n, l, some e⟩ :: ds) (⟨n, l, some e'⟩ :: ds')

theorem evalDecls_ev2 {ds ds' : List VarDecl} (h : ListD P ds ds') (env : Nat) (repl : Bool) :
    ∀ σ, Ev2 (fun F => evalDecls P F ds env repl σ) (fun F => evalDecls P F ds' env repl σ) := by
  induction h with
  | nil => intro σ; exact Ev2.refl _
  | consNone _ ih =>
    intro σ
    refine ev2_of_succ ?_
    simp only [evalDecls]
    exact ev2_seq (Ev2.refl _) (settlesS P _ _ _ _) (fun _ σ1 => ev2_guard (ih σ1))
  | consSome he _ ih =>
    intro σ
    refine ev2_of_succ ?_
    simp only [evalDecls]
    exact ev2_seq (evS_var P _ _ he env repl σ) (settlesS P _ _ _ _) (fun _ σ1 => ev2_guard (ih σ1))

theorem evS_varList {ds ds' : List VarDecl} (h : ListD P ds ds') : EvS P (.varList ds) (.varList ds') := by
  intro env repl σ
  refine ev2_of_succ ?_
  simp only [evalS]
  exact ev2_guard (evalDecls_ev2 P h _ _ _)

/-- whole programs: the statement loop of `Interpret` -/
theorem interpretLoop_ev2 {ss ss' : List Stmt} (h : ListS P ss ss') (env : Nat) (repl : Bool) :
    ∀ σ, Ev2 (fun F => interpretLoop P F ss env repl σ) (fun F => interpretLoop P F ss' env repl σ) := by
  induction h with
  | nil => intro σ; exact Ev2.refl _
  | @cons s s' ss ss' hs _ ih =>
    intro σ
    refine ev2_of_succ ?_
    simp only [interpretLoop]
    refine ev2_bind (hs env repl σ) (settlesS P _ _ _ _) (fun p σ1 => ?_)
    cases p.2 with
    | none => exact ev2_ite (Ev2.refl _) (ih σ1)
    | brk l => exact Ev2.refl _
    | cont l => exact Ev2.refl _
    | ret l v => exact Ev2.refl _

end Borno
