package utils

import (
	"fmt"
	"os"
	"strings"

	"blessedborno/token"
)

var HadError bool = false
var HadRuntimeError bool = false

func GlobalError(line int, message string) {
	report(line, "", message)
}

func GlobalErrorToken(t token.Token, message string) {
	if t.Type == token.EOF {
		report(t.Line, " at end", message)
	} else {
		report(t.Line, " at '"+t.Lexeme+"'", message)
	}
}

func report(line int, where, message string) {
	fmt.Fprintf(os.Stderr, "[line %d] Error%s: %s\n", line, where, message)
	HadError = true
}

func RuntimeError(token token.Token, message string) {
	fmt.Fprintf(os.Stderr, "%s\n[line %d]\n", message, token.Line)
	HadRuntimeError = true
}

func ConvertBanglaDigitsToASCII(input string) string {
	replacements := map[rune]rune{
		'০': '0', '১': '1', '২': '2', '৩': '3', '৪': '4',
		'৫': '5', '৬': '6', '৭': '7', '৮': '8', '৯': '9',
	}

	var result strings.Builder
	for _, r := range input {
		if replacement, exists := replacements[r]; exists {
			result.WriteRune(replacement) // Convert Bangla digit to ASCII
		} else {
			result.WriteRune(r) // Keep other characters unchanged
		}
	}
	return result.String()
}
