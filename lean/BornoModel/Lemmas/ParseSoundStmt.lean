import BornoModel.Lemmas.ParseSound
/-!
# ParseSoundStmt — an accepted statement / program is the rendering of its tree
-/
namespace Borno.Parser
open Borno Grammar

theorem sbind_ok {α β : Type} {r : SR α} {k : α → List Token → SR β} {b : β} {rest : List Token} {ds : List Diag}
    (h : r.bind k = .ok b rest ds) : ∃ a r1 d1 d2, r = .ok a r1 d1 ∧ k a r1 = .ok b rest d2 ∧ ds = d1 ++ d2 := by
  cases r with
  | ok a r1 d1 =>
    simp only [SR.bind] at h
    cases hk : k a r1 with
    | ok b' r2 d2 => rw [hk] at h; simp only [SR.ok.injEq] at h; obtain ⟨rfl, rfl, rfl⟩ := h; exact ⟨a, r1, d1, d2, rfl, hk, rfl⟩
    | err d2 => rw [hk] at h; cases h
    | abn x => rw [hk] at h; cases h
  | err d => cases h
  | abn x => cases h

theorem toSR_ok {α : Type} {r : PR α} {a : α} {rest : List Token} {ds : List Diag}
    (h : r.toSR = .ok a rest ds) : r = .ok a rest ∧ ds = [] := by
  cases r with
  | ok a' r' => simp only [PR.toSR, SR.ok.injEq] at h; obtain ⟨rfl, rfl, rfl⟩ := h; exact ⟨rfl, rfl⟩
  | err d => cases h
  | abn x => cases h

theorem speek_ok {α : Type} {ts : List Token} {k : Token → List Token → SR α} {b : α} {rest : List Token} {ds : List Diag}
    (h : peekTokS ts k = .ok b rest ds) : ∃ t r, ts = t :: r ∧ k t r = .ok b rest ds := by
  cases ts with
  | nil => cases h
  | cons t r => exact ⟨t, r, rfl, h⟩

theorem sbind_nil {α β : Type} {r : SR α} {k : α → List Token → SR β} {b : β} {rest : List Token}
    (h : r.bind k = .ok b rest []) : ∃ a r1, r = .ok a r1 [] ∧ k a r1 = .ok b rest [] := by
  obtain ⟨a, r1, d1, d2, h1, h2, hd⟩ := sbind_ok h
  have hd1 : d1 = [] := (List.append_eq_nil_iff.mp hd.symm).1
  have hd2 : d2 = [] := (List.append_eq_nil_iff.mp hd.symm).2
  subst hd1; subst hd2
  exact ⟨a, r1, h1, h2⟩

theorem toSR_nil {α : Type} {r : PR α} {a : α} {rest : List Token}
    (h : r.toSR = .ok a rest []) : r = .ok a rest := (toSR_ok h).1

theorem kwtok (t : Token) (tt : TT) (h : t.tt = tt) (h1 : tt ≠ .IDENTIFIER) (h2 : tt ≠ .NUMBER) (h3 : tt ≠ .STRING) : rtok t = kw tt := by
  subst h; exact rtok_kw t h1 h2 h3

theorem rDecls_cons_ne (d : VarDecl) (ds : List VarDecl) (h : ds ≠ []) : rDecls (d :: ds) = rDecl d ++ kw .COMMA :: rDecls ds := by
  cases ds with
  | nil => exact absurd rfl h
  | cons b ds => simp [rDecls]

theorem rNames_cons_ne (n : Name) (ns : List Name) (h : ns ≠ []) : rNames (n :: ns) = idt n :: kw .COMMA :: rNames ns := by
  cases ns with
  | nil => exact absurd rfl h
  | cons b ns => simp [rNames]

/-- the optional initialiser of a declaration -/
theorem varInit_sound (f : Nat) (r0 : List Token) (init : Option Expr) (r2 : List Token) (hw : AllWf r0)
    (h : (peekTok r0 fun e r1 =>
          if e.tt = .EQUAL then (assignment f r1).bind fun v r2 => .ok (some v) r2
          else .ok none r0) = .ok init r2) :
    ∃ pi, r0 = pi ++ r2 ∧ pi.map rtok = rInit init := by
  obtain ⟨e, r1, rfl, h1⟩ := peek_ok h
  try dsimp only at h1
  by_cases he : e.tt = .EQUAL
  · simp only [he, if_true] at h1
    obtain ⟨v, r3, hv, h2⟩ := bind_ok h1
    try dsimp only at h2
    cases h2
    obtain ⟨p0, rfl, hp0⟩ := (soundE f).asg r1 v r2 (AllWf.tail hw) hv
    exact ⟨e :: p0, rfl, by simp [rInit, kwtok e _ he (by simp) (by simp) (by simp), hp0]⟩
  · simp only [he, if_false] at h1
    cases h1
    exact ⟨[], rfl, rfl⟩

theorem varDecls_sound : ∀ (f il : Nat) (ts : List Token) (ds : List VarDecl) (r : List Token), AllWf ts →
    varDecls f il ts = .ok ds r → ∃ pre, ts = pre ++ r ∧ pre.map rtok = rDecls ds ∧ ds ≠ [] := by
  intro f
  induction f with
  | zero => intro il ts ds r _ h; rw [varDecls] at h; cases h
  | succ f ih =>
    intro il ts ds r hw h
    rw [varDecls] at h
    obtain ⟨t, r0, rfl, h1⟩ := peek_ok h
    try dsimp only at h1
    by_cases ht : t.tt = .IDENTIFIER
    · have hne : ¬ t.tt ≠ .IDENTIFIER := by simp [ht]
      simp only [hne, if_false] at h1
      by_cases h2 : isReserved t.lexeme = true
      · simp only [h2, if_true] at h1; cases h1
      · simp only [h2, if_false] at h1
        obtain ⟨init, r2, hinit, h3⟩ := bind_ok h1
        try dsimp only at h3
        obtain ⟨pi, rfl, hpi⟩ := varInit_sound f r0 init r2 (AllWf.tail hw) hinit
        obtain ⟨p, r3, rfl, h4⟩ := peek_ok h3
        try dsimp only at h4
        split at h4
        · cases h4
        · by_cases hc : p.tt = .COMMA
          · simp only [hc, if_true] at h4
            obtain ⟨rest, r4, hrest, h5⟩ := bind_ok h4
            try dsimp only at h5
            cases h5
            have hw3 : AllWf r3 := AllWf.tail (AllWf.suffix (AllWf.tail hw))
            obtain ⟨p1, rfl, hp1, hne2⟩ := ih il r3 rest r hw3 hrest
            refine ⟨t :: pi ++ p :: p1, by simp, ?_, by simp⟩
            rw [rDecls_cons_ne _ _ hne2]
            simp [rDecl, rtok_ident t ht, hpi, kwtok p _ hc (by simp) (by simp) (by simp), hp1]
          · simp only [hc, if_false] at h4
            cases h4
            exact ⟨t :: pi, by simp, by simp [rDecls, rDecl, rtok_ident t ht, hpi], by simp⟩
    · have hne : t.tt ≠ .IDENTIFIER := ht
      simp only [hne, ne_eq, not_false_eq_true, if_true] at h1; cases h1

/-- what a `ধরি` statement renders to -/
def rVar (s : Stmt) : List RTok :=
  match s with
  | .var d => rDecl d ++ [kw .SEMICOLON]
  | .varList vs => rDecls vs ++ [kw .SEMICOLON]
  | _ => []

theorem varDeclaration_sound (f : Nat) (ts : List Token) (s : Stmt) (r : List Token) (hw : AllWf ts)
    (h : varDeclaration f ts = .ok s r []) :
    (∃ pre, ts = pre ++ r ∧ pre.map rtok = rVar s) ∧ ((∃ d, s = .var d) ∨ (∃ vs, s = .varList vs ∧ 2 ≤ vs.length)) := by
  unfold varDeclaration at h
  obtain ⟨t0, r0, rfl, h1⟩ := speek_ok h
  try dsimp only at h1
  have h2 := toSR_nil h1
  obtain ⟨vs, r1, hvs, h3⟩ := bind_ok h2
  try dsimp only at h3
  obtain ⟨p0, hts, hp0, hne⟩ := varDecls_sound f t0.line (t0 :: r0) vs r1 hw hvs
  obtain ⟨sc, r2, hsc, h4⟩ := bind_ok h3
  try dsimp only at h4
  obtain ⟨rfl, hsct⟩ := expect_ok hsc
  have hsemi : rtok sc = kw .SEMICOLON := kwtok sc _ hsct (by simp) (by simp) (by simp)
  split at h4
  · rename_i d
    cases h4
    exact ⟨⟨p0 ++ [sc], by rw [hts]; simp, by simp [rVar, hp0, rDecls, hsemi]⟩, Or.inl ⟨d, rfl⟩⟩
  · rename_i hnot
    cases h4
    refine ⟨⟨p0 ++ [sc], by rw [hts]; simp, by simp [rVar, hp0, hsemi]⟩, Or.inr ⟨vs, rfl, ?_⟩⟩
    cases vs with
    | nil => exact absurd rfl hne
    | cons a vs' =>
      cases vs' with
      | nil => exact absurd rfl (hnot a)
      | cons b vs'' => simp

theorem lenient_nil (tt : TT) (msg : String) (ts r : List Token) (h : lenient tt msg ts = .ok () r []) :
    ∃ t, ts = t :: r ∧ t.tt = tt := by
  unfold lenient at h
  obtain ⟨t, r0, rfl, h1⟩ := speek_ok h
  try dsimp only at h1
  by_cases ht : t.tt = tt
  · simp only [ht, if_true] at h1; cases h1; exact ⟨t, rfl, ht⟩
  · simp only [ht, if_false] at h1; cases h1

theorem exprThenSemi_sound (f : Nat) (mk : Expr → Stmt) (ts : List Token) (s : Stmt) (r : List Token) (hw : AllWf ts)
    (h : exprThenSemi f mk ts = .ok s r []) :
    ∃ e pre, s = mk e ∧ ts = pre ++ r ∧ pre.map rtok = rExpr e ++ [kw .SEMICOLON] := by
  unfold exprThenSemi at h
  obtain ⟨e, r1, he, h1⟩ := sbind_nil h
  try dsimp only at h1
  have he' := toSR_nil he
  obtain ⟨p0, rfl, hp0⟩ := (soundE f).asg ts e r1 hw he'
  obtain ⟨u, r2, hl, h2⟩ := sbind_nil h1
  try dsimp only at h2
  obtain ⟨sc, rfl, hsc⟩ := lenient_nil _ _ _ _ hl
  cases h2
  exact ⟨e, p0 ++ [sc], rfl, by simp, by simp [hp0, kwtok sc _ hsc (by simp) (by simp) (by simp)]⟩

theorem params_sound : ∀ (f n : Nat) (ts : List Token) (ns : List Name) (r : List Token),
    params f n ts = .ok ns r → ∃ pre, ts = pre ++ r ∧ pre.map rtok = rNames ns ∧ ns ≠ [] := by
  intro f
  induction f with
  | zero => intro n ts ns r h; rw [params] at h; cases h
  | succ f ih =>
    intro n ts ns r h
    rw [params] at h
    obtain ⟨t, r0, rfl, h1⟩ := peek_ok h
    try dsimp only at h1
    split at h1
    · cases h1
    · by_cases ht : t.tt = .IDENTIFIER
      · have hne : ¬ t.tt ≠ .IDENTIFIER := by simp [ht]
        simp only [hne, if_false] at h1
        obtain ⟨c, r2, rfl, h2⟩ := peek_ok h1
        try dsimp only at h2
        by_cases hc : c.tt = .COMMA
        · simp only [hc, if_true] at h2
          obtain ⟨rest, r3, hrest, h3⟩ := bind_ok h2
          try dsimp only at h3
          cases h3
          obtain ⟨p1, rfl, hp1, hne2⟩ := ih (n + 1) r2 rest r hrest
          refine ⟨t :: c :: p1, rfl, ?_, by simp⟩
          rw [rNames_cons_ne _ _ hne2]
          simp [rtok_ident t ht, kwtok c _ hc (by simp) (by simp) (by simp), hp1]
        · simp only [hc, if_false] at h2
          cases h2
          exact ⟨[t], rfl, by simp [rNames, rtok_ident t ht], by simp⟩
      · have hne : t.tt ≠ .IDENTIFIER := ht
        simp only [hne, ne_eq, not_false_eq_true, if_true] at h1; cases h1

structure SoundS (f : Nat) : Prop where
  decl : ∀ ts s r, AllWf ts → declaration f ts = .ok s r [] → ∃ pre, ts = pre ++ r ∧ pre.map rtok = rStmt s
  fn : ∀ ts s r, AllWf ts → function f ts = .ok s r [] → ∃ pre, ts = pre ++ r ∧ kw .FUN :: pre.map rtok = rStmt s
  blk : ∀ ts ss r, AllWf ts → block f ts = .ok ss r [] → ∃ pre, ts = pre ++ r ∧ pre.map rtok = rStmts ss ++ [kw .RIGHT_BRACE]
  stmt : ∀ ts s r, AllWf ts → statement f ts = .ok s r [] → ∃ pre, ts = pre ++ r ∧ pre.map rtok = rStmt s

theorem rStmt_var (s : Stmt) (h : (∃ d, s = .var d) ∨ (∃ vs, s = .varList vs ∧ 2 ≤ vs.length)) :
    rStmt s = kw .VAR :: rVar s := by
  rcases h with ⟨d, rfl⟩ | ⟨vs, rfl, _⟩ <;> simp [rStmt, rVar]

theorem soundS : ∀ f, SoundS f := by
  intro f
  induction f with
  | zero =>
    refine ⟨?_, ?_, ?_, ?_⟩ <;> intros <;> rename_i h
    · rw [declaration] at h; cases h
    · rw [function] at h; cases h
    · rw [block] at h; cases h
    · rw [statement] at h; cases h
  | succ f ih =>
    refine ⟨?_, ?_, ?_, ?_⟩
    · -- declaration
      intro ts s r hw h
      rw [declaration] at h
      obtain ⟨t, r0, rfl, h1⟩ := speek_ok h
      try dsimp only at h1
      by_cases hf : t.tt = .FUN
      · simp only [hf, if_true] at h1
        obtain ⟨p0, rfl, hp0⟩ := ih.fn r0 s r (AllWf.tail hw) h1
        exact ⟨t :: p0, rfl, by rw [← hp0]; simp [kwtok t _ hf (by simp) (by simp) (by simp)]⟩
      · simp only [hf, if_false] at h1
        by_cases hv : t.tt = .VAR
        · simp only [hv, if_true] at h1
          obtain ⟨⟨p0, rfl, hp0⟩, hshape⟩ := varDeclaration_sound f r0 s r (AllWf.tail hw) h1
          exact ⟨t :: p0, rfl, by rw [rStmt_var s hshape]; simp [kwtok t _ hv (by simp) (by simp) (by simp), hp0]⟩
        · simp only [hv, if_false] at h1
          exact ih.stmt (t :: r0) s r hw h1
    · -- function
      intro ts s r hw h
      rw [function] at h
      obtain ⟨t, r0, rfl, h1⟩ := speek_ok h
      try dsimp only at h1
      by_cases ht : t.tt = .IDENTIFIER
      · have hne : ¬ t.tt ≠ .IDENTIFIER := by simp [ht]
        simp only [hne, if_false] at h1
        split at h1
        · cases h1
        · obtain ⟨names, r4, hhead, h2⟩ := sbind_nil h1
          try dsimp only at h2
          have hhead' := toSR_nil hhead
          obtain ⟨lp, r1, hlp, h3⟩ := bind_ok hhead'
          try dsimp only at h3
          obtain ⟨rfl, hlpt⟩ := expect_ok hlp
          obtain ⟨names', r2, hnames, h4⟩ := bind_ok h3
          try dsimp only at h4
          -- the parameter list
          have hps : ∃ pp, r1 = pp ++ r2 ∧ pp.map rtok = rNames names' := by
            obtain ⟨p, rp, rfl, h5⟩ := peek_ok hnames
            try dsimp only at h5
            by_cases hp : p.tt = .RIGHT_PAREN
            · simp only [hp, if_true] at h5; cases h5; exact ⟨[], rfl, rfl⟩
            · simp only [hp, if_false] at h5
              obtain ⟨pp, hpp, hm, _⟩ := params_sound f 0 (p :: rp) names' r2 h5
              exact ⟨pp, hpp, hm⟩
          obtain ⟨pp, rfl, hpp⟩ := hps
          obtain ⟨rp, r3, hrp, h6⟩ := bind_ok h4
          try dsimp only at h6
          obtain ⟨rfl, hrpt⟩ := expect_ok hrp
          obtain ⟨lb, r5, hlb, h7⟩ := bind_ok h6
          try dsimp only at h7
          obtain ⟨rfl, hlbt⟩ := expect_ok hlb
          cases h7
          obtain ⟨body, r6, hbody, h8⟩ := sbind_nil h2
          try dsimp only at h8
          cases h8
          have hw5 : AllWf r4 := AllWf.tail (AllWf.tail (AllWf.suffix (AllWf.tail (AllWf.tail hw))))
          obtain ⟨pb, rfl, hpb⟩ := ih.blk r4 body r hw5 hbody
          refine ⟨t :: lp :: pp ++ rp :: lb :: pb, by simp, ?_⟩
          simp [rStmt, rtok_ident t ht, kwtok lp _ hlpt (by simp) (by simp) (by simp), hpp,
            kwtok rp _ hrpt (by simp) (by simp) (by simp), kwtok lb _ hlbt (by simp) (by simp) (by simp), hpb]
      · have hne : t.tt ≠ .IDENTIFIER := ht
        simp only [hne, ne_eq, not_false_eq_true, if_true] at h1; cases h1
    · -- block
      intro ts ss r hw h
      rw [block] at h
      obtain ⟨t, r0, rfl, h1⟩ := speek_ok h
      try dsimp only at h1
      by_cases hrb : t.tt = .RIGHT_BRACE
      · simp only [hrb, if_true] at h1
        cases h1
        exact ⟨[t], rfl, by simp [rStmts, kwtok t _ hrb (by simp) (by simp) (by simp)]⟩
      · simp only [hrb, if_false] at h1
        by_cases heof : t.tt = .EOF
        · simp only [heof, if_true] at h1; cases h1
        · simp only [heof, if_false] at h1
          obtain ⟨s, r1, hs, h2⟩ := sbind_nil h1
          try dsimp only at h2
          obtain ⟨p0, hts, hp0⟩ := ih.decl (t :: r0) s r1 hw hs
          obtain ⟨ss', r2, hss, h3⟩ := sbind_nil h2
          try dsimp only at h3
          cases h3
          have hw1 : AllWf r1 := by rw [hts] at hw; exact AllWf.suffix hw
          obtain ⟨p1, rfl, hp1⟩ := ih.blk r1 ss' r hw1 hss
          exact ⟨p0 ++ p1, by rw [hts]; simp, by simp [rStmts, hp0, hp1]⟩
    · -- statement
      intro ts s r hw h
      rw [statement] at h
      obtain ⟨t, r0, rfl, h1⟩ := speek_ok h
      try dsimp only at h1
      have hw0 : AllWf r0 := AllWf.tail hw
      split at h1
      · -- if
        rename_i htt
        have ht : rtok t = kw .IF := kwtok t _ htt (by simp) (by simp) (by simp)
        obtain ⟨c, r3, hhead, h2⟩ := sbind_nil h1
        try dsimp only at h2
        have hhead' := toSR_nil hhead
        obtain ⟨lp, r1, hlp, h3⟩ := bind_ok hhead'
        try dsimp only at h3
        obtain ⟨rfl, hlpt⟩ := expect_ok hlp
        obtain ⟨c', r2, hc, h4⟩ := bind_ok h3
        try dsimp only at h4
        obtain ⟨pc, rfl, hpc⟩ := (soundE f).asg r1 c' r2 (AllWf.tail hw0) hc
        obtain ⟨rp, r3', hrp, h5⟩ := bind_ok h4
        try dsimp only at h5
        obtain ⟨rfl, hrpt⟩ := expect_ok hrp
        cases h5
        obtain ⟨th, r4, hth, h6⟩ := sbind_nil h2
        try dsimp only at h6
        have hw3 : AllWf r3 := AllWf.tail (AllWf.suffix (AllWf.tail hw0))
        obtain ⟨pt, rfl, hpt⟩ := ih.stmt r3 th r4 hw3 hth
        obtain ⟨e, r5, rfl, h7⟩ := speek_ok h6
        try dsimp only at h7
        by_cases he : e.tt = .ELSE
        · simp only [he, if_true] at h7
          obtain ⟨el, r6, hel, h8⟩ := sbind_nil h7
          try dsimp only at h8
          cases h8
          obtain ⟨pe, rfl, hpe⟩ := ih.stmt r5 el r (AllWf.tail (AllWf.suffix hw3)) hel
          refine ⟨t :: lp :: pc ++ rp :: pt ++ e :: pe, by simp, ?_⟩
          simp [rStmt, rElse, ht, kwtok lp _ hlpt (by simp) (by simp) (by simp), hpc, kwtok rp _ hrpt (by simp) (by simp) (by simp),
            hpt, kwtok e _ he (by simp) (by simp) (by simp), hpe]
        · simp only [he, if_false] at h7
          cases h7
          refine ⟨t :: lp :: pc ++ rp :: pt, by simp, ?_⟩
          simp [rStmt, rElse, ht, kwtok lp _ hlpt (by simp) (by simp) (by simp), hpc, kwtok rp _ hrpt (by simp) (by simp) (by simp), hpt]
      · -- while
        rename_i htt
        have ht : rtok t = kw .WHILE := kwtok t _ htt (by simp) (by simp) (by simp)
        obtain ⟨c, r3, hhead, h2⟩ := sbind_nil h1
        try dsimp only at h2
        have hhead' := toSR_nil hhead
        obtain ⟨lp, r1, hlp, h3⟩ := bind_ok hhead'
        try dsimp only at h3
        obtain ⟨rfl, hlpt⟩ := expect_ok hlp
        obtain ⟨c', r2, hc, h4⟩ := bind_ok h3
        try dsimp only at h4
        obtain ⟨pc, rfl, hpc⟩ := (soundE f).asg r1 c' r2 (AllWf.tail hw0) hc
        obtain ⟨rp, r3', hrp, h5⟩ := bind_ok h4
        try dsimp only at h5
        obtain ⟨rfl, hrpt⟩ := expect_ok hrp
        cases h5
        obtain ⟨b, r4, hb, h6⟩ := sbind_nil h2
        try dsimp only at h6
        cases h6
        have hw3 : AllWf r3 := AllWf.tail (AllWf.suffix (AllWf.tail hw0))
        obtain ⟨pb, rfl, hpb⟩ := ih.stmt r3 b r hw3 hb
        refine ⟨t :: lp :: pc ++ rp :: pb, by simp, ?_⟩
        simp [rStmt, ht, kwtok lp _ hlpt (by simp) (by simp) (by simp), hpc, kwtok rp _ hrpt (by simp) (by simp) (by simp), hpb]
      · -- for
        rename_i htt
        have ht : rtok t = kw .FOR := kwtok t _ htt (by simp) (by simp) (by simp)
        obtain ⟨lp, r1, hlp0, h2⟩ := sbind_nil h1
        try dsimp only at h2
        have hlp := toSR_nil hlp0
        obtain ⟨rfl, hlpt⟩ := expect_ok hlp
        have hw1 : AllWf r1 := AllWf.tail hw0
        obtain ⟨init, r3, hinit, h3⟩ := sbind_nil h2
        try dsimp only at h3
        -- initializer
        have hi : ∃ pi, r1 = pi ++ r3 ∧ pi.map rtok = rForInit init := by
          unfold forInit at hinit
          obtain ⟨i, ri, rfl, h4⟩ := speek_ok hinit
          try dsimp only at h4
          by_cases hs : i.tt = .SEMICOLON
          · simp only [hs, if_true] at h4; cases h4
            exact ⟨[i], rfl, by simp [rForInit, kwtok i _ hs (by simp) (by simp) (by simp)]⟩
          · simp only [hs, if_false] at h4
            by_cases hv : i.tt = .VAR
            · simp only [hv, if_true] at h4
              obtain ⟨s', r', hs', h5⟩ := sbind_nil h4
              try dsimp only at h5
              cases h5
              obtain ⟨⟨p0, rfl, hp0⟩, hshape⟩ := varDeclaration_sound f ri s' r3 (AllWf.tail hw1) hs'
              exact ⟨i :: p0, rfl, by rw [rForInit, rStmt_var s' hshape]; simp [kwtok i _ hv (by simp) (by simp) (by simp), hp0]⟩
            · simp only [hv, if_false] at h4
              obtain ⟨s', r', hs', h5⟩ := sbind_nil h4
              try dsimp only at h5
              cases h5
              obtain ⟨e, p0, rfl, hp, hm⟩ := exprThenSemi_sound f .expr (i :: ri) s' r3 hw1 hs'
              exact ⟨p0, hp, by simp [rForInit, rStmt, hm]⟩
        obtain ⟨pi, rfl, hpi⟩ := hi
        have hw3 : AllWf r3 := AllWf.suffix hw1
        obtain ⟨ci, r7, hci0, h6⟩ := sbind_nil h3
        try dsimp only at h6
        have hci := toSR_nil hci0
        unfold forHeader at hci
        obtain ⟨cond, r4, hcond, h7⟩ := bind_ok hci
        try dsimp only at h7
        have hc : ∃ pc, r3 = pc ++ r4 ∧ pc.map rtok = rOptE cond := by
          unfold optExprUntil at hcond
          obtain ⟨c, rc, rfl, h8⟩ := peek_ok hcond
          try dsimp only at h8
          by_cases hs : c.tt = .SEMICOLON
          · simp only [hs, if_true] at h8; cases h8; exact ⟨[], rfl, rfl⟩
          · simp only [hs, if_false] at h8
            obtain ⟨e, r', he, h9⟩ := bind_ok h8
            try dsimp only at h9
            cases h9
            obtain ⟨p0, hp, hm⟩ := (soundE f).asg (c :: rc) e r4 hw3 he
            exact ⟨p0, hp, by simpa [rOptE] using hm⟩
        obtain ⟨pc, rfl, hpc⟩ := hc
        obtain ⟨sc, r5, hsc, h10⟩ := bind_ok h7
        try dsimp only at h10
        obtain ⟨rfl, hsct⟩ := expect_ok hsc
        have hw5 : AllWf r5 := AllWf.tail (AllWf.suffix hw3)
        obtain ⟨incr, r6, hincr, h11⟩ := bind_ok h10
        try dsimp only at h11
        have hin : ∃ pn, r5 = pn ++ r6 ∧ pn.map rtok = rOptE incr := by
          unfold optExprUntil at hincr
          obtain ⟨c, rc, rfl, h8⟩ := peek_ok hincr
          try dsimp only at h8
          by_cases hs : c.tt = .RIGHT_PAREN
          · simp only [hs, if_true] at h8; cases h8; exact ⟨[], rfl, rfl⟩
          · simp only [hs, if_false] at h8
            obtain ⟨e, r', he, h9⟩ := bind_ok h8
            try dsimp only at h9
            cases h9
            obtain ⟨p0, hp, hm⟩ := (soundE f).asg (c :: rc) e r6 hw5 he
            exact ⟨p0, hp, by simpa [rOptE] using hm⟩
        obtain ⟨pn, rfl, hpn⟩ := hin
        obtain ⟨rp, r7', hrp, h12⟩ := bind_ok h11
        try dsimp only at h12
        obtain ⟨rfl, hrpt⟩ := expect_ok hrp
        cases h12
        obtain ⟨body, r8, hbody, h13⟩ := sbind_nil h6
        try dsimp only at h13
        cases h13
        have hw7 : AllWf r7 := AllWf.tail (AllWf.suffix hw5)
        obtain ⟨pb, rfl, hpb⟩ := ih.stmt r7 body r hw7 hbody
        refine ⟨t :: lp :: pi ++ pc ++ sc :: pn ++ rp :: pb, by simp, ?_⟩
        simp [rStmt, ht, kwtok lp _ hlpt (by simp) (by simp) (by simp), hpi, hpc, kwtok sc _ hsct (by simp) (by simp) (by simp),
          hpn, kwtok rp _ hrpt (by simp) (by simp) (by simp), hpb]
      · -- print
        rename_i htt
        obtain ⟨e, p0, rfl, hp, hm⟩ := exprThenSemi_sound f .print r0 s r hw0 h1
        exact ⟨t :: p0, by rw [hp]; rfl, by simp [rStmt, kwtok t _ htt (by simp) (by simp) (by simp), hm]⟩
      · -- return
        rename_i htt
        have ht : rtok t = kw .RETURN := kwtok t _ htt (by simp) (by simp) (by simp)
        have h2 := toSR_nil h1
        obtain ⟨sc, r1, rfl, h3⟩ := peek_ok h2
        try dsimp only at h3
        by_cases hs : sc.tt = .SEMICOLON
        · simp only [hs, if_true] at h3; cases h3
          exact ⟨[t, sc], rfl, by simp [rStmt, rOptE, ht, kwtok sc _ hs (by simp) (by simp) (by simp)]⟩
        · simp only [hs, if_false] at h3
          obtain ⟨v, r2, hv, h4⟩ := bind_ok h3
          try dsimp only at h4
          obtain ⟨p0, hp, hm⟩ := (soundE f).asg (sc :: r1) v r2 hw0 hv
          obtain ⟨sm, r3, hsm, h5⟩ := bind_ok h4
          try dsimp only at h5
          obtain ⟨rfl, hsmt⟩ := expect_ok hsm
          cases h5
          exact ⟨t :: p0 ++ [sm], by rw [hp]; simp, by simp [rStmt, rOptE, ht, hm, kwtok sm _ hsmt (by simp) (by simp) (by simp)]⟩
      · -- break
        rename_i htt
        have h2 := toSR_nil h1
        obtain ⟨sc, r1, hsc, h3⟩ := bind_ok h2
        try dsimp only at h3
        obtain ⟨rfl, hsct⟩ := expect_ok hsc
        cases h3
        exact ⟨[t, sc], rfl, by simp [rStmt, kwtok t _ htt (by simp) (by simp) (by simp), kwtok sc _ hsct (by simp) (by simp) (by simp)]⟩
      · -- continue
        rename_i htt
        have h2 := toSR_nil h1
        obtain ⟨sc, r1, hsc, h3⟩ := bind_ok h2
        try dsimp only at h3
        obtain ⟨rfl, hsct⟩ := expect_ok hsc
        cases h3
        exact ⟨[t, sc], rfl, by simp [rStmt, kwtok t _ htt (by simp) (by simp) (by simp), kwtok sc _ hsct (by simp) (by simp) (by simp)]⟩
      · -- block
        rename_i htt
        obtain ⟨ss, r1, hss, h2⟩ := sbind_nil h1
        try dsimp only at h2
        cases h2
        obtain ⟨p0, rfl, hp0⟩ := ih.blk r0 ss r hw0 hss
        exact ⟨t :: p0, rfl, by simp [rStmt, kwtok t _ htt (by simp) (by simp) (by simp), hp0]⟩
      · -- expression statement
        obtain ⟨e, p0, rfl, hp, hm⟩ := exprThenSemi_sound f .expr (t :: r0) s r hw h1
        exact ⟨p0, hp, by simp [rStmt, hm]⟩

/-- the whole program: the tokens consumed up to the end-of-input token are the rendering of the tree -/
theorem program_sound : ∀ (f : Nat) (ts : List Token) (p : List Stmt) (r : List Token), AllWf ts →
    program f ts = .ok p r [] →
    ∃ pre, ts = pre ++ r ∧ pre.map rtok = rStmts p ∧ ∃ e r', r = e :: r' ∧ e.tt = .EOF := by
  intro f
  induction f with
  | zero => intro ts p r _ h; rw [program] at h; cases h
  | succ f ih =>
    intro ts p r hw h
    rw [program] at h
    obtain ⟨t, r0, rfl, h1⟩ := speek_ok h
    try dsimp only at h1
    by_cases heof : t.tt = .EOF
    · simp only [heof, if_true] at h1
      cases h1
      exact ⟨[], rfl, by simp [rStmts], t, r0, rfl, heof⟩
    · simp only [heof, if_false] at h1
      obtain ⟨s, r1, hs, h2⟩ := sbind_nil h1
      try dsimp only at h2
      obtain ⟨p0, hts, hp0⟩ := (soundS f).decl (t :: r0) s r1 hw hs
      obtain ⟨ss, r2, hss, h3⟩ := sbind_nil h2
      try dsimp only at h3
      cases h3
      have hw1 : AllWf r1 := by rw [hts] at hw; exact AllWf.suffix hw
      obtain ⟨p1, rfl, hp1, hend⟩ := ih r1 ss r hw1 hss
      exact ⟨p0 ++ p1, by rw [hts]; simp, by simp [rStmts, hp0, hp1], hend⟩

end Borno.Parser
