# Twin names: two identifiers that are DIFFERENT code-point sequences but look alike (canonically equivalent under
# NFC/NFD, compatibility-equivalent, case variants, look-alike letters of another script, with / without a joiner).
# To the language they are two names: two bindings, two parameters, two properties, and a reference to the one that
# was never declared is a fault.  Anything that canonicalises names anywhere in the pipeline (lexer, parser, scope
# map, property map, error path) makes two of them one.  Shared by the scope, call, fault and object properties.
from .core import KW, NAT

P, VAR, FUN, IF, ELSE, WHILE, FOR = KW['print'], KW['var'], KW['fun'], KW['if'], KW['else'], KW['while'], KW['for']
RET = KW['return']
N = NAT

TWINS = [('ম\u09cbট', 'ম\u09c7\u09beট'), ('ন\u09df', 'ন\u09af\u09bc'), ('প\u09dc', 'প\u09a1\u09bc'), ('গ\u09dd', 'গ\u09a2\u09bc'), ('ক\u09cc', 'ক\u09c7\u09d7'),
         ('caf\u00e9', 'cafe\u0301'), ('\u212bx', '\u00c5x'), ('\u00c5y', 'A\u030ay'), ('\ufb01x', 'fix'), ('\uff41b', 'ab'), ('name', 'Name'), ('\u0430bc', 'abc'),
         ('ক\u200dখ', 'কখ'), ('\u2126m', '\u03a9m'), ('\u1e69', 's\u0323\u0307'), ('\u1e69x', 's\u0307\u0323x')]

def templates():
    T = {}
    T['two-variables'] = f'{VAR} A = 1;\n{VAR} B = 2;\n{P} A;\n{P} B;\nA = 10;\n{P} A;\n{P} B;\nB = 20;\n{P} A + B;\n'
    T['shadow-inner'] = f'{VAR} A = 1;\n{{ {VAR} B = 2; {P} A; {P} B; A = 5; B = 6; {P} A + B; }}\n{P} A;\n'
    T['undeclared-read'] = f'{VAR} A = 1;\n{P} "before";\n{P} B;\n{P} "after";\n'
    T['undeclared-assign'] = f'{VAR} A = 1;\n{P} "before";\nB = 2;\n{P} A;\n{P} "after";\n'
    T['undeclared-in-function'] = f'{VAR} A = 1;\n{FUN} g() {{ {P} "in"; B = 7; {RET} A; }}\n{FOR} ({VAR} i = 0; i < 2; i = i + 1) {{ {P} g(); }}\n{P} "after";\n'
    T['undeclared-call'] = f'{FUN} A(x) {{ {RET} x + 1; }}\n{P} [A(1),\n  B(2)];\n{P} "after";\n'
    T['two-parameters'] = f'{FUN} g(A, B) {{ {P} A; {P} B; A = A + 100; {RET} [A, B]; }}\n{P} g(1, 2);\n{P} g("x", "y");\n'
    T['parameter-vs-global'] = f'{VAR} A = 100;\n{FUN} g(B) {{ B = B + 1; {RET} A + B; }}\n{P} g(5);\n{P} A;\n'
    T['closure-counter'] = f'{FUN} mk(A) {{ {VAR} B = 0; {FUN} inc() {{ B = B + A; {RET} B; }} {RET} inc; }}\n{VAR} c = mk(5);\n{P} c();\n{P} c();\n'
    T['function-names'] = f'{FUN} A() {{ {RET} "first"; }}\n{FUN} B() {{ {RET} "second"; }}\n{P} A();\n{P} B();\n{P} A == B;\n{P} A;\n{P} B;\n'
    T['function-own-name'] = f'{FUN} A(n) {{ {IF} (n == 0) {{ {RET} "done"; }} {VAR} B = n - 1; {RET} A(B); }}\n{P} A(2);\n'
    T['redeclare-is-not'] = f'{VAR} A = 1;\n{VAR} B = 2;\n{{ {VAR} A = 3; {VAR} B = 4; {P} A + B; }}\n{P} A + B;\n'
    T['redeclare-same-is'] = f'{VAR} A = 1;\n{P} "before";\n{VAR} A = 2;\n{P} "after";\n'
    T['loop-variables'] = f'{FOR} ({VAR} A = 0; A < 2; A = A + 1) {{ {FOR} ({VAR} B = 0; B < 2; B = B + 1) {{ {P} [A, B]; }} }}\n'
    T['property-names'] = (f'{VAR} o = {{A: 1, B: 2}};\n{P} o.A;\n{P} o.B;\no.A = 10;\n{P} o;\n{P} {N["len"]}({N["keys"]}(o));\n{N["delete"]}(o, "A");\n{P} {N["keys"]}(o);\n{P} o.B;\n{P} "before";\n{P} o.A;\n{P} "after";\n')
    T['property-added'] = f'{VAR} o = {{A: 1}};\no.B = 2;\n{P} {N["len"]}({N["keys"]}(o));\n{P} o.A + o.B;\n{N["delete"]}(o, "B");\n{P} o;\n{P} "before";\n{N["delete"]}(o, "B");\n{P} "after";\n'
    T['strings-of-the-names'] = f'{P} "A" == "B";\n{P} "A" + "B";\n{VAR} o = {{A: 1}};\n{P} {N["keys"]}(o)[0] == "A";\n{P} {N["keys"]}(o)[0] == "B";\n'
    return T

def twin_programs(tier='quick'):
    out = []
    pairs = TWINS if tier == 'thorough' else TWINS[:9]
    for tn, t in templates().items():
        for a, b in pairs:
            for x, y in ((a, b), (b, a)):
                src = t.replace('A', '\x01').replace('B', '\x02').replace('\x01', x).replace('\x02', y)
                out.append((f'{tn}: {x!r} / {y!r}', src))
    return out
