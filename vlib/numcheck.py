# F64 substrate check: the model's exact-rational binary64 vs the host float64 / strconv / fmt
# (mode `num` of both drivers).  Used by C02, C10, C15, C17.
import struct
from .core import *

def bits(x):
    return '%016x' % struct.unpack('>Q', struct.pack('>d', x))[0]

BOUNDARY_BITS = [
    0x0000000000000000, 0x8000000000000000, 0x3ff0000000000000, 0xbff0000000000000,
    0x3fe0000000000000, 0xbfe0000000000000, 0x3ff8000000000000, 0xbff8000000000000, 0x4004000000000000, 0xc004000000000000,
    0x404f800000000000, 0x4050000000000000, 0x41e0000000000000, 0x4340000000000000, 0x4340000000000001, 0x433fffffffffffff,
    0x43e0000000000000, 0xc3e0000000000000, 0x43dfffffffffffff, 0xc3e0000000000001, 0x7fe1ccf385ebc8a0, 0x7fefffffffffffff, 0xffefffffffffffff,
    0x7ff0000000000000, 0xfff0000000000000, 0x7ff8000000000001,
    0x0000000000000001, 0x8000000000000001, 0x000fffffffffffff, 0x0010000000000000, 0x0010000000000001,
    0x4330000000000000, 0x4330000000000001, 0x3fb999999999999a, 0x3fc999999999999a, 0x3fd3333333333333,
    0x412e848000000000, 0x412e847e00000000, 0x3f1a36e2eb1c432d, 0x3f1a36e2eb1c432c, 0x40c3880000000000,
    0x4008000000000000, 0x401c000000000000, 0x4059000000000000, 0x3ff0000000000001, 0x3fefffffffffffff,
]

def num_requests(rng, n_random):
    vals = ['%016x' % b for b in BOUNDARY_BITS]
    for _ in range(n_random):
        k = rng.below(6)
        if k == 0:
            vals.append('%016x' % rng.next())
        elif k == 1:   # moderate magnitudes
            e = 1023 + rng.below(80) - 40
            vals.append('%016x' % ((rng.below(2) << 63) | (e << 52) | (rng.next() & ((1 << 52) - 1))))
        elif k == 2:   # small integers and halves
            import struct as _s
            vals.append(bits((rng.below(4000) - 2000) / 2.0))
        elif k == 3:   # few significant bits
            e = rng.below(2046) + 1
            vals.append('%016x' % ((rng.below(2) << 63) | (e << 52) | ((rng.below(16)) << 48)))
        elif k == 4:   # subnormal
            vals.append('%016x' % ((rng.below(2) << 63) | (rng.next() & ((1 << 52) - 1))))
        else:          # decimal-looking
            vals.append(bits(float('%d.%d' % (rng.below(100000), rng.below(1000)))))
    reqs = []
    un = ['neg', 'abs', 'round', 'sqrt', 'i64', 'fmt']
    bi = ['add', 'sub', 'mul', 'div', 'mod', 'lt', 'le', 'eq']
    for v in vals:
        for op in un:
            reqs.append(f"num\t{op}\t{v}")
    nb = len(BOUNDARY_BITS)
    for i, a in enumerate(vals):
        partners = vals[:nb] if i < nb else [vals[rng.below(len(vals))] for _ in range(3)]
        for b in partners:
            for op in bi:
                reqs.append(f"num\t{op}\t{a}\t{b}")
    return reqs

def literal_requests(rng, n_random):
    """decimal / runtime-coercion strings for strconv.ParseFloat"""
    texts = ['0', '1', '-1', '+1', '1.5', '.5', '5.', '1e5', '1E5', '1e+5', '1e-5', '1e', 'e5', '1e400', '-1e400', '1e-400',
             'inf', 'Inf', '-inf', '+Infinity', 'infinity', 'infin', 'nan', 'NaN', '-nan', '+nan', '0x10', '0x1p4', '0x1.8p1', '0x.8p1', '0x1', '0X1P-2',
             '1_000', '1__0', '_1', '1_', '1_.5', '1._5', '0x_1p0', '0_1', '', ' ', ' 1', '1 ', '--1', '+-1', '1.2.3', '1..2', '.', '+', '-', '+.', '.e1', '0e0', '00012', '1e0_1', '1e_1',
             '179769313486231570000000000000000000000000000000000000000000000000000000000000000000000000000000000000000000000000000000000000000000000000000000000000000000000000000000000000000000000000000000000000000000000000000000000000000000000000000000000000000000000000000000000000000000000000000000000000000000000',
             '179769313486231580793728971405303415079934132710037826936173778980444968292764750946649017977587207096330286416692887910946555547851940402630657488671505820681908902000708383676273854845817711531764475730270069855571366959622842914819860834936475292719074168444365510704342711559699508093042880177904174497791.9999',
             '179769313486231580793728971405303415079934132710037826936173778980444968292764750946649017977587207096330286416692887910946555547851940402630657488671505820681908902000708383676273854845817711531764475730270069855571366959622842914819860834936475292719074168444365510704342711559699508093042880177904174497792',
             '2.2250738585072011e-308', '4.9406564584124654e-324', '2.4703282292062327e-324', '2.4703282292062328e-324', '9007199254740993', '9007199254740992.5', '0.1', '0.30000000000000004',
             '1' + '0' * 400, '0.' + '0' * 400 + '1', '123456789012345678901234567890', '1e23', '8.41e21', '5e-324', '1.7976931348623157e308', '1.7976931348623159e308']
    for _ in range(n_random):
        k = rng.below(5)
        if k == 0:
            texts.append(str(rng.below(10 ** (1 + rng.below(30)))))
        elif k == 1:
            texts.append('%d.%d' % (rng.below(10 ** (1 + rng.below(18))), rng.below(10 ** (1 + rng.below(25)))))
        elif k == 2:   # halfway between adjacent doubles: m·2^e + 2^(e-1), written exactly
            m = (1 << 52) + (rng.next() & ((1 << 52) - 1))
            e = rng.below(60) - 30
            from fractions import Fraction
            q = Fraction(2 * m + 1, 2) * (Fraction(2) ** e)
            texts.append(frac_to_decimal(q, rng.below(3) - 1))
        elif k == 3:
            texts.append('%de%d' % (rng.below(10 ** 17), rng.below(700) - 350))
        else:
            digs = ''.join(str(rng.below(10)) for _ in range(1 + rng.below(400)))
            p = rng.below(len(digs) + 1)
            texts.append(digs[:p] + ('.' + digs[p:] if p < len(digs) and p > 0 else ''))
    return [f"num\tpf\t{hx(t)}" for t in texts]

def frac_to_decimal(q, nudge):
    """exact decimal expansion of a dyadic rational, optionally nudged by one unit in the last place"""
    from fractions import Fraction
    n, d = q.numerator, q.denominator
    k = 0
    while d % 2 == 0:
        d //= 2; k += 1
    # q = n / 2^k = n·5^k / 10^k
    num = n * 5 ** k + nudge
    s = str(num)
    if k == 0:
        return s
    s = s.rjust(k + 1, '0')
    return s[:-k] + '.' + s[-k:]

def run_numcheck(rng, n_random=2000, n_literals=2000):
    reqs = num_requests(rng, n_random) + literal_requests(rng, n_literals)
    a = run_impl(reqs)
    b = run_model(reqs)
    bad = [(r, x, y) for r, x, y in zip(reqs, a, b) if x != y]
    return len(reqs), bad
