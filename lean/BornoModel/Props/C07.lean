import BornoModel.Eval
import BornoModel.Props.C09
import BornoModel.Lemmas.EvalInv
import BornoModel.Lemmas.ParseSafe
import BornoModel.Cli
/-! # C07 — no program can make the interpreter terminate abnormally

In the model every partial host operation of the Go code (index, slice, unchecked assertion,
`arguments[i]`) is an `Option`-valued step whose `none` becomes the outcome `Abn.panic`.  The
theorems show the guards in front of them suffice. -/
namespace Borno.Props.C07
open Borno

/-- the lexer never reaches a partial operation, for any text -/
theorem lexer_no_panic (lm : Char → Bool) (hlm : lm '\n' = false) (src : List Char) : Lexer.scan lm src ≠ none := by
  obtain ⟨t, d, h⟩ := C09.scan_total lm hlm src
  rw [h]; simp

/-- **the parser never indexes past the end of the token list**: whatever the scanner returns ends in
    exactly one EOF token, and on such a list no parsing function — with any fuel — yields the
    panic outcome (the model's stand-in for Go's index-out-of-range) -/
theorem parser_no_panic (lm : Char → Bool) (hlm : lm '\n' = false) (src : List Char) (toks : List Token) (ds : List Diag)
    (hs : Lexer.scan lm src = some (toks, ds)) (f : Nat) : Parser.program f toks ≠ .abn .panic := by
  obtain ⟨body, hb, hne⟩ := C09.single_eof_last lm hlm src toks ds hs
  exact Parser.parse_no_panic f toks ⟨body, _, hb, rfl, hne⟩

/-- so the whole front end never panics, on any text -/
theorem front_end_no_panic (lm : Char → Bool) (hlm : lm '\n' = false) (src : List Char) :
    (Cli.frontEnd lm src).abnormal ≠ some .panic := by
  unfold Cli.frontEnd
  obtain ⟨toks, ds, hs⟩ := C09.scan_total lm hlm src
  simp only [hs]
  have hp := parser_no_panic lm hlm src toks ds hs (Parser.fuelFor toks)
  unfold Parser.parse
  cases hr : Parser.program (Parser.fuelFor toks) toks with
  | ok p r pd => simp
  | err pd => simp
  | abn a =>
    rw [hr] at hp
    simp only [ne_eq, Option.some.injEq]
    intro e; subst e; exact hp rfl

/-- operators are total functions into "value or reported error": `==` on any two values, shifts by any
    count, `%` and `/` by zero, all yield a value or an error message — there is no third outcome -/
theorem operators_total (P : Platform) (σ : Store) (op : TT) (a b : Val) :
    (∃ v, binop P σ op a b = .ok v) ∨ (∃ m, binop P σ op a b = .error m) := by
  cases binop P σ op a b with
  | ok v => exact Or.inl ⟨v, rfl⟩
  | error m => exact Or.inr ⟨m, rfl⟩

/-- the bounds test in front of `array[index]` guarantees the element exists -/
theorem index_guarded (σ : Store) (a iv : Val) (msg : String) (r k : Nat) (h : checkIndex σ a iv msg = .ok (r, k)) :
    ∃ v, (σ.arrs[r]?.getD [])[k]? = some v := by
  unfold checkIndex at h
  cases a <;> try (simp only at h; cases h)
  rename_i r'
  simp only at h
  cases hj : toInt64 iv with
  | none => simp [hj] at h
  | some j =>
    simp only [hj] at h
    split at h
    · cases h
    · rename_i hb
      simp only [Except.ok.injEq, Prod.mk.injEq] at h
      obtain ⟨rfl, rfl⟩ := h
      simp at hb
      exact ⟨_, List.getElem?_eq_getElem (by omega)⟩

/-- so an indexed read never panics once both operands are evaluated -/
theorem array_access_no_panic (P : Platform) (f : Nat) (a i : Expr) (line env : Nat) (repl : Bool)
    (σ σ1 σ2 : Store) (av iv : Val) (h0 : σ.hadError = false)
    (ha : evalE P f a env repl σ = .ok (av, .none) σ1) (hi : evalE P f i env repl σ1 = .ok (iv, .none) σ2) :
    evalE P (f + 1) (.arrayAccess a i line) env repl σ ≠ .abn .panic := by
  rw [evalE]; simp only [guardErr, ER.seq, Res.bind, h0, ha, hi]
  simp
  cases hc : checkIndex σ2 av iv "Invalid array access. Not an array." with
  | error m => simp [nilOk]
  | ok p =>
    obtain ⟨r, k⟩ := p
    obtain ⟨v, hv⟩ := index_guarded σ2 av iv _ r k hc
    simp [hv]

/-- the arity test in front of a call guarantees `arguments[i]` exists for every parameter -/
theorem evalList_length (P : Platform) : ∀ (f : Nat) (es : List Expr) (env : Nat) (repl : Bool) (σ σ' : Store) (vs : List Val),
    evalList P f es env repl σ = .ok (vs, .none) σ' → vs.length = es.length := by
  intro f
  induction f with
  | zero => intro es env repl σ σ' vs h; rw [evalList] at h; cases h
  | succ f ih =>
    intro es env repl σ σ' vs h
    cases es with
    | nil => rw [evalList] at h; cases h; rfl
    | cons e es =>
      rw [evalList] at h
      cases he : evalE P f e env repl σ with
      | abn x => simp [he, Res.bind] at h
      | ok p σ1 =>
        obtain ⟨v, sig⟩ := p
        simp only [he, Res.bind] at h
        by_cases hs : sig = .none
        · subst hs
          simp only [ne_eq, not_true_eq_false, if_false] at h
          cases hr : evalList P f es env repl σ1 with
          | abn x => simp [hr] at h
          | ok q σ2 =>
            obtain ⟨vs', sig2⟩ := q
            simp only [hr] at h
            simp only [Res.ok.injEq, Prod.mk.injEq] at h
            obtain ⟨⟨rfl, rfl⟩, rfl⟩ := h
            simp [ih es env repl σ1 σ2 vs' hr]
        · simp [hs] at h

theorem call_binding_no_panic (P : Platform) (f : Nat) (id : Nat) (args : List Val) (σ : Store) (cl : Closure)
    (hcl : σ.funs[id]? = some cl) (hn : args.length = cl.params.length)
    (hbody : ∀ env σ', runBody P f cl.body env σ' ≠ .abn .panic) :
    callFn P (f + 1) id args σ ≠ .abn .panic := by
  rw [callFn]; simp only [guardErr, ER.seq, Res.bind, hcl]
  have : ¬ args.length < cl.params.length := by omega
  simp [this]
  intro h
  split at h
  · cases h
  · rename_i x hx; cases h; exact hbody _ _ hx

/-- every built-in validates the number and the kinds of its arguments before using them: its outcome is
    a value or an `error` (reported by the caller as "Function call failed: …"), never a panic -/
theorem natives_total (P : Platform) (n : Expect.Native) (args : List Val) (σ : Store) :
    (∃ v, (callNative P n args σ).2 = .ok v) ∨ (∃ m, (callNative P n args σ).2 = .error m) := by
  cases (callNative P n args σ).2 with
  | ok v => exact Or.inl ⟨v, rfl⟩
  | error m => exact Or.inr ⟨m, rfl⟩

/-- **no abnormal termination of the evaluator**: for every program, every fuel, every input, every
    platform, running the program never reaches a partial host operation — it returns, or the model's
    own fuel bound is hit (the Go code is still running / recursing), or a cyclic value is printed
    (known finding) -/
theorem eval_no_panic (P : Platform) (fuel : Nat) (prog : List Stmt) (repl : Bool) (input : List Char) :
    interpret P fuel prog repl input ≠ .abn .panic := by
  have := sat_interpretLoop P fuel prog 1 repl (initStore input)
  unfold interpret
  cases h : interpretLoop P fuel prog 1 repl (initStore input) with
  | ok a σ => simp
  | abn x => rw [h] at this; intro e; cases e; exact this rfl

/-- **no text whatever makes the pipeline panic**: `run` (scan, parse, interpret) on any source text,
    with any stdin, platform and fuel, ends with its outputs, or out of the model's fuel, or in the
    cyclic-print finding — never in the panic outcome.  (Scanner total, parser never past EOF,
    a rejected text always carries a diagnostic, evaluator invariant.) -/
theorem pipeline_no_panic (P : Platform) (hlm : P.lm '\n' = false) (fuel : Nat) (src : List Char) (repl : Bool) (input : List Char) :
    (Cli.run P fuel src repl input).abnormal ≠ some .panic := by
  have hfe := front_end_no_panic P.lm hlm src
  unfold Cli.run
  cases hab : (Cli.frontEnd P.lm src).abnormal with
  | some a =>
    simp only [hab]
    rw [hab] at hfe
    exact hfe
  | none =>
    simp only [hab]
    cases hd : (Cli.frontEnd P.lm src).diags with
    | cons d ds => simp [hd]
    | nil =>
      simp only [hd, List.isEmpty_nil, Bool.not_true, Bool.false_eq_true, if_false]
      cases hp : (Cli.frontEnd P.lm src).prog with
      | none =>
        -- no tree, no diagnostic, no abnormal outcome: impossible
        exfalso
        unfold Cli.frontEnd at hab hd hp
        obtain ⟨toks, ld, hs⟩ := C09.scan_total P.lm hlm src
        simp only [hs] at hab hd hp
        unfold Parser.parse at hab hd hp
        cases hr : Parser.program (Parser.fuelFor toks) toks with
        | ok p r pd => simp [hr] at hp
        | err pd =>
          simp only [hr] at hd
          have := Parser.program_err_nonempty _ _ pd hr
          cases ld <;> cases pd <;> simp_all
        | abn a => simp [hr] at hab
      | some prog =>
        simp only [hp]
        have := eval_no_panic P fuel prog repl input
        cases hi : interpret P fuel prog repl input with
        | ok u σ => simp
        | abn a =>
          rw [hi] at this
          simp only [ne_eq, Option.some.injEq]
          intro e; subst e; exact this rfl

/-- the same for any expression or statement evaluated in any store (not only whole programs) -/
theorem eval_no_panic_anywhere (P : Platform) (f : Nat) (e : Expr) (s : Stmt) (env : Nat) (repl : Bool) (σ : Store) :
    evalE P f e env repl σ ≠ .abn .panic ∧ evalS P f s env repl σ ≠ .abn .panic := by
  constructor
  · have := (allSat P f).e e env repl σ
    cases h : evalE P f e env repl σ with
    | ok a σ' => simp
    | abn x => rw [h] at this; intro e'; cases e'; exact this rfl
  · have := (allSat P f).s s env repl σ
    cases h : evalS P f s env repl σ with
    | ok a σ' => simp
    | abn x => rw [h] at this; intro e'; cases e'; exact this rfl

/-- non-vacuity: the comparison and the shift that crashed the unrepaired interpreter -/
example (P : Platform) (σ : Store) : binop P σ .EQUAL_EQUAL (.str ['a']) (.str ['a']) = .ok (.bool true) := by
  simp [binop, valEq]

end Borno.Props.C07
