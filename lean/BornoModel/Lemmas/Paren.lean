import BornoModel.Lemmas.InterchangeStmt
import BornoModel.Lemmas.InterchangeObj
/-! # Redundant parentheses anywhere outside function bodies -/
namespace Borno
variable (P : Platform)

mutual
/-- `ParenE e e'`: `e'` is `e` with parentheses inserted around any sub-expressions -/
inductive ParenE : Expr → Expr → Prop
  | refl (e : Expr) : ParenE e e
  | wrap {e e' : Expr} (l : Nat) : ParenE e e' → ParenE e (.grouping e' l)
  | grouping {e e' : Expr} (l : Nat) : ParenE e e' → ParenE (.grouping e l) (.grouping e' l)
  | unary {e e' : Expr} (op : TT) (l : Nat) : ParenE e e' → ParenE (.unary op l e) (.unary op l e')
  | binary {a a' r r' : Expr} (op : TT) (l : Nat) : ParenE a a' → ParenE r r' → ParenE (.binary a op l r) (.binary a' op l r')
  | logical {a a' r r' : Expr} (op : TT) : ParenE a a' → ParenE r r' → ParenE (.logical a op r) (.logical a' op r')
  | call {c c' : Expr} {args args' : List Expr} (pl : Nat) : ParenE c c' → ParenL args args' → ParenE (.call c pl args) (.call c' pl args')
  | arrayLit {es es' : List Expr} : ParenL es es' → ParenE (.arrayLit es) (.arrayLit es')
  | objectLit {ps ps' : List (Name × Expr)} (tc : Bool) : ParenP ps ps' → ParenE (.objectLit ps tc) (.objectLit ps' tc)
  | arrayAccess {a a' i i' : Expr} (l : Nat) : ParenE a a' → ParenE i i' → ParenE (.arrayAccess a i l) (.arrayAccess a' i' l)
  | propAccess {o o' : Expr} (p : Name) (l : Nat) : ParenE o o' → ParenE (.propAccess o p l) (.propAccess o' p l)
  | assign {v v' : Expr} (n : Name) (nl l : Nat) : ParenE v v' → ParenE (.assign n nl v l) (.assign n nl v' l)
  | arrayAssign {a a' i i' v v' : Expr} (l : Nat) : ParenE a a' → ParenE i i' → ParenE v v' → ParenE (.arrayAssign a i v l) (.arrayAssign a' i' v' l)
  | propAssign {o o' v v' : Expr} (p : Name) (l : Nat) : ParenE o o' → ParenE v v' → ParenE (.propAssign o p v l) (.propAssign o' p v' l)
inductive ParenL : List Expr → List Expr → Prop
  | nil : ParenL [] []
  | cons {e e' : Expr} {es es' : List Expr} : ParenE e e' → ParenL es es' → ParenL (e :: es) (e' :: es')
inductive ParenP : List (Name × Expr) → List (Name × Expr) → Prop
  | nil : ParenP [] []
  | cons {k : Name} {e e' : Expr} {ps ps' : List (Name × Expr)} : ParenE e e' → ParenP ps ps' → ParenP ((k, e) :: ps) ((k, e') :: ps')
end

mutual
theorem parenE_ev : ∀ {e e' : Expr}, ParenE e e' → EvEq P e e'
  | _, _, .refl e => EvEq.refl P e
  | _, _, .wrap l h => EvEq.trans P (parenE_ev h) (EvEq.symm P (evEq_grouping P _ l))
  | _, _, .grouping l h => cong_grouping P l (parenE_ev h)
  | _, _, .unary op l h => cong_unary P op l (parenE_ev h)
  | _, _, .binary op l ha hr => EvEq.trans P (cong_binL P op l _ (parenE_ev ha)) (cong_binR P _ op l (parenE_ev hr))
  | _, _, .logical op ha hr => EvEq.trans P (cong_logL P op _ (parenE_ev ha)) (cong_logR P _ op (parenE_ev hr))
  | _, _, .call pl hc hargs =>
      EvEq.trans P (cong_callee P pl _ (parenE_ev hc)) (cong_args P _ pl (parenL_ev hargs).2 (parenL_ev hargs).1)
  | _, _, .arrayLit hs => cong_arrayLit P (parenL_ev hs).1
  | _, _, .objectLit tc hs => cong_objectLit P tc (parenP_ev hs)
  | _, _, .arrayAccess l ha hi => EvEq.trans P (cong_accA P _ l (parenE_ev ha)) (cong_accI P _ l (parenE_ev hi))
  | _, _, .propAccess p l ho => cong_propAcc P p l (parenE_ev ho)
  | _, _, .assign n nl l hv => cong_assign P n nl l (parenE_ev hv)
  | _, _, .arrayAssign l ha hi hv =>
      EvEq.trans P (cong_aasA P _ _ l (parenE_ev ha)) (EvEq.trans P (cong_aasI P _ _ l (parenE_ev hi)) (cong_aasV P _ _ l (parenE_ev hv)))
  | _, _, .propAssign p l ho hv => EvEq.trans P (cong_pasO P p _ l (parenE_ev ho)) (cong_pasV P _ p l (parenE_ev hv))
theorem parenL_ev : ∀ {es es' : List Expr}, ParenL es es' → EvL P es es' ∧ es.length = es'.length
  | _, _, .nil => ⟨EvL.refl P [], rfl⟩
  | _, _, .cons he hs => ⟨EvL.cons P (parenE_ev he) (parenL_ev hs).1, by simp [(parenL_ev hs).2]⟩
theorem parenP_ev : ∀ {ps ps' : List (Name × Expr)}, ParenP ps ps' → RelP (EvEq P) ps ps'
  | _, _, .nil => .nil
  | _, _, .cons he hs => .cons (parenE_ev he) (parenP_ev hs)
end


inductive ParenOE : Option Expr → Option Expr → Prop
  | none : ParenOE none none
  | some {e e' : Expr} : ParenE e e' → ParenOE (some e) (some e')

inductive ParenD : List VarDecl → List VarDecl → Prop
  | nil : ParenD [] []
  | consNone {n : Name} {l : Nat} {ds ds' : List VarDecl} : ParenD ds ds' → ParenD (⟨n, l, none⟩ :: ds) (⟨n, l, none⟩ :: ds')
  | consSome {n : Name} {l : Nat} {e e' : Expr} {ds ds' : List VarDecl} : ParenE e e' → ParenD ds ds' →
      ParenD (⟨n, l, some e⟩ :: ds) (⟨n, l, some e'⟩ :: ds')

mutual
/-- `ParenS s s'`: `s'` is `s` with parentheses inserted around sub-expressions of its own code — not inside the
    bodies of the functions it declares (a declaration is related only to itself) -/
inductive ParenS : Stmt → Stmt → Prop
  | refl (s : Stmt) : ParenS s s
  | expr {e e' : Expr} : ParenE e e' → ParenS (.expr e) (.expr e')
  | print {e e' : Expr} : ParenE e e' → ParenS (.print e) (.print e')
  | var {e e' : Expr} (n : Name) (l : Nat) : ParenE e e' → ParenS (.var ⟨n, l, some e⟩) (.var ⟨n, l, some e'⟩)
  | varList {ds ds' : List VarDecl} : ParenD ds ds' → ParenS (.varList ds) (.varList ds')
  | block {ss ss' : List Stmt} : ParenSs ss ss' → ParenS (.block ss) (.block ss')
  | ifS {c c' : Expr} {t t' : Stmt} {e e' : Option Stmt} : ParenE c c' → ParenS t t' → ParenOS e e' → ParenS (.ifS c t e) (.ifS c' t' e')
  | whileS {c c' : Expr} {b b' : Stmt} : ParenE c c' → ParenS b b' → ParenS (.whileS c b) (.whileS c' b')
  | forS {i i' : Option Stmt} {c c' inc inc' : Option Expr} {b b' : Stmt} : ParenOS i i' → ParenOE c c' → ParenOE inc inc' → ParenS b b' →
      ParenS (.forS i c inc b) (.forS i' c' inc' b')
  | returnS {e e' : Expr} (l : Nat) : ParenE e e' → ParenS (.returnS l (some e)) (.returnS l (some e'))
inductive ParenSs : List Stmt → List Stmt → Prop
  | nil : ParenSs [] []
  | cons {s s' : Stmt} {ss ss' : List Stmt} : ParenS s s' → ParenSs ss ss' → ParenSs (s :: ss) (s' :: ss')
inductive ParenOS : Option Stmt → Option Stmt → Prop
  | none : ParenOS none none
  | some {s s' : Stmt} : ParenS s s' → ParenOS (some s) (some s')
end

theorem parenOE_ev {a b : Option Expr} (h : ParenOE a b) : OptEv P a b := by
  cases h with
  | none => exact .none
  | some h => exact .some (parenE_ev P h)

theorem parenD_ev {ds ds' : List VarDecl} (h : ParenD ds ds') : ListD P ds ds' := by
  induction h with
  | nil => exact .nil
  | consNone _ ih => exact .consNone ih
  | consSome he _ ih => exact .consSome (parenE_ev P he) ih

mutual
theorem parenS_ev : ∀ {s s' : Stmt}, ParenS s s' → EvS P s s'
  | _, _, .refl s => EvS.refl P s
  | _, _, .expr h => evS_expr P (parenE_ev P h)
  | _, _, .print h => evS_print P (parenE_ev P h)
  | _, _, .var n l h => evS_var P n l (parenE_ev P h)
  | _, _, .varList h => evS_varList P (parenD_ev P h)
  | _, _, .block h => evS_block P (parenSs_ev h)
  | _, _, .ifS hc ht he => evS_if P (parenE_ev P hc) (parenS_ev ht) (parenOS_ev he)
  | _, _, .whileS hc hb => evS_while P (parenE_ev P hc) (parenS_ev hb)
  | _, _, .forS hi hc hinc hb => evS_for P (parenOS_ev hi) (parenOE_ev P hc) (parenOE_ev P hinc) (parenS_ev hb)
  | _, _, .returnS l h => evS_return P l (parenE_ev P h)
theorem parenSs_ev : ∀ {ss ss' : List Stmt}, ParenSs ss ss' → ListS P ss ss'
  | _, _, .nil => .nil
  | _, _, .cons h hs => .cons (parenS_ev h) (parenSs_ev hs)
theorem parenOS_ev : ∀ {a b : Option Stmt}, ParenOS a b → OptS P a b
  | _, _, .none => .none
  | _, _, .some h => .some (parenS_ev h)
end

/-- **redundant parentheses, whole programs**: if `prog'` is `prog` with parentheses inserted around any
    sub-expressions of its top-level code, its blocks, branches, loop headers and loop bodies, object-literal initialisers (anywhere but inside
    function bodies), then from some step budget on interpreting the two ends in
    exactly the same state: same output, same diagnostics, same flags, same remaining input — or the same abnormal end -/
theorem interpret_paren {prog prog' : List Stmt} (h : ParenSs prog prog') (repl : Bool) (input : List Char) :
    ∃ F0, ∀ F, F0 ≤ F → interpret P F prog repl input = interpret P F prog' repl input :=
  interpretLoop_ev2 P (parenSs_ev P h) 1 repl (initStore input)

end Borno
