import BornoModel.Lemmas.FuelMono
/-! # Expressions that agree in every state are interchangeable in every expression context

`EvEq e e'`: in every scope and store, from some budget on, `e` and `e'` evaluate to the same result (value, signal,
store — or the same abnormal end).  This is a congruence for every expression-forming position. -/
namespace Borno
variable (P : Platform)

/-- from some budget on the two evaluations coincide -/
def EvEq (e e' : Expr) : Prop :=
  ∀ env repl σ, ∃ F0, ∀ F, F0 ≤ F → evalE P F e env repl σ = evalE P F e' env repl σ

theorem EvEq.refl (e : Expr) : EvEq P e e := fun _ _ _ => ⟨0, fun _ _ => rfl⟩
theorem EvEq.symm {e e' : Expr} (h : EvEq P e e') : EvEq P e' e := fun env repl σ =>
  let ⟨F0, h0⟩ := h env repl σ; ⟨F0, fun F hF => (h0 F hF).symm⟩
theorem EvEq.trans {a b c : Expr} (h1 : EvEq P a b) (h2 : EvEq P b c) : EvEq P a c := fun env repl σ =>
  let ⟨F1, g1⟩ := h1 env repl σ; let ⟨F2, g2⟩ := h2 env repl σ
  ⟨max F1 F2, fun F hF => (g1 F (by omega)).trans (g2 F (by omega))⟩

/-- an evaluation either never answers, or answers the same from some budget on -/
theorem settles (e : Expr) (env : Nat) (repl : Bool) (σ : Store) :
    (∀ F, evalE P F e env repl σ = .abn .fuel) ∨ (∃ f r, ∀ F, f ≤ F → evalE P F e env repl σ = r) := by
  by_cases h : ∀ F, evalE P F e env repl σ = .abn .fuel
  · exact Or.inl h
  · obtain ⟨f, hf⟩ := Classical.not_forall.1 h
    exact Or.inr ⟨f, evalE P f e env repl σ, fun F hF => evalE_stable P f F hF e env repl σ hf⟩

/-- with the error flag set, every expression node returns at once -/
theorem evalE_guard (f : Nat) (e : Expr) (env : Nat) (repl : Bool) (σ : Store) (h : σ.hadError = true) :
    evalE P (f + 1) e env repl σ = nilOk σ := by
  cases e <;> rw [evalE] <;> simp [guardErr, h]

theorem guardErr_of_not (σ : Store) (k : ER) (h : σ.hadError = false) : guardErr σ k = k := by
  simp [guardErr, h]

/-- grouping is transparent -/
theorem evEq_grouping (e : Expr) (l : Nat) : EvEq P (.grouping e l) e := by
  intro env repl σ
  cases hs : σ.hadError with
  | true => exact ⟨1, fun F hF => by
      obtain ⟨F', rfl⟩ : ∃ F', F = F' + 1 := ⟨F - 1, by omega⟩
      rw [evalE_guard P F' _ env repl σ hs, evalE_guard P F' _ env repl σ hs]⟩
  | false =>
    rcases settles P e env repl σ with h | ⟨f, r, h⟩
    · refine ⟨1, fun F hF => ?_⟩
      obtain ⟨F', rfl⟩ : ∃ F', F = F' + 1 := ⟨F - 1, by omega⟩
      rw [evalE, guardErr_of_not σ _ hs, h, h]
    · refine ⟨f + 1, fun F hF => ?_⟩
      obtain ⟨F', rfl⟩ : ∃ F', F = F' + 1 := ⟨F - 1, by omega⟩
      rw [evalE, guardErr_of_not σ _ hs, h F' (by omega), h (F' + 1) (by omega)]


/-! ## eventual equality of budget-indexed computations -/

def Ev2 {α : Type} (A B : Nat → Res α) : Prop := ∃ F0, ∀ F, F0 ≤ F → A F = B F

def Settles {α : Type} (X : Nat → Res α) : Prop :=
  (∀ F, X F = .abn .fuel) ∨ (∃ f r, ∀ F, f ≤ F → X F = r)

theorem Ev2.refl {α : Type} (A : Nat → Res α) : Ev2 A A := ⟨0, fun _ _ => rfl⟩

theorem settles_of_le {α : Type} (g : Nat → Res α) (h : ∀ f, (g f).le (g (f + 1))) : Settles g := by
  by_cases hh : ∀ F, g F = .abn .fuel
  · exact Or.inl hh
  · obtain ⟨f, hf⟩ := Classical.not_forall.1 hh
    exact Or.inr ⟨f, g f, fun F hF => stable_of_le g h f F hF hf⟩

theorem ev2_guard {σ : Store} {A B : Nat → ER} (h : Ev2 A B) : Ev2 (fun F => guardErr σ (A F)) (fun F => guardErr σ (B F)) := by
  obtain ⟨F0, h0⟩ := h
  exact ⟨F0, fun F hF => by simp only [h0 F hF]⟩

theorem ev2_bind {α β : Type} {X X' : Nat → Res α} {K K' : Nat → α → Store → Res β} (hX : Ev2 X X') (hS : Settles X)
    (hK : ∀ a σ1, Ev2 (fun F => K F a σ1) (fun F => K' F a σ1)) :
    Ev2 (fun F => (X F).bind (K F)) (fun F => (X' F).bind (K' F)) := by
  obtain ⟨F1, h1⟩ := hX
  rcases hS with hn | ⟨f, r, hr⟩
  · refine ⟨F1, fun F hF => ?_⟩
    show (X F).bind (K F) = (X' F).bind (K' F)
    rw [← h1 F hF, hn F]; rfl
  · cases r with
    | abn x =>
      refine ⟨max F1 f, fun F hF => ?_⟩
      show (X F).bind (K F) = (X' F).bind (K' F)
      rw [← h1 F (by omega), hr F (by omega)]; rfl
    | ok a σ1 =>
      obtain ⟨F2, h2⟩ := hK a σ1
      refine ⟨max (max F1 f) F2, fun F hF => ?_⟩
      show (X F).bind (K F) = (X' F).bind (K' F)
      rw [← h1 F (by omega), hr F (by omega)]
      exact h2 F (by omega)

theorem ev2_ite {α : Type} {c : Prop} [Decidable c] {A A' B B' : Nat → Res α} (ha : Ev2 A A') (hb : Ev2 B B') :
    Ev2 (fun F => if c then A F else B F) (fun F => if c then A' F else B' F) := by
  by_cases h : c
  · simp only [h, if_true]; exact ha
  · simp only [h, if_false]; exact hb

theorem ev2_seq {X X' : Nat → ER} {K K' : Nat → Val → Store → ER} (hX : Ev2 X X') (hS : Settles X)
    (hK : ∀ a σ1, Ev2 (fun F => K F a σ1) (fun F => K' F a σ1)) :
    Ev2 (fun F => (X F).seq (K F)) (fun F => (X' F).seq (K' F)) := by
  unfold ER.seq
  exact ev2_bind hX hS (fun p σ1 => ev2_ite (Ev2.refl _) (hK p.1 σ1))

theorem settlesE (e : Expr) (env : Nat) (repl : Bool) (σ : Store) : Settles (fun F => evalE P F e env repl σ) :=
  settles_of_le _ (fun f => (mono P f).e e env repl σ)

theorem settlesL (es : List Expr) (env : Nat) (repl : Bool) (σ : Store) : Settles (fun F => evalList P F es env repl σ) :=
  settles_of_le _ (fun f => (mono P f).l es env repl σ)

/-- from `Ev2` at budgets `F + 1` to `EvEq` -/
theorem evEq_of_succ {e e' : Expr}
    (h : ∀ env repl σ, Ev2 (fun F => evalE P (F + 1) e env repl σ) (fun F => evalE P (F + 1) e' env repl σ)) : EvEq P e e' := by
  intro env repl σ
  obtain ⟨F0, h0⟩ := h env repl σ
  refine ⟨F0 + 1, fun F hF => ?_⟩
  obtain ⟨F', rfl⟩ : ∃ F', F = F' + 1 := ⟨F - 1, by omega⟩
  exact h0 F' (by omega)

theorem EvEq.ev2 {e e' : Expr} (h : EvEq P e e') (env : Nat) (repl : Bool) (σ : Store) :
    Ev2 (fun F => evalE P F e env repl σ) (fun F => evalE P F e' env repl σ) := h env repl σ


/-! ## congruences, one per hole position -/


theorem cong_grouping {e e' : Expr} (l : Nat) (h : EvEq P e e') : EvEq P (.grouping e l) (.grouping e' l) := by
  refine evEq_of_succ P (fun env repl σ => ?_); simp only [evalE]; refine ev2_guard ?_
  exact h env repl σ

theorem cong_unary {e e' : Expr} (op : TT) (l : Nat) (h : EvEq P e e') : EvEq P (.unary op l e) (.unary op l e') := by
  refine evEq_of_succ P (fun env repl σ => ?_); simp only [evalE]; refine ev2_guard ?_
  exact ev2_seq (h env repl σ) (settlesE P _ _ _ _) (fun _ _ => Ev2.refl _)

theorem cong_binL {a a' : Expr} (op : TT) (l : Nat) (r : Expr) (h : EvEq P a a') : EvEq P (.binary a op l r) (.binary a' op l r) := by
  refine evEq_of_succ P (fun env repl σ => ?_); simp only [evalE]; refine ev2_guard ?_
  exact ev2_seq (h env repl σ) (settlesE P _ _ _ _) (fun _ _ => Ev2.refl _)

theorem cong_binR (a : Expr) (op : TT) (l : Nat) {r r' : Expr} (h : EvEq P r r') : EvEq P (.binary a op l r) (.binary a op l r') := by
  refine evEq_of_succ P (fun env repl σ => ?_); simp only [evalE]; refine ev2_guard ?_
  exact ev2_seq (Ev2.refl _) (settlesE P _ _ _ _) (fun _ σ1 => ev2_guard (ev2_seq (h env repl σ1) (settlesE P _ _ _ _) (fun _ _ => Ev2.refl _)))

theorem cong_logL {a a' : Expr} (op : TT) (r : Expr) (h : EvEq P a a') : EvEq P (.logical a op r) (.logical a' op r) := by
  refine evEq_of_succ P (fun env repl σ => ?_); simp only [evalE]; refine ev2_guard ?_
  exact ev2_seq (h env repl σ) (settlesE P _ _ _ _) (fun _ _ => Ev2.refl _)

theorem cong_logR (a : Expr) (op : TT) {r r' : Expr} (h : EvEq P r r') : EvEq P (.logical a op r) (.logical a op r') := by
  refine evEq_of_succ P (fun env repl σ => ?_); simp only [evalE]; refine ev2_guard ?_
  exact ev2_seq (Ev2.refl _) (settlesE P _ _ _ _) (fun _ σ1 => ev2_ite (ev2_ite (Ev2.refl _) (h env repl σ1)) (ev2_ite (Ev2.refl _) (h env repl σ1)))

theorem cong_assign (n : Name) (nl : Nat) {v v' : Expr} (l : Nat) (h : EvEq P v v') : EvEq P (.assign n nl v l) (.assign n nl v' l) := by
  refine evEq_of_succ P (fun env repl σ => ?_); simp only [evalE]; refine ev2_guard ?_
  exact ev2_seq (h env repl σ) (settlesE P _ _ _ _) (fun _ _ => Ev2.refl _)

theorem cong_accA {a a' : Expr} (i : Expr) (l : Nat) (h : EvEq P a a') : EvEq P (.arrayAccess a i l) (.arrayAccess a' i l) := by
  refine evEq_of_succ P (fun env repl σ => ?_); simp only [evalE]; refine ev2_guard ?_
  exact ev2_seq (h env repl σ) (settlesE P _ _ _ _) (fun _ _ => Ev2.refl _)

theorem cong_accI (a : Expr) {i i' : Expr} (l : Nat) (h : EvEq P i i') : EvEq P (.arrayAccess a i l) (.arrayAccess a i' l) := by
  refine evEq_of_succ P (fun env repl σ => ?_); simp only [evalE]; refine ev2_guard ?_
  exact ev2_seq (Ev2.refl _) (settlesE P _ _ _ _) (fun _ σ1 => ev2_seq (h env repl σ1) (settlesE P _ _ _ _) (fun _ _ => Ev2.refl _))

theorem cong_propAcc {o o' : Expr} (p : Name) (l : Nat) (h : EvEq P o o') : EvEq P (.propAccess o p l) (.propAccess o' p l) := by
  refine evEq_of_succ P (fun env repl σ => ?_); simp only [evalE]; refine ev2_guard ?_
  exact ev2_seq (h env repl σ) (settlesE P _ _ _ _) (fun _ _ => Ev2.refl _)

theorem cong_aasA {a a' : Expr} (i v : Expr) (l : Nat) (h : EvEq P a a') : EvEq P (.arrayAssign a i v l) (.arrayAssign a' i v l) := by
  refine evEq_of_succ P (fun env repl σ => ?_); simp only [evalE]; refine ev2_guard ?_
  exact ev2_seq (h env repl σ) (settlesE P _ _ _ _) (fun _ _ => Ev2.refl _)

theorem cong_aasI (a : Expr) {i i' : Expr} (v : Expr) (l : Nat) (h : EvEq P i i') : EvEq P (.arrayAssign a i v l) (.arrayAssign a i' v l) := by
  refine evEq_of_succ P (fun env repl σ => ?_); simp only [evalE]; refine ev2_guard ?_
  exact ev2_seq (Ev2.refl _) (settlesE P _ _ _ _) (fun _ σ1 => ev2_seq (h env repl σ1) (settlesE P _ _ _ _) (fun _ _ => Ev2.refl _))

theorem cong_aasV (a i : Expr) {v v' : Expr} (l : Nat) (h : EvEq P v v') : EvEq P (.arrayAssign a i v l) (.arrayAssign a i v' l) := by
  refine evEq_of_succ P (fun env repl σ => ?_); simp only [evalE]; refine ev2_guard ?_
  exact ev2_seq (Ev2.refl _) (settlesE P _ _ _ _) (fun _ σ1 => ev2_seq (Ev2.refl _) (settlesE P _ _ _ _)
    (fun _ σ2 => ev2_seq (h env repl σ2) (settlesE P _ _ _ _) (fun _ _ => Ev2.refl _)))


theorem cong_pasO {o o' : Expr} (p : Name) (v : Expr) (l : Nat) (h : EvEq P o o') : EvEq P (.propAssign o p v l) (.propAssign o' p v l) := by
  refine evEq_of_succ P (fun env repl σ => ?_); simp only [evalE]; refine ev2_guard ?_
  exact ev2_seq (h env repl σ) (settlesE P _ _ _ _) (fun _ _ => Ev2.refl _)

theorem cong_pasV (o : Expr) (p : Name) {v v' : Expr} (l : Nat) (h : EvEq P v v') : EvEq P (.propAssign o p v l) (.propAssign o p v' l) := by
  refine evEq_of_succ P (fun env repl σ => ?_); simp only [evalE]; refine ev2_guard ?_
  refine ev2_seq (Ev2.refl _) (settlesE P _ _ _ _) (fun ov σ1 => ?_)
  cases ov <;> first | exact Ev2.refl _ | exact ev2_seq (h env repl σ1) (settlesE P _ _ _ _) (fun _ _ => Ev2.refl _)

theorem cong_callee {c c' : Expr} (pl : Nat) (args : List Expr) (h : EvEq P c c') : EvEq P (.call c pl args) (.call c' pl args) := by
  refine evEq_of_succ P (fun env repl σ => ?_); simp only [evalE]; refine ev2_guard ?_
  exact ev2_seq (h env repl σ) (settlesE P _ _ _ _) (fun _ _ => Ev2.refl _)

/-- lists of expressions that agree element-wise, eventually -/
def EvL (es es' : List Expr) : Prop :=
  ∀ env repl σ, Ev2 (fun F => evalList P F es env repl σ) (fun F => evalList P F es' env repl σ)

theorem EvL.refl (es : List Expr) : EvL P es es := fun _ _ _ => Ev2.refl _

theorem ev2_of_succ {α : Type} {A B : Nat → Res α} (h : Ev2 (fun F => A (F + 1)) (fun F => B (F + 1))) : Ev2 A B := by
  obtain ⟨F0, h0⟩ := h
  refine ⟨F0 + 1, fun F hF => ?_⟩
  obtain ⟨F', rfl⟩ : ∃ F', F = F' + 1 := ⟨F - 1, by omega⟩
  exact h0 F' (by omega)

theorem EvL.cons {e e' : Expr} {es es' : List Expr} (h : EvEq P e e') (hs : EvL P es es') : EvL P (e :: es) (e' :: es') := by
  intro env repl σ
  refine ev2_of_succ ?_
  simp only [evalList]
  exact ev2_bind (h env repl σ) (settlesE P _ _ _ _) (fun _ σ1 => ev2_ite (Ev2.refl _) (ev2_bind (hs env repl σ1) (settlesL P _ _ _ _) (fun _ _ => Ev2.refl _)))

theorem EvL.hole (pre post : List Expr) {e e' : Expr} (h : EvEq P e e') : EvL P (pre ++ e :: post) (pre ++ e' :: post) := by
  induction pre with
  | nil => exact EvL.cons P h (EvL.refl P post)
  | cons x pre ih => exact EvL.cons P (EvEq.refl P x) ih

theorem cong_arrayLit {es es' : List Expr} (h : EvL P es es') : EvEq P (.arrayLit es) (.arrayLit es') := by
  refine evEq_of_succ P (fun env repl σ => ?_); simp only [evalE]; refine ev2_guard ?_
  exact ev2_bind (h env repl σ) (settlesL P _ _ _ _) (fun _ _ => Ev2.refl _)

theorem cong_args (c : Expr) (pl : Nat) {args args' : List Expr} (hl : args.length = args'.length) (h : EvL P args args') :
    EvEq P (.call c pl args) (.call c pl args') := by
  refine evEq_of_succ P (fun env repl σ => ?_); simp only [evalE]; refine ev2_guard ?_
  refine ev2_seq (Ev2.refl _) (settlesE P _ _ _ _) (fun cv σ1 => ?_)
  rw [hl]
  cases arityOf σ1 cv with
  | none => exact Ev2.refl _
  | some k => exact ev2_ite (Ev2.refl _) (ev2_bind (h env repl σ1) (settlesL P _ _ _ _) (fun _ _ => Ev2.refl _))


/-! ## one-hole expression contexts -/

/-- an expression with one hole, in any operand, argument, element, subscript, callee, receiver or value position
    (object-literal initialisers are the one position left out: their evaluation order goes through `effectiveProps`) -/
inductive Ctx
  | hole
  | grouping (c : Ctx) (l : Nat)
  | unary (op : TT) (l : Nat) (c : Ctx)
  | binL (c : Ctx) (op : TT) (l : Nat) (r : Expr)
  | binR (a : Expr) (op : TT) (l : Nat) (c : Ctx)
  | logL (c : Ctx) (op : TT) (r : Expr)
  | logR (a : Expr) (op : TT) (c : Ctx)
  | callee (c : Ctx) (pl : Nat) (args : List Expr)
  | arg (f : Expr) (pl : Nat) (pre : List Expr) (c : Ctx) (post : List Expr)
  | elem (pre : List Expr) (c : Ctx) (post : List Expr)
  | accA (c : Ctx) (i : Expr) (l : Nat)
  | accI (a : Expr) (c : Ctx) (l : Nat)
  | propAcc (c : Ctx) (p : Name) (l : Nat)
  | assign (n : Name) (nl : Nat) (c : Ctx) (l : Nat)
  | aasA (c : Ctx) (i v : Expr) (l : Nat)
  | aasI (a : Expr) (c : Ctx) (v : Expr) (l : Nat)
  | aasV (a i : Expr) (c : Ctx) (l : Nat)
  | pasO (c : Ctx) (p : Name) (v : Expr) (l : Nat)
  | pasV (o : Expr) (p : Name) (c : Ctx) (l : Nat)

def Ctx.plug : Ctx → Expr → Expr
  | .hole, e => e
  | .grouping c l, e => .grouping (c.plug e) l
  | .unary op l c, e => .unary op l (c.plug e)
  | .binL c op l r, e => .binary (c.plug e) op l r
  | .binR a op l c, e => .binary a op l (c.plug e)
  | .logL c op r, e => .logical (c.plug e) op r
  | .logR a op c, e => .logical a op (c.plug e)
  | .callee c pl args, e => .call (c.plug e) pl args
  | .arg f pl pre c post, e => .call f pl (pre ++ c.plug e :: post)
  | .elem pre c post, e => .arrayLit (pre ++ c.plug e :: post)
  | .accA c i l, e => .arrayAccess (c.plug e) i l
  | .accI a c l, e => .arrayAccess a (c.plug e) l
  | .propAcc c p l, e => .propAccess (c.plug e) p l
  | .assign n nl c l, e => .assign n nl (c.plug e) l
  | .aasA c i v l, e => .arrayAssign (c.plug e) i v l
  | .aasI a c v l, e => .arrayAssign a (c.plug e) v l
  | .aasV a i c l, e => .arrayAssign a i (c.plug e) l
  | .pasO c p v l, e => .propAssign (c.plug e) p v l
  | .pasV o p c l, e => .propAssign o p (c.plug e) l

/-- **interchangeable in every context**: two expressions that, in every scope and store, come to the same result
    (value, signal, store, diagnostics — or the same abnormal end) can replace each other inside any enclosing
    expression without changing what that expression comes to -/
theorem plug_congr (C : Ctx) {e e' : Expr} (h : EvEq P e e') : EvEq P (C.plug e) (C.plug e') := by
  induction C with
  | hole => exact h
  | grouping c l ih => exact cong_grouping P l ih
  | unary op l c ih => exact cong_unary P op l ih
  | binL c op l r ih => exact cong_binL P op l r ih
  | binR a op l c ih => exact cong_binR P a op l ih
  | logL c op r ih => exact cong_logL P op r ih
  | logR a op c ih => exact cong_logR P a op ih
  | callee c pl args ih => exact cong_callee P pl args ih
  | arg f pl pre c post ih => exact cong_args P f pl (by simp) (EvL.hole P pre post ih)
  | elem pre c post ih => exact cong_arrayLit P (EvL.hole P pre post ih)
  | accA c i l ih => exact cong_accA P i l ih
  | accI a c l ih => exact cong_accI P a l ih
  | propAcc c p l ih => exact cong_propAcc P p l ih
  | assign n nl c l ih => exact cong_assign P n nl l ih
  | aasA c i v l ih => exact cong_aasA P i v l ih
  | aasI a c v l ih => exact cong_aasI P a v l ih
  | aasV a i c l ih => exact cong_aasV P a i l ih
  | pasO c p v l ih => exact cong_pasO P p v l ih
  | pasV o p c l ih => exact cong_pasV P o p l ih

/-- redundant parentheses around any sub-expression of an expression change nothing -/
theorem paren_anywhere (C : Ctx) (e : Expr) (l : Nat) : EvEq P (C.plug (.grouping e l)) (C.plug e) :=
  plug_congr P C (evEq_grouping P e l)


/-! ## statements whose head holds the expression -/

def EvS (s s' : Stmt) : Prop :=
  ∀ env repl σ, Ev2 (fun F => evalS P F s env repl σ) (fun F => evalS P F s' env repl σ)

theorem evS_print {e e' : Expr} (h : EvEq P e e') : EvS P (.print e) (.print e') := by
  intro env repl σ; refine ev2_of_succ ?_; simp only [evalS]; refine ev2_guard ?_
  exact ev2_bind (h env repl σ) (settlesE P _ _ _ _) (fun _ _ => Ev2.refl _)

theorem evS_expr {e e' : Expr} (h : EvEq P e e') : EvS P (.expr e) (.expr e') := by
  intro env repl σ; refine ev2_of_succ ?_; simp only [evalS]; refine ev2_guard ?_
  exact ev2_seq (h env repl σ) (settlesE P _ _ _ _) (fun _ _ => Ev2.refl _)

theorem evS_var (n : Name) (l : Nat) {e e' : Expr} (h : EvEq P e e') : EvS P (.var ⟨n, l, some e⟩) (.var ⟨n, l, some e'⟩) := by
  intro env repl σ; refine ev2_of_succ ?_; simp only [evalS]; refine ev2_guard ?_
  exact ev2_seq (ev2_seq (h env repl σ) (settlesE P _ _ _ _) (fun _ _ => Ev2.refl _))
    (settles_of_le _ (fun f => seq_le ((mono P f).e _ _ _ _) (fun _ _ => Res.le_refl _))) (fun _ _ => Ev2.refl _)

theorem evS_return (l : Nat) {e e' : Expr} (h : EvEq P e e') : EvS P (.returnS l (some e)) (.returnS l (some e')) := by
  intro env repl σ; refine ev2_of_succ ?_; simp only [evalS_returnS]; refine ev2_guard ?_
  exact ev2_seq (h env repl σ) (settlesE P _ _ _ _) (fun _ _ => Ev2.refl _)

theorem evS_ifCond {c c' : Expr} (t : Stmt) (el : Option Stmt) (h : EvEq P c c') : EvS P (.ifS c t el) (.ifS c' t el) := by
  intro env repl σ; refine ev2_of_succ ?_; simp only [evalS]; refine ev2_guard ?_
  exact ev2_seq (h env repl σ) (settlesE P _ _ _ _) (fun _ _ => Ev2.refl _)

end Borno
