import BornoModel.Eval
import BornoModel.Cli
import BornoModel.Lemmas.FuelMono
/-! # C13 — execution is deterministic

The model is a function of (platform, source, stdin): there is no other input — no clock unless
`ক্লক` is called, no address, no hash seed.  The one place where the Go runtime randomises
(iteration over a map) is modelled by an arbitrary permutation of the key list; the theorems
below show the listing does not depend on it. -/
namespace Borno.Props.C13
open Borno

theorem strLt_irrefl : ∀ a : List Char, strLt a a = false
  | [] => rfl
  | c :: cs => by simp [strLt, strLt_irrefl cs]

theorem strLt_asymm : ∀ a b : List Char, strLt a b = true → strLt b a = false
  | [], [], h => by simp [strLt] at h
  | [], _ :: _, _ => rfl
  | _ :: _, [], h => by simp [strLt] at h
  | a :: as, b :: bs, h => by
    unfold strLt at h ⊢
    by_cases h1 : a.toNat < b.toNat
    · have : ¬ b.toNat < a.toNat := by omega
      simp [this, h1]
    · by_cases h2 : a.toNat > b.toNat
      · simp [h1, h2] at h
      · simp [h1, h2] at h
        have h3 : ¬ b.toNat < a.toNat := by omega
        have h4 : ¬ b.toNat > a.toNat := by omega
        simp [h3, h4, strLt_asymm as bs h]

theorem strLt_trichotomy : ∀ a b : List Char, strLt a b = false → strLt b a = false → a = b
  | [], [], _, _ => rfl
  | [], _ :: _, h, _ => by simp [strLt] at h
  | _ :: _, [], _, h => by simp [strLt] at h
  | a :: as, b :: bs, h1, h2 => by
    unfold strLt at h1 h2
    by_cases hab : a.toNat < b.toNat
    · simp [hab] at h1
    · by_cases hba : b.toNat < a.toNat
      · simp [hba] at h2
      · have e : a.toNat = b.toNat := by omega
        have hab' : ¬ a.toNat > b.toNat := by omega
        have hba' : ¬ b.toNat > a.toNat := by omega
        simp [hab, hab', hba, hba'] at h1 h2
        have hab2 : a = b := Char.toNat_inj.mp e
        rw [hab2, strLt_trichotomy as bs h1 h2]

theorem strLt_trans : ∀ a b c : List Char, strLt a b = true → strLt b c = true → strLt a c = true
  | [], _, [], _, h => by cases ‹List Char› <;> simp [strLt] at h
  | [], _, _ :: _, _, _ => rfl
  | _ :: _, [], _, h, _ => by simp [strLt] at h
  | _ :: _, _ :: _, [], _, h => by simp [strLt] at h
  | a :: as, b :: bs, c :: cs, h1, h2 => by
    unfold strLt at h1 h2 ⊢
    by_cases hab : a.toNat < b.toNat
    · by_cases hbc : b.toNat < c.toNat
      · have : a.toNat < c.toNat := by omega
        simp [this]
      · by_cases hcb : b.toNat > c.toNat
        · simp [hbc, hcb] at h2
        · have : a.toNat < c.toNat := by omega
          simp [this]
    · by_cases hba : a.toNat > b.toNat
      · simp [hab, hba] at h1
      · simp [hab, hba] at h1
        by_cases hbc : b.toNat < c.toNat
        · have : a.toNat < c.toNat := by omega
          simp [this]
        · by_cases hcb : b.toNat > c.toNat
          · simp [hbc, hcb] at h2
          · simp [hbc, hcb] at h2
            have h3 : ¬ a.toNat < c.toNat := by omega
            have h4 : ¬ a.toNat > c.toNat := by omega
            simp [h3, h4, strLt_trans as bs cs h1 h2]

/-- the order used for listing keys is a total order on names -/
theorem strLe_total (a b : List Char) : (strLe a b || strLe b a) = true := by
  unfold strLe
  cases h : strLt b a
  · simp
  · simp [strLt_asymm b a h]

theorem strLe_trans (a b c : List Char) (h1 : strLe a b = true) (h2 : strLe b c = true) : strLe a c = true := by
  unfold strLe at *
  simp at *
  cases h : strLt c a
  · rfl
  · exfalso
    -- c < a ; ¬ b < a ; ¬ c < b
    cases hab : strLt a b
    · have : a = b := strLt_trichotomy a b hab h1
      subst this; rw [h] at h2; cases h2
    · have := strLt_trans c a b h hab
      rw [this] at h2; cases h2

theorem strLe_antisymm (a b : List Char) (h1 : strLe a b = true) (h2 : strLe b a = true) : a = b := by
  unfold strLe at *
  simp at *
  exact strLt_trichotomy a b h2 h1

/-- listing the keys of an object gives the same sequence whatever order the host iterates the map in:
    sorting any two permutations of a duplicate-free key list yields one and the same list -/
theorem keys_stable (ks₁ ks₂ : List Name) (hp : ks₁.Perm ks₂) : sortKeys ks₁ = sortKeys ks₂ := by
  unfold sortKeys
  have hs1 := List.pairwise_mergeSort (le := strLe) (fun a b c h1 h2 => strLe_trans a b c h1 h2)
    (fun a b => strLe_total a b) ks₁
  have hs2 := List.pairwise_mergeSort (le := strLe) (fun a b c h1 h2 => strLe_trans a b c h1 h2)
    (fun a b => strLe_total a b) ks₂
  have hperm : (ks₁.mergeSort strLe).Perm (ks₂.mergeSort strLe) :=
    ((List.mergeSort_perm ks₁ _).trans hp).trans (List.mergeSort_perm ks₂ _).symm
  exact hperm.eq_of_pairwise (fun a b _ _ h1 h2 => strLe_antisymm a b h1 h2) hs1 hs2

/-- so the key listing and the value listing of an object are independent of iteration order -/
theorem listing_independent_of_iteration_order (σ : Store) (r : Nat) (perm : List (Name × Val))
    (hp : perm.Perm (σ.objs[r]?.getD [])) :
    sortKeys (perm.map (·.1)) = sortKeys ((σ.objs[r]?.getD []).map (·.1)) :=
  keys_stable _ _ (hp.map _)

/-! ## the model keeps an object's properties in insertion order, a Go map has no order: nothing observable depends on it -/

/-- looking a key up in a duplicate-free property list does not depend on the order of the list -/
theorem lookup_perm {α : Type} {ps qs : List (Name × α)} (hp : ps.Perm qs) (hnd : (ps.map (·.1)).Nodup) (k : Name) :
    ps.lookup k = qs.lookup k := by
  induction hp with
  | nil => rfl
  | cons x _ ih =>
    obtain ⟨k', v'⟩ := x
    simp only [List.map_cons, List.nodup_cons] at hnd
    simp only [List.lookup]
    cases k == k' <;> simp [ih hnd.2]
  | swap x y l =>
    obtain ⟨k1, v1⟩ := x; obtain ⟨k2, v2⟩ := y
    simp only [List.map_cons, List.nodup_cons, List.mem_cons, not_or] at hnd
    simp only [List.lookup]
    cases h1 : k == k1 <;> cases h2 : k == k2 <;> simp
    -- both keys equal `k`: excluded, the list is duplicate-free
    have e1 : k = k1 := by simpa using h1
    have e2 : k = k2 := by simpa using h2
    exact absurd (e2.symm.trans e1) hnd.1.1
  | trans h1 _ ih1 ih2 =>
    rw [ih1 hnd, ih2 ((h1.map _).nodup_iff.mp hnd)]

/-- the printed properties depend on the property list only through look-ups -/
theorem showProps_congr (σ : Store) : ∀ (f : Nat) (ps qs : List (Name × Val)) (ks : List Name),
    (∀ k, ps.lookup k = qs.lookup k) → showProps σ f ps ks = showProps σ f qs ks := by
  intro f
  induction f with
  | zero => intro ps qs ks _; simp [showProps]
  | succ f ih =>
    intro ps qs ks h
    cases ks with
    | nil => simp [showProps]
    | cons k ks => rw [showProps, showProps, h k, ih ps qs ks h]

/-- **what an object shows, lists and yields on a read is the same for every order its properties
    could be stored in**: for two duplicate-free property lists that are permutations of each other,
    every read, the key listing, the value listing and the printed text coincide -/
theorem object_observations_independent_of_storage_order (σ : Store) (f : Nat) (ps qs : List (Name × Val))
    (hp : ps.Perm qs) (hnd : (ps.map (·.1)).Nodup) :
    (∀ k, ps.lookup k = qs.lookup k) ∧
    sortKeys (ps.map (·.1)) = sortKeys (qs.map (·.1)) ∧
    (sortKeys (ps.map (·.1))).map (fun k => (ps.lookup k).getD .nil) = (sortKeys (qs.map (·.1))).map (fun k => (qs.lookup k).getD .nil) ∧
    showProps σ f ps (sortKeys (ps.map (·.1))) = showProps σ f qs (sortKeys (qs.map (·.1))) := by
  have hl := lookup_perm hp hnd
  have hk := keys_stable _ _ (hp.map (·.1))
  refine ⟨hl, hk, ?_, ?_⟩
  · rw [hk]; exact List.map_congr_left (fun k _ => by rw [hl k])
  · rw [hk]; exact showProps_congr σ f ps qs _ hl

theorem fold_keeps_head {α : Type} (k : Name) (v : α) :
    ∀ (ps acc : List (Name × α)), k ∉ ps.map (·.1) →
      ∃ rest, ps.foldl (fun acc p => upsert p.1 p.2 acc) ((k, v) :: acc) = (k, v) :: rest
  | [], acc, _ => ⟨acc, rfl⟩
  | p :: ps, acc, h => by
    have hk : ¬ k = p.1 := by intro e; apply h; simp [e]
    have hrest : k ∉ ps.map (·.1) := by intro e; apply h; simp [e]
    simp only [List.foldl]
    have : upsert p.1 p.2 ((k, v) :: acc) = (k, v) :: upsert p.1 p.2 acc := by
      simp [upsert, hk]
    rw [this]
    exact fold_keeps_head k v ps _ hrest

/-- the initialisers of an object literal are evaluated in source order: the first key written
    stays first (and so on down the list), later duplicates only replace the initialiser -/
theorem literal_source_order {α : Type} (k : Name) (v : α) (ps : List (Name × α)) (h : k ∉ ps.map (·.1)) :
    ∃ rest, effectiveProps ((k, v) :: ps) = (k, v) :: rest := by
  unfold effectiveProps
  simp only [List.foldl, upsert]
  exact fold_keeps_head k v ps [] h

open Cli in
/-- **what the model answers is a function of the program and its input alone — not of the step budget the
    driver happens to give it**: whenever `run` with budget `f` ends in anything but "out of fuel", every larger
    budget produces exactly the same stdout, diagnostics, flags, remaining input and event count.
    (So the budget of the correspondence driver is not a parameter of any verdict: an answer is *the* answer, and
    "out of fuel" is the only outcome a larger budget can change.) -/
theorem run_independent_of_fuel (P : Platform) (f f' : Nat) (hf : f ≤ f') (src : List Char) (repl : Bool) (input : List Char)
    (h : (run P f src repl input).abnormal ≠ some .fuel) : run P f' src repl input = run P f src repl input := by
  unfold run at h ⊢
  cases ha : (frontEnd P.lm src).abnormal with
  | some a => simp only [ha]
  | none =>
    simp only [ha] at h ⊢
    cases hd : (!(frontEnd P.lm src).diags.isEmpty) with
    | true => simp only [if_true]
    | false =>
      simp only [hd, Bool.false_eq_true, if_false] at h ⊢
      cases hp : (frontEnd P.lm src).prog with
      | none => simp only
      | some prog =>
        simp only [hp] at h ⊢
        have hne : interpret P f prog repl input ≠ .abn .fuel := by
          intro he; rw [he] at h; exact h rfl
        rw [interpret_stable P f f' hf prog repl input hne]

end Borno.Props.C13
