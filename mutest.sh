#!/bin/bash
# usage: mutest.sh <seeded-id> <check-id...>   apply the seeded change to /repo, run the quick checks, undo
id=$1; shift
git -C /repo apply /verif/seeded/$id/patch.diff || exit 9
for c in "$@"; do
  out=$(cd /verif && timeout 3000 ./check $c quick 2>&1); rc=$?
  echo "== seeded $id -> check $c: exit $rc"; echo "$out" | grep -E "VIOLATION|KNOWN|Traceback|Error" | head -6
done
git -C /repo checkout -- .
git -C /repo status --short | head -3
# evidence written while the seeded change was applied describes the changed tree: restore the committed files
git -C /verif checkout -- evidence
