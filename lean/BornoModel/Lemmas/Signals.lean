import BornoModel.Eval
/-!
# Signals — where `break` / `continue` / `return` signals can and cannot come from

* evaluating an *expression* never yields a control signal (calls absorb `return`, built-ins yield none);
* a loop absorbs `break` and `continue`: what leaves a `যতক্ষণ` / `ফর` loop is no signal, or a `return`.
-/
namespace Borno
variable (P : Platform)

/-- an outcome carrying no control signal -/
def NoSig {α : Type} (r : Res (α × Signal)) : Prop := ∀ p σ', r = .ok p σ' → p.2 = .none

/-- an outcome carrying no signal or a `return` -/
def LoopSig (r : ER) : Prop := ∀ p σ', r = .ok p σ' → p.2 = .none ∨ ∃ l v, p.2 = .ret l v

theorem noSig_nilOk (σ : Store) : NoSig (nilOk σ) := by
  intro p σ' h; cases h; rfl

theorem noSig_ok (v : Val) (σ : Store) : NoSig (.ok (v, Signal.none) σ : ER) := by
  intro p σ' h; cases h; rfl

theorem noSig_guard {σ : Store} {k : ER} (h : NoSig k) : NoSig (guardErr σ k) := by
  unfold guardErr; split
  · exact noSig_nilOk σ
  · exact h

theorem noSig_seq {r : ER} {k : Val → Store → ER} (hr : NoSig r) (hk : ∀ v σ1, NoSig (k v σ1)) : NoSig (ER.seq r k) := by
  intro p σ' h
  unfold ER.seq Res.bind at h
  cases r with
  | abn x => cases h
  | ok q σ1 =>
    have hq := hr q σ1 rfl
    simp only [hq, ne_eq, not_true_eq_false, if_false] at h
    exact hk q.1 σ1 p σ' h

theorem noSig_abn {α : Type} (x : Abn) : NoSig (.abn x : Res (α × Signal)) := by
  intro p σ' h; cases h

structure SigP (f : Nat) : Prop where
  e : ∀ e env repl σ, NoSig (evalE P f e env repl σ)
  l : ∀ es env repl σ, NoSig (evalList P f es env repl σ)
  p : ∀ ps env repl σ, NoSig (evalProps P f ps env repl σ)

theorem noSig_callFn (f id : Nat) (args : List Val) (σ : Store) : NoSig (callFn P f id args σ) := by
  cases f with
  | zero => rw [callFn]; exact noSig_abn _
  | succ f =>
    rw [callFn]
    split
    · exact noSig_abn _
    · split
      · exact noSig_abn _
      · intro p σ' h
        simp only [Res.bind] at h
        split at h
        · cases h; rfl
        · cases h

theorem noSig_invoke (n : Expect.Native) (vs : List Val) (line : Nat) (σ : Store) : NoSig (invokeNative P n vs line σ) := by
  unfold invokeNative
  split
  · exact noSig_ok _ _
  · exact noSig_nilOk _

theorem sigP : ∀ f, SigP P f := by
  intro f
  induction f with
  | zero =>
    refine ⟨?_, ?_, ?_⟩ <;> intros
    · rw [evalE]; exact noSig_abn _
    · rw [evalList]; exact noSig_abn _
    · rw [evalProps]; exact noSig_abn _
  | succ f ih =>
    refine ⟨?_, ?_, ?_⟩
    · intro e env repl σ
      cases e with
      | literal v l => rw [evalE]; exact noSig_guard (noSig_ok _ _)
      | grouping e l => rw [evalE]; exact noSig_guard (ih.e e env repl σ)
      | ident n l =>
        rw [evalE]; apply noSig_guard
        split
        · exact noSig_ok _ _
        · exact noSig_nilOk _
      | unary op l e =>
        rw [evalE]; apply noSig_guard
        apply noSig_seq (ih.e e env repl σ)
        intro v σ1
        apply noSig_guard
        split
        · exact noSig_ok _ _
        · exact noSig_nilOk _
      | binary l op ln r =>
        rw [evalE]; apply noSig_guard
        apply noSig_seq (ih.e l env repl σ)
        intro a σ1
        apply noSig_guard
        apply noSig_seq (ih.e r env repl σ1)
        intro b σ2
        apply noSig_guard
        split
        · exact noSig_ok _ _
        · exact noSig_nilOk _
      | logical l op r =>
        rw [evalE]; apply noSig_guard
        apply noSig_seq (ih.e l env repl σ)
        intro a σ1
        split
        · split
          · exact noSig_ok _ _
          · exact ih.e r env repl σ1
        · split
          · exact noSig_ok _ _
          · exact ih.e r env repl σ1
      | assign n nl v l =>
        rw [evalE]; apply noSig_guard
        apply noSig_seq (ih.e v env repl σ)
        intro x σ1
        apply noSig_guard
        split
        · exact noSig_ok _ _
        · exact noSig_ok _ _
      | arrayLit es =>
        rw [evalE]; apply noSig_guard
        intro p σ' h
        simp only [Res.bind] at h
        split at h
        · rename_i q σ1 hq
          have := ih.l es env repl σ q σ1 hq
          simp only [this, ne_eq, not_true_eq_false, if_false] at h
          cases h; rfl
        · cases h
      | objectLit ps tc =>
        rw [evalE]; apply noSig_guard
        intro p σ' h
        simp only [Res.bind] at h
        split at h
        · rename_i q σ1 hq
          have := ih.p _ env repl σ q σ1 hq
          simp only [this, ne_eq, not_true_eq_false, if_false] at h
          cases h; rfl
        · cases h
      | arrayAccess a i l =>
        rw [evalE]; apply noSig_guard
        apply noSig_seq (ih.e a env repl σ)
        intro av σ1
        apply noSig_seq (ih.e i env repl σ1)
        intro iv σ2
        split
        · exact noSig_nilOk _
        · split
          · exact noSig_ok _ _
          · exact noSig_abn _
      | arrayAssign a i v l =>
        rw [evalE]; apply noSig_guard
        apply noSig_seq (ih.e a env repl σ)
        intro av σ1
        apply noSig_seq (ih.e i env repl σ1)
        intro iv σ2
        apply noSig_seq (ih.e v env repl σ2)
        intro x σ3
        split
        · exact noSig_nilOk _
        · exact noSig_ok _ _
      | propAccess o q l =>
        rw [evalE]; apply noSig_guard
        apply noSig_seq (ih.e o env repl σ)
        intro ov σ1
        split
        · split
          · exact noSig_ok _ _
          · exact noSig_nilOk _
        · exact noSig_nilOk _
      | propAssign o q v l =>
        rw [evalE]; apply noSig_guard
        apply noSig_seq (ih.e o env repl σ)
        intro ov σ1
        split
        · apply noSig_seq (ih.e v env repl σ1)
          intro x σ2
          exact noSig_ok _ _
        · exact noSig_nilOk _
      | call c l args =>
        rw [evalE]; apply noSig_guard
        apply noSig_seq (ih.e c env repl σ)
        intro cv σ1
        split
        · exact noSig_nilOk _
        · split
          · exact noSig_nilOk _
          · intro p σ' h
            simp only [Res.bind] at h
            split at h
            · rename_i q σ2 hq
              have := ih.l args env repl σ1 q σ2 hq
              simp only [this, ne_eq, not_true_eq_false, if_false] at h
              revert h
              apply noSig_guard
              split
              · exact noSig_callFn P f _ _ _
              · exact noSig_invoke P _ _ _ _
              · exact noSig_abn _
            · cases h
    · intro es env repl σ
      cases es with
      | nil => rw [evalList]; intro p σ' h; cases h; rfl
      | cons e es =>
        rw [evalList]
        intro p σ' h
        simp only [Res.bind] at h
        split at h
        · rename_i q σ1 hq
          have := ih.e e env repl σ q σ1 hq
          simp only [this, ne_eq, not_true_eq_false, if_false] at h
          split at h
          · rename_i q2 σ2 hq2
            have h2 := ih.l es env repl σ1 q2 σ2 hq2
            cases h; exact h2
          · cases h
        · cases h
    · intro ps env repl σ
      cases ps with
      | nil => rw [evalProps]; intro p σ' h; cases h; rfl
      | cons ke ps =>
        rw [evalProps]
        intro p σ' h
        simp only [Res.bind] at h
        split at h
        · rename_i q σ1 hq
          have := ih.e ke.2 env repl σ q σ1 hq
          simp only [this, ne_eq, not_true_eq_false, if_false] at h
          split at h
          · rename_i q2 σ2 hq2
            have h2 := ih.p ps env repl σ1 q2 σ2 hq2
            cases h; exact h2
          · cases h
        · cases h

/-- evaluating an expression never yields a `break`, `continue` or `return` signal -/
theorem evalE_noSig (f : Nat) (e : Expr) (env : Nat) (repl : Bool) (σ : Store) : NoSig (evalE P f e env repl σ) :=
  (sigP P f).e e env repl σ

theorem loopSig_nilOk (σ : Store) : LoopSig (nilOk σ) := by
  intro p σ' h; cases h; exact Or.inl rfl

theorem loopSig_seq {r : ER} {k : Val → Store → ER} (hr : NoSig r) (hk : ∀ v σ1, LoopSig (k v σ1)) : LoopSig (ER.seq r k) := by
  intro p σ' h
  unfold ER.seq Res.bind at h
  cases r with
  | abn x => cases h
  | ok q σ1 =>
    have hq := hr q σ1 rfl
    simp only [hq, ne_eq, not_true_eq_false, if_false] at h
    exact hk q.1 σ1 p σ' h

/-- what leaves a `যতক্ষণ` loop is no signal or a `return`: `break` and `continue` are absorbed -/
theorem whileLoop_sig : ∀ (f : Nat) (c : Expr) (b : Stmt) (env : Nat) (repl : Bool) (σ : Store),
    LoopSig (whileLoop P f c b env repl σ) := by
  intro f
  induction f with
  | zero => intro c b env repl σ; rw [whileLoop]; intro p σ' h; cases h
  | succ f ih =>
    intro c b env repl σ
    rw [whileLoop]
    apply loopSig_seq (evalE_noSig P f c env repl σ)
    intro cv σ1
    split
    · exact loopSig_nilOk _
    · intro p σ' h
      simp only [Res.bind] at h
      split at h
      · rename_i q σ2 hq
        split at h
        · cases h; exact Or.inl rfl
        · cases h; exact Or.inr ⟨_, _, rfl⟩
        · exact ih c b env repl σ2 p σ' h
      · cases h

theorem forLoop_sig : ∀ (f : Nat) (c : Expr) (inc : Option Expr) (b : Stmt) (env : Nat) (repl : Bool) (σ : Store),
    LoopSig (forLoop P f c inc b env repl σ) := by
  intro f
  induction f with
  | zero => intro c inc b env repl σ; rw [forLoop]; intro p σ' h; cases h
  | succ f ih =>
    intro c inc b env repl σ
    rw [forLoop]
    apply loopSig_seq (evalE_noSig P f c env repl σ)
    intro cv σ1
    split
    · exact loopSig_nilOk _
    · intro p σ' h
      simp only [Res.bind] at h
      split at h
      · rename_i q σ2 hq
        split at h
        · cases h; exact Or.inl rfl
        · cases h; exact Or.inr ⟨_, _, rfl⟩
        · cases inc with
          | none => exact ih c none b env repl σ2 p σ' h
          | some ie =>
            simp only at h
            exact loopSig_seq (evalE_noSig P f ie env repl σ2) (fun _ σ3 => ih c (some ie) b env repl σ3) p σ' h
      · cases h

end Borno
