import BornoModel.Expect
import BornoModel.ExpectInv
import BornoModel.Gen.Facts
/-!
# Tie — the regenerated facts equal the tables the model and the theorems are stated over

Each theorem is closed by evaluation (`decide`).  A change to the Go sources that alters a
table makes the corresponding theorem fail; the check names it and searches for an input on which
the property that depends on it now fails.
-/
set_option maxRecDepth 1000000
namespace Borno.Tie
open Borno

theorem tie_tokenTypes : Gen.tokenTypes = TT.all.map TT.name := by decide
theorem tie_keywords : Gen.keywords = Expect.keywordsCp.map (fun p => (p.1, p.2.name)) := by decide
theorem tie_singleOps : Gen.singleOps = Expect.singleOps.map (fun p => (p.1.toNat, p.2.name)) := by decide
theorem tie_twoOps : Gen.twoOps =
    Expect.twoOps.map (fun p => (p.1.toNat, p.2.1.map (fun q => (q.1.toNat, q.2.name)), p.2.2.name)) := by decide
theorem tie_blanks : Gen.blanks = Expect.blanks.map Char.toNat := by decide
theorem tie_otherCases : Gen.otherCases = Expect.otherCases := by decide
theorem tie_digitRanges : Gen.digitRanges = Expect.digitRanges := by decide
theorem tie_digitMap : Gen.digitMap = Expect.digitMap := by decide
theorem tie_isAlpha : Gen.isAlphaBody = Expect.isAlphaBody ∧ Gen.isAlphaNumericBody = Expect.isAlphaNumericBody := by decide
theorem tie_reserved : Gen.reserved = Expect.reservedCp := by decide
theorem tie_ladder : Gen.ladder = Expect.ladderFacts ∧ Gen.assignmentOperand = "logicalOR" ∧ Gen.ladderEnd = "unary" := by decide
theorem tie_docLadder :
    ((Gen.docLadder.filter (fun e => e.1 ≠ "parameters" && e.1 ≠ "arguments")).map (·.2.2)).length = Expect.docOps.length ∧
    (((Gen.docLadder.filter (fun e => e.1 ≠ "parameters" && e.1 ≠ "arguments")).map (·.2.2)).zip Expect.docOps).all
      (fun p => p.1.isPerm p.2) = true := by decide
theorem tie_readmeLadder :
    (((Gen.readmeLadder.filter (fun e => e.1 ≠ "parameters" && e.1 ≠ "arguments")).map (·.2.2)).zip
      (Expect.ladder.filter (fun l => Expect.readmeLevels.contains l.name))).all
      (fun p => p.1.isPerm (p.2.ops.map TT.name)) = true ∧
    (Gen.readmeLadder.filter (fun e => e.1 ≠ "parameters" && e.1 ≠ "arguments")).length = Expect.readmeLevels.length := by decide
theorem tie_maxParams : Gen.maxParamsTest = Expect.maxParamsTest := by decide
theorem tie_natives : Gen.natives = Expect.nativesCp.map (fun e => (e.1, e.2.1)) := by decide
theorem tie_arities :
    Expect.nativesCp.all (fun e => Gen.arities.lookup e.2.1 == some (Expect.arityText e.2.2.2)) = true ∧
    Gen.arities.lookup "Function" = some "len(f.Declaration.Params)" ∧
    Gen.arities.length = Expect.nativesCp.length + 1 := by decide
theorem tie_exits : Gen.exits = Expect.exits := by decide
theorem tie_panicSites : Gen.panicSites = Expect.panicSites := by decide
theorem tie_rangeMap : Gen.rangeMapSites = Expect.rangeMapSites := by decide
theorem tie_nondet : Gen.nondetSites = Expect.nondetSites := by decide

end Borno.Tie
