import BornoModel.Eval
/-! # C15 — দেখাও prints each value faithfully, newline-terminated, consistent with + -/
namespace Borno.Props.C15
open Borno

/-- each executed print appends the NFC-normalised text of the value and exactly one newline -/
theorem print_appends_one_line (P : Platform) (f : Nat) (e : Expr) (env : Nat) (repl : Bool) (σ σ1 : Store) (v : Val) (t : List Char)
    (h0 : σ.hadError = false) (he : evalE P f e env repl σ = .ok (v, .none) σ1) (h1 : σ1.hadError = false)
    (ht : stringify σ1 (showFuel σ1) v = some t) :
    ∃ σ2, evalS P (f + 1) (.print e) env repl σ = .ok (.nil, .none) σ2 ∧
      σ2.out = σ1.out ++ P.nfc t ++ ['\n'] ∧ σ2.diags = σ1.diags ∧ σ2.input = σ1.input := by
  refine ⟨σ1.print (P.nfc t ++ ['\n']), ?_, by simp [Store.print, List.append_assoc], rfl, rfl⟩
  rw [evalS]; simp only [guardErr, ER.seq, Res.bind, h0, he]; simp [guardErr, ER.seq, Res.bind, h1, ht, nilOk]

/-- the text of the constants, of a string (its characters, wherever it sits) and of a number -/
theorem stringify_consts (σ : Store) (f : Nat) (s : List Char) (x : F64) (b : Bool) :
    stringify σ (f + 1) .nil = some "nil".toList ∧
    stringify σ (f + 1) (.bool b) = some (if b then "true".toList else "false".toList) ∧
    stringify σ (f + 1) (.str s) = some s ∧
    showNested σ (f + 1) (.str s) = some s ∧
    stringify σ (f + 1) (.num x) = some x.fmtV ∧
    showNested σ (f + 1) (.num x) = some x.fmtV := by
  refine ⟨rfl, ?_, ?_, ?_, ?_, ?_⟩ <;> simp [stringify, showNested]

/-- what `+` splices into a string for a number or a string is character for character what `দেখাও` prints for it -/
theorem concat_equals_print (σ : Store) (f : Nat) (v : Val) (hv : (∃ x, v = .num x) ∨ (∃ s, v = .str s)) :
    ∃ t, stringify σ (f + 1) v = some t ∧ opAdd (.str []) v = .ok (.str t) ∧
      (∀ s, opAdd (.str s) v = .ok (.str (s ++ t))) ∧
      (∀ x, v = .num x → ∀ s, opAdd v (.str s) = .ok (.str (t ++ s))) := by
  rcases hv with ⟨x, rfl⟩ | ⟨s, rfl⟩
  · exact ⟨x.fmtV, by simp [stringify, showNested], rfl, fun _ => rfl, fun y hy s => by cases hy; rfl⟩
  · exact ⟨s, by simp [stringify, showNested], by simp [opAdd, stringifyOperand], fun _ => rfl, fun y hy => by cases hy⟩

/-- an array shows all its elements in order, an object all its properties (sorted by name) -/
theorem array_shows_all_in_order (σ : Store) (f : Nat) (r : Nat) (parts : List (List Char))
    (h : showList σ f (σ.arrs[r]?.getD []) = some parts) :
    showNested σ (f + 1) (.arr r) = some ('[' :: joinSp parts ++ [']']) := by
  simp [showNested, h]

theorem showList_length (σ : Store) : ∀ (f : Nat) (vs : List Val) (parts : List (List Char)),
    showList σ f vs = some parts → parts.length = vs.length := by
  intro f
  induction f with
  | zero => intro vs parts h; simp [showList] at h
  | succ f ih =>
    intro vs parts h
    cases vs with
    | nil => simp [showList] at h; simp [← h]
    | cons v vs =>
      rw [showList] at h
      cases hv : showNested σ f v with
      | none => simp [hv] at h
      | some s =>
        cases hvs : showList σ f vs with
        | none => simp [hv, hvs] at h
        | some ss =>
          simp [hv, hvs] at h
          subst h
          simp [ih vs ss hvs]

theorem showProps_length (σ : Store) : ∀ (f : Nat) (ps : List (Name × Val)) (ks : List Name) (parts : List (List Char)),
    showProps σ f ps ks = some parts → parts.length = ks.length := by
  intro f
  induction f with
  | zero => intro ps ks parts h; simp [showProps] at h
  | succ f ih =>
    intro ps ks parts h
    cases ks with
    | nil => simp [showProps] at h; simp [← h]
    | cons k ks =>
      rw [showProps] at h
      cases hv : showNested σ f ((ps.lookup k).getD .nil) with
      | none => simp [hv] at h
      | some s =>
        cases hvs : showProps σ f ps ks with
        | none => simp [hv, hvs] at h
        | some ss =>
          simp [hv, hvs] at h
          subst h
          simp [ih ps ks ss hvs]

/-- an object shows every property, as `name:value`, in the sorted order of the names -/
theorem object_shows_all_sorted (σ : Store) (f : Nat) (r : Nat) (parts : List (List Char))
    (h : showProps σ f (σ.objs[r]?.getD []) (sortKeys ((σ.objs[r]?.getD []).map (·.1))) = some parts) :
    showNested σ (f + 1) (.obj r) = some ("map[".toList ++ joinSp parts ++ [']']) ∧
    parts.length = ((σ.objs[r]?.getD []).map (·.1)).length := by
  refine ⟨by simp [showNested, h], ?_⟩
  rw [showProps_length σ f _ _ parts h]
  exact (List.mergeSort_perm _ _).length_eq

/-- the special doubles and the two zeros print as Go prints them -/
theorem special_numbers_text :
    F64.nan.fmtV = "NaN".toList ∧ (F64.inf false).fmtV = "+Inf".toList ∧ (F64.inf true).fmtV = "-Inf".toList ∧
    (F64.zero false).fmtV = "0".toList ∧ (F64.zero true).fmtV = "-0".toList := by
  refine ⟨rfl, rfl, rfl, ?_, ?_⟩ <;> simp [F64.fmtV, F64.zero]

/-- a value that is not a cyclic structure can always be printed once enough fuel is given:
    constants, numbers, strings and callables need one unit -/
theorem atoms_printable (σ : Store) (f : Nat) (v : Val) (h : ∀ r, v ≠ .arr r ∧ v ≠ .obj r) :
    ∃ t, stringify σ (f + 1) v = some t := by
  cases v <;> simp [stringify, showNested] at h ⊢

end Borno.Props.C15
