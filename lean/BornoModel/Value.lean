import BornoModel.Ast
/-!
# Runtime values, the store, and the operators (model of the value-level helpers of
`interpreter/interpreter.go` and of `environment/environment.go`)

Go pointers become indices into append-only tables of the store: environments, arrays (Go
slices are never resliced after the `এড`/`রিমুভ` repairs, so a slice is its backing array),
objects (Go maps), function closures.
-/
namespace Borno
open Expect (Native)

inductive Val
  | nil
  | bool (b : Bool)
  | num (x : F64)
  | str (s : List Char)
  | arr (r : Nat)
  | obj (r : Nat)
  | fn (id : Nat)
  | native (n : Native)
  deriving DecidableEq, Repr, Inhabited

structure Frame where
  vars : List (Name × Val)
  parent : Option Nat
  deriving Repr, Inhabited

structure Closure where
  name : Name
  params : List Name
  body : List Stmt
  env : Nat
  deriving Repr, Inhabited

/-- what the platform supplies and the model does not define -/
structure Platform where
  /-- `unicode.IsLetter(r) || unicode.IsMark(r)` -/
  lm : Char → Bool
  /-- `norm.NFC.String` -/
  nfc : List Char → List Char
  pow : F64 → F64 → F64
  sin : F64 → F64
  cos : F64 → F64
  tan : F64 → F64
  /-- `float64(time.Now().UnixMilli()) / 1000.0` -/
  now : F64

/-- observable events, in the order they happen (ghost: the Go program has no such log; it is the
    interleaving of what it writes to stdout / stderr, reads from stdin, and which built-ins it enters) -/
inductive Ev
  | out (s : List Char)
  | diag (d : Diag)
  | read
  | native
  deriving DecidableEq, Repr, Inhabited

structure Store where
  envs : List Frame := []
  arrs : List (List Val) := []
  objs : List (List (Name × Val)) := []
  funs : List Closure := []
  /-- bytes written to stdout so far -/
  out : List Char := []
  /-- runtime diagnostics written to stderr so far -/
  diags : List Diag := []
  /-- `utils.HadRuntimeError` -/
  hadError : Bool := false
  /-- unread rest of stdin -/
  input : List Char := []
  /-- number of built-in invocations (`Callable.Call` on a native) -/
  nativeCalls : Nat := 0
  /-- ghost: every observable event so far, in order -/
  trace : List Ev := []
  deriving Repr, Inhabited

namespace Store

/-- `utils.RuntimeError` -/
def rte (σ : Store) (msg : List Char) (line : Nat) : Store :=
  { σ with diags := σ.diags ++ [.runtime msg line], hadError := true, trace := σ.trace ++ [.diag (.runtime msg line)] }

def print (σ : Store) (s : List Char) : Store := { σ with out := σ.out ++ s, trace := σ.trace ++ [.out s] }

/-- a built-in is entered -/
def enterNative (σ : Store) : Store := { σ with nativeCalls := σ.nativeCalls + 1, trace := σ.trace ++ [.native] }

/-- a line of stdin is consumed -/
def consume (σ : Store) (rest : List Char) : Store := { σ with input := rest, trace := σ.trace ++ [.read] }

def newEnv (σ : Store) (parent : Option Nat) : Store × Nat :=
  ({ σ with envs := σ.envs ++ [⟨[], parent⟩] }, σ.envs.length)

def newArr (σ : Store) (xs : List Val) : Store × Val :=
  ({ σ with arrs := σ.arrs ++ [xs] }, .arr σ.arrs.length)

def newObj (σ : Store) (ps : List (Name × Val)) : Store × Val :=
  ({ σ with objs := σ.objs ++ [ps] }, .obj σ.objs.length)

def newFun (σ : Store) (c : Closure) : Store × Val :=
  ({ σ with funs := σ.funs ++ [c] }, .fn σ.funs.length)

/-- `Environment.Define` -/
def define (σ : Store) (env : Nat) (n : Name) (v : Val) : Store :=
  match σ.envs[env]? with
  | some fr => { σ with envs := σ.envs.set env { fr with vars := upsert n v fr.vars } }
  | none => σ

/-- `Environment.GetInCurrentScope` -/
def getHere (σ : Store) (env : Nat) (n : Name) : Option Val :=
  match σ.envs[env]? with
  | some fr => fr.vars.lookup n
  | none => none

/-- `Environment.Get`: fuel bounds the chain walk (parents have smaller indices, so
    `env + 1` steps always suffice) -/
def getGo (σ : Store) (n : Name) : Nat → Nat → Option Val
  | 0, _ => none
  | f + 1, env =>
    match σ.envs[env]? with
    | none => none
    | some fr =>
      match fr.vars.lookup n with
      | some v => some v
      | none =>
        match fr.parent with
        | some p => getGo σ n f p
        | none => none

def get (σ : Store) (env : Nat) (n : Name) : Option Val := getGo σ n (σ.envs.length + 1) env

/-- the frame `Environment.Assign` would update -/
def findGo (σ : Store) (n : Name) : Nat → Nat → Option Nat
  | 0, _ => none
  | f + 1, env =>
    match σ.envs[env]? with
    | none => none
    | some fr =>
      if (fr.vars.lookup n).isSome then some env
      else
        match fr.parent with
        | some p => findGo σ n f p
        | none => none

def find (σ : Store) (env : Nat) (n : Name) : Option Nat := findGo σ n (σ.envs.length + 1) env

end Store

/-! ## coercions, truthiness, equality -/

/-- `toNumber` -/
def toNumber : Val → Option F64
  | .num x => some x
  | .str s =>
    match F64.parseFloat (Lexer.translit s) with
    | .ok x => some x
    | _ => none
  | _ => none

/-- `toInt64` -/
def toInt64 : Val → Option Int
  | .num x => x.toInt64?
  | .str s =>
    match F64.parseFloat (Lexer.translit s) with
    | .ok x => x.toInt64?
    | _ => none
  | _ => none

/-- `isTruthy` -/
def truthy : Val → Bool
  | .nil => false
  | .bool b => b
  | .num x => !(x.isZero)
  | .str s => !s.isEmpty
  | _ => true

/-- `isEqual` (after the repair: arrays and objects by identity; all empty arrays are one) -/
def valEq (σ : Store) : Val → Val → Bool
  | .nil, .nil => true
  | .bool a, .bool b => a == b
  | .num a, .num b => F64.beq a b
  | .str a, .str b => a == b
  | .arr a, .arr b =>
    a == b || ((σ.arrs[a]?.getD []).isEmpty && (σ.arrs[b]?.getD []).isEmpty)
  | .obj a, .obj b => a == b
  | .fn a, .fn b => a == b
  | .native a, .native b => a == b
  | _, _ => false

/-! ## two's-complement 64-bit integer operations -/

def wrap64 (i : Int) : Int :=
  let m := i % (2 ^ 64 : Int)
  if m ≥ (2 ^ 63 : Int) then m - (2 ^ 64 : Int) else m

def toU64 (i : Int) : Nat := (i % (2 ^ 64 : Int)).toNat

def bitAnd (a b : Int) : Int := wrap64 (Int.ofNat (toU64 a &&& toU64 b))
def bitOr (a b : Int) : Int := wrap64 (Int.ofNat (toU64 a ||| toU64 b))
def bitXor (a b : Int) : Int := wrap64 (Int.ofNat (toU64 a ^^^ toU64 b))
def bitNot (a : Int) : Int := -a - 1
/-- Go `a << n` on int64 for `n ≥ 0` -/
def shl (a : Int) (n : Int) : Int := if n ≥ 64 then 0 else wrap64 (a * (2 ^ n.toNat : Int))
/-- Go `a >> n` on int64 (arithmetic) for `n ≥ 0` -/
def shr (a : Int) (n : Int) : Int := if n ≥ 64 then (if a < 0 then -1 else 0) else a / (2 ^ n.toNat : Int)

/-! ## text of values (`stringify`, `fmt %v`) -/

def strLt : List Char → List Char → Bool
  | [], [] => false
  | [], _ :: _ => true
  | _ :: _, [] => false
  | a :: as, b :: bs => if a.toNat < b.toNat then true else if a.toNat > b.toNat then false else strLt as bs

def strLe (a b : List Char) : Bool := !strLt b a

/-- keys in the order `sort.Strings` / `fmt` use (byte order of UTF-8 = code-point order) -/
def sortKeys (ks : List Name) : List Name := ks.mergeSort strLe

def joinSp : List (List Char) → List Char
  | [] => []
  | [a] => a
  | a :: rest => a ++ ' ' :: joinSp rest

mutual
/-- `fmt.Sprintf("%v", v)` for a value nested in an array or object; `none` = out of fuel
    (a cyclic value: the Go code recurses forever) -/
def showNested (σ : Store) : Nat → Val → Option (List Char)
  | 0, _ => none
  | f + 1, v =>
    match v with
    | .nil => some "<nil>".toList
    | .bool b => some (if b then "true".toList else "false".toList)
    | .num x => some x.fmtV
    | .str s => some s
    | .arr r =>
      (match showList σ f (σ.arrs[r]?.getD []) with
       | some parts => some ('[' :: joinSp parts ++ [']'])
       | none => none)
    | .obj r =>
      let ps := σ.objs[r]?.getD []
      let ks := sortKeys (ps.map (·.1))
      (match showProps σ f ps ks with
       | some parts => some ("map[".toList ++ joinSp parts ++ [']'])
       | none => none)
    | .fn id => some ("<function ".toList ++ ((σ.funs[id]?.map (·.name)).getD []) ++ ['>'])
    | .native n => some (Expect.nativeShow n).toList
def showList (σ : Store) : Nat → List Val → Option (List (List Char))
  | 0, _ => none
  | _ + 1, [] => some []
  | f + 1, v :: vs =>
    match showNested σ f v with
    | none => none
    | some s =>
      match showList σ f vs with
      | none => none
      | some ss => some (s :: ss)
def showProps (σ : Store) : Nat → List (Name × Val) → List Name → Option (List (List Char))
  | 0, _, _ => none
  | _ + 1, _, [] => some []
  | f + 1, ps, k :: ks =>
    match showNested σ f ((ps.lookup k).getD .nil) with
    | none => none
    | some s =>
      match showProps σ f ps ks with
      | none => none
      | some ss => some ((k ++ ':' :: s) :: ss)
end

/-- `stringify` -/
def stringify (σ : Store) (fuel : Nat) (v : Val) : Option (List Char) :=
  match v with
  | .nil => some "nil".toList
  | _ => showNested σ fuel v

/-- `strings.TrimSpace` (Unicode White_Space) -/
def isSpace (c : Char) : Bool :=
  let n := c.toNat
  (0x09 ≤ n && n ≤ 0x0D) || n = 0x20 || n = 0x85 || n = 0xA0 || n = 0x1680 ||
  (0x2000 ≤ n && n ≤ 0x200A) || n = 0x2028 || n = 0x2029 || n = 0x202F || n = 0x205F || n = 0x3000

def trimSpace (s : List Char) : List Char :=
  ((s.dropWhile isSpace).reverse.dropWhile isSpace).reverse

end Borno
