import BornoModel.Lemmas.ParseFits
/-!
# ParseComplete — every ladder-fitting expression tree is what the parser returns for its own rendering

`toks e` is the rendering of `e` as tokens.  For every tree `e` that fits position 0 of the ladder,
and every following token that cannot continue an expression, `assignment` applied to
`toks e ++ t :: rest` returns `eraseE e` (the tree with its line fields forgotten) and leaves
`t :: rest` — for all sufficiently large fuel.  Hence the rendering is injective on fitting trees
(up to line fields): the tree the parser returns is the *unique* tree the ladder prescribes.
-/
namespace Borno.Parser
open Borno Grammar

/-- `p f = v` for all sufficiently large fuel -/
def Ev {β : Type} (p : Nat → β) (v : β) : Prop := ∃ f0, ∀ f, f0 ≤ f → p f = v

theorem Ev.const {β : Type} (v : β) : Ev (fun _ => v) v := ⟨0, fun _ _ => rfl⟩

theorem ev_bind {α β : Type} {p : Nat → PR α} {q : Nat → α → List Token → PR β} {a : α} {r1 : List Token} {v : PR β}
    (h1 : Ev p (.ok a r1)) (h2 : Ev (fun f => q f a r1) v) : Ev (fun f => (p f).bind (q f)) v := by
  obtain ⟨f1, h1⟩ := h1; obtain ⟨f2, h2⟩ := h2
  exact ⟨max f1 f2, fun f hf => by simp only [h1 f (by omega), PR.bind]; exact h2 f (by omega)⟩

/-- a definition by `| 0 => … | f + 1 => body f` is eventually what its body eventually is -/
theorem ev_succ {β : Type} {p body : Nat → β} {v : β} (hp : ∀ f, p (f + 1) = body f) (h : Ev body v) : Ev p v := by
  obtain ⟨f0, h⟩ := h
  refine ⟨f0 + 1, fun f hf => ?_⟩
  obtain ⟨g, rfl⟩ : ∃ g, f = g + 1 := ⟨f - 1, by omega⟩
  rw [hp]; exact h g (by omega)

/-! ### one step of each parsing function, in `Ev` form -/

theorem ev_binLevel_lt {k : Nat} (hk : k < nLevels) {ts : List Token} {l : Expr} {r1 : List Token} {v : PR Expr}
    (h1 : Ev (fun f => binLevel f (k + 1) ts) (.ok l r1)) (h2 : Ev (fun f => binLoop f k l r1) v) :
    Ev (fun f => binLevel f k ts) v := by
  refine ev_succ (body := fun f => (binLevel f (k + 1) ts).bind fun l r => binLoop f k l r) (fun f => ?_) (ev_bind h1 h2)
  rw [binLevel]; simp [hk]

theorem ev_binLevel_top {ts : List Token} {v : PR Expr} (h : Ev (fun f => unary f ts) v) :
    Ev (fun f => binLevel f nLevels ts) v := by
  refine ev_succ (body := fun f => unary f ts) (fun f => ?_) h
  rw [binLevel]; simp

theorem ev_binLoop_stop (k : Nat) (acc : Expr) (t : Token) (rest : List Token) (h : (levelOps k).contains t.tt = false) :
    Ev (fun f => binLoop f k acc (t :: rest)) (.ok acc (t :: rest)) := by
  refine ev_succ (body := fun _ => .ok acc (t :: rest)) (fun f => ?_) (Ev.const _)
  rw [binLoop]; simp only [peekTok, h]; simp

theorem ev_binLoop_step {k : Nat} {acc : Expr} {t : Token} {rest : List Token} {right : Expr} {r2 : List Token} {v : PR Expr}
    (h : (levelOps k).contains t.tt = true)
    (h1 : Ev (fun f => binLevel f (k + 1) rest) (.ok right r2))
    (h2 : Ev (fun f => binLoop f k (mkBin k acc t right) r2) v) :
    Ev (fun f => binLoop f k acc (t :: rest)) v := by
  refine ev_succ (body := fun f => (binLevel f (k + 1) rest).bind fun right r2 => binLoop f k (mkBin k acc t right) r2)
    (fun f => ?_) (ev_bind h1 h2)
  rw [binLoop]; simp only [peekTok, h, if_true]

theorem ev_unary_op {t : Token} {rest : List Token} {e : Expr} {r : List Token} (h : Expect.unaryOps.contains t.tt = true)
    (h1 : Ev (fun f => unary f rest) (.ok e r)) :
    Ev (fun f => unary f (t :: rest)) (.ok (Expr.unary t.tt t.line e) r) := by
  refine ev_succ (body := fun f => (unary f rest).bind fun e r2 => .ok (Expr.unary t.tt t.line e) r2) (fun f => ?_)
    (ev_bind (q := fun _ e r2 => .ok (Expr.unary t.tt t.line e) r2) h1 (Ev.const _))
  rw [unary]; simp only [peekTok, h, if_true]

theorem ev_unary_prim {t : Token} {rest : List Token} {v : PR Expr} (h : Expect.unaryOps.contains t.tt = false)
    (h1 : Ev (fun f => (primary f (t :: rest)).bind fun e r2 => suffix f e r2) v) :
    Ev (fun f => unary f (t :: rest)) v := by
  refine ev_succ (body := fun f => (primary f (t :: rest)).bind fun e r2 => suffix f e r2) (fun f => ?_) h1
  rw [unary]; simp only [peekTok, h]; simp

def sfx (tt : TT) : Bool := tt == .LEFT_PAREN || tt == .LEFT_BRACKET || tt == .DOT

theorem ev_suffix_stop (e : Expr) (t : Token) (rest : List Token) (h : sfx t.tt = false) :
    Ev (fun f => suffix f e (t :: rest)) (.ok e (t :: rest)) := by
  refine ev_succ (body := fun _ => .ok e (t :: rest)) (fun f => ?_) (Ev.const _)
  simp only [sfx, Bool.or_eq_false_iff, beq_eq_false_iff_ne] at h
  rw [suffix]; simp [peekTok, h.1.1, h.1.2, h.2]

theorem ev_suffix_call0 {e : Expr} {t t2 : Token} {rest : List Token} {v : PR Expr}
    (ht : t.tt = .LEFT_PAREN) (ht2 : t2.tt = .RIGHT_PAREN)
    (h : Ev (fun f => suffix f (.call e t2.line []) rest) v) :
    Ev (fun f => suffix f e (t :: t2 :: rest)) v := by
  refine ev_succ (body := fun f => suffix f (.call e t2.line []) rest) (fun f => ?_) h
  rw [suffix]; simp [peekTok, ht, ht2]

theorem ev_suffix_call {e : Expr} {t t2 t3 : Token} {r2 r4 : List Token} {args : List Expr} {v : PR Expr}
    (ht : t.tt = .LEFT_PAREN) (ht2 : t2.tt ≠ .RIGHT_PAREN) (ht3 : t3.tt = .RIGHT_PAREN)
    (h1 : Ev (fun f => exprList f (t2 :: r2)) (.ok args (t3 :: r4)))
    (h2 : Ev (fun f => suffix f (.call e t3.line args) r4) v) :
    Ev (fun f => suffix f e (t :: t2 :: r2)) v := by
  refine ev_succ (body := fun f => (exprList f (t2 :: r2)).bind fun args r3 =>
      (expectTok .RIGHT_PAREN "Expect ')' after arguments." r3).bind fun t3 r4 => suffix f (.call e t3.line args) r4)
    (fun f => ?_) (ev_bind h1 ?_)
  · rw [suffix]; simp [peekTok, ht, ht2]
  · simp only [expectTok, peekTok, ht3, if_true, PR.bind]; exact h2

theorem ev_suffix_index {e : Expr} {t t2 : Token} {r r3 : List Token} {i : Expr} {v : PR Expr}
    (ht : t.tt = .LEFT_BRACKET) (ht2 : t2.tt = .RIGHT_BRACKET)
    (h1 : Ev (fun f => assignment f r) (.ok i (t2 :: r3)))
    (h2 : Ev (fun f => suffix f (.arrayAccess e i t2.line) r3) v) :
    Ev (fun f => suffix f e (t :: r)) v := by
  refine ev_succ (body := fun f => (assignment f r).bind fun i r2 =>
      (expectTok .RIGHT_BRACKET "Expect ']' after array index." r2).bind fun t2 r3 => suffix f (.arrayAccess e i t2.line) r3)
    (fun f => ?_) (ev_bind h1 ?_)
  · rw [suffix]; simp [peekTok, ht]
  · simp only [expectTok, peekTok, ht2, if_true, PR.bind]; exact h2

theorem ev_suffix_prop {e : Expr} {t t2 : Token} {r2 : List Token} {v : PR Expr}
    (ht : t.tt = .DOT) (ht2 : t2.tt = .IDENTIFIER)
    (h : Ev (fun f => suffix f (.propAccess e t2.lexeme t2.line) r2) v) :
    Ev (fun f => suffix f e (t :: t2 :: r2)) v := by
  refine ev_succ (body := fun f => suffix f (.propAccess e t2.lexeme t2.line) r2) (fun f => ?_) h
  rw [suffix]; simp [peekTok, ht, expectTok, ht2, PR.bind]

theorem ev_exprList_one {ts : List Token} {a : Expr} {t : Token} {r : List Token} (ht : t.tt ≠ .COMMA)
    (h : Ev (fun f => assignment f ts) (.ok a (t :: r))) :
    Ev (fun f => exprList f ts) (.ok [a] (t :: r)) := by
  refine ev_succ (body := fun f => (assignment f ts).bind fun a r => peekTok r fun t r2 =>
      if t.tt = .COMMA then (exprList f r2).bind fun rest r3 => .ok (a :: rest) r3 else .ok [a] r)
    (fun f => by rw [exprList]) (ev_bind h ?_)
  simp only [peekTok, ht, if_false]; exact Ev.const _

theorem ev_exprList_more {ts : List Token} {a : Expr} {t : Token} {r r3 : List Token} {rest : List Expr} (ht : t.tt = .COMMA)
    (h : Ev (fun f => assignment f ts) (.ok a (t :: r)))
    (h2 : Ev (fun f => exprList f r) (.ok rest r3)) :
    Ev (fun f => exprList f ts) (.ok (a :: rest) r3) := by
  refine ev_succ (body := fun f => (assignment f ts).bind fun a r => peekTok r fun t r2 =>
      if t.tt = .COMMA then (exprList f r2).bind fun rest r3 => .ok (a :: rest) r3 else .ok [a] r)
    (fun f => by rw [exprList]) (ev_bind h ?_)
  simp only [peekTok, ht, if_true]
  exact ev_bind (q := fun _ rest r3 => .ok (a :: rest) r3) h2 (Ev.const _)

theorem ev_obj_end (t : Token) (r : List Token) (ht : t.tt = .RIGHT_BRACE) :
    Ev (fun f => objProps f (t :: r)) (.ok ([], false) (t :: r)) := by
  refine ev_succ (body := fun _ => .ok ([], false) (t :: r)) (fun f => ?_) (Ev.const _)
  rw [objProps]; simp [peekTok, ht]

theorem ev_obj_last {t tc t2 : Token} {r1 r3 : List Token} {v : Expr}
    (ht : t.tt = .IDENTIFIER) (htc : tc.tt = .COLON) (ht2 : t2.tt ≠ .COMMA)
    (h : Ev (fun f => assignment f r1) (.ok v (t2 :: r3))) :
    Ev (fun f => objProps f (t :: tc :: r1)) (.ok ([(t.lexeme, v)], false) (t2 :: r3)) := by
  refine ev_succ (body := fun f => (assignment f r1).bind fun v r2 => peekTok r2 fun t2 r3 =>
      if t2.tt = .COMMA then (objProps f r3).bind fun ps r4 => .ok ((t.lexeme, v) :: ps.1, if ps.1.isEmpty then true else ps.2) r4
      else .ok ([(t.lexeme, v)], false) r2)
    (fun f => ?_) (ev_bind h ?_)
  · rw [objProps]; simp [peekTok, ht, htc, expectTok, PR.bind]
  · simp only [peekTok, ht2, if_false]; exact Ev.const _

theorem ev_obj_more {t tc t2 : Token} {r1 r3 r4 : List Token} {v : Expr} {ps : List (Name × Expr) × Bool}
    (ht : t.tt = .IDENTIFIER) (htc : tc.tt = .COLON) (ht2 : t2.tt = .COMMA)
    (h : Ev (fun f => assignment f r1) (.ok v (t2 :: r3)))
    (h2 : Ev (fun f => objProps f r3) (.ok ps r4)) :
    Ev (fun f => objProps f (t :: tc :: r1)) (.ok ((t.lexeme, v) :: ps.1, if ps.1.isEmpty then true else ps.2) r4) := by
  refine ev_succ (body := fun f => (assignment f r1).bind fun v r2 => peekTok r2 fun t2 r3 =>
      if t2.tt = .COMMA then (objProps f r3).bind fun ps r4 => .ok ((t.lexeme, v) :: ps.1, if ps.1.isEmpty then true else ps.2) r4
      else .ok ([(t.lexeme, v)], false) r2)
    (fun f => ?_) (ev_bind h ?_)
  · rw [objProps]; simp [peekTok, ht, htc, expectTok, PR.bind]
  · simp only [peekTok, ht2, if_true]
    exact ev_bind (q := fun _ ps r4 => .ok ((t.lexeme, v) :: ps.1, if ps.1.isEmpty then true else ps.2) r4) h2 (Ev.const _)

theorem ev_primary_of {t : Token} {r : List Token} {v : PR Expr} (h : ∀ f, primary (f + 1) (t :: r) = v) :
    Ev (fun f => primary f (t :: r)) v :=
  ev_succ (body := fun _ => v) h (Ev.const _)

theorem ev_primary_group {t t2 : Token} {r r3 : List Token} {e : Expr}
    (ht : t.tt = .LEFT_PAREN) (ht2 : t2.tt = .RIGHT_PAREN)
    (h : Ev (fun f => assignment f r) (.ok e (t2 :: r3))) :
    Ev (fun f => primary f (t :: r)) (.ok (.grouping e t2.line) r3) := by
  refine ev_succ (body := fun f => (assignment f r).bind fun e r2 =>
      (expectTok .RIGHT_PAREN "Expect ')' after expression." r2).bind fun t2 r3 => .ok (.grouping e t2.line) r3)
    (fun f => ?_) (ev_bind h ?_)
  · rw [primary]; simp [peekTok, ht]
  · simp only [expectTok, peekTok, ht2, if_true, PR.bind]; exact Ev.const _

theorem ev_primary_arr0 {t t2 : Token} {r2 : List Token} (ht : t.tt = .LEFT_BRACKET) (ht2 : t2.tt = .RIGHT_BRACKET) :
    Ev (fun f => primary f (t :: t2 :: r2)) (.ok (.arrayLit []) r2) :=
  ev_primary_of (fun f => by rw [primary]; simp [peekTok, ht, ht2])

theorem ev_primary_arr {t t2 t3 : Token} {r2 r4 : List Token} {es : List Expr}
    (ht : t.tt = .LEFT_BRACKET) (ht2 : t2.tt ≠ .RIGHT_BRACKET) (ht3 : t3.tt = .RIGHT_BRACKET)
    (h : Ev (fun f => exprList f (t2 :: r2)) (.ok es (t3 :: r4))) :
    Ev (fun f => primary f (t :: t2 :: r2)) (.ok (.arrayLit es) r4) := by
  refine ev_succ (body := fun f => (exprList f (t2 :: r2)).bind fun es r3 =>
      (expectTok .RIGHT_BRACKET "Expect ']' after array elements." r3).bind fun _ r4 => .ok (.arrayLit es) r4)
    (fun f => ?_) (ev_bind h ?_)
  · rw [primary]; simp [peekTok, ht, ht2]
  · simp only [expectTok, peekTok, ht3, if_true, PR.bind]; exact Ev.const _

theorem ev_primary_obj {t t3 : Token} {r r3 : List Token} {ps : List (Name × Expr) × Bool}
    (ht : t.tt = .LEFT_BRACE) (ht3 : t3.tt = .RIGHT_BRACE)
    (h : Ev (fun f => objProps f r) (.ok ps (t3 :: r3))) :
    Ev (fun f => primary f (t :: r)) (.ok (.objectLit ps.1 ps.2) r3) := by
  refine ev_succ (body := fun f => (objProps f r).bind fun ps r2 =>
      (expectTok .RIGHT_BRACE "Expect '}' after object literal." r2).bind fun _ r3 => .ok (.objectLit ps.1 ps.2) r3)
    (fun f => ?_) (ev_bind h ?_)
  · rw [primary]; simp [peekTok, ht]
  · simp only [expectTok, peekTok, ht3, if_true, PR.bind]; exact Ev.const _

theorem ev_assign_none {ts : List Token} {e : Expr} {t : Token} {r : List Token} (ht : t.tt ≠ .EQUAL)
    (h : Ev (fun f => binLevel f 0 ts) (.ok e (t :: r))) :
    Ev (fun f => assignment f ts) (.ok e (t :: r)) := by
  obtain ⟨f0, h⟩ := h
  refine ⟨f0 + 1, fun f hf => ?_⟩
  obtain ⟨g, rfl⟩ : ∃ g, f = g + 1 := ⟨f - 1, by omega⟩
  show assignment (g + 1) ts = _
  rw [assignment]; simp only [h g (by omega), PR.bind, peekTok, ht, if_false]

theorem ev_assign_ident {ts : List Token} {n : Name} {l : Nat} {t : Token} {r1 r2 : List Token} {v : Expr} (ht : t.tt = .EQUAL)
    (h : Ev (fun f => binLevel f 0 ts) (.ok (.ident n l) (t :: r1)))
    (hv : Ev (fun f => assignment f r1) (.ok v r2)) :
    Ev (fun f => assignment f ts) (.ok (.assign n l v t.line) r2) := by
  obtain ⟨f0, h⟩ := h; obtain ⟨f1, hv⟩ := hv
  refine ⟨max f0 f1 + 1, fun f hf => ?_⟩
  obtain ⟨g, rfl⟩ : ∃ g, f = g + 1 := ⟨f - 1, by omega⟩
  show assignment (g + 1) ts = _
  rw [assignment]; simp only [h g (by omega), hv g (by omega), PR.bind, peekTok, ht, if_true]

theorem ev_assign_index {ts : List Token} {a i : Expr} {l : Nat} {t : Token} {r1 r2 : List Token} {v : Expr} (ht : t.tt = .EQUAL)
    (h : Ev (fun f => binLevel f 0 ts) (.ok (.arrayAccess a i l) (t :: r1)))
    (hv : Ev (fun f => assignment f r1) (.ok v r2)) :
    Ev (fun f => assignment f ts) (.ok (.arrayAssign a i v t.line) r2) := by
  obtain ⟨f0, h⟩ := h; obtain ⟨f1, hv⟩ := hv
  refine ⟨max f0 f1 + 1, fun f hf => ?_⟩
  obtain ⟨g, rfl⟩ : ∃ g, f = g + 1 := ⟨f - 1, by omega⟩
  show assignment (g + 1) ts = _
  rw [assignment]; simp only [h g (by omega), hv g (by omega), PR.bind, peekTok, ht, if_true]

theorem ev_assign_prop {ts : List Token} {o : Expr} {q : Name} {l : Nat} {t : Token} {r1 r2 : List Token} {v : Expr} (ht : t.tt = .EQUAL)
    (h : Ev (fun f => binLevel f 0 ts) (.ok (.propAccess o q l) (t :: r1)))
    (hv : Ev (fun f => assignment f r1) (.ok v r2)) :
    Ev (fun f => assignment f ts) (.ok (.propAssign o q v t.line) r2) := by
  obtain ⟨f0, h⟩ := h; obtain ⟨f1, hv⟩ := hv
  refine ⟨max f0 f1 + 1, fun f hf => ?_⟩
  obtain ⟨g, rfl⟩ : ∃ g, f = g + 1 := ⟨f - 1, by omega⟩
  show assignment (g + 1) ts = _
  rw [assignment]; simp only [h g (by omega), hv g (by omega), PR.bind, peekTok, ht, if_true]

theorem Ev.const_eq {β : Type} {a v : β} (h : Ev (fun _ => a) v) : v = a := by
  obtain ⟨f0, h⟩ := h; exact (h f0 (Nat.le_refl _)).symm

/-! ### follow sets -/

/-- `tt` is an operator of some ladder level `j ≥ k` -/
def opsFrom (k : Nat) (tt : TT) : Bool := (List.range nLevels).any fun j => decide (k ≤ j) && (levelOps j).contains tt

/-- a token that cannot extend an expression at any level tighter than `k` -/
def tight (k : Nat) (tt : TT) : Bool := !sfx tt && !opsFrom (k + 1) tt

/-- a token that cannot extend an expression at all -/
def followA (tt : TT) : Bool := !sfx tt && !opsFrom 0 tt && tt != .EQUAL

theorem opsFrom_false {k j : Nat} {tt : TT} (h : opsFrom k tt = false) (hkj : k ≤ j) (hj : j < nLevels) :
    (levelOps j).contains tt = false := by
  unfold opsFrom at h
  rw [List.any_eq_false] at h
  have := h j (List.mem_range.mpr hj)
  simpa [hkj] using this

theorem opsFrom_mono {k k' : Nat} {tt : TT} (h : opsFrom k tt = false) (hk : k ≤ k') : opsFrom k' tt = false := by
  unfold opsFrom at h ⊢
  rw [List.any_eq_false] at h ⊢
  intro j hj
  have := h j hj
  by_cases h1 : k' ≤ j
  · have h2 : k ≤ j := by omega
    simpa [h1, h2] using this
  · simp [h1]

theorem tight_mono {k k' : Nat} {tt : TT} (h : tight k tt = true) (hk : k ≤ k') : tight k' tt = true := by
  simp only [tight, Bool.and_eq_true, Bool.not_eq_true'] at h ⊢
  exact ⟨h.1, opsFrom_mono h.2 (by omega)⟩

theorem tight_stop {k j : Nat} {tt : TT} (h : tight k tt = true) (hkj : k < j) (hj : j < nLevels) :
    (levelOps j).contains tt = false := by
  simp only [tight, Bool.and_eq_true, Bool.not_eq_true'] at h
  exact opsFrom_false h.2 (by omega) hj

theorem tight_sfx {k : Nat} {tt : TT} (h : tight k tt = true) : sfx tt = false := by
  simp only [tight, Bool.and_eq_true, Bool.not_eq_true'] at h; exact h.1

theorem followA_tight {tt : TT} (h : followA tt = true) (k : Nat) : tight k tt = true := by
  simp only [followA, Bool.and_eq_true, Bool.not_eq_true'] at h
  simp only [tight, Bool.and_eq_true, Bool.not_eq_true']
  exact ⟨h.1.1, opsFrom_mono h.1.2 (Nat.zero_le _)⟩

theorem followA_stop {tt : TT} (h : followA tt = true) {j : Nat} (hj : j < nLevels) : (levelOps j).contains tt = false := by
  simp only [followA, Bool.and_eq_true, Bool.not_eq_true'] at h
  exact opsFrom_false h.1.2 (Nat.zero_le _) hj

theorem followA_ne_equal {tt : TT} (h : followA tt = true) : tt ≠ .EQUAL := by
  simp only [followA, Bool.and_eq_true, bne_iff_ne] at h; exact h.2

theorem ladder_ops_not_sfx : ∀ k, k < nLevels → ∀ tt ∈ levelOps k, sfx tt = false := by decide

theorem levelOf_mem {op : TT} {k : Nat} (h : levelOf op = some k) : k < nLevels ∧ (levelOps k).contains op = true := by
  unfold levelOf at h
  have h2 := List.findIdx?_eq_some_iff_getElem.mp h
  obtain ⟨hk, hc, _⟩ := h2
  refine ⟨hk, ?_⟩
  unfold levelOps
  have : Expect.ladder[k]? = some Expect.ladder[k] := List.getElem?_eq_getElem hk
  rw [this]; exact hc

/-- an operator of level `k` cannot extend an expression at a tighter level -/
theorem op_tight {op : TT} {k : Nat} (h : levelOf op = some k) : tight k op = true := by
  obtain ⟨hk, hc⟩ := levelOf_mem h
  simp only [tight, Bool.and_eq_true, Bool.not_eq_true']
  refine ⟨ladder_ops_not_sfx k hk op (by simpa using hc), ?_⟩
  unfold opsFrom
  rw [List.any_eq_false]
  intro j hj
  have hj' := List.mem_range.mp hj
  by_cases h1 : k + 1 ≤ j
  · cases hcj : (levelOps j).contains op with
    | false => simp
    | true =>
      have := levelOf_ops j hj' op (by simpa using hcj)
      rw [h] at this; cases this; omega
  · simp [h1]

def cont (f k : Nat) (acc : Expr) (ts : List Token) : PR Expr :=
  if k < nLevels then binLoop f k acc ts else .ok acc ts

theorem ev_cont_stop {k : Nat} {t : Token} (acc : Expr) (rest : List Token) (h : tight k t.tt = true) :
    Ev (fun f => cont f (k + 1) acc (t :: rest)) (.ok acc (t :: rest)) := by
  unfold cont
  by_cases hk : k + 1 < nLevels
  · simp only [hk, if_true]
    exact ev_binLoop_stop (k + 1) acc t rest (tight_stop h (Nat.lt_succ_self k) hk)
  · simp only [hk, if_false]; exact Ev.const _

/-! ### the first token of a rendering -/

theorem toks_head : ∀ e : Expr, ∃ x xs, toks e = x :: xs ∧ x.tt = headTT e
  | .literal v _ => ⟨tk (rLit v), [], by simp [toks, rExpr], by simp [tk, headTT]⟩
  | .ident n _ => ⟨tk (idt n), [], by simp [toks, rExpr], by simp [tk, idt, headTT]⟩
  | .grouping e _ => ⟨tk (kw .LEFT_PAREN), _, by simp only [toks, rExpr, List.map_cons]; rfl, by simp [tk, kw, headTT]⟩
  | .unary op _ e => ⟨tk (kw op), _, by simp only [toks, rExpr, List.map_cons]; rfl, by simp [tk, kw, headTT]⟩
  | .binary l op _ r => by
    obtain ⟨x, xs, h1, h2⟩ := toks_head l
    unfold toks at h1
    exact ⟨x, xs ++ (kw op :: rExpr r).map tk, by simp [toks, rExpr, h1], by simp [headTT, h2]⟩
  | .logical l op r => by
    obtain ⟨x, xs, h1, h2⟩ := toks_head l
    unfold toks at h1
    exact ⟨x, xs ++ (kw op :: rExpr r).map tk, by simp [toks, rExpr, h1], by simp [headTT, h2]⟩
  | .call c _ args => by
    obtain ⟨x, xs, h1, h2⟩ := toks_head c
    unfold toks at h1
    exact ⟨x, xs ++ (kw .LEFT_PAREN :: rList args ++ [kw .RIGHT_PAREN]).map tk, by simp [toks, rExpr, h1], by simp [headTT, h2]⟩
  | .arrayLit es => ⟨tk (kw .LEFT_BRACKET), _, by simp only [toks, rExpr, List.map_cons]; rfl, by simp [tk, kw, headTT]⟩
  | .objectLit ps tc => ⟨tk (kw .LEFT_BRACE), _, by simp only [toks, rExpr, List.map_cons]; rfl, by simp [tk, kw, headTT]⟩
  | .arrayAccess a i _ => by
    obtain ⟨x, xs, h1, h2⟩ := toks_head a
    unfold toks at h1
    exact ⟨x, xs ++ (kw .LEFT_BRACKET :: rExpr i ++ [kw .RIGHT_BRACKET]).map tk, by simp [toks, rExpr, h1], by simp [headTT, h2]⟩
  | .propAccess o q _ => by
    obtain ⟨x, xs, h1, h2⟩ := toks_head o
    unfold toks at h1
    exact ⟨x, xs ++ ([kw .DOT, idt q]).map tk, by simp [toks, rExpr, h1], by simp [headTT, h2]⟩
  | .assign n _ v _ => ⟨tk (idt n), _, by simp only [toks, rExpr, List.map_cons]; rfl, by simp [tk, idt, headTT]⟩
  | .arrayAssign a i v _ => by
    obtain ⟨x, xs, h1, h2⟩ := toks_head a
    unfold toks at h1
    exact ⟨x, xs ++ (kw .LEFT_BRACKET :: rExpr i ++ kw .RIGHT_BRACKET :: kw .EQUAL :: rExpr v).map tk, by simp [toks, rExpr, h1], by simp [headTT, h2]⟩
  | .propAssign o q v _ => by
    obtain ⟨x, xs, h1, h2⟩ := toks_head o
    unfold toks at h1
    exact ⟨x, xs ++ (kw .DOT :: idt q :: kw .EQUAL :: rExpr v).map tk, by simp [toks, rExpr, h1], by simp [headTT, h2]⟩

def primStart : List TT := [.FALSE, .TRUE, .NIL, .NUMBER, .STRING, .IDENTIFIER, .LEFT_PAREN, .LEFT_BRACKET, .LEFT_BRACE]

theorem rLit_start (v : LitVal) : (rLit v).tt ∈ primStart := by
  cases v with
  | nil => simp [rLit, kw, primStart]
  | bool b => cases b <;> simp [rLit, kw, primStart]
  | num x => simp [rLit, primStart]
  | str s => simp [rLit, primStart]

/-- the rendering of a suffix-level tree starts with a token that starts a primary -/
theorem head_prim : ∀ e : Expr, fits (nLevels + 2) e = true → headTT e ∈ primStart
  | .literal v _, _ => rLit_start v
  | .ident _ _, _ => by simp [headTT, primStart]
  | .grouping _ _, _ => by simp [headTT, primStart]
  | .unary op _ e, h => by simp [fits] at h
  | .binary l op _ r, h => by
    simp only [fits] at h
    split at h
    · rename_i j hj
      have := (levelOf_mem hj).1
      simp only [Bool.and_eq_true, decide_eq_true_eq] at h
      have := h.1.1.1; omega
    · cases h
  | .logical l op r, h => by
    simp only [fits] at h
    split at h
    · rename_i j hj
      have := (levelOf_mem hj).1
      simp only [Bool.and_eq_true, decide_eq_true_eq] at h
      have := h.1.1.1; omega
    · cases h
  | .call c _ _, h => by
    simp only [fits, Bool.and_eq_true] at h
    exact head_prim c h.1.2
  | .arrayLit _, _ => by simp [headTT, primStart]
  | .objectLit _ _, _ => by simp [headTT, primStart]
  | .arrayAccess a _ _, h => by
    simp only [fits, Bool.and_eq_true] at h
    exact head_prim a h.1.2
  | .propAccess o _ _, h => by
    simp only [fits, Bool.and_eq_true] at h
    exact head_prim o h.2
  | .assign _ _ _ _, h => by simp [fits] at h
  | .arrayAssign _ _ _ _, h => by simp [fits] at h
  | .propAssign _ _ _ _, h => by simp [fits] at h

def exprStart : List TT := primStart ++ Expect.unaryOps

/-- the rendering of any fitting tree starts with a token that starts an expression -/
theorem head_expr : ∀ (e : Expr) (k : Nat), fits k e = true → headTT e ∈ exprStart
  | .literal v _, _, _ => List.mem_append_left _ (rLit_start v)
  | .ident _ _, _, _ => by simp [headTT, exprStart, primStart]
  | .grouping _ _, _, _ => by simp [headTT, exprStart, primStart]
  | .unary op _ e, _, h => by
    simp only [fits, Bool.and_eq_true] at h
    exact List.mem_append_right _ (by simpa [headTT] using h.1.2)
  | .binary l op _ r, _, h => by
    simp only [fits] at h
    split at h
    · simp only [Bool.and_eq_true] at h
      exact head_expr l _ h.1.2
    · cases h
  | .logical l op r, _, h => by
    simp only [fits] at h
    split at h
    · simp only [Bool.and_eq_true] at h
      exact head_expr l _ h.1.2
    · cases h
  | .call c _ _, _, h => by
    simp only [fits, Bool.and_eq_true] at h
    exact head_expr c _ h.1.2
  | .arrayLit _, _, _ => by simp [headTT, exprStart, primStart]
  | .objectLit _ _, _, _ => by simp [headTT, exprStart, primStart]
  | .arrayAccess a _ _, _, h => by
    simp only [fits, Bool.and_eq_true] at h
    exact head_expr a _ h.1.2
  | .propAccess o _ _, _, h => by
    simp only [fits, Bool.and_eq_true] at h
    exact head_expr o _ h.2
  | .assign _ _ _ _, _, _ => by simp [headTT, exprStart, primStart]
  | .arrayAssign a _ _ _, _, h => by
    simp only [fits, Bool.and_eq_true] at h
    exact head_expr a _ h.1.1.2
  | .propAssign o _ _ _, _, h => by
    simp only [fits, Bool.and_eq_true] at h
    exact head_expr o _ h.1.2

theorem primStart_not_unary : ∀ tt ∈ primStart, Expect.unaryOps.contains tt = false := by decide
theorem exprStart_not_close : ∀ tt ∈ exprStart, tt ≠ TT.RIGHT_PAREN ∧ tt ≠ TT.RIGHT_BRACKET := by decide

/-! ### the claims, per tree -/

def SAt (e : Expr) : Prop := fits (nLevels + 2) e = true → ∀ ts' v, Ev (fun f => suffix f (eraseE e) ts') v →
    Ev (fun f => (primary f (toks e ++ ts')).bind fun e r2 => suffix f e r2) v

def UAt (e : Expr) : Prop := fits (nLevels + 1) e = true → ∀ t rest, sfx t.tt = false →
    Ev (fun f => unary f (toks e ++ t :: rest)) (.ok (eraseE e) (t :: rest))

def GAt (e : Expr) (k : Nat) : Prop := fits (k + 1) e = true → ∀ t rest v, tight k t.tt = true →
    Ev (fun f => cont f k (eraseE e) (t :: rest)) v → Ev (fun f => binLevel f k (toks e ++ t :: rest)) v

def AAt (e : Expr) : Prop := fits 0 e = true → ∀ t rest, followA t.tt = true →
    Ev (fun f => assignment f (toks e ++ t :: rest)) (.ok (eraseE e) (t :: rest))

structure Claims (e : Expr) : Prop where
  S : SAt e
  U : UAt e
  G : ∀ k, k ≤ nLevels → GAt e k
  A : AAt e

theorem nLevels_pos : 0 < nLevels := by decide

theorem G_top {e : Expr} (hU : UAt e) : GAt e nLevels := by
  intro hf t rest v ht hc
  have hv : v = .ok (eraseE e) (t :: rest) := by
    unfold cont at hc; simp only [Nat.lt_irrefl, if_false] at hc; exact hc.const_eq
  rw [hv]
  exact ev_binLevel_top (hU hf t rest (tight_sfx ht))

theorem G_step {e : Expr} {k : Nat} (hk : k < nLevels) (hfit2 : fits (k + 2) e = true) (hG : GAt e (k + 1)) : GAt e k := by
  intro _ t rest v ht hc
  unfold cont at hc; simp only [hk, if_true] at hc
  exact ev_binLevel_lt hk (hG hfit2 t rest _ (tight_mono ht (Nat.le_succ _)) (ev_cont_stop _ _ ht)) hc

/-- for a tree that is not a binary / logical / assignment node: every level hands it down to `unary` -/
theorem G_of_U {e : Expr} (hU : UAt e) (hup : ∀ k, k < nLevels → fits (k + 1) e = true → fits (k + 2) e = true) :
    ∀ k, k ≤ nLevels → GAt e k := by
  have : ∀ d k, k + d = nLevels → GAt e k := by
    intro d
    induction d with
    | zero => intro k hk; have : k = nLevels := by omega
              subst this; exact G_top hU
    | succ d ih =>
      intro k hk hf
      have hk' : k < nLevels := by omega
      exact G_step hk' (hup k hk' hf) (ih (k + 1) (by omega)) hf
  intro k hk
  exact this (nLevels - k) k (by omega)

theorem U_of_S {e : Expr} (hS : SAt e) (hup : fits (nLevels + 1) e = true → fits (nLevels + 2) e = true) : UAt e := by
  intro hf t rest hs
  have hf2 := hup hf
  obtain ⟨x, xs, hx, hxt⟩ := toks_head e
  have hp := head_prim e hf2
  rw [← hxt] at hp
  have hnu := primStart_not_unary _ hp
  have h1 := hS hf2 (t :: rest) _ (ev_suffix_stop (eraseE e) t rest hs)
  rw [hx] at h1 ⊢
  exact ev_unary_prim hnu h1

theorem A_of_G {e : Expr} (hG : GAt e 0) (h01 : fits 0 e = true → fits 1 e = true) : AAt e := by
  intro hf t rest hfo
  refine ev_assign_none (followA_ne_equal hfo) (hG (h01 hf) t rest _ (followA_tight hfo 0) ?_)
  unfold cont; simp only [nLevels_pos, if_true]
  exact ev_binLoop_stop 0 _ t rest (followA_stop hfo nLevels_pos)

/-- the four claims for a tree of the `call` / `primary` level, from its suffix claim -/
theorem claims_of_S {e : Expr} (hS : SAt e) (hfit : ∀ k, fits k e = true → fits (nLevels + 2) e = true) : Claims e := by
  have hU : UAt e := U_of_S hS (hfit _)
  have hG := G_of_U hU (fun k _ h => fits_mono (hfit _ h) (by omega))
  exact ⟨hS, hU, hG, A_of_G (hG 0 (Nat.zero_le _)) (fun h => fits_mono (hfit _ h) (by omega))⟩

/-! ### renderings as tokens -/

def toksL (es : List Expr) : List Token := (rList es).map tk
def toksP (ps : List (Name × Expr)) : List Token := (rProps ps).map tk

@[simp] theorem tk_kw_tt (tt : TT) : (tk (kw tt)).tt = tt := rfl
@[simp] theorem tk_line (x : RTok) : (tk x).line = 0 := rfl
@[simp] theorem tk_idt_tt (n : Name) : (tk (idt n)).tt = .IDENTIFIER := rfl
@[simp] theorem tk_idt_lexeme (n : Name) : (tk (idt n)).lexeme = n := rfl

theorem toks_literal (v : LitVal) (ln : Nat) : toks (.literal v ln) = [tk (rLit v)] := by simp [toks, rExpr]
theorem toks_ident (n : Name) (ln : Nat) : toks (.ident n ln) = [tk (idt n)] := by simp [toks, rExpr]
theorem toks_grouping (e : Expr) (ln : Nat) : toks (.grouping e ln) = tk (kw .LEFT_PAREN) :: (toks e ++ [tk (kw .RIGHT_PAREN)]) := by
  simp [toks, rExpr]
theorem toks_unary (op : TT) (ln : Nat) (e : Expr) : toks (.unary op ln e) = tk (kw op) :: toks e := by simp [toks, rExpr]
theorem toks_binary (l : Expr) (op : TT) (ln : Nat) (r : Expr) : toks (.binary l op ln r) = toks l ++ tk (kw op) :: toks r := by
  simp [toks, rExpr]
theorem toks_logical (l : Expr) (op : TT) (r : Expr) : toks (.logical l op r) = toks l ++ tk (kw op) :: toks r := by
  simp [toks, rExpr]
theorem toks_call (c : Expr) (ln : Nat) (args : List Expr) :
    toks (.call c ln args) = toks c ++ tk (kw .LEFT_PAREN) :: (toksL args ++ [tk (kw .RIGHT_PAREN)]) := by
  simp [toks, toksL, rExpr]
theorem toks_arrayLit (es : List Expr) : toks (.arrayLit es) = tk (kw .LEFT_BRACKET) :: (toksL es ++ [tk (kw .RIGHT_BRACKET)]) := by
  simp [toks, toksL, rExpr]
theorem toks_objectLit (ps : List (Name × Expr)) (tc : Bool) :
    toks (.objectLit ps tc) = tk (kw .LEFT_BRACE) :: (toksP ps ++ ((if tc then [tk (kw .COMMA)] else []) ++ [tk (kw .RIGHT_BRACE)])) := by
  cases tc <;> simp [toks, toksP, rExpr]
theorem toks_arrayAccess (a i : Expr) (ln : Nat) :
    toks (.arrayAccess a i ln) = toks a ++ tk (kw .LEFT_BRACKET) :: (toks i ++ [tk (kw .RIGHT_BRACKET)]) := by
  simp [toks, rExpr]
theorem toks_propAccess (o : Expr) (q : Name) (ln : Nat) : toks (.propAccess o q ln) = toks o ++ [tk (kw .DOT), tk (idt q)] := by
  simp [toks, rExpr]
theorem toks_assign (n : Name) (l : Nat) (v : Expr) (ln : Nat) : toks (.assign n l v ln) = tk (idt n) :: tk (kw .EQUAL) :: toks v := by
  simp [toks, rExpr]
theorem toks_arrayAssign (a i v : Expr) (ln : Nat) :
    toks (.arrayAssign a i v ln) = toks (.arrayAccess a i 0) ++ tk (kw .EQUAL) :: toks v := by
  simp [toks, rExpr]
theorem toks_propAssign (o : Expr) (q : Name) (v : Expr) (ln : Nat) :
    toks (.propAssign o q v ln) = toks (.propAccess o q 0) ++ tk (kw .EQUAL) :: toks v := by
  simp [toks, rExpr]

theorem toksL_nil : toksL [] = [] := rfl
theorem toksL_one (a : Expr) : toksL [a] = toks a := by simp [toksL, toks, rList]
theorem toksL_more (a b : Expr) (es : List Expr) : toksL (a :: b :: es) = toks a ++ tk (kw .COMMA) :: toksL (b :: es) := by
  simp [toksL, toks, rList]
theorem toksP_nil : toksP [] = [] := rfl
theorem toksP_one (k : Name) (v : Expr) : toksP [(k, v)] = tk (idt k) :: tk (kw .COLON) :: toks v := by simp [toksP, toks, rProps]
theorem toksP_more (k : Name) (v : Expr) (p : Name × Expr) (ps : List (Name × Expr)) :
    toksP ((k, v) :: p :: ps) = tk (idt k) :: tk (kw .COLON) :: (toks v ++ tk (kw .COMMA) :: toksP (p :: ps)) := by
  simp [toksP, toks, rProps]

theorem follow_close : followA .RIGHT_PAREN = true ∧ followA .RIGHT_BRACKET = true ∧ followA .RIGHT_BRACE = true ∧
    followA .COMMA = true := by decide
theorem equal_tight : tight 0 .EQUAL = true ∧ (levelOps 0).contains .EQUAL = false := by decide

/-! ### argument lists and property lists -/

theorem toksL_head {es : List Expr} (hne : es ≠ []) (hf : fitsAll es = true) :
    ∃ x xs, toksL es = x :: xs ∧ x.tt ∈ exprStart := by
  cases es with
  | nil => exact absurd rfl hne
  | cons a rest =>
    simp only [fitsAll, Bool.and_eq_true] at hf
    obtain ⟨x, xs, hx, hxt⟩ := toks_head a
    have hs := head_expr a 0 hf.1
    rw [← hxt] at hs
    cases rest with
    | nil => exact ⟨x, xs, by rw [toksL_one, hx], hs⟩
    | cons b rest' => exact ⟨x, xs ++ tk (kw .COMMA) :: toksL (b :: rest'), by rw [toksL_more, hx]; rfl, hs⟩

theorem list_claim : ∀ (es : List Expr), (∀ a ∈ es, AAt a) → fitsAll es = true → es ≠ [] →
    ∀ t rest, followA t.tt = true → t.tt ≠ .COMMA →
      Ev (fun f => exprList f (toksL es ++ t :: rest)) (.ok (eraseL es) (t :: rest))
  | [], _, _, hne, _, _, _, _ => absurd rfl hne
  | [a], hA, hf, _, t, rest, hfo, hc => by
    simp only [fitsAll, Bool.and_eq_true] at hf
    rw [toksL_one]
    exact ev_exprList_one hc (hA a (by simp) hf.1 t rest hfo)
  | a :: b :: es, hA, hf, _, t, rest, hfo, hc => by
    simp only [fitsAll, Bool.and_eq_true] at hf
    rw [toksL_more, List.append_assoc, List.cons_append]
    have h1 := hA a (by simp) hf.1 (tk (kw .COMMA)) (toksL (b :: es) ++ t :: rest) follow_close.2.2.2
    have h2 := list_claim (b :: es) (fun x hx => hA x (List.mem_cons_of_mem _ hx)) (by simp [fitsAll, hf.2]) (by simp) t rest hfo hc
    exact ev_exprList_more (by simp) h1 h2

theorem props_claim : ∀ (ps : List (Name × Expr)) (tc : Bool), (∀ p ∈ ps, AAt p.2) → fitsProps ps = true → (ps = [] → tc = false) →
    ∀ t rest, t.tt = .RIGHT_BRACE →
      Ev (fun f => objProps f (toksP ps ++ ((if tc then [tk (kw .COMMA)] else []) ++ t :: rest))) (.ok (eraseP ps, tc) (t :: rest))
  | [], tc, _, _, hflag, t, rest, ht => by
    have : tc = false := hflag rfl
    subst this
    simpa [toksP_nil, eraseP] using ev_obj_end t rest ht
  | [(k, v)], tc, hA, hf, _, t, rest, ht => by
    simp only [fitsProps, Bool.and_eq_true] at hf
    rw [toksP_one]
    cases tc with
    | false =>
      simp only [List.cons_append, List.nil_append, Bool.false_eq_true, if_false]
      have h1 := hA (k, v) (by simp) hf.1 t rest (by rw [ht]; exact follow_close.2.2.1)
      have := ev_obj_last (t := tk (idt k)) (tc := tk (kw .COLON)) (by simp) (by simp) (by rw [ht]; simp) h1
      simpa [eraseP] using this
    | true =>
      simp only [List.cons_append, List.nil_append, if_true, List.append_assoc]
      have h1 := hA (k, v) (by simp) hf.1 (tk (kw .COMMA)) (t :: rest) follow_close.2.2.2
      have := ev_obj_more (t := tk (idt k)) (tc := tk (kw .COLON)) (by simp) (by simp) (by simp) h1 (ev_obj_end t rest ht)
      simpa [eraseP] using this
  | (k, v) :: p :: ps, tc, hA, hf, _, t, rest, ht => by
    simp only [fitsProps, Bool.and_eq_true] at hf
    rw [toksP_more]
    simp only [List.cons_append, List.append_assoc]
    have h1 := hA (k, v) (by simp) hf.1 (tk (kw .COMMA)) (toksP (p :: ps) ++ ((if tc then [tk (kw .COMMA)] else []) ++ t :: rest)) follow_close.2.2.2
    have h2 := props_claim (p :: ps) tc (fun x hx => hA x (List.mem_cons_of_mem _ hx)) (by cases p; simp [fitsProps, hf.2]) (by simp) t rest ht
    have := ev_obj_more (t := tk (idt k)) (tc := tk (kw .COLON)) (by simp) (by simp) (by simp) h1 h2
    cases p
    simpa [eraseP] using this

/-! ### one lemma per node form: the claims of a node from the claims of its children -/

theorem claims_literal (v : LitVal) (ln : Nat) : Claims (.literal v ln) := by
  refine claims_of_S ?_ (fun k h => by simp [fits])
  intro _ ts' w hw
  rw [toks_literal]
  refine ev_bind (a := eraseE (.literal v ln)) (r1 := ts') (ev_primary_of fun f => ?_) hw
  rw [primary]
  cases v with
  | nil => simp [peekTok, rLit, eraseE]
  | bool b => cases b <;> simp [peekTok, rLit, eraseE]
  | num x => simp [peekTok, rLit, eraseE, tk, litOf]
  | str x => simp [peekTok, rLit, eraseE, tk, litOf]

theorem claims_ident (n : Name) (ln : Nat) : Claims (.ident n ln) := by
  refine claims_of_S ?_ (fun k h => by simp [fits])
  intro _ ts' w hw
  rw [toks_ident]
  refine ev_bind (a := eraseE (.ident n ln)) (r1 := ts') (ev_primary_of fun f => ?_) hw
  rw [primary]; simp [peekTok, eraseE]

theorem claims_grouping {e : Expr} (ln : Nat) (he : AAt e) : Claims (.grouping e ln) := by
  refine claims_of_S ?_ (fun k h => by simp only [fits, Bool.and_eq_true, decide_eq_true_eq] at h ⊢; exact ⟨Nat.le_refl _, h.2⟩)
  intro hf ts' w hw
  simp only [fits, Bool.and_eq_true] at hf
  rw [toks_grouping]
  simp only [List.cons_append, List.append_assoc, List.nil_append]
  have h1 := he hf.2 (tk (kw .RIGHT_PAREN)) ts' follow_close.1
  have := ev_primary_group (t := tk (kw .LEFT_PAREN)) (by simp) (by simp) h1
  exact ev_bind (by simpa [eraseE] using this) hw

theorem claims_arrayLit {es : List Expr} (hes : ∀ a ∈ es, AAt a) : Claims (.arrayLit es) := by
  refine claims_of_S ?_ (fun k h => by simp only [fits, Bool.and_eq_true, decide_eq_true_eq] at h ⊢; exact ⟨Nat.le_refl _, h.2⟩)
  intro hf ts' w hw
  simp only [fits, Bool.and_eq_true] at hf
  rw [toks_arrayLit]
  simp only [List.cons_append, List.append_assoc, List.nil_append]
  by_cases hne : es = []
  · subst hne
    simp only [toksL_nil, List.nil_append]
    have := ev_primary_arr0 (t := tk (kw .LEFT_BRACKET)) (t2 := tk (kw .RIGHT_BRACKET)) (r2 := ts') (by simp) (by simp)
    exact ev_bind (by simpa [eraseE, eraseL] using this) hw
  · obtain ⟨x, xs, hx, hxs⟩ := toksL_head hne hf.2
    have h1 := list_claim es hes hf.2 hne (tk (kw .RIGHT_BRACKET)) ts' follow_close.2.1 (by simp)
    rw [hx] at h1 ⊢
    simp only [List.cons_append] at h1 ⊢
    have := ev_primary_arr (t := tk (kw .LEFT_BRACKET)) (by simp) (exprStart_not_close _ hxs).2 (by simp) h1
    exact ev_bind (by simpa [eraseE] using this) hw

theorem claims_objectLit {ps : List (Name × Expr)} (tc : Bool) (hps : ∀ p ∈ ps, AAt p.2) : Claims (.objectLit ps tc) := by
  refine claims_of_S ?_ (fun k h => by simp only [fits, Bool.and_eq_true, decide_eq_true_eq] at h ⊢; exact ⟨⟨Nat.le_refl _, h.1.2⟩, h.2⟩)
  intro hf ts' w hw
  simp only [fits, Bool.and_eq_true] at hf
  rw [toks_objectLit]
  simp only [List.cons_append, List.append_assoc, List.nil_append]
  have hflag : ps = [] → tc = false := by
    intro h; subst h; simpa using hf.2
  have h1 := props_claim ps tc hps hf.1.2 hflag (tk (kw .RIGHT_BRACE)) ts' (by simp)
  have := ev_primary_obj (t := tk (kw .LEFT_BRACE)) (by simp) (by simp) h1
  exact ev_bind (by simpa [eraseE] using this) hw

theorem claims_call {c : Expr} (ln : Nat) {args : List Expr} (hc : SAt c) (hargs : ∀ a ∈ args, AAt a) : Claims (.call c ln args) := by
  refine claims_of_S ?_ (fun k h => by simp only [fits, Bool.and_eq_true, decide_eq_true_eq] at h ⊢; exact ⟨⟨Nat.le_refl _, h.1.2⟩, h.2⟩)
  intro hf ts' w hw
  simp only [fits, Bool.and_eq_true] at hf
  rw [toks_call]
  simp only [List.cons_append, List.append_assoc, List.nil_append]
  refine hc hf.1.2 _ w ?_
  by_cases hne : args = []
  · subst hne
    simp only [toksL_nil, List.nil_append]
    exact ev_suffix_call0 (by simp) (by simp) (by simpa [eraseE, eraseL] using hw)
  · obtain ⟨x, xs, hx, hxs⟩ := toksL_head hne hf.2
    have h1 := list_claim args hargs hf.2 hne (tk (kw .RIGHT_PAREN)) ts' follow_close.1 (by simp)
    rw [hx] at h1 ⊢
    simp only [List.cons_append] at h1 ⊢
    exact ev_suffix_call (by simp) (exprStart_not_close _ hxs).1 (by simp) h1 (by simpa [eraseE] using hw)

theorem claims_arrayAccess {a i : Expr} (ln : Nat) (ha : SAt a) (hi : AAt i) : Claims (.arrayAccess a i ln) := by
  refine claims_of_S ?_ (fun k h => by simp only [fits, Bool.and_eq_true, decide_eq_true_eq] at h ⊢; exact ⟨⟨Nat.le_refl _, h.1.2⟩, h.2⟩)
  intro hf ts' w hw
  simp only [fits, Bool.and_eq_true] at hf
  rw [toks_arrayAccess]
  simp only [List.cons_append, List.append_assoc, List.nil_append]
  refine ha hf.1.2 _ w ?_
  have h1 := hi hf.2 (tk (kw .RIGHT_BRACKET)) ts' follow_close.2.1
  exact ev_suffix_index (by simp) (by simp) h1 (by simpa [eraseE] using hw)

theorem claims_propAccess {o : Expr} (q : Name) (ln : Nat) (ho : SAt o) : Claims (.propAccess o q ln) := by
  refine claims_of_S ?_ (fun k h => by simp only [fits, Bool.and_eq_true, decide_eq_true_eq] at h ⊢; exact ⟨Nat.le_refl _, h.2⟩)
  intro hf ts' w hw
  simp only [fits, Bool.and_eq_true] at hf
  rw [toks_propAccess]
  simp only [List.cons_append, List.append_assoc, List.nil_append]
  refine ho hf.2 _ w ?_
  exact ev_suffix_prop (by simp) (by simp) (by simpa [eraseE] using hw)

theorem claims_unary (op : TT) (ln : Nat) {e : Expr} (he : UAt e) : Claims (.unary op ln e) := by
  have hS : SAt (.unary op ln e) := by intro hf; simp [fits] at hf
  have hU : UAt (.unary op ln e) := by
    intro hf t rest hs
    simp only [fits, Bool.and_eq_true] at hf
    rw [toks_unary]
    simp only [List.cons_append]
    have := ev_unary_op (t := tk (kw op)) (by simpa using hf.1.2) (he hf.2 t rest hs)
    simpa [eraseE] using this
  have hG := G_of_U hU (fun k hk h => by
    simp only [fits, Bool.and_eq_true, decide_eq_true_eq] at h ⊢
    exact ⟨⟨by have : nLev = nLevels := rfl; omega, h.1.2⟩, h.2⟩)
  exact ⟨hS, hU, hG, A_of_G (hG 0 (Nat.zero_le _)) (fun h => by
    simp only [fits, Bool.and_eq_true, decide_eq_true_eq] at h ⊢
    exact ⟨⟨by omega, h.1.2⟩, h.2⟩)⟩

/-- the shared argument for `Binary` and `Logical` nodes -/
theorem claims_bin {l r : Expr} {op : TT} (e : Expr)
    (htoks : toks e = toks l ++ tk (kw op) :: toks r)
    (hfits : ∀ p, fits p e = true → ∃ j, levelOf op = some j ∧ p ≤ j + 1 ∧ fits (j + 1) l = true ∧ fits (j + 2) r = true ∧
        mkBin j (eraseE l) (tk (kw op)) (eraseE r) = eraseE e)
    (hfits' : ∀ p j, fits p e = true → levelOf op = some j → ∀ p', p' ≤ j + 1 → fits p' e = true)
    (hl : ∀ k, k ≤ nLevels → GAt l k) (hr : ∀ k, k ≤ nLevels → GAt r k) : Claims e := by
  have hS : SAt e := by
    intro hf
    obtain ⟨j, hj, hp, _⟩ := hfits _ hf
    have := (levelOf_mem hj).1; omega
  have hU : UAt e := by
    intro hf
    obtain ⟨j, hj, hp, _⟩ := hfits _ hf
    have := (levelOf_mem hj).1; omega
  have hG : ∀ k, k ≤ nLevels → GAt e k := by
    intro k hk hf
    obtain ⟨j, hj, hp, hfl, hfr, hmk⟩ := hfits _ hf
    obtain ⟨hjn, hjc⟩ := levelOf_mem hj
    -- at its own level
    have hown : GAt e j := by
      intro _ t rest v ht hc
      unfold cont at hc; simp only [hjn, if_true] at hc
      rw [htoks]
      simp only [List.append_assoc, List.cons_append]
      refine hl j (Nat.le_of_lt hjn) hfl (tk (kw op)) _ v (op_tight hj) ?_
      unfold cont; simp only [hjn, if_true]
      have h1 := hr (j + 1) hjn hfr t rest _ (tight_mono ht (Nat.le_succ _)) (ev_cont_stop _ _ ht)
      refine ev_binLoop_step (by simpa using hjc) h1 ?_
      rw [hmk]; exact hc
    -- looser levels hand it down
    have : ∀ d k, k + d = j → GAt e k := by
      intro d
      induction d with
      | zero => intro k hk; have : k = j := by omega
                subst this; exact hown
      | succ d ih =>
        intro k hk hf
        exact G_step (by omega) (hfits' _ j hf hj _ (by omega)) (ih (k + 1) (by omega)) hf
    exact this (j - k) k (by omega) hf
  exact ⟨hS, hU, hG, A_of_G (hG 0 (Nat.zero_le _)) (fun h => by
    obtain ⟨j, hj, _⟩ := hfits _ h
    exact hfits' _ j h hj _ (by omega))⟩

theorem claims_binary {l r : Expr} (op : TT) (ln : Nat) (hl : ∀ k, k ≤ nLevels → GAt l k) (hr : ∀ k, k ≤ nLevels → GAt r k) :
    Claims (.binary l op ln r) := by
  refine claims_bin (.binary l op ln r) (toks_binary l op ln r) ?_ ?_ hl hr
  · intro p h
    simp only [fits] at h
    split at h
    · rename_i j hj
      simp only [Bool.and_eq_true, decide_eq_true_eq, beq_iff_eq] at h
      refine ⟨j, hj, h.1.1.1, h.1.2, h.2, ?_⟩
      unfold mkBin; rw [h.1.1.2]; simp [eraseE]
    · cases h
  · intro p j h hj p' hp'
    simp only [fits, hj, Bool.and_eq_true, decide_eq_true_eq, beq_iff_eq] at h ⊢
    exact ⟨⟨⟨hp', h.1.1.2⟩, h.1.2⟩, h.2⟩

theorem claims_logical {l r : Expr} (op : TT) (hl : ∀ k, k ≤ nLevels → GAt l k) (hr : ∀ k, k ≤ nLevels → GAt r k) :
    Claims (.logical l op r) := by
  refine claims_bin (.logical l op r) (toks_logical l op r) ?_ ?_ hl hr
  · intro p h
    simp only [fits] at h
    split at h
    · rename_i j hj
      simp only [Bool.and_eq_true, decide_eq_true_eq, beq_iff_eq] at h
      refine ⟨j, hj, h.1.1.1, h.1.2, h.2, ?_⟩
      unfold mkBin; rw [h.1.1.2]; simp [eraseE]
    · cases h
  · intro p j h hj p' hp'
    simp only [fits, hj, Bool.and_eq_true, decide_eq_true_eq, beq_iff_eq] at h ⊢
    exact ⟨⟨⟨hp', h.1.1.2⟩, h.1.2⟩, h.2⟩

/-- the shared argument for the three assignment forms: the target is parsed as a `logicalOR`
    expression, `=` stops it, the value is an assignment again -/
theorem claims_assign_like {target v : Expr} (e : Expr)
    (htoks : toks e = toks target ++ tk (kw .EQUAL) :: toks v)
    (hfits : ∀ p, fits p e = true → p = 0 ∧ fits 1 target = true ∧ fits 0 v = true)
    (htarget : GAt target 0) (hv : AAt v)
    (hres : ∀ ts r1 r2, Ev (fun f => binLevel f 0 ts) (.ok (eraseE target) (tk (kw .EQUAL) :: r1)) →
        Ev (fun f => assignment f r1) (.ok (eraseE v) r2) → Ev (fun f => assignment f ts) (.ok (eraseE e) r2)) : Claims e := by
  have hS : SAt e := by intro hf; have := (hfits _ hf).1; omega
  have hU : UAt e := by intro hf; have := (hfits _ hf).1; omega
  have hG : ∀ k, k ≤ nLevels → GAt e k := by intro k _ hf; have := (hfits _ hf).1; omega
  refine ⟨hS, hU, hG, ?_⟩
  intro hf t rest hfo
  obtain ⟨_, hft, hfv⟩ := hfits _ hf
  rw [htoks]
  simp only [List.append_assoc, List.cons_append]
  refine hres _ _ _ (htarget hft (tk (kw .EQUAL)) _ _ equal_tight.1 ?_) (hv hfv t rest hfo)
  unfold cont; simp only [nLevels_pos, if_true]
  exact ev_binLoop_stop 0 _ _ _ equal_tight.2

theorem claims_assign (n : Name) (l : Nat) {v : Expr} (ln : Nat) (hv : AAt v) : Claims (.assign n l v ln) := by
  refine claims_assign_like (target := .ident n l) (.assign n l v ln) 
    (by rw [toks_assign, toks_ident]; rfl) ?_ ((claims_ident n l).G 0 (Nat.zero_le _)) hv ?_
  · intro p h
    simp only [fits, Bool.and_eq_true, beq_iff_eq] at h
    exact ⟨h.1, by simp [fits], h.2⟩
  · intro ts r1 r2 h1 h2
    have := ev_assign_ident (t := tk (kw .EQUAL)) (by simp) (by simpa [eraseE] using h1) h2
    simpa [eraseE] using this

theorem claims_arrayAssign {a i v : Expr} (ln : Nat) (ha : SAt a) (hi : AAt i) (hv : AAt v) : Claims (.arrayAssign a i v ln) := by
  refine claims_assign_like (target := .arrayAccess a i 0) (.arrayAssign a i v ln)
    (toks_arrayAssign a i v ln) ?_ ((claims_arrayAccess 0 ha hi).G 0 (Nat.zero_le _)) hv ?_
  · intro p h
    simp only [fits, Bool.and_eq_true, beq_iff_eq] at h
    exact ⟨h.1.1.1, by simp [fits, h.1.1.2, h.1.2], h.2⟩
  · intro ts r1 r2 h1 h2
    have := ev_assign_index (t := tk (kw .EQUAL)) (by simp) (by simpa [eraseE] using h1) h2
    simpa [eraseE] using this

theorem claims_propAssign {o v : Expr} (q : Name) (ln : Nat) (ho : SAt o) (hv : AAt v) : Claims (.propAssign o q v ln) := by
  refine claims_assign_like (target := .propAccess o q 0) (.propAssign o q v ln)
    (toks_propAssign o q v ln) ?_ ((claims_propAccess q 0 ho).G 0 (Nat.zero_le _)) hv ?_
  · intro p h
    simp only [fits, Bool.and_eq_true, beq_iff_eq] at h
    exact ⟨h.1.1, by simp [fits, h.1.2], h.2⟩
  · intro ts r1 r2 h1 h2
    have := ev_assign_prop (t := tk (kw .EQUAL)) (by simp) (by simpa [eraseE] using h1) h2
    simpa [eraseE] using this

/-! ### all trees -/

def AllClaims : List Expr → Prop
  | [] => True
  | e :: es => Claims e ∧ AllClaims es

def AllClaimsP : List (Name × Expr) → Prop
  | [] => True
  | p :: ps => Claims p.2 ∧ AllClaimsP ps

theorem AllClaims.mem : ∀ {es : List Expr}, AllClaims es → ∀ a ∈ es, Claims a
  | [], _, _, h => by cases h
  | e :: es, hc, a, h => by
    rcases List.mem_cons.mp h with rfl | h'
    · exact hc.1
    · exact AllClaims.mem hc.2 a h'

theorem AllClaimsP.mem : ∀ {ps : List (Name × Expr)}, AllClaimsP ps → ∀ p ∈ ps, Claims p.2
  | [], _, _, h => by cases h
  | q :: ps, hc, p, h => by
    rcases List.mem_cons.mp h with rfl | h'
    · exact hc.1
    · exact AllClaimsP.mem hc.2 p h'

mutual
theorem claims : ∀ e : Expr, Claims e
  | .literal v ln => claims_literal v ln
  | .ident n ln => claims_ident n ln
  | .grouping e ln => claims_grouping ln (claims e).A
  | .unary op ln e => claims_unary op ln (claims e).U
  | .binary l op ln r => claims_binary op ln (claims l).G (claims r).G
  | .logical l op r => claims_logical op (claims l).G (claims r).G
  | .call c ln args => claims_call ln (claims c).S (fun a ha => ((claimsL args).mem a ha).A)
  | .arrayLit es => claims_arrayLit (fun a ha => ((claimsL es).mem a ha).A)
  | .objectLit ps tc => claims_objectLit tc (fun p hp => ((claimsP ps).mem p hp).A)
  | .arrayAccess a i ln => claims_arrayAccess ln (claims a).S (claims i).A
  | .propAccess o q ln => claims_propAccess q ln (claims o).S
  | .assign n l v ln => claims_assign n l ln (claims v).A
  | .arrayAssign a i v ln => claims_arrayAssign ln (claims a).S (claims i).A (claims v).A
  | .propAssign o q v ln => claims_propAssign q ln (claims o).S (claims v).A
theorem claimsL : ∀ es : List Expr, AllClaims es
  | [] => trivial
  | e :: es => ⟨claims e, claimsL es⟩
theorem claimsP : ∀ ps : List (Name × Expr), AllClaimsP ps
  | [] => trivial
  | (_, e) :: ps => ⟨claims e, claimsP ps⟩
end

/-- **completeness of the expression parser**: for every tree that fits the ladder, parsing its own
    rendering (followed by any token that cannot continue an expression) returns that tree, line
    fields forgotten, and leaves the rest — for all sufficiently large fuel -/
theorem assignment_complete (e : Expr) (hf : fits 0 e = true) (t : Token) (rest : List Token) (ht : followA t.tt = true) :
    ∃ f0, ∀ f, f0 ≤ f → assignment f (toks e ++ t :: rest) = .ok (eraseE e) (t :: rest) :=
  (claims e).A hf t rest ht

/-- **the tree is unique**: two ladder-fitting trees with the same rendering are the same tree
    (up to line fields) -/
theorem rendering_injective (e1 e2 : Expr) (h1 : fits 0 e1 = true) (h2 : fits 0 e2 = true) (h : rExpr e1 = rExpr e2) :
    eraseE e1 = eraseE e2 := by
  have ht : followA (tk (kw .EOF)).tt = true := by decide
  obtain ⟨f1, c1⟩ := assignment_complete e1 h1 (tk (kw .EOF)) [] ht
  obtain ⟨f2, c2⟩ := assignment_complete e2 h2 (tk (kw .EOF)) [] ht
  have htoks : toks e1 = toks e2 := by unfold toks; rw [h]
  have a := c1 (max f1 f2) (by omega)
  have b := c2 (max f1 f2) (by omega)
  rw [htoks, b] at a
  injection a with a1 _
  exact a1.symm

/-! ### explicit parentheses -/

theorem levelOf_lt {op : TT} {j : Nat} (h : levelOf op = some j) : j < nLevels := (levelOf_mem h).1

mutual
theorem fits_paren : ∀ e : Expr, opsOk e = true → fits 0 (paren e) = true
  | .literal _ _, _ => by simp [paren, fits]
  | .ident _ _, _ => by simp [paren, fits]
  | .grouping e _, h => by simp only [opsOk] at h; simp [paren, fits, fits_paren e h]
  | .unary op _ e, h => by
    simp only [opsOk, Bool.and_eq_true] at h
    have hm : op ∈ Expect.unaryOps := by simpa using h.1
    simp [paren, fits, hm, fits_paren e h.2]
  | .binary l op _ r, h => by
    simp only [opsOk, Bool.and_eq_true] at h
    cases hj : levelOf op with
    | none => simp [hj] at h
    | some j =>
      have hlt := levelOf_lt hj
      have hn : nLev = nLevels := rfl
      simp only [hj, beq_iff_eq] at h
      simp only [paren, fits, hj, h.1.1, fits_paren l h.1.2, fits_paren r h.2, Bool.and_eq_true, decide_eq_true_eq, beq_iff_eq, and_true]
      omega
  | .logical l op r, h => by
    simp only [opsOk, Bool.and_eq_true] at h
    cases hj : levelOf op with
    | none => simp [hj] at h
    | some j =>
      have hlt := levelOf_lt hj
      have hn : nLev = nLevels := rfl
      simp only [hj, beq_iff_eq] at h
      simp only [paren, fits, hj, h.1.1, fits_paren l h.1.2, fits_paren r h.2, Bool.and_eq_true, decide_eq_true_eq, beq_iff_eq, and_true]
      omega
  | .call c _ args, h => by
    simp only [opsOk, Bool.and_eq_true] at h
    simp [paren, fits, fits_paren c h.1, fitsAll_paren args h.2]
  | .arrayLit es, h => by
    simp only [opsOk] at h
    simp [paren, fits, fitsAll_paren es h]
  | .objectLit ps tc, h => by
    simp only [opsOk, Bool.and_eq_true] at h
    have : (parenP ps).isEmpty = ps.isEmpty := by cases ps <;> simp [parenP]
    simp only [paren, fits, fitsProps_paren ps h.1, this, h.2, Bool.and_eq_true, decide_eq_true_eq, and_true]
    omega
  | .arrayAccess a i _, h => by
    simp only [opsOk, Bool.and_eq_true] at h
    simp [paren, fits, fits_paren a h.1, fits_paren i h.2]
  | .propAccess o _ _, h => by
    simp only [opsOk] at h
    simp [paren, fits, fits_paren o h]
  | .assign _ _ v _, h => by
    simp only [opsOk] at h
    simp [paren, fits, fits_paren v h]
  | .arrayAssign a i v _, h => by
    simp only [opsOk, Bool.and_eq_true] at h
    simp [paren, fits, fits_paren a h.1.1, fits_paren i h.1.2, fits_paren v h.2]
  | .propAssign o _ v _, h => by
    simp only [opsOk, Bool.and_eq_true] at h
    simp [paren, fits, fits_paren o h.1, fits_paren v h.2]
theorem fitsAll_paren : ∀ es : List Expr, opsOkL es = true → fitsAll (parenL es) = true
  | [], _ => by simp [parenL, fitsAll]
  | e :: es, h => by
    simp only [opsOkL, Bool.and_eq_true] at h
    simp [parenL, fitsAll, fits_paren e h.1, fitsAll_paren es h.2]
theorem fitsProps_paren : ∀ ps : List (Name × Expr), opsOkP ps = true → fitsProps (parenP ps) = true
  | [], _ => by simp [parenP, fitsProps]
  | (_, e) :: ps, h => by
    simp only [opsOkP, Bool.and_eq_true] at h
    simp [parenP, fitsProps, fits_paren e h.1, fitsProps_paren ps h.2]
end

mutual
theorem strip_paren : ∀ e : Expr, strip (paren e) = strip e
  | .literal _ _ => rfl
  | .ident _ _ => rfl
  | .grouping e _ => by simp [paren, strip, strip_paren e]
  | .unary _ _ e => by simp [paren, strip, strip_paren e]
  | .binary l _ _ r => by simp [paren, strip, strip_paren l, strip_paren r]
  | .logical l _ r => by simp [paren, strip, strip_paren l, strip_paren r]
  | .call c _ args => by simp [paren, strip, strip_paren c, stripL_paren args]
  | .arrayLit es => by simp [paren, strip, stripL_paren es]
  | .objectLit ps _ => by simp [paren, strip, stripP_paren ps]
  | .arrayAccess a i _ => by simp [paren, strip, strip_paren a, strip_paren i]
  | .propAccess o _ _ => by simp [paren, strip, strip_paren o]
  | .assign _ _ v _ => by simp [paren, strip, strip_paren v]
  | .arrayAssign a i v _ => by simp [paren, strip, strip_paren a, strip_paren i, strip_paren v]
  | .propAssign o _ v _ => by simp [paren, strip, strip_paren o, strip_paren v]
theorem stripL_paren : ∀ es : List Expr, stripL (parenL es) = stripL es
  | [] => rfl
  | e :: es => by simp [parenL, stripL, strip_paren e, stripL_paren es]
theorem stripP_paren : ∀ ps : List (Name × Expr), stripP (parenP ps) = stripP ps
  | [] => rfl
  | (_, e) :: ps => by simp [parenP, stripP, strip_paren e, stripP_paren ps]
end

/-- **writing a tree out with explicit parentheses and parsing it gives the same tree back**: for any
    tree whose operators are operators of the language, the parser accepts the fully parenthesised
    rendering and returns exactly the parenthesised tree (line fields forgotten), which is the
    original tree once the `Grouping` nodes are removed -/
theorem paren_roundtrip (e : Expr) (h : opsOk e = true) (t : Token) (rest : List Token) (ht : followA t.tt = true) :
    (∃ f0, ∀ f, f0 ≤ f → assignment f (toks (paren e) ++ t :: rest) = .ok (eraseE (paren e)) (t :: rest)) ∧
    strip (paren e) = strip e :=
  ⟨assignment_complete (paren e) (fits_paren e h) t rest ht, strip_paren e⟩

end Borno.Parser
