import BornoModel.Ast
/-!
# Parser — model of `parser/parser.go`

Recursive descent over the token list (`peek` = head of the list; an empty list is the Go
index-out-of-range panic).  The eleven left-associative binary levels are one function
`binLevel k` driven by `Expect.ladder`.  All functions recurse on fuel, data in nested matches.
-/
namespace Borno.Parser
open Borno

/-- result of an expression-level parse -/
inductive PR (α : Type)
  | ok (a : α) (rest : List Token)
  | err (d : Diag)
  | abn (a : Abn)
  deriving Repr, Inhabited

/-- result of a statement-level parse; `ds` = diagnostics in order (lenient `consume`s report and go on) -/
inductive SR (α : Type)
  | ok (a : α) (rest : List Token) (ds : List Diag)
  | err (ds : List Diag)
  | abn (a : Abn)
  deriving Repr, Inhabited

def errAt (t : Token) (msg : List Char) : Diag :=
  .static t.line (if t.tt = .EOF then " at end".toList else " at '".toList ++ t.lexeme ++ ['\'']) msg

def litOf : Lit → LitVal
  | .none => .nil
  | .num x => .num x
  | .str s => .str s

def levelOps (k : Nat) : List TT :=
  match Expect.ladder[k]? with
  | some l => l.ops
  | none => []

def levelNode (k : Nat) : Expect.NodeKind :=
  match Expect.ladder[k]? with
  | some l => l.node
  | none => .binary

def mkBin (k : Nat) (l : Expr) (t : Token) (r : Expr) : Expr :=
  match levelNode k with
  | .logical => .logical l t.tt r
  | .binary => .binary l t.tt t.line r

def nLevels : Nat := Expect.ladder.length


/-! ### plumbing combinators -/

def PR.bind {α β : Type} (r : PR α) (k : α → List Token → PR β) : PR β :=
  match r with
  | .ok a rest => k a rest
  | .err d => .err d
  | .abn x => .abn x

/-- `p.peek()` with the remaining tokens; an exhausted token list is the Go index panic -/
def peekTok {α : Type} (ts : List Token) (k : Token → List Token → PR α) : PR α :=
  match ts with
  | [] => .abn .panic
  | t :: r => k t r

/-- `p.consume(tt, msg)` -/
def expectTok (tt : TT) (msg : String) (ts : List Token) : PR Token :=
  peekTok ts fun t r => if t.tt = tt then .ok t r else .err (errAt t msg.toList)

mutual

/-- `expression` = `assignment` -/
def assignment : Nat → List Token → PR Expr
  | 0, _ => .abn .fuel
  | f + 1, ts =>
    (binLevel f 0 ts).bind fun e r =>
      peekTok r fun t r1 =>
        if t.tt = .EQUAL then
          (assignment f r1).bind fun v r2 =>
            match e with
            | .ident n l => .ok (.assign n l v t.line) r2
            | .arrayAccess a i _ => .ok (.arrayAssign a i v t.line) r2
            | .propAccess o p _ => .ok (.propAssign o p v t.line) r2
            | _ => .err (errAt t "Invalid assignment target.".toList)
        else .ok e r

/-- level `k` of the ladder (`k = nLevels` is `unary`) -/
def binLevel : Nat → Nat → List Token → PR Expr
  | 0, _, _ => .abn .fuel
  | f + 1, k, ts =>
    if k < nLevels then (binLevel f (k + 1) ts).bind fun l r => binLoop f k l r
    else unary f ts

/-- `for p.match(ops…) { right := next(); expr = node(expr, op, right) }` -/
def binLoop : Nat → Nat → Expr → List Token → PR Expr
  | 0, _, _, _ => .abn .fuel
  | f + 1, k, l, ts =>
    peekTok ts fun t r =>
      if (levelOps k).contains t.tt then
        (binLevel f (k + 1) r).bind fun right r2 => binLoop f k (mkBin k l t right) r2
      else .ok l ts

def unary : Nat → List Token → PR Expr
  | 0, _ => .abn .fuel
  | f + 1, ts =>
    peekTok ts fun t r =>
      if Expect.unaryOps.contains t.tt then
        (unary f r).bind fun e r2 => .ok (.unary t.tt t.line e) r2
      else (primary f ts).bind fun e r2 => suffix f e r2

/-- the postfix loop of `call` -/
def suffix : Nat → Expr → List Token → PR Expr
  | 0, _, _ => .abn .fuel
  | f + 1, e, ts =>
    peekTok ts fun t r =>
      if t.tt = .LEFT_PAREN then
        peekTok r fun t2 r2 =>
          if t2.tt = .RIGHT_PAREN then suffix f (.call e t2.line []) r2
          else
            (exprList f r).bind fun args r3 =>
              (expectTok .RIGHT_PAREN "Expect ')' after arguments." r3).bind fun t3 r4 =>
                suffix f (.call e t3.line args) r4
      else if t.tt = .LEFT_BRACKET then
        (assignment f r).bind fun i r2 =>
          (expectTok .RIGHT_BRACKET "Expect ']' after array index." r2).bind fun t2 r3 =>
            suffix f (.arrayAccess e i t2.line) r3
      else if t.tt = .DOT then
        (expectTok .IDENTIFIER "Expect property name after '.'." r).bind fun t2 r2 =>
          suffix f (.propAccess e t2.lexeme t2.line) r2
      else .ok e ts

/-- `expression ("," expression)*` -/
def exprList : Nat → List Token → PR (List Expr)
  | 0, _ => .abn .fuel
  | f + 1, ts =>
    (assignment f ts).bind fun a r =>
      peekTok r fun t r2 =>
        if t.tt = .COMMA then (exprList f r2).bind fun rest r3 => .ok (a :: rest) r3
        else .ok [a] r

/-- the loop of `objectLiteral`; the flag tells whether a comma followed the last property -/
def objProps : Nat → List Token → PR (List (Name × Expr) × Bool)
  | 0, _ => .abn .fuel
  | f + 1, ts =>
    peekTok ts fun t r =>
      if t.tt = .RIGHT_BRACE || t.tt = .EOF then .ok ([], false) ts
      else
        (expectTok .IDENTIFIER "Expect property name. Must be a string." ts).bind fun _ _ =>
          (expectTok .COLON "Expect ':' after property name." r).bind fun _ r1 =>
            (assignment f r1).bind fun v r2 =>
              peekTok r2 fun t2 r3 =>
                if t2.tt = .COMMA then
                  (objProps f r3).bind fun ps r4 =>
                    .ok ((t.lexeme, v) :: ps.1, if ps.1.isEmpty then true else ps.2) r4
                else .ok ([(t.lexeme, v)], false) r2

def primary : Nat → List Token → PR Expr
  | 0, _ => .abn .fuel
  | f + 1, ts =>
    peekTok ts fun t r =>
      match t.tt with
      | .FALSE => .ok (.literal (.bool false) t.line) r
      | .TRUE => .ok (.literal (.bool true) t.line) r
      | .NIL => .ok (.literal .nil t.line) r
      | .NUMBER => .ok (.literal (litOf t.lit) t.line) r
      | .STRING => .ok (.literal (litOf t.lit) t.line) r
      | .IDENTIFIER => .ok (.ident t.lexeme t.line) r
      | .LEFT_PAREN =>
        (assignment f r).bind fun e r2 =>
          (expectTok .RIGHT_PAREN "Expect ')' after expression." r2).bind fun t2 r3 =>
            .ok (.grouping e t2.line) r3
      | .LEFT_BRACKET =>
        peekTok r fun t2 r2 =>
          if t2.tt = .RIGHT_BRACKET then .ok (.arrayLit []) r2
          else
            (exprList f r).bind fun es r3 =>
              (expectTok .RIGHT_BRACKET "Expect ']' after array elements." r3).bind fun _ r4 =>
                .ok (.arrayLit es) r4
      | .LEFT_BRACE =>
        (objProps f r).bind fun ps r2 =>
          (expectTok .RIGHT_BRACE "Expect '}' after object literal." r2).bind fun _ r3 =>
            .ok (.objectLit ps.1 ps.2) r3
      | _ => .err (errAt t "Unexpected token. Expect expression.".toList)

end

/-! ## statements -/

def SR.bind {α β : Type} (r : SR α) (k : α → List Token → SR β) : SR β :=
  match r with
  | .ok a rest ds =>
    (match k a rest with
     | .ok b r2 ds2 => .ok b r2 (ds ++ ds2)
     | .err ds2 => .err (ds ++ ds2)
     | .abn x => .abn x)
  | .err ds => .err ds
  | .abn x => .abn x

/-- an expression-level result used at statement level -/
def PR.toSR {α : Type} : PR α → SR α
  | .ok a r => .ok a r []
  | .err d => .err [d]
  | .abn x => .abn x

def peekTokS {α : Type} (ts : List Token) (k : Token → List Token → SR α) : SR α :=
  match ts with
  | [] => .abn .panic
  | t :: r => k t r

def isReserved (n : Name) : Bool := Expect.reserved.contains n

def reservedMsg (n : Name) (what : String) : List Char :=
  ['\''] ++ n ++ ("' is a reserved identifier and cannot be used as a " ++ what ++ " name.").toList

def isLiteralInit : Option Expr → Bool
  | some (.objectLit _ _) => true
  | some (.arrayLit _) => true
  | _ => false

/-- the loop of `varDeclaration` -/
def varDecls : Nat → Nat → List Token → PR (List VarDecl)
  | 0, _, _ => .abn .fuel
  | f + 1, initialLine, ts =>
    peekTok ts fun t r =>
      if t.tt ≠ .IDENTIFIER then .err (errAt t "Expect variable name.".toList)
      else if isReserved t.lexeme then .err (errAt t (reservedMsg t.lexeme "variable"))
      else
        -- optional initializer
        (peekTok r fun e r1 =>
          if e.tt = .EQUAL then (assignment f r1).bind fun v r2 => .ok (some v) r2
          else .ok none r).bind fun init r2 =>
        peekTok r2 fun p r3 =>
          if !isLiteralInit init && p.line ≠ initialLine then .err (errAt p "Expect ';' before newline.".toList)
          else if p.tt = .COMMA then
            (varDecls f initialLine r3).bind fun rest r4 => .ok (⟨t.lexeme, t.line, init⟩ :: rest) r4
          else .ok [⟨t.lexeme, t.line, init⟩] r2

/-- `varDeclaration` (after the `ধরি` token) -/
def varDeclaration (f : Nat) (ts : List Token) : SR Stmt :=
  peekTokS ts fun t0 _ =>
    ((varDecls f t0.line ts).bind fun ds r =>
      (expectTok .SEMICOLON "Expect ';' after variable declaration." r).bind fun _ r2 =>
        match ds with
        | [d] => .ok (.var d) r2
        | _ => .ok (.varList ds) r2).toSR

/-- lenient `p.consume(tt, msg)`: on a mismatch report and stay -/
def lenient (tt : TT) (msg : String) (ts : List Token) : SR Unit :=
  peekTokS ts fun t r => if t.tt = tt then .ok () r [] else .ok () ts [errAt t msg.toList]

/-- `expressionStatement` / `printStatement` -/
def exprThenSemi (f : Nat) (mk : Expr → Stmt) (ts : List Token) : SR Stmt :=
  (assignment f ts).toSR.bind fun e r =>
    (lenient .SEMICOLON "Expect ';' after value." r).bind fun _ r2 => .ok (mk e) r2 []

/-- parameter list loop of `function` -/
def params : Nat → Nat → List Token → PR (List Name)
  | 0, _, _ => .abn .fuel
  | f + 1, n, ts =>
    peekTok ts fun t r =>
      if n ≥ Expect.maxParams then .err (errAt t "Can't have more than 255 parameters.".toList)
      else if t.tt ≠ .IDENTIFIER then .err (errAt t "Expect parameter name.".toList)
      else
        peekTok r fun c r2 =>
          if c.tt = .COMMA then (params f (n + 1) r2).bind fun rest r3 => .ok (t.lexeme :: rest) r3
          else .ok [t.lexeme] r

/-- the initializer clause of `forStatement`: `;`, a `ধরি` declaration, or an expression statement -/
def forInit (f : Nat) (r1 : List Token) : SR (Option Stmt) :=
  peekTokS r1 fun i r2 =>
    if i.tt = .SEMICOLON then .ok none r2 []
    else if i.tt = .VAR then (varDeclaration f r2).bind fun s r3 => .ok (some s) r3 []
    else (exprThenSemi f .expr r1).bind fun s r3 => .ok (some s) r3 []

/-- an optional expression: absent iff the next token is `stop` -/
def optExprUntil (stop : TT) (f : Nat) (r : List Token) : PR (Option Expr) :=
  peekTok r fun c _ =>
    if c.tt = stop then .ok none r
    else (assignment f r).bind fun e r' => .ok (some e) r'

/-- condition `;` increment `)` of `forStatement` -/
def forHeader (f : Nat) (r3 : List Token) : PR (Option Expr × Option Expr) :=
  (optExprUntil .SEMICOLON f r3).bind fun cond r4 =>
    (expectTok .SEMICOLON "Expect ';' after loop condition." r4).bind fun _ r5 =>
      (optExprUntil .RIGHT_PAREN f r5).bind fun incr r6 =>
        (expectTok .RIGHT_PAREN "Expect ')' after for clauses." r6).bind fun _ r7 =>
          .ok (cond, incr) r7

mutual

def declaration : Nat → List Token → SR Stmt
  | 0, _ => .abn .fuel
  | f + 1, ts =>
    peekTokS ts fun t r =>
      if t.tt = .FUN then function f r
      else if t.tt = .VAR then varDeclaration f r
      else statement f ts

def function : Nat → List Token → SR Stmt
  | 0, _ => .abn .fuel
  | f + 1, ts =>
    peekTokS ts fun t r =>
      if t.tt ≠ .IDENTIFIER then .err [errAt t "Expect function name.".toList]
      else if isReserved t.lexeme then .err [errAt t (reservedMsg t.lexeme "function")]
      else
        ((expectTok .LEFT_PAREN "Expect '(' after function name." r).bind fun _ r1 =>
          (peekTok r1 fun p _ => if p.tt = .RIGHT_PAREN then .ok [] r1 else params f 0 r1).bind fun names r2 =>
            (expectTok .RIGHT_PAREN "Expect ')' after parameters." r2).bind fun _ r3 =>
              (expectTok .LEFT_BRACE "Expect '{' before function body." r3).bind fun _ r4 =>
                .ok names r4).toSR.bind fun names r4 =>
          (block f r4).bind fun body r5 => .ok (.funS t.lexeme names body) r5 []

/-- `block` (after `{`): declarations up to `}` or EOF, then a lenient `}` -/
def block : Nat → List Token → SR (List Stmt)
  | 0, _ => .abn .fuel
  | f + 1, ts =>
    peekTokS ts fun t r =>
      if t.tt = .RIGHT_BRACE then .ok [] r []
      else if t.tt = .EOF then .ok [] ts [errAt t "Expect '}' after block.".toList]
      else
        (declaration f ts).bind fun s r1 =>
          (block f r1).bind fun ss r2 => .ok (s :: ss) r2 []

def statement : Nat → List Token → SR Stmt
  | 0, _ => .abn .fuel
  | f + 1, ts =>
    peekTokS ts fun t r =>
      match t.tt with
      | .IF =>
        ((expectTok .LEFT_PAREN "Expect '(' after 'if'." r).bind fun _ r1 =>
          (assignment f r1).bind fun c r2 =>
            (expectTok .RIGHT_PAREN "Expect ')' after if condition." r2).bind fun _ r3 => .ok c r3).toSR.bind fun c r3 =>
          (statement f r3).bind fun th r4 =>
            peekTokS r4 fun e r5 =>
              if e.tt = .ELSE then (statement f r5).bind fun el r6 => .ok (.ifS c th (some el)) r6 []
              else .ok (.ifS c th none) r4 []
      | .WHILE =>
        ((expectTok .LEFT_PAREN "Expect '(' after 'while'." r).bind fun _ r1 =>
          (assignment f r1).bind fun c r2 =>
            (expectTok .RIGHT_PAREN "Expect ')' after condition." r2).bind fun _ r3 => .ok c r3).toSR.bind fun c r3 =>
          (statement f r3).bind fun b r4 => .ok (.whileS c b) r4 []
      | .FOR =>
        (expectTok .LEFT_PAREN "Expect '(' after 'for'." r).toSR.bind fun _ r1 =>
          (forInit f r1).bind fun init r3 =>
            (forHeader f r3).toSR.bind fun ci r7 =>
              (statement f r7).bind fun body r8 =>
                .ok (.forS init ci.1 ci.2 body) r8 []
      | .PRINT => exprThenSemi f .print r
      | .RETURN =>
        (peekTok r fun s r1 =>
          if s.tt = .SEMICOLON then .ok (.returnS t.line none) r1
          else
            (assignment f r).bind fun v r2 =>
              (expectTok .SEMICOLON "Expect ';' after return value." r2).bind fun _ r3 =>
                .ok (.returnS t.line (some v)) r3).toSR
      | .BREAK =>
        ((expectTok .SEMICOLON "Expected ; after break." r).bind fun s r1 => .ok (.breakS s.line) r1).toSR
      | .CONTINUE =>
        ((expectTok .SEMICOLON "Expected ; after continue." r).bind fun s r1 => .ok (.continueS s.line) r1).toSR
      | .LEFT_BRACE => (block f r).bind fun ss r1 => .ok (.block ss) r1 []
      | _ => exprThenSemi f .expr ts

end

/-- `Parse`: declarations until EOF; the first error return aborts -/
def program : Nat → List Token → SR (List Stmt)
  | 0, _ => .abn .fuel
  | f + 1, ts =>
    peekTokS ts fun t _ =>
      if t.tt = .EOF then .ok [] ts []
      else
        (declaration f ts).bind fun s r =>
          (program f r).bind fun ss r2 => .ok (s :: ss) r2 []

def fuelFor (ts : List Token) : Nat := 40 * (ts.length + 2)

def parse (ts : List Token) : SR (List Stmt) := program (fuelFor ts) ts

end Borno.Parser
