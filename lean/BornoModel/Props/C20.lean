import BornoModel.Cli
/-! # C20 — in the REPL a failed line never affects later lines; expression values echo -/
namespace Borno.Props.C20
open Borno Cli

theorem replRespond_eq (P : Platform) (fuel : Nat) : replRespond P fuel = fun l => run P fuel l true [] := rfl

/-- the session's stdout is, line by line, a prompt followed by that line's own response —
    a function of the line alone (fresh interpreter, fresh flags), whatever came before it -/
theorem repl_lines_independent (P : Platform) (fuel : Nat) (inp : List Char) :
    (repl P fuel inp).1 =
      (scanLines inp).flatMap (fun l => promptText ++ (run P fuel l true []).out) ++ promptText := by
  simp [repl, replRespond_eq, List.flatMap_def, List.foldl_map]

/-- stderr likewise is the concatenation of the per-line diagnostics -/
theorem repl_stderr_per_line (P : Platform) (fuel : Nat) (inp : List Char) :
    (repl P fuel inp).2 = (scanLines inp).flatMap (fun l => (run P fuel l true []).stderr) := by
  simp [repl, replRespond_eq, List.flatMap_def, List.foldl_map]

/-- a line with a lexical or syntax error produces no output at all (and runs nothing) -/
theorem failed_line_silent (P : Platform) (fuel : Nat) (line : List Char)
    (h : (frontEnd P.lm line).diags ≠ []) (hab : (frontEnd P.lm line).abnormal = none) :
    (run P fuel line true []).out = [] := by
  simp only [run, hab]
  have : (frontEnd P.lm line).diags.isEmpty = false := by
    cases hd : (frontEnd P.lm line).diags with
    | nil => exact absurd hd h
    | cons _ _ => rfl
  simp [this]

/-- interactive mode is entered with no arguments and always ends with status 0 -/
theorem eof_status0 (P : Platform) (fuel : Nat) (file : Option (List Char)) (stdin : List Char) :
    (main P fuel [] file stdin).status = 0 := by simp [main, mode]

/-- a bare expression statement echoes its value in interactive mode (and only there) -/
theorem expression_statement_echoed (P : Platform) (f : Nat) (e : Expr) (env : Nat) (σ σ1 : Store) (v : Val) (t : List Char)
    (h0 : σ.hadError = false) (he : evalE P f e env true σ = .ok (v, .none) σ1) (h1 : σ1.hadError = false)
    (ht : stringify σ1 (showFuel σ1) v = some t) :
    evalS P (f + 1) (.expr e) env true σ = .ok (v, .none) (σ1.print (t ++ ['\n'])) ∧
    (evalE P f e env false σ = .ok (v, .none) σ1 → evalS P (f + 1) (.expr e) env false σ = .ok (v, .none) σ1) := by
  constructor
  · rw [evalS]; simp only [guardErr, ER.seq, Res.bind, h0, he]; simp [guardErr, ER.seq, Res.bind, h1, ht]
  · intro he'; rw [evalS]; simp only [guardErr, ER.seq, Res.bind, h0, he']; simp

/-- the text of a session: each line followed by a newline -/
def sessionText (ls : List (List Char)) : List Char := ls.flatMap (· ++ ['\n'])

/-- a well-formed input line: no newline inside, no carriage return at its end -/
def PlainLine (l : List Char) : Prop := '\n' ∉ l ∧ l.getLast? ≠ some '\r'

theorem takeWhile_line (l rest : List Char) (h : '\n' ∉ l) :
    (l ++ '\n' :: rest).takeWhile (· ≠ '\n') = l ∧ (l ++ '\n' :: rest).dropWhile (· ≠ '\n') = '\n' :: rest := by
  induction l with
  | nil => simp
  | cons c l ih =>
    have hc : c ≠ '\n' := fun e => h (by simp [e])
    have hl : '\n' ∉ l := fun e => h (by simp [e])
    have hp : (decide (c ≠ '\n')) = true := by simp [hc]
    obtain ⟨i1, i2⟩ := ih hl
    constructor
    · show List.takeWhile _ (c :: (l ++ '\n' :: rest)) = c :: l
      rw [List.takeWhile_cons]; simp only [hp, if_true]; rw [i1]
    · show List.dropWhile _ (c :: (l ++ '\n' :: rest)) = '\n' :: rest
      rw [List.dropWhile_cons]; simp only [hp, if_true]; exact i2

theorem scanLines_go_session (ls : List (List Char)) (hl : ∀ l ∈ ls, PlainLine l) :
    ∀ f, (sessionText ls).length + 1 ≤ f → scanLines.go f (sessionText ls) = ls := by
  induction ls with
  | nil => intro f _; cases f <;> simp [sessionText, scanLines.go]
  | cons l ls ih =>
    intro f hf
    have hp := hl l (by simp)
    have hs : sessionText (l :: ls) = l ++ '\n' :: sessionText ls := by simp [sessionText]
    rw [hs] at hf ⊢
    cases f with
    | zero => simp at hf
    | succ f =>
      have hne : l ++ '\n' :: sessionText ls ≠ [] := by simp
      obtain ⟨ht, hd⟩ := takeWhile_line l (sessionText ls) hp.1
      have hrec := ih (fun l' h' => hl l' (by simp [h'])) f (by simp at hf; omega)
      cases hcase : l ++ '\n' :: sessionText ls with
      | nil => exact absurd hcase hne
      | cons c cs =>
        rw [scanLines.go]
        · rw [← hcase]
          simp only [ht, hd, hrec]
          simp [hp.2]
        · simp

/-- a session typed as lines is split into exactly those lines -/
theorem scanLines_session (ls : List (List Char)) (hl : ∀ l ∈ ls, PlainLine l) :
    scanLines (sessionText ls) = ls := scanLines_go_session ls hl _ (Nat.le_refl _)

/-- **C20, whole sessions.**  Whatever lines were typed — failing or not —, the session's stdout is the
    prompt followed by each line's own response, in order, then the final prompt; the response
    to a line is what the same line answers as the only line of a fresh session. -/
theorem session_stdout (P : Platform) (fuel : Nat) (ls : List (List Char)) (hl : ∀ l ∈ ls, PlainLine l) :
    (repl P fuel (sessionText ls)).1 = ls.flatMap (fun l => promptText ++ (run P fuel l true []).out) ++ promptText := by
  rw [repl_lines_independent, scanLines_session ls hl]

theorem session_stderr (P : Platform) (fuel : Nat) (ls : List (List Char)) (hl : ∀ l ∈ ls, PlainLine l) :
    (repl P fuel (sessionText ls)).2 = ls.flatMap (fun l => (run P fuel l true []).stderr) := by
  rw [repl_stderr_per_line, scanLines_session ls hl]

/-- a probe line after any history answers exactly as in a fresh session:
    the session's stdout is the history's stdout (without its final prompt) followed by the fresh session's stdout -/
theorem later_line_answers_as_fresh (P : Platform) (fuel : Nat) (hist : List (List Char)) (probe : List Char)
    (hh : ∀ l ∈ hist, PlainLine l) (hp : PlainLine probe) :
    (repl P fuel (sessionText (hist ++ [probe]))).1 =
      hist.flatMap (fun l => promptText ++ (run P fuel l true []).out) ++ (repl P fuel (sessionText [probe])).1 ∧
    (repl P fuel (sessionText (hist ++ [probe]))).2 =
      (repl P fuel (sessionText hist)).2 ++ (repl P fuel (sessionText [probe])).2 := by
  have h1 : ∀ l ∈ hist ++ [probe], PlainLine l := by
    intro l hl; rcases List.mem_append.1 hl with h | h
    · exact hh l h
    · simp at h; subst h; exact hp
  have h2 : ∀ l ∈ [probe], PlainLine l := by intro l hl; simp at hl; subst hl; exact hp
  rw [session_stdout P fuel _ h1, session_stdout P fuel _ h2, session_stderr P fuel _ h1, session_stderr P fuel _ hh,
    session_stderr P fuel _ h2]
  simp [List.flatMap_append, List.append_assoc]

/-- the premises are satisfiable: a failing line followed by a probe -/
example : PlainLine "1 +;".toList ∧ PlainLine "1 + 2;".toList := by
  constructor <;> (constructor <;> decide)

end Borno.Props.C20
