# Differential, coverage-guided search for a failing input AFTER a source fingerprint has changed: Go's native fuzzer
# runs the current front end (/repo) and the blessed one (blessed/borno: the sources the fingerprints were blessed for,
# under another module path) in one process on mutated inputs, guided by coverage of both — so new code in /repo is
# what it is drawn to.  Whatever text it finds is handed back to ./check, which replays it on implementation and model:
# only a disagreement with the MODEL is reported.  A search aid, never a verdict (and never run while all obligations hold).
import os, re, subprocess, binascii
from .core import ROOT, KW, NAT, hx
from .build import GOENV

DIR = os.path.join(ROOT, 'harness', 'difffuzz')

def shared_seeds():
    from .words import WORDS
    from .camp_front import keyword_lookalikes, FOREIGN_NUMERALS
    from .camp_reexec import reexec_programs
    from .camp_twins import twin_programs
    seeds = [s for _, s in reexec_programs('quick')][::7] + [s for _, s in twin_programs('quick')][::15]
    seeds += [' '.join(WORDS[i:i + 20]) for i in range(0, len(WORDS), 20)]
    seeds += [' '.join(NAT.values()), ' '.join(KW.values()), ' '.join(keyword_lookalikes()[:40]), ' '.join(FOREIGN_NUMERALS),
              '০১২৩৪৫৬৭৮৯ 0123456789 1.5 ১.৫ [১০, ২০০] f(৫, ১০০)', 'a.b.c(1)(2)[0] = x ** 2 ** -y;', '/* c */ // d\n"str\ning" @ # $',
              f'{KW["var"]} a = [1],\n  b = {{k: 2}},\n  a = [3];\n', f'o.{NAT["append"]}(x); o.{NAT["len"]}; {{{NAT["keys"]}: 1}};']
    return seeds

def search_front(case_sources, seconds=60):
    """returns the texts on which current and blessed front ends differ (usually zero or one)"""
    if not os.path.isdir(os.path.join(ROOT, 'blessed', 'borno')):
        return [], 'no blessed snapshot'
    os.makedirs(os.path.join(DIR, 'testdata'), exist_ok=True)
    seeds = shared_seeds() + sorted({s for s in case_sources if isinstance(s, str) and 0 < len(s) < 1500}, key=len)[:3000:3]
    with open(os.path.join(DIR, 'testdata', 'seeds.hex'), 'w') as f:
        f.write('\n'.join(hx(s) for s in seeds) + '\n')
    import shutil
    shutil.rmtree(os.path.join(DIR, 'testdata', 'fuzz'), ignore_errors=True)
    shutil.copyfile('/repo/go.sum', os.path.join(DIR, 'go.sum'))
    env = dict(GOENV, GOFLAGS='-mod=mod')
    try:
        p = subprocess.run(['go', 'test', '-run', 'FuzzFront', '-fuzz=FuzzFront', f'-fuzztime={seconds}s', '.'], cwd=DIR, env=env,
                           capture_output=True, timeout=seconds + 300)
    except subprocess.TimeoutExpired:
        return [], 'fuzzer timed out'
    out = (p.stdout + p.stderr).decode('utf-8', 'replace')
    found = []
    for m in re.finditer(r'DIFF ([0-9a-f]*)', out):
        try:
            found.append(binascii.unhexlify(m.group(1)).decode('utf-8', 'replace'))
        except Exception:
            pass
    shutil.rmtree(os.path.join(DIR, 'testdata', 'fuzz'), ignore_errors=True)
    note = 'ok' if p.returncode == 0 or found else ('did not build or run: ' + out[-300:])
    execs = re.findall(r'execs: (\d+)', out)
    return found, f'{note}; {execs[-1] if execs else 0} executions in {seconds}s'
