import BornoModel.F64
/-! # Tokens (mirrors `token/token.go`) -/
namespace Borno

abbrev Name := List Char

/-- token types, in the order of the Go `iota` block (the driver prints the index) -/
inductive TT
  | LEFT_PAREN | RIGHT_PAREN | LEFT_BRACE | RIGHT_BRACE | LEFT_BRACKET | RIGHT_BRACKET
  | COMMA | DOT | MINUS | PLUS | SEMICOLON | COLON | SLASH | STAR | AND | OR | XOR | POWER | NOT | MODULO
  | BANG | BANG_EQUAL | EQUAL | EQUAL_EQUAL | GREATER | GREATER_EQUAL | LEFT_SHIFT | LESS | LESS_EQUAL | RIGHT_SHIFT
  | IDENTIFIER | STRING | NUMBER
  | BREAK | CONTINUE | LOGICAL_AND | CLASS | ELSE | FALSE | FUN | FOR | IF | NIL | LOGICAL_OR
  | PRINT | RETURN | TRUE | VAR | WHILE
  | EOF
  deriving DecidableEq, Repr, Inhabited

def TT.all : List TT :=
  [.LEFT_PAREN, .RIGHT_PAREN, .LEFT_BRACE, .RIGHT_BRACE, .LEFT_BRACKET, .RIGHT_BRACKET,
   .COMMA, .DOT, .MINUS, .PLUS, .SEMICOLON, .COLON, .SLASH, .STAR, .AND, .OR, .XOR, .POWER, .NOT, .MODULO,
   .BANG, .BANG_EQUAL, .EQUAL, .EQUAL_EQUAL, .GREATER, .GREATER_EQUAL, .LEFT_SHIFT, .LESS, .LESS_EQUAL, .RIGHT_SHIFT,
   .IDENTIFIER, .STRING, .NUMBER,
   .BREAK, .CONTINUE, .LOGICAL_AND, .CLASS, .ELSE, .FALSE, .FUN, .FOR, .IF, .NIL, .LOGICAL_OR,
   .PRINT, .RETURN, .TRUE, .VAR, .WHILE, .EOF]

def TT.names : List String :=
  ["LEFT_PAREN", "RIGHT_PAREN", "LEFT_BRACE", "RIGHT_BRACE", "LEFT_BRACKET", "RIGHT_BRACKET",
   "COMMA", "DOT", "MINUS", "PLUS", "SEMICOLON", "COLON", "SLASH", "STAR", "AND", "OR", "XOR", "POWER", "NOT", "MODULO",
   "BANG", "BANG_EQUAL", "EQUAL", "EQUAL_EQUAL", "GREATER", "GREATER_EQUAL", "LEFT_SHIFT", "LESS", "LESS_EQUAL", "RIGHT_SHIFT",
   "IDENTIFIER", "STRING", "NUMBER",
   "BREAK", "CONTINUE", "LOGICAL_AND", "CLASS", "ELSE", "FALSE", "FUN", "FOR", "IF", "NIL", "LOGICAL_OR",
   "PRINT", "RETURN", "TRUE", "VAR", "WHILE", "EOF"]

def TT.idx (t : TT) : Nat := (TT.all.idxOf t)

def TT.ofName? (s : String) : Option TT :=
  match TT.names.idxOf? s with
  | some i => TT.all[i]?
  | none => none

/-- literal payload of a token -/
inductive Lit
  | none
  | num (x : F64)
  | str (s : List Char)
  deriving DecidableEq, Repr, Inhabited

structure Token where
  tt : TT
  lexeme : List Char
  lit : Lit := .none
  line : Nat
  deriving DecidableEq, Repr, Inhabited

end Borno
