import BornoModel.Parser
/-!
# Grammar — the published grammar as a renderer of trees

`rProg p` writes a tree out as the token sequence the grammar of `grammer.txt` derives for it (no
parentheses are added: a `Grouping` node prints its own).  Tokens are compared through `rtok`:
type, the lexeme of identifiers, the value of literals — spelling variants (`&&`/`এবং`), positions
and lines are not part of the grammar.
-/
namespace Borno.Grammar
open Borno

structure RTok where
  tt : TT
  name : Name
  lit : Lit
  deriving DecidableEq, Repr

def rtok (t : Token) : RTok :=
  ⟨t.tt, if t.tt = .IDENTIFIER then t.lexeme else [], if t.tt = .NUMBER ∨ t.tt = .STRING then t.lit else .none⟩

def kw (tt : TT) : RTok := ⟨tt, [], .none⟩
def idt (n : Name) : RTok := ⟨.IDENTIFIER, n, .none⟩

def rLit : LitVal → RTok
  | .nil => kw .NIL
  | .bool true => kw .TRUE
  | .bool false => kw .FALSE
  | .num x => ⟨.NUMBER, [], .num x⟩
  | .str s => ⟨.STRING, [], .str s⟩

mutual
def rExpr : Expr → List RTok
  | .literal v _ => [rLit v]
  | .ident n _ => [idt n]
  | .grouping e _ => kw .LEFT_PAREN :: rExpr e ++ [kw .RIGHT_PAREN]
  | .unary op _ e => kw op :: rExpr e
  | .binary l op _ r => rExpr l ++ kw op :: rExpr r
  | .logical l op r => rExpr l ++ kw op :: rExpr r
  | .call c _ args => rExpr c ++ kw .LEFT_PAREN :: rList args ++ [kw .RIGHT_PAREN]
  | .arrayLit es => kw .LEFT_BRACKET :: rList es ++ [kw .RIGHT_BRACKET]
  | .objectLit ps tc => kw .LEFT_BRACE :: rProps ps ++ (if tc then [kw .COMMA] else []) ++ [kw .RIGHT_BRACE]
  | .arrayAccess a i _ => rExpr a ++ kw .LEFT_BRACKET :: rExpr i ++ [kw .RIGHT_BRACKET]
  | .propAccess o p _ => rExpr o ++ [kw .DOT, idt p]
  | .assign n _ v _ => idt n :: kw .EQUAL :: rExpr v
  | .arrayAssign a i v _ => rExpr a ++ kw .LEFT_BRACKET :: rExpr i ++ kw .RIGHT_BRACKET :: kw .EQUAL :: rExpr v
  | .propAssign o p v _ => rExpr o ++ kw .DOT :: idt p :: kw .EQUAL :: rExpr v
def rList : List Expr → List RTok
  | [] => []
  | e :: es => rExpr e ++ (match es with
                           | [] => []
                           | _ :: _ => kw .COMMA :: rList es)
def rProps : List (Name × Expr) → List RTok
  | [] => []
  | (k, e) :: ps => idt k :: kw .COLON :: rExpr e ++ (match ps with
                                                      | [] => []
                                                      | _ :: _ => kw .COMMA :: rProps ps)
end

/-- an optional expression (loop condition, increment, return value) -/
def rOptE : Option Expr → List RTok
  | none => []
  | some e => rExpr e

def rInit : Option Expr → List RTok
  | none => []
  | some e => kw .EQUAL :: rExpr e

def rDecl (d : VarDecl) : List RTok := idt d.name :: rInit d.init

def rDecls : List VarDecl → List RTok
  | [] => []
  | d :: ds => rDecl d ++ (match ds with
                           | [] => []
                           | _ :: _ => kw .COMMA :: rDecls ds)

def rNames : List Name → List RTok
  | [] => []
  | n :: ns => idt n :: (match ns with
                         | [] => []
                         | _ :: _ => kw .COMMA :: rNames ns)

mutual
def rStmt : Stmt → List RTok
  | .expr e => rExpr e ++ [kw .SEMICOLON]
  | .print e => kw .PRINT :: rExpr e ++ [kw .SEMICOLON]
  | .var d => kw .VAR :: rDecl d ++ [kw .SEMICOLON]
  | .varList ds => kw .VAR :: rDecls ds ++ [kw .SEMICOLON]
  | .block ss => kw .LEFT_BRACE :: rStmts ss ++ [kw .RIGHT_BRACE]
  | .ifS c t e => kw .IF :: kw .LEFT_PAREN :: rExpr c ++ kw .RIGHT_PAREN :: rStmt t ++ rElse e
  | .whileS c b => kw .WHILE :: kw .LEFT_PAREN :: rExpr c ++ kw .RIGHT_PAREN :: rStmt b
  | .forS init c inc b =>
    kw .FOR :: kw .LEFT_PAREN :: rForInit init ++ rOptE c ++ kw .SEMICOLON :: rOptE inc ++ kw .RIGHT_PAREN :: rStmt b
  | .breakS _ => [kw .BREAK, kw .SEMICOLON]
  | .continueS _ => [kw .CONTINUE, kw .SEMICOLON]
  | .returnS _ v => kw .RETURN :: rOptE v ++ [kw .SEMICOLON]
  | .funS name ps body =>
    kw .FUN :: idt name :: kw .LEFT_PAREN :: rNames ps ++ kw .RIGHT_PAREN :: kw .LEFT_BRACE :: rStmts body ++ [kw .RIGHT_BRACE]
def rStmts : List Stmt → List RTok
  | [] => []
  | s :: ss => rStmt s ++ rStmts ss
/-- the initializer clause of a `ফর` header (a statement with its own `;`, or a bare `;`) -/
def rForInit : Option Stmt → List RTok
  | none => [kw .SEMICOLON]
  | some i => rStmt i
def rElse : Option Stmt → List RTok
  | none => []
  | some el => kw .ELSE :: rStmt el
end

def rProg (p : List Stmt) : List RTok := rStmts p ++ [kw .EOF]

/-! ## the ladder as a well-formedness predicate on trees

Positions in the grammar are numbered: 0 = `assignment`, `j + 1` = the ladder level `j` of
`Expect.ladder` (`logicalOR` … `power`), `nLevels + 1` = `unary`, `nLevels + 2` = `call` / `primary`.
`fits k e` says: the tree `e` may stand, unparenthesised, where the grammar expects position `k`. -/

abbrev nLev : Nat := Parser.nLevels

/-- the ladder level an operator belongs to -/
def levelOf (op : TT) : Option Nat := Expect.ladder.findIdx? (fun l => l.ops.contains op)

mutual
def fits : Nat → Expr → Bool
  | k, .assign _ _ v _ => k == 0 && fits 0 v
  | k, .arrayAssign a i v _ => k == 0 && fits (nLev + 2) a && fits 0 i && fits 0 v
  | k, .propAssign o _ v _ => k == 0 && fits (nLev + 2) o && fits 0 v
  | k, .binary l op _ r =>
    (match levelOf op with
     | some j => decide (k ≤ j + 1) && (Parser.levelNode j == .binary) && fits (j + 1) l && fits (j + 2) r
     | none => false)
  | k, .logical l op r =>
    (match levelOf op with
     | some j => decide (k ≤ j + 1) && (Parser.levelNode j == .logical) && fits (j + 1) l && fits (j + 2) r
     | none => false)
  | k, .unary op _ e => decide (k ≤ nLev + 1) && Expect.unaryOps.contains op && fits (nLev + 1) e
  | k, .literal _ _ => decide (k ≤ nLev + 2)
  | k, .ident _ _ => decide (k ≤ nLev + 2)
  | k, .grouping e _ => decide (k ≤ nLev + 2) && fits 0 e
  | k, .call c _ args => decide (k ≤ nLev + 2) && fits (nLev + 2) c && fitsAll args
  | k, .arrayLit es => decide (k ≤ nLev + 2) && fitsAll es
  | k, .objectLit ps tc => decide (k ≤ nLev + 2) && fitsProps ps && (!ps.isEmpty || !tc)
  | k, .arrayAccess a i _ => decide (k ≤ nLev + 2) && fits (nLev + 2) a && fits 0 i
  | k, .propAccess o _ _ => decide (k ≤ nLev + 2) && fits (nLev + 2) o
def fitsAll : List Expr → Bool
  | [] => true
  | e :: es => fits 0 e && fitsAll es
def fitsProps : List (Name × Expr) → Bool
  | [] => true
  | (_, e) :: ps => fits 0 e && fitsProps ps
end

/-! ## writing a tree out as tokens, and forgetting line numbers

`toks e` is the rendering of `e` as actual tokens (all on line 0); `eraseE e` is `e` with every
line field set to 0.  Completeness of the parser (`Lemmas/ParseComplete`) says: parsing `toks e`
gives `eraseE e` back, for every tree that fits the ladder. -/

def tk (x : RTok) : Token := ⟨x.tt, x.name, x.lit, 0⟩

def toks (e : Expr) : List Token := (rExpr e).map tk

def eraseLit : LitVal → LitVal := id

mutual
def eraseE : Expr → Expr
  | .literal v _ => .literal v 0
  | .ident n _ => .ident n 0
  | .grouping e _ => .grouping (eraseE e) 0
  | .unary op _ e => .unary op 0 (eraseE e)
  | .binary l op _ r => .binary (eraseE l) op 0 (eraseE r)
  | .logical l op r => .logical (eraseE l) op (eraseE r)
  | .call c _ args => .call (eraseE c) 0 (eraseL args)
  | .arrayLit es => .arrayLit (eraseL es)
  | .objectLit ps tc => .objectLit (eraseP ps) tc
  | .arrayAccess a i _ => .arrayAccess (eraseE a) (eraseE i) 0
  | .propAccess o p _ => .propAccess (eraseE o) p 0
  | .assign n _ v _ => .assign n 0 (eraseE v) 0
  | .arrayAssign a i v _ => .arrayAssign (eraseE a) (eraseE i) (eraseE v) 0
  | .propAssign o p v _ => .propAssign (eraseE o) p (eraseE v) 0
def eraseL : List Expr → List Expr
  | [] => []
  | e :: es => eraseE e :: eraseL es
def eraseP : List (Name × Expr) → List (Name × Expr)
  | [] => []
  | (k, e) :: ps => (k, eraseE e) :: eraseP ps
end

/-! ## the dangling else as a well-formedness predicate on statement trees -/

mutual
/-- the statement ends in an `if` without `else`: an `else` token right after it would belong to that `if` -/
def openIf : Stmt → Bool
  | .ifS _ _ none => true
  | .ifS _ _ (some el) => openIf el
  | .whileS _ b => openIf b
  | .forS _ _ _ b => openIf b
  | _ => false
end

mutual
/-- everywhere in the tree, the then-branch of an `if … else` is closed (so the `else` could not have
    belonged to an inner `if`) -/
def elseOk : Stmt → Bool
  | .ifS _ th el => elseOk th && elseOkElse th el
  | .whileS _ b => elseOk b
  | .forS _ _ _ b => elseOk b
  | .block ss => elseOkAll ss
  | .funS _ _ body => elseOkAll body
  | _ => true
def elseOkAll : List Stmt → Bool
  | [] => true
  | s :: ss => elseOk s && elseOkAll ss
def elseOkElse (th : Stmt) : Option Stmt → Bool
  | none => true
  | some el => !openIf th && elseOk el
end

/-- the type of the first token of the rendering of a tree -/
def headTT : Expr → TT
  | .literal v _ => (rLit v).tt
  | .ident _ _ => .IDENTIFIER
  | .grouping _ _ => .LEFT_PAREN
  | .unary op _ _ => op
  | .binary l _ _ _ => headTT l
  | .logical l _ _ => headTT l
  | .call c _ _ => headTT c
  | .arrayLit _ => .LEFT_BRACKET
  | .objectLit _ _ => .LEFT_BRACE
  | .arrayAccess a _ _ => headTT a
  | .propAccess o _ _ => headTT o
  | .assign _ _ _ _ => .IDENTIFIER
  | .arrayAssign a _ _ _ => headTT a
  | .propAssign o _ _ _ => headTT o


/-! ## statements: rendering as tokens, forgetting lines, well-formedness

`wfS s` collects what the statement grammar demands of a tree beyond the shape of the type: every
expression fits the ladder; a `ধরি` with one name is a `var`, with several a `varList`; declared
variable and function names are not reserved; at most 255 parameters; the arms of `if` and the
bodies of loops are statements, not declarations; the then-branch of an `if … else` is closed; an
expression statement does not begin with `{` (that would be a block); the initializer of a `ফর`
is a `ধরি` or an expression statement. -/

def toksS (s : Stmt) : List Token := (rStmt s).map tk
def toksSs (ss : List Stmt) : List Token := (rStmts ss).map tk

def eraseOE : Option Expr → Option Expr
  | none => none
  | some e => some (eraseE e)

def eraseD (d : VarDecl) : VarDecl := ⟨d.name, 0, eraseOE d.init⟩

mutual
def eraseS : Stmt → Stmt
  | .expr e => .expr (eraseE e)
  | .print e => .print (eraseE e)
  | .var d => .var (eraseD d)
  | .varList ds => .varList (ds.map eraseD)
  | .block ss => .block (eraseSs ss)
  | .ifS c t e => .ifS (eraseE c) (eraseS t) (eraseOS e)
  | .whileS c b => .whileS (eraseE c) (eraseS b)
  | .forS init c inc b => .forS (eraseOS init) (eraseOE c) (eraseOE inc) (eraseS b)
  | .breakS _ => .breakS 0
  | .continueS _ => .continueS 0
  | .returnS _ v => .returnS 0 (eraseOE v)
  | .funS n ps body => .funS n ps (eraseSs body)
def eraseSs : List Stmt → List Stmt
  | [] => []
  | s :: ss => eraseS s :: eraseSs ss
def eraseOS : Option Stmt → Option Stmt
  | none => none
  | some s => some (eraseS s)
end

def wfOE : Option Expr → Bool
  | none => true
  | some e => fits 0 e

def wfDecl (d : VarDecl) : Bool := !Parser.isReserved d.name && wfOE d.init

/-- what `statement` (as opposed to `declaration`) can return -/
def isPlain : Stmt → Bool
  | .var _ => false
  | .varList _ => false
  | .funS _ _ _ => false
  | _ => true

def wfInit : Option Stmt → Bool
  | none => true
  | some (.expr e) => fits 0 e
  | some (.var d) => wfDecl d
  | some (.varList ds) => decide (2 ≤ ds.length) && ds.all wfDecl
  | some _ => false

mutual
def wfS : Stmt → Bool
  | .expr e => fits 0 e && headTT e != .LEFT_BRACE
  | .print e => fits 0 e
  | .var d => wfDecl d
  | .varList ds => decide (2 ≤ ds.length) && ds.all wfDecl
  | .block ss => wfSs ss
  | .ifS c t e => fits 0 c && isPlain t && wfS t && wfElse t e
  | .whileS c b => fits 0 c && isPlain b && wfS b
  | .forS init c inc b => wfInit init && wfOE c && wfOE inc && isPlain b && wfS b
  | .breakS _ => true
  | .continueS _ => true
  | .returnS _ v => wfOE v
  | .funS n ps body => !Parser.isReserved n && decide (ps.length ≤ Expect.maxParams) && wfSs body
def wfSs : List Stmt → Bool
  | [] => true
  | s :: ss => wfS s && wfSs ss
def wfElse (t : Stmt) : Option Stmt → Bool
  | none => true
  | some el => !openIf t && isPlain el && wfS el
end

/-! ## explicit parentheses

`paren e` writes every operand of every operator, every suffix target and every assignment target
of `e` in parentheses; `strip e` removes all `Grouping` nodes; `opsOk e` says that the operators
stored in `e` are operators of the language (a `Binary` node holds an operator of a level that
builds `Binary` nodes, and so on) — any tree whatever otherwise. -/

mutual
def opsOk : Expr → Bool
  | .literal _ _ => true
  | .ident _ _ => true
  | .grouping e _ => opsOk e
  | .unary op _ e => Expect.unaryOps.contains op && opsOk e
  | .binary l op _ r =>
    (match levelOf op with
     | some j => Parser.levelNode j == .binary
     | none => false) && opsOk l && opsOk r
  | .logical l op r =>
    (match levelOf op with
     | some j => Parser.levelNode j == .logical
     | none => false) && opsOk l && opsOk r
  | .call c _ args => opsOk c && opsOkL args
  | .arrayLit es => opsOkL es
  | .objectLit ps tc => opsOkP ps && (!ps.isEmpty || !tc)
  | .arrayAccess a i _ => opsOk a && opsOk i
  | .propAccess o _ _ => opsOk o
  | .assign _ _ v _ => opsOk v
  | .arrayAssign a i v _ => opsOk a && opsOk i && opsOk v
  | .propAssign o _ v _ => opsOk o && opsOk v
def opsOkL : List Expr → Bool
  | [] => true
  | e :: es => opsOk e && opsOkL es
def opsOkP : List (Name × Expr) → Bool
  | [] => true
  | (_, e) :: ps => opsOk e && opsOkP ps
end

mutual
def paren : Expr → Expr
  | .literal v l => .literal v l
  | .ident n l => .ident n l
  | .grouping e l => .grouping (paren e) l
  | .unary op l e => .unary op l (.grouping (paren e) 0)
  | .binary l op ln r => .binary (.grouping (paren l) 0) op ln (.grouping (paren r) 0)
  | .logical l op r => .logical (.grouping (paren l) 0) op (.grouping (paren r) 0)
  | .call c l args => .call (.grouping (paren c) 0) l (parenL args)
  | .arrayLit es => .arrayLit (parenL es)
  | .objectLit ps tc => .objectLit (parenP ps) tc
  | .arrayAccess a i l => .arrayAccess (.grouping (paren a) 0) (paren i) l
  | .propAccess o q l => .propAccess (.grouping (paren o) 0) q l
  | .assign n l v ln => .assign n l (paren v) ln
  | .arrayAssign a i v ln => .arrayAssign (.grouping (paren a) 0) (paren i) (paren v) ln
  | .propAssign o q v ln => .propAssign (.grouping (paren o) 0) q (paren v) ln
def parenL : List Expr → List Expr
  | [] => []
  | e :: es => paren e :: parenL es
def parenP : List (Name × Expr) → List (Name × Expr)
  | [] => []
  | (k, e) :: ps => (k, paren e) :: parenP ps
end

mutual
def strip : Expr → Expr
  | .literal v l => .literal v l
  | .ident n l => .ident n l
  | .grouping e _ => strip e
  | .unary op l e => .unary op l (strip e)
  | .binary l op ln r => .binary (strip l) op ln (strip r)
  | .logical l op r => .logical (strip l) op (strip r)
  | .call c l args => .call (strip c) l (stripL args)
  | .arrayLit es => .arrayLit (stripL es)
  | .objectLit ps tc => .objectLit (stripP ps) tc
  | .arrayAccess a i l => .arrayAccess (strip a) (strip i) l
  | .propAccess o q l => .propAccess (strip o) q l
  | .assign n l v ln => .assign n l (strip v) ln
  | .arrayAssign a i v ln => .arrayAssign (strip a) (strip i) (strip v) ln
  | .propAssign o q v ln => .propAssign (strip o) q (strip v) ln
def stripL : List Expr → List Expr
  | [] => []
  | e :: es => strip e :: stripL es
def stripP : List (Name × Expr) → List (Name × Expr)
  | [] => []
  | (k, e) :: ps => (k, strip e) :: stripP ps
end

/-- literal tokens carry a literal of their kind (true of every token the lexer produces) -/
def TokWf (t : Token) : Prop :=
  (t.tt = .NUMBER → ∃ x, t.lit = .num x) ∧ (t.tt = .STRING → ∃ s, t.lit = .str s)

end Borno.Grammar
