import BornoModel.Eval
/-! # C02 — operators compute the documented result for every combination of operand values -/
namespace Borno.Props.C02
open Borno

/-- value kinds as a user sees them -/
inductive Kind | nil | bool | num | str | arr | obj | fn deriving DecidableEq, Repr

def kind : Val → Kind
  | .nil => .nil | .bool _ => .bool | .num _ => .num | .str _ => .str
  | .arr _ => .arr | .obj _ => .obj | .fn _ => .fn | .native _ => .fn

theorem beqc {α : Type} [BEq α] [LawfulBEq α] (a b : α) : (a == b) = (b == a) := by
  by_cases h : a = b
  · subst h; rfl
  · have h' : ¬ b = a := fun e => h e.symm
    rw [beq_eq_false_iff_ne.mpr h, beq_eq_false_iff_ne.mpr h']

theorem beq_symm (x y : F64) : F64.beq x y = F64.beq y x := by
  cases x <;> cases y <;> simp [F64.beq, eq_comm]
  rename_i a b; exact beqc a b

/-- `==` is symmetric on all values -/
theorem eq_symm (σ : Store) (a b : Val) : valEq σ a b = valEq σ b a := by
  cases a <;> cases b <;> simp only [valEq, beq_symm] <;>
    first
      | rfl
      | exact beqc _ _
      | (rename_i x y; rw [beqc x y, Bool.and_comm])

/-- `==` is reflexive on every value except NaN -/
theorem eq_refl_of_nonNaN (σ : Store) (a : Val) (h : a ≠ .num .nan) : valEq σ a a = true := by
  cases a <;> simp [valEq]
  rename_i x
  cases x <;> simp [F64.beq] at *

/-- NaN is the one value not equal to itself -/
theorem nan_ne_nan (σ : Store) : valEq σ (.num .nan) (.num .nan) = false := by simp [valEq, F64.beq]

/-- values of different kinds are unequal (no coercion in `==`) -/
theorem eq_kinds_differ (σ : Store) (a b : Val) (h : kind a ≠ kind b) : valEq σ a b = false := by
  cases a <;> cases b <;> simp [kind] at h <;> simp [valEq]

/-- strings compare by content, numbers by numeric value -/
theorem eq_strings_content (σ : Store) (s t : List Char) : valEq σ (.str s) (.str t) = (s == t) := rfl
theorem eq_numbers_numeric (σ : Store) (x y : F64) : valEq σ (.num x) (.num y) = F64.beq x y := rfl

/-- `==` and `!=` are total and each other's negation: they never report an error -/
theorem eq_total (P : Platform) (σ : Store) (a b : Val) :
    binop P σ .EQUAL_EQUAL a b = .ok (.bool (valEq σ a b)) ∧
    binop P σ .BANG_EQUAL a b = .ok (.bool (!valEq σ a b)) := ⟨rfl, rfl⟩

/-- `+ - * / %` and the comparisons on two numbers are the IEEE-754 (F64) operations -/
theorem arith_ieee (P : Platform) (σ : Store) (x y : F64) :
    binop P σ .PLUS (.num x) (.num y) = .ok (.num (F64.add x y)) ∧
    binop P σ .MINUS (.num x) (.num y) = .ok (.num (F64.sub x y)) ∧
    binop P σ .STAR (.num x) (.num y) = .ok (.num (F64.mul x y)) ∧
    (y.isZero = false → binop P σ .SLASH (.num x) (.num y) = .ok (.num (F64.div x y))) ∧
    (y.isZero = false → binop P σ .MODULO (.num x) (.num y) = .ok (.num (F64.mod x y))) ∧
    binop P σ .LESS (.num x) (.num y) = .ok (.bool (F64.lt x y)) ∧
    binop P σ .LESS_EQUAL (.num x) (.num y) = .ok (.bool (F64.le x y)) ∧
    binop P σ .GREATER (.num x) (.num y) = .ok (.bool (F64.lt y x)) ∧
    binop P σ .GREATER_EQUAL (.num x) (.num y) = .ok (.bool (F64.le y x)) ∧
    unop .MINUS (.num x) = .ok (.num x.neg) ∧
    binop P σ .POWER (.num x) (.num y) = .ok (.num (P.pow x y)) := by
  refine ⟨rfl, rfl, rfl, ?_, ?_, rfl, rfl, rfl, rfl, rfl, rfl⟩ <;> intro h <;>
    simp [binop, numPair, toNumber, h]

/-- division and modulo by (either) zero are runtime errors, whatever the dividend -/
theorem zero_divisor_error (P : Platform) (σ : Store) (a b : Val) (x y : F64)
    (ha : toNumber a = some x) (hb : toNumber b = some y) (hz : y.isZero = true) :
    binop P σ .SLASH a b = .error msgDivZero ∧ binop P σ .MODULO a b = .error msgDivZero := by
  simp [binop, numPair, ha, hb, hz]

/-- a negative shift count is a runtime error -/
theorem negative_shift_error (P : Platform) (σ : Store) (a b : Val) (i j : Int)
    (ha : toInt64 a = some i) (hb : toInt64 b = some j) (hn : j < 0) :
    binop P σ .LEFT_SHIFT a b = .error msgShiftNeg ∧ binop P σ .RIGHT_SHIFT a b = .error msgShiftNeg := by
  simp [binop, intPair, ha, hb, hn]

/-- bitwise operators act on the 64-bit integers their operands denote and reject everything else -/
theorem bitwise_int64 (P : Platform) (σ : Store) (a b : Val) :
    (∀ i j, toInt64 a = some i → toInt64 b = some j →
      binop P σ .AND a b = .ok (.num (F64.ofInt (bitAnd i j))) ∧
      binop P σ .OR a b = .ok (.num (F64.ofInt (bitOr i j))) ∧
      binop P σ .XOR a b = .ok (.num (F64.ofInt (bitXor i j))) ∧
      (0 ≤ j → binop P σ .LEFT_SHIFT a b = .ok (.num (F64.ofInt (shl i j))) ∧
               binop P σ .RIGHT_SHIFT a b = .ok (.num (F64.ofInt (shr i j))))) ∧
    (toInt64 a = none → ∀ op ∈ [TT.AND, .OR, .XOR, .LEFT_SHIFT, .RIGHT_SHIFT], binop P σ op a b = .error msgLeftInt) ∧
    (∀ i, toInt64 a = some i → toInt64 b = none →
      ∀ op ∈ [TT.AND, .OR, .XOR, .LEFT_SHIFT, .RIGHT_SHIFT], binop P σ op a b = .error msgRightInt) := by
  refine ⟨?_, ?_, ?_⟩
  · intro i j ha hb
    refine ⟨by simp [binop, intPair, ha, hb, Except.map], by simp [binop, intPair, ha, hb, Except.map],
      by simp [binop, intPair, ha, hb, Except.map], ?_⟩
    intro hj
    have : ¬ j < 0 := by omega
    simp [binop, intPair, ha, hb, this]
  · intro ha op hop
    simp at hop
    rcases hop with rfl | rfl | rfl | rfl | rfl <;> simp [binop, intPair, ha, Except.map]
  · intro i ha hb op hop
    simp at hop
    rcases hop with rfl | rfl | rfl | rfl | rfl <;> simp [binop, intPair, ha, hb, Except.map]

/-- only integral doubles in [-2^63, 2^63) denote a 64-bit integer; NaN, infinities and fractions do not -/
theorem toInt64_range (x : F64) (i : Int) (h : toInt64 (.num x) = some i) :
    -(2 ^ 63 : Int) ≤ i ∧ i < (2 ^ 63 : Int) ∧ x.toInt? = some i := by
  simp only [toInt64, F64.toInt64?] at h
  split at h
  · rename_i k hk
    split at h
    · rename_i hr
      cases h
      exact ⟨hr.1, hr.2, hk⟩
    · cases h
  · cases h

/-- `+` concatenates when one side is a string and the other a string or a number, using the
    text `দেখাও` prints for the number -/
theorem plus_concat (s t : List Char) (x : F64) :
    opAdd (.str s) (.str t) = .ok (.str (s ++ t)) ∧
    opAdd (.str s) (.num x) = .ok (.str (s ++ x.fmtV)) ∧
    opAdd (.num x) (.str s) = .ok (.str (x.fmtV ++ s)) := ⟨rfl, rfl, rfl⟩

/-- `+` yields a value only for number+number, string+string, string+number, number+string -/
theorem plus_value_implies_supported (a b v : Val) (h : opAdd a b = .ok v) :
    (kind a = .num ∨ kind a = .str) ∧ (kind b = .num ∨ kind b = .str) := by
  cases a <;> cases b <;> simp [opAdd, stringifyOperand, kind] at h ⊢

/-- arithmetic, comparison and bitwise operators yield a value only on numbers and strings
    (strings that read as numbers coerce); nil, booleans, arrays, objects and functions never do -/
theorem value_implies_supported (P : Platform) (σ : Store) (op : TT) (a b v : Val)
    (hop : op ∈ [TT.MINUS, .STAR, .SLASH, .MODULO, .POWER, .LESS, .LESS_EQUAL, .GREATER, .GREATER_EQUAL,
                 .AND, .OR, .XOR, .LEFT_SHIFT, .RIGHT_SHIFT])
    (h : binop P σ op a b = .ok v) :
    (kind a = .num ∨ kind a = .str) ∧ (kind b = .num ∨ kind b = .str) := by
  have key : ∀ c : Val, (toNumber c).isSome ∨ (toInt64 c).isSome → kind c = .num ∨ kind c = .str := by
    intro c hc; cases c <;> simp [toNumber, toInt64, kind] at hc ⊢
  have hn : ∀ p, numPair a b = .ok p → (toNumber a).isSome ∧ (toNumber b).isSome := by
    intro p hp; unfold numPair at hp
    cases ha : toNumber a <;> simp [ha] at hp
    cases hb : toNumber b <;> simp [hb] at hp
    simp
  have hi : ∀ p, intPair a b = .ok p → (toInt64 a).isSome ∧ (toInt64 b).isSome := by
    intro p hp; unfold intPair at hp
    cases ha : toInt64 a <;> simp [ha] at hp
    cases hb : toInt64 b <;> simp [hb] at hp
    simp
  simp at hop
  rcases hop with rfl | rfl | rfl | rfl | rfl | rfl | rfl | rfl | rfl | rfl | rfl | rfl | rfl | rfl <;>
    simp only [binop] at h <;>
    first
      | (cases hp : numPair a b with
         | error m => simp [hp, Except.map] at h
         | ok p => exact ⟨key a (Or.inl (hn p hp).1), key b (Or.inl (hn p hp).2)⟩)
      | (cases hp : intPair a b with
         | error m => simp [hp, Except.map] at h
         | ok p => exact ⟨key a (Or.inr (hi p hp).1), key b (Or.inr (hi p hp).2)⟩)

/-- non-vacuity -/
example : binop { lm := fun _ => false, nfc := id, pow := fun a _ => a, sin := id, cos := id, tan := id, now := .nan } {} .SLASH
    (.num (F64.ofNat 1)) (.num F64.zero) = .error msgDivZero := by rfl

/-! ## algebraic laws of the arithmetic the operators compute (sanity of the binary64 definition) -/

/-- `+` and `*` are commutative on every pair of doubles (NaN, infinities and signed zeros included) -/
theorem add_comm (x y : F64) : F64.add x y = F64.add y x := by
  cases x <;> cases y <;> simp [F64.add]
  · rename_i a b; cases a <;> cases b <;> simp
  · rename_i a m e b m' e'
    rw [Rat.add_comm, Bool.and_comm]

theorem mul_comm (x y : F64) : F64.mul x y = F64.mul y x := by
  cases x <;> cases y <;> simp [F64.mul]
  · rename_i a b; cases a <;> cases b <;> simp
  · rename_i a b m e; cases a <;> cases b <;> simp
  · rename_i a m e b; cases a <;> cases b <;> simp
  · rename_i a m e b m' e'
    have h1 : (F64.fin a m e).toRat * (F64.fin b m' e').toRat = (F64.fin b m' e').toRat * (F64.fin a m e).toRat := Rat.mul_comm _ _
    have h2 : (a != b) = (b != a) := by cases a <;> cases b <;> rfl
    rw [h1, h2]

/-- negation is an involution that only flips the sign; `abs` clears it -/
theorem neg_neg (x : F64) : F64.neg (F64.neg x) = x := by cases x <;> simp [F64.neg]
theorem abs_neg (x : F64) : F64.abs (F64.neg x) = F64.abs x := by cases x <;> simp [F64.neg, F64.abs]
theorem abs_idem (x : F64) : F64.abs (F64.abs x) = F64.abs x := by cases x <;> simp [F64.abs]

/-- subtraction is addition of the negation (so `a - b` and `a + (-b)` agree bit for bit) -/
theorem sub_eq_add_neg (x y : F64) : F64.sub x y = F64.add x (F64.neg y) := rfl

end Borno.Props.C02
