import BornoModel.Eval
import BornoModel.Lemmas.EvalInv
/-! # C12 — objects are shared key→value maps with consistent read, write, delete, listing -/
namespace Borno.Props.C12
open Borno Expect

def objOf (σ : Store) (r : Nat) : List (Name × Val) := σ.objs[r]?.getD []

theorem lookup_cons_eq {α : Type} (k : Name) (v : α) (ps : List (Name × α)) : List.lookup k ((k, v) :: ps) = some v := by
  simp [List.lookup]

theorem lookup_cons_ne {α : Type} (q k : Name) (v : α) (ps : List (Name × α)) (h : q ≠ k) :
    List.lookup q ((k, v) :: ps) = List.lookup q ps := by
  have : (q == k) = false := by simpa using h
  simp only [List.lookup, this]

/-- after `o.k = v`, `o.k` reads v -/
theorem upsert_lookup_self {α : Type} (k : Name) (v : α) (ps : List (Name × α)) : (upsert k v ps).lookup k = some v := by
  induction ps with
  | nil => exact lookup_cons_eq k v []
  | cons p ps ih =>
    obtain ⟨k', v'⟩ := p
    unfold upsert
    by_cases h : k' = k
    · subst h; rw [if_pos rfl]; exact lookup_cons_eq _ _ _
    · rw [if_neg h, lookup_cons_ne k k' v' _ (Ne.symm h)]; exact ih

/-- … and no other property changes -/
theorem upsert_lookup_other {α : Type} (k q : Name) (v : α) (ps : List (Name × α)) (h : q ≠ k) :
    (upsert k v ps).lookup q = ps.lookup q := by
  induction ps with
  | nil => unfold upsert; rw [lookup_cons_ne q k v [] h]
  | cons p ps ih =>
    obtain ⟨k', v'⟩ := p
    unfold upsert
    by_cases hk : k' = k
    · subst hk; rw [if_pos rfl, lookup_cons_ne q k' v _ h, lookup_cons_ne q k' v' _ h]
    · rw [if_neg hk]
      by_cases hq : q = k'
      · subst hq; rw [lookup_cons_eq, lookup_cons_eq]
      · rw [lookup_cons_ne q k' v' _ hq, lookup_cons_ne q k' v' _ hq]; exact ih

/-- a write never duplicates a key: the key list stays duplicate-free -/
theorem upsert_keys {α : Type} (k : Name) (v : α) (ps : List (Name × α)) :
    (upsert k v ps).map (·.1) = if k ∈ ps.map (·.1) then ps.map (·.1) else ps.map (·.1) ++ [k] := by
  induction ps with
  | nil => simp [upsert]
  | cons p ps ih =>
    obtain ⟨k', v'⟩ := p
    unfold upsert
    by_cases hk : k' = k
    · subst hk; simp
    · simp only [if_neg hk, List.map_cons, ih, List.mem_cons]
      have hk2 : ¬ k = k' := fun e => hk e.symm
      by_cases hm : k ∈ List.map (fun x => x.fst) ps
      · simp [hm]
      · simp [hm, hk2]

theorem upsert_nodup {α : Type} (k : Name) (v : α) (ps : List (Name × α)) (h : (ps.map (·.1)).Nodup) :
    ((upsert k v ps).map (·.1)).Nodup := by
  rw [upsert_keys]
  split
  · exact h
  · rename_i hn
    exact List.nodup_append.mpr ⟨h, by simp, by intro a ha b hb; simp at hb; subst hb; intro e; subst e; exact hn ha⟩

/-- property write through any holder of `obj r` updates the one shared table entry, and only property `p` of it -/
theorem prop_write_read (P : Platform) (f : Nat) (o v : Expr) (p : Name) (line env : Nat) (repl : Bool)
    (σ σ1 σ2 : Store) (r : Nat) (x : Val) (h0 : σ.hadError = false)
    (ho : evalE P f o env repl σ = .ok (.obj r, .none) σ1)
    (hv : evalE P f v env repl σ1 = .ok (x, .none) σ2) (hr : r < σ2.objs.length) :
    ∃ σ3, evalE P (f + 1) (.propAssign o p v line) env repl σ = .ok (x, .none) σ3 ∧
      (objOf σ3 r).lookup p = some x ∧
      (∀ q, q ≠ p → (objOf σ3 r).lookup q = (objOf σ2 r).lookup q) ∧
      (∀ r', r' ≠ r → objOf σ3 r' = objOf σ2 r') ∧ σ3.arrs = σ2.arrs ∧ σ3.out = σ2.out := by
  refine ⟨{ σ2 with objs := σ2.objs.set r (upsert p x (objOf σ2 r)) }, ?_, ?_, ?_, ?_, rfl, rfl⟩
  · rw [evalE]; simp only [guardErr, ER.seq, Res.bind, h0, ho, hv]; simp [guardErr, ER.seq, Res.bind, objOf]
  · simp [objOf, List.getElem?_set, hr, upsert_lookup_self]
  · intro q hq; simp [objOf, List.getElem?_set, hr]; exact upsert_lookup_other p q x _ hq
  · intro r' hr'; simp [objOf, List.getElem?_set, Ne.symm hr']

/-- reading an absent property, and `.` on something that is not an object, are runtime errors -/
theorem prop_read (P : Platform) (f : Nat) (o : Expr) (p : Name) (line env : Nat) (repl : Bool)
    (σ σ1 : Store) (ov : Val) (h0 : σ.hadError = false) (ho : evalE P f o env repl σ = .ok (ov, .none) σ1) :
    (∀ r v, ov = .obj r → (objOf σ1 r).lookup p = some v →
      evalE P (f + 1) (.propAccess o p line) env repl σ = .ok (v, .none) σ1) ∧
    (∀ r, ov = .obj r → (objOf σ1 r).lookup p = none →
      ∃ m, evalE P (f + 1) (.propAccess o p line) env repl σ = .ok (.nil, .none) (σ1.rte m line)) ∧
    ((∀ r, ov ≠ .obj r) →
      ∃ m, evalE P (f + 1) (.propAccess o p line) env repl σ = .ok (.nil, .none) (σ1.rte m line)) := by
  refine ⟨?_, ?_, ?_⟩
  · intro r v hov hl; subst hov
    rw [evalE]; simp only [guardErr, ER.seq, Res.bind, h0, ho]; unfold objOf at hl
    simp only [Bool.false_eq_true, if_false, ne_eq, not_true_eq_false, hl]
  · intro r hov hl; subst hov
    rw [evalE]; simp only [guardErr, ER.seq, Res.bind, h0, ho]; unfold objOf at hl
    simp only [Bool.false_eq_true, if_false, ne_eq, not_true_eq_false, hl, nilOk]
    exact ⟨_, rfl⟩
  · intro hne
    rw [evalE]; simp only [guardErr, ER.seq, Res.bind, h0, ho]
    cases ov <;> simp only [Bool.false_eq_true, if_false, ne_eq, not_true_eq_false, nilOk] <;>
      first
        | exact ⟨_, rfl⟩
        | (exfalso; exact hne _ rfl)

/-- `কি_রিমুভ(o, k)` removes exactly property k; an absent key is an error and changes nothing -/
theorem delete_exact (σ : Store) (r : Nat) (key : Name) (hr : r < σ.objs.length) :
    ((objOf σ r).lookup key ≠ none →
      ∃ σ', natDelete [.obj r, .str key] σ = .ok (.obj r, σ') ∧ (objOf σ' r).lookup key = none ∧
        (∀ q, q ≠ key → (objOf σ' r).lookup q = (objOf σ r).lookup q) ∧ (∀ r', r' ≠ r → objOf σ' r' = objOf σ r')) ∧
    ((objOf σ r).lookup key = none → ∃ m, natDelete [.obj r, .str key] σ = .error m) := by
  have lookup_filter : ∀ (ps : List (Name × Val)) (q : Name),
      (ps.filter (fun p => p.1 != key)).lookup q = if q = key then none else ps.lookup q := by
    intro ps q
    induction ps with
    | nil => simp [List.lookup]
    | cons p ps ih =>
      obtain ⟨k', v'⟩ := p
      by_cases hk : k' = key
      · subst hk
        have hf : ((k', v') :: ps).filter (fun p => p.1 != k') = ps.filter (fun p => p.1 != k') := by
          exact List.filter_cons_of_neg (by simp)
        rw [hf, ih]
        by_cases hq : q = k'
        · simp [hq]
        · rw [if_neg hq, if_neg hq, lookup_cons_ne q k' v' _ hq]
      · have hf : ((k', v') :: ps).filter (fun p => p.1 != key) = (k', v') :: ps.filter (fun p => p.1 != key) := by
          exact List.filter_cons_of_pos (by simpa using hk)
        rw [hf]
        by_cases hq : q = k'
        · subst hq; rw [lookup_cons_eq, lookup_cons_eq, if_neg hk]
        · rw [lookup_cons_ne q k' v' _ hq, lookup_cons_ne q k' v' _ hq]; exact ih
  constructor
  · intro h
    have hs : ((σ.objs[r]?.getD []).lookup key).isSome = true := by
      unfold objOf at h; cases hh : (σ.objs[r]?.getD []).lookup key with
      | none => exact absurd hh h
      | some _ => rfl
    refine ⟨{ σ with objs := σ.objs.set r ((σ.objs[r]?.getD []).filter (fun p => p.1 != key)) }, ?_, ?_, ?_, ?_⟩
    · simp only [natDelete, hs]; rfl
    · have : objOf { σ with objs := σ.objs.set r ((σ.objs[r]?.getD []).filter (fun p => p.1 != key)) } r =
          (σ.objs[r]?.getD []).filter (fun p => p.1 != key) := by simp [objOf, List.getElem?_set, hr]
      rw [this, lookup_filter]; simp
    · intro q hq
      have : objOf { σ with objs := σ.objs.set r ((σ.objs[r]?.getD []).filter (fun p => p.1 != key)) } r =
          (σ.objs[r]?.getD []).filter (fun p => p.1 != key) := by simp [objOf, List.getElem?_set, hr]
      rw [this, lookup_filter, if_neg hq]; rfl
    · intro r' hr'; simp [objOf, List.getElem?_set, Ne.symm hr']
  · intro h
    unfold objOf at h
    simp only [natDelete, h]
    exact ⟨_, rfl⟩

/-- the key listing is a permutation of the object's keys (every property exactly once when keys are
    duplicate-free) and the value listing follows it: the i-th value is the value of the i-th key -/
theorem keys_values_consistent (σ : Store) (r : Nat) :
    ∃ (ks : List Name) (σk σv : Store), natKeys [.obj r] σ = .ok (.arr σ.arrs.length, σk) ∧ natValues [.obj r] σ = .ok (.arr σ.arrs.length, σv) ∧
      ks.Perm ((objOf σ r).map (·.1)) ∧
      σk.arrs[σ.arrs.length]? = some (ks.map .str) ∧
      σv.arrs[σ.arrs.length]? = some (ks.map fun k => ((objOf σ r).lookup k).getD .nil) := by
  refine ⟨sortKeys ((objOf σ r).map (·.1)), _, _, rfl, rfl, ?_, ?_, ?_⟩
  · exact List.mergeSort_perm _ _
  · simp [Store.newArr, objOf, objKeys]
  · simp [Store.newArr, objOf, objKeys]

/-- an object literal with distinct keys yields exactly its listed properties, in the listed order -/
theorem literal_distinct_keys_exact {α : Type} (ps : List (Name × α)) (h : (ps.map (·.1)).Nodup) :
    effectiveProps ps = ps := by
  unfold effectiveProps
  suffices hh : ∀ (acc : List (Name × α)), (∀ k ∈ ps.map (·.1), k ∉ acc.map (·.1)) →
      ps.foldl (fun acc p => upsert p.1 p.2 acc) acc = acc ++ ps by simpa using hh [] (by simp)
  induction ps with
  | nil => intro acc _; simp
  | cons p ps ih =>
    intro acc hacc
    have hp : p.1 ∉ acc.map (·.1) := hacc p.1 (by simp)
    have hup : upsert p.1 p.2 acc = acc ++ [p] := by
      clear ih hacc h
      induction acc with
      | nil => simp [upsert]
      | cons a acc iha =>
        obtain ⟨k', v'⟩ := a
        have hp1 : ¬ k' = p.1 := by intro e; apply hp; simp [e]
        have hp2 : p.1 ∉ acc.map (·.1) := by intro e; apply hp; simp at e ⊢; exact Or.inr e
        unfold upsert
        rw [if_neg hp1, iha hp2]; rfl
    simp only [List.foldl, hup]
    have hnd : p.1 ∉ ps.map (·.1) ∧ (ps.map (·.1)).Nodup := by
      rw [List.map_cons] at h; exact List.nodup_cons.mp h
    rw [ih hnd.2 (acc ++ [p])]
    · simp
    · intro k hk hmem
      rw [List.map_append, List.mem_append] at hmem
      rcases hmem with hm | hm
      · exact hacc k (by simp [hk]) hm
      · simp at hm; subst hm; exact hnd.1 hk

/-! ## every reachable object is well-formed: each property is listed exactly once -/

/-- **no evaluation ever makes an object hold a key twice**: whatever is evaluated — any expression,
    statement, call, loop, built-in — from a store whose objects are duplicate-free, the objects of
    the resulting store are duplicate-free (literals with repeated keys, writes, deletes included) -/
theorem objects_stay_wellformed (P : Platform) (f : Nat) (e : Expr) (s : Stmt) (env : Nat) (repl : Bool) (σ σ' : Store) (r : Val × Signal)
    (hok : ObjsOk σ) :
    (evalE P f e env repl σ = .ok r σ' → ObjsOk σ') ∧ (evalS P f s env repl σ = .ok r σ' → ObjsOk σ') := by
  constructor
  · intro h; have := (allSat P f).e e env repl σ; rw [h] at this; exact this.objs_nodup hok
  · intro h; have := (allSat P f).s s env repl σ; rw [h] at this; exact this.objs_nodup hok

/-- in particular in every store a program run reaches (the initial store has no objects) -/
theorem program_objects_wellformed (P : Platform) (fuel : Nat) (prog : List Stmt) (repl : Bool) (input : List Char) (σ' : Store)
    (h : interpret P fuel prog repl input = .ok () σ') : ObjsOk σ' := by
  have := sat_interpretLoop P fuel prog 1 repl (initStore input)
  unfold interpret at h
  rw [h] at this
  exact this.objs_nodup (by intro i ps hi; simp [initStore] at hi)

/-- hence `অব্জেক্ট_কি` lists each property of a well-formed object exactly once: the listing has no
    repetition and contains exactly the object's keys -/
theorem keys_listing_exact (σ : Store) (r : Nat) (hok : ObjsOk σ) :
    (objKeys σ r).Nodup ∧ ∀ k, k ∈ objKeys σ r ↔ ((objOf σ r).lookup k).isSome = true := by
  have hnd : ((objOf σ r).map (·.1)).Nodup := Ext.objsOk_getD hok r
  have hperm : (objKeys σ r).Perm ((objOf σ r).map (·.1)) := List.mergeSort_perm _ _
  refine ⟨hperm.nodup_iff.mpr hnd, fun k => ?_⟩
  rw [hperm.mem_iff]
  generalize objOf σ r = ps
  induction ps with
  | nil => simp [List.lookup]
  | cons p ps ih =>
    obtain ⟨k', v'⟩ := p
    by_cases hk : k = k'
    · subst hk; simp [List.lookup]
    · have : (k == k') = false := by simpa using hk
      simp only [List.map_cons, List.mem_cons, hk, false_or, List.lookup, this]
      exact ih

end Borno.Props.C12
