# Programs whose only distinction is SIZE: long arrays and objects, many parameters and arguments, deep
# nesting, loops with thousands of iterations, long strings and identifiers, many variables and statements.
# Small exhaustive domains and small random programs never reach a threshold such as "the 17th argument",
# "more than 32 elements" or "nesting deeper than 30"; these do.  Shared by several campaigns (label 'scale').
from .core import KW, NAT

P, VAR, FUN, IF, ELSE, WHILE, FOR = KW['print'], KW['var'], KW['fun'], KW['if'], KW['else'], KW['while'], KW['for']
RET, BRK, CONT, TRUE, FALSE = KW['return'], KW['break'], KW['continue'], KW['true'], KW['false']
N = NAT

def scale_programs(tier='quick'):
    big = tier == 'thorough'
    out = []
    def add(name, src):
        out.append((name, src if src.endswith('\n') else src + '\n'))

    # ---- arrays
    for n in ([40, 100, 300] if not big else [33, 40, 64, 65, 100, 128, 129, 300, 1000]):
        elems = ', '.join(str(i * 3 % 101) for i in range(n))
        add(f'array-literal-{n}',
            f'{VAR} a = [{elems}];\n{P} {N["len"]}(a);\n{P} a[{n - 1}];\n{P} a[{n // 2}];\na[{n - 1}] = "last";\na[0] = "first";\n{P} a[{n - 1}];\n'
            f'{VAR} b = {N["append"]}(a, 1, 2, 3);\n{P} {N["len"]}(b);\n{P} {N["len"]}(a);\n{P} b[{n + 2}];\nb[{n}] = "mine";\n{P} a[{n - 1}];\n'
            f'{VAR} c = {N["remove"]}(b, {n - 2});\n{P} {N["len"]}(c);\n{P} c[{n - 2}];\n{P} b[{n - 2}];\n{P} a[{n}];\n{P} a;\n')
        add(f'array-grown-{n}',
            f'{VAR} a = [];\n{FOR} ({VAR} i = 0; i < {n}; i = i + 1) {{ a = {N["append"]}(a, i * i); }}\n{P} {N["len"]}(a);\n{P} a[{n - 1}];\n'
            f'{VAR} s = 0;\n{FOR} ({VAR} j = 0; j < {N["len"]}(a); j = j + 1) {{ s = s + a[j]; a[j] = j; }}\n{P} s;\n{P} a[{n - 1}];\n'
            f'{VAR} k = a;\nk[{n // 3}] = "shared";\n{P} a[{n // 3}];\n{P} {N["min"]}(a) ;\n')
        add(f'min-max-{n}', f'{P} {N["min"]}({", ".join(str((i * 7 + 3) % (n + 5)) for i in range(n))});\n{P} {N["max"]}([{", ".join(str((i * 11 + 1) % (n + 9)) for i in range(n))}]);\n')

    # ---- a site that saw thousands of values of one kind then meets another kind (a specialised fast path must fall back)
    for n in ([4500] if not big else [300, 1100, 4500, 7000]):
        for op in ['+', '-', '*', '/', '<', '==']:
            add(f'kind-change-after-{n}-{op}',
                f'{FUN} ap(a, b) {{ {RET} a {op} b; }}\n{VAR} acc = 0;\n{FOR} ({VAR} i = 0; i < {n}; i = i + 1) {{ acc = ap(i, 2); }}\n{P} acc;\n{P} ap("x", 2);\n{P} ap(2, "y");\n{P} ap("3", "4");\n{P} ap([1], 2);\n{P} "still here";\n{P} ap(nil, 1);\n{P} "not reached";\n')
        add(f'kind-change-in-loop-{n}', f'{VAR} data = [];\n{FOR} ({VAR} i = 0; i < {n}; i = i + 1) {{ data = {N["append"]}(data, i % 10); }}\ndata = {N["append"]}(data, nil, 5);\n{VAR} sum = 0;\n{FOR} ({VAR} k = 0; k < {N["len"]}(data); k = k + 1) {{ sum = sum + data[k]; }}\n{P} sum;\n')
        add(f'truthiness-change-after-{n}', f'{VAR} flag = 1;\n{VAR} c = 0;\n{FOR} ({VAR} i = 0; i < {n + 5}; i = i + 1) {{ {IF} (i == {n}) {{ flag = ""; }} {IF} (i == {n + 2}) {{ flag = "x"; }} {IF} (flag) {{ c = c + 1; }} }}\n{P} c;\n')
    for n in ([5003] if not big else [4095, 4096, 4097, 5003, 20001]):
        nums = ', '.join(str((i * 7919) % 100003) for i in range(n - 1))
        add(f'min-max-tail-{n}', f'{P} {N["max"]}({nums}, 100004);\n{P} {N["min"]}({nums}, -5);\n{P} {N["max"]}([{nums}, 100005]);\n{P} {N["min"]}([{nums}, -6]);\n{P} {N["max"]}([100006, {nums}]);\n')
    # ---- objects
    for n in ([20, 60] if not big else [9, 17, 20, 33, 60, 129, 300]):
        props = ', '.join(f'k{i}: {i}' for i in range(n))
        add(f'object-{n}',
            f'{VAR} o = {{{props}}};\n{P} {N["len"]}({N["keys"]}(o));\n{P} o.k{n - 1};\no.k{n - 1} = "w";\no.extra = 1;\n{P} o.k{n - 1};\n'
            f'{N["delete"]}(o, "k0");\n{P} {N["len"]}({N["values"]}(o));\n{P} {N["keys"]}(o)[0];\n{P} {N["keys"]}(o);\n{P} {N["values"]}(o);\n{P} o;\n{P} o.k0;\n')

    # ---- parameters and arguments
    for k in ([10, 17, 40, 255] if not big else [8, 9, 16, 17, 32, 33, 64, 65, 100, 254, 255]):
        ps = ', '.join(f'p{i}' for i in range(k))
        args = ', '.join(str(i + 1) for i in range(k))
        add(f'params-{k}', f'{FUN} f({ps}) {{ {RET} [{ps}]; }}\n{VAR} r = f({args});\n{P} {N["len"]}(r);\n{P} r[0];\n{P} r[{k - 1}];\n{P} r[{k // 2}];\n{P} f({", ".join(str(i) for i in range(k - 1))});\n')
    for k in ([300] if not big else [255, 256, 257, 300, 1000]):
        add(f'variadic-args-{k}', f'{P} {N["max"]}({", ".join(str(i % 97) for i in range(k))});\n{P} {N["min"]}({", ".join(str(i % 89 + 1) for i in range(k))});\n'
            f'{P} {N["len"]}({N["append"]}([0], {", ".join(str(i) for i in range(k))}));\n')
    add('append-many', f'{P} {N["append"]}([0], {", ".join(str(i) for i in range(1, 60))});\n')

    # ---- nesting
    for d in ([30, 60, 120, 300] if not big else [16, 17, 30, 33, 60, 65, 120, 250, 255, 256, 257, 300, 600]):
        add(f'nested-blocks-{d}', ''.join(f'{{ {VAR} v{i} = {i};\n' for i in range(d)) + f'{P} v0 + v{d - 1};\n' + '}' * d + f'\n{P} "out";\n')
        add(f'nested-if-{d}', ''.join(f'{IF} ({i} < {d}) {{\n' for i in range(d)) + f'{P} "deep";\n' + '}' * d + f' {ELSE} {{ {P} "no"; }}\n')
        add(f'nested-calls-{d}', f'{FUN} inc(x) {{ {RET} x + 1; }}\n{P} ' + 'inc(' * d + '0' + ')' * d + ';\n')
        add(f'nested-arrays-{d}', f'{VAR} a = ' + '[' * d + '7' + ']' * d + f';\n{P} a;\n{P} a' + '[0]' * d + ';\n')
        add(f'nested-parens-{d}', f'{P} ' + '(' * d + '1 + 2' + ')' * d + ' * 3;\n')
        add(f'nested-closures-{d}', ''.join(f'{FUN} f{i}() {{ {VAR} c{i} = {i};\n' for i in range(d)) + f'{RET} c0 + c{d - 1};\n' +
            ''.join(f'}}\n{RET} f{i}();\n' for i in range(d - 1, 0, -1)) + f'}}\n{P} f0();\n')
        add(f'nested-loops-shadow-{d}', f'{VAR} x = 0;\n' + ''.join(f'{{ {VAR} x = x + 1;\n' for _ in range(d)) + f'{P} x;\n' + '}' * d + f'\n{P} x;\n')
        add(f'unary-chain-{d}', f'{P} ' + '-' * d + '5;\n' + f'{P} ' + '!' * d + f'{TRUE};\n')
        add(f'else-if-chain-{d}', f'{VAR} n = {d - 1};\n' + ''.join(f'{IF} (n == {i}) {{ {P} "is{i}"; }} {ELSE} ' for i in range(d)) + f'{{ {P} "none"; }}\n')

    # ---- iterations
    for n in ([1000, 3000] if not big else [255, 256, 257, 1000, 1023, 1025, 3000, 5000]):
        add(f'while-{n}', f'{VAR} i = 0;\n{VAR} s = 0;\n{WHILE} (i < {n}) {{ i = i + 1; {IF} (i % 7 == 0) {CONT}; s = s + i; }}\n{P} i;\n{P} s;\n')
        add(f'for-break-late-{n}', f'{VAR} s = 0;\n{FOR} ({VAR} i = 0; i < {n * 2}; i = i + 1) {{ {IF} (i == {n}) {BRK}; s = s + 1; }}\n{P} s;\n')
        add(f'return-late-{n}', f'{FUN} f() {{ {FOR} ({VAR} i = 0; i < {n * 2}; i = i + 1) {{ {IF} (i == {n}) {{ {RET} i; }} }} {RET} -1; }}\n{P} f();\n')
        add(f'error-late-{n}', f'{VAR} i = 0;\n{WHILE} (i < {n * 2}) {{ i = i + 1; {IF} (i == {n}) {{ {P} nope; }} }}\n{P} "after";\n')
        add(f'calls-{n}', f'{FUN} g(x) {{ {RET} x + 1; }}\n{VAR} v = 0;\n{FOR} ({VAR} i = 0; i < {n}; i = i + 1) {{ v = g(v); }}\n{P} v;\n')
    for n in ([200, 400] if not big else [100, 200, 400, 1000]):
        add(f'recursion-{n}', f'{FUN} sum(n) {{ {IF} (n == 0) {{ {RET} 0; }} {RET} n + sum(n - 1); }}\n{P} sum({n});\n')

    # ---- strings and names
    for n in ([300, 5000] if not big else [63, 64, 65, 255, 256, 257, 300, 1024, 5000, 70000]):
        s_ = ''.join('abcdefghij'[i % 10] for i in range(n))
        add(f'string-{n}', f'{VAR} s = "{s_}";\n{P} s;\n{P} s + 1;\n{P} s == "{s_}";\n{P} [s];\n{P} {{k: s}};\n')
        add(f'identifier-{n}', f'{VAR} v{s_} = 3;\n{P} v{s_} + 1;\n{FUN} f{s_}(q{s_}) {{ {RET} q{s_}; }}\n{P} f{s_}(4);\n')
        add(f'string-grown-{min(n, 2000)}', f'{VAR} s = "";\n{FOR} ({VAR} i = 0; i < {min(n, 2000)}; i = i + 1) {{ s = s + "x"; }}\n{P} s == s + "";\n{P} s;\n')
        add(f'comment-{n}', f'/* {s_} */ {P} 1; // {s_}\n{P} 2;\n')
        add(f'number-{min(n, 400)}', f'{P} {"9" * min(n, 400)}.{"9" * 20};\n{P} 0.{"0" * min(n, 400)}1;\n')
    add('bangla-identifier-long', f'{VAR} ' + 'ক' * 200 + ' = 1;\n' + f'{P} ' + 'ক' * 200 + ';\n')

    # ---- many names in one scope: declare, shadow, assign and read every one of them
    for n in ([12, 40] if not big else [8, 9, 10, 16, 17, 33, 40, 100]):
        decl_outer = ''.join(f'{VAR} n{i} = {i};\n' for i in range(n))
        decl_inner = ''.join(f'{VAR} n{i} = {i + 100};\n' for i in range(n))
        asg = ''.join(f'n{i} = n{i} + 1000;\n' for i in range(n))
        rd = f'{P} [' + ', '.join(f'n{i}' for i in range(n)) + '];\n'
        add(f'scope-many-names-{n}', decl_outer + '{\n' + decl_inner + asg + rd + '}\n' + rd + asg + rd)
        add(f'scope-many-params-{n}', f'{FUN} f(' + ', '.join(f'n{i}' for i in range(n)) + ') {\n' + asg + f'{RET} [' + ', '.join(f'n{i}' for i in range(n)) + '];\n}\n' +
            decl_outer + f'{P} f(' + ', '.join(str(i * 2) for i in range(n)) + ');\n' + rd)
    # ---- long chains whose value depends on the grouping
    for n in ([60] if not big else [48, 49, 50, 60, 64, 65, 129, 300]):
        add(f'plus-chain-mixed-{n}', f'{P} ' + ' + '.join(['1'] * (n // 2) + ['"s"'] + ['1'] * (n // 2)) + ';\n' + f'{P} ' + ' + '.join(['0.1'] * n) + ';\n')
        add(f'minus-chain-{n}', f'{P} {n * 3} - ' + ' - '.join(['1'] * n) + ';\n')
        add(f'div-chain-{n}', f'{P} 1' + '0' * 30 + ' / ' + ' / '.join(['1.5'] * n) + ';\n')
        add(f'power-chain-{n}', f'{P} 1.01 ** ' + ' ** '.join(['1.1'] * min(n, 40)) + ';\n')
        add(f'compare-chain-{n}', f'{P} 1 < ' + ' < '.join(['2'] * 3) + ';\n' + f'{P} 5 - ' + ' + '.join(['2', '-3'] * (n // 2)) + ';\n')
    # ---- many of a kind
    for n in ([100, 500] if not big else [64, 65, 100, 256, 257, 500, 2000]):
        add(f'variables-{n}', ''.join(f'{VAR} v{i} = {i};\n' for i in range(n)) + f'{P} v0 + v{n - 1} + v{n // 2};\n')
        add(f'var-list-{min(n, 200)}', f'{VAR} ' + ', '.join(f'w{i} = {i}' for i in range(min(n, 200))) + f';\n{P} w{min(n, 200) - 1};\n')
        add(f'prints-{n}', ''.join(f'{P} {i};\n' for i in range(n)))
        add(f'functions-{min(n, 200)}', ''.join(f'{FUN} f{i}() {{ {RET} {i}; }}\n' for i in range(min(n, 200))) + f'{P} f0() + f{min(n, 200) - 1}();\n')
        add(f'operators-{n}', f'{P} ' + ' + '.join(str(i) for i in range(n)) + ';\n' + f'{P} ' + ' - '.join(str(i) for i in range(n)) + ';\n' + f'{P} "" + ' + ' + '.join(f'"{i % 10}"' for i in range(n)) + ';\n')
        add(f'logical-chain-{n}', f'{P} ' + ' || '.join([FALSE] * (n - 1) + ['"end"']) + ';\n' + f'{P} ' + ' && '.join([TRUE] * (n - 1) + ['"end"']) + ';\n')
        add(f'closures-{min(n, 200)}', f'{VAR} fs = [];\n{FOR} ({VAR} i = 0; i < {min(n, 200)}; i = i + 1) {{ {VAR} j = i; {FUN} h() {{ {RET} j; }} fs = {N["append"]}(fs, h); }}\n'
            f'{P} fs[0]();\n{P} fs[{min(n, 200) - 1}]();\n{P} fs[{min(n, 200) // 2}]();\n')
    return out
