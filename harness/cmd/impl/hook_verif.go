//go:build verif

package main

import "github.com/ah-naf/borno/interpreter"

func resetStdin() { interpreter.VerifResetStdin() }
