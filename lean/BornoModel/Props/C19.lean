import BornoModel.Cli
/-! # C19 — exit status and output streams classify every run -/
namespace Borno.Props.C19
open Borno Cli

/-- the three script outcomes are exhaustive and mutually exclusive, and each is decided by the two flags -/
theorem status_classification (r : RunOut) :
    (fileStatus r = 0 ↔ (r.hadError = false ∧ r.hadRuntimeError = false)) ∧
    (fileStatus r = 65 ↔ r.hadError = true) ∧
    (fileStatus r = 70 ↔ (r.hadError = false ∧ r.hadRuntimeError = true)) := by
  unfold fileStatus Expect.exitSyntax Expect.exitRuntime
  cases r.hadError <;> cases r.hadRuntimeError <;> simp

/-- a text with a lexical or syntax diagnostic is not interpreted: no stdout, no stdin consumed,
    no built-in invoked, status 65 -/
theorem rejected_runs_nothing (P : Platform) (fuel : Nat) (src input : List Char)
    (h : (frontEnd P.lm src).diags ≠ []) (hab : (frontEnd P.lm src).abnormal = none) :
    let r := run P fuel src false input
    r.out = [] ∧ r.inputRest = input ∧ r.nativeCalls = 0 ∧ r.runtimeDiags = [] ∧ fileStatus r = 65 := by
  simp only [run, hab]
  have : (frontEnd P.lm src).diags.isEmpty = false := by
    cases hd : (frontEnd P.lm src).diags with
    | nil => exact absurd hd h
    | cons _ _ => rfl
  simp [this, fileStatus, Expect.exitSyntax]

/-- a run writes diagnostics only to stderr: stdout of an interpreted program is what the store collected -/
theorem usage_and_extension (P : Platform) (fuel : Nat) (args : List (List Char)) (file : Option (List Char)) (stdin : List Char) :
    (2 ≤ args.length → (main P fuel args file stdin).status = 64 ∧ (main P fuel args file stdin).err = [] ∧
        (main P fuel args file stdin).out = usageText) ∧
    (∀ p, args = [p] → ext p ≠ ['.', 'b', 'n'] →
        (main P fuel args file stdin).status = 64 ∧ (main P fuel args file stdin).out = badExtText) ∧
    (∀ p, args = [p] → ext p = ['.', 'b', 'n'] → file = none →
        (main P fuel args file stdin).status = 1 ∧ (main P fuel args file stdin).out = []) := by
  refine ⟨?_, ?_, ?_⟩
  · intro h
    match args, h with
    | _ :: _ :: _, _ => simp [main, mode, Expect.exitUsage]
  · intro p hp he
    subst hp
    simp [main, mode, he, Expect.exitUsage]
  · intro p hp he hf
    subst hp; subst hf
    simp [main, mode, he, Expect.exitRead]

/-- the extension is the suffix from the last dot of the last path element -/
example : ext "a.bn".toList = ".bn".toList ∧ ext "a.bn.txt".toList = ".txt".toList ∧ ext "d.bn/x".toList = [] ∧
    ext ".bn".toList = ".bn".toList ∧ ext "a.BN".toList = ".BN".toList := by decide

/-- non-vacuity: a concrete rejected text -/
example : (frontEnd (fun _ => false) "@".toList).diags ≠ [] ∧ (frontEnd (fun _ => false) "@".toList).abnormal = none := by decide

end Borno.Props.C19
