import BornoModel.Expect
/-!
# Lexer — model of `lexer/scanner.go`

Suffix style: the scanner state is the unread suffix of the source and the current line.  The
two partial host operations of the Go code (`advance` past the end, the slice
`source[start+1:current-1]`) show up as `none` (= a Go panic).  `lm` is
`unicode.IsLetter(r) || unicode.IsMark(r)`; theorems hold for every `lm`, the driver uses the
range tables extracted from the Go toolchain.
-/
namespace Borno

/-- a diagnostic line pair as written to stderr -/
inductive Diag
  /-- `[line N] Error<where>: <msg>` (lexer, parser) -/
  | static (line : Nat) (wher : List Char) (msg : List Char)
  /-- `<msg>` newline `[line N]` (interpreter) -/
  | runtime (msg : List Char) (line : Nat)
  deriving DecidableEq, Repr, Inhabited

def Diag.line : Diag → Nat
  | .static l _ _ => l
  | .runtime _ l => l

namespace Lexer

def isDigit (c : Char) : Bool :=
  Expect.digitRanges.any fun (lo, hi) => lo ≤ c.toNat && c.toNat ≤ hi

/-- `utils.ConvertBanglaDigitsToASCII`, one character -/
def translitChar (c : Char) : Char :=
  match Expect.digitMap.lookup c.toNat with
  | some a => Char.ofNat a
  | none => c

def translit (s : List Char) : List Char := s.map translitChar

section
variable (lm : Char → Bool)

def isAlpha (c : Char) : Bool := lm c || c = '_'
def isAlphaNum (c : Char) : Bool := isAlpha lm c || isDigit c

/-- result of scanning one lexeme (or one piece of trivia); `used` is the text consumed (ghost:
    the Go scanner only advances `current`) -/
structure Step where
  tok : Option Token
  diag : Option Diag
  used : List Char
  rest : List Char
  line : Nat
  deriving Repr

def isNl (c : Char) : Bool := c == '\n'
def notNl (c : Char) : Bool := !(c == '\n')
def notQuote (c : Char) : Bool := !(c == '"')

def countNl (s : List Char) : Nat := (s.filter isNl).length

/-- body of `multilineComment`: the text consumed up to and including the closing `*/` (all of it when
    unterminated) and whether it was terminated -/
def blockComment : List Char → List Char × Option (List Char)
  | [] => ([], none)
  | c :: r =>
    if c = '*' then
      match r with
      | d :: r' =>
        if d = '/' then ([c, d], some r')
        else let (u, k) := blockComment r; (c :: u, k)
      | [] => ([c], none)
    else let (u, k) := blockComment r; (c :: u, k)

def unexpectedChar : List Char := "Unexpected character.".toList
def unterminatedString : List Char := "Unterminated string.".toList
def unterminatedComment : List Char := "Unterminated multiline comment".toList
def invalidNumber : List Char := "Invalid number format".toList

def plainTok (tt : TT) (lexeme : List Char) (rest : List Char) (line : Nat) : Step :=
  ⟨some ⟨tt, lexeme, .none, line⟩, none, lexeme, rest, line⟩

/-- one- or two-character operator: `c` then the alternatives for the second character -/
def scanTwo (c : Char) (alts : List (Char × TT)) (dflt : TT) (r : List Char) (line : Nat) : Step :=
  match r with
  | d :: r' =>
    (match alts.lookup d with
     | some tt => plainTok tt [c, d] r' line
     | none => plainTok dflt [c] r line)
  | [] => plainTok dflt [c] r line

/-- after a `/`: line comment, block comment, or the SLASH token -/
def scanSlash (r : List Char) (line : Nat) : Step :=
  match r with
  | d :: r' =>
    if d = '/' then
      -- line comment: up to, not including, the newline
      ⟨none, none, '/' :: '/' :: r'.takeWhile notNl, r'.dropWhile notNl, line⟩
    else if d = '*' then
      (match blockComment r' with
       | (u, some rest) => ⟨none, none, '/' :: '*' :: u, rest, line + countNl u⟩
       | (u, none) => ⟨none, some (.static (line + countNl u) [] unterminatedComment), '/' :: '*' :: u, [], line + countNl u⟩)
    else plainTok .SLASH ['/'] r line
  | [] => plainTok .SLASH ['/'] r line

/-- string literal after the opening quote; `none` = the slice `source[start+1:current-1]` would panic -/
def scanString (r : List Char) (line : Nat) : Option Step :=
  let body := r.takeWhile notQuote
  let rest := r.dropWhile notQuote
  let line' := line + countNl body
  match rest with
  | [] => some ⟨none, some (.static line' [] unterminatedString), '"' :: body, [], line'⟩
  | q :: rest' =>
    let lexeme := '"' :: body ++ [q]
    if lexeme.length < 2 then none
    -- value := source[start+1 : current-1] = the text between the quotes
    else some ⟨some ⟨.STRING, lexeme, .str body, line'⟩, none, lexeme, rest', line'⟩

/-- optional fraction: a point is consumed only if a digit follows -/
def numFrac (r1 : List Char) : List Char × List Char :=
  match r1 with
  | p :: d :: r' =>
    if p = '.' && isDigit d then
      ('.' :: d :: r'.takeWhile isDigit, r'.dropWhile isDigit)
    else ([], r1)
  | _ => ([], r1)

/-- number literal starting with the digit `c` -/
def scanNumber (c : Char) (r : List Char) (line : Nat) : Step :=
  let ds := r.takeWhile isDigit
  let fr := numFrac (r.dropWhile isDigit)
  let lexeme := c :: ds ++ fr.1
  match F64.parseFloat (translit lexeme) with
  | .ok x => ⟨some ⟨.NUMBER, lexeme, .num x, line⟩, none, lexeme, fr.2, line⟩
  | _ => ⟨none, some (.static line [] invalidNumber), lexeme, fr.2, line⟩

/-- identifier or keyword starting with `c` -/
def scanWord (c : Char) (r : List Char) (line : Nat) : Step :=
  let word := c :: r.takeWhile (isAlphaNum lm)
  plainTok ((Expect.keywords.lookup word).getD .IDENTIFIER) word (r.dropWhile (isAlphaNum lm)) line

/-- `scanToken` after `s.start = s.current`; `none` = the Go code would panic -/
def scanToken : List Char → Nat → Option Step
  | [], _ => none
  | c :: r, line =>
    match Expect.singleOps.lookup c with
    | some tt => some (plainTok tt [c] r line)
    | none =>
    match Expect.twoOps.lookup c with
    | some (alts, dflt) => some (scanTwo c alts dflt r line)
    | none =>
    if c = '/' then some (scanSlash r line)
    else if Expect.blanks.contains c then some ⟨none, none, [c], r, line⟩
    else if c = '\n' then some ⟨none, none, [c], r, line + 1⟩
    else if c = '"' then scanString r line
    else if isDigit c then some (scanNumber c r line)
    else if isAlpha lm c then some (scanWord lm c r line)
    else some ⟨none, some (.static line [] unexpectedChar), [c], r, line⟩

/-- `ScanTokens`: fuel `src.length + 1` always suffices (`scan_fuel_ok`) -/
def scanLoop : Nat → List Char → Nat → Option (List Token × List Diag)
  | 0, _, _ => none
  | _ + 1, [], line => some ([⟨.EOF, [], .none, line⟩], [])
  | f + 1, c :: r, line =>
    match scanToken lm (c :: r) line with
    | none => none
    | some st =>
      match scanLoop f st.rest st.line with
      | none => none
      | some (ts, ds) => some (st.tok.toList ++ ts, st.diag.toList ++ ds)

def scan (src : List Char) : Option (List Token × List Diag) :=
  scanLoop lm (src.length + 1) src 1

end
end Lexer
end Borno
