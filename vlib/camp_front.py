# Campaigns for the front end: C09 (tokens), C10 (numeric literals), C01 (trees), C08 (accept/reject)
import itertools
from .core import *
from .gen import *
from .runner import *
from . import numcheck

LEXKEYS = ('_', 'E', 'F')

# ---------------------------------------------------------------- C09

FRAGS = ['(', ')', '{', '}', '[', ']', ',', '.', '-', ':', '+', ';', '|', '&', '^', '~', '*', '!', '=', '<', '>', '%', '/',
         '1', '০', '7', 'a', 'ক', 'া', '_', '"', ' ', '\t', '\r', '\n', '@', '#', '\x00', 'é', '\U0001F600',
         'nil', KW['or'], KW['if'], '́', '্']
FRAGS_SMALL = ['(', '.', '-', '|', '&', '*', '!', '=', '<', '>', '/', '1', '০', 'a', 'া', '_', '"', ' ', '\n', '@', KW['or'], '\x00']

def all_strings(frags, maxlen):
    for n in range(0, maxlen + 1):
        for t in itertools.product(frags, repeat=n):
            yield ''.join(t)

def random_text(rng):
    parts = []
    for _ in range(1 + rng.below(30)):
        k = rng.below(12)
        if k == 0:
            parts.append('"' + ''.join(rng.choice(['a', ' ', '\n', 'ক', '/', '*', '\\', "'", '\t']) for _ in range(rng.below(8))) + ('"' if rng.chance(9, 10) else ''))
        elif k == 1:
            parts.append('//' + ''.join(rng.choice(['x', ' ', '"', '*', '/', 'ক']) for _ in range(rng.below(6))) + ('\n' if rng.chance(4, 5) else ''))
        elif k == 2:
            parts.append('/*' + ''.join(rng.choice(['x', ' ', '\n', '*', '/', '"', '**', '*/x']) for _ in range(rng.below(6))) + rng.choice(['*/', '**/', '*/', '', '***/']))
        elif k == 3:
            parts.append(rng.choice(list(KW.values())))
        elif k == 4:
            parts.append(''.join(rng.choice(['1', '9', '১', '৯', '.']) for _ in range(1 + rng.below(6))))
        elif k == 5:
            parts.append(rng.choice(['\n', '\n\n', ' ', '\t', '\r\n']))
        else:
            parts.append(rng.choice(FRAGS))
    return ''.join(parts)

def keyword_lookalikes():
    """words that are NOT keywords but differ from one only by Unicode normalisation, case, a joiner or a
    neighbouring letter: each must lex as an identifier"""
    import unicodedata
    out = []
    for name, kw in KW.items():
        for form in ('NFD', 'NFC', 'NFKD', 'NFKC'):
            v = unicodedata.normalize(form, kw)
            if v != kw:
                out.append(v)
        out.append(kw + '\u200d')          # zero-width joiner appended
        out.append(kw[:-1])                 # one character short
        out.append(kw + kw[-1])             # last character doubled
        out.append(kw.replace('\u09df', '\u09af'))   # without the nukta
    out += [w.upper() for w in ['nil']] + ['Nil', 'nill', 'ni']
    seen, res = set(), []
    for w in out:
        if w and w not in seen and w not in KW.values() and w != 'nil':
            seen.add(w); res.append(w)
    return res

FOREIGN_NUMERALS = ['0x10', '0xFF', '0Xff', '0x', '0xg', '0b101', '0o17', '017', '1e5', '1E5', '1e+5', '1e-5', '1e', '1_000', '1__0', '1_', '_1', '1.', '.5', '1..2', '1.2.3', '1f', '1L', '1n', '1u',
                    '0.1f', '1d', '1,000', '1,00,000', '12,345.6', '1 000', "1'000", '১,০০০', '১০,২০০', '৫,১০০', '১,২০,৩০০', '১_০০০', '০x১০', '১e৫', '১.', '.৫', '১..২', '1/2', '1:2', '1%', '১%', '$1', '#1', '1st', '2nd', '১ম',
                    '0.', '00', '007', '০০৭', '1.0e10', 'Infinity', 'inf', 'NaN', '+1', '-1', '--1', '+-1', '1+', '1-', '1e--5']

def foreign_numeral_texts():
    out = []
    for t in FOREIGN_NUMERALS:
        out += [t, t + ';', '[' + t + ']', 'f(' + t + ')', 'x=' + t + ';', t + ' ' + t, '(' + t + ',' + t + ')', t + '+' + t, '"' + t + '"']
    return out

def c09(tier, rng):
    cases = []
    for t in foreign_numeral_texts():
        cases.append(run_case('lex', t, label='foreign-numeral'))
    maxlen = 3
    from .words import WORDS
    for w in WORDS:
        for t in (w, w + '(', w + '-3', w + ' ' + w, 'a' + w, w + '1', w + '_', '!' + w, w + '=' + w + ';'):
            cases.append(run_case('lex', t, label='natural-word'))
    for w in keyword_lookalikes():
        cases.append(run_case('lex', w, label='keyword-lookalike'))
        cases.append(run_case('lex', w + ' = 1;', label='keyword-lookalike'))
        cases.append(run_case('lex', '(' + w + ')', label='keyword-lookalike'))
    for s in all_strings(FRAGS, maxlen):
        cases.append(run_case('lex', s, label='frag'))
    if tier == 'thorough':
        for s in all_strings(FRAGS_SMALL, 4):
            if len([1 for _ in s]) >= 0:
                cases.append(run_case('lex', s, label='frag4'))
    # characters that coincide with an operator character only after truncation to a byte, or only when two
    # characters are packed into one small integer: each must lex exactly as the unrelated character it is
    opchars = ['=', '&', '|', '*', '<', '>', '!', '/', '"', '.', ';', '(', '_', '0', '9', ' ', '\n']
    highs = [0x01, 0x04, 0x09, 0x20, 0x21, 0x30, 0x4e, 0xff, 0x100, 0x1f6] if tier == 'quick' else list(range(1, 0x110)) + [0x1f6, 0x2fa, 0xe00, 0x10ff]
    for oc in opchars:
        for h in highs:
            cp = h * 256 + ord(oc)
            if 0xD800 <= cp <= 0xDFFF or cp > 0x10FFFF:
                continue
            ch = chr(cp)
            for first in ['=', '!', '<', '>', '&', '|', '*', '/', 'a', '1', ' ', '\n', '"']:
                cases.append(run_case('lex', first + ch, label='low-byte-twin'))
            cases.append(run_case('lex', ch + '=', label='low-byte-twin'))
            cases.append(run_case('lex', 'x ' + ch + ' y\n@', label='low-byte-twin'))
    # very many DISTINCT lexemes in one text (a table keyed by anything shorter than the lexeme itself shows here:
    # 300 000 names make about ten pairs agree on any 32-bit key)
    for k_, (alpha_, cnt) in enumerate([('abcdefghijklmnopqrstuvwxyz_', 300000 if tier == 'quick' else 1000000), ('কখগঘঙচছজঝঞটঠডঢণতথদধনপফবভমযরল_', 200000), ('0123456789', 200000), ('০১২৩৪৫৬৭৮৯', 100000)]):
        import random as _random
        r_ = _random.Random(rng.fork(5000 + k_).next())      # derived from the one campaign seed
        seen_ = set()
        while len(seen_) < cnt:
            w_ = ''.join(r_.choices(alpha_, k=r_.randint(3, 11)))
            if alpha_[0] in '0০':
                w_ = alpha_[r_.randint(1, 9)] + w_ + '.' + alpha_[r_.randint(0, 9)] + alpha_[r_.randint(1, 9)]
            seen_.add(w_)
        cases.append(run_case('lex', ' '.join(sorted(seen_)), label='many-distinct-lexemes'))
    # single code points
    step = 1 if tier == 'thorough' else 23
    cps = list(range(0, 0x3100)) + list(range(0x3100, 0x110000, step)) + [0xD7FF, 0xE000, 0xFFFD, 0xFFFF, 0x10000, 0x10FFFF]
    for cp in cps:
        if 0xD800 <= cp <= 0xDFFF:
            continue
        cases.append(run_case('lex', chr(cp), label='cp'))
        if cp < 0x3100:
            cases.append(run_case('lex', 'a' + chr(cp) + '1', label='cp-in-word'))
    n = 3000 if tier == 'quick' else 60000
    for i in range(n):
        cases.append(run_case('lex', random_text(rng.fork(i)), label='random'))
    # invalid UTF-8 (Go turns each bad byte into U+FFFD)
    for bs in [b'\xff', b'a\xc3', b'\xe0\x80\x80', b'\xed\xa0\x80', b'\xf4\x90\x80\x80', b'"\xc3\x28"', b'\xc0\xaf', b'1\xfe2']:
        cases.append(Case('bad-utf8', req('lex', bs), LEXKEYS, src=bs.decode('latin1')))
    rule = (f'every string of <= {maxlen} fragments over {len(FRAGS)} lexical fragments' +
            (f', every string of <= 4 over {len(FRAGS_SMALL)} fragments' if tier == 'thorough' else '') +
            f'; characters whose low byte is an operator / digit / quote / blank character, after each operator prefix ({len(opchars)} x {len(highs)} code points x 15 contexts); {len(FOREIGN_NUMERALS)} numeral spellings of other languages and locales (hex, octal, exponents, digit-group separators in both scripts, suffixes) in 9 contexts; four texts of 100 000 – 1 000 000 distinct names / numbers in either script; {len(keyword_lookalikes())} keyword look-alikes (other normalisation forms, joiners, neighbours); {len(WORDS)} natural-language words (Bangla and English logic / arithmetic / control words that are NOT keywords) in 9 contexts; single code points (step {step} above U+3100, all below, each also inside a word); {n} seeded random texts with '
            'multi-line strings and comments; malformed UTF-8. Non-trivial = produces a token other than EOF or a diagnostic.')
    # the text of a script file reaches the scanner as it is: a first line that looks like a directive to a shell, an
    # editor or another language is scanned like any other (through the executable, against the model)
    from .camp_cli import DIRECTIVE_LINES
    cli = []
    for first in DIRECTIVE_LINES:
        for rest in ('', KW['print'] + ' 1;\n'):
            cli.append(CliCase('first-line-directive', ['s.bn'], {'s.bn': (first + '\n' + rest).encode()}, b'', 's.bn'))
    return {'cases': cases, 'cli': cli, 'rule': rule + f' {len(cli)} script files whose first line looks like a directive (shebang, pragma, coding line), through the executable.', 'exhaustive': True}

# ---------------------------------------------------------------- C10

def swap_script(s, rng=None):
    out = []
    for c in s:
        if '0' <= c <= '9' and (rng is None or rng.chance(1, 2)):
            out.append(chr(0x09E6 + ord(c) - 48))
        elif '০' <= c <= '৯' and (rng is None or rng.chance(1, 2)):
            out.append(chr(48 + ord(c) - 0x09E6))
        else:
            out.append(c)
    return ''.join(out)

def long_literals(tier):
    out = []
    for n in ([799, 800, 801, 1000, 2000] if tier == 'quick' else [255, 256, 257, 511, 513, 767, 768, 769, 799, 800, 801, 802, 1023, 1025, 2000, 5000, 20000]):
        out.append('0' * n + '7')                                   # leading zeros, the value is in the tail
        out.append('0.' + '0' * n + '7' if n < 320 else '0.' + '0' * 300 + '1' * (n - 300))
        out.append('9007199254740993.' + '0' * n + '1')             # a halfway case decided by a digit far to the right
        out.append('9007199254740992.' + '9' * n)
        out.append('1' + '0' * 15 + '.' + '5' + '0' * n + '1')      # tie broken beyond the buffer
        out.append('3.' + '141592653589793238462643383279' * (n // 30 + 1))
        out.append('1' * 17 + '.' + '2' * n)
    return out

def c10(tier, rng):
    cases = []
    raw = []     # raw `num` requests (compared verbatim)
    # transliteration is a per-character function: every code point
    step = 1 if tier == 'thorough' else 7
    cps = [cp for cp in list(range(0, 0x20000)) + list(range(0x20000, 0x110000, step)) if not (0xD800 <= cp <= 0xDFFF)]
    for cp in cps:
        raw.append('num\ttr\t' + hx(chr(cp)))
    # digit classification around both ranges
    for cp in list(range(0x20, 0x50)) + list(range(0x09D0, 0x0A10)) + [0x0660, 0x0669, 0x0966, 0x096F, 0xFF10, 0xFF19, 0x1D7CE]:
        cases.append(run_case('lex', chr(cp), label='digit-class'))
        cases.append(run_case('lex', '1' + chr(cp), label='digit-class'))
        cases.append(run_case('lex', '1.' + chr(cp), label='digit-class'))
    for t in foreign_numeral_texts():
        cases.append(run_case('lex', t, label='foreign-numeral'))
        cases.append(run_case('run', KW['print'] + ' ' + t + ';', label='foreign-numeral-print', keys=('O', 'E', 'F')))
    alpha = ['0', '1', '9', '০', '৫', '৯', '.', ',']
    maxlen = 5 if tier == 'quick' else 6
    for s in all_strings(alpha, maxlen):
        if s:
            cases.append(run_case('lex', s, label='digits'))
    n = 3000 if tier == 'quick' else 40000
    lits = []
    for r in numcheck.literal_requests(rng.fork(1), n):
        t = unhx(r.split('\t')[2]).decode()
        raw.append(r)
        if t and all(c in '0123456789.' for c in t) and t[0] != '.' and t[-1] != '.' and t.count('.') <= 1:
            lits.append(t)
    ll = long_literals(tier)
    for t in ll:
        raw.append('num\tpf\t' + hx(t))
        lits.append(t)
    pairs = []
    for i, t in enumerate(lits):
        sw = swap_script(t, rng.fork(i))
        full = swap_script(t)
        g = f'lit{i}'
        for v in (t, sw, full):
            cases.append(run_case('lex', v, label='literal', group=g))
        cases.append(run_case('run', KW['print'] + ' ' + sw + ';', label='literal-print', keys=('O', 'E', 'F')))
    rule = (f'utils.ConvertBanglaDigitsToASCII on every code point (step {step} above U+20000); digit classification around both digit ranges; '
            f'{len(FOREIGN_NUMERALS)} numeral spellings of other languages and locales in 9 contexts, lexed and printed; every string of <= {maxlen} over {alpha}; {len(lits)} seeded literals up to 400 digits (halfway cases, subnormals, overflow threshold) and {len(ll)} of {min(len(x) for x in ll)}..{max(len(x) for x in ll)} characters whose value is decided by their last digits, '
            'each in ASCII, mixed and Bangla script (the three must give the same Literal bits), and printed. Non-trivial = NUMBER token or diagnostic.')
    return {'cases': cases, 'raw': raw, 'rule': rule, 'exhaustive': tier == 'thorough',
            'oracles': [oracle_same_literal]}

def oracle_same_literal(cases):
    """script swap must not change the token value (implementation alone)"""
    bad = []
    groups = {}
    for c in cases:
        if c.group:
            groups.setdefault(c.group, []).append(c)
    for g, cs in groups.items():
        vals = set()
        for c in cs:
            head = fields(c.impl).get('_', c.impl)
            toks = head.split(' ')
            vals.add(tuple(t.split(':')[3] if t.count(':') >= 4 else t for t in toks) + (fields(c.impl).get('E', ''),))
        if len(vals) > 1:
            bad.append((cs[0], 'the same literal in another digit script has a different value: ' + ' / '.join(repr(c.src) for c in cs)))
    return bad

# ---------------------------------------------------------------- C01 / C08: token sequences and trees

TOK_ALPHA = ['||', '&&', '|', '^', '&', '==', '<', '<<', '+', '*', '**', '!', '-', '~', '=', '(', ')', '[', ']', '{', '}', ',', '.', ':', ';',
             'a', '1', '"s"', KW['var'], KW['fun'], KW['if'], KW['else'], KW['while'], KW['for'], KW['print'], KW['return'], KW['break'], KW['true']]

def token_sequences(maxlen, alpha=TOK_ALPHA):
    for n in range(1, maxlen + 1):
        for t in itertools.product(alpha, repeat=n):
            yield t

OPS_BY_LEVEL = LADDER

def expr_trees(depth, leaves):
    """every expression tree of the given depth over every node form (one operator per level)"""
    if depth == 0:
        return list(leaves)
    sub = expr_trees(depth - 1, leaves)
    small = sub if len(sub) <= 6 else sub[:6]
    out = list(leaves)
    for ops in OPS_BY_LEVEL:
        op = ops[0]
        for l in small:
            for r in small:
                out.append(('bin', op, l, r))
    for op in UNARY:
        for e in small:
            out.append(('un', op, e))
    for e in small:
        out.append(('grp', e))
        out.append(('call', e, []))
        out.append(('call', e, [small[0]]))
        out.append(('idx', e, small[0]))
        out.append(('prop', e, 'p'))
        out.append(('arr', [e, small[-1]]))
        out.append(('obj', [('k', e)]))
        out.append(('asg', ('id', 'a'), e))
        out.append(('asg', ('idx', ('id', 'a'), e), small[0]))
        out.append(('asg', ('prop', ('id', 'a'), 'p'), e))
    return out

def paren_all(e):
    """fully parenthesised copy: every operand wrapped in an explicit group"""
    k = e[0]
    g = lambda x: ('grp', paren_all(x))
    if k == 'bin':
        return ('bin', e[1], g(e[2]), g(e[3]))
    if k == 'un':
        return ('un', e[1], g(e[2]))
    if k == 'grp':
        return ('grp', paren_all(e[1]))
    if k == 'call':
        return ('call', g(e[1]), [g(a) for a in e[2]])
    if k == 'idx':
        return ('idx', g(e[1]), g(e[2]))
    if k == 'prop':
        return ('prop', g(e[1]), e[2])
    if k == 'arr':
        return ('arr', [g(a) for a in e[1]])
    if k == 'obj':
        return ('obj', [(n, g(x)) for n, x in e[1]])
    if k == 'asg':
        t = e[1]
        if t[0] == 'idx':
            t = ('idx', g(t[1]), g(t[2]))
        elif t[0] == 'prop':
            t = ('prop', g(t[1]), t[2])
        return ('asg', t, g(e[2]))
    return e

# S-expression helpers for the tree dumps
def sexp_parse(s):
    toks = s.replace('(', ' ( ').replace(')', ' ) ').replace('[', ' [ ').replace(']', ' ] ').split()
    pos = 0
    def rd():
        nonlocal pos
        t = toks[pos]; pos += 1
        if t in ('(', '['):
            close = ')' if t == '(' else ']'
            out = [t]
            while toks[pos] != close:
                out.append(rd())
            pos += 1
            return out
        return t
    out = []
    while pos < len(toks):
        out.append(rd())
    return out

def strip_groups(t):
    """drop Grouping nodes and every line number, keeping the shape"""
    if isinstance(t, list):
        if len(t) >= 3 and t[0] == '(' and t[1] == 'grp':
            return strip_groups(t[2])
        return [strip_groups(x) for x in t if not (isinstance(x, str) and x.isdigit())]
    return t

def nest_stmts(depth):
    """statement skeletons nesting if / else / while / for, to exercise the dangling else"""
    P = lambda t: ('print', ('str', t))
    if depth == 0:
        return [P('x'), ('block', [P('y')])]
    sub = nest_stmts(depth - 1)[:4]
    out = []
    c = ('id', 'c')
    for s in sub:
        out.append(('if', c, s, None))
        out.append(('while', c, s))
        out.append(('for', None, c, None, s))
        for s2 in sub[:3]:
            out.append(('if', c, s, s2))
    return out + sub

def r_stmt_flat(s):
    """one-line rendering without braces being added: the dangling-else text as a user would type it"""
    return r_stmt(s, Style(nl=' '))

def c01(tier, rng, for_c08=False):
    cases = []
    one = Style(nl=' ')
    # (a) token sequences
    maxlen = 3
    for t in token_sequences(maxlen):
        cases.append(run_case('parse', ' '.join(t), label='tokseq'))
    if tier == 'thorough':
        for t in itertools.product(TOK_ALPHA, repeat=4):
            cases.append(run_case('parse', ' '.join(t), label='tokseq4'))
    nrand = 20000 if tier == 'quick' else 300000
    for i in range(nrand):
        r = rng.fork(i)
        n = 4 + r.below(9)
        toks = [r.choice(TOK_ALPHA) for _ in range(n)]
        cases.append(run_case('parse', (' ' if r.chance(2, 3) else '\n').join(toks), label='tokseq-random'))
    # (b) trees: minimal rendering and fully parenthesised rendering
    leaves = [('id', 'a'), ('num', '1')]
    trees = expr_trees(2, leaves)
    if tier == 'quick':
        trees = [t for i, t in enumerate(trees)]
    for i, e in enumerate(trees):
        g = f'tree{i}'
        cases.append(run_case('parse', r_expr(e) + ';', label='tree', group=g))
        cases.append(run_case('parse', r_expr(paren_all(e)) + ';', label='tree-paren', group=g))
    # adjacent and distant level pairs / triples
    allops = [op for ops in LADDER for op in ops]
    a, b_, c, d = ('id', 'a'), ('id', 'b'), ('num', '2'), ('num', '3')
    k = 0
    for o1 in allops:
        for o2 in allops:
            for pre in ('', '-', '!', '~'):
                src = f'{pre}a {o1} {pre}b {o2} 3'
                cases.append(run_case('parse', src + ';', label='pair'))
                k += 1
    reps = [ops[0] for ops in LADDER] + ['-', '/', '>=', '!=']
    for o1 in reps:
        for o2 in reps:
            for o3 in reps:
                cases.append(run_case('parse', f'a {o1} b {o2} c {o3} d;', label='triple'))
    for pre in UNARY:
        for pre2 in UNARY + ['']:
            for suf in ['(1)', '[1]', '.p', '(1)[2].q(3)', '']:
                cases.append(run_case('parse', f'{pre}{pre2}a{suf} ** {pre}b{suf};', label='prefix-suffix-power'))
    for n in range(1, 5):
        for chain in itertools.product(['(1)', '[1]', '.p', '()'], repeat=n):
            cases.append(run_case('parse', 'a' + ''.join(chain) + ';', label='suffix-chain'))
            cases.append(run_case('parse', 'a' + ''.join(chain) + ' = 1;', label='suffix-chain-assign'))
    # natural-language words that are not keywords are plain identifiers wherever an operand may stand
    from .words import WORDS
    for w in WORDS:
        for t in (f'{w} - 3;', f'{w}(v);', f'{w}[0];', f'{w}.p;', f'{w} = 1;', f'-{w};', f'!{w};', f'a + {w} * b;', f'{w} (a) - b;', f'x = {w} - -1;',
                  f'f({w}, {w} - 1);', f'a {w} b;', f'{w} {w};', f'a && {w} || {w}(1);', f'[{w}, {w}(2)][{w}];', f'{{{w}: {w}}};'):
            cases.append(run_case('parse', t, label='natural-word'))
    # a property may be named like a built-in or any other word: the suffix chain is the same chain
    for w in list(NAT.values()) + WORDS[:30]:
        for t in (f'o.{w}(x);', f'o.{w};', f'o.{w} = 1;', f'(o.{w})(x);', f'o.{w}(x)(y).{w}[0];', f'o.p.{w}(1, 2);', f'f(o.{w}(x), {w}(o));', f'{{{w}: 1}};', f'-o.{w}(x) ** 2;', f'o[0].{w}(x);', f'o.{w}.{w}(o.{w});'):
            cases.append(run_case('parse', t, label='property-named-like-builtin'))
    for op_ in ['||', '&&', '|', '^', '&', '==', '!=', '<', '>=', '<<', '>>', '-', '+', '/', '*', '%', '**']:
        for n_ in ([49, 60] if tier == 'quick' else [33, 48, 49, 50, 64, 65, 129, 300]):
            cases.append(run_case('parse', f' {op_} '.join(f'a{i}' for i in range(n_)) + ';', label='long-chain'))
    for n_ in ([40, 300] if tier == 'quick' else [33, 64, 65, 255, 256, 257, 300, 600]):
        cases.append(run_case('parse', 'a' + '.p' * n_ + ';', label='long-chain'))
        cases.append(run_case('parse', 'a' + '[0]' * n_ + ';', label='long-chain'))
        cases.append(run_case('parse', 'a' + '(1)' * n_ + ';', label='long-chain'))
        cases.append(run_case('parse', '(' * n_ + 'a' + ')' * n_ + ';', label='long-chain'))
        cases.append(run_case('parse', 'x = ' * n_ + '1;', label='long-chain'))
        cases.append(run_case('parse', '-' * n_ + 'a;', label='long-chain'))
        cases.append(run_case('parse', '[' * n_ + ']' * n_ + ';', label='long-chain'))
        cases.append(run_case('parse', 'f(' + ', '.join(f'a{i}' for i in range(n_)) + ');', label='long-chain'))
    for src in ['a = b = c;', 'a = b = c = 1 + 2;', 'a[1] = b.p = c;', 'a = b || c = d;', '(a) = 1;', 'a + b = c;', '1 = 2;', 'a = (b = c);', '-a = 1;', 'a() = 1;',
                '(a[0]) = 1;', '((o.k)) = 7;', '(a)[0] = 1;', '(o).k = 1;', '(a = 1) = 2;', '[a] = 1;', '{k: 1} = 2;', 'a.k() = 1;', 'a[0]() = 1;', '"s" = 1;',
                'nil = 1;', '(nil) = 1;', '((a)) = 1;', 'a = (1);', '!(a) = 1;']:
        cases.append(run_case('parse', src, label='assign-assoc'))
    # statements: dangling else at every nesting
    depth = 2 if tier == 'quick' else 3
    for i, s_ in enumerate(nest_stmts(depth)):
        cases.append(run_case('parse', r_stmt_flat(s_), label='stmt-nest'))
    # (c) random larger trees / programs
    nprog = 3000 if tier == 'quick' else 40000
    for i in range(nprog):
        p = random_program(rng.fork(100000 + i), 3 + rng.below(8), 3, err=5)
        cases.append(run_case('parse', r_prog(p), label='random-program'))
    rule = (f'every sequence of <= {maxlen}{" and every sequence of 4" if tier == "thorough" else ""} tokens over a {len(TOK_ALPHA)}-symbol alphabet '
            f'(one representative per operator level, literal, bracket, separator, keyword) and {nrand} seeded longer ones; every expression tree of depth <= 2 over all node forms, '
            'minimal and fully parenthesised; all ordered operator pairs with and without prefix operators, triples over one operator per level; prefix x suffix x power; suffix chains; '
            f'assignment chains; if/else/while/for nestings to depth {depth}; {nprog} generated programs. Non-trivial = accepted with a non-empty tree, or rejected with a diagnostic.')
    return {'cases': cases, 'rule': rule, 'exhaustive': True, 'oracles': [oracle_paren_roundtrip]}

def oracle_paren_roundtrip(cases):
    """implementation alone: a tree written with explicit parentheses parses to the same tree
    (Grouping nodes aside) as its minimal rendering"""
    bad = []
    groups = {}
    for c in cases:
        if c.group:
            groups.setdefault(c.group, []).append(c)
    for g, cs in groups.items():
        if len(cs) != 2:
            continue
        a, b = fields(cs[0].impl), fields(cs[1].impl)
        if a.get('F') != '00' or b.get('F') != '00':
            if a.get('F') != b.get('F'):
                bad.append((cs[0], f'minimal rendering {cs[0].src!r} and parenthesised rendering {cs[1].src!r} are not both accepted'))
            continue
        try:
            ta, tb = strip_groups(sexp_parse(a['_'])), strip_groups(sexp_parse(b['_']))
        except Exception as e:
            bad.append((cs[0], f'unreadable tree dump: {e}'))
            continue
        if ta != tb:
            bad.append((cs[0], f'{cs[0].src!r} does not parse to the tree its parenthesised form {cs[1].src!r} denotes'))
    return bad

# ---------------------------------------------------------------- C08

LEXFRAGS8 = [KW['var'], KW['fun'], KW['if'], KW['else'], KW['print'], KW['return'], 'a', NAT['len'], '1', '1.', '"s"', '"', '+', '=', '==', '(', ')', '{', '}', '[', ']',
             ',', '.', ';', ':', '/', '//', '/*', '*/', '@', '\n', ' ', '!']

def c08(tier, rng):
    cases = []
    maxlen = 3
    for t in itertools.product(LEXFRAGS8, repeat=maxlen):
        cases.append(run_case('parse', ''.join(t), label='fragseq'))
    for n in (1, 2):
        for t in itertools.product(LEXFRAGS8, repeat=n):
            cases.append(run_case('parse', ''.join(t), label='fragseq'))
    if tier == 'thorough':
        small = [KW['var'], KW['fun'], KW['if'], KW['else'], 'a', '1', '"', '=', '(', ')', '{', '}', ',', ';', '/*', '*/', '\n', ' ', NAT['len']]
        for t in itertools.product(small, repeat=4):
            cases.append(run_case('parse', ''.join(t), label='fragseq4'))
    # valid program prefixes extended by every token kind
    progs = [
        f'{KW["var"]} a = 1;', f'{KW["fun"]} f(a, b) {{ {KW["return"]} a; }}', f'{KW["if"]} (a) b; {KW["else"]} c;',
        f'{KW["while"]} (a) {{ b; }}', f'{KW["for"]} ({KW["var"]} i = 0; i < 3; i = i + 1) {KW["print"]} i;', 'a = [1, 2][0].p(3);', '{ a: 1 };', f'{KW["var"]} o = {{a: 1, b: [2]}};',
        f'{KW["for"]} (;;) {KW["break"]};', f'{KW["print"]} -a ** 2;',
    ]
    for p in progs:
        toks = p.split(' ')
        for cut in range(len(toks) + 1):
            pre = ' '.join(toks[:cut])
            for t in TOK_ALPHA:
                cases.append(run_case('parse', (pre + ' ' + t).strip(), label='prefix-ext'))
    # every code point of the Bengali block and of some symbol blocks as a bare token between statements:
    # letters and marks make identifiers, digits numbers, everything else is an unexpected character
    for cp in list(range(0x0980, 0x0A00)) + list(range(0x00A0, 0x00C0)) + list(range(0x2000, 0x2070, 3)) + [0x0964, 0x0965, 0x20B9, 0x09F3, 0xFEFF, 0x200B, 0x200C, 0x200D, 0x00AD]:
        cases.append(run_case('parse', f'{KW["print"]} 1;\n{chr(cp)};\n{KW["print"]} 2;\n', label='bare-code-point'))
        cases.append(run_case('parse', f'{KW["var"]} a{chr(cp)} = 1;\n', label='bare-code-point'))
    from .words import WORDS
    for w in WORDS:
        cases.append(run_case('parse', f'{KW["var"]} {w} = 1;\n{KW["fun"]} f({w}) {{ {KW["return"]} {w}; }}\n{KW["print"]} {w} - 1;\n{KW["if"]} ({w}) {w}(1); {KW["else"]} {w} = 2;\n', label='natural-word'))
        cases.append(run_case('parse', f'{KW["fun"]} {w}() {{}}\n{w}();\n{KW["for"]} ({KW["var"]} {w}1 = 0; {w}1 < 2; {w}1 = {w}1 + 1) {w};\n', label='natural-word'))
    # words that are not keywords but look like one (other normalisation forms, a joiner, a neighbour letter)
    # where the keyword would stand, and as a declared name
    for w in keyword_lookalikes():
        for t in (f'{KW["if"]} (1) {{ {KW["print"]} 1; }} {w} {{ {KW["print"]} 2; }}', f'{KW["var"]} {w} = 7;\n{KW["print"]} {w};', f'{w} (1) {{ }}', f'{w} x = 1;', f'{w};', f'{KW["fun"]} {w}() {{}}',
                  f'{KW["while"]} (1) {{ {w}; }}', f'{KW["fun"]} g() {{ {w} 1; }}', f'{KW["print"]} {w};', f'{KW["print"]} 1 {w} 2;'):
            cases.append(run_case('parse', t + '\n', label='keyword-lookalike'))
    for w in list(NAT.values()):
        for t in (f'o.{w}(x);', f'o.{w} = 1;', f'{{{w}: 1}};', f'{KW["var"]} {w} = 1;', f'{KW["fun"]} {w}() {{}}', f'{KW["fun"]} f({w}) {{ {w}(1); }}'):
            cases.append(run_case('parse', t + '\n', label='property-named-like-builtin'))
    # the texts দেখাও produces, read back as source: only what the grammar says is a program is one
    for t in ['1e+21', '1e-07', '1.5e+300', '2e+06', '+Inf', '-Inf', 'NaN', '-0', '[1 2 3]', '[1 2 3][0]', 'map[a:1]', 'map[a:1 b:2]', '<nil>', '<fn f>', '<native fn>', '1e21', '1E+5', '1.e+2', '0x10', '1_000', '.5', '5.', '1e', '১e+২', '1e+', '1e-x']:
        for ctx in ('{P} {t};', '{V} y = {t};', '{V} y = {t} + 1;', '{t};', 'f({t});', '[{t}];'):
            cases.append(run_case('parse', ctx.replace('{P}', KW['print']).replace('{V}', KW['var']).replace('{t}', t) + '\n', label='printed-form-as-source'))
    # reserved names, parameter limit, assignment targets, statements starting with `{`
    for name in list(NAT.values()) + ['input', 'a', 'inputx', KW['print']]:
        cases.append(run_case('parse', f'{KW["var"]} {name} = 1;', label='reserved'))
        cases.append(run_case('parse', f'{KW["fun"]} {name}() {{}}', label='reserved'))
        cases.append(run_case('parse', f'{KW["fun"]} f({name}) {{}}', label='reserved'))
        cases.append(run_case('parse', f'{name} = 1;', label='reserved'))
    for n in (0, 1, 254, 255, 256, 300):
        ps = ', '.join(f'p{i}' for i in range(n))
        cases.append(run_case('parse', f'{KW["fun"]} f({ps}) {{}}', label='params'))
        cases.append(run_case('parse', f'f({ps});', label='args'))
    # deep nesting
    deep = [500] if tier == 'quick' else [500, 3000, 10000]
    for d in deep:
        cases.append(run_case('parse', '(' * d + '1' + ')' * d + ';', label='deep'))
        cases.append(run_case('parse', '[' * d + ']' * d + ';', label='deep'))
        cases.append(run_case('parse', '{' * d + '}' * d, label='deep'))
        cases.append(run_case('parse', '-' * d + '1;', label='deep'))
        cases.append(run_case('parse', '(' * d, label='deep'))
    # run mode: nothing of a rejected text executes (in-process pipeline; the CLI part is in the cli list)
    cli = []
    rejected = [
        f'{KW["print"]} "one";\n{KW["print"]} "two"\n{KW["print"]} "three";',       # lenient `;`
        f'{KW["print"]} "one";\na = 1\n',                                             # lenient `;` after expression
        f'{{ {KW["print"]} "one";',                                                   # lenient `}}`
        f'{KW["fun"]} f() {{ {KW["print"]} "in"; ',
        f'{KW["print"]} "one";\n{KW["print"]} );',
        f'{KW["print"]} "one";\n@\n{KW["print"]} "two";',
        f'{KW["print"]} "one";\n"open',
        f'{KW["print"]} "one";\n/* open',
        f'{KW["print"]} "one";\n{KW["var"]} x = 1' + '0' * 400 + ';',
        f'{KW["print"]} "one";\n1 = 2;',
        f'{KW["for"]} (i = 0 i < 2; i = i + 1) {KW["print"]} i;',
    ]
    for i, src in enumerate(rejected):
        cases.append(run_case('run', src, label='rejected-runs-nothing'))
        cli.append(CliCase('rejected-runs-nothing', ['p.bn'], {'p.bn': src.encode()}, b'', 'p.bn'))
    from .camp_cli import DIRECTIVE_LINES
    for first in DIRECTIVE_LINES:
        cli.append(CliCase('first-line-directive', ['p.bn'], {'p.bn': (first + '\n' + KW['print'] + ' "ran";\n').encode()}, b'', 'p.bn'))
    # interactive mode: a line is a text of its own — a trailing backslash, a command of another shell are characters
    for sess in [KW['print'] + ' 1; \\\n' + KW['print'] + ' 2;\n', '\\\n1 + 1;\n', KW['print'] + ' "a" \\\n;\n', 'exit\n1 + 1;\n', 'quit\n' + KW['print'] + ' 2;\n', ':q\n1;\n', 'help\n1;\n', '#!x\n1;\n']:
        cli.append(CliCase('repl-line-is-a-text', [], {}, sess.encode(), None))
    nrand = 5000 if tier == 'quick' else 80000
    for i in range(nrand):
        r = rng.fork(i)
        if r.chance(1, 2):
            txt = random_text(r)
        else:
            # mutate a valid program: delete / duplicate / replace one token
            toks = r_prog(random_program(r, 2 + r.below(5), 2, err=0), Style(nl=' ')).split(' ')
            k = r.below(len(toks))
            m = r.below(3)
            if m == 0:
                del toks[k]
            elif m == 1:
                toks.insert(k, toks[k])
            else:
                toks[k] = r.choice(TOK_ALPHA)
            txt = ' '.join(toks)
        cases.append(run_case('parse', txt, label='fuzz'))
        if i % 10 == 0:
            cases.append(run_case('run', txt, label='fuzz-run'))
    rule = (f'every concatenation of <= {maxlen} of {len(LEXFRAGS8)} lexical fragments{" and of 4 over a 19-fragment subset" if tier == "thorough" else ""}; every prefix of {len(progs)} valid programs extended by every token kind; '
            f'reserved names in every declaring position; 0..300 parameters; nesting depth {deep}; {len(rejected)} rejected texts run through the pipeline and the CLI; {nrand} random / token-mutated texts. '
            'Non-trivial = non-empty tree or a diagnostic.')
    return {'cases': cases, 'cli': cli, 'rule': rule, 'exhaustive': True, 'oracles': [oracle_rejected_silent], 'cli_oracles': [cli_oracle_rejected]}

def oracle_rejected_silent(cases):
    bad = []
    for c in cases:
        f = fields(c.impl)
        if 'O' in f and f.get('F', '00')[0] == '1' and f['O'] != '':
            bad.append((c, 'a rejected text wrote to stdout: ' + untext(f['O'])[:80]))
        if f.get('F') and f['F'][0] == '1':
            # every static diagnostic names a line within the text
            err = untext(f.get('E', ''))
            nlines = (c.src.count('\n') + 1) if isinstance(c.src, str) else 1
            import re
            for m in re.finditer(r'^\[line (\d+)\] Error', err, flags=re.M):
                if not (1 <= int(m.group(1)) <= nlines):
                    bad.append((c, f'diagnostic names line {m.group(1)} outside the text ({nlines} lines)'))
                    break
    return bad

def cli_oracle_rejected(clis):
    bad = []
    for c in clis:
        if c.label == 'rejected-runs-nothing':
            if c.status != 65 or c.out != b'' or not c.err:
                bad.append((c, f'rejected text: status {c.status}, stdout {c.out[:60]!r}'))
    return bad
