import BornoModel.Eval
/-! # C14 — operands are evaluated once, left to right; logic short-circuits on truthiness -/
namespace Borno.Props.C14
open Borno

/-- exactly nil, false, ±0 and the empty string are falsy -/
theorem truthy_table (v : Val) :
    truthy v = false ↔ (v = .nil ∨ v = .bool false ∨ (∃ x, v = .num x ∧ x.isZero = true) ∨ v = .str []) := by
  cases v <;> simp [truthy]

/-- NaN, empty arrays and objects, and functions are truthy -/
theorem truthy_examples (r : Nat) (n : Expect.Native) :
    truthy (.num .nan) = true ∧ truthy (.arr r) = true ∧ truthy (.obj r) = true ∧ truthy (.fn r) = true ∧
    truthy (.native n) = true ∧ truthy (.num (F64.zero true)) = false ∧ truthy (.num (.inf true)) = true := by
  simp [truthy, F64.isZero, F64.zero]

/-- `!` uses the same truthiness -/
theorem bang_is_not_truthy (v : Val) : unop .BANG v = .ok (.bool (!truthy v)) := rfl

section
variable (P : Platform)

/-- `বা`: a truthy left operand is the result and the right operand is not evaluated; a falsy one
    hands over to the right operand, evaluated in the store the left one produced -/
theorem or_short_circuit (f : Nat) (l r : Expr) (env : Nat) (repl : Bool) (σ σ1 : Store) (a : Val)
    (h0 : σ.hadError = false) (hl : evalE P f l env repl σ = .ok (a, .none) σ1) :
    evalE P (f + 1) (.logical l .LOGICAL_OR r) env repl σ =
      if truthy a then .ok (a, .none) σ1 else evalE P f r env repl σ1 := by
  rw [evalE]; simp only [guardErr, ER.seq, Res.bind, h0, hl]; simp

theorem and_short_circuit (f : Nat) (l r : Expr) (env : Nat) (repl : Bool) (σ σ1 : Store) (a : Val)
    (h0 : σ.hadError = false) (hl : evalE P f l env repl σ = .ok (a, .none) σ1) :
    evalE P (f + 1) (.logical l .LOGICAL_AND r) env repl σ =
      if truthy a then evalE P f r env repl σ1 else .ok (a, .none) σ1 := by
  rw [evalE]; simp only [guardErr, ER.seq, Res.bind, h0, hl]; simp
  cases truthy a <;> simp

/-- binary operators: left operand, then the right operand in the store the left one produced,
    then the operator — each operand's evaluation occurs exactly once in the composite -/
theorem binary_left_then_right (f : Nat) (l r : Expr) (op : TT) (line env : Nat) (repl : Bool)
    (σ σ1 σ2 : Store) (a b : Val)
    (h0 : σ.hadError = false)
    (hl : evalE P f l env repl σ = .ok (a, .none) σ1) (h1 : σ1.hadError = false)
    (hr : evalE P f r env repl σ1 = .ok (b, .none) σ2) (h2 : σ2.hadError = false) :
    evalE P (f + 1) (.binary l op line r) env repl σ =
      match binop P σ2 op a b with
      | .ok v => .ok (v, .none) σ2
      | .error m => .ok (.nil, .none) (σ2.rte m line) := by
  rw [evalE]; simp only [guardErr, ER.seq, Res.bind, h0, hl, h1, hr, h2]; simp [guardErr, ER.seq, Res.bind, nilOk]
  cases binop P σ2 op a b <;> rfl

/-- plain assignment: the value first, then the store -/
theorem assign_value_then_store (f : Nat) (n : Name) (nl line env : Nat) (v : Expr) (repl : Bool)
    (σ σ1 : Store) (x : Val) (fr : Nat)
    (h0 : σ.hadError = false) (hv : evalE P f v env repl σ = .ok (x, .none) σ1) (h1 : σ1.hadError = false)
    (hf : σ1.find env n = some fr) :
    evalE P (f + 1) (.assign n nl v line) env repl σ = .ok (x, .none) (σ1.define fr n x) := by
  rw [evalE]; simp only [guardErr, ER.seq, Res.bind, h0, hv, h1, hf]; simp

/-- indexed store: array, then index, then value, then the store -/
theorem index_store_order (f : Nat) (a i v : Expr) (line env : Nat) (repl : Bool)
    (σ σ1 σ2 σ3 : Store) (av iv x : Val)
    (h0 : σ.hadError = false)
    (ha : evalE P f a env repl σ = .ok (av, .none) σ1)
    (hi : evalE P f i env repl σ1 = .ok (iv, .none) σ2)
    (hv : evalE P f v env repl σ2 = .ok (x, .none) σ3) :
    evalE P (f + 1) (.arrayAssign a i v line) env repl σ =
      match checkIndex σ3 av iv "Invalid array assignment. Not an array." with
      | .error m => .ok (.nil, .none) (σ3.rte m line)
      | .ok (r, k) => .ok (x, .none) { σ3 with arrs := σ3.arrs.set r ((σ3.arrs[r]?.getD []).set k x) } := by
  rw [evalE]; simp only [guardErr, ER.seq, Res.bind, h0, ha, hi, hv]; simp [guardErr, ER.seq, Res.bind, nilOk]
  split <;> simp_all

/-- elements and arguments are evaluated left to right, each in the store its predecessor produced -/
theorem list_left_to_right (f : Nat) (e : Expr) (es : List Expr) (env : Nat) (repl : Bool)
    (σ σ1 : Store) (v : Val) (he : evalE P f e env repl σ = .ok (v, .none) σ1) :
    evalList P (f + 1) (e :: es) env repl σ =
      match evalList P f es env repl σ1 with
      | .ok (vs, sig) σ2 => .ok (v :: vs, sig) σ2
      | .abn x => .abn x := by
  rw [evalList]; simp only [guardErr, ER.seq, Res.bind, he]; simp
  cases evalList P f es env repl σ1 with
  | ok p σ2 => cases p; rfl
  | abn x => rfl

/-- object initialisers likewise, in the listed (source) order -/
theorem props_in_source_order (f : Nat) (k : Name) (e : Expr) (ps : List (Name × Expr)) (env : Nat) (repl : Bool)
    (σ σ1 : Store) (v : Val) (he : evalE P f e env repl σ = .ok (v, .none) σ1) :
    evalProps P (f + 1) ((k, e) :: ps) env repl σ =
      match evalProps P f ps env repl σ1 with
      | .ok (kvs, sig) σ2 => .ok ((k, v) :: kvs, sig) σ2
      | .abn x => .abn x := by
  rw [evalProps]; simp only [guardErr, ER.seq, Res.bind, he]; simp
  cases evalProps P f ps env repl σ1 with
  | ok p σ2 => cases p; rfl
  | abn x => rfl

/-- grouping is transparent: parentheses evaluate to their content -/
theorem grouping_transparent (f : Nat) (e : Expr) (line env : Nat) (repl : Bool) (σ : Store) (h0 : σ.hadError = false) :
    evalE P (f + 1) (.grouping e line) env repl σ = evalE P f e env repl σ := by
  rw [evalE]; simp [guardErr, ER.seq, Res.bind, h0]

end
end Borno.Props.C14
