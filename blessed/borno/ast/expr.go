package ast

import (
	"fmt"

	"blessedborno/token"
	"golang.org/x/text/unicode/norm"
)

// Expr is the base interface for all expression types.
type Expr interface {
	String() string
}

// Binary represents a binary expression.
type Binary struct {
	Left     Expr
	Operator token.Token
	Right    Expr
	Line     int
}

func (b *Binary) String() string {
	return fmt.Sprintf("(%s %s %s)", b.Left.String(), b.Operator.Lexeme, b.Right.String())
}

// Grouping represents a grouped expression.
type Grouping struct {
	Expression Expr
	Line       int
}

func (g *Grouping) String() string {
	return fmt.Sprintf("(group %s)", g.Expression.String())
}

// Literal represents a literal value.
type Literal struct {
	Value interface{}
	Line  int
}

func (l *Literal) String() string {
	if l.Value == nil {
		return "nil"
	}
	
	if runes, ok := l.Value.([]rune); ok {
        return norm.NFC.String(string(runes))
    }
    return norm.NFC.String(fmt.Sprintf("%v", l.Value))
}

// Unary represents a unary expression.
type Unary struct {
	Operator token.Token
	Right    Expr
	Line     int
}

func (u *Unary) String() string {
	return fmt.Sprintf("(%s%s)", u.Operator.Lexeme, u.Right.String())
}

type Identifier struct {
	Name token.Token
	Line int
}

func (i *Identifier) String() string {
	return i.Name.Lexeme
}

type Logical struct {
	Left     Expr
	Operator token.Token
	Right    Expr
}

func (l *Logical) String() string {
	return fmt.Sprintf("(%s %s %s)", l.Left.String(), l.Operator.Lexeme, l.Right.String())
}

// Call represents a function or method call expression.
type Call struct {
	Callee    Expr        // The expression that evaluates to the function (callee).
	Paren     token.Token // The opening parenthesis of the call (for error reporting).
	Arguments []Expr      // The list of arguments passed to the function.
}

func (c *Call) String() string {
	argStrings := ""
	for i, arg := range c.Arguments {
		if i != 0 {
			argStrings += ", "
		}
		argStrings += arg.String()
	}
	return fmt.Sprintf("%s(%s)", c.Callee.String(), argStrings)
}

type Return struct {
	Keyword token.Token
	Value   Expr
}

func (r *Return) String() string {
	return "return " + r.Value.String()
}

// ArrayLiteral represents an array literal in the source code.
type ArrayLiteral struct {
	Elements []Expr
	Line     int
}

func (a *ArrayLiteral) String() string {
	val := "["
	for i, e := range a.Elements {
		val += e.String()
		if i+1 != len(a.Elements) {
			val += ", "
		}
	}
	val += "]"
	return val
}

// ArrayAccess represents accessing an element from an array.
type ArrayAccess struct {
	Array Expr
	Index Expr
	Line  int
}

func (a *ArrayAccess) String() string {
	return fmt.Sprintf("%v[%v]", a.Array, a.Index)
}

// ObjectLiteral represents an object literal in the source code.
type ObjectLiteral struct {
	Properties map[string]Expr
	Keys       []string // property names in source order (first occurrence)
}

func (o *ObjectLiteral) String() string {
	val := "{"
	i := 0
	for _, key := range o.Keys {
		if i > 0 {
			val += ", "
		}
		val += fmt.Sprintf("%s: %s", key, o.Properties[key].String())
		i++
	}
	val += "}"
	return val
}

type PropertyAccess struct {
	Object   Expr
	Property token.Token
	Line     int
}

func (p *PropertyAccess) String() string {
	return fmt.Sprintf("%s.%s", p.Object.String(), p.Property.Lexeme)
}
