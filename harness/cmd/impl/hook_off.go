//go:build !verif

package main

func resetStdin() {}
