package interpreter

import (
	"bufio"
	"fmt"
	"io"
	"os"
	"strings"
	"time"
)

type NativeClockFn struct{}

func (n NativeClockFn) Call(i *Interpreter, arguments []interface{}) (interface{}, error) {
	return float64(time.Now().UnixMilli()) / 1000.0, nil
}

func (n NativeClockFn) Arity() int {
	return 0
}

func (n NativeClockFn) String() string {
	return "<native fn>"
}

var stdinReader *bufio.Reader

// NativeInputFn defines the native `input` function for the interpreter.
type NativeInputFn struct{}

// Call executes the native `input` function.
func (n NativeInputFn) Call(i *Interpreter, arguments []interface{}) (interface{}, error) {
	// Check if there's an optional prompt argument
	if len(arguments) > 1 {
		return nil, fmt.Errorf("input function accepts at most 1 argument")
	}

	// If a prompt argument is provided, print it
	if len(arguments) == 1 {
		var prompt string
		switch arg := arguments[0].(type) {
		case string:
			// Already a Go string
			prompt = arg
		case []rune:
			// Convert rune slice to string
			prompt = string(arg)
		default:
			return nil, fmt.Errorf("input function's argument must be a string or []rune")
		}
	
		fmt.Print(prompt)
	}

	// Read the input from the user. One reader is shared by all calls, so that
	// what it buffered beyond the current line is not lost for the next call.
	if stdinReader == nil {
		stdinReader = bufio.NewReader(os.Stdin)
	}
	input, err := stdinReader.ReadString('\n')
	if err != nil && !(err == io.EOF && input != "") {
		return nil, fmt.Errorf("failed to read input: %v", err)
	}

	// Trim the newline characters and return the input string
	return strings.TrimSpace(input), nil
}

func (n NativeInputFn) Arity() int {
	return -1 // Variable number of arguments: 0 or 1 (for prompt)
}

func (n NativeInputFn) String() string {
	return "<native fn input>"
}
