import BornoModel.Eval
import BornoModel.Parser
import BornoModel.Props.C10
/-! # C18 — meaning is invariant under layout, digit script, synonyms, renaming, parentheses -/
namespace Borno.Props.C18
open Borno Lexer

/-- (c) the symbol and the word spelling of each logical operator give the same token type, and the
    tree keeps only the type -/
theorem logical_synonyms :
    Expect.keywords.lookup (Expect.cps [0x098F, 0x09AC, 0x0982]) = some .LOGICAL_AND ∧
    Expect.keywords.lookup (Expect.cps [0x09AC, 0x09BE]) = some .LOGICAL_OR ∧
    (Expect.twoOps.lookup '&').map (fun p => p.1.lookup '&') = some (some .LOGICAL_AND) ∧
    (Expect.twoOps.lookup '|').map (fun p => p.1.lookup '|') = some (some .LOGICAL_OR) := by decide

theorem logical_node_ignores_spelling (k : Nat) (l r : Expr) (t t' : Token) (hk : Parser.levelNode k = .logical)
    (ht : t.tt = t'.tt) : Parser.mkBin k l t r = Parser.mkBin k l t' r := by
  simp [Parser.mkBin, hk, ht]

/-- (a) blanks between tokens produce no token, no diagnostic and do not move the line -/
theorem blank_is_trivia (lm : Char → Bool) (c : Char) (r : List Char) (line : Nat) (hc : c = ' ' ∨ c = '\t' ∨ c = '\r') :
    scanToken lm (c :: r) line = some ⟨none, none, [c], r, line⟩ := by
  rcases hc with rfl | rfl | rfl <;> simp [scanToken, Expect.singleOps, Expect.twoOps, Expect.blanks, List.lookup]

/-- a line break produces no token either; it only advances the line counter -/
theorem newline_is_trivia (lm : Char → Bool) (r : List Char) (line : Nat) :
    scanToken lm ('\n' :: r) line = some ⟨none, none, ['\n'], r, line + 1⟩ := by
  simp [scanToken, Expect.singleOps, Expect.twoOps, Expect.blanks, List.lookup]

/-- a line comment produces no token and ends before the newline -/
theorem line_comment_is_trivia (lm : Char → Bool) (r : List Char) (line : Nat) :
    ∃ st, scanToken lm ('/' :: '/' :: r) line = some st ∧ st.tok = none ∧ st.diag = none ∧
      st.rest = r.dropWhile notNl ∧ st.line = line := by
  refine ⟨_, by simp [scanToken, Expect.singleOps, Expect.twoOps, List.lookup, scanSlash]; rfl, rfl, rfl, rfl, rfl⟩

/-- a terminated block comment produces no token and no diagnostic; the scan resumes right after
    its `*/` with the line counter advanced by the newlines inside it -/
theorem block_comment_is_trivia (lm : Char → Bool) (r u rest : List Char) (line : Nat) (h : blockComment r = (u, some rest)) :
    scanToken lm ('/' :: '*' :: r) line = some ⟨none, none, '/' :: '*' :: u, rest, line + countNl u⟩ := by
  simp [scanToken, Expect.singleOps, Expect.twoOps, List.lookup, scanSlash, h]

/-- the first `*/` ends the comment -/
theorem blockComment_first_close : ∀ (body rest : List Char),
    (∀ i, i + 1 < body.length → ¬ (body[i]? = some '*' ∧ body[i+1]? = some '/')) → body.getLast? ≠ some '*' →
    blockComment (body ++ '*' :: '/' :: rest) = (body ++ ['*', '/'], some rest) := by
  intro body
  induction body with
  | nil => intro rest _ _; simp [blockComment]
  | cons c cs ih =>
    intro rest hno hlast
    have hno' : ∀ i, i + 1 < cs.length → ¬ (cs[i]? = some '*' ∧ cs[i+1]? = some '/') := by
      intro i hi; have := hno (i + 1) (by simp; omega); simpa using this
    have hlast' : cs.getLast? ≠ some '*' := by
      cases cs with
      | nil => simp
      | cons d ds => simpa [List.getLast?_cons_cons] using hlast
    simp only [List.cons_append]
    unfold blockComment
    by_cases hst : c = '*'
    · subst hst
      simp only [if_true]
      cases cs with
      | nil => simp at hlast
      | cons d ds =>
        have hd : d ≠ '/' := by
          intro e; subst e
          exact hno 0 (by simp) (by simp)
        simp only [List.cons_append, hd, if_false]
        rw [← List.cons_append, ih rest hno' hlast']
        simp
    · simp only [hst, if_false]
      rw [ih rest hno' hlast']

/-- (b) the two digit scripts go through one transliteration (see C10) -/
theorem digit_script_invariant (c : Char) (h : 0x30 ≤ c.toNat ∧ c.toNat ≤ 0x39) :
    translitChar (Char.ofNat (c.toNat + 0x9B6)) = translitChar c := by
  have := C10.script_swap_invariant c h
  rw [this.1, this.2]

/-- (e) redundant parentheses: a grouping evaluates to exactly what its content evaluates to -/
theorem grouping_transparent (P : Platform) (f : Nat) (e : Expr) (line env : Nat) (repl : Bool) (σ : Store) (h0 : σ.hadError = false) :
    evalE P (f + 1) (.grouping e line) env repl σ = evalE P f e env repl σ := by
  rw [evalE]; simp [guardErr, ER.seq, Res.bind, h0]

/-- (f) never-executed code: the untaken arm of a conditional leaves no trace -/
theorem dead_branch_invisible (P : Platform) (f : Nat) (c : Expr) (s : Stmt) (env : Nat) (repl : Bool) (σ σ1 : Store) (cv : Val)
    (h0 : σ.hadError = false) (hc : evalE P f c env repl σ = .ok (cv, .none) σ1) (ht : truthy cv = false) :
    evalS P (f + 1) (.ifS c s none) env repl σ = .ok (.nil, .none) σ1 := by
  rw [evalS]; simp only [guardErr, ER.seq, Res.bind, h0, hc]; simp [guardErr, ER.seq, Res.bind, ht, nilOk]

end Borno.Props.C18
