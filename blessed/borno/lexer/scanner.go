package lexer

import (
	"strconv"
	"unicode"

	"blessedborno/token"
	"blessedborno/utils"
)

var keywords = map[string]token.TokenType{
	"ফাংশন":      token.FUN,
	"ধরি":        token.VAR,
	"ফর":         token.FOR,
	"যদি":        token.IF,
	"নাহয়":       token.ELSE,
	"যতক্ষণ":     token.WHILE,
	"সত্য":       token.TRUE,
	"মিথ্যা":     token.FALSE,
	"nil":        token.NIL,
	"দেখাও":      token.PRINT,
	"ফেরত":       token.RETURN,
	"থামো":       token.BREAK,
	"চালিয়ে_যাও": token.CONTINUE,

	// Logical operators in Bangla
	"এবং": token.LOGICAL_AND,
	"বা":  token.LOGICAL_OR,
}

type Scanner struct {
	source  []rune
	tokens  []token.Token
	start   int
	current int
	line    int
}

// NewScanner creates a new Scanner instance
func NewScanner(source []rune) *Scanner {
	return &Scanner{
		source:  source,
		tokens:  make([]token.Token, 0),
		start:   0,
		current: 0,
		line:    1,
	}
}

// ScanTokens scans the source and returns the list of tokens
func (s *Scanner) ScanTokens() []token.Token {
	for !s.isAtEnd() {
		// We are at the beginning of the next lexeme.
		s.start = s.current
		s.scanToken()
	}

	s.tokens = append(s.tokens, *token.NewToken(token.EOF, "", nil, s.line))
	return s.tokens
}

// scanToken scans a single token
func (s *Scanner) scanToken() {
	c := s.advance()

	switch c {
	case '(':
		s.addToken(token.LEFT_PAREN)
	case ')':
		s.addToken(token.RIGHT_PAREN)
	case '{':
		s.addToken(token.LEFT_BRACE)
	case '}':
		s.addToken(token.RIGHT_BRACE)
	case '[':
		s.addToken(token.LEFT_BRACKET)
	case ']':
		s.addToken(token.RIGHT_BRACKET)
	case ',':
		s.addToken(token.COMMA)
	case '.':
		s.addToken(token.DOT)
	case '-':
		s.addToken(token.MINUS)
	case ':':
		s.addToken(token.COLON)
	case '+':
		s.addToken(token.PLUS)
	case ';':
		s.addToken(token.SEMICOLON)
	case '|':
		if s.match('|') {
			s.addToken(token.LOGICAL_OR) // Recognize '||' as logical OR
		} else {
			s.addToken(token.OR)
		}
	case '&':
		if s.match('&') {
			s.addToken(token.LOGICAL_AND) // Recognize '&&' as logical AND
		} else {
			s.addToken(token.AND)
		}
	case '^':
		s.addToken(token.XOR)
	case '~':
		s.addToken(token.NOT)
	case '*':
		if s.match('*') {
			s.addToken(token.POWER)
		} else {
			s.addToken(token.STAR)
		}
	case '!':
		if s.match('=') {
			s.addToken(token.BANG_EQUAL)
		} else {
			s.addToken(token.BANG)
		}
	case '=':
		if s.match('=') {
			s.addToken(token.EQUAL_EQUAL)
		} else {
			s.addToken(token.EQUAL)
		}
	case '<':
		if s.match('=') {
			s.addToken(token.LESS_EQUAL)
		} else if s.match('<') {
			s.addToken(token.LEFT_SHIFT)
		} else {
			s.addToken(token.LESS)
		}
	case '>':
		if s.match('=') {
			s.addToken(token.GREATER_EQUAL)
		} else if s.match('>') {
			s.addToken(token.RIGHT_SHIFT)
		} else {
			s.addToken(token.GREATER)
		}
	case '%':
		s.addToken(token.MODULO)
	case '/':
		if s.match('/') {
			for s.peek() != '\n' && !s.isAtEnd() {
				s.advance()
			}
		} else if s.match('*') {
			s.multilineComment()
		} else {
			s.addToken(token.SLASH)
		}
	case ' ', '\r', '\t':
		// Ignore whitespace
	case '\n':
		s.line++
	case '"':
		s.stringLiteral()
	default:
		if isDigit(c) {
			s.number()
		} else if isAlpha(c) {
			s.identifier()
		} else {
			utils.GlobalError(s.line, "Unexpected character.")
		}
	}
}

func (s *Scanner) identifier() {
	for isAlphaNumeric(s.peek()) {
		s.advance()
	}

	text := string(s.source[s.start:s.current])
	if keyword, ok := keywords[text]; ok {
		s.addToken(keyword)
	} else {
		s.addToken(token.IDENTIFIER)
	}
}

func (s *Scanner) number() {
	for isDigit(s.peek()) {
		s.advance()
	}

	// Look for a fractional part.
	if s.peek() == '.' && isDigit(s.peekNext()) {
		// Consume the "."
		s.advance()

		for isDigit(s.peek()) {
			s.advance()
		}
	}

	number_lexeme := utils.ConvertBanglaDigitsToASCII(string(s.source[s.start:s.current]))
	value, err := strconv.ParseFloat(number_lexeme, 64)
	if err != nil {
		utils.GlobalError(s.line, "Invalid number format")
		return
	}

	s.AddToken(token.NUMBER, value)
}

func (s *Scanner) stringLiteral() {
	for s.peek() != '"' && !s.isAtEnd() {
		if s.peek() == '\n' {
			s.line++
		}
		s.advance()
	}

	if s.isAtEnd() {
		utils.GlobalError(s.line, "Unterminated string.")
		return
	}

	s.advance()

	value := s.source[s.start+1 : s.current-1]
	s.AddToken(token.STRING, string(value))
}

func (s *Scanner) multilineComment() {
	for !s.isAtEnd() {
		if s.peek() == '\n' {
			s.line++
		} else if s.peek() == '*' && s.peekNext() == '/' {
			// Close the comment
			s.advance() // consume *
			s.advance() // consum /
			return
		}
		s.advance()
	}
	utils.GlobalError(s.line, "Unterminated multiline comment")
}

func (s *Scanner) match(expected rune) bool {
	if s.isAtEnd() {
		return false
	}
	if s.source[s.current] != expected {
		return false
	}
	s.current++
	return true
}

func (s *Scanner) peek() rune {
	if s.isAtEnd() {
		return 0
	}
	return s.source[s.current]
}

func (s *Scanner) peekNext() rune {
	if s.current+1 >= len(s.source) {
		return 0
	}
	return s.source[s.current+1]
}

func isAlpha(r rune) bool {
	// Accept letters and combining marks (as well as underscore, if you like)
	return unicode.IsLetter(r) || unicode.IsMark(r) || r == '_'
}

func isDigit(c rune) bool {
	return (c >= '0' && c <= '9') || (c >= '০' && c <= '৯') // U+09E6 to U+09EF}
}

func isAlphaNumeric(c rune) bool {
	return isAlpha(c) || isDigit(c)
}

// isAtEnd checks if we've reached the end of the source
func (s *Scanner) isAtEnd() bool {
	return s.current >= len(s.source)
}

func (s *Scanner) advance() rune {
	b := s.source[s.current]
	s.current++
	return b
}

// addToken adds a new token to the list
func (s *Scanner) addToken(tokenType token.TokenType) {
	s.AddToken(tokenType, nil)
}

func (s *Scanner) AddToken(tokenType token.TokenType, literal interface{}) {
	text := string(s.source[s.start:s.current])
	s.tokens = append(s.tokens, *token.NewToken(tokenType, text, literal, s.line))
}
