package environment

import (
	"fmt"

	"blessedborno/token"
	"blessedborno/utils"
)

type Environment struct {
	Values map[string]interface{}
	Parent *Environment
}

func NewEnvironment() *Environment {
	return &Environment{Values: make(map[string]interface{})}
}

func NewEnvironmentWithParent(parent *Environment) *Environment {
	return &Environment{Values: make(map[string]interface{}), Parent: parent}
}

// Define a new variable in environment
func (e *Environment) Define(name string, value interface{}) {
	e.Values[name] = value
}

// Get the value of a variable, checking parent scopes if necessary
func (e *Environment) Get(name string) (interface{}, error) {
	if value, exists := e.Values[name]; exists {
		return value, nil
	}

	if e.Parent != nil {
		return e.Parent.Get(name)
	}

	return nil, fmt.Errorf("undefined variable '%s'", name)
}

func (e *Environment) GetInCurrentScope(name string) (interface{}, error) {
    if value, exists := e.Values[name]; exists {
        return value, nil
    }
    return nil, fmt.Errorf("undefined variable '%s'", name)
}


func (e *Environment) Assign(name token.Token, value interface{}) {
	if _, exists := e.Values[name.Lexeme]; exists {
		e.Values[name.Lexeme] = value
		return
	}

	if e.Parent != nil {
		e.Parent.Assign(name, value)
		return
	}

	utils.RuntimeError(name, "Undefined variable '"+name.Lexeme+"'.")
}
