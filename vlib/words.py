# Bangla words a maintainer might one day give a meaning to (logic, arithmetic, control, data words), used as ordinary
# identifiers: names are data to the language, whatever they mean to a reader.  Keywords and built-in names are excluded.
from .core import KW, NAT

_RAW = """
না হ্যাঁ নয় নাই নেই অথবা কিংবা ও আর তবে তাহলে নাহলে অন্যথায় নইলে যখন যতদিন পর্যন্ত জন্য প্রতি প্রতিটি মধ্যে থেকে
শুরু শেষ থামো থামাও চালাও চলো দাও নাও লেখো পড়ো ছাপাও দেখা বলো শূন্য খালি কিছুনা সমান অসমান বড় ছোট বেশি কম
যোগ বিয়োগ গুণ ভাগ ভাগশেষ বর্গ মান নাম সংখ্যা লেখা তালিকা অবজেক্ট কাজ চলক ধ্রুবক নতুন এই সে নিজ আমি টাইপ ধরন
দৈর্ঘ্য আকার সূচক চাবি উপাদান ফল ফলাফল যদিনা নাহলেযদি এবংনা বানা সত্যি মিথ্যে হয় হলে করো করি ধর ধরো রাখো মুছো
not and or if else end then do done let var fn func function return print true false null none nil_ self this new typeof in of is
"""
_RESERVED = set(KW.values()) | set(NAT.values()) | {'nil'}
WORDS = []
for _w in _RAW.split():
    if _w not in _RESERVED and _w not in WORDS:
        WORDS.append(_w)
