import BornoModel.Eval
import BornoModel.Lemmas.Interchange
import BornoModel.Lemmas.InterchangeObj
/-! # C16 — a value behaves the same however it was produced

The model has exactly one constructor of `Val` per value kind (`Val.num` for every number,
`Val.str` for every string), and every consumer is a function of the `Val` alone.  That the Go
code has this shape too (one host representation per kind) is the dynamic `K:` check of every
campaign and the correspondence of the producers below. -/
namespace Borno.Props.C16
open Borno Expect

/-- literal, arithmetic, bitwise and built-in producers of a number all produce `Val.num` -/
theorem number_producers (P : Platform) (σ : Store) (x y : F64) (i j : Int)
    (hx : toInt64 (.num x) = some i) (hy : toInt64 (.num y) = some j) :
    litVal (.num x) = .num x ∧
    binop P σ .PLUS (.num x) (.num y) = .ok (.num (F64.add x y)) ∧
    binop P σ .AND (.num x) (.num y) = .ok (.num (F64.ofInt (bitAnd i j))) ∧
    binop P σ .OR (.num x) (.num y) = .ok (.num (F64.ofInt (bitOr i j))) ∧
    unop .NOT (.num x) = .ok (.num (F64.ofInt (bitNot i))) ∧
    callPure P .round [.num x] σ = .ok (.num x.round, σ) ∧
    callPure P .abs [.num x] σ = .ok (.num x.abs, σ) ∧
    (∀ r, callPure P .len [.arr r] σ = .ok (.num (F64.ofNat (σ.arrs[r]?.getD []).length), σ)) := by
  refine ⟨rfl, rfl, ?_, ?_, ?_, rfl, rfl, fun _ => rfl⟩
  · simp [binop, intPair, hx, hy, Except.map]
  · simp [binop, intPair, hx, hy, Except.map]
  · simp [unop, hx]

/-- literal, concatenation and `ইনপুট` producers of a string all produce `Val.str` -/
theorem string_producers (s t : List Char) (σ : Store) :
    litVal (.str s) = .str s ∧ opAdd (.str s) (.str t) = .ok (.str (s ++ t)) ∧
    (∀ line rest, readLine σ.input = some (line, rest) →
      (callInput [] σ).2 = .ok (.str (trimSpace line))) := by
  refine ⟨rfl, rfl, ?_⟩
  intro line rest h
  simp [callInput, inputPrompt, h]

/-- consumers depend on the value only: truthiness, equality, coercions and printing are functions of `Val` -/
theorem consumers_depend_on_value_only (σ : Store) (v w : Val) (h : v = w) (f : Nat) :
    truthy v = truthy w ∧ toNumber v = toNumber w ∧ toInt64 v = toInt64 w ∧
    stringify σ f v = stringify σ f w ∧ (∀ u, valEq σ v u = valEq σ w u) := by subst h; simp

/-- **a value behaves the same however it was produced, in every context**: two producers that, in every scope
    and store, come to the same result (the same value, the same effects) can stand in for each other in any
    operand, argument, element, subscript, callee, receiver or assigned-value position of any enclosing expression,
    nested to any depth, without changing what the whole comes to (from some step budget on) -/
theorem producers_interchangeable_in_every_context (P : Platform) (C : Ctx) (e e' : Expr) (h : EvEq P e e') :
    EvEq P (C.plug e) (C.plug e') := plug_congr P C h

/-- … and so in the statements that consume a value: print, expression statement, declaration, return, condition -/
theorem producers_interchangeable_in_statements (P : Platform) (C : Ctx) (e e' : Expr) (h : EvEq P e e') (n : Name) (l : Nat)
    (t : Stmt) (el : Option Stmt) :
    EvS P (.print (C.plug e)) (.print (C.plug e')) ∧ EvS P (.expr (C.plug e)) (.expr (C.plug e')) ∧
    EvS P (.var ⟨n, l, some (C.plug e)⟩) (.var ⟨n, l, some (C.plug e')⟩) ∧
    EvS P (.returnS l (some (C.plug e))) (.returnS l (some (C.plug e'))) ∧
    EvS P (.ifS (C.plug e) t el) (.ifS (C.plug e') t el) :=
  have hc := plug_congr P C h
  ⟨evS_print P hc, evS_expr P hc, evS_var P n l hc, evS_return P l hc, evS_ifCond P t el hc⟩

/-- … including the one position `Ctx` leaves out: the initialiser of a property of an object literal -/
theorem producers_interchangeable_in_object_literals (P : Platform) (C D : Ctx) (pre post : List (Name × Expr)) (k : Name) (tc : Bool)
    (e e' : Expr) (h : EvEq P e e') :
    EvEq P (C.plug (.objectLit (pre ++ (k, D.plug e) :: post) tc)) (C.plug (.objectLit (pre ++ (k, D.plug e') :: post) tc)) :=
  plug_congr_propVal P C pre post k tc D h

/-- two concrete producers of one string: the literal, and the concatenation of its halves -/
theorem literal_and_concatenation_agree (P : Platform) (s t : List Char) (l1 l2 l3 l4 : Nat) :
    EvEq P (.binary (.literal (.str s) l1) .PLUS l2 (.literal (.str t) l3)) (.literal (.str (s ++ t)) l4) := by
  intro env repl σ
  refine ⟨2, fun F hF => ?_⟩
  obtain ⟨F', rfl⟩ : ∃ F', F = F' + 2 := ⟨F - 2, by omega⟩
  cases hs : σ.hadError with
  | true => rw [evalE_guard P _ _ env repl σ hs, evalE_guard P _ _ env repl σ hs]
  | false =>
    simp [evalE, guardErr, hs, ER.seq, Res.bind, binop, opAdd, litVal, stringifyOperand]

/-- hence, for instance, inside any context -/
example (P : Platform) (C : Ctx) (s t : List Char) :
    EvEq P (C.plug (.binary (.literal (.str s) 1) .PLUS 1 (.literal (.str t) 1))) (C.plug (.literal (.str (s ++ t)) 1)) :=
  plug_congr P C (literal_and_concatenation_agree P s t 1 1 1 1)

end Borno.Props.C16
